/-
  C06 lemmas, part 3: on a well-formed universe the reference validator, run on the GENERATED
  schema, computes exactly validity against the type the class denotes (`validElem_gen`).
-/
import Proofs.SchemaEmit
import Proofs.SchemaLists
namespace SpyneModel
namespace Schema
open Xml

/-! ### structural equality of types -/

mutual
  theorem Ty.beq_eq : ∀ (a b : Ty), Ty.beq a b = true → a = b
    | .prim p o, .prim p' o', h => by
      simp only [Ty.beq, Bool.and_eq_true, decide_eq_true_eq] at h
      rw [h.1, h.2]
    | .obj n ns b fs o, .obj n' ns' b' fs' o', h => by
      simp only [Ty.beq, Bool.and_eq_true, decide_eq_true_eq] at h
      obtain ⟨⟨⟨⟨h1, h2⟩, h3⟩, h4⟩, h5⟩ := h
      rw [h1, h2, h3, h5, fieldsBeq_eq fs fs' h4]
    | .arr m e o, .arr m' e' o', h => by
      simp only [Ty.beq, Bool.and_eq_true, decide_eq_true_eq] at h
      obtain ⟨⟨h1, h2⟩, h3⟩ := h
      rw [h1, h3, Ty.beq_eq e e' h2]
    | .prim _ _, .obj _ _ _ _ _, h => by simp [Ty.beq] at h
    | .prim _ _, .arr _ _ _, h => by simp [Ty.beq] at h
    | .obj _ _ _ _ _, .prim _ _, h => by simp [Ty.beq] at h
    | .obj _ _ _ _ _, .arr _ _ _, h => by simp [Ty.beq] at h
    | .arr _ _ _, .prim _ _, h => by simp [Ty.beq] at h
    | .arr _ _ _, .obj _ _ _ _ _, h => by simp [Ty.beq] at h

  theorem fieldsBeq_eq : ∀ (a b : List (Text × Ty)), fieldsBeq a b = true → a = b
    | [], [], _ => rfl
    | (k, t) :: fs, (k', t') :: fs', h => by
      simp only [fieldsBeq, Bool.and_eq_true, decide_eq_true_eq] at h
      obtain ⟨⟨h1, h2⟩, h3⟩ := h
      rw [h1, Ty.beq_eq t t' h2, fieldsBeq_eq fs fs' h3]
    | [], _ :: _, h => by simp [fieldsBeq] at h
    | _ :: _, [], h => by simp [fieldsBeq] at h
end

/-! ### the classes reachable from the registry are closed under nesting -/

mutual
  theorem nested_closed : ∀ (t : Ty) (D : ClassDef), D ∈ nested t → ∀ D' ∈ nestedFields D.fields, D' ∈ nested t
    | .prim _ _, D, h => by simp [nested] at h
    | .obj n ns b fs o, D, h => by
      intro D' hD'
      simp only [nested, List.mem_cons] at h ⊢
      rcases h with e | e
      · subst e; exact Or.inr hD'
      · exact Or.inr (nestedFields_closed fs D e D' hD')
    | .arr m e o, D, h => by
      intro D' hD'
      simp only [nested] at h ⊢
      exact nested_closed e D h D' hD'

  theorem nestedFields_closed : ∀ (fs : List (Text × Ty)) (D : ClassDef), D ∈ nestedFields fs →
      ∀ D' ∈ nestedFields D.fields, D' ∈ nestedFields fs
    | [], D, h => by simp [nestedFields] at h
    | (k, t) :: r, D, h => by
      intro D' hD'
      simp only [nestedFields, List.mem_append] at h ⊢
      rcases h with e | e
      · exact Or.inl (nested_closed t D e D' hD')
      · exact Or.inr (nestedFields_closed r D e D' hD')
end

theorem nested_sub_nestedFields (fs : List (Text × Ty)) (k : Text) (t : Ty) (h : (k, t) ∈ fs) :
    ∀ D ∈ nested t, D ∈ nestedFields fs := by
  induction fs with
  | nil => cases h
  | cons g r ih =>
    obtain ⟨k', t'⟩ := g
    intro D hD
    simp only [nestedFields, List.mem_append]
    rcases List.mem_cons.mp h with e | e
    · injection e with e1 e2; subst e2; exact Or.inl hD
    · exact Or.inr (ih e D hD)

theorem allClasses_closed (A : App) (D : ClassDef) (h : D ∈ A.allClasses) :
    ∀ D' ∈ nestedFields D.fields, D' ∈ A.allClasses := by
  intro D' hD'
  unfold App.allClasses at h ⊢
  rcases List.mem_append.mp h with e | e
  · exact List.mem_append.mpr (Or.inr (List.mem_flatMap.mpr ⟨D, e, hD'⟩))
  · obtain ⟨C, hC, hDC⟩ := List.mem_flatMap.mp e
    exact List.mem_append.mpr (Or.inr (List.mem_flatMap.mpr ⟨C, hC, nestedFields_closed C.fields D hDC D' hD'⟩))

theorem parent_mem (A : App) (D P : ClassDef) (h : parentOf A.iface D = some P) : P ∈ A.allClasses := by
  unfold parentOf at h
  cases hb : D.base with
  | none => rw [hb] at h; cases h
  | some b =>
    rw [hb] at h
    exact List.mem_append.mpr (Or.inl (List.mem_of_find?_eq_some h))

theorem ownFields_sub (I : Iface) (D : ClassDef) : ∀ f ∈ ownFields I D, f ∈ D.fields := by
  intro f hf
  unfold ownFields at hf
  split at hf
  · exact List.mem_of_mem_drop hf
  · exact hf

/-! ### the content model of a class in the generated schema -/

/-- the particles the base chain of `D` contributes, each with the namespace of its declaring class -/
def classParticles (A : App) : Nat → ClassDef → List (Text × Particle)
  | 0, _ => []
  | f + 1, D =>
    (match parentOf A.iface D with
     | some P => classParticles A f P
     | none => []) ++ (ownFields A.iface D).map (fun fl => (D.ns, particleOf A D fl))

theorem effParticles_gen (A : App)
    (hres : ∀ D ∈ A.allClasses, (gen A).complex.lookup (D.ns, D.name) = some (classComplex A D).2) :
    ∀ (f : Nat) (D : ClassDef), D ∈ A.allClasses →
      effParticles (gen A).complex f (D.ns, D.name) = classParticles A f D := by
  intro f
  induction f with
  | zero => intro D _; rfl
  | succ f ih =>
    intro D hD
    simp only [effParticles, classParticles, hres D hD, classComplex]
    cases hp : parentOf A.iface D with
    | none => simp [List.map_map, Function.comp_def]
    | some P =>
      simp only [Option.map_some, List.map_map, Function.comp_def]
      rw [ih P (parent_mem A D P hp)]

/-- particle `e` (with its namespace) is what the generator writes for member `x.2`, declared by a class
    of namespace `x.1` -/
def AlignedG (A : App) (e : Text × Particle) (x : Text × (Text × Ty)) : Prop :=
  e.1 = x.1 ∧ e.2.name = x.2.1 ∧ e.2.occ = x.2.2.occ ∧
  ∃ D' : ClassDef, D' ∈ A.allClasses ∧ x.2 ∈ ownFields A.iface D' ∧ D'.ns = x.1 ∧
    e.2.type = refOf A D'.ns D'.name x.2.1 x.2.2

inductive All2 {α β} (R : α → β → Prop) : List α → List β → Prop
  | nil : All2 R [] []
  | cons {a b l1 l2} : R a b → All2 R l1 l2 → All2 R (a :: l1) (b :: l2)

theorem forall₂_map_of_mem {α β} (R : β → α → Prop) (g : α → β) :
    ∀ l : List α, (∀ a ∈ l, R (g a) a) → All2 R (l.map g) l
  | [], _ => All2.nil
  | a :: r, h => All2.cons (h a (by simp)) (forall₂_map_of_mem R g r (fun b hb => h b (by simp [hb])))

theorem forall₂_append {α β} {R : α → β → Prop} {a1 a2 : List α} {b1 b2 : List β}
    (h1 : All2 R a1 b1) (h2 : All2 R a2 b2) : All2 R (a1 ++ a2) (b1 ++ b2) := by
  induction h1 with
  | nil => exact h2
  | cons h _ ih => exact All2.cons h ih

theorem all2_map_right {α β γ} {R : α → γ → Prop} (g : β → γ) :
    ∀ (l1 : List α) (l2 : List β), All2 (fun a b => R a (g b)) l1 l2 → All2 R l1 (l2.map g)
  | _, _, All2.nil => All2.nil
  | _, _, All2.cons h r => All2.cons h (all2_map_right g _ _ r)

/-- the flattened members of `D`, each with the namespace of its declaring class -/
def annFields (A : App) : Nat → ClassDef → List (Text × (Text × Ty))
  | 0, _ => []
  | f + 1, D =>
    (match parentOf A.iface D with
     | some P => annFields A f P
     | none => []) ++ (ownFields A.iface D).map (fun fl => (D.ns, fl))

theorem annFields_fst (A : App) : ∀ (f : Nat) (D : ClassDef), (annFields A f D).map (·.1) = fieldNs A f D := by
  intro f
  induction f with
  | zero => intro D; rfl
  | succ f ih =>
    intro D
    simp only [annFields, fieldNs, List.map_append, List.map_map, Function.comp_def]
    cases parentOf A.iface D with
    | none => rfl
    | some P => simp only [ih P]

theorem annFields_snd (A : App) : ∀ (f : Nat) (D : ClassDef), chainOk A.iface f D = true →
    (annFields A f D).map (·.2) = D.fields := by
  intro f
  induction f with
  | zero => intro D h; simp [chainOk] at h
  | succ f ih =>
    intro D hc
    unfold chainOk at hc
    simp only [annFields, List.map_append, List.map_map, Function.comp_def, List.map_id']
    cases hb : D.base with
    | none =>
      have hp : parentOf A.iface D = none := by simp [parentOf, hb]
      simp [hp, ownFields]
    | some b =>
      rw [hb] at hc
      dsimp only at hc
      cases hf : Registry.find? A.iface.classes b with
      | none => rw [hf] at hc; cases hc
      | some P =>
        rw [hf] at hc
        simp only [Bool.and_eq_true, decide_eq_true_eq] at hc
        obtain ⟨⟨hlen, hpre⟩, hch⟩ := hc
        have hp : parentOf A.iface D = some P := by simp [parentOf, hb, hf]
        have hpf : P.fields = D.fields.take P.fields.length := fieldsBeq_eq _ _ hpre
        simp only [hp, ownFields, ih P hch]
        conv => rhs; rw [← List.take_append_drop P.fields.length D.fields]
        rw [← hpf]

theorem classParticles_aligned (A : App) :
    ∀ (f : Nat) (D : ClassDef), D ∈ A.allClasses →
      All2 (AlignedG A) (classParticles A f D) (annFields A f D) := by
  intro f
  induction f with
  | zero => intro D _; exact All2.nil
  | succ f ih =>
    intro D hD
    unfold classParticles annFields
    have own_al : All2 (AlignedG A)
        ((ownFields A.iface D).map (fun fl => (D.ns, particleOf A D fl)))
        ((ownFields A.iface D).map (fun fl => (D.ns, fl))) := by
      apply all2_map_right
      apply forall₂_map_of_mem
      intro fl hfl
      exact ⟨rfl, rfl, rfl, D, hD, hfl, rfl, rfl⟩
    cases hp : parentOf A.iface D with
    | none => simpa using own_al
    | some P => exact forall₂_append (ih P (parent_mem A D P hp)) own_al

/-! ### consequences of the alignment -/

/-- the denoted slots over an annotated member list (= `denoteFieldsG` over its two projections) -/
def denoteAnn (A : App) : List (Text × (Text × Ty)) → List (Key × Occ × STy)
  | [] => []
  | (n, (k, t)) :: r => ((n, k), t.occ, denoteG A n t) :: denoteAnn A r

theorem denoteAnn_eq (A : App) : ∀ l : List (Text × (Text × Ty)),
    denoteAnn A l = denoteFieldsG A (l.map (·.1)) (l.map (·.2))
  | [] => by simp [denoteAnn, denoteFieldsG]
  | (n, (k, t)) :: r => by simp [denoteAnn, denoteFieldsG, denoteAnn_eq A r]

theorem slots_aligned (A : App) (ps : List (Text × Particle)) (l : List (Text × (Text × Ty)))
    (h : All2 (AlignedG A) ps l) :
    slots ps = slotsS (denoteAnn A l) ∧ ps.isEmpty = (denoteAnn A l).isEmpty := by
  induction h with
  | nil => exact ⟨rfl, rfl⟩
  | @cons e x l1 l2 hab _ ih =>
    obtain ⟨h1, h2, h3, _⟩ := hab
    obtain ⟨n, k, t⟩ := x
    refine ⟨?_, rfl⟩
    simp only [slots, slotsS, denoteAnn, List.map_cons] at ih ⊢
    rw [h1, h2, h3, ← ih.1]

/-- looking a child up in the particles and in the denoted slots gives corresponding results -/
theorem find_aligned (A : App) (ps : List (Text × Particle)) (l : List (Text × (Text × Ty)))
    (h : All2 (AlignedG A) ps l) (cns cname : Text) :
    (findParticle ps cns cname = none ∧ findS (denoteAnn A l) (cns, cname) = none) ∨
    (∃ e x, AlignedG A e x ∧ x ∈ l ∧ findParticle ps cns cname = some e.2 ∧
      findS (denoteAnn A l) (cns, cname) = some (x.2.2.occ, denoteG A x.1 x.2.2)) := by
  induction h with
  | nil => exact Or.inl ⟨rfl, rfl⟩
  | @cons e x l1 l2 hab _ ih =>
    obtain ⟨n, k, t⟩ := x
    have hab' := hab
    obtain ⟨h1, h2, h3, _⟩ := hab'
    by_cases hk : (n, k) = (cns, cname)
    · right
      refine ⟨e, (n, (k, t)), hab, by simp, ?_, ?_⟩
      · injection hk with e1 e2
        simp only at h1 h2
        simp [findParticle, h1, h2, e1, e2]
      · simp [findS, denoteAnn, hk]
    · have hne : ¬ (e.1 = cns ∧ e.2.name = cname) := by
        intro hc; apply hk
        simp only at h1 h2
        rw [← hc.1, ← hc.2, h1, h2]
      have e1 : findParticle (e :: l1) cns cname = findParticle l1 cns cname := by
        simp only [findParticle, List.find?_cons]
        have : (decide (e.1 = cns) && decide (e.2.name = cname)) = false := by
          simpa using hne
        rw [this]
      have e2 : findS (denoteAnn A ((n, (k, t)) :: l2)) (cns, cname) = findS (denoteAnn A l2) (cns, cname) := by
        simp only [findS, denoteAnn, List.find?_cons]
        have : decide ((n, k) = (cns, cname)) = false := by simpa using hk
        rw [this]
      rw [e1, e2]
      rcases ih with h | ⟨e', x', ha, hm, hf1, hf2⟩
      · exact Or.inl h
      · exact Or.inr ⟨e', x', ha, by simp [hm], hf1, hf2⟩

/-! ### a clash-free universe is closed: every component is found under its key -/

theorem class_mem_rawComplex (A : App) (D : ClassDef) (hD : D ∈ A.allClasses) :
    ((D.ns, D.name), (classComplex A D).2) ∈ rawComplex A := by
  unfold rawComplex
  refine List.mem_flatMap.mpr ⟨D, hD, ?_⟩
  simp only [classDefs, List.mem_append, List.mem_singleton]
  right; rfl

theorem field_defs_sub (A : App) (D : ClassDef) (hD : D ∈ A.allClasses) (f : Text × Ty) (hf : f ∈ ownFields A.iface D) :
    (∀ e ∈ (tyDefs A D.ns D.name f.1 f.2).simple, e ∈ rawSimple A) ∧
    (∀ e ∈ (tyDefs A D.ns D.name f.1 f.2).complex, e ∈ rawComplex A) := by
  constructor
  · intro e he
    unfold rawSimple
    refine List.mem_flatMap.mpr ⟨D, hD, ?_⟩
    simp only [classDefs]
    exact List.mem_flatMap.mpr ⟨_, List.mem_map.mpr ⟨f, hf, rfl⟩, he⟩
  · intro e he
    unfold rawComplex
    refine List.mem_flatMap.mpr ⟨D, hD, ?_⟩
    simp only [classDefs, List.mem_append]
    left
    exact List.mem_flatMap.mpr ⟨_, List.mem_map.mpr ⟨f, hf, rfl⟩, he⟩

structure NoClash (A : App) : Prop where
  fs : functional (rawSimple A) = true
  fc : functional (rawComplex A) = true
  disj : ∀ e ∈ rawSimple A, (rawComplex A).lookup e.1 = none

theorem noClash_unfold (A : App) (h : A.noClash = true) : NoClash A := by
  unfold App.noClash at h
  simp only [Bool.and_eq_true, List.all_eq_true, Option.isNone_iff_eq_none] at h
  exact ⟨h.1.1, h.1.2, h.2⟩

theorem complex_lookup (A : App) (h : NoClash A) (k : Key) (d : ComplexDef) (hm : (k, d) ∈ rawComplex A) :
    (gen A).complex.lookup k = some d ∧ (gen A).simple.lookup k = none := by
  have h1 : (gen A).complex.lookup k = some d := by
    show (dedupKeys (rawComplex A)).lookup k = some d
    rw [lookup_dedupKeys]; exact lookup_functional _ h.fc k d hm
  refine ⟨h1, ?_⟩
  show (dedupKeys (rawSimple A)).lookup k = none
  rw [lookup_dedupKeys]
  apply lookup_none_of_not_mem
  intro e he hk
  have := h.disj e he
  rw [hk, lookup_functional _ h.fc k d hm] at this
  cases this

theorem simple_lookup (A : App) (h : NoClash A) (k : Key) (d : SimpleDef) (hm : (k, d) ∈ rawSimple A) :
    (gen A).simple.lookup k = some d := by
  show (dedupKeys (rawSimple A)).lookup k = some d
  rw [lookup_dedupKeys]; exact lookup_functional _ h.fs k d hm

theorem clampOpt_none (F6 : Facts06) (k : IntKind) : clampOpt F6 k none = none := rfl

theorem primFacets_default (F6 : Facts06) (p : PrimTy) (h1 : isEnum p = false) (h2 : primIsDefault p = true) :
    primFacets F6 p = [] := by
  cases p with
  | integer k r =>
    simp only [primIsDefault, Bool.and_eq_true, Option.isNone_iff_eq_none] at h2
    obtain ⟨⟨⟨a, b⟩, c⟩, d⟩ := h2
    show intFacets (writtenRange F6 k r) = []
    unfold writtenRange
    rw [a, b, c, d]
    simp only [clampOpt_none]
    split <;> rfl
  | unicode a b c d =>
    simp only [primIsDefault, Bool.and_eq_true, decide_eq_true_eq, Option.isNone_iff_eq_none, List.isEmpty_iff] at h2
    obtain ⟨⟨⟨h1', h2'⟩, h3⟩, h4⟩ := h2
    subst h1'; subst h2'; subst h3; subst h4
    rfl
  | enum names => simp [isEnum] at h1
  | boolean => rfl
  | date => rfl
  | time => rfl
  | dateTime => rfl
  | duration => rfl
  | bytes e => rfl

theorem primFacetsA_default (A : App) (p : PrimTy) (h1 : isEnum p = false) (h2 : isDefaultA A p = true) :
    primFacetsA A p = [] := by
  simp only [isDefaultA, Bool.and_eq_true, List.isEmpty_iff] at h2
  simp only [primFacetsA, App.enumLits, h2.2, List.filterMap_nil, List.map_nil, List.nil_append]
  exact primFacets_default A.facts p h1 h2.1

theorem posOk_of_noClash (A : App) (h : NoClash A) (cns cname k : Text) :
    ∀ t : Ty, (∀ e ∈ (tyDefs A cns cname k t).simple, e ∈ rawSimple A) →
      (∀ e ∈ (tyDefs A cns cname k t).complex, e ∈ rawComplex A) →
      (∀ D ∈ nested t, D ∈ A.allClasses) → posOk A (gen A) cns cname k t = true
  | .prim p o, hs, _, _ => by
    simp only [posOk]
    by_cases hq : (isEnum p || !isDefaultA A p) = true
    · rw [if_pos hq]
      have hm : (itemKey A cns cname k (.prim p o), ({ base := builtinOf p, facets := primFacetsA A p } : SimpleDef)) ∈ rawSimple A := by
        apply hs
        simp [tyDefs, hq]
      rw [simple_lookup A h _ _ hm]
      simp
    · rw [if_neg hq]
      simp only [Bool.or_eq_true, Bool.not_eq_true', not_or, Bool.not_eq_true, Bool.not_eq_false] at hq
      rw [primFacetsA_default A p hq.1 hq.2]; rfl
  | .obj name ns b fields o, _, _, hn => by
    have hD : ({ name := name, ns := ns, base := b, fields := fields } : ClassDef) ∈ A.allClasses := hn _ (by simp [nested])
    have := complex_lookup A h _ _ (class_mem_rawComplex A _ hD)
    simp only [posOk, this.1, this.2]
    simp
  | .arr m e o, hs, hc, hn => by
    have hm : (itemKey A cns cname k (.arr m e o), ({ base := none, particles := [{ name := memberLocal m, type := refOf A cns cname k e, occ := e.occ }] } : ComplexDef)) ∈ rawComplex A := by
      apply hc
      simp [tyDefs, Defs.append]
    have := complex_lookup A h _ _ hm
    have hrec := posOk_of_noClash A h cns cname k e
      (fun x hx => hs x (by simp only [tyDefs, Defs.append, List.mem_append]; exact Or.inl hx))
      (fun x hx => hc x (by simp only [tyDefs, Defs.append, List.mem_append]; exact Or.inl hx))
      (fun D hD => hn D (by simpa [nested] using hD))
    simp only [posOk, this.1, this.2, hrec]
    simp

/-! ### the reference validator on the generated schema = validity for the denoted type -/

/-- the facts `App.wf` provides, in usable form -/
structure Closed (A : App) : Prop where
  cplx : ∀ D ∈ A.allClasses, (gen A).complex.lookup (D.ns, D.name) = some (classComplex A D).2
  simp : ∀ D ∈ A.allClasses, (gen A).simple.lookup (D.ns, D.name) = none
  pos : ∀ D ∈ A.allClasses, ∀ f ∈ ownFields A.iface D, posOk A (gen A) D.ns D.name f.1 f.2 = true
  chain : ∀ D ∈ A.allClasses, chainOk A.iface (A.iface.classes.length + 1) D = true

theorem closed_of_wf (A : App) (h : A.wf = true) : Closed A := by
  unfold App.wf at h
  simp only [Bool.and_eq_true] at h
  obtain ⟨⟨hb, hnc⟩, _⟩ := h
  have hN := noClash_unfold A hnc
  unfold App.wfBase at hb
  rw [List.all_eq_true] at hb
  refine ⟨?_, ?_, ?_, ?_⟩
  · intro D hD
    exact (complex_lookup A hN _ _ (class_mem_rawComplex A D hD)).1
  · intro D hD
    exact (complex_lookup A hN _ _ (class_mem_rawComplex A D hD)).2
  · intro D hD f hf
    have hsub := field_defs_sub A D hD f hf
    exact posOk_of_noClash A hN D.ns D.name f.1 f.2 hsub.1 hsub.2 (by
      intro D2 hD2
      exact allClasses_closed A D hD D2 (nested_sub_nestedFields D.fields f.1 f.2 (ownFields_sub _ _ f hf) D2 hD2))
  · intro D hD
    have := hb D hD
    simp only [Bool.and_eq_true] at this
    exact this.1.1.1

theorem validChildren_eq (S : Schema) (ps : List (Text × Particle)) (qs : List (Key × Occ × STy)) (cs : List Node)
    (h : ∀ c ∈ cs,
      (match findParticle ps c.ns c.name with
       | some p => validElem S p.type p.occ.nillable c
       | none => false) =
      (match findS qs (nodeKey c) with
       | some (o, d) => validS d o.nillable c
       | none => false)) :
    validChildren S ps cs = validChildrenS qs cs := by
  induction cs with
  | nil => rfl
  | cons c r ih =>
    simp only [validChildren, validChildrenS]
    exact congr (congrArg and (h c (by simp))) (ih (fun x hx => h x (by simp [hx])))

theorem nodeKey_eq (c : Node) : nodeKey c = (c.ns, c.name) := by cases c; rfl

theorem denoteFields_isEmpty (F6 : PrimTy → List Facet) (tns ns : Text) (fs : List (Text × Ty)) :
    (denoteFields F6 tns ns fs).isEmpty = fs.isEmpty := by
  cases fs with
  | nil => rfl
  | cons f r => obtain ⟨k, t⟩ := f; rfl

theorem validElem_simple (S : Schema) (t : TypeRef) (nillable : Bool) (ns name : Text) (attrs : List (Text × Text))
    (text : Option Text) (children : List Node) (b : Builtin) (fs : List Facet)
    (h : S.resolve t = some (.simple b fs)) :
    validElem S t nillable (.elem ns name attrs text children) =
      validS (.simple b fs) nillable (.elem ns name attrs text children) := by
  cases hn : nilAttr attrs with
  | none => simp only [validElem, validS, hn]
  | some nv =>
    cases nv with
    | none => simp only [validElem, validS, hn, h]
    | some bb => cases bb <;> simp only [validElem, validS, hn, h]

theorem validElem_complex (S : Schema) (t : TypeRef) (nillable : Bool) (ns name : Text) (attrs : List (Text × Text))
    (text : Option Text) (children : List Node) (ps : List (Text × Particle)) (qs : List (Key × Occ × STy))
    (h : S.resolve t = some (.complex ps)) (h1 : ps.isEmpty = qs.isEmpty) (h2 : slots ps = slotsS qs)
    (h3 : validChildren S ps children = validChildrenS qs children) :
    validElem S t nillable (.elem ns name attrs text children) =
      validS (.complex qs) nillable (.elem ns name attrs text children) := by
  cases hn : nilAttr attrs with
  | none => simp only [validElem, validS, hn]
  | some nv =>
    cases nv with
    | none => simp only [validElem, validS, hn, h, h1, h2, h3]
    | some bb => cases bb <;> simp only [validElem, validS, hn, h, h1, h2, h3]

/-- **A**: for every type position of a well-formed universe -/
theorem validElem_gen_pos (A : App) (hc : Closed A) :
    ∀ x : Node, ∀ (cns cname k : Text) (t : Ty) (nillable : Bool),
      posOk A (gen A) cns cname k t = true → (∀ D ∈ nested t, D ∈ A.allClasses) →
      validElem (gen A) (refOf A cns cname k t) nillable x = validS (denoteG A cns t) nillable x := by
  intro x
  induction x using Node.rec (motive_2 := fun cs => ∀ c ∈ cs, ∀ (cns cname k : Text) (t : Ty) (nillable : Bool),
      posOk A (gen A) cns cname k t = true → (∀ D ∈ nested t, D ∈ A.allClasses) →
      validElem (gen A) (refOf A cns cname k t) nillable c = validS (denoteG A cns t) nillable c) with
  | nil => rename_i c hm _ _ _ _ _ _ _; cases hm
  | cons head tail ih1 ih2 =>
    rename_i c hm cns cname k t nillable hpos hnest
    rcases List.mem_cons.mp hm with e | e
    · subst e; exact ih1 cns cname k t nillable hpos hnest
    · exact ih2 c e cns cname k t nillable hpos hnest
  | elem ns name attrs text children ih =>
    intro cns cname k t nillable hpos hnest
    cases t with
    | prim p o =>
      simp only [posOk] at hpos
      by_cases hq : (isEnum p || !isDefaultA A p) = true
      · rw [if_pos hq] at hpos
        have hr : refOf A cns cname k (.prim p o) = .named (itemKey A cns cname k (.prim p o)) := by
          have : (!isEnum p && isDefaultA A p) = false := by
            cases h1 : isEnum p <;> cases h2 : isDefaultA A p <;> simp_all
          simp [refOf, this]
        rw [hr]
        simp only [denoteG]
        apply validElem_simple
        simp only [Schema.resolve, beq_iff_eq.mp hpos]
      · rw [if_neg hq] at hpos
        have hr : refOf A cns cname k (.prim p o) = .builtin (builtinOf p) := by
          have : (!isEnum p && isDefaultA A p) = true := by
            cases h1 : isEnum p <;> cases h2 : isDefaultA A p <;> simp_all
          simp [refOf, this]
        rw [hr]
        simp only [denoteG, beq_iff_eq.mp hpos]
        apply validElem_simple
        simp only [Schema.resolve]
    | obj cn ons b fields o =>
      simp only [posOk, Bool.and_eq_true, Option.isNone_iff_eq_none, beq_iff_eq] at hpos
      have hD : ({ name := cn, ns := ons, base := b, fields := fields } : ClassDef) ∈ A.allClasses :=
        hnest _ (by simp [nested])
      have hr : refOf A cns cname k (.obj cn ons b fields o) = .named (ons, cn) := rfl
      rw [hr]
      have hcx : (gen A).hasComplex (ons, cn) = true := by simp [Schema.hasComplex, hpos.2]
      have he := effParticles_gen A hc.cplx (gen A).chainBound _ hD
      have hb : (gen A).chainBound = A.iface.classes.length + 1 := rfl
      simp only at he
      have hal := classParticles_aligned A (A.iface.classes.length + 1) _ hD
      have hs := slots_aligned A _ _ hal
      have hden : denoteFieldsG A (fieldNs A (A.iface.classes.length + 1) { name := cn, ns := ons, base := b, fields := fields }) fields =
          denoteAnn A (annFields A (A.iface.classes.length + 1) { name := cn, ns := ons, base := b, fields := fields }) := by
        rw [denoteAnn_eq, annFields_fst, annFields_snd A _ _ (hc.chain _ hD)]
      simp only [denoteG, hden]
      apply validElem_complex (ps := classParticles A (A.iface.classes.length + 1) { name := cn, ns := ons, base := b, fields := fields })
      · rw [hb] at he
        simp only [Schema.resolve, hpos.1, hcx, if_true, hb, he]
      · exact hs.2
      · exact hs.1
      · apply validChildren_eq
        intro c hcm
        rw [nodeKey_eq]
        rcases find_aligned A _ _ hal c.ns c.name with h | ⟨e, x, ha, hm, hf1, hf2⟩
        · rw [h.1, h.2]
        · rw [hf1, hf2]
          obtain ⟨_, _, h3, D', hD', hown, hns', hty⟩ := ha
          have := ih c hcm D'.ns D'.name x.2.1 x.2.2 x.2.2.occ.nillable (hc.pos D' hD' x.2 hown) (by
            intro D2 hD2
            exact allClasses_closed A D' hD' D2 (nested_sub_nestedFields D'.fields x.2.1 x.2.2 (ownFields_sub _ _ _ hown) D2 hD2))
          simp only [hty, h3]
          rw [← hns']
          exact this
    | arr m e o =>
      simp only [posOk, Bool.and_eq_true, Option.isNone_iff_eq_none, beq_iff_eq] at hpos
      obtain ⟨⟨hs1, hs2⟩, hs3⟩ := hpos
      have hr : refOf A cns cname k (.arr m e o) = .named (itemKey A cns cname k (.arr m e o)) := rfl
      rw [hr]
      have hcx : (gen A).hasComplex (itemKey A cns cname k (.arr m e o)) = true := by simp [Schema.hasComplex, hs2]
      have hb : (gen A).chainBound = A.iface.classes.length + 1 := rfl
      have hk1 : (itemKey A cns cname k (.arr m e o)).1 = memberNs A.tns cns m e := rfl
      simp only [denoteG]
      apply validElem_complex (ps := [(memberNs A.tns cns m e, ({ name := memberLocal m, type := refOf A cns cname k e, occ := e.occ } : Particle))])
      · simp only [Schema.resolve, hs1, hcx, if_true, hb, effParticles, hs2, List.nil_append, List.map_cons, List.map_nil, hk1]
      · rfl
      · rfl
      · apply validChildren_eq
        intro c hcm
        rw [nodeKey_eq]
        by_cases hkey : c.ns = memberNs A.tns cns m e ∧ c.name = memberLocal m
        · have f1 : findParticle [(memberNs A.tns cns m e, ({ name := memberLocal m, type := refOf A cns cname k e, occ := e.occ } : Particle))] c.ns c.name
              = some { name := memberLocal m, type := refOf A cns cname k e, occ := e.occ } := by
            simp [findParticle, hkey.1, hkey.2]
          have f2 : findS [((memberNs A.tns cns m e, memberLocal m), e.occ, denoteG A cns e)] (c.ns, c.name)
              = some (e.occ, denoteG A cns e) := by
            simp [findS, hkey.1, hkey.2]
          rw [f1, f2]
          exact ih c hcm cns cname k e e.occ.nillable hs3 (by intro D hD; exact hnest D (by simpa [nested] using hD))
        · have hfalse : (decide (memberNs A.tns cns m e = c.ns) && decide (memberLocal m = c.name)) = false := by
            simp only [Bool.and_eq_false_iff, decide_eq_false_iff_not]
            by_cases h1 : memberNs A.tns cns m e = c.ns
            · right; intro h2; exact hkey ⟨h1.symm, h2.symm⟩
            · left; exact h1
          have f1 : findParticle [(memberNs A.tns cns m e, ({ name := memberLocal m, type := refOf A cns cname k e, occ := e.occ } : Particle))] c.ns c.name
              = none := by
            simp [findParticle, hfalse]
          have f2 : findS [((memberNs A.tns cns m e, memberLocal m), e.occ, denoteG A cns e)] (c.ns, c.name)
              = none := by
            simp [findS, hfalse]
          rw [f1, f2]

end Schema
end SpyneModel
