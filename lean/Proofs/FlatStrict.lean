/-
  C03 helper lemmas, part 10: `strict_arrays = True`.

  With strict arrays there is no idxmap: an index must be an existing position or the next one.
  Whether a documented request is accepted therefore depends on the order in which the keys are
  processed — the order `sorted(...)` produces. The keys must arrive "index-sorted": whenever two
  keys agree on names and indexes up to some array, the one with the smaller index at that array
  comes first (`KLe`). Then every index is at most the number of elements seen so far, the strict
  branch does what the idxmap branch would do, and the result is the spelled object.
-/
import Proofs.FlatLenient
namespace SpyneModel.Flat
open SpyneModel

/-! ## index-sortedness of a sequence of keys -/

def idxLe : Option Nat → Option Nat → Prop
  | some a, some b => a ≤ b
  | _, _ => True

/-- `a` may be processed before `b`: at the first array where they differ in the index (names and
    earlier indexes being the same), `a` has the smaller index -/
def KLe : List (Text × Option Nat) → List (Text × Option Nat) → Prop
  | s1 :: r1, s2 :: r2 => s1.1 = s2.1 → (idxLe s1.2 s2.2 ∧ (s1.2 = s2.2 → KLe r1 r2))
  | _, _ => True

def KSorted (es : List KEntry) : Prop := es.Pairwise (fun a b => KLe a.segs b.segs)

theorem KSorted.filter {es : List KEntry} (h : KSorted es) (p : KEntry → Bool) : KSorted (es.filter p) :=
  List.Pairwise.filter p h

/-- below a common first segment the tails are index-sorted too -/
theorem KSorted.of_push {k : Text} {i : Option Nat} {ys : List KEntry}
    (h : KSorted (ys.map (KEntry.push k i))) : KSorted ys := by
  unfold KSorted at *
  rw [List.pairwise_map] at h
  apply h.imp
  intro a b hab
  simp only [KEntry.push] at hab
  rw [KLe] at hab
  exact (hab rfl).2 rfl

/-- the first indexes of keys with a common first name are non-decreasing -/
theorem KSorted.heads {k : Text} {es : List KEntry} (h : KSorted es)
    (hf : ∀ e, e ∈ es → ∃ (i : Nat) (y : KEntry), e = y.push k (some i)) :
    (es.map headIdx).Pairwise (· ≤ ·) := by
  unfold KSorted at h
  rw [List.pairwise_map]
  induction es with
  | nil => exact List.Pairwise.nil
  | cons e r ih =>
    rw [List.pairwise_cons] at h ⊢
    refine ⟨?_, ih h.2 (fun e' he' => hf e' (List.mem_cons_of_mem _ he'))⟩
    intro b hb
    obtain ⟨i, y, rfl⟩ := hf e List.mem_cons_self
    obtain ⟨j, z, rfl⟩ := hf b (List.mem_cons_of_mem _ hb)
    have := h.1 _ hb
    simp only [KEntry.push] at this
    rw [KLe] at this
    exact (this rfl).1

/-! ## which index sequences the strict branch accepts -/

/-- every index is an existing position (`< c`) or the next one (`= c`) -/
def SO : Nat → List Nat → Prop
  | _, [] => True
  | c, i :: r => (i < c ∧ SO c r) ∨ (i = c ∧ SO (c + 1) r)

/-- non-decreasing indexes that cover `c … n-1` without a gap, none below `c - 1`, are accepted -/
theorem so_of_sorted (n : Nat) : ∀ (l : List Nat) (c : Nat), l.Pairwise (· ≤ ·) →
    (∀ x, x ∈ l → x < n ∧ c ≤ x + 1) → (∀ j, c ≤ j → j < n → j ∈ l) → SO c l := by
  intro l
  induction l with
  | nil => intro c _ _ _; trivial
  | cons i r ih =>
    intro c hs hb hcov
    rw [List.pairwise_cons] at hs
    have hi := hb i List.mem_cons_self
    by_cases hic : i < c
    · left
      refine ⟨hic, ih c hs.2 (fun x hx => hb x (List.mem_cons_of_mem _ hx)) ?_⟩
      intro j hj hjn
      have := hcov j hj hjn
      rcases List.mem_cons.mp this with rfl | h
      · omega
      · exact h
    · right
      have hci : i = c := by
        by_cases hcn : c < n
        · have := hcov c (Nat.le_refl _) hcn
          rcases List.mem_cons.mp this with rfl | h
          · rfl
          · have := hs.1 c h; omega
        · omega
      refine ⟨hci, ih (c + 1) hs.2 ?_ ?_⟩
      · intro x hx
        have h1 := hb x (List.mem_cons_of_mem _ hx)
        have h2 := hs.1 x hx
        exact ⟨h1.1, by omega⟩
      · intro j hj hjn
        have := hcov j (by omega) hjn
        rcases List.mem_cons.mp this with rfl | h
        · omega
        · exact h

/-! ## the identity idxmap -/

/-- the idxmap a list of `c` elements would have if indexes 0 … c-1 had arrived in order -/
def idmap (c : Nat) : List (Nat × Nat) := (List.range c).map (fun i => (i, i))

theorem idmap_keys (c : Nat) : mkeys (idmap c) = List.range c := by
  simp [idmap, mkeys, List.map_map, Function.comp_def]

theorem rank_range (c i : Nat) : rank (List.range c) i = min i c := by
  induction c with
  | zero => simp [rank]
  | succ c ih =>
    rw [List.range_succ, rank_append_single, ih]
    split <;> omega

theorem idmap_inv (c : Nat) : ArrInv (idmap c) c := by
  refine ⟨by rw [idmap_keys]; exact List.nodup_range, ?_, by simp [idmap]⟩
  intro kc hkc
  rw [idmap_keys, rank_range]
  simp only [idmap, List.mem_map, List.mem_range] at hkc
  obtain ⟨i, hi, rfl⟩ := hkc
  simp; omega

theorem idmap_get (c i : Nat) : mapGet (idmap c) i = if i < c then some i else none := by
  split
  · rename_i h
    have := (idmap_inv c).get (i := i) (by rw [idmap_keys]; exact List.mem_range.mpr h)
    rw [this, idmap_keys, rank_range]
    congr 1; omega
  · rename_i h
    apply mapGet_none_iff.mpr
    rw [idmap_keys]
    simpa using h

theorem idmap_s2cmi (c : Nat) : s2cmi (idmap c) c = (c, idmap (c + 1)) := by
  have hpos : s2cmiPos (idmap c) c = c := by
    rw [s2cmiPos_eq_rank (idmap_inv c), idmap_keys, rank_range]; omega
  simp only [s2cmi, hpos, Prod.mk.injEq, true_and]
  have : (idmap c).map (fun iv => if iv.1 ≥ c then (iv.1, iv.2 + 1) else iv) = idmap c := by
    conv => rhs; rw [← List.map_id (idmap c)]
    apply List.map_congr_left
    intro iv hiv
    simp only [idmap, List.mem_map, List.mem_range] at hiv
    obtain ⟨i, hi, rfl⟩ := hiv
    have : ¬ i ≥ c := by omega
    simp [this]
  rw [this]
  simp [idmap, List.range_succ]

/-! ## an array kept as idxmap + list, whatever the strictness below it -/

/-- a key `k[i]…` applied to an array of objects kept as (idxmap, list); the children are
    processed with `strict_arrays = cs` -/
def hybridStep (cs : Bool) (sub : List Fld) (s : List (Nat × Nat) × List Node) (e : KEntry) :
    Outcome (List (Nat × Nat) × List Node) :=
  obind (updA cs sub (arrGet s.1 s.2 (fresh sub) (headIdx e)) e.tail) fun v' =>
    .ok (arrPut s.1 s.2 (headIdx e) v')

/-- reading the pair as a store keyed by the sparse index -/
def getP (sub : List Fld) (s : List (Nat × Nat) × List Node) (j : Nat) : Bool × Node :=
  (decide (j ∈ mkeys s.1), arrGet s.1 s.2 (fresh sub) j)

/-- Any interleaving of the keys of the elements of an array — each element's own keys in an
    order its (possibly strict) children accept — builds the elements in index order. -/
theorem hybrid_fold (cs : Bool) (sub : List Fld) (k : Text)
    (elems : List (Nat × Members)) (hinc : StrictInc (elems.map Prod.fst))
    (hsegs : ∀ i ms y, (i, ms) ∈ elems → y ∈ kentries sub ms → y.segs ≠ [])
    (hnonempty : ∀ i ms, (i, ms) ∈ elems → kentries sub ms ≠ [])
    (Good : List KEntry → Prop)
    (hchild : ∀ i ms, (i, ms) ∈ elems → ∀ ys : List KEntry, ys.Perm (kentries sub ms) → Good ys →
        ∃ c', foldO (walkK cs sub) (freshAttrs sub) ys = .ok c' ∧
          eraseAttrs c' = expInto sub ms (freshAttrs sub))
    (es : List KEntry) (hp : es.Perm (kentriesElems sub k elems))
    (hgood : ∀ j ys, ys.map (KEntry.push k (some j)) = es.filter (fun e => headIdx e = j) → Good ys) :
    ∃ s', foldO (hybridStep cs sub) ([], []) es = .ok s' ∧ eraseItems s'.2 = expElems sub elems := by
  have hnd : (elems.map Prod.fst).Nodup := hinc.nodup
  have key := foldO_by_key (σ := List (Nat × Nat) × List Node) (ε := KEntry) (κ := Nat) (ν := Bool × Node)
    (getP sub) (hybridStep cs sub) headIdx
    (fun _ bv e => omap (fun v => (true, v)) (updA cs sub bv.2 e.tail))
    (fun s => ArrInv s.1 s.2.length) (fun _ => True)
    (fun j bv => (∀ ms, (j, ms) ∈ elems → bv.1 = true ∧
        eraseNode bv.2 = .obj (expInto sub ms (freshAttrs sub))) ∧
      (j ∉ elems.map Prod.fst → bv.1 = false))
    (by
      intro s e v' _ hinv hupd
      simp only [getP] at hupd ⊢
      obtain ⟨w, hw, hv'⟩ := obind_eq_ok.mp hupd
      simp only [Outcome.ok.injEq] at hv'
      refine ⟨arrPut s.1 s.2 (headIdx e) w, ?_, arrPut_inv hinv _ w, ?_, ?_⟩
      · simp only [hybridStep, hw, obind_ok]
      · rw [← hv']
        have hk := arrPut_keys s.1 s.2 (headIdx e) w
        have : headIdx e ∈ mkeys (arrPut s.1 s.2 (headIdx e) w).1 := by
          rw [hk]; split <;> simp_all
        simp [this, arrGet_arrPut_same hinv (headIdx e) w (fresh sub)]
      · intro j hj
        have hk := arrPut_keys s.1 s.2 (headIdx e) w
        have : (j ∈ mkeys (arrPut s.1 s.2 (headIdx e) w).1) ↔ j ∈ mkeys s.1 := by
          rw [hk]; split
          · exact Iff.rfl
          · simp [hj]
        simp [this, arrGet_arrPut_ne hinv (headIdx e) j w (fresh sub) hj])
    es ([], []) (fun _ _ => trivial) ArrInv.empty
    (by
      intro j
      have hfil : (es.filter (fun e => headIdx e = j)).Perm
          ((kentriesElems sub k elems).filter (fun e => headIdx e = j)) := hp.filter _
      rw [kentriesElems_filter sub k elems hnd j] at hfil
      cases hfind : elems.find? (fun el => el.1 = j) with
      | none =>
        rw [hfind] at hfil
        have hnil := hfil.eq_nil
        rw [hnil]
        have hj : j ∉ elems.map Prod.fst := by
          intro hmem
          obtain ⟨el, hel, rfl⟩ := List.mem_map.mp hmem
          have := List.find?_eq_none.mp hfind el hel
          simp at this
        refine ⟨_, rfl, ?_, fun _ => by simp [getP, mkeys]⟩
        intro ms hms
        exact absurd (List.mem_map_of_mem (f := Prod.fst) hms) hj
      | some el =>
        rw [hfind] at hfil
        obtain ⟨hel, hj⟩ := mem_of_find elems j el hfind
        obtain ⟨i, ms⟩ := el
        simp only at hj; subst hj
        obtain ⟨ys, hys, hyseq⟩ := perm_map_pullback (KEntry.push k (some i)) _ _ hfil
        rw [hyseq]
        have hsegs' : ∀ y, y ∈ ys → y.segs ≠ [] := fun y hy => hsegs i ms y hel (hys.subset hy)
        have hysne : ys ≠ [] := by
          intro e; subst e
          have := hys.symm.eq_nil
          exact hnonempty i ms hel this
        obtain ⟨c', hc', hce⟩ := hchild i ms hel ys hys (hgood i ys hyseq.symm)
        have := foldO_updElem cs sub k i ys hsegs' false (freshAttrs sub)
        simp only [hysne, if_false, hc', omap_ok] at this
        refine ⟨(true, .obj c'), ?_, ?_, ?_⟩
        · simpa [getP, mkeys, arrGet, mapGet, fresh] using this
        · intro ms' hms'
          have : ms' = ms := unique_of_nodup elems hnd hms' hel
          subst this
          simp [eraseNode, hce]
        · intro hnot
          exact absurd (List.mem_map_of_mem (f := Prod.fst) hel) hnot)
  obtain ⟨s', hs', hinv', hq⟩ := key
  refine ⟨s', hs', ?_⟩
  have hmem : ∀ j, j ∈ mkeys s'.1 ↔ j ∈ elems.map Prod.fst := by
    intro j
    have := hq j
    simp only [getP] at this
    constructor
    · intro hj
      apply Classical.byContradiction
      intro hn
      have := this.2 hn
      simp [hj] at this
    · intro hj
      obtain ⟨el, hel, rfl⟩ := List.mem_map.mp hj
      have := (this.1 el.2 hel).1
      simpa using this
  have hperm : (mkeys s'.1).Perm (elems.map Prod.fst) :=
    (List.perm_ext_iff_of_nodup hinv'.nodup hnd).mpr hmem
  have hitems := items_eq_map_arrGet hinv' (elems.map Prod.fst) hinc hperm (fresh sub)
  simp only [eraseItems_eq_map, expElems_eq_map]
  rw [hitems, List.map_map, List.map_map]
  apply List.map_congr_left
  intro el hel
  have := ((hq el.1).1 el.2 hel).2
  simpa [getP] using this

/-! ## the strict branch does what the idxmap branch would do, on accepted index sequences -/

theorem setAt_append_last {α : Type} (l : List α) (x y : α) : setAt (l ++ [x]) l.length y = l ++ [y] := by
  induction l with
  | nil => rfl
  | cons a r ih => simp [setAt, ih]

theorem pyInsert_end {α : Type} (l : List α) (x : α) : pyInsert l l.length x = l ++ [x] := by
  simp [pyInsert]

theorem updK_push_arr_strict (fields : List Fld) (k : Text) (occ : Occ) (cid : Nat) (sub : List Fld)
    (hl : lookupFld fields k = some (k, occ, .obj cid sub)) (hm : occ.many = true)
    (items : List Node) (i : Nat) (hi : i ≤ items.length) (y : KEntry) (hy : y.segs ≠ []) :
    updK true fields k (.arr [] items) (y.push k (some i)) =
      obind (updA true sub (arrGet (idmap items.length) items (fresh sub) i) y) fun v' =>
        .ok (.arr [] (arrPut (idmap items.length) items i v').2) := by
  obtain ⟨segs, kv⟩ := y
  cases segs with
  | nil => exact absurd rfl hy
  | cons s rest =>
    simp only [updK, KEntry.push, List.map_cons]
    rw [show (KEntry.mk ((k, some i) :: s :: rest) kv).idxs = i :: (KEntry.mk (s :: rest) kv).idxs from
      push_idxs_some k i ⟨s :: rest, kv⟩]
    simp only [stepMemberT, hl, hm, if_true, popIdx]
    unfold strictSlotT arrGet arrPut
    rw [idmap_get]
    by_cases hlt : i < items.length
    · -- an existing position
      have hne : items.isEmpty = false := by
        cases items with
        | nil => simp at hlt
        | cons _ _ => rfl
      have h1 : ¬ i > items.length := by omega
      have h2 : ¬ i = items.length := by omega
      simp only [hne, Bool.false_eq_true, if_false, h1, h2, hlt, if_true, obind_ok,
        getElem?_of_getD items i (fresh sub) hlt]
      cases hnode : items.getD i (fresh sub) with
      | obj child =>
        simp only [updA, walkK, KEntry.path, List.map_cons, walkT, omap_obind]
        cases stepMemberT true sub (getAttr child s.1) s.1 (rest.map Prod.fst) (KEntry.mk (s :: rest) kv).idxs kv.payload <;> rfl
      | none => rfl
      | leaf _ => rfl
      | leaves _ => rfl
      | arr _ _ => rfl
    · -- the next position
      have hieq : i = items.length := by omega
      subst hieq
      simp only [Nat.lt_irrefl, if_false, idmap_s2cmi]
      cases items with
      | nil =>
        simp only [List.isEmpty_nil, if_true, List.length_nil, List.length_cons, Nat.lt_irrefl,
          gt_iff_lt, Nat.not_lt_zero, if_false, Nat.zero_ne_one, obind_ok, List.getElem?_cons_zero, fresh,
          updA, walkK, KEntry.path, List.map_cons, walkT, omap_obind, Nat.lt_one_iff,
          show ¬ (0 = 0 + 1) by omega]
        cases stepMemberT true sub (getAttr (freshAttrs sub) s.1) s.1 (rest.map Prod.fst) (KEntry.mk (s :: rest) kv).idxs kv.payload <;> rfl
      | cons a r =>
        have hget : ((a :: r) ++ [fresh sub])[(a :: r).length]? = some (fresh sub) := by simp
        simp only [List.isEmpty_cons, Bool.false_eq_true, if_false, gt_iff_lt, Nat.lt_irrefl, if_true, obind_ok,
          hget]
        simp only [fresh, updA, walkK, KEntry.path, List.map_cons, walkT, omap_obind]
        cases stepMemberT true sub (getAttr (freshAttrs sub) s.1) s.1 (rest.map Prod.fst) (KEntry.mk (s :: rest) kv).idxs kv.payload with
        | ok r' =>
          simp only [obind_ok, omap_ok]
          rw [setAt_append_last, pyInsert_end]
        | fault => rfl
        | crash e => rfl

theorem arrPut_idmap_fst (items : List Node) (i : Nat) (hi : i ≤ items.length) (v : Node) :
    (arrPut (idmap items.length) items i v).1 = idmap (arrPut (idmap items.length) items i v).2.length := by
  unfold arrPut
  rw [idmap_get]
  by_cases hlt : i < items.length
  · simp [hlt, setAt_length]
  · have hieq : i = items.length := by omega
    subst hieq
    simp [idmap_s2cmi, pyInsert_end]

/-- on an accepted index sequence the strict fold and the idxmap fold build the same list -/
theorem strict_sim (fields : List Fld) (k : Text) (occ : Occ) (cid : Nat) (sub : List Fld)
    (hl : lookupFld fields k = some (k, occ, .obj cid sub)) (hm : occ.many = true) :
    ∀ (es : List KEntry) (items : List Node), SO items.length (es.map headIdx) →
      (∀ e, e ∈ es → ∃ (i : Nat) (y : KEntry), e = y.push k (some i) ∧ y.segs ≠ []) →
      foldO (updK true fields k) (.arr [] items) es =
        omap (fun s => Node.arr [] s.2) (foldO (hybridStep true sub) (idmap items.length, items) es) := by
  intro es
  induction es with
  | nil => intro items _ _; rfl
  | cons e es ih =>
    intro items hso hform
    obtain ⟨i, y, rfl, hy⟩ := hform _ List.mem_cons_self
    have hidx : headIdx (y.push k (some i)) = i := rfl
    simp only [List.map_cons, hidx, SO] at hso
    have hi : i ≤ items.length := by rcases hso with h | h <;> omega
    simp only [foldO_cons, hybridStep, hidx, push_tail]
    rw [updK_push_arr_strict fields k occ cid sub hl hm items i hi y hy]
    cases hu : updA true sub (arrGet (idmap items.length) items (fresh sub) i) y with
    | ok v' =>
      simp only [obind_ok]
      have hfst := arrPut_idmap_fst items i hi v'
      have hlen : (arrPut (idmap items.length) items i v').2.length = if i < items.length then items.length else items.length + 1 := by
        unfold arrPut
        rw [idmap_get]
        by_cases hlt : i < items.length
        · simp [hlt, setAt_length]
        · have hieq : i = items.length := by omega
          subst hieq
          simp [idmap_s2cmi, pyInsert_end]
      have hso' : SO (arrPut (idmap items.length) items i v').2.length (es.map headIdx) := by
        rw [hlen]
        rcases hso with ⟨h1, h2⟩ | ⟨h1, h2⟩
        · simpa [h1] using h2
        · subst h1; simpa using h2
      have := ih (arrPut (idmap items.length) items i v').2 hso' (fun e' he' => hform e' (List.mem_cons_of_mem _ he'))
      rw [this, ← hfst]
    | fault => rfl
    | crash e' => rfl

/-! ## the main lemma for strict arrays -/

theorem kentriesElems_mem (sub : List Fld) (n : Text) (elems : List (Nat × Members)) (i : Nat) (ms : Members)
    (y : KEntry) (hel : (i, ms) ∈ elems) (hy : y ∈ kentries sub ms) :
    y.push n (some i) ∈ kentriesElems sub n elems := by
  induction elems with
  | nil => simp at hel
  | cons a r ih =>
    obtain ⟨i', ms'⟩ := a
    simp only [kentriesElems, List.mem_append, List.mem_map]
    rcases List.mem_cons.mp hel with h | h
    · simp only [Prod.mk.injEq] at h
      left; exact ⟨y, by rw [← h.2]; exact hy, by rw [h.1]⟩
    · right; exact ih h

theorem ContigMembers_unpack {ms : Members} (h : ContigMembers ms) : ∀ n sv, (n, sv) ∈ ms → ContigVal sv := by
  induction ms with
  | nil => simp
  | cons a r ih =>
    obtain ⟨n, sv⟩ := a
    simp only [ContigMembers] at h
    intro n' sv' hmem
    rcases List.mem_cons.mp hmem with h' | h'
    · simp only [Prod.mk.injEq] at h'; rw [h'.2]; exact h.1
    · exact ih h.2 n' sv' h'

theorem ContigElems_unpack {elems : List (Nat × Members)} (h : ContigElems elems) :
    ∀ i ms, (i, ms) ∈ elems → ContigMembers ms := by
  induction elems with
  | nil => simp
  | cons a r ih =>
    obtain ⟨j, ms'⟩ := a
    simp only [ContigElems] at h
    intro i ms hmem
    rcases List.mem_cons.mp hmem with h' | h'
    · simp only [Prod.mk.injEq] at h'; rw [h'.2]; exact h.1
    · exact ih h.2 i ms h'

/-- Processing the keys of a spelled object whose arrays are numbered 0, 1, 2, …, in any
    index-sorted order, with `strict_arrays = True`, yields exactly the object that was spelled. -/
theorem walkAll_strict (F : Facts03) : ∀ (N : Nat) (fields : List Fld) (ms : Members), msSize ms ≤ N →
    (fields.map Prod.fst).Nodup → WfFields fields → WtMembers F fields ms → ContigMembers ms →
    ∀ es : List KEntry, es.Perm (kentries fields ms) → KSorted es →
      ∃ attrs', foldO (walkK true fields) (freshAttrs fields) es = .ok attrs' ∧
        eraseAttrs attrs' = expAttrs fields ms := by
  intro N
  induction N with
  | zero =>
    intro fields ms hs hnd hwf hwt _ es hp _
    have : ms = [] := by
      cases ms with
      | nil => rfl
      | cons a r => obtain ⟨n, sv⟩ := a; simp [msSize] at hs
    subst this
    simp only [kentries] at hp
    rw [hp.eq_nil]
    exact ⟨freshAttrs fields, rfl, by simp [expAttrs, expInto, eraseAttrs_fresh]⟩
  | succ N ih =>
    intro fields ms hs hnd hwf hwt hcontig es hp hsorted
    obtain ⟨hmsnd, hvals⟩ := WtMembers_unpack hwt
    have hcvals := ContigMembers_unpack hcontig
    have key := foldO_by_key (σ := Attrs) (ε := KEntry) (κ := Text) (ν := Node)
      getAttr (walkK true fields) KEntry.head (updK true fields) (fun _ => True) (fun _ => True)
      (fun k v => eraseNode v = getAttr (expAttrs fields ms) k)
      (fun s e v' _ _ h => walkK_law true fields s e v' h)
      es (freshAttrs fields) (fun _ _ => trivial) trivial
      (by
        intro k
        rw [getAttr_freshAttrs]
        have hfil : (es.filter (fun e => e.head = k)).Perm
            ((kentries fields ms).filter (fun e => e.head = k)) := hp.filter _
        have hfs : KSorted (es.filter (fun e => e.head = k)) := hsorted.filter _
        rw [kentries_filter_head fields ms hmsnd k] at hfil
        simp only [expAttrs]
        rw [getAttr_expInto fields ms hmsnd, getAttr_freshAttrs]
        cases hfind : ms.find? (fun m => m.1 = k) with
        | none =>
          rw [hfind] at hfil
          rw [hfil.eq_nil]
          exact ⟨.none, rfl, rfl⟩
        | some m =>
          rw [hfind] at hfil
          obtain ⟨n, sv⟩ := m
          have hmem : (n, sv) ∈ ms := List.mem_of_find?_eq_some hfind
          have hnk : n = k := by simpa using List.find?_some hfind
          subst hnk
          have hwv := hvals n sv hmem
          have hcv := hcvals n sv hmem
          have hsz := size_lt_of_mem hmem
          simp only
          cases sv with
          | leaf v =>
            simp only [kentriesVal] at hfil
            rw [perm_singleton_eq hfil]
            exact ⟨.leaf v, rfl, rfl⟩
          | leaves vs =>
            simp only [kentriesVal] at hfil
            rw [perm_singleton_eq hfil]
            exact ⟨.leaves vs, rfl, rfl⟩
          | emptyObj =>
            simp only [kentriesVal] at hfil
            rw [perm_singleton_eq hfil]
            refine ⟨fresh (subOf fields n), rfl, ?_⟩
            simp [expNode, fresh, eraseNode, eraseAttrs_fresh]
          | obj ms' =>
            obtain ⟨occ, cid, sub, hl, hm, hne', hwt'⟩ := hwv
            simp only [kentriesVal, subOf_eq hl] at hfil
            obtain ⟨ys, hys, hyseq⟩ := perm_map_pullback (KEntry.push n none) _ _ hfil
            rw [hyseq] at hfs ⊢
            have hsegs : ∀ y, y ∈ ys → y.segs ≠ [] :=
              fun y hy => kentries_segs_ne sub ms' y (hys.subset hy)
            have hysne : ys ≠ [] := by
              intro e; subst e
              exact kentries_ne_nil F _ sub ms' (Nat.le_refl _) hwt' hne' hys.symm.eq_nil
            rw [foldO_updK_obj_none true fields n occ cid sub hl hm ys hsegs hysne]
            obtain ⟨hsnd, hswf⟩ := Wf_sub hwf hl
            simp only [ContigVal] at hcv
            obtain ⟨c', hc', hce⟩ := ih sub ms' (by simp only [SVal.size] at hsz; omega) hsnd.1 hswf hwt' hcv
              ys hys hfs.of_push
            refine ⟨.obj c', by rw [hc']; rfl, ?_⟩
            simp only [eraseNode, expNode, subOf_eq hl, hce, expAttrs]
          | arr elems =>
            obtain ⟨occ, cid, sub, hl, hm, hinc, hwe⟩ := hwv
            simp only [kentriesVal, subOf_eq hl] at hfil
            by_cases hemp : elems = []
            · subst hemp
              simp only [List.isEmpty_nil, if_true] at hfil
              rw [perm_singleton_eq hfil]
              refine ⟨.arr [] [], ?_, ?_⟩
              · simp only [foldO_cons, foldO_nil, updK, List.map_nil, stepMemberT, KV.payload, assignNode]; rfl
              · simp [eraseNode, expNode, expElems, eraseItems]
            · have hise : elems.isEmpty = false := by
                cases elems with
                | nil => exact absurd rfl hemp
                | cons _ _ => rfl
              simp only [hise, Bool.false_eq_true, if_false] at hfil
              obtain ⟨hsnd, hswf⟩ := Wf_sub hwf hl
              have hel := WtElems_unpack hwe
              simp only [ContigVal] at hcv
              have hcel := ContigElems_unpack hcv.2
              generalize hes : es.filter (fun e => e.head = n) = esk at hfil hfs
              -- every key is `n[i]…`
              have hform : ∀ e, e ∈ esk → ∃ (i : Nat) (y : KEntry), e = y.push n (some i) ∧ y.segs ≠ [] := by
                intro e he
                obtain ⟨i, ms', y, h1, h2, rfl⟩ := kentriesElems_form sub n elems e (hfil.subset he)
                exact ⟨i, y, rfl, kentries_segs_ne sub ms' y h2⟩
              have hnonempty : ∀ i ms', (i, ms') ∈ elems → kentries sub ms' ≠ [] :=
                fun i ms' h1 => kentries_ne_nil F _ sub ms' (Nat.le_refl _) (hel i ms' h1).2 (hel i ms' h1).1
              have heskne : esk ≠ [] := by
                intro e; subst e
                cases elems with
                | nil => exact hemp rfl
                | cons a r =>
                  obtain ⟨i, ms0⟩ := a
                  have h0 := hnonempty i ms0 List.mem_cons_self
                  have : kentriesElems sub n ((i, ms0) :: r) = [] := hfil.symm.eq_nil
                  simp only [kentriesElems, List.append_eq_nil_iff, List.map_eq_nil_iff] at this
                  exact h0 this.1
              -- `None` and the empty list behave alike
              have hstart : foldO (updK true fields n) .none esk = foldO (updK true fields n) (.arr [] []) esk := by
                cases esk with
                | nil => exact absurd rfl heskne
                | cons e es' =>
                  obtain ⟨i, y, rfl, hy⟩ := hform e List.mem_cons_self
                  simp only [foldO_cons]
                  rw [updK_push_arr_none true fields n occ cid sub hl hm i y hy]
              -- the indexes arrive in an order the strict branch accepts
              have hso : SO 0 (esk.map headIdx) := by
                apply so_of_sorted elems.length
                · exact hfs.heads (fun e he => by obtain ⟨i, y, h, _⟩ := hform e he; exact ⟨i, y, h⟩)
                · intro x hx
                  obtain ⟨e, he, rfl⟩ := List.mem_map.mp hx
                  obtain ⟨i, ms', y, h1, _, rfl⟩ := kentriesElems_form sub n elems e (hfil.subset he)
                  have : i ∈ elems.map Prod.fst := List.mem_map_of_mem (f := Prod.fst) h1
                  rw [hcv.1, List.mem_range] at this
                  exact ⟨this, Nat.zero_le _⟩
                · intro j _ hj
                  have : j ∈ elems.map Prod.fst := by rw [hcv.1]; exact List.mem_range.mpr hj
                  obtain ⟨el, hel', rfl⟩ := List.mem_map.mp this
                  obtain ⟨i, ms'⟩ := el
                  -- the element has a key, which is among the keys processed
                  have hne0 := hnonempty i ms' hel'
                  cases hk0 : kentries sub ms' with
                  | nil => exact absurd hk0 hne0
                  | cons y0 _ =>
                    have hy0 : y0 ∈ kentries sub ms' := by rw [hk0]; exact List.mem_cons_self
                    have hmem' : y0.push n (some i) ∈ kentriesElems sub n elems :=
                      kentriesElems_mem sub n elems i ms' y0 hel' hy0
                    exact List.mem_map.mpr ⟨_, hfil.symm.subset hmem', rfl⟩
              rw [hstart]
              have hsim := strict_sim fields n occ cid sub hl hm esk [] hso hform
              simp only [List.length_nil] at hsim
              rw [hsim]
              obtain ⟨s', hs', hse⟩ := hybrid_fold true sub n elems hinc
                (fun i ms' y h1 h2 => kentries_segs_ne sub ms' y h2) hnonempty KSorted
                (fun i ms' h1 ys hys hgood => by
                  have := elSize_lt_of_mem h1
                  exact ih sub ms' (by simp only [SVal.size] at hsz; omega) hsnd.1 hswf (hel i ms' h1).2
                    (hcel i ms' h1) ys hys hgood)
                esk hfil
                (fun j ys hyj => by
                  have : KSorted (ys.map (KEntry.push n (some j))) := by rw [hyj]; exact hfs.filter _
                  exact this.of_push)
              have hid : idmap 0 = [] := rfl
              rw [hid, hs']
              refine ⟨.arr [] s'.2, rfl, ?_⟩
              simp only [eraseNode, expNode, subOf_eq hl, hse])
    obtain ⟨attrs', hfold, _, hq⟩ := key
    refine ⟨attrs', hfold, ?_⟩
    have hheads : ∀ e, e ∈ es → e.head ∈ (freshAttrs fields).map Prod.fst := by
      intro e he
      rw [freshAttrs_keys]
      obtain ⟨m, hm, hm1⟩ := List.mem_map.mp (kentries_head_mem fields ms e (hp.subset he))
      obtain ⟨n, sv⟩ := m
      simp only at hm1; rw [← hm1]
      exact WtVal_name (hvals n sv hm)
    have hk1 : attrs'.map Prod.fst = fields.map Prod.fst := by
      rw [foldO_walkK_keys true fields es _ _ hheads hfold, freshAttrs_keys]
    have hk2 : (expAttrs fields ms).map Prod.fst = fields.map Prod.fst := by
      simp only [expAttrs]
      rw [expInto_keys, freshAttrs_keys]
      intro m hm
      rw [freshAttrs_keys]
      obtain ⟨n, sv⟩ := m
      exact WtVal_name (hvals n sv hm)
    have e1 := attrs_eq_of_get (eraseAttrs attrs') (by rw [eraseAttrs_keys, hk1]; exact hnd)
    have e2 := attrs_eq_of_get (expAttrs fields ms) (by rw [hk2]; exact hnd)
    rw [e1, e2, eraseAttrs_keys, hk1, hk2]
    apply List.map_congr_left
    intro k _
    rw [getAttr_eraseAttrs, hq k]

end SpyneModel.Flat
