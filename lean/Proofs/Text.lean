import SpyneModel.Text
namespace SpyneModel

theorem dval_digitChar : ∀ d, d < 10 → dval (digitChar d) = d := by decide
theorem isDigit_digitChar : ∀ d, d < 10 → isDigit (digitChar d) = true := by decide

theorem natText_ne_nil (n : Nat) : natText n ≠ [] := by
  fun_induction natText n <;> simp

theorem natText_all_digits (n : Nat) : (natText n).all isDigit = true := by
  fun_induction natText n with
  | case1 n h => simp [isDigit_digitChar n h]
  | case2 n h ih => simp [ih, isDigit_digitChar (n % 10) (Nat.mod_lt _ (by omega))]

theorem valNat_append_single (s : Text) (c : Char) : valNat (s ++ [c]) = valNat s * 10 + dval c := by
  simp [valNat, List.foldl_append]

theorem valNat_natText (n : Nat) : valNat (natText n) = n := by
  fun_induction natText n with
  | case1 n h => simp [valNat, dval_digitChar n h]
  | case2 n h ih =>
    rw [valNat_append_single, ih, dval_digitChar (n % 10) (Nat.mod_lt _ (by omega))]
    omega

theorem allDigits_natText (n : Nat) : allDigits (natText n) = true := by
  simp [allDigits, natText_all_digits, natText_ne_nil]

theorem parseNat_natText (n : Nat) : parseNat? (natText n) = some n := by
  simp [parseNat?, allDigits_natText, valNat_natText]

end SpyneModel

namespace SpyneModel

theorem take2_pad2 (n : Nat) (h : n < 100) (rest : Text) : take2 (pad2 n ++ rest) = some (n, rest) := by
  have h1 : n / 10 < 10 := by omega
  have h2 : n % 10 < 10 := by omega
  simp [take2, pad2, isDigit_digitChar _ h1, isDigit_digitChar _ h2, dval_digitChar _ h1, dval_digitChar _ h2]
  omega

theorem take4_pad4 (n : Nat) (h : n < 10000) (rest : Text) : take4 (pad4 n ++ rest) = some (n, rest) := by
  have h1 : n / 1000 < 10 := by omega
  have h2 : n / 100 % 10 < 10 := by omega
  have h3 : n / 10 % 10 < 10 := by omega
  have h4 : n % 10 < 10 := by omega
  simp [take4, pad4, isDigit_digitChar _ h1, isDigit_digitChar _ h2, isDigit_digitChar _ h3,
    isDigit_digitChar _ h4, dval_digitChar _ h1, dval_digitChar _ h2, dval_digitChar _ h3, dval_digitChar _ h4]
  omega

theorem spanDigits_all (ds : Text) (hd : ds.all isDigit = true) (rest : Text)
    (hr : ∀ c r, rest = c :: r → isDigit c = false) : spanDigits (ds ++ rest) = (ds, rest) := by
  induction ds with
  | nil =>
    cases rest with
    | nil => simp [spanDigits]
    | cons c r => simp [spanDigits, hr c r rfl]
  | cons d ds ih =>
    rw [List.all_cons, Bool.and_eq_true] at hd
    simp [spanDigits, hd.1, ih hd.2]

theorem pad6_all_digits (n : Nat) (h : n < 1000000) : (pad6 n).all isDigit = true := by
  have h1 : n / 100000 < 10 := by omega
  simp [pad6, isDigit_digitChar _ h1, isDigit_digitChar (n / 10000 % 10) (by omega),
    isDigit_digitChar (n / 1000 % 10) (by omega), isDigit_digitChar (n / 100 % 10) (by omega),
    isDigit_digitChar (n / 10 % 10) (by omega), isDigit_digitChar (n % 10) (by omega)]

theorem valNat_pad6 (n : Nat) (h : n < 1000000) : valNat (pad6 n) = n := by
  have h1 : n / 100000 < 10 := by omega
  simp [pad6, valNat, dval_digitChar _ h1, dval_digitChar (n / 10000 % 10) (by omega),
    dval_digitChar (n / 1000 % 10) (by omega), dval_digitChar (n / 100 % 10) (by omega),
    dval_digitChar (n / 10 % 10) (by omega), dval_digitChar (n % 10) (by omega)]
  omega

theorem pad6_length (n : Nat) : (pad6 n).length = 6 := by simp [pad6]

end SpyneModel
