import Proofs.SchemaDocs
import SpyneModel.SchemaMethods
/-! C06: adding the method elements (bare methods: argument classes of other namespaces) keeps the set compiling. -/
namespace SpyneModel
namespace Schema

theorem nodupKeys_filter {α} (l : List (Key × α)) (p : Key × α → Bool) (h : nodupKeys l = true) : nodupKeys (l.filter p) = true := by
  induction l with
  | nil => rfl
  | cons e r ih =>
    obtain ⟨k, v⟩ := e
    simp only [nodupKeys, Bool.and_eq_true, Bool.not_eq_true', List.any_eq_false, beq_iff_eq] at h
    by_cases hp : p (k, v) = true
    · rw [List.filter_cons_of_pos hp]
      simp only [nodupKeys, Bool.and_eq_true, Bool.not_eq_true', List.any_eq_false, beq_iff_eq]
      exact ⟨fun x hx => h.1 x (List.mem_filter.mp hx).1, ih h.2⟩
    · rw [List.filter_cons_of_neg hp]; exact ih h.2

theorem lookup_none_of_not_key {α} (l : List (Key × α)) (k : Key) : l.lookup k = none ↔ ∀ e ∈ l, e.1 ≠ k := by
  induction l with
  | nil => simp [List.lookup]
  | cons e r ih =>
    obtain ⟨a, v⟩ := e
    simp only [List.lookup]
    by_cases hk : k = a
    · subst hk; simp
    · have : (k == a) = false := by simpa using hk
      rw [this]; simp only [ih, List.mem_cons, forall_eq_or_imp]
      constructor
      · intro h; exact ⟨fun e => hk e.symm, h⟩
      · intro h; exact h.2

theorem nodupKeys_append {α} (a b : List (Key × α)) (ha : nodupKeys a = true) (hb : nodupKeys b = true)
    (hd : ∀ e ∈ b, a.lookup e.1 = none) : nodupKeys (a ++ b) = true := by
  induction a with
  | nil => exact hb
  | cons e r ih =>
    obtain ⟨k, v⟩ := e
    simp only [nodupKeys, Bool.and_eq_true, Bool.not_eq_true', List.any_eq_false, beq_iff_eq] at ha
    simp only [List.cons_append, nodupKeys, Bool.and_eq_true, Bool.not_eq_true', List.any_eq_false, beq_iff_eq, List.mem_append]
    refine ⟨?_, ih ha.2 (fun e he => ?_)⟩
    · intro x hx
      rcases hx with hx | hx
      · exact ha.1 x hx
      · have := (lookup_none_of_not_key _ _).mp (hd x hx) (k, v) (by simp)
        exact fun e => this e.symm
    · have := (lookup_none_of_not_key _ _).mp (hd e he)
      exact (lookup_none_of_not_key _ _).mpr (fun x hx => this x (by simp [hx]))

theorem visible_mono (S S' : Schema) (hi : ∀ i ∈ S.imports, i ∈ S'.imports) (ns : Text) (k : Key)
    (h : S.visible ns k = true) : S'.visible ns k = true := by
  simp only [Schema.visible, Bool.or_eq_true, decide_eq_true_eq] at h ⊢
  rcases h with h | h
  · exact Or.inl h
  · exact Or.inr (List.contains_iff_mem.mpr (hi _ (List.contains_iff_mem.mp h)))

/-- **method elements**: declaring the request / response elements of the methods (for a bare method:
    an element of the application's namespace typed by the argument class, wherever that class lives,
    plus the import of its namespace) keeps the set of documents compiling -/
theorem withMethods_compiles (S : Schema) (M : Methods) (hc : S.compiles = true) (hm : M.ok S = true) :
    (S.withMethods M).compiles = true := by
  unfold Schema.compiles at hc
  simp only [Bool.and_eq_true] at hc
  obtain ⟨⟨⟨⟨⟨⟨⟨h1, h2⟩, h3⟩, h4⟩, h5⟩, h6⟩, h7⟩, h8⟩ := hc
  unfold Methods.ok at hm
  simp only [Bool.and_eq_true] at hm
  obtain ⟨hm1, hm2⟩ := hm
  rw [List.all_eq_true] at hm1 hm2 h6 h7
  have hcx : (S.withMethods M).complex = S.complex := rfl
  have hsx : (S.withMethods M).simple = S.simple := rfl
  have hbd : (S.withMethods M).chainBound = S.chainBound := rfl
  have himp : ∀ i ∈ S.imports, i ∈ (S.withMethods M).imports := by
    intro i hi
    show i ∈ dedupL _
    rw [mem_dedupL]
    exact List.mem_append.mpr (Or.inl hi)
  have hhc : ∀ k, (S.withMethods M).hasComplex k = S.hasComplex k := fun _ => rfl
  have hhs : ∀ k, (S.withMethods M).hasSimple k = S.hasSimple k := fun _ => rfl
  have hdocs : ∀ n, n ∈ S.docNs → n ∈ (S.withMethods M).docNs := by
    intro n hn
    unfold Schema.docNs at hn ⊢
    rw [mem_dedupL] at hn ⊢
    rcases List.mem_cons.mp hn with e | e
    · subst e; exact List.mem_cons_self
    · apply List.mem_cons_of_mem
      rcases List.mem_append.mp e with e | e
      · exact List.mem_append.mpr (Or.inl e)
      · obtain ⟨el, hel, rfl⟩ := List.mem_map.mp e
        have := hm2 el hel
        obtain ⟨v, hv⟩ := mem_of_lookup_isSome S.complex el.1 this
        exact List.mem_append.mpr (Or.inl (List.mem_append.mpr (Or.inr (List.mem_map.mpr ⟨(el.1, v), hv, rfl⟩))))
  unfold Schema.compiles
  simp only [Bool.and_eq_true]
  refine ⟨⟨⟨⟨⟨⟨⟨h1, h2⟩, ?_⟩, h4⟩, h5⟩, ?_⟩, ?_⟩, ?_⟩
  · -- element names stay unique
    show nodupKeys (_ ++ dedupKeys _) = true
    apply nodupKeys_append
    · exact nodupKeys_filter _ _ h3
    · exact nodupKeys_dedupAux [] _
    · intro e he
      have := dedupAux_sub [] _ e he
      have := (List.mem_filter.mp this).2
      exact Option.isNone_iff_eq_none.mp this
  · rw [hcx, List.all_eq_true]
    intro e he
    have := h6 e he
    unfold complexDefOk at this ⊢
    simp only [Bool.and_eq_true] at this ⊢
    obtain ⟨⟨⟨hb, hch⟩, hps⟩, hnd⟩ := this
    refine ⟨⟨⟨?_, by rw [hcx, hbd]; exact hch⟩, ?_⟩, by rw [hcx, hbd]; exact hnd⟩
    · cases hbb : e.2.base with
      | none => rfl
      | some b =>
        rw [hbb] at hb
        simp only [Bool.and_eq_true] at hb ⊢
        exact ⟨visible_mono S _ himp _ _ hb.1, hb.2⟩
    · rw [List.all_eq_true] at hps ⊢
      intro p hp
      have := hps p hp
      simp only [Bool.and_eq_true] at this ⊢
      refine ⟨?_, this.2⟩
      cases ht : p.type with
      | builtin b => rfl
      | named k =>
        have h1' := this.1
        rw [ht] at h1'
        simp only [Schema.refOk, Bool.and_eq_true] at h1' ⊢
        exact ⟨visible_mono S _ himp _ _ h1'.1, h1'.2⟩
  · -- every global element has a visible, defined type
    rw [List.all_eq_true]
    intro e he
    have he' : e ∈ S.elements.filter (fun e => !M.noElem.contains e.1) ++
        dedupKeys ((M.elems.map (fun m => ((S.tns, m.1), m.2))).filter
          (fun e => ((S.elements.filter (fun e => !M.noElem.contains e.1)).lookup e.1).isNone)) := he
    rcases List.mem_append.mp he' with h | h
    · have := h7 e (List.mem_filter.mp h).1
      simp only [Bool.and_eq_true] at this ⊢
      exact ⟨visible_mono S _ himp _ _ this.1, this.2⟩
    · have := (List.mem_filter.mp (dedupAux_sub [] _ e h)).1
      obtain ⟨m, hmm, rfl⟩ := List.mem_map.mp this
      simp only [Bool.and_eq_true]
      refine ⟨?_, hm1 m hmm⟩
      simp only [Schema.visible, Bool.or_eq_true, decide_eq_true_eq]
      by_cases hk : m.2.1 = S.tns
      · exact Or.inl hk
      · right
        apply List.contains_iff_mem.mpr
        show (S.tns, m.2.1) ∈ dedupL _
        rw [mem_dedupL]
        exact List.mem_append.mpr (Or.inr (List.mem_filterMap.mpr ⟨m, hmm, by simp [hk]⟩))
  · -- every import has a document
    unfold Schema.importsHaveDocs at h8 ⊢
    rw [List.all_eq_true] at h8 ⊢
    intro i hi
    have hi' : i ∈ dedupL (S.imports ++ M.elems.filterMap (fun m => if m.2.1 = S.tns then none else some (S.tns, m.2.1))) := hi
    rw [mem_dedupL] at hi'
    apply List.contains_iff_mem.mpr
    rcases List.mem_append.mp hi' with h | h
    · exact hdocs _ (List.contains_iff_mem.mp (h8 i h))
    · obtain ⟨m, hmm, e⟩ := List.mem_filterMap.mp h
      by_cases hk : m.2.1 = S.tns
      · simp [hk] at e
      · simp only [hk, if_false, Option.some.injEq] at e
        subst e
        exact hdocs _ (defined_has_doc S m.2 (by rw [Bool.or_comm]; exact hm1 m hmm))

theorem gen_elements_complex (A : App) : (gen A).elements.all (fun e => (gen A).hasComplex e.1) = true := by
  rw [List.all_eq_true]
  intro e he
  have he' : e ∈ (gen A).complex.map (fun e => (e.1, e.1)) := he
  obtain ⟨y, hy, rfl⟩ := List.mem_map.mp he'
  exact lookup_isSome_of_mem _ y hy

theorem gen_withMethods_compiles (A : App) (G : A.leaf.Good) (hwf : A.wf = true) (M : Methods)
    (hm : M.elems.all (fun m => (gen A).hasComplex m.2 || (gen A).hasSimple m.2) = true) :
    ((gen A).withMethods M).compiles = true := by
  apply withMethods_compiles _ _ (Schema.gen_compiles A G hwf)
  unfold Methods.ok
  rw [hm, gen_elements_complex]
  rfl

theorem lookup_app {α} (a b : List (Key × α)) (k : Key) : (a ++ b).lookup k = ((a.lookup k).or (b.lookup k)) := by
  induction a with
  | nil => simp [List.lookup]
  | cons e r ih =>
    obtain ⟨k', v⟩ := e
    simp only [List.cons_append, List.lookup]
    cases k == k' <;> simp [ih]

/-- the element declared for a message of the method table is a global element of the set -/
theorem elems_declared (S : Schema) (M : Methods) (m : Text × Key) (hm : m ∈ M.elems) :
    ((S.withMethods M).elements.lookup (S.tns, m.1)).isSome = true := by
  show ((S.elements.filter (fun e => !M.noElem.contains e.1) ++
      dedupKeys ((M.elems.map (fun m => ((S.tns, m.1), m.2))).filter
        (fun e => ((S.elements.filter (fun e => !M.noElem.contains e.1)).lookup e.1).isNone))).lookup (S.tns, m.1)).isSome = true
  cases hk : (S.elements.filter (fun e => !M.noElem.contains e.1)).lookup (S.tns, m.1) with
  | some v => rw [lookup_app, hk]; rfl
  | none =>
    rw [lookup_app, hk]
    simp only [Option.none_or]
    rw [lookup_dedupKeys]
    have hmem : ((S.tns, m.1), m.2) ∈ (M.elems.map (fun m => ((S.tns, m.1), m.2))).filter
        (fun e => ((S.elements.filter (fun e => !M.noElem.contains e.1)).lookup e.1).isNone) := by
      apply List.mem_filter.mpr
      exact ⟨List.mem_map.mpr ⟨m, hm, rfl⟩, by show (List.lookup (S.tns, m.1) _).isNone = true; rw [hk]; rfl⟩
    exact lookup_isSome_of_mem _ _ hmem

/-- **root of a bare response.** When the serializer names a not-wrapped response after the out
    message's `sub_name` (`bareRootIsSubName`, T1), the root element of the response of every method
    of the table — class typed or built-in typed — is an element the published set declares. -/
theorem bare_root_declared (F : Facts06) (hF : F.bareRootIsSubName = true) (S : Schema) (M : Methods)
    (subName typeName : Text)
    (hm : (∃ k, (subName, k) ∈ M.elems) ∨ (M.prims.lookup subName).isSome = true) :
    S.declaresRoot M (S.tns, bareRootName F subName typeName) = true := by
  unfold Schema.declaresRoot bareRootName
  rw [hF]
  simp only [if_true, Bool.or_eq_true, Bool.and_eq_true, decide_eq_true_eq]
  rcases hm with ⟨k, hk⟩ | h
  · exact Or.inl (elems_declared S M (subName, k) hk)
  · exact Or.inr ⟨trivial, h⟩

end Schema
end SpyneModel
