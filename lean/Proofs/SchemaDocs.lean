import Proofs.SchemaCompile
/-!
  The set of schema documents (C06): one document per namespace, imports sorted, every import has a
  document, every QName written with the interface's prefixes resolves to the component meant.
-/
namespace SpyneModel
namespace Schema

/-! ### `sorted` -/

theorem textLe_refl : ∀ a : Text, textLe a a = true
  | [] => rfl
  | c :: r => by simp [textLe, textLe_refl r]

theorem textLe_total : ∀ a b : Text, (textLe a b || textLe b a) = true
  | [], _ => by simp [textLe]
  | _ :: _, [] => by simp [textLe]
  | a :: r, b :: s => by
    have ih := textLe_total r s
    simp only [textLe, Bool.or_eq_true, decide_eq_true_eq, Bool.and_eq_true, beq_iff_eq] at ih ⊢
    rcases Nat.lt_trichotomy a.toNat b.toNat with h | h | h
    · exact Or.inl (Or.inl h)
    · rcases ih with ih | ih
      · exact Or.inl (Or.inr ⟨h, ih⟩)
      · exact Or.inr (Or.inr ⟨h.symm, ih⟩)
    · exact Or.inr (Or.inl h)

theorem textLe_trans : ∀ a b c : Text, textLe a b = true → textLe b c = true → textLe a c = true
  | [], _, _, _, _ => by simp [textLe]
  | _ :: _, [], _, h, _ => by simp [textLe] at h
  | _ :: _, _ :: _, [], _, h => by simp [textLe] at h
  | a :: r, b :: s, c :: t, h1, h2 => by
    have ih := textLe_trans r s t
    simp only [textLe, Bool.or_eq_true, decide_eq_true_eq, Bool.and_eq_true, beq_iff_eq] at h1 h2 ih ⊢
    rcases h1 with h1 | ⟨e1, h1⟩ <;> rcases h2 with h2 | ⟨e2, h2⟩
    · exact Or.inl (Nat.lt_trans h1 h2)
    · exact Or.inl (e2 ▸ h1)
    · exact Or.inl (e1 ▸ h2)
    · exact Or.inr ⟨e1.trans e2, ih h1 h2⟩

theorem mem_insertText (a x : Text) : ∀ l : List Text, x ∈ insertText a l ↔ x = a ∨ x ∈ l
  | [] => by simp [insertText]
  | b :: r => by
    unfold insertText
    by_cases h : textLe a b = true
    · simp [h]
    · simp only [h, if_false, List.mem_cons, mem_insertText a x r, Bool.false_eq_true]
      constructor
      · rintro (h | h | h)
        · exact Or.inr (Or.inl h)
        · exact Or.inl h
        · exact Or.inr (Or.inr h)
      · rintro (h | h | h)
        · exact Or.inr (Or.inl h)
        · exact Or.inl h
        · exact Or.inr (Or.inr h)

theorem mem_sortTexts (x : Text) : ∀ l : List Text, x ∈ sortTexts l ↔ x ∈ l
  | [] => by simp [sortTexts]
  | a :: r => by simp [sortTexts, mem_insertText, mem_sortTexts x r]

theorem pairwise_insertText (a : Text) : ∀ l : List Text, List.Pairwise (fun a b => textLe a b = true) l →
    List.Pairwise (fun a b => textLe a b = true) (insertText a l)
  | [], _ => by simp [insertText]
  | b :: r, h => by
    unfold insertText
    rw [List.pairwise_cons] at h
    by_cases hab : textLe a b = true
    · simp only [hab, if_true]
      refine List.pairwise_cons.mpr ⟨?_, List.pairwise_cons.mpr h⟩
      intro x hx
      rcases List.mem_cons.mp hx with e | e
      · subst e; exact hab
      · exact textLe_trans _ _ _ hab (h.1 x e)
    · simp only [hab, if_false, Bool.false_eq_true]
      have hba : textLe b a = true := by
        have := textLe_total a b
        simp only [Bool.or_eq_true] at this
        rcases this with t | t
        · exact absurd t hab
        · exact t
      refine List.pairwise_cons.mpr ⟨?_, pairwise_insertText a r h.2⟩
      intro x hx
      rcases (mem_insertText a x r).mp hx with e | e
      · subst e; exact hba
      · exact h.1 x e

theorem pairwise_sortTexts : ∀ l : List Text, List.Pairwise (fun a b => textLe a b = true) (sortTexts l)
  | [] => by simp [sortTexts]
  | a :: r => pairwise_insertText a _ (pairwise_sortTexts r)

/-- the `<xs:import>` elements of a document are its namespace's imports, in sorted order -/
theorem doc_imports (S : Schema) (ns : Text) :
    List.Pairwise (fun a b => textLe a b = true) (S.doc ns).imports ∧
    ∀ n, n ∈ (S.doc ns).imports ↔ (ns, n) ∈ S.imports := by
  constructor
  · exact pairwise_sortTexts _
  · intro n
    simp only [Schema.doc, mem_sortTexts, List.mem_map, List.mem_filter, beq_iff_eq]
    constructor
    · rintro ⟨⟨a, b⟩, ⟨h, e⟩, rfl⟩
      simp only at e; subst e; exact h
    · intro h; exact ⟨(ns, n), ⟨h, rfl⟩, rfl⟩

/-- every component is in exactly the document of its namespace -/
theorem doc_complex (S : Schema) (e : Key × ComplexDef) (he : e ∈ S.complex) :
    e ∈ (S.doc e.1.1).complex ∧ e.1.1 ∈ S.docNs := by
  constructor
  · simp [Schema.doc, he]
  · unfold Schema.docNs
    rw [mem_dedupL]
    exact List.mem_cons_of_mem _ (List.mem_append.mpr (Or.inl (List.mem_append.mpr (Or.inr
      (List.mem_map.mpr ⟨e, he, rfl⟩)))))

theorem doc_simple (S : Schema) (e : Key × SimpleDef) (he : e ∈ S.simple) :
    e ∈ (S.doc e.1.1).simple ∧ e.1.1 ∈ S.docNs := by
  constructor
  · simp [Schema.doc, he]
  · unfold Schema.docNs
    rw [mem_dedupL]
    exact List.mem_cons_of_mem _ (List.mem_append.mpr (Or.inl (List.mem_append.mpr (Or.inl
      (List.mem_map.mpr ⟨e, he, rfl⟩)))))

theorem mem_of_lookup_isSome {α β} [BEq α] [LawfulBEq α] (l : List (α × β)) (k : α) (h : (l.lookup k).isSome = true) :
    ∃ v, (k, v) ∈ l := by
  induction l with
  | nil => simp [List.lookup] at h
  | cons e r ih =>
    obtain ⟨a, b⟩ := e
    by_cases hk : k = a
    · subst hk; exact ⟨b, by simp⟩
    · have : (k == a) = false := by simpa using hk
      simp only [List.lookup, this] at h
      obtain ⟨v, hv⟩ := ih h
      exact ⟨v, List.mem_cons_of_mem _ hv⟩

/-- a defined name lives in a namespace that has a document -/
theorem defined_has_doc (S : Schema) (k : Key) (h : (S.hasSimple k || S.hasComplex k) = true) : k.1 ∈ S.docNs := by
  rw [Bool.or_eq_true] at h
  rcases h with h | h
  · obtain ⟨v, hv⟩ := mem_of_lookup_isSome S.simple k h
    exact (doc_simple S (k, v) hv).2
  · obtain ⟨v, hv⟩ := mem_of_lookup_isSome S.complex k h
    exact (doc_complex S (k, v) hv).2

/-! ### `importsHaveDocs` for the generated set -/

theorem imports_have_docs (A : App) (hwf : A.wf = true) : (gen A).importsHaveDocs = true := by
  have hc := closed_of_wf A hwf
  unfold Schema.importsHaveDocs
  rw [List.all_eq_true]
  rintro ⟨a, n⟩ hi
  have hi' : (a, n) ∈ dedupL (A.allClasses.flatMap (classImports A)) := hi
  rw [mem_dedupL] at hi'
  obtain ⟨D, hD, hm⟩ := List.mem_flatMap.mp hi'
  unfold classImports at hm
  obtain ⟨m, hm1, hm2⟩ := List.mem_filterMap.mp hm
  have hmn : m = n := by
    by_cases h : m = D.ns
    · simp [h] at hm2
    · simp [h] at hm2; exact hm2.2
  subst hmn
  apply List.contains_iff_mem.mpr
  rcases List.mem_append.mp hm1 with h | h
  · cases hp : parentOf A.iface D with
    | none => rw [hp] at h; cases h
    | some P =>
      rw [hp] at h
      simp only [List.mem_singleton] at h
      subst h
      have := hc.cplx P (parent_mem A D P hp)
      apply defined_has_doc (gen A) (P.ns, P.name)
      simp [Schema.hasComplex, this]
  · obtain ⟨f, hf, hr⟩ := List.mem_filterMap.mp h
    have hok := refOk_field A D hD f hf (hc.pos D hD f hf)
    cases hrr : refOf A D.ns D.name f.1 f.2 with
    | builtin b => rw [hrr] at hr; cases hr
    | named key =>
      rw [hrr] at hr hok
      simp only [refNs, Option.some.injEq] at hr
      subst hr
      simp only [Schema.refOk, Bool.and_eq_true] at hok
      exact defined_has_doc (gen A) key hok.2

theorem gen_compiles (A : App) (G : A.leaf.Good) (hwf : A.wf = true) : (gen A).compiles = true :=
  gen_compiles_of A G hwf (imports_have_docs A hwf)

/-! ### QNames -/

theorem lookup_swap_of_ok (pm : PrefMap) (h : pm.all (fun e => (pm.map (fun e => (e.2, e.1))).lookup e.2 == some e.1) = true)
    (n p : Text) (hl : pm.lookup n = some p) : (pm.map (fun e => (e.2, e.1))).lookup p = some n := by
  rw [List.all_eq_true] at h
  have hmem : (n, p) ∈ pm := by
    clear h
    induction pm with
    | nil => simp [List.lookup] at hl
    | cons e r ih =>
      obtain ⟨a, b⟩ := e
      by_cases hk : n = a
      · subst hk; simp [List.lookup] at hl; subst hl; simp
      · have : (n == a) = false := by simpa using hk
        simp only [List.lookup, this] at hl
        exact List.mem_cons_of_mem _ (ih hl)
  exact beq_iff_eq.mp (h (n, p) hmem)

/-- a QName written for a name of a namespace that has a document reads back as that name -/
theorem qname_roundtrip (pm : PrefMap) (S : Schema) (hp : prefixesOk pm S = true) (k : Key) (hk : k.1 ∈ S.docNs) :
    ∃ q, qnameOf pm k = some q ∧ resolveQ pm q = some k := by
  unfold prefixesOk at hp
  simp only [Bool.and_eq_true] at hp
  have h1 := (List.all_eq_true.mp hp.1) k.1 hk
  cases hl : pm.lookup k.1 with
  | none => rw [hl] at h1; cases h1
  | some p =>
    refine ⟨(p, k.2), by simp [qnameOf, hl], ?_⟩
    simp [resolveQ, lookup_swap_of_ok pm hp.2 k.1 p hl]

/-- **no dangling QName**: in a set of documents that compiles, every `type=` / `base=` — written
    with the interface's prefixes — reads back as the name meant, that name is defined in the set,
    and it is in the referring document's own namespace or in one it imports, which has a document -/
theorem no_dangling_qname (S : Schema) (hc : S.compiles = true) (pm : PrefMap) (hp : prefixesOk pm S = true) :
    ∀ r ∈ S.namedRefs,
      (∃ q, qnameOf pm r.2 = some q ∧ resolveQ pm q = some r.2) ∧
      (S.hasSimple r.2 || S.hasComplex r.2) = true ∧
      (r.2.1 = r.1 ∨ r.2.1 ∈ (S.doc r.1).imports) ∧ r.2.1 ∈ S.docNs := by
  unfold Schema.compiles at hc
  simp only [Bool.and_eq_true] at hc
  obtain ⟨⟨⟨_, hcx⟩, hel⟩, _⟩ := hc
  rw [List.all_eq_true] at hcx hel
  have main : ∀ (d : Text) (k : Key), S.visible d k = true → (S.hasSimple k || S.hasComplex k) = true →
      (∃ q, qnameOf pm k = some q ∧ resolveQ pm q = some k) ∧ (S.hasSimple k || S.hasComplex k) = true ∧
      (k.1 = d ∨ k.1 ∈ (S.doc d).imports) ∧ k.1 ∈ S.docNs := by
    intro d k hv hd
    have hdoc := defined_has_doc S k hd
    refine ⟨qname_roundtrip pm S hp k hdoc, hd, ?_, hdoc⟩
    simp only [Schema.visible, Bool.or_eq_true, decide_eq_true_eq] at hv
    rcases hv with hv | hv
    · exact Or.inl hv
    · exact Or.inr (((doc_imports S d).2 k.1).mpr (List.contains_iff_mem.mp hv))
  intro r hr
  unfold Schema.namedRefs at hr
  rcases List.mem_append.mp hr with hr | hr
  · obtain ⟨e, he, hr⟩ := List.mem_flatMap.mp hr
    have hok := hcx e he
    unfold complexDefOk at hok
    simp only [Bool.and_eq_true] at hok
    rcases List.mem_append.mp hr with hr | hr
    · cases hb : e.2.base with
      | none => rw [hb] at hr; cases hr
      | some b =>
        rw [hb] at hr
        simp only [List.mem_singleton] at hr
        subst hr
        have := hok.1.1.1
        rw [hb] at this
        simp only [Bool.and_eq_true] at this
        exact main e.1.1 b this.1 (by simp [this.2])
    · obtain ⟨p, hp', hr⟩ := List.mem_filterMap.mp hr
      have hpo := (List.all_eq_true.mp hok.1.2) p hp'
      simp only [Bool.and_eq_true] at hpo
      cases ht : p.type with
      | builtin b => rw [ht] at hr; cases hr
      | named k =>
        rw [ht] at hr hpo
        simp only [Option.some.injEq] at hr
        subst hr
        have := hpo.1
        simp only [Schema.refOk, Bool.and_eq_true] at this
        exact main e.1.1 k this.1 this.2
  · obtain ⟨e, he, rfl⟩ := List.mem_map.mp hr
    have := hel e he
    simp only [Bool.and_eq_true] at this
    exact main e.1.1 e.2 this.1 (by rw [Bool.or_comm]; exact this.2)

/-! ### a universe with a cross-namespace inheritance chain, for the examples of Props/C06.lean -/
namespace ExampleX
open Example Xml

/-- `urn:b`:Base ⊂ `urn:a`:Derived; message `m` in `urn:t` -/
def cBase : ClassDef := { name := T "Base", ns := T "urn:b", base := none, fields := baseFields }
def cDer : ClassDef := { name := T "Derived", ns := T "urn:a", base := some (T "Base"), fields := derFields }
def cMsg : ClassDef := { name := T "m", ns := T "urn:t", base := none, fields := msgFields }
def iface : Iface := { classes := [cBase, cDer, cMsg], tns := T "urn:t" }
def pm : PrefMap := [(T "urn:t", T "tns"), (T "urn:a", T "s0"), (T "urn:b", T "s1"),
  (T "http://www.w3.org/2001/XMLSchema", T "xs")]
/-- `<tns:m><tns:d><s1:x>3</s1:x><s0:u>ab</s0:u></tns:d></tns:m>`: the inherited member is in the
    namespace of the class that declares it -/
def goodDoc : Node :=
  .elem (T "urn:t") (T "m") [] none
    [.elem (T "urn:t") (T "d") [] none
      [.elem (T "urn:b") (T "x") [] (some (T "3")) [], .elem (T "urn:a") (T "u") [] (some (T "ab")) []]]
/-- the same with the inherited member in the subclass's namespace -/
def wrongNsDoc : Node :=
  .elem (T "urn:t") (T "m") [] none
    [.elem (T "urn:t") (T "d") [] none
      [.elem (T "urn:a") (T "x") [] (some (T "3")) [], .elem (T "urn:a") (T "u") [] (some (T "ab")) []]]

end ExampleX

end Schema
end SpyneModel
