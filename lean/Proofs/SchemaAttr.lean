import Proofs.SchemaDocs
import SpyneModel.SchemaAttr
/-!
  C06, member kinds (attributes, XmlData, choice groups): the layer of SpyneModel/SchemaAttr.lean is the
  identity on element-only interfaces, and the extended set of documents compiles.
-/
namespace SpyneModel
namespace Schema
open Xml

/-! ### without attribute / data / choice members nothing changes -/

def itemOf (e : Key × Occ) : Item := .one e.1 e.2

theorem itemsInPlace_nil (ns : Text) : ∀ ps : List Particle,
    itemsInPlace ns [] none ps = ps.map (fun p => Item.one (ns, p.name) p.occ)
  | [] => rfl
  | p :: r => by simp [itemsInPlace, flushRun, List.lookup, itemsInPlace_nil ns r]

theorem ownItems_nil (b : Bool) (ns : Text) (ps : List Particle) :
    ownItems b ns ps [] = ps.map (fun p => Item.one (ns, p.name) p.occ) := by
  cases b
  · have h1 : (ps.filterMap (fun p => ([] : List (Text × Text)).lookup p.name)) = [] := by
      induction ps with
      | nil => rfl
      | cons p r ih => simp [List.lookup]
    simp only [ownItems, itemsAtEnd, h1, firstOcc, List.map_nil, List.append_nil]
    simp only [List.lookup, Option.isNone_none]
    rw [List.filter_eq_self.mpr (fun _ _ => rfl)]
    simp
  · simp [ownItems, itemsInPlace_nil]

theorem seqOkX_ones : ∀ (sl : List (Key × Occ)) (names : List Key), seqOkX (sl.map itemOf) names = seqOk sl names
  | [], names => rfl
  | (k, o) :: r, names => by simp [seqOkX, seqOk, itemOf, seqOkX_ones r]

/-- no class contributes an attribute, a simple content or a choice -/
def NoExt (S : SchemaX) : Prop :=
  ∀ k, ((S.ext.lookup k).getD {}).attrs = [] ∧ ((S.ext.lookup k).getD {}).data = none ∧ ((S.ext.lookup k).getD {}).choice = []

theorem effX_plain (S : SchemaX) (hT : NoExt S) : ∀ (f : Nat) (k : Key),
    effX S f k = { items := (slots (effParticles S.core.complex f k)).map itemOf, attrs := [], data := none }
  | 0, k => by simp [effX, effParticles, slots]
  | f + 1, k => by
    simp only [effX, effParticles]
    cases hl : S.core.complex.lookup k with
    | none => simp [slots]
    | some d =>
      obtain ⟨h1, h2, h3⟩ := hT k
      simp only [h1, h2, h3, ownItems_nil]
      cases hb : d.base with
      | none => simp [slots, itemOf, Function.comp_def]
      | some b =>
        simp [effX_plain S hT f b, slots, itemOf, Function.comp_def]

theorem attrsDeclOk_nil (S : SchemaX) (attrs : List (Text × Text)) : attrsDeclOk S [] attrs = attrsOk attrs := by
  simp [attrsDeclOk, attrsOk]

theorem resolveX_plain (S : SchemaX) (hT : NoExt S) (t : TypeRef) :
    S.resolve t = (S.core.resolve t).map (fun r => match r with
      | .simple b fs => ResolvedX.simple b fs
      | .complex ps => ResolvedX.complex ps { items := (slots ps).map itemOf, attrs := [], data := none }) := by
  cases t with
  | builtin b => rfl
  | named k =>
    simp only [SchemaX.resolve, Schema.resolve]
    cases S.core.simple.lookup k with
    | some d => rfl
    | none =>
      by_cases h : S.core.hasComplex k = true
      · simp [h, effX_plain S hT S.core.chainBound k]
      · simp [h]

mutual
  theorem validElemX_plain (S : SchemaX) (hT : NoExt S) (t : TypeRef) (nillable : Bool) : ∀ x : Node,
      validElemX S t nillable x = validElem S.core t nillable x
    | .elem ns name attrs text children => by
      simp only [validElemX, validElem, resolveX_plain S hT]
      cases hn : nilAttr attrs with
      | none => simp
      | some nv =>
        cases nv with
        | some b =>
          cases b with
          | true =>
            cases S.core.resolve t with
            | none => simp [Bool.and_assoc]
            | some r => cases r <;> simp [attrsDeclOk_nil, Bool.and_assoc]
          | false =>
            cases hr : S.core.resolve t with
            | none => simp
            | some r =>
              cases r with
              | simple b fs => simp [Bool.and_assoc, Bool.and_left_comm]
              | complex ps =>
                simp only [Option.map_some, attrsDeclOk_nil, seqOkX_ones, List.isEmpty_map,
                  validChildrenX_plain S hT ps children]
                simp [slots, Bool.and_assoc, Bool.and_left_comm]
        | none =>
          cases hr : S.core.resolve t with
          | none => simp
          | some r =>
            cases r with
            | simple b fs => simp [Bool.and_assoc, Bool.and_left_comm]
            | complex ps =>
              simp only [Option.map_some, attrsDeclOk_nil, seqOkX_ones, List.isEmpty_map,
                validChildrenX_plain S hT ps children]
              simp [slots, Bool.and_assoc]

  theorem validChildrenX_plain (S : SchemaX) (hT : NoExt S) (ps : List (Text × Particle)) : ∀ cs : List Node,
      validChildrenX S ps cs = validChildren S.core ps cs
    | [] => rfl
    | c :: cs => by
      simp only [validChildrenX, validChildren]
      cases findParticle ps c.ns c.name with
      | none => simp
      | some p => simp only [validElemX_plain S hT p.type p.occ.nillable c, validChildrenX_plain S hT ps cs]
end

/-- **the layer is conservative**: when no class contributes an attribute, a simple content or a
    choice, the extended validator is the validator of Schema.lean on the core documents -/
theorem validX_plain (S : SchemaX) (hT : NoExt S) (x : Node) : S.valid x = S.core.valid x := by
  simp only [SchemaX.valid, Schema.valid]
  cases S.core.elements.lookup (nodeKey x) with
  | none => rfl
  | some tk => exact validElemX_plain S hT (.named tk) false x

theorem compilesX_plain (S : Schema) : (plainX S).compiles = S.compiles := by
  simp [SchemaX.compiles, plainX, nodupKeys]

/-! ### the embedding of element-only applications -/

mutual
  theorem elemTy_ofTy : ∀ t : Ty, elemTy (TyA.ofTy t) = t
    | .prim p o => rfl
    | .obj n ns b fs o => by simp [TyA.ofTy, elemTy, elemFields_ofFields fs]
    | .arr m e o => by simp [TyA.ofTy, elemTy, elemTy_ofTy e]

  theorem elemFields_ofFields : ∀ fs : List (Text × Ty), elemFields (TyA.ofFields fs) = fs
    | [] => rfl
    | (k, t) :: r => by simp [TyA.ofFields, elemFields, elemTy_ofTy t, elemFields_ofFields r]
end

theorem elemIface_ofIface (I : Iface) : elemIface (IfaceA.ofIface I) = I := by
  cases I with
  | mk classes others tns =>
    simp only [elemIface, IfaceA.ofIface, List.map_map, Iface.mk.injEq, and_true]
    constructor
    · rw [List.map_congr_left (g := id)]
      · simp
      · intro c _
        cases c
        simp [elemClass, elemFields_ofFields]
    · rw [List.map_congr_left (g := id)]
      · simp
      · intro e _
        simp [elemTy_ofTy]

/-- an element-only application as an application with member kinds -/
def AppA.ofApp (A : App) : AppA :=
  { facts := A.facts, leaf := A.leaf, iface := IfaceA.ofIface A.iface, enumKeys := A.enumKeys, values := A.values }

theorem elemApp_ofApp (A : App) : (AppA.ofApp A).elemApp = A := by
  cases A
  simp [AppA.ofApp, AppA.elemApp, elemIface_ofIface]

theorem ofFields_element : ∀ (fs : List (Text × Ty)), ∀ f ∈ TyA.ofFields fs, f.2.1 = MKind.element
  | [], f, hf => by simp [TyA.ofFields] at hf
  | (k, t) :: r, f, hf => by
    simp only [TyA.ofFields, List.mem_cons] at hf
    rcases hf with e | e
    · subst e; rfl
    · exact ofFields_element r f e

theorem ownFieldsA_sub (I : IfaceA) (C : ClassDefA) : ∀ f ∈ ownFieldsA I C, f ∈ C.fields := by
  intro f hf
  unfold ownFieldsA at hf
  cases hp : parentOfA I C with
  | none => rw [hp] at hf; exact hf
  | some P => rw [hp] at hf; exact List.mem_of_mem_drop hf

theorem classExt_ofApp (A : App) (C : ClassDefA) (hC : C ∈ (AppA.ofApp A).iface.classes) :
    classExt (AppA.ofApp A) C = {} := by
  have hel : ∀ f ∈ ownFieldsA (AppA.ofApp A).iface C, f.2.1 = MKind.element := by
    intro f hf
    have hf' := ownFieldsA_sub _ _ f hf
    simp only [AppA.ofApp, IfaceA.ofIface, List.mem_map] at hC
    obtain ⟨c, _, rfl⟩ := hC
    exact ofFields_element c.fields f hf'
  have h1 : (ownFieldsA (AppA.ofApp A).iface C).filterMap (attrOf (AppA.ofApp A) C) = [] := by
    rw [List.filterMap_eq_nil_iff]
    intro f hf
    simp [attrOf, hel f hf]
  have h2 : (ownFieldsA (AppA.ofApp A).iface C).findSome? (dataOf (AppA.ofApp A) C) = none := by
    rw [List.findSome?_eq_none_iff]
    intro f hf
    simp [dataOf, hel f hf]
  have h3 : choiceOf (AppA.ofApp A) C = [] := by
    unfold choiceOf
    rw [List.filterMap_eq_nil_iff]
    intro k _
    simp [AppA.groupOf, AppA.ofApp]
  simp [classExt, h1, h2, h3]

theorem lookup_map_all {α β γ} [BEq α] (l : List γ) (key : γ → α) (val : γ → β) (d : β) (h : ∀ c ∈ l, val c = d) (k : α) :
    ((l.map (fun c => (key c, val c))).lookup k).getD d = d := by
  induction l with
  | nil => rfl
  | cons c r ih =>
    simp only [List.map_cons, List.lookup]
    cases hk : k == key c with
    | true => simp [h c (by simp)]
    | false => exact ih (fun c hc => h c (by simp [hc]))

theorem noExt_ofApp (A : App) : NoExt (genA (AppA.ofApp A)) := by
  intro k
  have : (((genA (AppA.ofApp A)).ext.lookup k).getD {}) = ({} : ClassExt) := by
    show (((AppA.ofApp A).iface.classes.map (fun C => ((C.ns, C.name), classExt (AppA.ofApp A) C))).lookup k).getD {} = {}
    exact lookup_map_all _ (fun C => (C.ns, C.name)) (classExt (AppA.ofApp A)) {} (fun C hC => classExt_ofApp A C hC) k
  rw [this]
  exact ⟨rfl, rfl, rfl⟩

/-- **conservative extension**: for an application without attribute / data / choice members the
    extended documents validate exactly what `gen` validates (so `generated_schema_denotes`,
    `emitted_valid`, `lxml_soft_agree` speak about them too) -/
theorem genA_ofApp_valid (A : App) (x : Node) : (genA (AppA.ofApp A)).valid x = (gen A).valid x := by
  rw [validX_plain _ (noExt_ofApp A)]
  show (gen (AppA.ofApp A).elemApp).valid x = (gen A).valid x
  rw [elemApp_ofApp]

/-! ### the extended set compiles -/

/-- names of the attribute members among (name, kind, wraps-a-primitive) triples -/
def attrNamesNK (l : List (Text × MKind × Bool)) : List Text :=
  l.filterMap (fun e => match e.2.1, e.2.2 with | .attribute, true => some e.1 | _, _ => none)

def textsDistinct : List Text → Bool
  | [] => true
  | a :: r => !(r.any (fun b => b = a)) && textsDistinct r

theorem attrNamesDistinct_names : ∀ l : List AttrDecl, attrNamesDistinct l = textsDistinct (l.map (·.name))
  | [] => rfl
  | a :: r => by simp [attrNamesDistinct, textsDistinct, attrNamesDistinct_names r, List.any_map, Function.comp_def]

theorem attrOf_name (A : AppA) (C : ClassDefA) (fs : List (Text × MKind × TyA)) :
    (fs.filterMap (attrOf A C)).map (·.name) = attrNamesNK (fs.map nk) := by
  induction fs with
  | nil => rfl
  | cons f r ih =>
    obtain ⟨k, kind, t⟩ := f
    simp only [attrNamesNK, List.map_cons, List.filterMap_cons] at ih ⊢
    cases kind <;> cases t <;> simp [attrOf, nk, isPrimA, ih, attrNamesNK]

theorem attrNamesNK_sub (l : List (Text × MKind × Bool)) : ∀ x ∈ attrNamesNK l, x ∈ l.map (·.1) := by
  intro x hx
  simp only [attrNamesNK, List.mem_filterMap] at hx
  obtain ⟨e, he, h⟩ := hx
  obtain ⟨k, kind, b⟩ := e
  cases kind <;> cases b <;> simp at h
  subst h
  exact List.mem_map.mpr ⟨_, he, rfl⟩

theorem textsDistinct_attrNames : ∀ fs : List (Text × MKind × TyA), namesNodupA fs = true →
    textsDistinct (attrNamesNK (fs.map nk)) = true
  | [], _ => rfl
  | (k, kind, t) :: r, h => by
    simp only [namesNodupA, Bool.and_eq_true, Bool.not_eq_true', List.any_eq_false, decide_eq_true_eq] at h
    have ih := textsDistinct_attrNames r h.2
    have hk : ∀ x ∈ attrNamesNK (r.map nk), x ≠ k := by
      intro x hx e
      have := attrNamesNK_sub _ x hx
      simp only [List.map_map, List.mem_map, Function.comp] at this
      obtain ⟨f, hf, e'⟩ := this
      exact h.1 f hf (by rw [← e]; exact e')
    simp only [attrNamesNK, List.map_cons, List.filterMap_cons, nk] at ih ⊢
    cases kind <;> cases hp : isPrimA t <;> simp only [ih]
    simp only [textsDistinct, Bool.and_eq_true, Bool.not_eq_true', List.any_eq_false, decide_eq_true_eq]
    exact ⟨fun x hx => hk x hx, ih⟩

theorem lookup_of_mem_nodup {γ β} (l : List γ) (key : γ → Key) (val : γ → β)
    (h : nodupKeys (l.map (fun c => (key c, ()))) = true) (c : γ) (hc : c ∈ l) :
    (l.map (fun c => (key c, val c))).lookup (key c) = some (val c) := by
  induction l with
  | nil => cases hc
  | cons a r ih =>
    simp only [List.map_cons, nodupKeys, Bool.and_eq_true, Bool.not_eq_true', List.any_eq_false, beq_iff_eq,
      List.mem_map, forall_exists_index, and_imp] at h
    simp only [List.map_cons, List.lookup]
    rcases List.mem_cons.mp hc with e | e
    · subst e; simp
    · have : (key c == key a) = false := by
        apply beq_eq_false_iff_ne.mpr
        intro heq
        exact h.1 (key c, ()) c e rfl heq
      rw [this]
      exact ih h.2 e

theorem nodupKeys_map_keys {γ β} (l : List γ) (key : γ → Key) (val : γ → β)
    (h : nodupKeys (l.map (fun c => (key c, ()))) = true) : nodupKeys (l.map (fun c => (key c, val c))) = true := by
  induction l with
  | nil => rfl
  | cons a r ih =>
    simp only [List.map_cons, nodupKeys, Bool.and_eq_true, Bool.not_eq_true', List.any_eq_false, beq_iff_eq,
      List.mem_map, forall_exists_index, and_imp] at h ⊢
    exact ⟨fun x c hc e heq => h.1 (key c, ()) c hc rfl (by rw [← e] at heq; exact heq), ih h.2⟩

theorem parentOf_elem (I : IfaceA) (C : ClassDefA) :
    parentOf (elemIface I) (elemClass C) = (parentOfA I C).map elemClass := by
  unfold parentOf parentOfA
  have hbase : (elemClass C).base = C.base := rfl
  rw [hbase]
  cases C.base with
  | none => rfl
  | some b =>
    show Registry.find? (I.classes.map elemClass) b = _
    unfold Registry.find?
    rw [List.find?_map]
    rfl

theorem parentOfA_mem (I : IfaceA) (C P : ClassDefA) (h : parentOfA I C = some P) : P ∈ I.classes := by
  unfold parentOfA at h
  cases hb : C.base with
  | none => rw [hb] at h; cases h
  | some b => rw [hb] at h; exact List.mem_of_find?_eq_some h

theorem elemClass_mem (A : AppA) (C : ClassDefA) (hC : C ∈ A.iface.classes) : elemClass C ∈ A.elemApp.allClasses :=
  List.mem_append.mpr (Or.inl (List.mem_map.mpr ⟨C, hC, rfl⟩))

/-- the attributes an element of a class may carry are the attribute members of its flattened
    member list -/
theorem effX_attrs (A : AppA) (hc : Closed A.elemApp)
    (hk : nodupKeys (A.iface.classes.map (fun C => ((C.ns, C.name), ()))) = true) :
    ∀ (f : Nat) (C : ClassDefA), C ∈ A.iface.classes → chainOkA A.iface f C = true →
      ((effX (genA A) f (C.ns, C.name)).attrs.map (·.name)) = attrNamesNK (C.fields.map nk) := by
  intro f
  induction f with
  | zero => intro C _ h; simp [chainOkA] at h
  | succ f ih =>
    intro C hC hch
    have hl : (genA A).core.complex.lookup (C.ns, C.name) = some (classComplex A.elemApp (elemClass C)).2 :=
      hc.cplx (elemClass C) (elemClass_mem A C hC)
    have he : (genA A).ext.lookup (C.ns, C.name) = some (classExt A C) :=
      lookup_of_mem_nodup A.iface.classes (fun C => (C.ns, C.name)) (classExt A) hk C hC
    simp only [effX, hl, he, Option.getD_some, classComplex]
    have hp : parentOf A.elemApp.iface (elemClass C) = (parentOfA A.iface C).map elemClass := parentOf_elem A.iface C
    rw [hp]
    unfold chainOkA at hch
    cases hb : C.base with
    | none =>
      have hpa : parentOfA A.iface C = none := by simp [parentOfA, hb]
      simp only [hpa, Option.map_none, List.nil_append, classExt, ownFieldsA]
      exact attrOf_name A C C.fields
    | some b =>
      rw [hb] at hch
      dsimp only at hch
      cases hf : A.iface.classes.find? (fun c => c.name = b) with
      | none => rw [hf] at hch; cases hch
      | some P =>
        rw [hf] at hch
        simp only [Bool.and_eq_true, decide_eq_true_eq] at hch
        obtain ⟨⟨hlen, hpre⟩, hchP⟩ := hch
        have hpa : parentOfA A.iface C = some P := by simp [parentOfA, hb, hf]
        have hP : P ∈ A.iface.classes := parentOfA_mem A.iface C P hpa
        simp only [hpa, Option.map_some, elemClass, List.map_append, ih P hP hchP, classExt, ownFieldsA]
        rw [attrOf_name A C (C.fields.drop P.fields.length), ← hpre]
        unfold attrNamesNK
        rw [← List.filterMap_append, ← List.map_append, List.take_append_drop]

/-- what a modifier member (attribute / data) of a class refers to -/
theorem modRef_ok (A : AppA) (hdt : A.facts.dataTypeDefined = true) (C : ClassDefA) (hC : C ∈ A.iface.classes)
    (f : Text × MKind × TyA) (hf : f ∈ ownFieldsA A.iface C) (p : PrimTy) (o : Occ) (ht : f.2.2 = .prim p o)
    (hkind : f.2.1 = .attribute ∨ f.2.1 = .data) :
    (genA A).simpleRefOk C.ns (attrRef A C f.1 p o) = true ∧
    (∀ key, attrRef A C f.1 p o = .named key → key.1 ∈ (genA A).docNs) := by
  obtain ⟨k, kind, t⟩ := f
  simp only at ht hkind
  subst ht
  cases hr : attrRef A C k p o with
  | builtin b => exact ⟨rfl, fun key e => by cases e⟩
  | named key =>
    -- the definition is among the raw modifier definitions
    have hcond : (isEnum p || !isDefaultA A.elemApp p) = true := by
      simp only [attrRef, refOf] at hr
      by_cases hq : (!isEnum p && isDefaultA A.elemApp p) = true
      · rw [if_pos hq] at hr; cases hr
      · cases h1 : isEnum p <;> cases h2 : isDefaultA A.elemApp p <;> simp_all
    have hkey : key = itemKey A.elemApp (A.modNsOf p) C.name k (.prim p o) := by
      simp only [attrRef, refOf] at hr
      have hq : (!isEnum p && isDefaultA A.elemApp p) = false := by
        cases h1 : isEnum p <;> cases h2 : isDefaultA A.elemApp p <;> simp_all
      rw [hq] at hr
      simp only [Bool.false_eq_true, if_false] at hr
      injection hr with hr
      exact hr.symm
    have hraw : (key, ({ base := builtinOf p, facets := primFacetsA A.elemApp p } : SimpleDef)) ∈ rawModDefs A := by
      unfold rawModDefs
      refine List.mem_flatMap.mpr ⟨C, hC, List.mem_flatMap.mpr ⟨(k, kind, .prim p o), hf, ?_⟩⟩
      have : (key, ({ base := builtinOf p, facets := primFacetsA A.elemApp p } : SimpleDef)) ∈ attrDefs A C k p o := by
        unfold attrDefs tyDefs
        rw [if_pos hcond, hkey]
        simp
      rcases hkind with e | e
      · subst e; simpa [modDefs] using this
      · subst e; simpa [modDefs, hdt] using this
    have hsimple : (genA A).hasSimple key = true := by
      unfold SchemaX.hasSimple
      by_cases hcs : (gen A.elemApp).hasSimple key = true
      · show ((gen A.elemApp).hasSimple key || _) = true
        rw [hcs]; rfl
      · have hfil : (key, ({ base := builtinOf p, facets := primFacetsA A.elemApp p } : SimpleDef)) ∈
            (rawModDefs A).filter (fun e => !(gen A.elemApp).hasSimple e.1) := by
          apply List.mem_filter.mpr
          exact ⟨hraw, by simpa using hcs⟩
        have := lookup_isSome_of_mem _ _ hfil
        show ((gen A.elemApp).hasSimple key || ((dedupKeys ((rawModDefs A).filter _)).lookup key).isSome) = true
        rw [lookup_dedupKeys]
        simp only at this
        rw [this]; simp
    constructor
    · simp only [SchemaX.simpleRefOk, Bool.and_eq_true]
      refine ⟨?_, hsimple⟩
      simp only [SchemaX.visible, Bool.or_eq_true, decide_eq_true_eq]
      by_cases hns : key.1 = C.ns
      · exact Or.inl hns
      · right
        apply List.contains_iff_mem.mpr
        unfold SchemaX.imports
        apply List.mem_append.mpr; right
        show (C.ns, key.1) ∈ dedupL (A.iface.classes.flatMap (fun C => (ownFieldsA A.iface C).flatMap (modImport A C)))
        rw [mem_dedupL]
        refine List.mem_flatMap.mpr ⟨C, hC, List.mem_flatMap.mpr ⟨(k, kind, .prim p o), hf, ?_⟩⟩
        rcases hkind with e | e <;> subst e <;> simp [modImport, hr, hns, importOf, refImport]
    · intro key' e
      injection e with e
      subst e
      unfold SchemaX.hasSimple at hsimple
      unfold SchemaX.docNs
      rw [mem_dedupL]
      rw [Bool.or_eq_true] at hsimple
      rcases hsimple with h | h
      · exact List.mem_append.mpr (Or.inl (defined_has_doc _ key (by rw [h]; rfl)))
      · obtain ⟨v, hv⟩ := mem_of_lookup_isSome _ key h
        exact List.mem_append.mpr (Or.inr (List.mem_map.mpr ⟨(key, v), hv, rfl⟩))

theorem elemFields_nil_of_no_element : ∀ fs : List (Text × MKind × TyA),
    fs.all (fun f => decide (f.2.1 ≠ MKind.element)) = true → elemFields fs = []
  | [], _ => rfl
  | (k, kind, t) :: r, h => by
    simp only [List.all_cons, Bool.and_eq_true, decide_eq_true_eq] at h
    cases kind with
    | element => exact absurd rfl h.1
    | «attribute» => simp [elemFields, elemFields_nil_of_no_element r h.2]
    | data => simp [elemFields, elemFields_nil_of_no_element r h.2]

theorem mem_of_lookup_eq_some {α β} [BEq α] [LawfulBEq α] (l : List (α × β)) (k : α) (v : β) (h : l.lookup k = some v) :
    (k, v) ∈ l := by
  induction l with
  | nil => simp [List.lookup] at h
  | cons e r ih =>
    obtain ⟨a, b⟩ := e
    by_cases hk : k = a
    · subst hk; simp [List.lookup] at h; subst h; simp
    · have : (k == a) = false := by simpa using hk
      simp only [List.lookup, this] at h
      exact List.mem_cons_of_mem _ (ih h)

theorem findSome_mem {α β} (l : List α) (g : α → Option β) (b : β) (h : l.findSome? g = some b) : ∃ a ∈ l, g a = some b := by
  induction l with
  | nil => simp at h
  | cons a r ih =>
    simp only [List.findSome?_cons] at h
    cases hg : g a with
    | some v => rw [hg] at h; injection h with h; subst h; exact ⟨a, by simp, hg⟩
    | none =>
      rw [hg] at h
      obtain ⟨x, hx, e⟩ := ih h
      exact ⟨x, by simp [hx], e⟩

/-- **genA_compiles**: the documents of a well-formed application with attribute, XmlData and choice
    members compile (given that the generator defines the simple type of a customised XmlData member,
    `Facts06.dataTypeDefined`) -/
theorem genA_compiles (A : AppA) (G : A.leaf.Good) (hdt : A.facts.dataTypeDefined = true) (hwf : A.wf = true) :
    (genA A).compiles = true := by
  unfold AppA.wf at hwf
  simp only [Bool.and_eq_true] at hwf
  obtain ⟨⟨⟨⟨hE, hkeys⟩, hcls⟩, hnext⟩, hclash⟩ := hwf
  rw [List.all_eq_true] at hcls hnext hclash
  have hc := closed_of_wf A.elemApp hE
  have hvw : A.elemApp.valuesWf = true := by
    unfold App.wf at hE
    simp only [Bool.and_eq_true] at hE
    exact hE.2
  have hcore : (gen A.elemApp).compiles = true := Schema.gen_compiles A.elemApp G hE
  have hclsC : ∀ C ∈ A.iface.classes,
      chainOkA A.iface (A.iface.classes.length + 1) C = true ∧ namesNodupA C.fields = true ∧ kindsWf C.fields = true ∧
      (∀ f ∈ C.fields, modPrimWf f = true) ∧ (hasData C = true → C.base = none) := by
    intro C hC
    have := hcls C hC
    simp only [Bool.and_eq_true, Bool.or_eq_true, Bool.not_eq_true', List.all_eq_true] at this
    refine ⟨this.1.1.1.1, this.1.1.1.2, this.1.1.2, this.1.2, ?_⟩
    intro hd
    rcases this.2 with h | h
    · rw [hd] at h; cases h
    · exact Option.isNone_iff_eq_none.mp h
  unfold SchemaX.compiles
  simp only [Bool.and_eq_true]
  refine ⟨⟨⟨⟨⟨hcore, ?_⟩, ?_⟩, ?_⟩, ?_⟩, ?_⟩
  · exact nodupKeys_dedupAux [] _
  · -- the simple types of the modifier members
    rw [List.all_eq_true]
    intro e he
    have hfil : e ∈ (rawModDefs A).filter (fun e => !(gen A.elemApp).hasSimple e.1) := dedupAux_sub [] _ e he
    obtain ⟨hraw, hns⟩ := List.mem_filter.mp hfil
    simp only [Bool.and_eq_true]
    refine ⟨⟨hns, hclash e hraw⟩, ?_⟩
    unfold rawModDefs at hraw
    obtain ⟨C, hC, hm⟩ := List.mem_flatMap.mp hraw
    obtain ⟨f, hf, hd⟩ := List.mem_flatMap.mp hm
    obtain ⟨k, kind, t⟩ := f
    have hpw := (hclsC C hC).2.2.2.1 _ (ownFieldsA_sub _ _ _ hf)
    have key : ∀ p o, e ∈ attrDefs A C k p o → Schema.primWf p = true → simpleDefOk e.2 = true := by
      intro p o hin hw
      unfold attrDefs tyDefs at hin
      by_cases hq : (isEnum p || !isDefaultA A.elemApp p) = true
      · rw [if_pos hq] at hin
        simp only [List.mem_singleton] at hin
        subst hin
        exact prim_def_legalA A.elemApp G hvw p hw
      · rw [if_neg hq] at hin; cases hin
    cases kind with
    | element => simp [modDefs] at hd
    | «attribute» =>
      cases t with
      | prim p o => exact key p o (by simpa [modDefs] using hd) (by simpa [modPrimWf] using hpw)
      | obj _ _ _ _ _ => simp [modDefs] at hd
      | arr _ _ _ => simp [modDefs] at hd
    | data =>
      cases t with
      | prim p o => exact key p o (by simpa [modDefs, hdt] using hd) (by simpa [modPrimWf] using hpw)
      | obj _ _ _ _ _ => simp [modDefs] at hd
      | arr _ _ _ => simp [modDefs] at hd
  · exact nodupKeys_map_keys A.iface.classes (fun C => (C.ns, C.name)) (classExt A) hkeys
  · -- every class's contribution is legal
    rw [List.all_eq_true]
    intro e he
    obtain ⟨C, hC, rfl⟩ := List.mem_map.mp he
    obtain ⟨hch, hnn, hkw, hpw, hdata⟩ := hclsC C hC
    have hl : (gen A.elemApp).complex.lookup (C.ns, C.name) = some (classComplex A.elemApp (elemClass C)).2 :=
      hc.cplx (elemClass C) (elemClass_mem A C hC)
    unfold classExtOk
    simp only [Bool.and_eq_true]
    refine ⟨⟨⟨?_, ?_⟩, ?_⟩, ?_⟩
    · show (gen A.elemApp).hasComplex (C.ns, C.name) = true
      simp [Schema.hasComplex, hl]
    · rw [List.all_eq_true]
      intro a ha
      simp only [classExt, List.mem_filterMap] at ha
      obtain ⟨f, hf, hfa⟩ := ha
      obtain ⟨k, kind, t⟩ := f
      cases kind <;> cases t <;> simp [attrOf] at hfa
      subst hfa
      exact (modRef_ok A hdt C hC _ hf _ _ rfl (Or.inl rfl)).1
    · rw [attrNamesDistinct_names]
      have hb : (genA A).core.chainBound = A.iface.classes.length + 1 := by
        show (gen A.elemApp).chainBound = _
        simp [gen, AppA.elemApp, elemIface]
      rw [hb, effX_attrs A hc hkeys _ C hC hch]
      exact textsDistinct_attrNames C.fields hnn
    · -- simple content
      cases hd : (classExt A C).data with
      | none => rfl
      | some t =>
        simp only [classExt] at hd
        obtain ⟨f, hf, hfd⟩ := findSome_mem _ _ _ hd
        obtain ⟨k, kind, ty⟩ := f
        have hfC := ownFieldsA_sub _ _ _ hf
        cases kind <;> cases ty <;> simp [dataOf] at hfd
        subst hfd
        have hhas : hasData C = true := by
          unfold hasData
          exact List.any_eq_true.mpr ⟨_, hfC, by simp⟩
        have hbase := hdata hhas
        simp only [Bool.and_eq_true]
        refine ⟨⟨(modRef_ok A hdt C hC _ hf _ _ rfl (Or.inr rfl)).1, ?_⟩, ?_⟩
        · show (match (gen A.elemApp).complex.lookup (C.ns, C.name) with
              | some d => d.base.isNone && d.particles.isEmpty | none => false) = true
          rw [hl]
          -- no element members next to an XmlData member
          have hne : C.fields.all (fun f => decide (f.2.1 ≠ MKind.element)) = true := by
            unfold kindsWf at hkw
            simp only [Bool.and_eq_true, Bool.or_eq_true, decide_eq_true_eq] at hkw
            rcases hkw.2.2 with h0 | h0
            · exfalso
              have : C.fields.countP (fun f => decide (f.2.1 = MKind.data)) > 0 :=
                List.countP_pos_iff.mpr ⟨_, hfC, by simp⟩
              omega
            · exact h0
          have hpar : parentOf A.elemApp.iface (elemClass C) = none := by
            simp [parentOf, elemClass, hbase]
          have hef : (elemClass C).fields = [] := elemFields_nil_of_no_element C.fields hne
          simp only [classComplex, hpar, ownFields, hef]
          simp
        · rw [List.all_eq_true]
          intro c hcx
          have := hnext c hcx
          rw [List.all_eq_true] at this
          have := this C hC
          simp only [Bool.or_eq_true, Bool.not_eq_true', hhas, decide_eq_true_eq] at this
          rcases this with h | h
          · cases h
          · simpa using h
  · -- the imports of modifier members have documents
    rw [List.all_eq_true]
    rintro ⟨a, n⟩ hi
    have hi' : (a, n) ∈ dedupL (A.iface.classes.flatMap (fun C => (ownFieldsA A.iface C).flatMap (modImport A C))) := hi
    rw [mem_dedupL] at hi'
    obtain ⟨C, hC, hm⟩ := List.mem_flatMap.mp hi'
    obtain ⟨f, hf, hd⟩ := List.mem_flatMap.mp hm
    obtain ⟨k, kind, t⟩ := f
    apply List.contains_iff_mem.mpr
    have key : ∀ p o, (kind = MKind.attribute ∨ kind = MKind.data) → t = TyA.prim p o →
        (a, n) ∈ refImport C (attrRef A C k p o) → n ∈ (genA A).docNs := by
      intro p o hk ht hin
      subst ht
      have hnamed := (modRef_ok A hdt C hC _ hf p o rfl hk).2
      cases hr : attrRef A C k p o with
      | named key' =>
        rw [hr] at hin
        simp only [refImport, importOf] at hin
        split at hin
        · cases hin
        · simp only [List.mem_singleton, Prod.mk.injEq] at hin
          rw [hin.2]; exact hnamed key' hr
      | builtin bb =>
        rw [hr] at hin
        cases hin
    cases kind with
    | element => simp [modImport] at hd
    | «attribute» =>
      cases t with
      | prim p o => exact key p o (Or.inl rfl) rfl (by simpa [modImport] using hd)
      | obj _ _ _ _ _ => simp [modImport] at hd
      | arr _ _ _ => simp [modImport] at hd
    | data =>
      cases t with
      | prim p o => exact key p o (Or.inr rfl) rfl (by simpa [modImport] using hd)
      | obj _ _ _ _ _ => simp [modImport] at hd
      | arr _ _ _ => simp [modImport] at hd

/-! ### a universe with attributes, simple content and a choice group, for the examples of Props/C06.lean -/
namespace ExampleA
open Example

def optOcc : Occ := {}
def reqOcc : Occ := { minOccurs := 1 }
def str : PrimTy := .unicode 0 none none []
def moneyFields : List (Text × MKind × TyA) :=
  [(T "value", .data, .prim (.integer .i8 {}) optOcc), (T "cur", .attribute, .prim str reqOcc)]
def baseFields : List (Text × MKind × TyA) :=
  [(T "x", .element, .prim (.integer .i8 { ge := some 3 }) optOcc), (T "id", .attribute, .prim (.integer .unbounded {}) optOcc)]
def derFields : List (Text × MKind × TyA) :=
  baseFields ++ [(T "u", .element, .prim str optOcc), (T "ver", .attribute, .prim (.unicode 0 (some 3) none []) optOcc),
                 (T "c1", .element, .prim str optOcc), (T "c2", .element, .prim str optOcc)]
def cMoney : ClassDefA := { name := T "Money", ns := T "urn:a", base := none, fields := moneyFields }
def cBase : ClassDefA := { name := T "Base", ns := T "urn:a", base := none, fields := baseFields }
def cDer : ClassDefA := { name := T "Der", ns := T "urn:a", base := some (T "Base"), fields := derFields }
def msgFields : List (Text × MKind × TyA) :=
  [(T "d", .element, .obj (T "Der") (T "urn:a") (some (T "Base")) derFields optOcc),
   (T "mo", .element, .obj (T "Money") (T "urn:a") none moneyFields optOcc)]
def cMsg : ClassDefA := { name := T "m", ns := T "urn:t", base := none, fields := msgFields }
/-- Money (simple content + required attribute), Base ⊂ Der (inherited attribute, a customised
    attribute, a choice between c1 and c2), message `m` -/
def iface : IfaceA := { classes := [cMoney, cBase, cDer, cMsg], tns := T "urn:t" }
def modNs : List (Text × Text) := [(T "str", T "spyne.model.primitive.string")]
def choice : List ((Key × Text) × Text) :=
  [(((T "urn:a", T "Der"), T "c1"), T "g"), (((T "urn:a", T "Der"), T "c2"), T "g")]

def doc (dattrs : List (Text × Text)) (dkids : List Node) (mattrs : List (Text × Text)) (mtext : Option Text) : Node :=
  .elem (T "urn:t") (T "m") [] none
    [.elem (T "urn:t") (T "d") dattrs none dkids, .elem (T "urn:t") (T "mo") mattrs mtext []]
def x3 : Node := .elem (T "urn:a") (T "x") [] (some (T "3")) []
def el (k v : String) : Node := .elem (T "urn:a") (T k) [] (some (T v)) []
/-- `<m><d id="7" ver="ab"><x>3</x><u>q</u><c1>z</c1></d><mo cur="EUR">5</mo></m>` -/
def good : Node := doc [(T "id", T "7"), (T "ver", T "ab")] [x3, el "u" "q", el "c1" "z"] [(T "cur", T "EUR")] (some (T "5"))
/-- the required attribute `cur` left out -/
def noCur : Node := doc [(T "id", T "7")] [x3] [] (some (T "5"))
/-- both alternatives of the choice -/
def both : Node := doc [] [x3, el "c1" "z", el "c2" "z"] [(T "cur", T "EUR")] (some (T "5"))
/-- `ver` longer than its `max_len = 3` -/
def longVer : Node := doc [(T "ver", T "abcd")] [x3] [(T "cur", T "EUR")] (some (T "5"))
/-- simple content that is not an `xs:byte` -/
def badData : Node := doc [] [x3] [(T "cur", T "EUR")] (some (T "500"))
/-- an attribute nobody declares -/
def undeclared : Node := doc [(T "zz", T "1")] [x3] [(T "cur", T "EUR")] (some (T "5"))

end ExampleA

end Schema
end SpyneModel
