/-
  C01 (and the XML part of C16): the decoder reads back what the encoder wrote, for every type,
  every conformant value (instances of registered subclasses included when the protocol is
  polymorphic) and every validator setting.
-/
import Proofs.XmlLeafRt
import Proofs.XmlSound
namespace SpyneModel
namespace Xml

/-! ### shape of the encoder's output -/

def NodeOk (name : Text) (e : Node) : Prop := e.name = name ∧ ∀ a ∈ e.attrs, plainName a.1 = false

theorem nodeOk_nil (ns name : Text) : NodeOk name (nilElem ns name) := by
  refine ⟨rfl, ?_⟩
  intro a ha
  simp only [nilElem, Node.attrs, List.mem_singleton] at ha
  subst ha; exact plain_xsiNil

theorem toParent_nodeOk (F : Facts08) (cfg : Cfg) (I : Iface) (ns name : Text) (t : Ty) (v : Val) :
    ∀ e ∈ toParent F cfg I ns name t v, NodeOk name e := by
  intro e he
  cases v with
  | none =>
    simp only [toParent, List.mem_singleton] at he; subst he; exact nodeOk_nil ns name
  | obj cls vs =>
    simp only [toParent] at he
    split at he
    · split at he
      · simp only [List.mem_singleton] at he; subst he
        refine ⟨rfl, ?_⟩
        intro a ha
        simp only [Node.attrs, List.mem_singleton] at ha
        subst ha; exact plain_xsiType
      · simp only [List.mem_singleton] at he; subst he
        exact ⟨rfl, by intro a ha; simp [Node.attrs] at ha⟩
    · cases he
  | list vs =>
    simp only [toParent] at he
    split at he
    · simp only [List.mem_singleton] at he; subst he
      exact ⟨rfl, by intro a ha; simp [Node.attrs] at ha⟩
    · cases he
  | _ =>
    simp only [toParent] at he
    split at he
    · split at he
      · simp only [List.mem_singleton] at he; subst he
        exact ⟨rfl, by intro a ha; simp [Node.attrs] at ha⟩
      · cases he
    · cases he

theorem itemsToParent_nodeOk (F : Facts08) (cfg : Cfg) (I : Iface) (ns name : Text) (t : Ty) (vs : List Val) :
    ∀ e ∈ itemsToParent F cfg I ns name t vs, NodeOk name e := by
  induction vs with
  | nil => intro e he; simp [itemsToParent] at he
  | cons v vs ih =>
    intro e he
    simp only [itemsToParent, List.mem_append] at he
    rcases he with he | he
    · exact toParent_nodeOk F cfg I ns name t v e he
    · exact ih e he

/-- the nodes `_get_members_etree` emits for one member -/
def memberNodes (F : Facts08) (cfg : Cfg) (I : Iface) (cns k : Text) (t : Ty) (v : Val) : List Node :=
  match v with
  | .none => if t.occ.minOccurs > 0 then [nilElem cns k] else []
  | .list items =>
    if t.occ.repeated then itemsToParent F cfg I cns k t items
    else (match t with
          | .arr member elem _ =>
            [.elem cns k [] none (itemsToParent F cfg I (memberNs I.tns cns member elem) (memberLocal member) elem items)]
          | _ => [])
  | w => if t.occ.repeated then [] else toParent F cfg I cns k t w

theorem membersToParent_cons (F : Facts08) (cfg : Cfg) (I : Iface) (cns k : Text) (t : Ty) (v : Val)
    (fs : List (Text × Ty)) (vs : List (Text × Val)) :
    membersToParent F cfg I cns ((k, t) :: fs) ((k, v) :: vs) =
      memberNodes F cfg I cns k t v ++ membersToParent F cfg I cns fs vs := by
  cases v <;> simp [membersToParent, memberNodes]
  cases t <;> rfl

theorem memberNodes_nonrep (F : Facts08) (cfg : Cfg) (I : Iface) (cns k : Text) (t : Ty) (v : Val)
    (hr : t.occ.repeated = false) (hv : v ≠ .none) :
    memberNodes F cfg I cns k t v = toParent F cfg I cns k t v := by
  cases v with
  | none => exact absurd rfl hv
  | list items => simp only [memberNodes, hr]; cases t <;> simp [toParent]
  | _ => simp [memberNodes, hr]

theorem memberNodes_nodeOk (F : Facts08) (cfg : Cfg) (I : Iface) (cns k : Text) (t : Ty) (v : Val) :
    ∀ e ∈ memberNodes F cfg I cns k t v, NodeOk k e := by
  intro e he
  by_cases hr : t.occ.repeated = true
  · cases v with
    | none =>
      simp only [memberNodes] at he
      split at he
      · simp only [List.mem_singleton] at he; subst he; exact nodeOk_nil cns k
      · cases he
    | list items =>
      simp only [memberNodes, hr, if_true] at he
      exact itemsToParent_nodeOk F cfg I cns k t items e he
    | _ => simp [memberNodes, hr] at he
  · have hr' : t.occ.repeated = false := by simpa using hr
    cases v with
    | none =>
      simp only [memberNodes] at he
      split at he
      · simp only [List.mem_singleton] at he; subst he; exact nodeOk_nil cns k
      · cases he
    | list items =>
      rw [memberNodes_nonrep F cfg I cns k t _ hr' (by simp)] at he
      exact toParent_nodeOk F cfg I cns k t _ e he
    | _ =>
      rw [memberNodes_nonrep F cfg I cns k t _ hr' (by simp)] at he
      exact toParent_nodeOk F cfg I cns k t _ e he

/-! ### every conformant occurrence is written as exactly one element -/

theorem okX_nonrep {I : Iface} {poly strict : Bool} {t : Ty} {v : Val} (hr : t.occ.repeated = false)
    (hv : v ≠ .none) : okX I poly strict t v = okOneX I poly strict t v := by
  cases v <;> simp_all [okX, okOneX]

theorem toParent_single {F : Facts08} (L : LeafLaws F) (cfg : Cfg) (I : Iface) (ns name : Text) (t : Ty) (v : Val)
    {poly strict : Bool} (hok : okOneX I poly strict t v = true) (hfit : fitsV F v = true) :
    ∃ e, toParent F cfg I ns name t v = [e] := by
  have leaf : ∀ w : Val, (∀ p o, t = .prim p o → leafOk strict p o w = true) → fitsV F w = true →
      (∀ p o, t = .prim p o →
        ∃ e, (match leafToText F p w with
              | some s => [Node.elem ns name [] (mkText s) []]
              | none => []) = [e]) := by
    intro w hw hf p o ht
    have := hw p o ht
    simp only [leafOk, Bool.and_eq_true] at this
    obtain ⟨s, hto, _⟩ := L.roundtrip p w this.1 (leafFits_of_fitsV F p w hf)
    exact ⟨_, by rw [hto]⟩
  cases v with
  | none => exact ⟨_, rfl⟩
  | obj cls vs =>
    cases t with
    | obj cname cns cb fields o =>
      simp only [toParent]
      split <;> exact ⟨_, rfl⟩
    | _ => simp [okOneX] at hok
  | list vs =>
    cases t with
    | arr member elem o => exact ⟨_, rfl⟩
    | _ => simp [okOneX] at hok
  | _ =>
    cases t with
    | prim p o =>
      simp only [okOneX] at hok
      simp only [toParent]
      exact leaf _ (by intro p' o' h; cases h; exact hok) hfit p o rfl
    | _ => simp [okOneX] at hok

theorem itemsToParent_length {F : Facts08} (L : LeafLaws F) (cfg : Cfg) (I : Iface) (ns name : Text) (t : Ty)
    {poly strict : Bool} (vs : List Val) (hok : okItemsX I poly strict t vs = true) (hfit : fitsItemsV F vs = true) :
    (itemsToParent F cfg I ns name t vs).length = vs.length := by
  induction vs with
  | nil => simp [itemsToParent]
  | cons v vs ih =>
    simp only [okItemsX, Bool.and_eq_true] at hok
    simp only [fitsItemsV, Bool.and_eq_true] at hfit
    obtain ⟨e, he⟩ := toParent_single L cfg I ns name t v hok.1 hfit.1
    simp [itemsToParent, he, ih hok.2 hfit.2]

/-- the `okFieldsX` condition on one member -/
def fieldOk (I : Iface) (poly strict : Bool) (t : Ty) (v : Val) : Bool :=
  match v with
  | .none => decide (t.occ.minOccurs = 0) || (t.occ.nillable && !t.occ.repeated)
  | w => okX I poly strict t w

theorem okFieldsX_cons {I : Iface} {poly strict : Bool} {k k' : Text} {t : Ty} {v : Val}
    {fs : List (Text × Ty)} {vs : List (Text × Val)} :
    okFieldsX I poly strict ((k, t) :: fs) ((k', v) :: vs) =
      (decide (k = k') && fieldOk I poly strict t v && okFieldsX I poly strict fs vs) := by
  cases v <;> simp [okFieldsX, fieldOk]

theorem nonrep_occ {o : Occ} (hr : o.repeated = false) (hw : occWf o = true) :
    o.maxOccurs = some 1 ∧ o.minOccurs ≤ 1 := by
  unfold Occ.repeated at hr
  unfold occWf at hw
  cases hm : o.maxOccurs with
  | none => simp [hm] at hr
  | some m =>
    simp only [hm, Bool.and_eq_true, decide_eq_true_eq, decide_eq_false_iff_not] at hr hw
    have : m = 1 := by omega
    subst this
    exact ⟨rfl, hw.2⟩

/-- the number of elements written for a conformant member respects its occurrence bounds -/
theorem memberNodes_count {F : Facts08} (L : LeafLaws F) (cfg : Cfg) (I : Iface) (cns k : Text) (t : Ty) (v : Val)
    {poly strict : Bool} (hw : occWf t.occ = true) (hok : fieldOk I poly strict t v = true)
    (hfit : fitsV F v = true) : t.occ.countOk (memberNodes F cfg I cns k t v).length = true := by
  by_cases hr : t.occ.repeated = true
  · cases v with
    | none =>
      simp only [fieldOk, hr, Bool.not_true, Bool.and_false, Bool.or_false, decide_eq_true_eq] at hok
      simp [memberNodes, hok, Occ.countOk]
      cases t.occ.maxOccurs <;> simp
    | list items =>
      simp only [fieldOk, okX, hr, if_true, Bool.and_eq_true] at hok
      simp only [memberNodes, hr, if_true]
      simp only [fitsV] at hfit
      rw [itemsToParent_length L cfg I cns k t items hok.2 hfit]
      exact hok.1
    | _ => simp [fieldOk, okX, hr] at hok
  · have hr' : t.occ.repeated = false := by simpa using hr
    obtain ⟨hmax, hmin⟩ := nonrep_occ hr' hw
    cases v with
    | none =>
      simp only [memberNodes]
      split
      · simp [Occ.countOk, hmax, hmin]
      · rename_i h
        have : t.occ.minOccurs = 0 := by omega
        simp [Occ.countOk, hmax, this]
    | _ =>
      rw [memberNodes_nonrep F cfg I cns k t _ hr' (by simp)]
      simp only [fieldOk] at hok
      rw [okX_nonrep hr' (by simp)] at hok
      obtain ⟨e, he⟩ := toParent_single L cfg I cns k t _ hok hfit
      simp [he, Occ.countOk, hmax, hmin]

/-! ### frequencies -/

theorem namesNodup_cons {k : Text} {t : Ty} {fs : List (Text × Ty)} (h : namesNodup ((k, t) :: fs) = true) :
    k ∉ fieldNames fs ∧ namesNodup fs = true := by
  simp only [namesNodup, Bool.and_eq_true, Bool.not_eq_true', List.any_eq_false] at h
  refine ⟨?_, h.2⟩
  intro hk
  simp only [fieldNames, List.mem_map] at hk
  obtain ⟨f, hf, hfk⟩ := hk
  exact h.1 f hf (by simpa using hfk)

theorem members_names (F : Facts08) (cfg : Cfg) (I : Iface) (cns : Text) :
    (fs : List (Text × Ty)) → (vs : List (Text × Val)) →
    ∀ e ∈ membersToParent F cfg I cns fs vs, e.name ∈ fieldNames fs
  | [], vs => by intro e he; simp [membersToParent] at he
  | (k, t) :: fs, [] => by intro e he; simp [membersToParent] at he
  | (k, t) :: fs, (k', v) :: vs => by
    intro e he
    by_cases hk : k = k'
    · subst hk
      rw [membersToParent_cons, List.mem_append] at he
      rcases he with he | he
      · have := (memberNodes_nodeOk F cfg I cns k t v e he).1
        simp [fieldNames, this]
      · have := members_names F cfg I cns fs vs e he
        simp only [fieldNames, List.map, List.mem_cons]; right; exact this
    · have : membersToParent F cfg I cns ((k, t) :: fs) ((k', v) :: vs) = membersToParent F cfg I cns fs vs := by
        cases v <;> (simp only [membersToParent]; rw [if_neg hk]; rfl)
      rw [this] at he
      have := members_names F cfg I cns fs vs e he
      simp only [fieldNames, List.map, List.mem_cons]; right; exact this

theorem freq_members {F : Facts08} (L : LeafLaws F) (cfg : Cfg) (I : Iface) (cns : Text) {poly strict : Bool} :
    (fs : List (Text × Ty)) → (vs : List (Text × Val)) → namesNodup fs = true → wfFields fs = true →
    okFieldsX I poly strict fs vs = true → fitsFieldsV F vs = true →
    ∀ pre : List Node, (∀ e ∈ pre, e.name ∉ fieldNames fs) →
      fs.all (fun f => f.2.occ.countOk
        ((pre ++ membersToParent F cfg I cns fs vs).countP (fun c => c.name = f.1))) = true
  | [], _, _, _, _, _ => by intro pre _; rfl
  | (k, t) :: fs, [], _, _, hok, _ => by simp [okFieldsX] at hok
  | (k, t) :: fs, (k', v) :: vs, hnd, hwf, hok, hfit => by
    intro pre hpre
    rw [okFieldsX_cons] at hok
    simp only [Bool.and_eq_true, decide_eq_true_eq] at hok
    obtain ⟨⟨hk, hf⟩, hrest⟩ := hok
    subst hk
    obtain ⟨hknot, hnd'⟩ := namesNodup_cons hnd
    simp only [wfFields, Bool.and_eq_true] at hwf
    simp only [fitsFieldsV, Bool.and_eq_true] at hfit
    have hocc : occWf t.occ = true := by
      cases t <;> simp_all [tyWf, Ty.occ]
    rw [membersToParent_cons]
    simp only [List.all_cons, Bool.and_eq_true]
    constructor
    · -- the head member
      have h1 : pre.countP (fun c => c.name = k) = 0 := by
        rw [List.countP_eq_zero]
        intro e he
        have := hpre e he
        simp only [fieldNames, List.map, List.mem_cons, not_or] at this
        simpa using this.1
      have h2 : (memberNodes F cfg I cns k t v).countP (fun c => c.name = k) =
          (memberNodes F cfg I cns k t v).length := by
        rw [List.countP_eq_length]
        intro e he
        simpa using (memberNodes_nodeOk F cfg I cns k t v e he).1
      have h3 : (membersToParent F cfg I cns fs vs).countP (fun c => c.name = k) = 0 := by
        rw [List.countP_eq_zero]
        intro e he
        have := members_names F cfg I cns fs vs e he
        intro hek
        simp only [decide_eq_true_eq] at hek
        rw [hek] at this
        exact hknot this
      simp only [List.countP_append, h1, h2, h3, Nat.zero_add, Nat.add_zero]
      exact memberNodes_count L cfg I cns k t v hocc hf hfit.1
    · -- the remaining members
      have := freq_members L cfg I cns fs vs hnd' hwf.2 hrest hfit.2 (pre ++ memberNodes F cfg I cns k t v) (by
        intro e he
        rw [List.mem_append] at he
        rcases he with he | he
        · have := hpre e he
          simp only [fieldNames, List.map, List.mem_cons, not_or] at this
          exact this.2
        · rw [(memberNodes_nodeOk F cfg I cns k t v e he).1]
          exact hknot)
      simpa [List.append_assoc] using this

/-! ### one step of the child loop, accumulation of a repeated member -/

theorem childLoop_step (F : Facts08) (X : FactsXml) (cfg : Cfg) (I : Iface) (allFields : List (Text × Ty))
    (e : Node) (rest : List Node) (st : List (Text × Val)) (t : Ty) (w : Val)
    (hp : allFields.all (fun f => plainName f.1) = true) (hk : lookupField allFields e.name = some t)
    (ha : ∀ a ∈ e.attrs, plainName a.1 = false) (hd : fromElement F X cfg I t e = .ok w) :
    childLoop F X cfg I allFields (e :: rest) st =
      childLoop F X cfg I allFields rest (if t.occ.repeated then stAppend st e.name w else stSet st e.name w) := by
  rw [childLoop]
  simp only [hk, hd, childAttrCrash_of_plain X allFields e.attrs hp ha]
  simp

def accStep (acc : Val) (w : Val) : Val :=
  match acc with
  | .list l => .list (l ++ [w])
  | _ => .list [w]

def accApp (acc : Val) (ws : List Val) : Val :=
  match ws with
  | [] => acc
  | w :: ws' =>
    match acc with
    | .list l => .list (l ++ w :: ws')
    | _ => .list (w :: ws')

theorem accApp_step (acc w : Val) (ws : List Val) : accApp (accStep acc w) ws = accApp acc (w :: ws) := by
  cases acc <;> cases ws <;> simp [accApp, accStep]

theorem stAppend_at (done : List (Text × Val)) (k : Text) (acc w : Val) (tail : List (Text × Val))
    (hk : k ∉ keys done) :
    stAppend (done ++ (k, acc) :: tail) k w = done ++ (k, accStep acc w) :: tail := by
  unfold stAppend
  rw [stGet_at done k acc tail hk]
  cases acc <;> simp [accStep, stSet_at done k _ _ tail hk]

/-! ### registry -/

theorem find?_key_of_mem (f : ClassDef → Text) (cs : List ClassDef) (c : ClassDef)
    (hn : textsNodup (cs.map f) = true) (hc : c ∈ cs) : cs.find? (fun d => f d = f c) = some c := by
  induction cs with
  | nil => cases hc
  | cons d ds ih =>
    simp only [List.map, textsNodup, Bool.and_eq_true, Bool.not_eq_true'] at hn
    simp only [List.find?]
    by_cases hd : f d = f c
    · simp only [hd, decide_true]
      cases hc with
      | head => rfl
      | tail _ h =>
        exfalso
        have : (ds.map f).contains (f d) = true := by
          rw [hd]; simp only [List.contains_eq_mem, List.mem_map, decide_eq_true_eq]; exact ⟨c, h, rfl⟩
        rw [this] at hn; exact absurd hn.1 (by simp)
    · simp only [hd, decide_false]
      cases hc with
      | head => exact absurd rfl hd
      | tail _ h => exact ih hn.2 h

theorem find?_name {cs : Registry} {cls : Text} {c : ClassDef} (h : Registry.find? cs cls = some c) :
    c.name = cls ∧ c ∈ cs := by
  unfold Registry.find? at h
  have h1 := List.find?_some h
  exact ⟨by simpa using h1, List.mem_of_find?_eq_some h⟩

/-! ### the round trip -/

/-- what the round trip needs from the environment -/
structure RtCtx (F : Facts08) (X : FactsXml) (cfg : Cfg) (I : Iface) : Prop where
  L : LeafLaws F
  /-- under soft validation `unicode_from_element` validates `''` for an empty element -/
  hE : cfg.soft = true → X.emptyStringText = true
  /-- `xsi:nil="true"` is read as nil (holds for both measured nil rules) -/
  hN : isNil X [(xsiNilKey, "true".toList)] = true
  hP : cfg.parseXsiType = true
  hI : ifaceWf I = true

theorem isNil_nil (X : FactsXml) : isNil X [] = false := by simp [isNil, List.lookup]

theorem isNil_xsiType (X : FactsXml) (v : Text) : isNil X [(xsiTypeKey, v)] = false := by
  simp [isNil, List.lookup, xsiType_ne_nil]

theorem lookup_of_mem_nodup : (fs : List (Text × Ty)) → namesNodup fs = true →
    ∀ k t, (k, t) ∈ fs → lookupField fs k = some t
  | [], _, k, t, h => by cases h
  | (k0, t0) :: fs, hnd, k, t, h => by
    obtain ⟨hknot, hnd'⟩ := namesNodup_cons hnd
    cases h with
    | head => simp [lookupField, List.lookup]
    | tail _ h =>
      have hne : (k == k0) = false := by
        cases hb : (k == k0) with
        | false => rfl
        | true =>
          have : k = k0 := by simpa using hb
          subst this
          exact absurd (by simp only [fieldNames, List.mem_map]; exact ⟨(k, t), h, rfl⟩) hknot
      simp only [lookupField, List.lookup, hne]
      exact lookup_of_mem_nodup fs hnd' k t h

theorem resolveXsi_class {X : FactsXml} {I : Iface} (hI : ifaceWf I = true) {c : ClassDef} (hc : c ∈ I.classes)
    (dn dns : Text) (db : Option Text) (dfs : List (Text × Ty)) (docc : Occ) (hs : I.isSub c.name dn = true) :
    resolveXsi X I (.obj dn dns db dfs docc) (clark c.ns c.name) = some (ClassDef.toTy c) := by
  have hl : I.lookup (clark c.ns c.name) = some (ClassDef.toTy c) := by
    unfold Iface.lookup
    rw [find?_key_of_mem (fun c => clark c.ns c.name) I.classes c (ifaceWf_keys hI) hc]
  unfold resolveXsi
  rw [hl]
  simp only [ClassDef.toTy, hs, if_true]
  split <;> rfl

theorem nil_rt {F : Facts08} {X : FactsXml} {cfg : Cfg} {I : Iface} (C : RtCtx F X cfg I) (ns name : Text) (t : Ty)
    (hn : t.occ.nillable = true) : fromElement F X cfg I t (nilElem ns name) = .ok .none := by
  have hN : isNil X [(xsiNilKey, "true".toList)] = true := C.hN
  rw [nilElem, fromElement, hN]
  simp [hn]

theorem normX_nonrep (I : Iface) (t : Ty) (v : Val) (hr : t.occ.repeated = false) :
    normX I t v = normOneX I t v := by
  cases v with
  | bytes bs => cases bs <;> simp [normX, normOneX, hr]
  | _ => simp [normX, normOneX, hr]

/-- a leaf value: `modelbase_to_parent` & co. followed by the leaf handler -/
theorem leaf_one_rt {F : Facts08} {X : FactsXml} {cfg : Cfg} {I : Iface} (C : RtCtx F X cfg I)
    (ns name : Text) (t : Ty) (ht : tyWf t = true) (v : Val) (h1 : v ≠ .none)
    (h2 : ∀ cls vs, v ≠ .obj cls vs) (h3 : ∀ vs, v ≠ .list vs)
    (hok : okOneX I cfg.polymorphic cfg.soft t v = true) (hfit : fitsV F v = true) :
    ∃ e, toParent F cfg I ns name t v = [e] ∧ fromElement F X cfg I t e = .ok (normOneX I t v) := by
  cases t with
  | obj a b c d e => cases v <;> simp_all [okOneX]
  | arr a b c => cases v <;> simp_all [okOneX]
  | prim p o =>
    have hleaf : leafOk cfg.soft p o v = true := by cases v <;> simp_all [okOneX]
    simp only [tyWf, Bool.and_eq_true] at ht
    obtain ⟨s, hto, hfrom⟩ := leaf_rt C.L cfg C.hE I p o v ht.1 hleaf hfit
    refine ⟨.elem ns name [] (mkText s) [], ?_, ?_⟩
    · cases v <;> simp_all [toParent]
    · rw [fromElement]
      simp only [isNil_nil, C.hP, List.lookup, if_true]
      exact hfrom

/-- the child loop on the single element written for a present single-occurrence member -/
theorem single_field_step {F : Facts08} {X : FactsXml} {cfg : Cfg} {I : Iface}
    (allFields : List (Text × Ty)) (cns k : Text) (t : Ty) (v : Val) (hv : v ≠ .none)
    (hr : t.occ.repeated = false) (hlk : lookupField allFields k = some t)
    (hpl : allFields.all (fun f => plainName f.1) = true)
    (hone : ∃ e, toParent F cfg I cns k t v = [e] ∧ fromElement F X cfg I t e = .ok (normOneX I t v))
    (done tail : List (Text × Val)) (rest : List Node) (hkdone : k ∉ keys done) :
    childLoop F X cfg I allFields (memberNodes F cfg I cns k t v ++ rest) (done ++ (k, .none) :: tail) =
      childLoop F X cfg I allFields rest (done ++ (k, normX I t v) :: tail) := by
  obtain ⟨e, he, hdec⟩ := hone
  have hok := toParent_nodeOk F cfg I cns k t v e (by rw [he]; exact List.mem_singleton.mpr rfl)
  rw [memberNodes_nonrep F cfg I cns k t v hr hv, he, List.cons_append, List.nil_append]
  rw [childLoop_step F X cfg I allFields e _ _ t _ hpl (by rw [hok.1]; exact hlk) hok.2 hdec]
  simp only [hr, hok.1]
  rw [stSet_at done k .none _ _ hkdone, normX_nonrep I t v hr]
  simp

mutual
  /-- one occurrence: `to_parent` writes exactly one element and `from_element` reads it back -/
  theorem one_rt {F : Facts08} {X : FactsXml} {cfg : Cfg} {I : Iface} (C : RtCtx F X cfg I)
      (ns name : Text) (t : Ty) (ht : tyWf t = true) :
      (v : Val) → okOneX I cfg.polymorphic cfg.soft t v = true → fitsV F v = true →
      ∃ e, toParent F cfg I ns name t v = [e] ∧ fromElement F X cfg I t e = .ok (normOneX I t v)
    | .none, hok, _ => by
      simp only [okOneX] at hok
      exact ⟨nilElem ns name, rfl, by rw [nil_rt C ns name t hok]; simp [normOneX]⟩
    | .obj cls vs, hok, hfit => by
      cases t with
      | prim p o => simp [okOneX] at hok
      | arr m el o => simp [okOneX] at hok
      | obj cname cns cb fields o =>
        simp only [okOneX] at hok
        simp only [fitsV] at hfit
        simp only [tyWf, Bool.and_eq_true] at ht
        obtain ⟨⟨⟨hnd, hpl⟩, hwf⟩, _⟩ := ht
        by_cases hcls : cls = cname
        · subst hcls
          simp only [if_true] at hok
          have hpt : polyTarget cfg I cls cls = none := by simp [polyTarget]
          refine ⟨Node.elem ns name [] none (membersToParent F cfg I cns fields vs), by simp only [toParent, hpt], ?_⟩
          have hloop := fields_rt C fields cns fields vs (lookup_of_mem_nodup fields hnd) hpl hnd hwf hok hfit
            [] [] (by intro k _ h; cases h)
          simp only [List.append_nil, List.nil_append] at hloop
          have hfreq := freq_members C.L cfg I cns fields vs hnd hwf hok hfit [] (by intro e he; cases he)
          simp only [List.nil_append] at hfreq
          rw [fromElement]
          simp only [isNil_nil, C.hP, List.lookup, if_true, hloop, childLoop]
          simp [freqOk, hfreq, normOneX]
        · simp only [hcls, if_false, Bool.and_eq_true] at hok
          obtain ⟨⟨hpoly, hsub⟩, hfind⟩ := hok
          cases hf : Registry.find? I.classes cls with
          | none => simp [hf] at hfind
          | some c =>
            simp only [hf] at hfind
            obtain ⟨hcn, hcm⟩ := find?_name hf
            obtain ⟨hnd', hpl', hwf'⟩ := ifaceWf_fields C.hI c hcm
            have hpt : polyTarget cfg I cname cls = some c := by
              simp [polyTarget, hpoly, hcls, hsub, hf]
            refine ⟨Node.elem ns name [(xsiTypeKey, clark c.ns c.name)] none (membersToParent F cfg I c.ns c.fields vs),
              by simp only [toParent, hpt], ?_⟩
            have hloop := fields_rt C c.fields c.ns c.fields vs (lookup_of_mem_nodup c.fields hnd') hpl' hnd' hwf'
              hfind hfit [] [] (by intro k _ h; cases h)
            simp only [List.append_nil, List.nil_append] at hloop
            have hfreq := freq_members C.L cfg I c.ns c.fields vs hnd' hwf' hfind hfit [] (by intro e he; cases he)
            simp only [List.nil_append] at hfreq
            have hres := resolveXsi_class (X := X) C.hI hcm cname cns cb fields o (by rw [hcn]; exact hsub)
            rw [fromElement]
            simp only [isNil_xsiType, C.hP, List.lookup, beq_self_eq_true, if_true, hres, ClassDef.toTy, hloop,
              childLoop]
            simp [freqOk, hfreq, normOneX, hcls, hf, hcn]
    | .list vs, hok, hfit => by
      cases t with
      | prim p o => simp [okOneX] at hok
      | obj a b c d e => simp [okOneX] at hok
      | arr member elem o =>
        simp only [okOneX] at hok
        simp only [fitsV] at hfit
        simp only [tyWf, Bool.and_eq_true] at ht
        refine ⟨Node.elem ns name [] none
          (itemsToParent F cfg I (memberNs I.tns ns member elem) (memberLocal member) elem vs), by simp only [toParent], ?_⟩
        have := arr_items_rt C (memberNs I.tns ns member elem) (memberLocal member) elem ht.1 vs hok hfit
        rw [fromElement]
        simp only [isNil_nil, C.hP, List.lookup, if_true, this]
        simp [normOneX]
    | .int i, hok, hfit => leaf_one_rt C ns name t ht (.int i) (by simp) (by simp) (by simp) hok hfit
    | .bool b, hok, hfit => leaf_one_rt C ns name t ht (.bool b) (by simp) (by simp) (by simp) hok hfit
    | .str s, hok, hfit => leaf_one_rt C ns name t ht (.str s) (by simp) (by simp) (by simp) hok hfit
    | .date d, hok, hfit => leaf_one_rt C ns name t ht (.date d) (by simp) (by simp) (by simp) hok hfit
    | .time d, hok, hfit => leaf_one_rt C ns name t ht (.time d) (by simp) (by simp) (by simp) hok hfit
    | .dt d, hok, hfit => leaf_one_rt C ns name t ht (.dt d) (by simp) (by simp) (by simp) hok hfit
    | .dur d, hok, hfit => leaf_one_rt C ns name t ht (.dur d) (by simp) (by simp) (by simp) hok hfit
    | .bytes d, hok, hfit => leaf_one_rt C ns name t ht (.bytes d) (by simp) (by simp) (by simp) hok hfit
    | .enum d, hok, hfit => leaf_one_rt C ns name t ht (.enum d) (by simp) (by simp) (by simp) hok hfit

  /-- the member loop: the child loop of `complex_from_element` consumes what `_get_members_etree` wrote
      for the members `fs` and leaves their (normalised) values in the instance -/
  theorem fields_rt {F : Facts08} {X : FactsXml} {cfg : Cfg} {I : Iface} (C : RtCtx F X cfg I)
      (allFields : List (Text × Ty)) (cns : Text) :
      (fs : List (Text × Ty)) → (vs : List (Text × Val)) →
      (∀ k t, (k, t) ∈ fs → lookupField allFields k = some t) →
      allFields.all (fun f => plainName f.1) = true → namesNodup fs = true → wfFields fs = true →
      okFieldsX I cfg.polymorphic cfg.soft fs vs = true → fitsFieldsV F vs = true →
      ∀ (done : List (Text × Val)) (rest : List Node), (∀ k, k ∈ fieldNames fs → k ∉ keys done) →
        childLoop F X cfg I allFields (membersToParent F cfg I cns fs vs ++ rest) (done ++ initState fs) =
          childLoop F X cfg I allFields rest (done ++ normFieldsX I fs vs)
    | [], [], _, _, _, _, _, _ => by
      intro done rest _
      simp [membersToParent, initState, normFieldsX]
    | [], _ :: _, _, _, _, _, hok, _ => by simp [okFieldsX] at hok
    | _ :: _, [], _, _, _, _, hok, _ => by simp [okFieldsX] at hok
    | (k, t) :: fs, (k', v) :: vs, hsub, hpl, hnd, hwf, hok, hfit => by
      intro done rest hdone
      rw [okFieldsX_cons] at hok
      simp only [Bool.and_eq_true, decide_eq_true_eq] at hok
      obtain ⟨⟨hk, hf⟩, hrest⟩ := hok
      subst hk
      obtain ⟨hknot, hnd'⟩ := namesNodup_cons hnd
      simp only [wfFields, Bool.and_eq_true] at hwf
      simp only [fitsFieldsV, Bool.and_eq_true] at hfit
      have hkdone : k ∉ keys done := hdone k (by simp [fieldNames])
      have hlk : lookupField allFields k = some t := hsub k t List.mem_cons_self
      -- the remaining members, once this one is done
      have tailStep : ∀ w : Val,
          childLoop F X cfg I allFields (membersToParent F cfg I cns fs vs ++ rest)
            (done ++ (k, w) :: initState fs) =
          childLoop F X cfg I allFields rest (done ++ (k, w) :: normFieldsX I fs vs) := by
        intro w
        have := fields_rt C allFields cns fs vs (fun k' t' h => hsub k' t' (List.mem_cons_of_mem _ h)) hpl hnd'
          hwf.2 hrest hfit.2 (done ++ [(k, w)]) rest (by
            intro k' hk'
            simp only [keys, List.map_append, List.map, List.mem_append, List.mem_singleton, not_or]
            refine ⟨hdone k' (by simp only [fieldNames, List.map, List.mem_cons]; right; exact hk'), ?_⟩
            intro h; subst h; exact hknot hk')
        simpa [List.append_assoc] using this
      rw [membersToParent_cons, initState_cons, List.append_assoc]
      simp only [normFieldsX]
      by_cases hr : t.occ.repeated = true
      · -- a repeated member
        cases v with
        | none =>
          simp only [fieldOk, hr, Bool.not_true, Bool.and_false, Bool.or_false, decide_eq_true_eq] at hf
          have : memberNodes F cfg I cns k t .none = [] := by simp [memberNodes, hf]
          rw [this, List.nil_append]
          have hn : normX I t .none = .none := by simp [normX]
          rw [hn]; exact tailStep .none
        | list items =>
          simp only [fieldOk, okX, hr, if_true, Bool.and_eq_true] at hf
          simp only [fitsV] at hfit
          have : memberNodes F cfg I cns k t (.list items) = itemsToParent F cfg I cns k t items := by
            simp [memberNodes, hr]
          rw [this]
          have hstep := rep_items_rt C allFields cns k t hwf.1 hlk hr hpl items hf.2 hfit.1 done .none
            (initState fs) (membersToParent F cfg I cns fs vs ++ rest) hkdone
          rw [hstep]
          have hn : normX I t (.list items) = accApp .none (normItemsX I t items) := by
            cases items <;> simp [normX, hr, accApp, normItemsX]
          rw [hn]; exact tailStep _
        | _ => simp [fieldOk, okX, hr] at hf
      · -- a single-occurrence member
        have hr' : t.occ.repeated = false := by simpa using hr
        cases v with
        | none =>
          have hn : normX I t .none = .none := by simp [normX]
          rw [hn]
          simp only [memberNodes]
          split
          · -- written as an xsi:nil element
            rename_i hmin
            simp only [fieldOk, hr', Bool.not_false, Bool.and_true, Bool.or_eq_true, decide_eq_true_eq] at hf
            have hnil : t.occ.nillable = true := by
              rcases hf with h | h
              · omega
              · exact h
            obtain ⟨e, he, hdec⟩ := one_rt C cns k t hwf.1 .none (by simp [okOneX, hnil]) (by simp [fitsV])
            simp only [toParent] at he
            have hee : e = nilElem cns k := by simpa using he.symm
            subst hee
            have hok := nodeOk_nil cns k
            rw [List.cons_append, List.nil_append]
            rw [childLoop_step F X cfg I allFields (nilElem cns k) _ _ t _ hpl (by rw [hok.1]; exact hlk) hok.2 hdec]
            simp only [hr', hok.1, normOneX]
            rw [stSet_at done k .none .none _ hkdone]
            exact tailStep .none
          · rw [List.nil_append]; exact tailStep .none
        | obj cls ws =>
          simp only [fieldOk] at hf
          rw [okX_nonrep hr' (by simp)] at hf
          rw [single_field_step allFields cns k t _ (by simp) hr' hlk hpl (one_rt C cns k t hwf.1 (.obj cls ws) hf hfit.1)
            done _ _ hkdone]
          exact tailStep _
        | list items =>
          simp only [fieldOk] at hf
          rw [okX_nonrep hr' (by simp)] at hf
          rw [single_field_step allFields cns k t _ (by simp) hr' hlk hpl (one_rt C cns k t hwf.1 (.list items) hf hfit.1)
            done _ _ hkdone]
          exact tailStep _
        | int i =>
          simp only [fieldOk] at hf
          rw [okX_nonrep hr' (by simp)] at hf
          rw [single_field_step allFields cns k t _ (by simp) hr' hlk hpl
            (leaf_one_rt C cns k t hwf.1 (.int i) (by simp) (by simp) (by simp) hf hfit.1) done _ _ hkdone]
          exact tailStep _
        | bool i =>
          simp only [fieldOk] at hf
          rw [okX_nonrep hr' (by simp)] at hf
          rw [single_field_step allFields cns k t _ (by simp) hr' hlk hpl
            (leaf_one_rt C cns k t hwf.1 (.bool i) (by simp) (by simp) (by simp) hf hfit.1) done _ _ hkdone]
          exact tailStep _
        | str i =>
          simp only [fieldOk] at hf
          rw [okX_nonrep hr' (by simp)] at hf
          rw [single_field_step allFields cns k t _ (by simp) hr' hlk hpl
            (leaf_one_rt C cns k t hwf.1 (.str i) (by simp) (by simp) (by simp) hf hfit.1) done _ _ hkdone]
          exact tailStep _
        | date i =>
          simp only [fieldOk] at hf
          rw [okX_nonrep hr' (by simp)] at hf
          rw [single_field_step allFields cns k t _ (by simp) hr' hlk hpl
            (leaf_one_rt C cns k t hwf.1 (.date i) (by simp) (by simp) (by simp) hf hfit.1) done _ _ hkdone]
          exact tailStep _
        | time i =>
          simp only [fieldOk] at hf
          rw [okX_nonrep hr' (by simp)] at hf
          rw [single_field_step allFields cns k t _ (by simp) hr' hlk hpl
            (leaf_one_rt C cns k t hwf.1 (.time i) (by simp) (by simp) (by simp) hf hfit.1) done _ _ hkdone]
          exact tailStep _
        | dt i =>
          simp only [fieldOk] at hf
          rw [okX_nonrep hr' (by simp)] at hf
          rw [single_field_step allFields cns k t _ (by simp) hr' hlk hpl
            (leaf_one_rt C cns k t hwf.1 (.dt i) (by simp) (by simp) (by simp) hf hfit.1) done _ _ hkdone]
          exact tailStep _
        | dur i =>
          simp only [fieldOk] at hf
          rw [okX_nonrep hr' (by simp)] at hf
          rw [single_field_step allFields cns k t _ (by simp) hr' hlk hpl
            (leaf_one_rt C cns k t hwf.1 (.dur i) (by simp) (by simp) (by simp) hf hfit.1) done _ _ hkdone]
          exact tailStep _
        | bytes i =>
          simp only [fieldOk] at hf
          rw [okX_nonrep hr' (by simp)] at hf
          rw [single_field_step allFields cns k t _ (by simp) hr' hlk hpl
            (leaf_one_rt C cns k t hwf.1 (.bytes i) (by simp) (by simp) (by simp) hf hfit.1) done _ _ hkdone]
          exact tailStep _
        | enum i =>
          simp only [fieldOk] at hf
          rw [okX_nonrep hr' (by simp)] at hf
          rw [single_field_step allFields cns k t _ (by simp) hr' hlk hpl
            (leaf_one_rt C cns k t hwf.1 (.enum i) (by simp) (by simp) (by simp) hf hfit.1) done _ _ hkdone]
          exact tailStep _

  /-- items of a wrapped array -/
  theorem arr_items_rt {F : Facts08} {X : FactsXml} {cfg : Cfg} {I : Iface} (C : RtCtx F X cfg I)
      (ns name : Text) (elem : Ty) (ht : tyWf elem = true) :
      (vs : List Val) → okItemsX I cfg.polymorphic cfg.soft elem vs = true → fitsItemsV F vs = true →
      arrayLoop F X cfg I elem (itemsToParent F cfg I ns name elem vs) = .ok (normItemsX I elem vs)
    | [], _, _ => by simp [itemsToParent, arrayLoop, normItemsX]
    | v :: vs, hok, hfit => by
      simp only [okItemsX, Bool.and_eq_true] at hok
      simp only [fitsItemsV, Bool.and_eq_true] at hfit
      obtain ⟨e, he, hdec⟩ := one_rt C ns name elem ht v hok.1 hfit.1
      have ih := arr_items_rt C ns name elem ht vs hok.2 hfit.2
      simp [itemsToParent, he, arrayLoop, hdec, ih, normItemsX]

  /-- occurrences of a repeated member accumulate in the instance -/
  theorem rep_items_rt {F : Facts08} {X : FactsXml} {cfg : Cfg} {I : Iface} (C : RtCtx F X cfg I)
      (allFields : List (Text × Ty)) (cns k : Text) (t : Ty) (ht : tyWf t = true)
      (hlk : lookupField allFields k = some t) (hr : t.occ.repeated = true)
      (hpl : allFields.all (fun f => plainName f.1) = true) :
      (items : List Val) → okItemsX I cfg.polymorphic cfg.soft t items = true → fitsItemsV F items = true →
      ∀ (done : List (Text × Val)) (acc : Val) (tail : List (Text × Val)) (rest : List Node), k ∉ keys done →
        childLoop F X cfg I allFields (itemsToParent F cfg I cns k t items ++ rest) (done ++ (k, acc) :: tail) =
          childLoop F X cfg I allFields rest (done ++ (k, accApp acc (normItemsX I t items)) :: tail)
    | [], _, _ => by
      intro done acc tail rest _
      simp [itemsToParent, normItemsX, accApp]
    | v :: vs, hok, hfit => by
      intro done acc tail rest hk
      simp only [okItemsX, Bool.and_eq_true] at hok
      simp only [fitsItemsV, Bool.and_eq_true] at hfit
      obtain ⟨e, he, hdec⟩ := one_rt C cns k t ht v hok.1 hfit.1
      have hnode := toParent_nodeOk F cfg I cns k t v e (by rw [he]; exact List.mem_singleton.mpr rfl)
      simp only [itemsToParent, he, List.cons_append, List.nil_append, List.append_assoc]
      rw [childLoop_step F X cfg I allFields e _ _ t _ hpl (by rw [hnode.1]; exact hlk) hnode.2 hdec]
      simp only [hr, if_true, hnode.1]
      rw [stAppend_at done k acc _ tail hk]
      rw [rep_items_rt C allFields cns k t ht hlk hr hpl vs hok.2 hfit.2 done _ tail rest hk]
      simp only [normItemsX, accApp_step]
end

end Xml
end SpyneModel
