/-
  C03 helper lemmas, part 8: the query string. Percent coding is lossless
  (`unquote (quote s) = s` for every text), and `_parse_qs` reads a rendered list of pairs back as
  the pairs, grouped by key in order of first occurrence.
-/
import Proofs.FlatBasic
import SpyneModel.FlatQs
namespace SpyneModel.Flat
open SpyneModel

/-! ## hex digits -/

theorem hexVal_hexUp : ∀ n, n < 16 → hexVal (hexUp n) = some n := by decide

theorem hexUp_ne : ∀ n, n < 16 → hexUp n ≠ '%' ∧ hexUp n ≠ '+' ∧ hexUp n ≠ '=' ∧ hexUp n ≠ '&' ∧ hexUp n ≠ ';' := by
  decide

/-! ## UTF-8 -/

theorem char_range (c : Char) : c.toNat < 0xD800 ∨ (0xDFFF < c.toNat ∧ c.toNat < 0x110000) := by
  have := c.valid
  simp only [UInt32.isValidChar, Nat.isValidChar] at this
  exact this

theorem utf8_char (c : Char) (rest : List Nat) :
    utf8DecGo .idle (utf8EncNat c.toNat ++ rest) = c :: utf8DecGo .idle rest := by
  have hr := char_range c
  have hc : Char.ofNat c.toNat = c := Char.ofNat_toNat c
  generalize c.toNat = n at hr hc
  unfold utf8EncNat
  by_cases h1 : n < 0x80
  · simp only [h1, if_true, List.cons_append, List.nil_append, utf8DecGo, u8Lead, hc]
  · by_cases h2 : n < 0x800
    · simp only [h1, h2, if_true, if_false, List.cons_append, List.nil_append, utf8DecGo, u8Lead]
      have a1 : ¬ (0xC0 + n / 64 < 0x80) := by omega
      have a2 : ¬ (0xC0 + n / 64 < 0xC2) := by omega
      have a3 : 0xC0 + n / 64 < 0xE0 := by omega
      simp only [a1, a2, a3, if_true, if_false, List.nil_append]
      have b1 : (0x80 ≤ 0x80 + n % 64 && decide (0x80 + n % 64 < 0xC0)) = true := by
        simp; omega
      simp only [utf8DecGo, b1, if_true]
      have : (0xC0 + n / 64 - 0xC0) * 64 + (0x80 + n % 64 - 0x80) = n := by omega
      rw [this, hc]
    · by_cases h3 : n < 0x10000
      · simp only [h1, h2, h3, if_true, if_false, List.cons_append, List.nil_append, utf8DecGo, u8Lead]
        have a1 : ¬ (0xE0 + n / 4096 < 0x80) := by omega
        have a2 : ¬ (0xE0 + n / 4096 < 0xC2) := by omega
        have a3 : ¬ (0xE0 + n / 4096 < 0xE0) := by omega
        have a4 : 0xE0 + n / 4096 < 0xF0 := by omega
        simp only [a1, a2, a3, a4, if_true, if_false, List.nil_append]
        have b1 : (decide ((if 0xE0 + n / 4096 = 0xE0 then 0xA0 else 0x80) ≤ 0x80 + n / 64 % 64) &&
            decide (0x80 + n / 64 % 64 < (if 0xE0 + n / 4096 = 0xED then 0xA0 else 0xC0))) = true := by
          simp only [Bool.and_eq_true, decide_eq_true_eq]
          constructor
          · split <;> omega
          · split <;> omega
        simp only [utf8DecGo, b1, if_true]
        have b2 : (0x80 ≤ 0x80 + n % 64 && decide (0x80 + n % 64 < 0xC0)) = true := by
          simp; omega
        simp only [show ¬ (2 = 1) by decide, if_false, utf8DecGo, b2, if_true]
        have : ((0xE0 + n / 4096 - 0xE0) * 64 + (0x80 + n / 64 % 64 - 0x80)) * 64 + (0x80 + n % 64 - 0x80) = n := by omega
        rw [this, hc]
      · simp only [h1, h2, h3, if_false, List.cons_append, List.nil_append, utf8DecGo, u8Lead]
        have a1 : ¬ (0xF0 + n / 262144 < 0x80) := by omega
        have a2 : ¬ (0xF0 + n / 262144 < 0xC2) := by omega
        have a3 : ¬ (0xF0 + n / 262144 < 0xE0) := by omega
        have a4 : ¬ (0xF0 + n / 262144 < 0xF0) := by omega
        have a5 : 0xF0 + n / 262144 < 0xF5 := by omega
        simp only [a1, a2, a3, a4, a5, if_true, if_false, List.nil_append]
        have b1 : (decide ((if 0xF0 + n / 262144 = 0xF0 then 0x90 else 0x80) ≤ 0x80 + n / 4096 % 64) &&
            decide (0x80 + n / 4096 % 64 < (if 0xF0 + n / 262144 = 0xF4 then 0x90 else 0xC0))) = true := by
          simp only [Bool.and_eq_true, decide_eq_true_eq]
          constructor
          · split <;> omega
          · split <;> omega
        simp only [utf8DecGo, b1, if_true]
        have b2 : (0x80 ≤ 0x80 + n / 64 % 64 && decide (0x80 + n / 64 % 64 < 0xC0)) = true := by
          simp; omega
        have b3 : (0x80 ≤ 0x80 + n % 64 && decide (0x80 + n % 64 < 0xC0)) = true := by
          simp; omega
        simp only [show ¬ (3 = 1) by decide, show ¬ (2 = 1) by decide, show (3 - 1 : Nat) = 2 by rfl,
          show (2 - 1 : Nat) = 1 by rfl, if_false, utf8DecGo, b2, b3, if_true]
        have : (((0xF0 + n / 262144 - 0xF0) * 64 + (0x80 + n / 4096 % 64 - 0x80)) * 64 +
            (0x80 + n / 64 % 64 - 0x80)) * 64 + (0x80 + n % 64 - 0x80) = n := by omega
        rw [this, hc]

/-- UTF-8 decoding inverts UTF-8 encoding, for every text -/
theorem utf8Dec_utf8Enc (s : Text) : utf8Dec (utf8Enc s) = s := by
  unfold utf8Dec utf8Enc
  induction s with
  | nil => rfl
  | cons c r ih =>
    simp only [List.flatMap_cons]
    rw [utf8_char, ih]

/-! ## percent coding -/

/-- characters that occur in the output of `quote` -/
def quoteOut (c : Char) : Bool := isUnreserved c || c = '%'

theorem unreserved_facts (c : Char) (h : isUnreserved c = true) : c ≠ '%' ∧ c.toNat < 128 := by
  simp only [isUnreserved, Bool.or_eq_true, Bool.and_eq_true, decide_eq_true_eq] at h
  constructor
  · intro e; subst e; revert h; decide
  · rcases h with (((((h | h) | h) | h) | h) | h) | h
    · omega
    · omega
    · omega
    · subst h; decide
    · subst h; decide
    · subst h; decide
    · subst h; decide

theorem pctBytesGo_plain (c : Char) (rest : Text) (h : c ≠ '%') :
    pctBytesGo 0 (c :: rest) = c.toNat :: pctBytesGo 0 rest := by
  simp only [pctBytesGo]
  split
  · rename_i heq _; exact absurd rfl h
  · rfl

theorem pctBytesGo_pct (b : Nat) (hb : b < 256) (rest : Text) :
    pctBytesGo 0 (pctByte b ++ rest) = b :: pctBytesGo 0 rest := by
  have h1 := hexVal_hexUp (b / 16) (by omega)
  have h2 := hexVal_hexUp (b % 16) (by omega)
  simp only [pctByte, List.cons_append, List.nil_append, pctBytesGo, h1, h2]
  congr 1
  omega

theorem pctBytesGo_bytes (bs : List Nat) (hb : ∀ b, b ∈ bs → b < 256) (rest : Text) :
    pctBytesGo 0 (bs.flatMap pctByte ++ rest) = bs ++ pctBytesGo 0 rest := by
  induction bs with
  | nil => rfl
  | cons b r ih =>
    simp only [List.flatMap_cons, List.append_assoc, List.cons_append]
    rw [pctBytesGo_pct b (hb b List.mem_cons_self), ih (fun b' hb' => hb b' (List.mem_cons_of_mem _ hb'))]

theorem utf8EncNat_bytes (n : Nat) (hn : n < 0x110000) : ∀ b, b ∈ utf8EncNat n → b < 256 := by
  intro b hb
  unfold utf8EncNat at hb
  split at hb
  · simp at hb; omega
  · split at hb
    · simp at hb; omega
    · split at hb
      · simp at hb; omega
      · simp at hb; omega

theorem char_lt (c : Char) : c.toNat < 0x110000 := by
  rcases char_range c with h | h <;> omega

theorem pctBytes_quote (s rest : Text) : pctBytesGo 0 (quote s ++ rest) = utf8Enc s ++ pctBytesGo 0 rest := by
  unfold quote utf8Enc
  induction s with
  | nil => rfl
  | cons c r ih =>
    simp only [List.flatMap_cons, List.append_assoc]
    by_cases hu : isUnreserved c = true
    · obtain ⟨h1, h2⟩ := unreserved_facts c hu
      simp only [hu, if_true, List.cons_append, List.nil_append]
      rw [pctBytesGo_plain c _ h1, ih]
      simp [utf8EncNat, h2]
    · simp only [hu, Bool.false_eq_true, if_false]
      rw [pctBytesGo_bytes _ (utf8EncNat_bytes _ (char_lt c)), ih]

/-- percent-decoding inverts percent-encoding, for every text -/
theorem unquote_quote (s : Text) : unquote (quote s) = s := by
  unfold unquote
  have := pctBytes_quote s []
  simp only [List.append_nil] at this
  rw [this]
  simp only [pctBytesGo, List.append_nil]
  exact utf8Dec_utf8Enc s

theorem hexUp_unreserved : ∀ n, n < 16 → isUnreserved (hexUp n) = true := by decide

theorem quote_chars (s : Text) : ∀ c, c ∈ quote s → quoteOut c = true := by
  intro c hc
  unfold quote at hc
  simp only [List.mem_flatMap] at hc
  obtain ⟨x, _, hx⟩ := hc
  split at hx
  · rename_i hu
    simp only [List.mem_singleton] at hx
    subst hx
    simp [quoteOut, hu]
  · simp only [List.mem_flatMap, pctByte, List.mem_cons, List.not_mem_nil, or_false] at hx
    obtain ⟨b, hb, hcb⟩ := hx
    have hb' := utf8EncNat_bytes _ (char_lt x) b hb
    rcases hcb with rfl | rfl | rfl
    · simp [quoteOut]
    · simp [quoteOut, hexUp_unreserved (b / 16) (by omega)]
    · simp [quoteOut, hexUp_unreserved (b % 16) (by omega)]

theorem quoteOut_ne (c : Char) (h : quoteOut c = true) : c ≠ '+' ∧ c ≠ '=' := by
  constructor <;> (intro e; subst e; revert h; decide)

theorem plusToSpace_quote (F : Facts03) (s : Text) : plusToSpace F (quote s) = quote s := by
  unfold plusToSpace
  split
  · have h := quote_chars s
    generalize quote s = q at h
    induction q with
    | nil => rfl
    | cons c r ih =>
      have := (quoteOut_ne c (h c List.mem_cons_self)).1
      simp only [List.map_cons, this, if_false]
      rw [ih (fun c' hc' => h c' (List.mem_cons_of_mem _ hc'))]
  · rfl

/-! ## `_parse_qs` on a rendered list of pairs -/

theorem splitOn_plain (isSep : Char → Bool) (pre rest : Text) (h : ∀ c, c ∈ pre → isSep c = false) :
    ∃ hd tl, splitOn isSep rest = hd :: tl ∧ splitOn isSep (pre ++ rest) = (pre ++ hd) :: tl := by
  induction pre with
  | nil =>
    cases hs : splitOn isSep rest with
    | nil =>
      exfalso
      cases rest with
      | nil => simp [splitOn] at hs
      | cons c r =>
        simp only [splitOn] at hs
        split at hs
        · simp at hs
        · split at hs <;> simp at hs
    | cons hd tl => exact ⟨hd, tl, rfl, by simp [hs]⟩
  | cons c p ih =>
    obtain ⟨hd, tl, h1, h2⟩ := ih (fun c' hc' => h c' (List.mem_cons_of_mem _ hc'))
    refine ⟨hd, tl, h1, ?_⟩
    simp only [List.cons_append, splitOn, h c List.mem_cons_self, Bool.false_eq_true, if_false, h2]

theorem splitEq_plain (pre : Text) (h : ∀ c, c ∈ pre → c ≠ '=') (v : Option Text) :
    splitEq (pre ++ (match v with | none => [] | some x => '=' :: x)) = (pre, v) := by
  induction pre with
  | nil => cases v <;> simp [splitEq]
  | cons c p ih =>
    simp only [List.cons_append, splitEq, h c List.mem_cons_self, if_false]
    rw [ih (fun c' hc' => h c' (List.mem_cons_of_mem _ hc'))]

/-- one pair as it is written -/
def renderPair (p : Text × Option Text) : Text :=
  quote p.1 ++ (match p.2 with | none => [] | some x => '=' :: quote x)

theorem renderQs_eq (pairs : List (Text × Option Text)) :
    renderQs pairs = match pairs with
      | [] => []
      | [p] => renderPair p
      | p :: q :: r => renderPair p ++ '&' :: renderQs (q :: r) := by
  cases pairs with
  | nil => rfl
  | cons p r =>
    obtain ⟨k, v⟩ := p
    cases r with
    | nil => rfl
    | cons q r' => rfl

/-- the pairs, grouped by key in order of first occurrence (what an ordered multi-dict holds) -/
def groupPairs (pairs : List (Text × Option Text)) : Doc :=
  pairs.foldl (fun acc p => addPair acc p.1 p.2) []

/-- what `_parse_qs` does with one piece between separators -/
def pieceStep (F : Facts03) (acc : Doc) (nv : Text) : Doc :=
  if nv.isEmpty then acc
  else addPair acc (unquote (plusToSpace F (splitEq nv).1))
    ((splitEq nv).2.map (fun v => unquote (plusToSpace F v)))

theorem parseQs_eq (F : Facts03) (qs : Text) :
    parseQs F qs = (splitOn (fun c => F.pairSeps.contains c) qs).foldl (pieceStep F) [] := rfl

theorem renderPair_chars (p : Text × Option Text) : ∀ c, c ∈ renderPair p → quoteOut c = true ∨ c = '=' := by
  intro c hc
  obtain ⟨k, v⟩ := p
  simp only [renderPair, List.mem_append] at hc
  rcases hc with hc | hc
  · exact Or.inl (quote_chars k c hc)
  · cases v with
    | none => simp at hc
    | some x =>
      simp only [List.mem_cons] at hc
      rcases hc with rfl | hc
      · exact Or.inr rfl
      · exact Or.inl (quote_chars x c hc)

theorem pieceStep_renderPair (F : Facts03) (acc : Doc) (p : Text × Option Text)
    (hne : renderPair p ≠ []) : pieceStep F acc (renderPair p) = addPair acc p.1 p.2 := by
  obtain ⟨k, v⟩ := p
  have hemp : (renderPair (k, v)).isEmpty = false := by
    cases h : renderPair (k, v) with
    | nil => exact absurd h hne
    | cons _ _ => rfl
  have hsplit : splitEq (renderPair (k, v)) = (quote k, v.map quote) := by
    have := splitEq_plain (quote k) (fun c hc => (quoteOut_ne c (quote_chars k c hc)).2) (v.map quote)
    cases v <;> simpa [renderPair] using this
  simp only [pieceStep, hemp, Bool.false_eq_true, if_false, hsplit, plusToSpace_quote, unquote_quote]
  cases v <;> simp [plusToSpace_quote, unquote_quote]

/-- the separators of the current tree do not occur inside a written pair -/
def SepsOk (F : Facts03) : Prop :=
  F.pairSeps.contains '&' = true ∧ F.pairSeps.all (fun c => !quoteOut c && !(c == '=')) = true

instance (F : Facts03) : Decidable (SepsOk F) := by unfold SepsOk; exact inferInstance

theorem SepsOk.sep {F : Facts03} (h : SepsOk F) (c : Char) (hc : F.pairSeps.contains c = true) :
    quoteOut c = false ∧ c ≠ '=' := by
  have hm : c ∈ F.pairSeps := List.contains_iff_mem.mp hc
  have := List.all_eq_true.mp h.2 c hm
  simp only [Bool.and_eq_true, Bool.not_eq_true', beq_eq_false_iff_ne, ne_eq] at this
  exact this

theorem splitOn_renderQs (F : Facts03) (hs : SepsOk F) (pairs : List (Text × Option Text)) (hne : pairs ≠ []) :
    splitOn (fun c => F.pairSeps.contains c) (renderQs pairs) = pairs.map renderPair := by
  have hnosep : ∀ p : Text × Option Text, ∀ c, c ∈ renderPair p → F.pairSeps.contains c = false := by
    intro p c hc
    cases hcon : F.pairSeps.contains c with
    | false => rfl
    | true =>
      have := hs.sep c hcon
      rcases renderPair_chars p c hc with h | h
      · rw [this.1] at h; exact absurd h (by simp)
      · exact absurd h this.2
  induction pairs with
  | nil => exact absurd rfl hne
  | cons p r ih =>
    cases r with
    | nil =>
      rw [renderQs_eq]
      obtain ⟨hd, tl, h1, h2⟩ := splitOn_plain (fun c => F.pairSeps.contains c) (renderPair p) [] (hnosep p)
      simp only [splitOn, List.cons.injEq] at h1
      simp only [List.append_nil] at h2
      rw [h2, ← h1.1, ← h1.2]
      simp
    | cons q r' =>
      rw [renderQs_eq]
      simp only
      obtain ⟨hd, tl, h1, h2⟩ := splitOn_plain (fun c => F.pairSeps.contains c) (renderPair p)
        ('&' :: renderQs (q :: r')) (hnosep p)
      rw [h2]
      simp only [splitOn, hs.1, if_true, List.cons.injEq] at h1
      rw [← h1.1, ← h1.2, ih (by simp)]
      simp

/-- `_parse_qs` of what a client writes for a list of pairs gives the pairs back, grouped by key
    in order of first occurrence, values in order, text for text (percent coding and `+` undone) -/
theorem parseQs_renderQs (F : Facts03) (hs : SepsOk F) (pairs : List (Text × Option Text))
    (hne : ∀ p, p ∈ pairs → renderPair p ≠ []) : parseQs F (renderQs pairs) = groupPairs pairs := by
  rw [parseQs_eq]
  cases hp : pairs with
  | nil => simp [renderQs, splitOn, pieceStep, groupPairs]
  | cons p r =>
    rw [← hp, splitOn_renderQs F hs pairs (by rw [hp]; simp)]
    unfold groupPairs
    have : ∀ (l : List (Text × Option Text)) (acc : Doc), (∀ p, p ∈ l → renderPair p ≠ []) →
        (l.map renderPair).foldl (pieceStep F) acc = l.foldl (fun acc p => addPair acc p.1 p.2) acc := by
      intro l
      induction l with
      | nil => intro acc _; rfl
      | cons a l ih =>
        intro acc h
        simp only [List.map_cons, List.foldl_cons]
        rw [pieceStep_renderPair F acc a (h a List.mem_cons_self)]
        exact ih _ (fun p hp => h p (List.mem_cons_of_mem _ hp))
    exact this pairs [] hne

end SpyneModel.Flat
