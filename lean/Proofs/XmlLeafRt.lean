/-
  Round trip of one leaf element: `modelbase_to_parent` / `byte_array_to_parent` / `enum_to_parent`
  followed by the `*_from_element` handler, for every validator setting.
-/
import Proofs.XmlBasic
namespace SpyneModel
namespace Xml

theorem leafFits_of_fitsV (F : Facts08) (p : PrimTy) (v : Val) (h : fitsV F v = true) : leafFits F p v = true := by
  cases p <;> cases v <;> simp_all [leafFits, fitsV, intFits]
  all_goals (rename_i k r i; cases k <;> simp_all [leafFits])

theorem normOneX_leaf (I : Iface) (p : PrimTy) (o : Occ) (v : Val) (hv : p.valueOk v = true)
    (hb : v ≠ .bytes []) : normOneX I (.prim p o) v = v := by
  cases v with
  | bytes bs =>
    cases bs with
    | nil => exact absurd rfl hb
    | cons b bs => simp [normOneX]
  | obj cls vs => cases p <;> simp [PrimTy.valueOk] at hv
  | list vs => cases p <;> simp [PrimTy.valueOk] at hv
  | _ => simp [normOneX]

theorem leafToText_bytes_nil (F : Facts08) (e : BinEnc) : leafToText F (.bytes e) (.bytes []) = some [] := by
  cases e <;> simp [leafToText, hexenc, b64enc]

/-- the leaf handlers read back what the leaf serialisers wrote -/
theorem leaf_rt {F : Facts08} (L : LeafLaws F) {X : FactsXml} (cfg : Cfg) (hE : cfg.soft = true → X.emptyStringText = true)
    (I : Iface) (p : PrimTy) (o : Occ) (v : Val) (hwf : primWf p = true)
    (hok : leafOk cfg.soft p o v = true) (hfit : fitsV F v = true) :
    ∃ s, leafToText F p v = some s ∧
      leafFromElement F X cfg p o (mkText s) = .ok (normOneX I (.prim p o) v) := by
  simp only [leafOk, Bool.and_eq_true] at hok
  obtain ⟨hval, hstrict⟩ := hok
  obtain ⟨s, hto, hfrom⟩ := L.roundtrip p v hval (leafFits_of_fitsV F p v hfit)
  have hsoft := L.soft p s v hfrom
  rw [hval] at hsoft
  simp only [Bool.and_eq_true] at hsoft
  obtain ⟨hvs, hvn⟩ := hsoft
  refine ⟨s, hto, ?_⟩
  by_cases hs : s = []
  · subst hs
    rcases L.emptyText p v hval hto with hv | hv | hv
    · -- the empty string
      subst hv
      cases p <;> simp [PrimTy.valueOk] at hval
      by_cases hs : cfg.soft = true
      · simp [leafFromElement, mkText, hE hs, hvs, hvn, normOneX]
      · have hs' : cfg.soft = false := by simpa using hs
        simp [leafFromElement, mkText, hs', normOneX]
    · -- the empty byte string arrives as None
      subst hv
      cases p <;> simp [PrimTy.valueOk] at hval
      rename_i enc
      simp only [Bool.or_eq_true, Bool.not_eq_true', Bool.or_false] at hstrict
      have : (cfg.soft && !o.nillable) = false := by
        cases hc : cfg.soft <;> cases hn : o.nillable <;> simp_all
      simp [leafFromElement, mkText, normOneX, this]
    · subst hv
      cases p <;> simp [PrimTy.valueOk] at hval
      simp [primWf, hval] at hwf
  · have hmk : mkText s = some s := by simp [mkText, hs]
    have hnb : v ≠ .bytes [] := by
      intro hb; subst hb
      cases p <;> simp [PrimTy.valueOk] at hval
      rw [leafToText_bytes_nil] at hto
      exact hs (Option.some.inj hto).symm
    rw [normOneX_leaf I p o v hval hnb, hmk]
    cases p with
    | unicode mn mx pat vals =>
      have hv : v = .str s := by
        simp only [leafFromText] at hfrom; exact (Outcome.ok.inj hfrom).symm
      subst hv
      simp [leafFromElement, hvs, hvn]
    | enum names =>
      cases v <;> simp [PrimTy.valueOk] at hval
      rename_i n
      simp only [leafToText] at hto
      cases hto
      simp [leafFromElement, hval]
    | _ => simp [leafFromElement, hvs, hvn, hfrom]

end Xml
end SpyneModel
