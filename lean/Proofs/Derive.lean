/-
  C15 proofs, part 1: the frame discipline.
  `Ext n na T h h'`: going from heap `h` to `h'`, no class with id below `n` outside `T` changed, and no
  `Attributes` record below `na` changed its public part (own writes, parent). Every model program is shown
  to be `Good`: it only extends the heap in this sense (and returns fresh ids where it returns ids).
-/
import SpyneModel.DeriveApply
namespace SpyneModel.Derive

/-- what identifies a class for the variants discipline -/
def Cls.core (cl : Cls) : Kind × Nat × Option Nat := (cl.kind, cl.attrs, cl.orig)

structure Ext (n na : Nat) (T : List Nat) (h h' : Heap) : Prop where
  clsLen : h.cls.length ≤ h'.cls.length
  attrsLen : h.attrs.length ≤ h'.attrs.length
  cls : ∀ c, c < n → c ∉ T → h'.cls[c]? = h.cls[c]?
  attrs : ∀ a, a < na → (h'.attrs[a]?).map AttrRec.pub = (h.attrs[a]?).map AttrRec.pub
  /-- family, `Attributes` record and original of a class never change, not even for the classes in `T` -/
  core : ∀ c, c < n → (h'.cls[c]?).map Cls.core = (h.cls[c]?).map Cls.core
  /-- the `type_attrs` dicts of the protocol objects are never written -/
  prots : h'.prots = h.prots

theorem Ext.refl (n na : Nat) (T : List Nat) (h : Heap) : Ext n na T h h :=
  ⟨Nat.le_refl _, Nat.le_refl _, fun _ _ _ => rfl, fun _ _ => rfl, fun _ _ => rfl, rfl⟩

theorem Ext.trans {n na : Nat} {T : List Nat} {h h' h'' : Heap}
    (a : Ext n na T h h') (b : Ext n na T h' h'') : Ext n na T h h'' :=
  ⟨Nat.le_trans a.clsLen b.clsLen, Nat.le_trans a.attrsLen b.attrsLen,
   fun c hc ht => (b.cls c hc ht).trans (a.cls c hc ht),
   fun x hx => (b.attrs x hx).trans (a.attrs x hx),
   fun c hc => (b.core c hc).trans (a.core c hc),
   b.prots.trans a.prots⟩

/-- a program that respects the frame: started on a heap containing the base region, it ends (normally or
    with an exception) in a heap that extends it, and a normal result satisfies `post` -/
def Good {α : Type} (n na : Nat) (T : List Nat) (m : M α) (post : α → Prop) : Prop :=
  ∀ h, n ≤ h.cls.length → na ≤ h.attrs.length →
    Ext n na T h (m h).heap ∧ (∀ h' a, m h = .ok h' a → post a)

variable {n na : Nat} {T : List Nat}

/-- the measured fact that a derived class gets its own deep copy of `sqla_column_args` -/
class DeepCopy (F : Facts15) : Prop where
  deep : F.colCopy = .deep
  /-- ... and that `customize(prot=p)` merges the keywords into a copy of the protocol's `type_attrs` -/
  protCopied : F.protCopy = .copied
  /-- ... and that only class statements register with the class they extend -/
  subsClasses : F.subsRule = .classStatementsOnly

theorem Good.pure {α : Type} (a : α) : Good n na T (Pure.pure a : M α) (fun x => x = a) := by
  intro h _ _
  refine ⟨Ext.refl _ _ _ _, ?_⟩
  intro h' a' he
  simp only [Pure.pure, M.pure] at he
  cases he; rfl

theorem Good.weaken {α : Type} {m : M α} {P Q : α → Prop} (g : Good n na T m P) (w : ∀ a, P a → Q a) :
    Good n na T m Q := fun h h1 h2 => ⟨(g h h1 h2).1, fun h' a he => w a ((g h h1 h2).2 h' a he)⟩

theorem Good.pure' {α : Type} (a : α) {Q : α → Prop} (q : Q a) : Good n na T (Pure.pure a : M α) Q :=
  (Good.pure a).weaken (fun _ e => e ▸ q)

theorem Good.bind {α β : Type} {m : M α} {f : α → M β} {P : α → Prop} {Q : β → Prop}
    (gm : Good n na T m P) (gf : ∀ a, P a → Good n na T (f a) Q) : Good n na T (m >>= f) Q := by
  intro h h1 h2
  have g1 := gm h h1 h2
  simp only [Bind.bind, M.bind]
  cases hm : m h with
  | err h' e =>
    simp only [hm, Res.heap] at g1 ⊢
    exact ⟨g1.1, fun _ _ he => by cases he⟩
  | ok h' a =>
    simp only [hm, Res.heap] at g1 ⊢
    have pa : P a := g1.2 h' a rfl
    have g2 := gf a pa h' (Nat.le_trans h1 g1.1.clsLen) (Nat.le_trans h2 g1.1.attrsLen)
    exact ⟨g1.1.trans g2.1, g2.2⟩

theorem Good.fail {α : Type} (e : String) {Q : α → Prop} : Good n na T (fail e : M α) Q := by
  intro h _ _
  exact ⟨Ext.refl _ _ _ _, fun _ _ he => by cases he⟩

theorem Good.getHeap : Good n na T getHeap (fun _ => True) := by
  intro h _ _
  exact ⟨Ext.refl _ _ _ _, fun _ _ _ => trivial⟩

theorem Good.getCls (c : Nat) : Good n na T (getCls c) (fun _ => True) := by
  intro h _ _
  unfold SpyneModel.Derive.getCls
  split
  · exact ⟨Ext.refl _ _ _ _, fun _ _ _ => trivial⟩
  · exact ⟨Ext.refl _ _ _ _, fun _ _ _ => trivial⟩

theorem Good.allocAttrs (r : AttrRec) : Good n na T (allocAttrs r) (fun _ => True) := by
  intro h h1 h2
  refine ⟨⟨Nat.le_refl _, ?_, fun _ _ _ => rfl, ?_, fun _ _ => rfl, rfl⟩, fun _ _ _ => trivial⟩
  · simp [SpyneModel.Derive.allocAttrs, Res.heap]
  · intro a ha
    simp only [SpyneModel.Derive.allocAttrs, Res.heap]
    rw [List.getElem?_append_left (by omega)]

/-- a class allocated by a program lies outside the base region -/
theorem Good.allocCls (c : Cls) : Good n na T (allocCls c) (fun id => n ≤ id) := by
  intro h h1 h2
  refine ⟨⟨?_, Nat.le_refl _, ?_, fun _ _ => rfl, ?_, rfl⟩, ?_⟩
  · simp [SpyneModel.Derive.allocCls, Res.heap]
  · intro x hx _
    simp only [SpyneModel.Derive.allocCls, Res.heap]
    rw [List.getElem?_append_left (by omega)]
  · intro x hx
    simp only [SpyneModel.Derive.allocCls, Res.heap]
    rw [List.getElem?_append_left (by omega)]
  · intro h' a he
    simp only [SpyneModel.Derive.allocCls] at he
    cases he; exact h1

theorem Good.allocBoth (r : AttrRec) (mk : Nat → Cls) : Good n na T (allocBoth r mk) (fun id => n ≤ id) := by
  intro h h1 h2
  refine ⟨⟨?_, ?_, ?_, ?_, ?_, rfl⟩, ?_⟩
  · simp [SpyneModel.Derive.allocBoth, Res.heap]
  · simp [SpyneModel.Derive.allocBoth, Res.heap]
  · intro x hx _
    simp only [SpyneModel.Derive.allocBoth, Res.heap]
    rw [List.getElem?_append_left (by omega)]
  · intro a ha
    simp only [SpyneModel.Derive.allocBoth, Res.heap]
    rw [List.getElem?_append_left (by omega)]
  · intro x hx
    simp only [SpyneModel.Derive.allocBoth, Res.heap]
    rw [List.getElem?_append_left (by omega)]
  · intro h' a he
    simp only [SpyneModel.Derive.allocBoth] at he
    cases he; exact h1

theorem ext_updCls (h : Heap) (c : Nat) (f : Cls → Cls) (hc : n ≤ c ∨ c ∈ T)
    (hf : ∀ cl, (f cl).kind = cl.kind ∧ (f cl).attrs = cl.attrs ∧ (f cl).orig = cl.orig) :
    Ext n na T h (h.updCls c f) := by
  unfold Heap.updCls
  split
  · rename_i cl hcl
    refine ⟨by simp, Nat.le_refl _, ?_, fun _ _ => rfl, ?_, rfl⟩
    · intro x hx ht
      have : c ≠ x := by
        rcases hc with hc | hc
        · omega
        · intro e; exact ht (e ▸ hc)
      simp [List.getElem?_set_ne this]
    · intro x _
      by_cases e : c = x
      · subst e
        have hlt : c < h.cls.length := by
          rcases Nat.lt_or_ge c h.cls.length with hl | hl
          · exact hl
          · rw [List.getElem?_eq_none hl] at hcl; cases hcl
        simp [List.getElem?_set_self hlt, hcl, Cls.core, hf cl]
      · simp [List.getElem?_set_ne e]
  · exact Ext.refl _ _ _ _

theorem Good.updCls (c : Nat) (f : Cls → Cls) (hc : n ≤ c ∨ c ∈ T)
    (hf : ∀ cl, (f cl).kind = cl.kind ∧ (f cl).attrs = cl.attrs ∧ (f cl).orig = cl.orig) :
    Good n na T (updCls c f) (fun _ => True) := by
  intro h _ _
  exact ⟨ext_updCls h c f hc hf, fun _ _ _ => trivial⟩

theorem ext_updCells (h : Heap) (a : Nat) (f : AttrRec → AttrRec) : Ext n na T h (h.updCells a f) := by
  unfold Heap.updCells
  split
  · rename_i r hr
    refine ⟨Nat.le_refl _, by simp, fun _ _ _ => rfl, ?_, fun _ _ => rfl, rfl⟩
    intro x _
    by_cases e : a = x
    · subst e
      have hlt : a < h.attrs.length := by
        rcases Nat.lt_or_ge a h.attrs.length with hl | hl
        · exact hl
        · rw [List.getElem?_eq_none hl] at hr; cases hr
      simp [List.getElem?_set_self hlt, hr, AttrRec.pub]
    · simp [List.getElem?_set_ne e]
  · exact Ext.refl _ _ _ _

theorem Good.updCells (a : Nat) (f : AttrRec → AttrRec) : Good n na T (updCells a f) (fun _ => True) := by
  intro h _ _
  exact ⟨ext_updCells h a f, fun _ _ _ => trivial⟩

theorem Good.modifyHeap (f : Heap → Heap) (hf : ∀ h, Ext n na T h (f h)) : Good n na T (modifyHeap f) (fun _ => True) := by
  intro h _ _
  exact ⟨hf h, fun _ _ _ => trivial⟩

theorem Good.map {α β : Type} {m : M α} (f : α → β) {P : α → Prop} {Q : β → Prop}
    (gm : Good n na T m P) (w : ∀ a, P a → Q (f a)) : Good n na T (f <$> m) Q := by
  have : (f <$> m) = (m >>= fun a => Pure.pure (f a)) := rfl
  rw [this]
  exact Good.bind gm (fun a pa => Good.pure' (f a) (w a pa))

theorem Good.guardNone (e : Option String) : Good n na T (guardNone e) (fun _ => True) := by
  unfold SpyneModel.Derive.guardNone
  split
  · exact Good.fail _
  · exact Good.pure' _ trivial

theorem Good.liftExcept {α : Type} (x : Except String α) : Good n na T (liftExcept x) (fun _ => True) := by
  unfold SpyneModel.Derive.liftExcept
  split
  · exact Good.pure' _ trivial
  · exact Good.fail _

theorem Good.whenM (b : Bool) {m : M Unit} (g : Good n na T m (fun _ => True)) :
    Good n na T (whenM b m) (fun _ => True) := by
  unfold SpyneModel.Derive.whenM
  split
  · exact g
  · exact Good.pure' _ trivial

end SpyneModel.Derive
