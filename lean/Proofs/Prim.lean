import SpyneModel.Prim
import Proofs.Text
namespace SpyneModel

/-! ## UTC offsets -/

theorem parseOffsetFields_fmtOffset (m : Int) (h : m.natAbs < 6000) (rest : Text) :
    parseOffsetFields (fmtOffset m ++ rest) = some (decide (m < 0), m.natAbs / 60, m.natAbs % 60, rest) := by
  have h1 : m.natAbs / 60 < 100 := by omega
  have h2 : m.natAbs % 60 < 100 := by omega
  unfold fmtOffset parseOffsetFields
  by_cases hm : m < 0
  · simp [hm, List.append_assoc, take2_pad2 _ h1, expect, take2_pad2 _ h2]
  · simp [hm, List.append_assoc, take2_pad2 _ h1, expect, take2_pad2 _ h2]

theorem offsetValue_good (F : Facts08) (hF : F.offsetRule = .signMagnitude) (m : Int) :
    offsetValue F (decide (m < 0)) (m.natAbs / 60) (m.natAbs % 60) = m := by
  unfold offsetValue
  rw [hF]
  by_cases hm : m < 0
  · simp [hm]; omega
  · simp [hm]; omega

theorem parseOffset_fmtOffset (F : Facts08) (hF : F.offsetRule = .signMagnitude)
    (m : Int) (h : m.natAbs < 6000) (rest : Text) :
    parseOffset F (fmtOffset m ++ rest) = some (m, rest) := by
  simp [parseOffset, parseOffsetFields_fmtOffset m h rest, offsetValue_good F hF m]

/-- the pinned tree's rule (D01) is wrong on a concrete offset -/
theorem parseOffset_bad_witness (F : Facts08) (hF : F.offsetRule = .signedHoursPlusMinutes) :
    parseOffset F (fmtOffset (-289)) = some (-191, []) := by
  have := parseOffsetFields_fmtOffset (-289) (by decide) []
  simp at this
  simp [parseOffset, this, offsetValue, hF]

end SpyneModel

namespace SpyneModel

/-! ## dates, times, datetimes -/

theorem parseDateFields_isoDate (x : Date) (hy : x.y < 10000) (hm : x.m < 100) (hd : x.d < 100) (rest : Text) :
    parseDateFields (isoDate x ++ rest) = some (x, rest) := by
  unfold parseDateFields isoDate
  simp [List.append_assoc, take4_pad4 _ hy, expect, take2_pad2 _ hm, take2_pad2 _ hd]

theorem fracToMicros_pad6 (n : Nat) (h : n < 1000000) : fracToMicros (pad6 n) = n := by
  simp [fracToMicros, pad6_length, valNat_pad6 n h]

/-- what may follow a time in a literal: nothing, or a zone designator -/
def zoneStart (rest : Text) : Prop := ∀ c r, rest = c :: r → (isDigit c = false ∧ c ≠ '.')

theorem parseTimeFields_isoTime (t : Time) (hv : t.valid = true) (rest : Text) (hr : zoneStart rest) :
    parseTimeFields (isoTime t ++ rest) = some (t, rest) := by
  simp [Time.valid] at hv
  obtain ⟨⟨⟨hh, hmi⟩, hs⟩, hus⟩ := hv
  have h1 : t.h < 100 := by omega
  have h2 : t.mi < 100 := by omega
  have h3 : t.s < 100 := by omega
  unfold parseTimeFields isoTime
  simp only [List.append_assoc, List.cons_append, take2_pad2 _ h1, expect, take2_pad2 _ h2, take2_pad2 _ h3, if_true]
  by_cases hz : t.us = 0
  · simp only [hz, if_true, List.nil_append]
    cases rest with
    | nil => simp; cases t; simp_all
    | cons c r =>
      have := (hr c r rfl).2
      have e : t = ⟨t.h, t.mi, t.s, 0⟩ := by cases t; simp_all
      split
      · rename_i heq; simp at heq; exact absurd heq.1 this
      · rw [← e]
  · simp only [hz, if_false, List.cons_append]
    have hsp : spanDigits (pad6 t.us ++ rest) = (pad6 t.us, rest) :=
      spanDigits_all _ (pad6_all_digits _ hus) rest (fun c r h => (hr c r h).1)
    have hne : (pad6 t.us).isEmpty = false := by simp [pad6]
    simp only [hsp, hne, fracToMicros_pad6 _ hus]
    cases t; simp

end SpyneModel

namespace SpyneModel

theorem zoneStart_nil : zoneStart [] := by intro c r h; cases h

theorem zoneStart_fmtOffset (m : Int) : zoneStart (fmtOffset m) := by
  intro c r h
  unfold fmtOffset at h
  by_cases hm : m < 0 <;> simp [hm] at h <;> (obtain ⟨rfl, _⟩ := h; decide)

theorem timeFromText_isoTime (F : Facts08) (t : Time) (hv : t.valid = true) :
    timeFromText F (isoTime t) = .ok t := by
  have := parseTimeFields_isoTime t hv [] zoneStart_nil
  simp at this
  unfold timeFromText
  simp [this, timeCtor, hv]

theorem strptimeMonth_pad2 (m : Nat) (h1 : 1 ≤ m) (h2 : m ≤ 12) (rest : Text) :
    strptimeMonth (pad2 m ++ '-' :: rest) = some (m, rest) := by
  have a : m / 10 < 10 := by omega
  have b : m % 10 < 10 := by omega
  simp [strptimeMonth, pad2, isDigit_digitChar _ a, isDigit_digitChar _ b, dval_digitChar _ a, dval_digitChar _ b]
  omega

theorem strptimeDayEnd_pad2 (d : Nat) (h1 : 1 ≤ d) (h2 : d ≤ 31) : strptimeDayEnd (pad2 d) = some d := by
  have a : d / 10 < 10 := by omega
  have b : d % 10 < 10 := by omega
  have e : d / 10 * 10 + d % 10 = d := by omega
  simp [strptimeDayEnd, pad2, isDigit_digitChar _ a, isDigit_digitChar _ b, dval_digitChar _ a, dval_digitChar _ b, e, h1, h2]

theorem daysInMonth_le (y m : Nat) : daysInMonth y m ≤ 31 := by
  unfold daysInMonth; split <;> (try split) <;> omega

theorem dateFromText_isoDate (F : Facts08) (x : Date) (hv : x.valid = true) :
    dateFromText F (isoDate x) = .ok x := by
  have hv' := hv
  simp [Date.valid] at hv'
  obtain ⟨⟨⟨⟨⟨hy1, hy2⟩, hm1⟩, hm2⟩, hd1⟩, hd2⟩ := hv'
  have hd3 : x.d ≤ 31 := Nat.le_trans hd2 (daysInMonth_le _ _)
  have : strptimeDate (isoDate x) = some x := by
    unfold strptimeDate isoDate
    simp only [List.append_assoc, List.cons_append, take4_pad4 _ (by omega : x.y < 10000), expect, if_true,
      strptimeMonth_pad2 _ hm1 hm2, strptimeDayEnd_pad2 _ hd1 hd3]
    cases x; simp_all
  simp [dateFromText, this]

theorem dateTimeFromText_isoDateTime (F : Facts08) (hO : F.offsetRule = .signMagnitude)
    (x : DateTime) (hv : x.valid = true) :
    dateTimeFromText F (isoDateTime x) = .ok x := by
  obtain ⟨d, t, tz⟩ := x
  simp [DateTime.valid] at hv
  obtain ⟨⟨hd, ht⟩, htz⟩ := hv
  have hd' := hd
  simp [Date.valid] at hd'
  obtain ⟨⟨⟨⟨⟨hy1, hy2⟩, hm1⟩, hm2⟩, hd1⟩, hd2⟩ := hd'
  have hd3 : d.d ≤ 31 := Nat.le_trans hd2 (daysInMonth_le _ _)
  unfold dateTimeFromText isoDateTime
  simp only [List.append_assoc, List.cons_append]
  rw [parseDateFields_isoDate d (by omega) (by omega) (by omega)]
  simp only [Bool.or_eq_true, decide_eq_true_eq, true_or, if_true]
  cases tz with
  | none =>
    simp only [List.append_nil]
    have := parseTimeFields_isoTime t ht [] zoneStart_nil
    simp at this
    simp [this, hd, ht, parseOffsetFields]
  | some m =>
    simp only
    rw [parseTimeFields_isoTime t ht (fmtOffset m) (zoneStart_fmtOffset m)]
    simp at htz
    have hm : m.natAbs < 6000 := by omega
    have hf := parseOffsetFields_fmtOffset m hm []
    simp at hf
    have ⟨c, r, hc, hne⟩ : ∃ c r, fmtOffset m = c :: r ∧ c ≠ 'Z' := by
      refine ⟨(if m < 0 then '-' else '+'), _, rfl, ?_⟩
      split <;> decide
    rw [hc] at hf ⊢
    have h23 : ¬ (m.natAbs / 60 > 23) := by omega
    have h59 : ¬ (m.natAbs % 60 > 59) := by omega
    dsimp only
    split
    · rename_i r4 heq; simp at heq; exact absurd heq.1 hne
    · simp [hf, offsetValue_good F hO m, hd, ht, h23, h59]


theorem not_space_of_digit (c : Char) (h : isDigit c = true) : isPyAsciiSpace c = false := by
  simp [isDigit] at h
  simp only [isPyAsciiSpace, Bool.or_eq_false_iff, decide_eq_false_iff_not]
  refine ⟨⟨⟨⟨⟨?_, ?_⟩, ?_⟩, ?_⟩, ?_⟩, ?_⟩ <;> (try (intro e; subst e; simp at h)) <;> omega

theorem pyDigitsAfter_digits (ds : Text) (h : ds.all isDigit = true) : pyDigitsAfter ds = some ds := by
  induction ds with
  | nil => simp [pyDigitsAfter]
  | cons c t ih =>
    rw [List.all_cons, Bool.and_eq_true] at h
    have hc : c ≠ '_' := by intro e; subst e; simp [isDigit] at h
    unfold pyDigitsAfter
    split
    · simp_all
    · rename_i heq; simp at heq; exact absurd heq.1 hc
    · rename_i c' rest _ heq; simp at heq; obtain ⟨rfl, rfl⟩ := heq; simp [h.1, ih h.2]

theorem pyDigitGroups_natText (n : Nat) : pyDigitGroups (natText n) = some (natText n) := by
  have hne := natText_ne_nil n
  have hall := natText_all_digits n
  cases hs : natText n with
  | nil => exact absurd hs hne
  | cons c t =>
    rw [hs, List.all_cons, Bool.and_eq_true] at hall
    simp [pyDigitGroups, hall.1, pyDigitsAfter_digits t hall.2]

theorem dropWhile_head_false {p : Char → Bool} (c : Char) (t : Text) (h : p c = false) :
    (c :: t).dropWhile p = c :: t := by simp [List.dropWhile, h]

theorem stripSpace_id (s : Text) (c : Char) (t : Text) (hs : s = c :: t) (hc : isPyAsciiSpace c = false)
    (f : Text) (l : Char) (hl : s = f ++ [l]) (hlc : isPyAsciiSpace l = false) : stripSpace s = s := by
  unfold stripSpace
  rw [hs, dropWhile_head_false c t hc, ← hs, hl]
  simp [List.dropWhile, hlc]

theorem natText_last (n : Nat) : ∃ f, natText n = f ++ [digitChar (n % 10)] := by
  unfold natText
  split
  · rename_i h; exact ⟨[], by simp [Nat.mod_eq_of_lt h]⟩
  · exact ⟨_, rfl⟩

theorem natText_head (n : Nat) : ∃ c t, natText n = c :: t ∧ isDigit c = true := by
  have hne := natText_ne_nil n
  have hall := natText_all_digits n
  cases hs : natText n with
  | nil => exact absurd hs hne
  | cons c t =>
    rw [hs, List.all_cons, Bool.and_eq_true] at hall
    exact ⟨c, t, rfl, hall.1⟩

theorem pyInt_intText (i : Int) : pyInt (intText i) = some i := by
  obtain ⟨f, hf⟩ := natText_last i.natAbs
  obtain ⟨c, t, hct, hcd⟩ := natText_head i.natAbs
  have hlast : isPyAsciiSpace (digitChar (i.natAbs % 10)) = false :=
    not_space_of_digit _ (isDigit_digitChar _ (Nat.mod_lt _ (by omega)))
  unfold pyInt intText
  by_cases hi : i < 0
  · simp only [hi, if_true]
    rw [stripSpace_id ('-' :: natText i.natAbs) '-' _ rfl (by decide) ('-' :: f) _ (by simp [hf]) hlast]
    simp [pyDigitGroups_natText, valNat_natText]
    omega
  · simp only [hi, if_false]
    rw [stripSpace_id (natText i.natAbs) c t hct (not_space_of_digit c hcd) f _ hf hlast]
    have hm : c ≠ '-' := by intro e; subst e; simp [isDigit] at hcd
    have hp : c ≠ '+' := by intro e; subst e; simp [isDigit] at hcd
    rw [hct]
    split
    · rename_i heq; simp at heq; exact absurd heq.1 hm
    · rename_i heq; simp at heq; exact absurd heq.1 hp
    · rw [← hct]; simp [pyDigitGroups_natText, valNat_natText]; omega

theorem intFromText_intToText (F : Facts08) (k : IntKind) (i : Int)
    (hlen : (intToText i).length ≤ F.intMaxStrLen k) : intFromText F k (intToText i) = .ok i := by
  unfold intToText at hlen ⊢
  unfold intFromText
  have : ¬ ((intText i).length > F.intMaxStrLen k) := by omega
  simp [this, pyInt_intText]



theorem natText_length_le (k : Nat) : ∀ n, n < 10 ^ (k + 1) → (natText n).length ≤ k + 1 := by
  induction k with
  | zero => intro n h; unfold natText; simp at h; simp [h]
  | succ k ih =>
    intro n h
    unfold natText
    split
    · simp
    · have : n / 10 < 10 ^ (k + 1) := by
        rw [Nat.pow_succ] at h
        exact Nat.div_lt_of_lt_mul (by omega)
      have := ih _ this
      simp; omega

theorem intText_length_bounded (k : IntKind) (i : Int) (lo hi : Int) (hlo : k.lo = some lo) (hhi : k.hi = some hi)
    (h1 : lo ≤ i) (h2 : i ≤ hi) : (intText i).length ≤ k.needLen := by
  unfold intText
  cases k <;> simp [IntKind.lo, IntKind.hi] at hlo hhi <;> subst hlo <;> subst hhi <;> simp only [IntKind.needLen]
  all_goals (split <;> (try simp only [List.length_cons]))
  all_goals first
    | omega
    | (have := natText_length_le 2 i.natAbs (by omega); omega)
    | (have := natText_length_le 4 i.natAbs (by omega); omega)
    | (have := natText_length_le 9 i.natAbs (by omega); omega)
    | (have := natText_length_le 18 i.natAbs (by omega); omega)
    | (have := natText_length_le 19 i.natAbs (by omega); omega)


theorem spanDigits_natText (n : Nat) (c : Char) (rest : Text) (hc : isDigit c = false) :
    spanDigits (natText n ++ c :: rest) = (natText n, c :: rest) :=
  spanDigits_all _ (natText_all_digits n) _ (by intro c' r h; simp at h; rw [← h.1]; exact hc)

theorem natText_isEmpty (n : Nat) : (natText n).isEmpty = false := by
  have := natText_ne_nil n
  cases h : natText n <;> simp_all

theorem optComp_hit (X : Char) (hX : isDigit X = false) (n : Nat) (rest : Text) :
    optComp X (natText n ++ X :: rest) = (some n, rest) := by
  simp [optComp, spanDigits_natText n X rest hX, natText_isEmpty, valNat_natText]

theorem optComp_miss (X c : Char) (hc : isDigit c = false) (hne : c ≠ X) (n : Nat) (rest : Text) :
    optComp X (natText n ++ c :: rest) = (none, natText n ++ c :: rest) := by
  simp [optComp, spanDigits_natText n c rest hc, hne]

theorem optComp_nondigit (X c : Char) (hc : isDigit c = false) (rest : Text) :
    optComp X (c :: rest) = (none, c :: rest) := by
  simp [optComp, spanDigits, hc]

theorem optComp_nil (X : Char) : optComp X [] = (none, []) := by simp [optComp, spanDigits]

theorem optSeconds_int (n : Nat) : optSeconds (natText n ++ ['S']) = (some (n, []), []) := by
  simp [optSeconds, spanDigits_natText n 'S' [] (by decide), natText_isEmpty, valNat_natText]

theorem optSeconds_frac (n u : Nat) (hu : u < 1000000) :
    optSeconds (natText n ++ '.' :: (pad6 u ++ ['S'])) = (some (n, pad6 u), []) := by
  have h1 := spanDigits_natText n '.' (pad6 u ++ ['S']) (by decide)
  have h2 : spanDigits (pad6 u ++ ['S']) = (pad6 u, ['S']) :=
    spanDigits_all _ (pad6_all_digits u hu) _ (by intro c r h; simp at h; rw [← h.1]; decide)
  have h3 : (pad6 u).isEmpty = false := by simp [pad6]
  simp [optSeconds, h1, h2, h3, natText_isEmpty, valNat_natText]

theorem optSeconds_nil : optSeconds [] = (none, []) := by simp [optSeconds, spanDigits]


theorem parseDurTimePart_durTimeText (F : Facts08) (hF : F.durFracFmt = .pad6) (h m s u : Nat) (hu : u < 1000000) :
    parseDurTimePart (durTimeText F h m s u) = some (h, m, s, if u > 0 then pad6 u else []) := by
  unfold durTimeText parseDurTimePart
  rw [hF]
  have H1 := optComp_hit 'H' (by decide)
  have H2 := optComp_hit 'M' (by decide)
  have M1 := optComp_miss 'H' 'M' (by decide) (by decide)
  have M2 := optComp_miss 'H' 'S' (by decide) (by decide)
  have M3 := optComp_miss 'H' '.' (by decide) (by decide)
  have M4 := optComp_miss 'M' 'S' (by decide) (by decide)
  have M5 := optComp_miss 'M' '.' (by decide) (by decide)
  by_cases hh : h > 0 <;> by_cases hm : m > 0 <;> by_cases hs : s > 0 <;> by_cases hu0 : u > 0 <;>
    simp [hh, hm, hs, hu0, H1, H2, M1, M2, M3, M4, M5, optComp_nil, optSeconds_int, optSeconds_frac _ _ hu,
      optSeconds_nil, List.append_assoc]
  all_goals omega


theorem parseDurBody_days (neg : Bool) (d : Nat) :
    parseDurBody neg (natText d ++ ['D']) = some { neg := neg, days := d } := by
  simp [parseDurBody, optComp_miss 'Y' 'D' (by decide) (by decide), optComp_miss 'M' 'D' (by decide) (by decide),
    optComp_hit 'D' (by decide)]

theorem parseDurBody_T (neg : Bool) (d : Nat) (tb : Text) :
    parseDurBody neg ((if d ≠ 0 then natText d ++ ['D'] else []) ++ 'T' :: tb) =
      match parseDurTimePart tb with
      | some (h, mi, si, sf) => some { neg := neg, days := d, hours := h, minutes := mi, secInt := si, secFrac := sf }
      | none => none := by
  by_cases hd : d ≠ 0
  · simp [hd, parseDurBody, optComp_miss 'Y' 'D' (by decide) (by decide), optComp_miss 'M' 'D' (by decide) (by decide),
      optComp_hit 'D' (by decide), List.append_assoc]
    cases parseDurTimePart tb with
    | none => rfl
    | some x => obtain ⟨h, mi, si, sf⟩ := x; rfl
  · have : d = 0 := by omega
    subst this
    simp [parseDurBody, optComp_nondigit _ 'T' (by decide)]
    cases parseDurTimePart tb with
    | none => rfl
    | some x => obtain ⟨h, mi, si, sf⟩ := x; rfl

theorem micros_of_parts (neg : Bool) (d h m s u : Nat) (hu : u < 1000000) :
    DurLit.micros { neg := neg, days := d, hours := h, minutes := m, secInt := s,
                    secFrac := if u > 0 then pad6 u else [] } =
      ((d * 24 + h) * 60 + m) * 60 * usPerSec + s * usPerSec + u := by
  unfold DurLit.micros
  by_cases hu0 : u > 0
  · have : (pad6 u).isEmpty = false := by simp [pad6]
    simp [hu0, this, pad6_length, valNat_pad6 u hu]
  · have : u = 0 := by omega
    simp [this]


theorem durFromText_durToText (F : Facts08) (hF : F.durFracFmt = .pad6) (hP : F.durParse = .exactDecimal)
    (us : Int) (hlo : -86399999913600000000 ≤ us) (hhi : us ≤ 86399999999999999999) :
    durFromText F (durToText F us) = .ok us := by
  unfold durToText
  simp only []
  generalize hv : us.natAbs = v
  have hu : v % usPerSec < 1000000 := by unfold usPerSec; omega
  have hvmax : v ≤ 86399999999999999999 := by omega
  have hmax1 : ¬ (v > maxDurUs) := by simp [maxDurUs, usPerDay, usPerSec]; omega
  have hmax2 : us < 0 → ¬ (v > 999999999 * usPerDay) := by intro h; simp [usPerDay, usPerSec]; omega
  by_cases hw : (v / usPerSec ≠ 0 && v / usPerSec % 86400 = 0 && v % usPerSec = 0) = true
  · -- whole days
    simp only [hw, if_true]
    simp at hw
    have hd : v / usPerDay ≠ 0 := by unfold usPerDay; unfold usPerSec at hw; omega
    simp only [hd, ne_eq, not_false_eq_true, if_true]
    unfold durFromText
    rw [hP]
    have hm : ∀ neg, DurLit.micros { neg := neg, days := v / usPerDay } = v := by
      intro neg; simp [DurLit.micros]; unfold usPerDay usPerSec at *; omega
    by_cases hneg : us < 0
    · simp only [hneg, if_true, List.cons_append, List.nil_append, parseDurLit, parseDurBody_days, hm]
      simp only [hmax1, hmax2 hneg, if_false, Bool.true_and, decide_false, Bool.false_eq_true, if_true]
      congr 1; omega
    · simp only [hneg, if_false, List.cons_append, List.nil_append, parseDurLit, parseDurBody_days, hm]
      simp only [hmax1, if_false, Bool.false_and, Bool.false_eq_true]
      congr 1; omega
  · simp only [hw, if_false, Bool.false_eq_true]
    by_cases hz : v = 0
    · have : us = 0 := by omega
      subst this
      subst hz
      simp [durFromText, hP]
      decide
    · simp only [hz, if_false]
      unfold durFromText
      rw [hP]
      have hparts := parseDurTimePart_durTimeText F hF (v / usPerSec % 86400 / 3600) (v / usPerSec % 86400 / 60 % 60)
        (v / usPerSec % 86400 % 60) (v % usPerSec) hu
      have harith : ((v / usPerDay * 24 + v / usPerSec % 86400 / 3600) * 60 + v / usPerSec % 86400 / 60 % 60) * 60 * usPerSec
          + v / usPerSec % 86400 % 60 * usPerSec + v % usPerSec = v := by
        unfold usPerDay usPerSec; omega
      have hmic : ∀ neg, DurLit.micros (DurLit.mk neg 0 0 (v / usPerDay) (v / usPerSec % 86400 / 3600)
          (v / usPerSec % 86400 / 60 % 60) (v / usPerSec % 86400 % 60)
          (if v % usPerSec > 0 then pad6 (v % usPerSec) else [])) = v := by
        intro neg
        rw [micros_of_parts neg _ _ _ _ _ hu, harith]
      by_cases hneg : us < 0
      · simp only [hneg, if_true, List.cons_append, List.nil_append, parseDurLit, parseDurBody_T, hparts, hmic]
        simp only [hmax1, hmax2 hneg, if_false, Bool.true_and, decide_false, Bool.false_eq_true, if_true]
        congr 1; omega
      · simp only [hneg, if_false, List.cons_append, List.nil_append, parseDurLit, parseDurBody_T, hparts, hmic]
        simp only [hmax1, if_false, Bool.false_and, Bool.false_eq_true]
        congr 1; omega

end SpyneModel
