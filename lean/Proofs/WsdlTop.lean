/- C07: the document-level statements about the WSDL part, assembled from Proofs.WsdlDoc. -/
import Proofs.WsdlDoc
namespace SpyneModel.Wsdl
open SpyneModel

/-- what `gen` returns when it returns -/
theorem messagesFor_perDocument (F : Facts07) (hM : F.messageDedup = .perDocument) (I : IState) :
    messagesFor F I = messagesOf I := by
  simp [messagesFor, hM]

theorem gen_ok (F : Facts07) (hM : F.messageDedup = .perDocument) (e : Enum) (I : IState) (url : String) (d : Doc)
    (h : gen F e I url = .ok d) :
    ∃ schemas tr, buildSchemas F e I = .ok (schemas, tr) ∧
      d = ⟨(touchAll (Prefs.init I) tr).nsmap,
           (touchAll (touchAll (Prefs.init I) tr)
              ((messagesOf I).2 ++ (portTypesOf F I (stripWsdl url)).trace ++ (bindingsOf F I).trace)).prefmap,
           I.tns, I.name, schemas, (messagesOf I).1, (portTypesOf F I (stripWsdl url)).services,
           (portTypesOf F I (stripWsdl url)).portTypes, (bindingsOf F I).bindings⟩ := by
  unfold gen at h
  rw [messagesFor_perDocument F hM] at h
  cases hb : buildSchemas F e I with
  | fault => rw [hb] at h; cases h
  | crash x => rw [hb] at h; cases h
  | ok r =>
    obtain ⟨schemas, tr⟩ := r
    rw [hb] at h
    simp only at h
    injection h with h
    exact ⟨schemas, tr, rfl, h.symm⟩

theorem wfOps_unpack (I : IState) (h : I.wfOps = true) :
    ((allMethods I).map (·.opName)).Nodup ∧ (∀ s ∈ I.services, svcOk s) ∧
    (I.services.flatMap (·.portTypes)).Nodup ∧ I.name ∉ I.services.flatMap (·.portTypes) ∧
    (I.services.map (·.name)).Nodup := by
  simp only [IState.wfOps, Bool.and_eq_true, decide_eq_true_eq, List.all_eq_true, Bool.not_eq_true',
    List.contains_eq_mem, decide_eq_false_iff_not] at h
  obtain ⟨⟨⟨⟨⟨h1, h2⟩, h3⟩, hsn⟩, h4⟩, h5⟩ := h
  refine ⟨h1, ?_, h4, h5, hsn⟩
  intro s hs
  refine ⟨h2 s hs, ?_⟩
  intro m hm
  have := h3 s hs m hm
  cases hp : m.portType with
  | none => rw [hp] at this; simpa using this
  | some p => rw [hp] at this; simpa using this

theorem cbInv_init (I : IState) : cbInv I ⟨[], false, []⟩ := by intro h; cases h

/-- **every exposed method is exactly one portType operation with a matching binding operation** -/
theorem ops_exactly_once_general (F : Facts07) (hF : F.opPortType = .own) (hM : F.messageDedup = .perDocument) (e : Enum) (I : IState) (url : String)
    (d : Doc) (h : gen F e I url = .ok d) (hw : I.wfOps = true) (s : Svc) (hs : s ∈ I.services) (m : Meth)
    (hm : m ∈ s.methods) :
    opCount m.opName d.portTypes = 1 ∧ bopCount m.opName d.bindings = 1 ∧
    ∃ pt ∈ d.portTypes, ∃ b ∈ d.bindings, b.name = pt.name ∧ b.type = ⟨d.tns, pt.name⟩ ∧
      mkOp I m ∈ pt.ops ∧ mkBOp F I m ∈ b.ops := by
  obtain ⟨schemas, tr, _, rfl⟩ := gen_ok F hM e I url d h
  obtain ⟨hnd, hok, _, _, _⟩ := wfOps_unpack I hw
  have hall : m ∈ allMethods I := mem_allMethods I s hs m hm
  have hone : ((allMethods I).filter (fun m' => m'.opName == m.opName)).length = 1 :=
    filter_length_one_of_nodup (·.opName) (allMethods I) hnd m hall
  have htg : ∀ s' ∈ I.services, targetsOk F I s' := fun s' hs' => targetsOk_of_own F hF I s' (by
    intro m' hm'
    have := (hok s' hs').2 m' hm'
    exact this)
  refine ⟨?_, ?_, ?_⟩
  · simp only [portTypesOf]
    rw [portTypesLoop_opCount F I _ I.services _ m.opName htg]
    simpa [opCount, allMethods] using hone
  · simp only [bindingsOf]
    rw [bindingsLoop_inv F I I.services _ m.opName hok (cbInv_init I)]
    simpa [bopCount, allMethods] using hone
  · obtain ⟨pt, hpt, hptn, hop⟩ := hasOp_portTypesLoop F I (stripWsdl url) I.services ⟨[], servicesInit I, []⟩ htg s hs m hm
    obtain ⟨b, hb, hbn, hbo⟩ := hasBOp_bindingsLoop F hF I I.services hok ⟨[], false, []⟩ (cbInv_init I) s hs m hm
    have hwf := bindingsLoop_wf F I I.services (fun _ h => h) ⟨[], false, []⟩ (fun b hb => by cases hb) b hb
    refine ⟨pt, hpt, b, hb, ?_, ?_, hop, hbo⟩
    · rw [hbn, hptn]
    · rw [hwf.1, hbn, hptn]

/-! ## the contract, unpacked -/

structure WfParts (I : IState) : Prop where
  cls : ∀ i, i < I.classes.length → I.wfCls i = true
  graph : ∀ i ∈ I.graph, i < I.classes.length
  meth : ∀ m ∈ allMethods I, I.wfMeth m = true
  prefsInv : (Prefs.init I).Inv
  knownXs : ∃ pf, (Prefs.init I).prefmap.lookup nsXsd = some pf
  knownTns : ∃ pf, (Prefs.init I).prefmap.lookup I.tns = some pf
  imports : ∀ i ∈ I.graph, (I.cls i).kind = .builtin ∨ (I.cls i).ns ∈ I.imports.map (·.1)
  importsTns : I.tns ∈ I.imports.map (·.1)
  consistent : ∀ r1 ∈ I.requests, ∀ r2 ∈ I.requests, r1.1 = r2.1 → partsOf I r1.2 = partsOf I r2.2
  faultTns : ∀ m ∈ allMethods I, ∀ f ∈ m.faults, (I.cls f).ns = I.tns

theorem wf_unpack (I : IState) (h : I.wf = true) : WfParts I := by
  simp only [IState.wf, IState.wfCore, Bool.and_eq_true] at h
  obtain ⟨⟨⟨⟨⟨⟨⟨⟨⟨h1, h2⟩, h3⟩, hp⟩, hx⟩, ht⟩, h9⟩, h10⟩, h11⟩, h12⟩ := h
  refine ⟨?_, ?_, ?_, ⟨?_⟩, ?_, ?_, ?_, ?_, ?_, ?_⟩
  · simpa [List.all_eq_true] using h1
  · simpa [List.all_eq_true] using h2
  · simpa [List.all_eq_true] using h3
  · intro ns pf hl
    have hm : ns ∈ (Prefs.init I).prefmap.map (·.1) := List.mem_map.mpr ⟨(ns, pf), lookup_mem _ _ _ hl, rfl⟩
    have := (List.all_eq_true.mp hp) ns hm
    rw [hl] at this
    simpa using this
  · exact Option.isSome_iff_exists.mp hx
  · exact Option.isSome_iff_exists.mp ht
  · intro i hi
    have := (List.all_eq_true.mp h9) i hi
    simpa using this
  · simpa using h10
  · intro r1 hr1 r2 hr2 he
    have := (List.all_eq_true.mp ((List.all_eq_true.mp h11) r1 hr1)) r2 hr2
    simp only [Bool.or_eq_true, bne_iff_ne, ne_eq, beq_iff_eq] at this
    rcases this with h | h
    · exact absurd he h
    · exact h
  · simpa [IState.faultsTns, List.all_eq_true] using h12

structure MethParts (I : IState) (m : Meth) : Prop where
  inNs : (I.cls m.inMsg).elemNs I.tns = I.tns
  outNs : (I.cls m.outMsg).elemNs I.tns = I.tns
  plain : ∀ i ∈ (m.inHeader.getD []) ++ (m.outHeader.getD []), (I.cls i).subName = none ∧ (I.cls i).wsdlPart = none
  hdrs : ∀ i ∈ (m.inHeader.getD []) ++ (m.outHeader.getD []) ++ m.faults, i ∈ I.graph ∧ (I.cls i).kind = .complex
  inOk : (m.inMsg ∈ I.graph ∧ (I.cls m.inMsg).kind = .complex) ∨ I.typeKeyOk m.inMsg = true
  outOk : (m.outMsg ∈ I.graph ∧ (I.cls m.outMsg).kind = .complex) ∨ I.typeKeyOk m.outMsg = true

theorem wfMeth_unpack (I : IState) (m : Meth) (h : I.wfMeth m = true) : MethParts I m := by
  simp only [IState.wfMeth, Bool.and_eq_true, List.all_eq_true, beq_iff_eq, List.contains_eq_mem,
    decide_eq_true_eq, Bool.or_eq_true, List.mem_cons, List.not_mem_nil, or_false, forall_eq_or_imp, forall_eq] at h
  obtain ⟨⟨⟨⟨h1, ⟨⟨h2a, h2b⟩, ⟨h3a, h3b⟩⟩⟩, _⟩, _⟩, h6⟩ := h
  exact ⟨h2a, h3a, h6, h1, h2b, h3b⟩

/-- the target namespace is written with a declared prefix -/
theorem declared_tns (I : IState) (hw : WfParts I) (tr rest : List String) (x : String) :
    Doc.declared ⟨(touchAll (Prefs.init I) tr).nsmap, (touchAll (touchAll (Prefs.init I) tr) rest).prefmap,
      I.tns, I.name, [], [], [], [], []⟩ ⟨I.tns, x⟩ = true := by
  obtain ⟨pf, h1, h2⟩ := declared_of_known (Prefs.init I) hw.prefsInv tr rest I.tns (Or.inl hw.knownTns)
  simp [Doc.declared, h1, h2]

theorem tns_lookup (I : IState) (hw : WfParts I) (tr rest : List String) :
    ∃ pf, (touchAll (touchAll (Prefs.init I) tr) rest).prefmap.lookup I.tns = some pf ∧
      (touchAll (Prefs.init I) tr).nsmap.lookup pf = some I.tns :=
  declared_of_known (Prefs.init I) hw.prefsInv tr rest I.tns (Or.inl hw.knownTns)

theorem mem_mnames_any (ms : List Msg) (x : String) (h : x ∈ ms.map (·.name)) : ms.any (fun m => m.name == x) = true := by
  obtain ⟨m, hm, rfl⟩ := List.mem_map.mp h
  exact List.any_eq_true.mpr ⟨m, hm, by simp⟩

/-- **message, portType and binding references resolve**: every `message=` of a portType operation or soap:header,
    every `type=` of a binding and every `binding=` of a port names a definition of the document -/
theorem wsdl_refs_closed_general (F : Facts07) (hF : F.headerMsgNs = .tns) (hM : F.messageDedup = .perDocument) (e : Enum) (I : IState) (url : String)
    (d : Doc) (h : gen F e I url = .ok d) (hwf : I.wf = true) :
    (∀ q ∈ d.msgRefs, d.msgDefined q = true) ∧ (∀ q ∈ d.portTypeRefs, d.portTypeDefined q = true) ∧
    (∀ q ∈ d.bindingRefs, d.bindingDefined q = true) := by
  obtain ⟨schemas, tr, _, rfl⟩ := gen_ok F hM e I url d h
  have hw := wf_unpack I hwf
  obtain ⟨pf, hp1, hp2⟩ := tns_lookup I hw tr
    ((messagesOf I).2 ++ (portTypesOf F I (stripWsdl url)).trace ++ (bindingsOf F I).trace)
  have hdecl : ∀ x, Doc.declared ⟨(touchAll (Prefs.init I) tr).nsmap,
      (touchAll (touchAll (Prefs.init I) tr)
        ((messagesOf I).2 ++ (portTypesOf F I (stripWsdl url)).trace ++ (bindingsOf F I).trace)).prefmap,
      I.tns, I.name, schemas, (messagesOf I).1, (portTypesOf F I (stripWsdl url)).services,
      (portTypesOf F I (stripWsdl url)).portTypes, (bindingsOf F I).bindings⟩ ⟨I.tns, x⟩ = true := by
    intro x
    simp only [Doc.declared]
    rw [hp1]
    simp [hp2]
  have hmsg : ∀ m ∈ allMethods I, _ := fun m hm => messagesLoop_has I (allMethods I) ([], []) m hm
  refine ⟨?_, ?_, ?_⟩
  · -- message references
    intro q hq
    simp only [Doc.msgRefs, List.mem_append, List.mem_flatMap] at hq
    rcases hq with ⟨pt, hpt, o, ho, hq⟩ | ⟨b, hb, o, ho, hq⟩
    · have hfrom := opsFrom_portTypesLoop F I (stripWsdl url) (allMethods I) I.services
        (fun s hs m hm => mem_allMethods I s hs m hm) ⟨[], servicesInit I, []⟩ (fun pt hpt => by cases hpt)
      obtain ⟨m, hm, rfl⟩ := hfrom pt hpt o ho
      have mp := wfMeth_unpack I m (hw.meth m hm)
      obtain ⟨h1, h2, h3, _, _⟩ := hmsg m hm
      simp only [Op.msgRefs, mkOp, List.mem_append, List.mem_cons, List.not_mem_nil, or_false, List.mem_map] at hq
      rcases hq with (rfl | rfl) | ⟨f, ⟨f', hf', rfl⟩, rfl⟩
      · have := hdecl (I.cls m.inMsg).elemName
        simp only [Doc.msgDefined, elemQN, mp.inNs, this, beq_self_eq_true, Bool.true_and]
        exact mem_mnames_any _ _ h1
      · have := hdecl (I.cls m.outMsg).elemName
        simp only [Doc.msgDefined, elemQN, mp.outNs, this, beq_self_eq_true, Bool.true_and]
        exact mem_mnames_any _ _ h2
      · have := hdecl (I.cls f').tn
        simp only [Doc.msgDefined, hw.faultTns m hm f' hf', this, beq_self_eq_true, Bool.true_and]
        exact mem_mnames_any _ _ (h3 f' hf')
    · have hfrom := bindingsLoop_from F I (allMethods I) I.services
        (fun s hs m hm => mem_allMethods I s hs m hm) ⟨[], false, []⟩ (fun b hb => by cases hb)
      obtain ⟨m, hm, rfl⟩ := hfrom b hb o ho
      obtain ⟨_, _, _, h4, h5⟩ := hmsg m hm
      simp only [BOp.msgRefs, mkBOp, List.map_append, List.mem_append, List.mem_map] at hq
      rcases hq with ⟨bh, hbh, rfl⟩ | ⟨bh, hbh, rfl⟩
      · cases hh : m.inHeader with
        | none => rw [hh] at hbh; simp [bHeaders] at hbh
        | some hs =>
          rw [hh] at hbh
          simp only [bHeaders, List.mem_map] at hbh
          obtain ⟨x, _, rfl⟩ := hbh
          have := hdecl (headerMsgName I m hs "InHeaderMsg")
          simp only [Doc.msgDefined, headerRefNs, hF, this, beq_self_eq_true, Bool.true_and]
          exact mem_mnames_any _ _ (h4 hs hh)
      · cases hh : m.outHeader with
        | none => rw [hh] at hbh; simp [bHeaders] at hbh
        | some hs =>
          rw [hh] at hbh
          simp only [bHeaders, List.mem_map] at hbh
          obtain ⟨x, _, rfl⟩ := hbh
          have := hdecl (headerMsgName I m hs "OutHeaderMsg")
          simp only [Doc.msgDefined, headerRefNs, hF, this, beq_self_eq_true, Bool.true_and]
          exact mem_mnames_any _ _ (h5 hs hh)
  · -- binding/@type
    intro q hq
    simp only [Doc.portTypeRefs, List.mem_map] at hq
    obtain ⟨b, hb, rfl⟩ := hq
    obtain ⟨ht, s, hs, hn⟩ := bindingsLoop_wf F I I.services (fun _ h => h) ⟨[], false, []⟩ (fun b hb => by cases hb) b hb
    have hmem : b.name ∈ ptNames (portTypesOf F I (stripWsdl url)).portTypes := by
      simp only [portTypesOf]
      rw [mem_ptNames_portTypesLoop]
      exact Or.inr ⟨s, hs, hn⟩
    have := hdecl b.name
    rw [ht]
    simp only [Doc.portTypeDefined, this, beq_self_eq_true, Bool.true_and]
    obtain ⟨pt, hpt, hptn⟩ := List.mem_map.mp hmem
    exact List.any_eq_true.mpr ⟨pt, hpt, by simp [hptn]⟩
  · -- port/@binding
    intro q hq
    simp only [Doc.bindingRefs, List.mem_flatMap, List.mem_map] at hq
    obtain ⟨sv, hsv, p, hp, rfl⟩ := hq
    have hpf := portsFrom_portTypesLoop F I (stripWsdl url) I.services (fun _ h => h) ⟨[], servicesInit I, []⟩
      (portsFrom_servicesInit I)
    obtain ⟨hbq, s, hs, hn⟩ := hpf sv hsv p hp
    have hmem : p.name ∈ bNames (bindingsOf F I).bindings :=
      bindingsLoop_names F I I.services ⟨[], false, []⟩ (cbInv_init I) s hs p.name hn
    have := hdecl p.name
    rw [hbq]
    simp only [Doc.bindingDefined, this, beq_self_eq_true, Bool.true_and]
    obtain ⟨b, hb, hbn⟩ := List.mem_map.mp hmem
    exact List.any_eq_true.mpr ⟨b, hb, by simp [hbn]⟩

end SpyneModel.Wsdl
