/-
  Schema-independent facts about member kinds (no well-formedness of values or documents needed):
  an attribute / data member is never written as a child element and an element member never as an
  attribute; while reading, child elements never touch the slots of attribute / data members and the
  element's attributes never touch the slots of element / data members.
-/
import Proofs.XmlAttrBasic
namespace SpyneModel
namespace Xml

/-! ### writing -/

/-- the element written for an object: its child elements are named after ELEMENT members only, its
    attributes after ATTRIBUTE members only (or are the `xsi:nil` marker) -/
theorem toParentA_kinds (F : Facts08) (tns ns name cname cns : Text) (cb : Option Text)
    (fields : List (Text × MKind × TyA)) (o : Occ) (hnd : namesNodupA fields = true) (cls : Text) (vs : List (Text × Val)) :
    ∃ attrs text children, toParentA F tns ns name (.obj cname cns cb fields o) (.obj cls vs) = [.elem ns name attrs text children] ∧
      (∀ c ∈ children, c.name ∈ namesOfKind .element fields ∧ c.name ∉ namesOfKind .attribute fields ∧
        c.name ∉ namesOfKind .data fields) ∧
      (∀ a ∈ attrs, a.1 = xsiNilKey ∨ (a.1 ∈ namesOfKind .attribute fields ∧ a.1 ∉ namesOfKind .element fields ∧
        a.1 ∉ namesOfKind .data fields)) := by
  refine ⟨_, _, _, rfl, ?_, ?_⟩
  · intro c hc
    rw [membersA_children] at hc
    have h := elemNodesA_names F tns cns fields vs c (by simpa using hc)
    exact ⟨h, namesOfKind_disjoint fields hnd _ _ _ (by simp) h, namesOfKind_disjoint fields hnd _ _ _ (by simp) h⟩
  · intro a ha
    rw [membersA_attrs] at ha
    rcases attrPairsA_keys F fields vs a (by simpa using ha) with h | h
    · right
      exact ⟨h, namesOfKind_disjoint fields hnd _ _ _ (by simp) h, namesOfKind_disjoint fields hnd _ _ _ (by simp) h⟩
    · left; exact h

/-! ### reading -/

theorem stGet_stSet_ne : (st : List (Text × Val)) → (k k' : Text) → (v : Val) → k ≠ k' →
    stGet (stSet st k' v) k = stGet st k
  | [], _, _, _, _ => rfl
  | (k0, x) :: r, k, k', v, h => by
    simp only [stSet]
    split
    · rename_i h0
      have : (k == k0) = false := by simp [h0, h]
      simp [stGet, List.lookup, this]
    · have ih := stGet_stSet_ne r k k' v h
      simp only [stGet, List.lookup] at ih ⊢
      cases (k == k0) <;> simp_all

theorem stGet_stAppend_ne (st : List (Text × Val)) (k k' : Text) (v : Val) (h : k ≠ k') :
    stGet (stAppend st k' v) k = stGet st k := by
  unfold stAppend
  split <;> exact stGet_stSet_ne st k k' _ h

theorem attrPass_keeps (F : Facts08) (A : FactsAttr) (cfg : Cfg) (fields : List (Text × MKind × TyA)) (k : Text)
    (kind : MKind) (t : TyA) (hk : lookupA fields k = some (kind, t)) (hne : kind ≠ .attribute) :
    (as : List (Text × Text)) → (st st' : List (Text × Val)) → attrPass F A cfg fields as st = .ok st' →
    stGet st' k = stGet st k
  | [], st, st', h => by simp only [attrPass] at h; cases h; rfl
  | (key, s) :: as, st, st', h => by
    unfold attrPass at h
    split at h
    · rename_i p o hl
      split at h
      · rename_i v hv
        have hkk : k ≠ key := by
          intro e; subst e
          rw [hk] at hl
          exact hne (by cases hl; rfl)
        rw [attrPass_keeps F A cfg fields k kind t hk hne as _ st' h, stGet_stSet_ne st k key v hkk]
      · cases h
      · cases h
    · exact attrPass_keeps F A cfg fields k kind t hk hne as st st' h

theorem dataPass_keeps (F : Facts08) (A : FactsAttr) (cfg : Cfg) (text : Option Text) (allFields : List (Text × MKind × TyA))
    (k : Text) (kind : MKind) (t : TyA) (hk : lookupA allFields k = some (kind, t)) (hne : kind ≠ .data)
    (fs : List (Text × MKind × TyA)) : (∀ f ∈ fs, lookupA allFields f.1 = some f.2) →
    ∀ (st st' : List (Text × Val)), dataPass F A cfg text fs st = .ok st' → stGet st' k = stGet st k := by
  induction fs with
  | nil => intro _ st st' h; simp only [dataPass] at h; cases h; rfl
  | cons f fs ih =>
    intro hsub st st' h
    have ih' := ih (fun g hg => hsub g (List.mem_cons_of_mem _ hg))
    obtain ⟨k0, kind0, t0⟩ := f
    have hlk := hsub (k0, kind0, t0) List.mem_cons_self
    cases kind0 <;> cases t0 <;> simp only [dataPass] at h
    all_goals first
      | exact ih' st st' h
      | skip
    split at h
    · exact ih' st st' h
    · split at h
      · rename_i s v hv
        have hkk : k ≠ k0 := by
          intro e; subst e
          simp only at hlk
          rw [hk] at hlk
          exact hne (by cases hlk; rfl)
        rw [ih' _ st' h, stGet_stSet_ne st k k0 v hkk]
      · cases h
      · cases h

/-- with the child-attribute loop gone, reading the child elements leaves attribute and data members alone -/
theorem childLoopA_keeps (F : Facts08) (X : FactsXml) (A : FactsAttr) (hA : A.childAttrsIgnored = true) (cfg : Cfg)
    (I : IfaceA) (fields : List (Text × MKind × TyA)) (k : Text) (kind : MKind) (t : TyA)
    (hk : lookupA fields k = some (kind, t)) (hne : kind ≠ .element) :
    (cs : List Node) → (st st' : List (Text × Val)) → childLoopA F X A cfg I fields cs st = .ok st' →
    stGet st' k = stGet st k
  | [], st, st', h => by simp only [childLoopA] at h; cases h; rfl
  | c :: cs, st, st', h => by
    unfold childLoopA at h
    split at h
    · exact childLoopA_keeps F X A hA cfg I fields k kind t hk hne cs st st' h
    · rename_i mt hl
      have hkk : k ≠ c.name := by
        intro e
        rw [← e, hk] at hl
        exact hne (by cases hl; rfl)
      split at h
      · rename_i v hv
        simp only [childAttrLeak, hA, if_true] at h
        rw [childLoopA_keeps F X A hA cfg I fields k kind t hk hne cs _ st' h]
        split
        · exact stGet_stAppend_ne st k c.name v hkk
        · exact stGet_stSet_ne st k c.name v hkk
      · cases h
      · cases h
    · split at h
      · exact childLoopA_keeps F X A hA cfg I fields k kind t hk hne cs st st' h
      · cases h

/-- `xsi:nil` wins over everything else an element carries: attributes, text, children -/
theorem nil_with_attributes (F : Facts08) (X : FactsXml) (A : FactsAttr) (cfg : Cfg) (I : IfaceA) (t : TyA)
    (ns name : Text) (attrs : List (Text × Text)) (text : Option Text) (children : List Node)
    (hnil : isNil X attrs = true) :
    fromElementA F X A cfg I t (.elem ns name attrs text children) =
      (if cfg.soft && !t.occ.nillable then .fault else .ok .none) := by
  rw [fromElementA]
  simp [hnil]

end Xml
end SpyneModel
