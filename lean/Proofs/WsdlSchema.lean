/- C07: invariants of the schema phase (`XmlSchema.add` over the toposorted classes). -/
import Proofs.WsdlTop
namespace SpyneModel.Wsdl
open SpyneModel

/-! ## odicts -/

theorem mem_upsert {κ β : Type} [DecidableEq κ] (k : κ) (v : β) (l : List (κ × β)) (kv : κ × β)
    (h : kv ∈ upsert k v l) : kv = (k, v) ∨ kv ∈ l := by
  induction l with
  | nil => simp [upsert] at h; exact Or.inl h
  | cons x r ih =>
    simp only [upsert] at h
    split at h
    · rcases List.mem_cons.mp h with h | h
      · exact Or.inl h
      · exact Or.inr (List.mem_cons_of_mem _ h)
    · rcases List.mem_cons.mp h with h | h
      · exact Or.inr (h ▸ List.mem_cons_self)
      · rcases ih h with h | h
        · exact Or.inl h
        · exact Or.inr (List.mem_cons_of_mem _ h)

theorem keys_upsert {κ β : Type} [DecidableEq κ] (k : κ) (v : β) (l : List (κ × β)) (x : κ) :
    x ∈ (upsert k v l).map (·.1) ↔ x = k ∨ x ∈ l.map (·.1) := by
  induction l with
  | nil => simp [upsert]
  | cons y r ih =>
    simp only [upsert]
    split
    · rename_i heq
      simp only [List.map_cons, List.mem_cons]
      constructor
      · rintro (h | h)
        · exact Or.inl h
        · exact Or.inr (Or.inr h)
      · rintro (h | h | h)
        · exact Or.inl h
        · exact Or.inl (h.trans heq)
        · exact Or.inr h
    · simp only [List.map_cons, List.mem_cons, ih]
      constructor
      · rintro (h | h | h)
        · exact Or.inr (Or.inl h)
        · exact Or.inl h
        · exact Or.inr (Or.inr h)
      · rintro (h | h | h)
        · exact Or.inr (Or.inl h)
        · exact Or.inl h
        · exact Or.inr (Or.inr h)

/-- where an entry of the updated table comes from -/
theorem mem_modifyInfo (ns : String) (f : SInfo → SInfo) (infos : List (String × SInfo)) (kv : String × SInfo)
    (h : kv ∈ modifyInfo ns f infos) :
    kv ∈ infos ∨ (kv.1 = ns ∧ ∃ old, (old = ⟨[], []⟩ ∨ (ns, old) ∈ infos) ∧ kv.2 = f old) := by
  induction infos with
  | nil =>
    simp only [modifyInfo, List.mem_singleton] at h
    subst h
    exact Or.inr ⟨rfl, ⟨[], []⟩, Or.inl rfl, rfl⟩
  | cons x r ih =>
    simp only [modifyInfo] at h
    split at h
    · rename_i heq
      rcases List.mem_cons.mp h with h | h
      · subst h
        refine Or.inr ⟨rfl, x.2, Or.inr ?_, rfl⟩
        rw [← heq]
        exact List.mem_cons_self
      · exact Or.inl (List.mem_cons_of_mem _ h)
    · rcases List.mem_cons.mp h with h | h
      · exact Or.inl (h ▸ List.mem_cons_self)
      · rcases ih h with h | ⟨h1, old, h2, h3⟩
        · exact Or.inl (List.mem_cons_of_mem _ h)
        · refine Or.inr ⟨h1, old, ?_, h3⟩
          rcases h2 with h2 | h2
          · exact Or.inl h2
          · exact Or.inr (List.mem_cons_of_mem _ h2)

/-- every old entry survives, possibly updated -/
theorem modifyInfo_keeps (ns : String) (f : SInfo → SInfo) (infos : List (String × SInfo)) (ns' : String) (info : SInfo)
    (h : (ns', info) ∈ infos) :
    (ns', info) ∈ modifyInfo ns f infos ∨ (ns' = ns ∧ (ns, f info) ∈ modifyInfo ns f infos) := by
  induction infos with
  | nil => cases h
  | cons x r ih =>
    simp only [modifyInfo]
    split
    · rename_i heq
      rcases List.mem_cons.mp h with h | h
      · subst h
        exact Or.inr ⟨heq, List.mem_cons_self⟩
      · exact Or.inl (List.mem_cons_of_mem _ h)
    · rcases List.mem_cons.mp h with h | h
      · exact Or.inl (h ▸ List.mem_cons_self)
      · rcases ih h with h | ⟨h1, h2⟩
        · exact Or.inl (List.mem_cons_of_mem _ h)
        · exact Or.inr ⟨h1, List.mem_cons_of_mem _ h2⟩

/-- the updated namespace has an entry -/
theorem modifyInfo_has (ns : String) (f : SInfo → SInfo) (infos : List (String × SInfo)) :
    ∃ old, (ns, f old) ∈ modifyInfo ns f infos := by
  induction infos with
  | nil => exact ⟨⟨[], []⟩, by simp [modifyInfo]⟩
  | cons x r ih =>
    simp only [modifyInfo]
    split
    · exact ⟨x.2, List.mem_cons_self⟩
    · obtain ⟨old, h⟩ := ih
      exact ⟨old, List.mem_cons_of_mem _ h⟩

/-! ## what the tables hold -/

def HasType (infos : List (String × SInfo)) (ns tn : String) : Prop :=
  ∃ info, (ns, info) ∈ infos ∧ tn ∈ info.types.map (·.1)

def HasElem (infos : List (String × SInfo)) (ns n : String) : Prop :=
  ∃ info, (ns, info) ∈ infos ∧ n ∈ info.elements.map (·.1)

/-- the state only grows -/
structure Le (a b : SSt) : Prop where
  tags : ∀ j ∈ a.tags, j ∈ b.tags
  trace : ∀ x ∈ a.trace, x ∈ b.trace
  types : ∀ ns tn, HasType a.infos ns tn → HasType b.infos ns tn
  elems : ∀ ns n, HasElem a.infos ns n → HasElem b.infos ns n

theorem Le.refl (a : SSt) : Le a a := ⟨fun _ h => h, fun _ h => h, fun _ _ h => h, fun _ _ h => h⟩

theorem Le.trans {a b c : SSt} (h1 : Le a b) (h2 : Le b c) : Le a c :=
  ⟨fun j h => h2.tags j (h1.tags j h), fun x h => h2.trace x (h1.trace x h),
   fun ns tn h => h2.types ns tn (h1.types ns tn h), fun ns n h => h2.elems ns n (h1.elems ns n h)⟩

theorem le_touch (st : SSt) (ns : String) : Le st (st.touch ns) :=
  ⟨fun _ h => h, fun x h => List.mem_append_left _ h, fun _ _ h => h, fun _ _ h => h⟩

theorem le_touchOpt (st : SSt) (I : IState) (o : Option Nat) : Le st (st.touchOpt I o) := by
  cases o with
  | none => exact Le.refl st
  | some b => exact le_touch st _

theorem le_tag (st : SSt) (i : Nat) : Le st { st with tags := i :: st.tags } :=
  ⟨fun j h => List.mem_cons_of_mem _ h, fun _ h => h, fun _ _ h => h, fun _ _ h => h⟩

theorem le_trace (st : SSt) (l : List String) : Le st { st with trace := st.trace ++ l } :=
  ⟨fun _ h => h, fun x h => List.mem_append_left _ h, fun _ _ h => h, fun _ _ h => h⟩

theorem hasType_modify_types (infos : List (String × SInfo)) (ns tn k : String) (node : TypeDef) (ns' : String)
    (h : HasType infos ns tn) :
    HasType (modifyInfo ns' (fun i => { i with types := upsert k node i.types }) infos) ns tn := by
  obtain ⟨info, hi, ht⟩ := h
  rcases modifyInfo_keeps ns' _ infos ns info hi with h | ⟨h1, h2⟩
  · exact ⟨info, h, ht⟩
  · subst h1
    exact ⟨_, h2, (keys_upsert k node info.types tn).mpr (Or.inr ht)⟩

theorem hasElem_modify_types (infos : List (String × SInfo)) (ns n k : String) (node : TypeDef) (ns' : String)
    (h : HasElem infos ns n) :
    HasElem (modifyInfo ns' (fun i => { i with types := upsert k node i.types }) infos) ns n := by
  obtain ⟨info, hi, ht⟩ := h
  rcases modifyInfo_keeps ns' _ infos ns info hi with h | ⟨h1, h2⟩
  · exact ⟨info, h, ht⟩
  · subst h1
    exact ⟨_, h2, ht⟩

theorem hasType_modify_elems (infos : List (String × SInfo)) (ns tn k : String) (node : ElemDecl) (ns' : String)
    (h : HasType infos ns tn) :
    HasType (modifyInfo ns' (fun i => { i with elements := upsert k node i.elements }) infos) ns tn := by
  obtain ⟨info, hi, ht⟩ := h
  rcases modifyInfo_keeps ns' _ infos ns info hi with h | ⟨h1, h2⟩
  · exact ⟨info, h, ht⟩
  · subst h1
    exact ⟨_, h2, ht⟩

theorem hasElem_modify_elems (infos : List (String × SInfo)) (ns n k : String) (node : ElemDecl) (ns' : String)
    (h : HasElem infos ns n) :
    HasElem (modifyInfo ns' (fun i => { i with elements := upsert k node i.elements }) infos) ns n := by
  obtain ⟨info, hi, ht⟩ := h
  rcases modifyInfo_keeps ns' _ infos ns info hi with h | ⟨h1, h2⟩
  · exact ⟨info, h, ht⟩
  · subst h1
    exact ⟨_, h2, (keys_upsert k node info.elements n).mpr (Or.inr ht)⟩

theorem le_addType (st : SSt) (c : Cls) (node : TypeDef) : Le st (addType st c node) :=
  ⟨fun _ h => h, fun x h => List.mem_append_left _ h,
   fun ns tn h => hasType_modify_types st.infos ns tn c.tn node c.ns h,
   fun ns n h => hasElem_modify_types st.infos ns n c.tn node c.ns h⟩

theorem le_addElement (tns : String) (st : SSt) (c : Cls) (node : ElemDecl) : Le st (addElement tns st c node) :=
  ⟨fun _ h => h, fun x h => List.mem_append_left _ h,
   fun ns tn h => hasType_modify_elems st.infos ns tn c.elemName node (c.elemNs tns) h,
   fun ns n h => hasElem_modify_elems st.infos ns n c.elemName node (c.elemNs tns) h⟩

theorem addType_has (st : SSt) (c : Cls) (node : TypeDef) :
    HasType (addType st c node).infos c.ns c.tn ∧ c.ns ∈ (addType st c node).trace := by
  refine ⟨?_, by simp [addType]⟩
  obtain ⟨old, h⟩ := modifyInfo_has c.ns (fun i => { i with types := upsert c.tn node i.types }) st.infos
  exact ⟨_, h, (keys_upsert c.tn node old.types c.tn).mpr (Or.inl rfl)⟩

theorem addElement_has (tns : String) (st : SSt) (c : Cls) (node : ElemDecl) :
    HasElem (addElement tns st c node).infos (c.elemNs tns) c.elemName ∧ c.elemNs tns ∈ (addElement tns st c node).trace := by
  refine ⟨?_, by simp [addElement]⟩
  obtain ⟨old, h⟩ := modifyInfo_has (c.elemNs tns) (fun i => { i with elements := upsert c.elemName node i.elements }) st.infos
  exact ⟨_, h, (keys_upsert c.elemName node old.elements c.elemName).mpr (Or.inl rfl)⟩

/-! ## the invariant of `XmlSchema.add` -/

/-- class `j` has been rendered completely -/
def Done (I : IState) (st : SSt) (j : Nat) : Prop :=
  (I.cls j).kind = .builtin ∨
  (HasType st.infos (I.cls j).ns (I.cls j).tn ∧ (I.cls j).ns ∈ st.trace ∧
   ((I.cls j).kind = .complex →
      HasElem st.infos ((I.cls j).elemNs I.tns) (I.cls j).elemName ∧ (I.cls j).elemNs I.tns ∈ st.trace ∧
      (∀ f ∈ (I.cls j).fields, f.isAttr = false → f.isData = false → f.ty ∈ st.tags) ∧
      (∀ f ∈ (I.cls j).fields, f.isData = true → f.inner ∈ st.tags)))

theorem Done.mono {I : IState} {a b : SSt} (h : Le a b) {j : Nat} (hd : Done I a j) : Done I b j := by
  rcases hd with hd | ⟨h1, h2, h3⟩
  · exact Or.inl hd
  · refine Or.inr ⟨h.types _ _ h1, h.trace _ h2, fun hc => ?_⟩
    obtain ⟨e1, e2, e3, e4⟩ := h3 hc
    exact ⟨h.elems _ _ e1, h.trace _ e2, fun f hf ha hd => h.tags _ (e3 f hf ha hd), fun f hf hd => h.tags _ (e4 f hf hd)⟩

/-- every tagged class is rendered, except those whose handler is still running (`P`) -/
def Q (I : IState) (P : List Nat) (st : SSt) : Prop := ∀ j ∈ st.tags, j ∈ P ∨ Done I st j

theorem Q.mono {I : IState} {P : List Nat} {a b : SSt} (h : Le a b) (hq : Q I P a) (hsame : ∀ j ∈ b.tags, j ∈ a.tags) :
    Q I P b := by
  intro j hj
  rcases hq j (hsame j hj) with h1 | h1
  · exact Or.inl h1
  · exact Or.inr (h1.mono h)

/-- the acyclic numbering of the class table, as far as `add` needs it -/
def Ranked (I : IState) : Prop :=
  ∀ i, i < I.classes.length → ∀ f ∈ (I.cls i).fields,
    (f.isAttr = false → f.isData = false → f.ty < i) ∧ (f.isData = true → f.inner < i)

theorem fieldsLoop_spec (I : IState) (rec : Nat → SSt → SSt) (P : List Nat) (fs : List Field)
    (hrec : ∀ f ∈ fs, f.isAttr = false → f.isData = false → ∀ st, Q I P st →
      (Q I P (rec f.ty st) ∧ Le st (rec f.ty st) ∧ f.ty ∈ (rec f.ty st).tags))
    (st : SSt) (hq : Q I P st) :
    Q I P (fieldsLoop I rec fs st) ∧ Le st (fieldsLoop I rec fs st) ∧
    ∀ f ∈ fs, f.isAttr = false → f.isData = false → f.ty ∈ (fieldsLoop I rec fs st).tags := by
  induction fs generalizing st with
  | nil => exact ⟨hq, Le.refl st, fun f hf => by cases hf⟩
  | cons f fs ih =>
    simp only [fieldsLoop]
    by_cases ha : (f.isAttr || f.isData) = true
    · simp only [ha, if_true]
      obtain ⟨q1, l1, t1⟩ := ih (fun g hg => hrec g (List.mem_cons_of_mem _ hg)) st hq
      refine ⟨q1, l1, ?_⟩
      intro g hg hga hgd
      rcases List.mem_cons.mp hg with rfl | hg
      · simp [hga, hgd] at ha
      · exact t1 g hg hga hgd
    · have ha' : f.isAttr = false ∧ f.isData = false := by simpa using ha
      simp only [ha, Bool.false_eq_true, if_false]
      obtain ⟨q0, l0, t0⟩ := hrec f List.mem_cons_self ha'.1 ha'.2 st hq
      have q0' : Q I P ((rec f.ty st).touch (I.cls f.ty).ns) :=
        Q.mono (le_touch _ _) q0 (fun j hj => hj)
      obtain ⟨q1, l1, t1⟩ := ih (fun g hg => hrec g (List.mem_cons_of_mem _ hg)) _ q0'
      refine ⟨q1, (l0.trans (le_touch _ _)).trans l1, ?_⟩
      intro g hg hga hgd
      rcases List.mem_cons.mp hg with rfl | hg
      · exact l1.tags _ t0
      · exact t1 g hg hga hgd

theorem dataLoop_spec (I : IState) (rec : Nat → SSt → SSt) (P : List Nat) (fs : List Field)
    (hrec : ∀ f ∈ fs, f.isData = true → ∀ st, Q I P st →
      (Q I P (rec f.inner st) ∧ Le st (rec f.inner st) ∧ f.inner ∈ (rec f.inner st).tags))
    (st : SSt) (hq : Q I P st) :
    Q I P (dataLoop I rec fs st) ∧ Le st (dataLoop I rec fs st) ∧
    ∀ f ∈ fs, f.isData = true → f.inner ∈ (dataLoop I rec fs st).tags := by
  induction fs generalizing st with
  | nil => exact ⟨hq, Le.refl st, fun f hf => by cases hf⟩
  | cons f fs ih =>
    simp only [dataLoop]
    by_cases hd : f.isData = true
    · simp only [hd, if_true]
      obtain ⟨q0, l0, t0⟩ := hrec f List.mem_cons_self hd st hq
      have q0' : Q I P ((rec f.inner st).touch (I.cls f.inner).ns) :=
        Q.mono (le_touch _ _) q0 (fun j hj => hj)
      obtain ⟨q1, l1, t1⟩ := ih (fun g hg => hrec g (List.mem_cons_of_mem _ hg)) _ q0'
      refine ⟨q1, (l0.trans (le_touch _ _)).trans l1, ?_⟩
      intro g hg hgd
      rcases List.mem_cons.mp hg with rfl | hg
      · exact l1.tags _ t0
      · exact t1 g hg hgd
    · simp only [hd, Bool.false_eq_true, if_false]
      obtain ⟨q1, l1, t1⟩ := ih (fun g hg => hrec g (List.mem_cons_of_mem _ hg)) st hq
      refine ⟨q1, l1, ?_⟩
      intro g hg hgd
      rcases List.mem_cons.mp hg with rfl | hg
      · exact absurd hgd hd
      · exact t1 g hg hgd

/-- **`add` renders the class and everything its members need**, whatever is still pending -/
theorem addCls_spec (I : IState) (hr : Ranked I) (fuel : Nat) :
    ∀ (i : Nat), i < fuel → fuel ≤ I.classes.length → ∀ (P : List Nat) (st : SSt), Q I P st →
      Q I P (addCls I fuel i st) ∧ Le st (addCls I fuel i st) ∧ i ∈ (addCls I fuel i st).tags := by
  induction fuel with
  | zero => intro i hi; cases hi
  | succ fuel ih =>
    intro i hi hlen P st hq
    simp only [addCls]
    by_cases ht : st.tags.contains i = true
    · simp only [ht, if_true]
      exact ⟨hq, Le.refl st, by simpa using ht⟩
    · simp only [ht, Bool.false_eq_true, if_false]
      have hq1 : Q I (i :: P) { st with tags := i :: st.tags } := by
        intro j hj
        rcases List.mem_cons.mp hj with rfl | hj
        · exact Or.inl List.mem_cons_self
        · rcases hq j hj with h | h
          · exact Or.inl (List.mem_cons_of_mem _ h)
          · exact Or.inr (h.mono (le_tag st i))
      -- closing the handler: everything but `i` is already accounted for
      have close : ∀ (st' : SSt), Q I (i :: P) st' → Done I st' i → Q I P st' := by
        intro st' hq' hd j hj
        rcases hq' j hj with h | h
        · rcases List.mem_cons.mp h with rfl | h
          · exact Or.inr hd
          · exact Or.inl h
        · exact Or.inr h
      cases hk : (I.cls i).kind with
      | builtin =>
        simp only
        refine ⟨close _ hq1 (Or.inl hk), le_tag st i, List.mem_cons_self⟩
      | simple =>
        simp only
        have l1 := le_addType { st with tags := i :: st.tags } (I.cls i) (nodeOf I (I.cls i))
        have l2 := le_touchOpt (addType { st with tags := i :: st.tags } (I.cls i) (nodeOf I (I.cls i))) I (I.cls i).ext
        have hh := addType_has { st with tags := i :: st.tags } (I.cls i) (nodeOf I (I.cls i))
        have hsame : ∀ j ∈ ((addType { st with tags := i :: st.tags } (I.cls i) (nodeOf I (I.cls i))).touchOpt I (I.cls i).ext).tags,
            j ∈ ({ st with tags := i :: st.tags } : SSt).tags := by
          intro j hj
          cases he : (I.cls i).ext <;> simpa [SSt.touchOpt, he, SSt.touch, addType] using hj
        refine ⟨close _ (Q.mono (l1.trans l2) hq1 hsame) ?_, (le_tag st i).trans (l1.trans l2), ?_⟩
        · refine Or.inr ⟨l2.types _ _ hh.1, l2.trace _ hh.2, fun hc => ?_⟩
          rw [hk] at hc; cases hc
        · exact (l1.trans l2).tags _ List.mem_cons_self
      | enum =>
        simp only
        have l1 := le_touch { st with tags := i :: st.tags } "http://www.w3.org/2001/XMLSchema"
        have l2 := le_addType (({ st with tags := i :: st.tags } : SSt).touch "http://www.w3.org/2001/XMLSchema") (I.cls i) (nodeOf I (I.cls i))
        have hh := addType_has (({ st with tags := i :: st.tags } : SSt).touch "http://www.w3.org/2001/XMLSchema") (I.cls i) (nodeOf I (I.cls i))
        refine ⟨close _ (Q.mono (l1.trans l2) hq1 (fun j hj => by simpa [addType, SSt.touch] using hj)) ?_,
          (le_tag st i).trans (l1.trans l2), ?_⟩
        · refine Or.inr ⟨hh.1, hh.2, fun hc => ?_⟩
          rw [hk] at hc; cases hc
        · exact (l1.trans l2).tags _ List.mem_cons_self
      | complex =>
        simp only
        have hi' : i < I.classes.length := Nat.lt_of_lt_of_le hi hlen
        have l0 := le_touchOpt { st with tags := i :: st.tags } I (I.cls i).ext
        have q0 : Q I (i :: P) (({ st with tags := i :: st.tags } : SSt).touchOpt I (I.cls i).ext) :=
          Q.mono l0 hq1 (fun j hj => by cases he : (I.cls i).ext <;> simpa [SSt.touchOpt, he, SSt.touch] using hj)
        obtain ⟨qd, ld, td⟩ := dataLoop_spec I (addCls I fuel) (i :: P) (I.cls i).fields
          (fun f hf hd st' hq' => ih f.inner (by have := (hr i hi' f hf).2 hd; omega) (by omega) (i :: P) st' hq') _ q0
        obtain ⟨q1, l1', t1⟩ := fieldsLoop_spec I (addCls I fuel) (i :: P) (I.cls i).fields
          (fun f hf ha hd st' hq' => ih f.ty (by have := (hr i hi' f hf).1 ha hd; omega) (by omega) (i :: P) st' hq') _ qd
        have l1 := ld.trans l1'
        have td' : ∀ f ∈ (I.cls i).fields, f.isData = true → f.inner ∈ (fieldsLoop I (addCls I fuel) (I.cls i).fields
            (dataLoop I (addCls I fuel) (I.cls i).fields
              (({ st with tags := i :: st.tags } : SSt).touchOpt I (I.cls i).ext))).tags :=
          fun f hf hd => l1'.tags _ (td f hf hd)
        -- the rest of the handler
        generalize hS : fieldsLoop I (addCls I fuel) (I.cls i).fields
          (dataLoop I (addCls I fuel) (I.cls i).fields
            (({ st with tags := i :: st.tags } : SSt).touchOpt I (I.cls i).ext)) = S at q1 l1 t1 td'
        have l2 := le_trace S (attrTrace I (I.cls i).fields)
        have l3 := le_addType { S with trace := S.trace ++ attrTrace I (I.cls i).fields } (I.cls i) (nodeOf I (I.cls i))
        have h3 := addType_has { S with trace := S.trace ++ attrTrace I (I.cls i).fields } (I.cls i) (nodeOf I (I.cls i))
        generalize hS3 : addType { S with trace := S.trace ++ attrTrace I (I.cls i).fields } (I.cls i) (nodeOf I (I.cls i)) = S3 at l3 h3
        have l4 := le_touch S3 (I.cls i).ns
        have l5 := le_addElement I.tns (S3.touch (I.cls i).ns) (I.cls i) ⟨(I.cls i).elemName, typeQN (I.cls i)⟩
        have h5 := addElement_has I.tns (S3.touch (I.cls i).ns) (I.cls i) ⟨(I.cls i).elemName, typeQN (I.cls i)⟩
        have lall : Le S (addElement I.tns (S3.touch (I.cls i).ns) (I.cls i) ⟨(I.cls i).elemName, typeQN (I.cls i)⟩) :=
          l2.trans (l3.trans (l4.trans l5))
        have hsame : ∀ j ∈ (addElement I.tns (S3.touch (I.cls i).ns) (I.cls i) ⟨(I.cls i).elemName, typeQN (I.cls i)⟩).tags,
            j ∈ S.tags := by
          intro j hj
          rw [← hS3] at hj
          simpa [addElement, SSt.touch, addType] using hj
        refine ⟨close _ (Q.mono lall q1 hsame) ?_, ((le_tag st i).trans (l0.trans l1)).trans lall, ?_⟩
        · refine Or.inr ⟨(l4.trans l5).types _ _ h3.1, (l4.trans l5).trace _ h3.2, fun _ => ⟨h5.1, h5.2, ?_, ?_⟩⟩
          · intro f hf ha hd
            exact lall.tags _ (t1 f hf ha hd)
          · intro f hf hd
            exact lall.tags _ (td' f hf hd)
        · exact lall.tags _ (l1.tags _ (l0.tags _ List.mem_cons_self))

end SpyneModel.Wsdl
