/-
  The model with member kinds (SpyneModel/XmlAttr.lean) restricted to the element-only universe IS the
  model of SpyneModel/Xml.lean: on `TyA.ofTy t` / `IfaceA.ofIface I` the decoder and the (non-polymorphic)
  encoder compute the same results, whatever the attribute switches. So every theorem of Props/C01 … C16
  about `fromElement` / `toParent` is a statement about `fromElementA` / `toParentA` on these types.
-/
import Proofs.XmlAttrBasic
import Proofs.XmlRoundtrip
namespace SpyneModel
namespace Xml

theorem occ_ofTy (t : Ty) : (TyA.ofTy t).occ = t.occ := by
  cases t <;> simp [TyA.ofTy, TyA.occ, Ty.occ]

theorem lookupA_ofFields : (fs : List (Text × Ty)) → (k : Text) →
    lookupA (TyA.ofFields fs) k = (lookupField fs k).map (fun t => (MKind.element, TyA.ofTy t))
  | [], k => by simp [TyA.ofFields, lookupA, lookupField, List.lookup]
  | (k0, t0) :: fs, k => by
    have ih := lookupA_ofFields fs k
    simp only [lookupA, lookupField] at ih
    simp only [TyA.ofFields, lookupA, lookupField, List.lookup]
    cases h : (k == k0) with
    | true => rfl
    | false => exact ih

theorem initStateA_ofFields : (fs : List (Text × Ty)) → initStateA (TyA.ofFields fs) = initState fs
  | [] => rfl
  | (k, t) :: fs => by
    have := initStateA_ofFields fs
    simp only [initStateA, initState] at this
    simp [TyA.ofFields, initStateA, initState, this]

theorem dataPass_ofFields (F : Facts08) (A : FactsAttr) (cfg : Cfg) (text : Option Text) :
    (fs : List (Text × Ty)) → (st : List (Text × Val)) → dataPass F A cfg text (TyA.ofFields fs) st = .ok st
  | [], st => by simp [TyA.ofFields, dataPass]
  | (k, t) :: fs, st => by
    simp only [TyA.ofFields]
    rw [dataPass]
    · exact dataPass_ofFields F A cfg text fs st
    · intro k' p o h; cases h

theorem attrPass_ofFields (F : Facts08) (A : FactsAttr) (cfg : Cfg) (fs : List (Text × Ty)) :
    (attrs : List (Text × Text)) → (st : List (Text × Val)) → attrPass F A cfg (TyA.ofFields fs) attrs st = .ok st
  | [], st => by simp [attrPass]
  | (key, s) :: as, st => by
    have ih := attrPass_ofFields F A cfg fs as st
    rw [attrPass]
    · rw [lookupA_ofFields]
      cases lookupField fs key <;> simp [ih]
    all_goals (rw [lookupA_ofFields]; cases lookupField fs key <;> simp)

theorem childAttrLeak_ofFields (F : Facts08) (A : FactsAttr) (cfg : Cfg) (fs : List (Text × Ty))
    (attrs : List (Text × Text)) (st : List (Text × Val)) :
    childAttrLeak F A cfg (TyA.ofFields fs) attrs st = .ok st := by
  unfold childAttrLeak
  split
  · rfl
  · exact attrPass_ofFields F _ cfg fs attrs st

theorem freqOkA_ofFields (A : FactsAttr) (attrs : List (Text × Text)) (children : List Node) :
    (fs : List (Text × Ty)) → freqOkA A (TyA.ofFields fs) attrs children = freqOk fs children
  | [] => rfl
  | (k, t) :: fs => by
    have ih := freqOkA_ofFields A attrs children fs
    unfold freqOkA freqOk at *
    simp only [TyA.ofFields, List.all_cons]
    rw [ih]
    congr 1
    cases A.attrSoftChecked <;> simp [memberCount, occ_ofTy]

/-! ### registry -/

theorem hier_ofIface (I : Iface) : (IfaceA.ofIface I).hier = I.classes.hier := by
  simp [IfaceA.ofIface, IfaceA.hier, Registry.hier, List.map_map, Function.comp_def]

theorem isSub_ofIface (I : Iface) (a b : Text) : (IfaceA.ofIface I).isSub a b = I.isSub a b := by
  unfold IfaceA.isSub Iface.isSub
  rw [hier_ofIface]
  simp [Iface.fuel, IfaceA.ofIface]

theorem find?_map_classes (key : Text) : (cs : List ClassDef) →
    List.find? (fun (c : ClassDefA) => clark c.ns c.name = key)
      (cs.map (fun c => ({ name := c.name, ns := c.ns, base := c.base, fields := TyA.ofFields c.fields } : ClassDefA))) =
    (List.find? (fun (c : ClassDef) => clark c.ns c.name = key) cs).map
      (fun c => ({ name := c.name, ns := c.ns, base := c.base, fields := TyA.ofFields c.fields } : ClassDefA))
  | [] => rfl
  | c :: cs => by
    simp only [List.map, List.find?]
    cases h : decide (clark c.ns c.name = key) with
    | true => simp
    | false => simpa using find?_map_classes key cs

theorem lookup_map_others (key : Text) : (os : List (Text × Ty)) →
    List.lookup key (os.map (fun e => (e.1, TyA.ofTy e.2))) = (List.lookup key os).map TyA.ofTy
  | [] => rfl
  | (k, t) :: os => by
    simp only [List.map, List.lookup]
    cases h : (key == k) with
    | true => rfl
    | false => exact lookup_map_others key os

theorem lookup_ofIface (I : Iface) (key : Text) : (IfaceA.ofIface I).lookup key = (I.lookup key).map TyA.ofTy := by
  unfold IfaceA.lookup Iface.lookup
  simp only [IfaceA.ofIface]
  rw [find?_map_classes]
  cases List.find? (fun (c : ClassDef) => clark c.ns c.name = key) I.classes with
  | some c => simp [ClassDefA.toTy, ClassDef.toTy, TyA.ofTy]
  | none => simp [lookup_map_others]

theorem resolveXsiA_ofIface (X : FactsXml) (I : Iface) (t : Ty) (key : Text) :
    resolveXsiA X (IfaceA.ofIface I) (TyA.ofTy t) key = (resolveXsi X I t key).map TyA.ofTy := by
  unfold resolveXsiA resolveXsi
  rw [lookup_ofIface]
  cases I.lookup key with
  | none => rfl
  | some nt =>
    simp only [Option.map]
    cases X.xsiTypeCheck with
    | false => rfl
    | true =>
      cases t <;> cases nt <;> simp [TyA.ofTy, isSub_ofIface]
      all_goals (split <;> rfl)

/-! ### decoding -/

mutual
  theorem fromElementA_ofTy (F : Facts08) (X : FactsXml) (A : FactsAttr) (hX : X.childAttrGuard = true) (cfg : Cfg)
      (I : Iface) (t : Ty) : (x : Node) →
      fromElementA F X A cfg (IfaceA.ofIface I) (TyA.ofTy t) x = fromElement F X cfg I t x
    | .elem ns name attrs text children => by
      rw [fromElementA, fromElement]
      simp only [occ_ofTy]
      split
      · rfl
      · generalize hA : (if cfg.parseXsiType = true then _ else some (TyA.ofTy t)) = rtA
        generalize hT : (if cfg.parseXsiType = true then _ else some t) = rt
        have hrt : rtA = rt.map TyA.ofTy := by
          subst hA hT
          cases cfg.parseXsiType with
          | false => rfl
          | true =>
            simp only [if_true]
            cases attrs.lookup xsiTypeKey with
            | none => rfl
            | some key => exact resolveXsiA_ofIface X I t key
        subst hrt
        clear hA hT
        cases rt with
        | none => rfl
        | some t' =>
          cases t' with
          | prim p o => simp [TyA.ofTy]
          | obj cname cns cb fields o =>
            simp only [Option.map, TyA.ofTy]
            rw [dataPass_ofFields, initStateA_ofFields]
            simp only []
            rw [childLoopA_ofFields F X A hX cfg I fields children (initState fields)]
            cases childLoop F X cfg I fields children (initState fields) with
            | ok st => simp only [attrPass_ofFields, freqOkA_ofFields]
            | fault => rfl
            | crash e => rfl
          | arr m elem o =>
            simp only [Option.map, TyA.ofTy]
            rw [arrayLoopA_ofTy F X A hX cfg I elem children]
            cases arrayLoop F X cfg I elem children <;> rfl

  theorem childLoopA_ofFields (F : Facts08) (X : FactsXml) (A : FactsAttr) (hX : X.childAttrGuard = true) (cfg : Cfg)
      (I : Iface) (fields : List (Text × Ty)) : (cs : List Node) → (st : List (Text × Val)) →
      childLoopA F X A cfg (IfaceA.ofIface I) (TyA.ofFields fields) cs st = childLoop F X cfg I fields cs st
    | [], st => by simp [childLoopA, childLoop]
    | c :: cs, st => by
      rw [childLoopA.eq_def, childLoop]
      simp only [lookupA_ofFields]
      cases hl : lookupField fields c.name with
      | none => simp only [Option.map]; exact childLoopA_ofFields F X A hX cfg I fields cs st
      | some mt =>
        simp only [Option.map]
        rw [fromElementA_ofTy F X A hX cfg I mt c]
        cases fromElement F X cfg I mt c with
        | ok v =>
          simp only [childAttrLeak_ofFields, occ_ofTy]
          have : childAttrCrash X fields c.attrs = false := by simp [childAttrCrash, hX]
          simp only [this, Bool.false_eq_true, if_false]
          exact childLoopA_ofFields F X A hX cfg I fields cs _
        | fault => rfl
        | crash e => rfl

  theorem arrayLoopA_ofTy (F : Facts08) (X : FactsXml) (A : FactsAttr) (hX : X.childAttrGuard = true) (cfg : Cfg)
      (I : Iface) (elem : Ty) : (cs : List Node) →
      arrayLoopA F X A cfg (IfaceA.ofIface I) (TyA.ofTy elem) cs = arrayLoop F X cfg I elem cs
    | [] => by simp [arrayLoopA, arrayLoop]
    | c :: cs => by
      rw [arrayLoopA, arrayLoop, fromElementA_ofTy F X A hX cfg I elem c, arrayLoopA_ofTy F X A hX cfg I elem cs]
      cases fromElement F X cfg I elem c with
      | ok v => cases arrayLoop F X cfg I elem cs <;> rfl
      | fault => rfl
      | crash e => rfl
end

theorem decodeA_ofTy (F : Facts08) (X : FactsXml) (A : FactsAttr) (hX : X.childAttrGuard = true) (cfg : Cfg)
    (I : Iface) (t : Ty) (x : Node) :
    decodeA F X A cfg (IfaceA.ofIface I) (TyA.ofTy t) x = decode F X cfg I t x := by
  unfold decodeA decode
  exact fromElementA_ofTy F X A hX cfg I t x

/-! ### encoding (non-polymorphic) -/

theorem arrNsA_ofTy (tns ctx : Text) : (t : Ty) → arrNsA tns ctx (TyA.ofTy t) = arrNs tns ctx t
  | .prim p o => by simp [TyA.ofTy, arrNsA, arrNs]
  | .obj n ns b fs o => by simp [TyA.ofTy, arrNsA, arrNs]
  | .arr m e o => by simp only [TyA.ofTy, arrNsA, arrNs]; exact arrNsA_ofTy tns ctx e

theorem memberNsA_ofTy (tns ctx m : Text) (e : Ty) : memberNsA tns ctx m (TyA.ofTy e) = memberNs tns ctx m e := by
  unfold memberNsA memberNs
  rw [arrNsA_ofTy]
  rcases splitClark m with _ | ⟨ns, l⟩ <;> rfl

theorem attrPairsA_ofFields (F : Facts08) : (fs : List (Text × Ty)) → (vs : List (Text × Val)) →
    attrPairsA F (TyA.ofFields fs) vs = []
  | [], _ => by simp [TyA.ofFields, attrPairsA]
  | _ :: _, [] => by simp [TyA.ofFields, attrPairsA]
  | (k, t) :: fs, (k', v) :: vs => by
    simp only [TyA.ofFields, attrPairsA, attrPairsA_ofFields F fs vs]
    split <;> rfl

theorem noData_ofFields : (fs : List (Text × Ty)) → noKind .data (TyA.ofFields fs) = true
  | [] => rfl
  | (k, t) :: fs => by
    simp only [TyA.ofFields]
    rw [noKind_cons, noData_ofFields fs]
    rfl

theorem polyTarget_off {cfg : Cfg} (hp : cfg.polymorphic = false) (I : Iface) (a b : Text) : polyTarget cfg I a b = none := by
  simp [polyTarget, hp]

mutual
  theorem toParentA_ofTy (F : Facts08) (cfg : Cfg) (hp : cfg.polymorphic = false) (I : Iface) (ns name : Text) (t : Ty) :
      (v : Val) → toParentA F I.tns ns name (TyA.ofTy t) v = toParent F cfg I ns name t v
    | .none => by simp [toParentA, toParent]
    | .obj cls vs => by
      cases t with
      | prim p o => simp [toParentA, toParent, TyA.ofTy]
      | arr m e o => simp [toParentA, toParent, TyA.ofTy]
      | obj cname cns cb fields o =>
        simp only [toParentA, toParent, TyA.ofTy, polyTarget_off hp]
        rw [membersA_attrs, membersA_children, membersA_text_nodata F I.tns cns _ vs _ (noData_ofFields fields),
          attrPairsA_ofFields, elemNodesA_ofFields F cfg hp I cns fields vs]
        rfl
    | .list vs => by
      cases t with
      | prim p o => simp [toParentA, toParent, TyA.ofTy]
      | obj a b c d e => simp [toParentA, toParent, TyA.ofTy]
      | arr m e o =>
        simp only [toParentA, toParent, TyA.ofTy, memberNsA_ofTy]
        rw [itemsA_ofTy F cfg hp I _ _ e vs]
    | .int i => by
      cases t <;> simp [toParentA, toParent, TyA.ofTy]
      rename_i p o; cases leafToText F p (.int i) <;> rfl
    | .bool i => by
      cases t <;> simp [toParentA, toParent, TyA.ofTy]
      rename_i p o; cases leafToText F p (.bool i) <;> rfl
    | .str i => by
      cases t <;> simp [toParentA, toParent, TyA.ofTy]
      rename_i p o; cases leafToText F p (.str i) <;> rfl
    | .date i => by
      cases t <;> simp [toParentA, toParent, TyA.ofTy]
      rename_i p o; cases leafToText F p (.date i) <;> rfl
    | .time i => by
      cases t <;> simp [toParentA, toParent, TyA.ofTy]
      rename_i p o; cases leafToText F p (.time i) <;> rfl
    | .dt i => by
      cases t <;> simp [toParentA, toParent, TyA.ofTy]
      rename_i p o; cases leafToText F p (.dt i) <;> rfl
    | .dur i => by
      cases t <;> simp [toParentA, toParent, TyA.ofTy]
      rename_i p o; cases leafToText F p (.dur i) <;> rfl
    | .bytes i => by
      cases t <;> simp [toParentA, toParent, TyA.ofTy]
      rename_i p o; cases leafToText F p (.bytes i) <;> rfl
    | .enum i => by
      cases t <;> simp [toParentA, toParent, TyA.ofTy]
      rename_i p o; cases leafToText F p (.enum i) <;> rfl

  theorem elemNodesA_ofFields (F : Facts08) (cfg : Cfg) (hp : cfg.polymorphic = false) (I : Iface) (cns : Text) :
      (fs : List (Text × Ty)) → (vs : List (Text × Val)) →
      elemNodesA F I.tns cns (TyA.ofFields fs) vs = membersToParent F cfg I cns fs vs
    | [], _ => by simp [TyA.ofFields, elemNodesA, membersToParent]
    | _ :: _, [] => by simp [TyA.ofFields, elemNodesA, membersToParent]
    | (k, t) :: fs, (k', v) :: vs => by
      by_cases hk : k = k'
      · subst hk
        rw [membersToParent_cons]
        simp only [TyA.ofFields, elemNodesA, if_true]
        rw [elemNodesA_ofFields F cfg hp I cns fs vs]
        congr 1
        simp only [memberNodesA, memberNodes, occ_ofTy]
        cases v with
        | none => rfl
        | list items =>
          simp only []
          split
          · exact itemsA_ofTy F cfg hp I cns k t items
          · cases t with
            | arr m e o =>
              simp only [TyA.ofTy, memberNsA_ofTy]
              rw [itemsA_ofTy F cfg hp I _ _ e items]
            | prim p o => simp [TyA.ofTy]
            | obj a b c d e => simp [TyA.ofTy]
        | obj cls ws => simp only []; rw [toParentA_ofTy F cfg hp I cns k t (.obj cls ws)]
        | int i => simp only []; rw [toParentA_ofTy F cfg hp I cns k t (.int i)]
        | bool i => simp only []; rw [toParentA_ofTy F cfg hp I cns k t (.bool i)]
        | str i => simp only []; rw [toParentA_ofTy F cfg hp I cns k t (.str i)]
        | date i => simp only []; rw [toParentA_ofTy F cfg hp I cns k t (.date i)]
        | time i => simp only []; rw [toParentA_ofTy F cfg hp I cns k t (.time i)]
        | dt i => simp only []; rw [toParentA_ofTy F cfg hp I cns k t (.dt i)]
        | dur i => simp only []; rw [toParentA_ofTy F cfg hp I cns k t (.dur i)]
        | bytes i => simp only []; rw [toParentA_ofTy F cfg hp I cns k t (.bytes i)]
        | enum i => simp only []; rw [toParentA_ofTy F cfg hp I cns k t (.enum i)]
      · have : membersToParent F cfg I cns ((k, t) :: fs) ((k', v) :: vs) = membersToParent F cfg I cns fs vs := by
          cases v <;> (simp only [membersToParent]; rw [if_neg hk]; rfl)
        rw [this]
        simp only [TyA.ofFields, elemNodesA, if_neg hk, List.nil_append]
        exact elemNodesA_ofFields F cfg hp I cns fs vs

  theorem itemsA_ofTy (F : Facts08) (cfg : Cfg) (hp : cfg.polymorphic = false) (I : Iface) (ns name : Text) (t : Ty) :
      (vs : List Val) → itemsA F I.tns ns name (TyA.ofTy t) vs = itemsToParent F cfg I ns name t vs
    | [] => by simp [itemsA, itemsToParent]
    | v :: vs => by
      simp only [itemsA, itemsToParent]
      rw [toParentA_ofTy F cfg hp I ns name t v, itemsA_ofTy F cfg hp I ns name t vs]
end

theorem encodeA_ofTy (F : Facts08) (cfg : Cfg) (hp : cfg.polymorphic = false) (I : Iface) (ns name : Text) (t : Ty)
    (v : Val) : encodeA F I.tns ns name (TyA.ofTy t) v = encode F cfg I ns name t v := by
  unfold encodeA encode
  exact toParentA_ofTy F cfg hp I ns name t v

end Xml
end SpyneModel
