/-
  C18 helper lemmas, third part: string mode, member methods, body-style reading.
-/
import Proofs.Null
import SpyneModel.NullExt
namespace SpyneModel.Null

theorem first_ne_fault (v : Val) (c : Flt) : first v ≠ .fault c := by
  unfold first; split <;> simp

theorem cbSync_ne_fault (F : Facts18) (s : Sig) (out : Val) (c : Flt) : cbSync F s out ≠ .fault c := by
  unfold cbSync
  split
  · simp
  · repeat' split
    all_goals first | exact first_ne_fault _ _ | simp

/-- a conformant result is always extracted -/
theorem cbSync_ok_of_resultOk (F : Facts18) (hF : F.Good) (τ : Val → Val) (s : Sig) (r : Val)
    (hok : ResultOk τ s r) : ∃ v, cbSync F s (wrapOut F s r) = .ok v := by
  have hP : (ProtoCfg.mk .first .padNone .methodName .nil .nil).Good := ⟨rfl, rfl, rfl⟩
  cases hig : r.isIgnored with
  | true =>
    match r, hig with
    | .ignored x, _ => exact ⟨_, (out_agree_ignored F hF _ hP τ s x).1⟩
  | false =>
    have h := out_agree_plain F hF _ hP τ s r hig hok
    cases hc : cbSync F s (wrapOut F s r) with
    | ok v => exact ⟨v, rfl⟩
    | fault c => exact absurd hc (cbSync_ne_fault F s _ c)
    | exc e =>
      rw [hc] at h
      exact absurd h.symm (respond_ne_exc _ τ s _ e)

/-- the string `NullServer(app, ostr=True)` returns decodes to what the wire client gets -/
theorem nullOstr_eq_wire (F : Facts18) (hF : F.Good) (hO : F.GoodOstr) (P : ProtoCfg) (hP : P.Good)
    (τ : Val → Val) (s : Sig) (impl : List Val → Result) (pos : List Val) (kw : List (String × Val))
    (hprog : ProgramOkOn τ s impl (nullRecv F s pos kw)) (hkw : KwOk F kw) (hcall : CallOk τ s pos kw) :
    nullOstr F P τ s impl pos kw = wireCall F P τ s impl pos kw := by
  have hrecv := recv_agree F P hP τ s pos kw hkw hcall
  rw [hrecv] at hprog
  unfold nullOstr wireCall
  rw [hrecv]
  unfold wireRecvOf at hprog ⊢
  cases hk : s.inKeys with
  | none => rfl
  | some keys =>
    simp only [hk] at hprog
    simp only
    cases hcp : clientPack keys pos kw with
    | fault c => rfl
    | exc e => rfl
    | ok sent =>
      simp only [hcp, Res.bind] at hprog
      simp only [Res.bind, process]
      cases hi : impl (wireRecv P τ s keys sent) with
      | fault c => rfl
      | error => rfl
      | value r =>
        simp only
        obtain ⟨v, hv⟩ := cbSync_ok_of_resultOk F hF τ s r (hprog _ _ rfl hi)
        rw [hv]
        unfold Facts18.GoodOstr at hO
        simp [hO]

/-- without the replacement an `Ignored` result makes the string mode raise -/
theorem ostr_serialized_breaks (F : Facts18) (h : F.ostrIgnored = .serialized) (P : ProtoCfg)
    (τ : Val → Val) (s : Sig) (impl : List Val → Result) (keys : List String)
    (hk : s.inKeys = some keys) (pos : List Val) (kw : List (String × Val))
    (hlen : pos.length ≤ keys.length) (x : Val) (himpl : ∀ recv, impl recv = .value (.ignored x))
    (hcb : ∃ v, cbSync F s (wrapOut F s (.ignored x)) = .ok v) :
    nullOstr F P τ s impl pos kw = .exc "TypeError" := by
  have hnl : ¬ keys.length < pos.length := by omega
  obtain ⟨v, hv⟩ := hcb
  simp only [nullOstr, nullRecv, hk, packArgs, hnl, if_false, Res.bind, process, himpl, hv, h]
  have : outHasIgnored (wrapOut F s (.ignored x)) = true := by
    unfold wrapOut; split <;> rfl
  simp [this]

/-! ### member methods -/

theorem memberImpl_ok (τ : Val → Val) (s : Sig) (m : Option Member) (impl : List Val → Result)
    (h : ProgramOk τ s impl) : ProgramOk τ s (memberImpl m impl) := by
  intro recv r hi
  cases m with
  | none => exact h recv r hi
  | some m =>
    simp only [memberImpl] at hi
    cases hr : respawn m recv with
    | ok args =>
      rw [hr] at hi
      simp only at hi
      split at hi
      · exact h args r hi
      · cases hi
    | fault c => rw [hr] at hi; cases hi
    | exc e => rw [hr] at hi; cases hi

/-- a member method called without its instance (and without `_default_on_null`) is a
    Client.ResourceNotFound fault -/
theorem respawn_missing (m : Member) (hd : m.defaultOnNull = false) (rest : List Val) :
    respawn m (Val.none :: rest) = .fault "Client.ResourceNotFound" := by
  simp [respawn, Val.isNone, hd]

theorem respawn_present (m : Member) (x : Val) (hx : x.isNone = false) (rest : List Val) :
    respawn m (x :: rest) = .ok (x :: rest) := by
  simp [respawn, hx]

theorem respawn_default (m : Member) (hd : m.defaultOnNull = true) (rest : List Val) :
    respawn m (Val.none :: rest) = .ok (.obj m.cls (m.fields.map fun f => (f, Val.none)) :: rest) := by
  simp [respawn, Val.isNone, hd]

/-! ### `_validate_body_style` -/

/-- `_soap_body_style` is only read when `_body_style` is given -/
theorem validateBodyStyle_default (sb : Option String) : validateBodyStyle none sb = some .wrapped := rfl

theorem validateBodyStyle_plain (b : String) :
    validateBodyStyle (some b) none =
      (if b = "wrapped" then some .wrapped else if b = "bare" then some .bare
       else if b = "out_bare" then some .outBare else none) := by
  unfold validateBodyStyle
  simp only
  split <;> simp_all

end SpyneModel.Null
