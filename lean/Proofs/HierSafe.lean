/-
  C10 / C04 for whole dict documents: for EVERY document, `_from_dict_value` / `_doc_to_object` do not let an
  exception escape (any validator), and under soft validation the result is a value of the declared type
  (`hasTyOne`: None, the declared primitive kind, an instance of the declared class or of a registered subclass
  with that class's members, lists of such). Mutual structural induction over the document (lists, mappings) and
  over the type (strings and bytes, which Python iterates). General in `F`, `G`.
-/
import Proofs.HierSafeLeaf
namespace SpyneModel.Hier
open SpyneModel
variable {F : Facts08} {G : Facts02} {cfg : Cfg}

/-- `SafeRes` for any result type -/
def Safe {α} (cfg : Cfg) (ok : α → Prop) : Res α → Prop
  | .ok a l => cfg.soft = true → (l = false ∧ ok a)
  | .fault => True
  | .crash _ => False

theorem safe_iff_safeRes (ok : Val → Prop) (r : Res Val) : Safe cfg ok r ↔ SafeRes cfg ok r := by
  cases r <;> simp [Safe, SafeRes]

theorem Safe.fault' {α} {ok : α → Prop} : Safe cfg ok (.fault : Res α) := trivial
theorem Safe.good {α} {ok : α → Prop} {a : α} (h : cfg.soft = true → ok a) : Safe cfg ok (.good a) :=
  fun hs => ⟨rfl, h hs⟩

theorem Safe.mono {α} {ok ok' : α → Prop} {r : Res α} (h : Safe cfg ok r) (hi : ∀ a, ok a → ok' a) : Safe cfg ok' r := by
  cases r with
  | ok a l => exact fun hs => ⟨(h hs).1, hi a (h hs).2⟩
  | fault => trivial
  | crash e => exact h.elim

theorem Safe.bind {α β} {okA : α → Prop} {okB : β → Prop} {r : Res α} {f : α → Res β}
    (h : Safe cfg okA r) (hf : ∀ a, (cfg.soft = true → okA a) → Safe cfg okB (f a)) : Safe cfg okB (r.bind f) := by
  cases r with
  | fault => trivial
  | crash e => exact h.elim
  | ok a l =>
    have hfa := hf a (fun hs => (h hs).2)
    simp only [Res.bind]
    cases hfa' : f a with
    | fault => trivial
    | crash e => rw [hfa'] at hfa; exact hfa.elim
    | ok b l' =>
      rw [hfa'] at hfa
      intro hs
      have h1 := (h hs).1
      have h2 := hfa hs
      exact ⟨by simp [h1, h2.1], h2.2⟩

theorem Safe.map {α β} {okA : α → Prop} {okB : β → Prop} {r : Res α} {f : α → β}
    (h : Safe cfg okA r) (hf : ∀ a, okA a → okB (f a)) : Safe cfg okB (r.map f) :=
  Safe.bind h (fun a ha => Safe.good (fun hs => hf a (ha hs)))

theorem mapRes_safe {α β} {ok : β → Prop} (f : α → Res β) (xs : List α) (hf : ∀ x ∈ xs, Safe cfg ok (f x)) :
    Safe cfg (fun l => ∀ y ∈ l, ok y) (mapRes f xs) := by
  induction xs with
  | nil => exact Safe.good (fun _ => by simp)
  | cons x xs ih =>
    simp only [mapRes]
    apply Safe.bind (hf x (by simp))
    intro b hb
    apply Safe.bind (ih (fun y hy => hf y (by simp [hy])))
    intro bs hbs
    exact Safe.good (fun hs => by
      intro y hy
      simp only [List.mem_cons] at hy
      rcases hy with rfl | hy
      · exact hb hs
      · exact hbs hs y hy)

/-! ### slots -/

variable (R : Registry)

/-- the value held by a member slot is acceptable for a member of type `t` -/
def slotOk (t : Ty) (v : Val) : Bool :=
  match v with
  | .none => true
  | .list vs => if t.occ.repeated then hasTyItems R t vs else hasTyOne R t (.list vs)
  | v => !t.occ.repeated && hasTyOne R t v

def accOk : Fields → Acc → Bool
  | (n, t) :: fs, (m, v, _) :: ss => decide (n = m) && slotOk R t v && accOk fs ss
  | [], [] => true
  | _, _ => false

theorem accOk_init (fs : Fields) : accOk R fs (initAcc fs) = true := by
  induction fs with
  | nil => rfl
  | cons nt fs ih => obtain ⟨n, t⟩ := nt; simp [initAcc, accOk, slotOk] at ih ⊢; exact ih

theorem hasTyFields_of_accOk : ∀ (fs : Fields) (a : Acc), accOk R fs a = true →
    hasTyFields R fs (a.map (fun s => (s.1, s.2.1))) = true := by
  intro fs
  induction fs with
  | nil => intro a h; cases a <;> simp_all [accOk, hasTyFields]
  | cons nt fs ih =>
    obtain ⟨n, t⟩ := nt
    intro a h
    cases a with
    | nil => simp [accOk] at h
    | cons s ss =>
      obtain ⟨m, v, c⟩ := s
      simp only [accOk, Bool.and_eq_true, decide_eq_true_eq] at h
      obtain ⟨⟨rfl, hs⟩, hr⟩ := h
      have ih' := ih ss hr
      cases v <;> simp [hasTyFields, slotOk, ih'] at hs ⊢ <;> first | done | exact hs

/-- updating the slot of the member `n` (declared with type `t`) keeps the slots acceptable -/
theorem accOk_putSlot : ∀ (fs : Fields) (a : Acc) (n : Text) (t : Ty) (f : Val → Val) (k : Nat),
    accOk R fs a = true → lookupField fs n = some t → (∀ old, slotOk R t old = true → slotOk R t (f old) = true) →
    accOk R fs (putSlot a n f k) = true := by
  intro fs
  induction fs with
  | nil => intro a n t f k _ hl; simp [lookupField] at hl
  | cons nt fs ih =>
    obtain ⟨m, u⟩ := nt
    intro a n t f k h hl hf
    cases a with
    | nil => simp [accOk] at h
    | cons s ss =>
      obtain ⟨m', v, c⟩ := s
      simp only [accOk, Bool.and_eq_true, decide_eq_true_eq] at h
      obtain ⟨⟨rfl, hs⟩, hr⟩ := h
      simp only [lookupField] at hl
      by_cases hmn : m = n
      · subst hmn
        simp only [if_true, Option.some.injEq] at hl
        subst hl
        simp [putSlot, accOk, hf v hs, hr]
      · simp only [hmn, if_false] at hl
        simp [putSlot, hmn, accOk, hs, ih ss n t f k hr hl hf]


/-! ### structure -/

theorem hasTyItems_iff (t : Ty) (vs : List Val) : hasTyItems R t vs = true ↔ ∀ v ∈ vs, hasTyOne R t v = true := by
  induction vs with
  | nil => simp [hasTyItems]
  | cons v vs ih => simp [hasTyItems, ih]

theorem hasTyItems_append (t : Ty) (a b : List Val) :
    hasTyItems R t (a ++ b) = (hasTyItems R t a && hasTyItems R t b) := by
  induction a with
  | nil => simp [hasTyItems]
  | cons v vs ih => simp [hasTyItems, ih, Bool.and_assoc]

theorem slotOk_single (t : Ty) (x : Val) (hr : t.occ.repeated = false) (h : hasTyOne R t x = true) :
    slotOk R t x = true := by
  cases x <;> simp [slotOk, hr, h]

theorem slotOk_items (t : Ty) (old : Val) (vs : List Val) (hr : t.occ.repeated = true)
    (ho : slotOk R t old = true) (h : hasTyItems R t vs = true) :
    slotOk R t (.list (oldItems old ++ vs)) = true := by
  simp only [slotOk, hr, if_true, hasTyItems_append, h, Bool.and_true]
  cases old <;> simp [oldItems, hasTyItems, slotOk, hr] at ho ⊢
  exact ho

/-- every class of the registry has distinct, well-formed members -/
def regWf (R : Registry) : Prop :=
  ∀ cd ∈ R, namesDistinct (cd.fields.map (·.1)) = true ∧ wfFields cd.fields = true

/-- what `_doc_to_object` builds for class `cls` with members `fs` -/
def IsInst (cls : Text) (fs : Fields) (v : Val) : Prop :=
  ∃ vals, v = .obj cls vals ∧ hasTyFields R fs vals = true

theorem finish_safe (cls : Text) (fs : Fields) (a : Acc) (h : cfg.soft = true → accOk R fs a = true) :
    Safe cfg (IsInst R cls fs) (finish cfg cls fs a) := by
  unfold finish
  split
  · exact Safe.fault'
  · exact Safe.good (fun hs => ⟨_, rfl, hasTyFields_of_accOk R fs a (h hs)⟩)

theorem put_safe (hG : G.Good) (fs : Fields) (a : Acc) (n : Text) (t : Ty) (x : Val)
    (ha : cfg.soft = true → accOk R fs a = true) (hl : lookupField fs n = some t) (hr : t.occ.repeated = false)
    (hx : cfg.soft = true → hasTyOne R t x = true) :
    Safe cfg (fun a' => accOk R fs a' = true) (Res.good (a.put G n x)) :=
  Safe.good (fun hs => accOk_putSlot R fs a n t _ _ (ha hs) hl (fun _ _ => slotOk_single R t x hr (hx hs)))

theorem putItems_safe (hG : G.Good) (fs : Fields) (a : Acc) (n : Text) (t : Ty) (vs : List Val)
    (ha : cfg.soft = true → accOk R fs a = true) (hl : lookupField fs n = some t) (hr : t.occ.repeated = true)
    (hx : cfg.soft = true → ∀ v ∈ vs, hasTyOne R t v = true) :
    Safe cfg (fun a' => accOk R fs a' = true) (Res.good (a.putItems G n vs)) :=
  Safe.good (fun hs => accOk_putSlot R fs a n t _ _ (ha hs) hl
    (fun old ho => slotOk_items R t old vs hr ho ((hasTyItems_iff R t vs).2 (hx hs))))

theorem nullComplex_safe (hG : G.Good) (t : Ty) (o : Occ) : Safe cfg (fun v => hasTyOne R t v = true) (nullComplex G cfg o) := by
  unfold nullComplex
  simp only [hG.nul, if_true]
  split
  · exact Safe.fault'
  · exact Safe.good (fun _ => by cases t <;> simp [hasTyOne])

theorem repeatedScalar_safe {α} (hG : G.Good) (ok : α → Prop) : Safe cfg ok (repeatedScalar G : Res α) := by
  simp [repeatedScalar, hG.rep, Safe]

theorem hasTyOne_prim (p : PrimTy) (o : Occ) (v : Val) (h : v = .none ∨ p.kindOk v = true) :
    hasTyOne R (.prim p o) v = true := by
  rcases h with rfl | h
  · simp [hasTyOne]
  · cases v <;> first | (simp [hasTyOne]; done) | (simpa [hasTyOne] using h) | (cases p <;> simp [PrimTy.kindOk] at h)


/-! ### non-container documents (recursion on the type) -/

def FlatOk (F : Facts08) (G : Facts02) (cfg : Cfg) (R : Registry) (t : Ty) : Prop :=
  ∀ d, Safe cfg (fun v => hasTyOne R t v = true) (flatOne F G cfg t d)

theorem flatItems_safe (t : Ty) (h : FlatOk F G cfg R t) (xs : List Doc) :
    Safe cfg (fun l => ∀ y ∈ l, hasTyOne R t y = true) (mapRes (fun x => flatOne F G cfg t x) xs) :=
  mapRes_safe _ xs (fun x _ => h x)

theorem flatFields_safe (hG : G.Good) : ∀ (fs all pre : Fields) (ds : List Doc) (a : Acc),
    (∀ nt ∈ fs, FlatOk F G cfg R nt.2) → all = pre ++ fs → namesDistinct (all.map (·.1)) = true →
    (cfg.soft = true → accOk R all a = true) →
    Safe cfg (fun a' => accOk R all a' = true) (flatFields F G cfg all fs ds a) := by
  intro fs
  induction fs with
  | nil => intro all pre ds a _ _ _ ha; rw [flatFields.eq_def]; exact Safe.good ha
  | cons nt fs ih =>
    obtain ⟨n, t⟩ := nt
    intro all pre ds a hP hall hnd ha
    cases ds with
    | nil => rw [flatFields.eq_def]; exact Safe.good ha
    | cons d ds =>
      have hnn : n ∉ pre.map (·.1) := by
        subst hall
        exact (namesDistinct_append_cons (pre.map (·.1)) n (fs.map (·.1)) (by simpa using hnd)).1
      have hlook : lookupField all n = some t := by subst hall; exact lookupField_at pre n t fs hnn
      have hPt : FlatOk F G cfg R t := hP (n, t) (by simp)
      rw [flatFields.eq_def]
      simp only []
      apply Safe.bind (okA := fun a' => accOk R all a' = true)
      · cases hr : t.occ.repeated
        · simp only [Bool.false_eq_true, if_false]
          apply Safe.bind (hPt d)
          intro x hx
          exact put_safe R hG all a n t x ha hlook hr hx
        · simp only [if_true]
          cases hi : iterFlat d with
          | none => exact repeatedScalar_safe hG _
          | some xs =>
            simp only []
            apply Safe.bind (flatItems_safe R t hPt xs)
            intro vs hvs
            exact putItems_safe R hG all a n t vs ha hlook hr hvs
      · intro a' ha'
        exact ih all (pre ++ [(n, t)]) ds a' (fun nt h => hP nt (by simp [h])) (by simp [hall]) hnd ha'

mutual
  theorem flatOne_safe (L : LeafLaws F) (hG : G.Good) : ∀ (t : Ty), wfTy t = true → FlatOk F G cfg R t
    | .prim p o, _ => by
      intro d
      simp only [flatOne]
      exact Safe.mono ((safe_iff_safeRes _ _).2 (primIn_safe L hG p o d)) (fun v hv => hasTyOne_prim R p o v hv)
    | .arr m e o, hwf => by
      have hwe : wfTy e = true := by simp [wfTy] at hwf; exact hwf.2
      have ihe := flatOne_safe L hG e hwe
      intro d
      cases d <;> simp only [flatOne] <;> first | exact Safe.fault' | exact nullComplex_safe R hG _ o | skip
      case str s =>
        exact Safe.map (flatItems_safe R e ihe _) (fun l hl => by simpa [hasTyOne] using (hasTyItems_iff R e l).2 hl)
      case bytes bs =>
        exact Safe.map (flatItems_safe R e ihe _) (fun l hl => by simpa [hasTyOne] using (hasTyItems_iff R e l).2 hl)
    | .obj n ns b fields o, hwf => by
      have hw : namesDistinct (fields.map (·.1)) = true ∧ wfFields fields = true := by
        simp [wfTy] at hwf; exact ⟨hwf.1.2, hwf.2⟩
      have ihf := flatFieldsOk L hG fields hw.2
      have inst : ∀ v, IsInst R n fields v → hasTyOne R (.obj n ns b fields o) v = true := by
        rintro v ⟨vals, rfl, hv⟩; simp [hasTyOne, hv]
      intro d
      cases d <;> simp only [flatOne] <;> first | exact Safe.fault' | exact nullComplex_safe R hG _ o | skip
      case str s =>
        split
        · exact Safe.mono (Safe.bind (flatFields_safe R hG fields fields [] _ _ ihf (by simp) hw.1 (fun _ => accOk_init R fields))
            (fun a ha => finish_safe R n fields a ha)) inst
        · exact Safe.fault'
      case bytes bs =>
        split
        · exact Safe.mono (Safe.bind (flatFields_safe R hG fields fields [] _ _ ihf (by simp) hw.1 (fun _ => accOk_init R fields))
            (fun a ha => finish_safe R n fields a ha)) inst
        · exact Safe.fault'

  theorem flatFieldsOk (L : LeafLaws F) (hG : G.Good) : ∀ (fs : Fields), wfFields fs = true →
      ∀ nt ∈ fs, FlatOk F G cfg R nt.2
    | [], _ => by intro nt h; cases h
    | (n, t) :: r, hwf => by
      have hw : wfTy t = true ∧ wfFields r = true := by simpa [wfFields] using hwf
      intro nt h
      simp only [List.mem_cons] at h
      rcases h with rfl | h
      · exact flatOne_safe L hG t hw.1
      · exact flatFieldsOk L hG r hw.2 nt h
end


/-! ### lists and mappings (recursion on the document) -/

theorem wfTy_of_lookup : ∀ (fs : Fields) (n : Text) (t : Ty), lookupField fs n = some t → wfFields fs = true → wfTy t = true := by
  intro fs
  induction fs with
  | nil => intro n t h; simp [lookupField] at h
  | cons mt fs ih =>
    obtain ⟨m, u⟩ := mt
    intro n t h hwf
    have hw : wfTy u = true ∧ wfFields fs = true := by simpa [wfFields] using hwf
    simp only [lookupField] at h
    split at h
    · cases h; exact hw.1
    · exact ih n t h hw.2

theorem keyName_safe (k : Key) : Safe cfg (fun (_ : Option Text) => True) (keyName cfg k) := by
  cases k <;> simp only [keyName] <;> first | exact Safe.good (fun _ => trivial) | skip
  case bytes bs =>
    split
    · split
      · exact Safe.good (fun _ => trivial)
      · exact Safe.fault'
    · exact Safe.good (fun _ => trivial)

theorem wrapperKey_safe (hG : G.Good) (k : Key) : Safe cfg (fun (_ : Option Text) => True) (wrapperKey G k) := by
  cases k <;> simp only [wrapperKey] <;> first | exact Safe.good (fun _ => trivial) | skip
  case bytes bs =>
    split
    · exact Safe.good (fun _ => trivial)
    · simp only [hG.utf8, if_true]; exact Safe.fault'

/-- the class `resolveClass` settles on is the declared one or a registered subclass with its own members -/
def ClassOk (R : Registry) (name : Text) (fs : Fields) (cf : Text × Fields) : Prop :=
  (cf.1 = name ∧ cf.2 = fs) ∨
  (cf.1 ≠ name ∧ R.hier.isSub R.length cf.1 name = true ∧ ∃ cd, R.find? cf.1 = some cd ∧ cd ∈ R ∧ cf.2 = cd.fields)

theorem find?_mem (R : Registry) (k : Text) (c : ClassDef) (h : R.find? k = some c) : c ∈ R ∧ c.name = k := by
  unfold Registry.find? at h
  exact ⟨List.mem_of_find?_eq_some h, by simpa using List.find?_some h⟩

theorem resolveClass_cases (name : Text) (fs : Fields) (key : Option Text) :
    resolveClass R name fs key = .fault ∨ ∃ cf, resolveClass R name fs key = .good cf ∧ ClassOk R name fs cf := by
  unfold resolveClass
  split
  · exact Or.inr ⟨_, rfl, Or.inl ⟨rfl, rfl⟩⟩
  · split
    · exact Or.inr ⟨_, rfl, Or.inl ⟨rfl, rfl⟩⟩
    · cases key with
      | none => exact Or.inl rfl
      | some k =>
        simp only []
        cases hf : R.find? k with
        | none => exact Or.inl rfl
        | some c =>
          simp only []
          split
          · rename_i hc
            simp only [Bool.and_eq_true, bne_iff_ne, ne_eq, decide_eq_true_eq, Bool.not_eq_true'] at hc
            obtain ⟨hmem, hname⟩ := find?_mem R k c hf
            refine Or.inr ⟨_, rfl, Or.inr ⟨?_, hc.2, c, ?_, hmem, rfl⟩⟩
            · simpa using hc.1
            · rw [hname]; exact hf
          · exact Or.inl rfl

theorem hasTyOne_inst (name ns : Text) (b : Option Text) (fs : Fields) (o : Occ) (cf : Text × Fields)
    (hc : ClassOk R name fs cf) (v : Val) (hv : IsInst R cf.1 cf.2 v) :
    hasTyOne R (.obj name ns b fs o) v = true := by
  obtain ⟨vals, rfl, hvals⟩ := hv
  rcases hc with ⟨h1, h2⟩ | ⟨hne, hsub, cd, hfind, _, hf⟩
  · rw [h1] ; rw [h2] at hvals; simp [hasTyOne, hvals]
  · rw [hf] at hvals
    simp [hasTyOne, hne, hsub, hfind, hvals]


mutual
  theorem decode_safe (L : LeafLaws F) (hG : G.Good) (hR : regWf R) : ∀ (d : Doc) (t : Ty), wfTy t = true →
      Safe cfg (fun v => hasTyOne R t v = true) (decode F G cfg R t d)
    | .list ds, t, hwf => by
      cases t with
      | prim p o =>
        simp only [decode]
        exact Safe.mono ((safe_iff_safeRes _ _).2 (primIn_safe L hG p o _)) (fun v hv => hasTyOne_prim R p o v hv)
      | arr m e o =>
        have hwe : wfTy e = true := by simp [wfTy] at hwf; exact hwf.2
        simp only [decode]
        exact Safe.map (decodeItems_safe L hG hR ds e hwe) (fun l hl => by simpa [hasTyOne] using hl)
      | obj n ns b fields o =>
        have hw : namesDistinct (fields.map (·.1)) = true ∧ wfFields fields = true := by
          simp [wfTy] at hwf; exact ⟨hwf.1.2, hwf.2⟩
        simp only [decode]
        split
        · exact Safe.mono (Safe.bind (decodePos_safe L hG hR ds fields [] fields (initAcc fields) (by simp) hw.1 hw.2
              (fun _ => accOk_init R fields)) (fun a ha => finish_safe R n fields a ha))
            (fun v hv => hasTyOne_inst R n ns b fields o (n, fields) (Or.inl ⟨rfl, rfl⟩) v hv)
        · exact Safe.fault'
    | .map kvs, t, hwf => by
      cases t with
      | prim p o =>
        simp only [decode]
        exact Safe.mono ((safe_iff_safeRes _ _).2 (primIn_safe L hG p o _)) (fun v hv => hasTyOne_prim R p o v hv)
      | arr m e o =>
        have hwe : wfTy e = true := by simp [wfTy] at hwf; exact hwf.2
        simp only [decode]
        exact Safe.map (flatItems_safe R e (flatOne_safe R L hG e hwe) _)
          (fun l hl => by simpa [hasTyOne] using (hasTyItems_iff R e l).2 hl)
      | obj n ns b fields o =>
        have hw : namesDistinct (fields.map (·.1)) = true ∧ wfFields fields = true := by
          simp [wfTy] at hwf; exact ⟨hwf.1.2, hwf.2⟩
        simp only [decode]
        split
        · exact Safe.mono (Safe.bind (decodeKvs_safe L hG hR kvs fields (initAcc fields) hw.2 (fun _ => accOk_init R fields))
              (fun a ha => finish_safe R n fields a ha))
            (fun v hv => hasTyOne_inst R n ns b fields o (n, fields) (Or.inl ⟨rfl, rfl⟩) v hv)
        · exact decodeWrapped_safe L hG hR kvs n ns b fields o hwf
    | .null, t, hwf => by simp only [decode]; exact flatOne_safe R L hG t hwf _
    | .bool _, t, hwf => by simp only [decode]; exact flatOne_safe R L hG t hwf _
    | .int _, t, hwf => by simp only [decode]; exact flatOne_safe R L hG t hwf _
    | .float _, t, hwf => by simp only [decode]; exact flatOne_safe R L hG t hwf _
    | .nan, t, hwf => by simp only [decode]; exact flatOne_safe R L hG t hwf _
    | .other, t, hwf => by simp only [decode]; exact flatOne_safe R L hG t hwf _
    | .str _, t, hwf => by simp only [decode]; exact flatOne_safe R L hG t hwf _
    | .bytes _, t, hwf => by simp only [decode]; exact flatOne_safe R L hG t hwf _

  theorem decodeWrapped_safe (L : LeafLaws F) (hG : G.Good) (hR : regWf R) : ∀ (kvs : List (Key × Doc)) (n ns : Text) (b : Option Text) (fields : Fields) (o : Occ),
      wfTy (.obj n ns b fields o) = true →
      Safe cfg (fun v => hasTyOne R (.obj n ns b fields o) v = true) (decodeWrapped F G cfg R n fields o kvs)
    | [], n, ns, b, fields, o, _ => by
      simp only [decodeWrapped]
      split
      · exact Safe.fault'
      · exact Safe.good (fun _ => by simp [hasTyOne])
    | [(k, inner)], n, ns, b, fields, o, hwf => by
      have hw : namesDistinct (fields.map (·.1)) = true ∧ wfFields fields = true := by
        simp [wfTy] at hwf; exact ⟨hwf.1.2, hwf.2⟩
      simp only [decodeWrapped]
      apply Safe.bind (wrapperKey_safe hG k)
      intro key _
      rcases resolveClass_cases R n fields key with h | ⟨cf, h, hcf⟩
      · rw [h]; exact Safe.fault'
      · rw [h, Res.good_bind]
        have hwcf : namesDistinct (cf.2.map (·.1)) = true ∧ wfFields cf.2 = true := by
          rcases hcf with ⟨_, h2⟩ | ⟨_, _, cd, _, hmem, hf⟩
          · rw [h2]; exact hw
          · rw [hf]; exact hR cd hmem
        exact Safe.mono (decodeBody_safe L hG hR inner cf.1 cf.2 hwcf.1 hwcf.2)
          (fun v hv => hasTyOne_inst R n ns b fields o cf hcf v hv)
    | _ :: _ :: _, n, ns, b, fields, o, _ => by
      simp only [decodeWrapped]; exact Safe.fault'

  theorem decodeBody_safe (L : LeafLaws F) (hG : G.Good) (hR : regWf R) : ∀ (d : Doc) (cls : Text) (fs : Fields),
      namesDistinct (fs.map (·.1)) = true → wfFields fs = true →
      Safe cfg (IsInst R cls fs) (decodeBody F G cfg R cls fs d)
    | .map kvs, cls, fs, _, hwf => by
      simp only [decodeBody]
      exact Safe.bind (decodeKvs_safe L hG hR kvs fs (initAcc fs) hwf (fun _ => accOk_init R fs))
        (fun a ha => finish_safe R cls fs a ha)
    | .list ds, cls, fs, hd, hwf => by
      simp only [decodeBody]
      exact Safe.bind (decodePos_safe L hG hR ds fs [] fs (initAcc fs) (by simp) hd hwf (fun _ => accOk_init R fs))
        (fun a ha => finish_safe R cls fs a ha)
    | .null, cls, fs, hd, hwf => by simp only [decodeBody, flatBody, iterFlat]; exact Safe.fault'
    | .bool _, cls, fs, hd, hwf => by simp only [decodeBody, flatBody, iterFlat]; exact Safe.fault'
    | .int _, cls, fs, hd, hwf => by simp only [decodeBody, flatBody, iterFlat]; exact Safe.fault'
    | .float _, cls, fs, hd, hwf => by simp only [decodeBody, flatBody, iterFlat]; exact Safe.fault'
    | .nan, cls, fs, hd, hwf => by simp only [decodeBody, flatBody, iterFlat]; exact Safe.fault'
    | .other, cls, fs, hd, hwf => by simp only [decodeBody, flatBody, iterFlat]; exact Safe.fault'
    | .str s, cls, fs, hd, hwf => by
      simp only [decodeBody, flatBody, iterFlat]
      exact Safe.bind (flatFields_safe R hG fs fs [] _ _ (flatFieldsOk R L hG fs hwf) (by simp) hd (fun _ => accOk_init R fs))
        (fun a ha => finish_safe R cls fs a ha)
    | .bytes bs, cls, fs, hd, hwf => by
      simp only [decodeBody, flatBody, iterFlat]
      exact Safe.bind (flatFields_safe R hG fs fs [] _ _ (flatFieldsOk R L hG fs hwf) (by simp) hd (fun _ => accOk_init R fs))
        (fun a ha => finish_safe R cls fs a ha)

  theorem decodeItems_safe (L : LeafLaws F) (hG : G.Good) (hR : regWf R) : ∀ (ds : List Doc) (t : Ty), wfTy t = true →
      Safe cfg (fun l => hasTyItems R t l = true) (decodeItems F G cfg R t ds)
    | [], t, _ => by simp only [decodeItems]; exact Safe.good (fun _ => by simp [hasTyItems])
    | d :: ds, t, hwf => by
      simp only [decodeItems]
      apply Safe.bind (decode_safe L hG hR d t hwf)
      intro v hv
      apply Safe.bind (decodeItems_safe L hG hR ds t hwf)
      intro vs hvs
      exact Safe.good (fun hs => by simp [hasTyItems, hv hs, hvs hs])

  theorem decodeKvs_safe (L : LeafLaws F) (hG : G.Good) (hR : regWf R) : ∀ (kvs : List (Key × Doc)) (fs : Fields) (a : Acc), wfFields fs = true →
      (cfg.soft = true → accOk R fs a = true) →
      Safe cfg (fun a' => accOk R fs a' = true) (decodeKvs F G cfg R fs kvs a)
    | [], fs, a, _, ha => by simp only [decodeKvs]; exact Safe.good ha
    | (k, v) :: rest, fs, a, hwf, ha => by
      rw [decodeKvs]
      apply Safe.bind (keyName_safe k)
      intro nm _
      cases nm with
      | none => exact decodeKvs_safe L hG hR rest fs a hwf ha
      | some n =>
        simp only []
        cases hl : lookupField fs n with
        | none => exact decodeKvs_safe L hG hR rest fs a hwf ha
        | some t =>
          have hwt := wfTy_of_lookup fs n t hl hwf
          simp only []
          apply Safe.bind (okA := fun a' => accOk R fs a' = true) ?_ (fun a' ha' => decodeKvs_safe L hG hR rest fs a' hwf ha')
          cases hr : t.occ.repeated
          · simp only [Bool.false_eq_true, if_false]
            exact Safe.bind (decode_safe L hG hR v t hwt) (fun x hx => put_safe R hG fs a n t x ha hl hr hx)
          · simp only [if_true]
            have items : Safe cfg (fun l => ∀ y ∈ l, hasTyOne R t y = true)
                (match v with
                 | .list ds => decodeItems F G cfg R t ds
                 | .map kvs => mapRes (fun x => flatOne F G cfg t x) (keyDocs kvs)
                 | d => (match iterFlat d with
                         | some xs => mapRes (fun x => flatOne F G cfg t x) xs
                         | none => repeatedScalar G)) := by
              cases v with
              | list ds => exact Safe.mono (decodeItems_safe L hG hR ds t hwt) (fun l hl => (hasTyItems_iff R t l).1 hl)
              | map kvs' => exact flatItems_safe R t (flatOne_safe R L hG t hwt) _
              | str s => exact flatItems_safe R t (flatOne_safe R L hG t hwt) _
              | bytes bs => exact flatItems_safe R t (flatOne_safe R L hG t hwt) _
              | _ => exact repeatedScalar_safe hG _
            exact Safe.bind items (fun vs hvs => putItems_safe R hG fs a n t vs ha hl hr hvs)

  theorem decodePos_safe (L : LeafLaws F) (hG : G.Good) (hR : regWf R) : ∀ (ds : List Doc) (all pre fs : Fields) (a : Acc), all = pre ++ fs →
      namesDistinct (all.map (·.1)) = true → wfFields fs = true → (cfg.soft = true → accOk R all a = true) →
      Safe cfg (fun a' => accOk R all a' = true) (decodePos F G cfg R all fs ds a)
    | [], all, pre, fs, a, _, _, _, ha => by rw [decodePos.eq_def]; exact Safe.good ha
    | v :: rest, all, pre, fs, a, hall, hnd, hwf, ha => by
      cases fs with
      | nil => rw [decodePos.eq_def]; exact Safe.good ha
      | cons nt fs' =>
        obtain ⟨n, t⟩ := nt
        have hw : wfTy t = true ∧ wfFields fs' = true := by simpa [wfFields] using hwf
        have hnn : n ∉ pre.map (·.1) := by
          subst hall
          exact (namesDistinct_append_cons (pre.map (·.1)) n (fs'.map (·.1)) (by simpa using hnd)).1
        have hl : lookupField all n = some t := by subst hall; exact lookupField_at pre n t fs' hnn
        rw [decodePos.eq_def]
        simp only []
        apply Safe.bind (okA := fun a' => accOk R all a' = true) ?_
          (fun a' ha' => decodePos_safe L hG hR rest all (pre ++ [(n, t)]) fs' a' (by simp [hall]) hnd hw.2 ha')
        cases hr : t.occ.repeated
        · simp only [Bool.false_eq_true, if_false]
          exact Safe.bind (decode_safe L hG hR v t hw.1) (fun x hx => put_safe R hG all a n t x ha hl hr hx)
        · simp only [if_true]
          have items : Safe cfg (fun l => ∀ y ∈ l, hasTyOne R t y = true)
              (match v with
               | .list ds => decodeItems F G cfg R t ds
               | .map kvs => mapRes (fun x => flatOne F G cfg t x) (keyDocs kvs)
               | d => (match iterFlat d with
                       | some xs => mapRes (fun x => flatOne F G cfg t x) xs
                       | none => repeatedScalar G)) := by
            cases v with
            | list ds => exact Safe.mono (decodeItems_safe L hG hR ds t hw.1) (fun l hl => (hasTyItems_iff R t l).1 hl)
            | map kvs' => exact flatItems_safe R t (flatOne_safe R L hG t hw.1) _
            | str s => exact flatItems_safe R t (flatOne_safe R L hG t hw.1) _
            | bytes bs => exact flatItems_safe R t (flatOne_safe R L hG t hw.1) _
            | _ => exact repeatedScalar_safe hG _
          exact Safe.bind items (fun vs hvs => putItems_safe R hG all a n t vs ha hl hr hvs)
end


/-! ### requests -/

theorem requestMethod_safe (hG : G.Good) (k : Key) : Safe cfg (fun (_ : Option Text) => True) (requestMethod G cfg k) := by
  cases k <;> simp only [requestMethod] <;> first | exact Safe.good (fun _ => trivial) | skip
  case bytes bs =>
    split
    · split
      · exact Safe.good (fun _ => trivial)
      · simp only [hG.utf8, if_true]; exact Safe.fault'
    · exact Safe.good (fun _ => trivial)

theorem toCall_safe (hbody : G.missingBodyFault = true) (name : Text) (fields : Fields) (ok : Val → Prop) (r : Res Val)
    (h : Safe cfg ok r) : Safe cfg (fun v => ok v ∨ v = .obj name []) (toCall G name fields r) := by
  cases r with
  | fault => exact Safe.fault'
  | crash e => exact h.elim
  | ok v l =>
    cases v <;> simp only [toCall] <;>
      first
      | (exact fun hs => ⟨(h hs).1, Or.inl (h hs).2⟩)
      | (split
         · exact Safe.good (fun _ => Or.inr rfl)
         · (try simp only [hbody, if_true]); exact Safe.fault')

/-- C10 / C04 for a whole request: no exception escapes; under soft validation the user function is called with
    an argument tuple of the declared types -/
theorem decodeRequest_safe (L : LeafLaws F) (hG : G.Good) (hbody : G.missingBodyFault = true) (hR : regWf R)
    (name ns : Text) (base : Option Text) (fields : Fields) (o : Occ)
    (hwf : wfTy (.obj name ns base fields o) = true) (d : Doc) :
    Safe cfg (fun v => hasTyOne R (.obj name ns base fields o) v = true ∨ v = .obj name [])
      (decodeRequest F G cfg R (.obj name ns base fields o) d) := by
  have hdec := fun d => decode_safe R L hG hR (cfg := cfg) d (.obj name ns base fields o) hwf
  unfold decodeRequest
  simp only []
  cases hp : cfg.proto
  case msgpackRpc => exact toCall_safe hbody name fields _ _ (hdec d)
  all_goals
    simp only []
    cases d <;> first | exact Safe.fault' | skip
    case map kvs =>
      match kvs with
      | [] => exact Safe.fault'
      | [(k, body)] =>
        simp only []
        apply Safe.bind (requestMethod_safe hG k)
        intro m _
        split
        · exact Safe.fault'
        · split
          · cases hf : findBody G cfg name [(k, body)] with
            | none =>
              exact toCall_safe hbody name fields (fun v => hasTyOne R (.obj name ns base fields o) v = true) _
                (Safe.good (fun _ => by simp [hasTyOne]))
            | some b =>
              cases b <;> first
                | exact toCall_safe hbody name fields (fun v => hasTyOne R (.obj name ns base fields o) v = true) _
                    (Safe.good (fun _ => by simp [hasTyOne]))
                | exact toCall_safe hbody name fields _ _ (hdec _)
          · exact toCall_safe hbody name fields _ _ (hdec _)
      | _ :: _ :: _ => exact Safe.fault'


/-! ### bytes level -/

theorem createInDocument_safe (hparse : G.parseErrorsFault = true) (p : Parsed) : Safe cfg (fun (_ : Doc) => True) (createInDocument G p) := by
  cases p <;> simp only [createInDocument]
  · exact Safe.good (fun _ => trivial)
  · exact Safe.fault'
  · simp only [hparse, if_true]; exact Safe.fault'

theorem rpcCheck_safe (hparse : G.parseErrorsFault = true) (name : Text) (t m params : Doc) :
    Safe cfg (fun (_ : Doc) => True) (rpcCheck G name t m params) := by
  unfold rpcCheck
  simp only [hparse, if_true]
  split
  · exact Safe.fault'
  · split
    · split <;> exact Safe.fault'
    · cases m <;> simp only [] <;> first | exact Safe.fault' | skip
      case str s => split <;> first | exact Safe.good (fun _ => trivial) | exact Safe.fault'
      case bytes bs =>
        split
        · split <;> first | exact Safe.good (fun _ => trivial) | exact Safe.fault'
        · exact Safe.fault'

theorem rpcParams_safe (hparse : G.parseErrorsFault = true) (name : Text) (d : Doc) :
    Safe cfg (fun (_ : Doc) => True) (rpcParams G name d) := by
  unfold rpcParams
  split <;> first | exact rpcCheck_safe hparse name _ _ _ | exact Safe.fault'

/-- C10 for the whole input side: whatever the parser makes of the request bytes — a document of any shape, its
    documented decode error or any other exception — the server ends in a call or a client fault -/
theorem serverRun_safe (L : LeafLaws F) (hG : G.Good) (hbody : G.missingBodyFault = true)
    (hparse : G.parseErrorsFault = true) (hR : regWf R)
    (name ns : Text) (base : Option Text) (fields : Fields) (o : Occ)
    (hwf : wfTy (.obj name ns base fields o) = true) (p : Parsed) :
    Safe cfg (fun v => hasTyOne R (.obj name ns base fields o) v = true ∨ v = .obj name [])
      (serverRun F G cfg R (.obj name ns base fields o) p) := by
  unfold serverRun
  apply Safe.bind (createInDocument_safe hparse p)
  intro d _
  cases hp : cfg.proto <;> simp only []
  case msgpackRpc =>
    apply Safe.bind (rpcParams_safe hparse name d)
    intro params _
    exact decodeRequest_safe R L hG hbody hR name ns base fields o hwf params
  all_goals exact decodeRequest_safe R L hG hbody hR name ns base fields o hwf d

end SpyneModel.Hier
