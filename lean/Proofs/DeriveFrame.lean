/-
  C15 proofs, part 2: every model program respects the frame (`Good`).
-/
import Proofs.Derive
namespace SpyneModel.Derive

variable {n na : Nat} {T : List Nat}

/-- post-condition of programs that return a class: it is not in the base region -/
abbrev Fresh (n : Nat) : Nat → Prop := fun id => n ≤ id
abbrev Any {α : Type} : α → Prop := fun _ => True

theorem good_aliasColWrite (F : Facts15) [d : DeepCopy F] (a : Nat) (kw : Kw) :
    Good n na T (aliasColWrite F a kw) Any := by
  unfold aliasColWrite
  refine Good.bind Good.getHeap (fun h _ => ?_)
  split
  · exact Good.pure' _ trivial
  · simp only [d.deep, beq_self_eq_true, if_true]
    exact Good.pure' _ trivial

theorem good_protMerge (F : Facts15) [d : DeepCopy F] (prot : Option Nat) (kw : Kw) :
    Good n na T (protMerge F prot kw) Any := by
  unfold protMerge
  split
  · exact Good.pure' _ trivial
  · refine Good.bind Good.getHeap (fun h _ => ?_)
    split
    · exact Good.fail _
    · split
      · exact Good.pure' _ trivial
      · have hb : (F.protCopy == ProtCopy.shared) = false := by rw [d.protCopied]; rfl
        refine Good.bind (P := Any) ?_ (fun _ _ => Good.pure' _ trivial)
        rw [hb]
        exact Good.pure' _ trivial

theorem good_allocDerived (F : Facts15) [DeepCopy F] (a : Nat) (kw : Kw) :
    Good n na T (allocDerived F a kw) Any := by
  unfold allocDerived
  refine Good.bind Good.getHeap (fun h _ => ?_)
  refine Good.bind (good_aliasColWrite F a kw) (fun _ _ => ?_)
  exact Good.allocAttrs _

theorem good_simpleCustomize (F : Facts15) [DeepCopy F] (src : Nat) (kw : Kw) :
    Good n na T (simpleCustomize F src kw) (Fresh n) := by
  unfold simpleCustomize
  refine Good.bind (Good.getCls _) (fun sc _ => ?_)
  refine Good.bind (Good.guardNone _) (fun _ _ => ?_)
  refine Good.bind Good.getHeap (fun h _ => ?_)
  refine Good.bind (Good.guardNone _) (fun _ _ => ?_)
  refine Good.bind (good_allocDerived _ _ _) (fun a _ => ?_)
  refine Good.bind Good.getHeap (fun h1 _ => ?_)
  exact Good.allocCls _

theorem good_xmlCustomize (F : Facts15) [DeepCopy F] (src : Nat) (kw : Kw) : Good n na T (xmlCustomize F src kw) (Fresh n) := by
  unfold xmlCustomize
  refine Good.bind (Good.getCls _) (fun sc _ => ?_)
  refine Good.bind (Good.guardNone _) (fun _ _ => ?_)
  refine Good.bind (good_allocDerived _ _ _) (fun a _ => ?_)
  exact Good.allocCls _

theorem ext_registerVariant (h : Heap) (ra v : Nat) : Ext n na T h (registerVariant h ra v) := by
  unfold registerVariant
  split
  · exact ext_updCells _ _ _
  · exact ext_updCells _ _ _

theorem good_processVariants (root v a : Nat) : Good n na T (processVariants root v a) Any := by
  unfold processVariants
  refine Good.bind (Good.getCls _) (fun rc _ => ?_)
  refine Good.bind (Good.modifyHeap _ (fun h => ext_registerVariant h _ _)) (fun _ _ => ?_)
  exact Good.updCells _ _

theorem good_copyDca (a : Nat) : Good n na T (copyDca a) Any := by
  unfold copyDca
  exact Good.bind Good.getHeap (fun h _ => Good.updCells _ _)

theorem good_delayRest (c a : Nat) (rest : List (String × Kw)) : Good n na T (delayRest c a rest) Any := by
  unfold delayRest
  exact Good.bind Good.getHeap (fun h _ => Good.updCells _ _)

theorem good_regSub (ext : Option Nat) (c : Nat) (hT : ∀ e, ext = some e → n ≤ e ∨ e ∈ T) :
    Good n na T (regSub ext c) Any := by
  unfold regSub
  split
  · rename_i e
    exact Good.updCls _ _ (hT e rfl) (fun _ => ⟨rfl, rfl, rfl⟩)
  · exact Good.pure' _ trivial

theorem good_regSubVariant (F : Facts15) [d : DeepCopy F] (ext : Option Nat) (c : Nat) :
    Good n na T (regSubVariant F ext c) Any := by
  unfold regSubVariant
  have hb : (F.subsRule == SubsRule.alsoVariants) = false := by rw [d.subsClasses]; rfl
  rw [hb]
  exact Good.pure' _ trivial

theorem good_newVariantTail (rec0 : AttrRec) (sc : Cls) (src : Nat) (ext : Option Nat) (kw : Kw) :
    Good n na T (newVariantTail rec0 sc src ext kw) (fun p => n ≤ p.2) := by
  unfold newVariantTail
  refine Good.bind (Good.allocAttrs _) (fun a _ => ?_)
  refine Good.bind (Good.allocCls _) (fun c hc => ?_)
  refine Good.bind (good_copyDca _) (fun _ _ => ?_)
  refine Good.bind (good_processVariants _ _ _) (fun _ _ => ?_)
  exact Good.pure' _ hc

theorem good_newVariant (F : Facts15) [DeepCopy F] (sc : Cls) (src : Nat) (ext : Option Nat) (kw : Kw) :
    Good n na T (newVariant F sc src ext kw) (fun p => n ≤ p.2) := by
  unfold newVariant
  refine Good.bind Good.getHeap (fun h _ => ?_)
  refine Good.bind (good_aliasColWrite F _ kw) (fun _ _ => ?_)
  exact good_newVariantTail _ _ _ _ _

/-- the mutually recursive customisation programs, all at once, by induction on the fuel -/
structure GoodCust (F : Facts15) (n na : Nat) (T : List Nat) (fuel : Nat) : Prop where
  custComplex : ∀ src kw ca caa, Good n na T (custComplex F fuel src kw ca caa) (Fresh n)
  processCaa : ∀ c a fields ext caa, (n ≤ c ∨ c ∈ T) → Good n na T (processCaa F fuel c a fields ext caa) Any
  processCa : ∀ c a ca, (n ≤ c ∨ c ∈ T) → Good n na T (processCa F fuel c a ca) Any
  custExt : ∀ c ext ca caa, (n ≤ c ∨ c ∈ T) → Good n na T (custExt F fuel c ext ca caa) Any
  customizeAny : ∀ src kw, Good n na T (customizeAny F fuel src kw) (Fresh n)
  custField : ∀ c k kw, (n ≤ c ∨ c ∈ T) → Good n na T (custField F fuel c k kw) Any
  custFieldsAll : ∀ c fields d, (n ≤ c ∨ c ∈ T) → Good n na T (custFieldsAll F fuel c fields d) Any
  custFieldsSome : ∀ c cs, (n ≤ c ∨ c ∈ T) → Good n na T (custFieldsSome F fuel c cs) Any

theorem goodCust (F : Facts15) [DeepCopy F] (fuel : Nat) : GoodCust F n na T fuel := by
  induction fuel with
  | zero =>
    constructor <;> intros <;> simp only [custComplex, processCaa, processCa, custExt, customizeAny, custField,
      custFieldsAll, custFieldsSome] <;> exact Good.fail _
  | succ fuel ih =>
    constructor
    · intro src kw ca caa
      simp only [custComplex]
      refine Good.bind (Good.getCls _) (fun sc _ => ?_)
      refine Good.bind (Good.guardNone _) (fun _ _ => ?_)
      refine Good.bind Good.getHeap (fun h _ => ?_)
      refine Good.bind (Good.liftExcept _) (fun ext _ => ?_)
      refine Good.bind (good_newVariant _ _ _ _ _) (fun an hc => ?_)
      refine Good.bind (good_regSubVariant _ _ _) (fun _ _ => ?_)
      refine Good.bind (ih.processCaa _ _ _ _ _ (Or.inl hc)) (fun _ _ => ?_)
      refine Good.bind (ih.processCa _ _ _ (Or.inl hc)) (fun _ _ => ?_)
      exact Good.pure' _ hc
    · intro c a fields ext caa hc
      unfold processCaa
      split
      · exact Good.pure' _ trivial
      · refine Good.bind (ih.custFieldsAll _ _ _ hc) (fun _ _ => ?_)
        refine Good.bind (ih.custExt _ _ _ _ hc) (fun _ _ => ?_)
        exact Good.updCells _ _
    · intro c a ca hc
      unfold processCa
      split
      · exact Good.pure' _ trivial
      · refine Good.bind (ih.custFieldsSome _ _ hc) (fun rest _ => ?_)
        refine Good.bind (Good.getCls _) (fun cn _ => ?_)
        refine Good.bind (ih.custExt _ _ _ _ hc) (fun _ _ => ?_)
        exact good_delayRest _ _ _
    · intro c ext ca caa hc
      unfold custExt
      split
      · exact Good.pure' _ trivial
      · refine Good.bind (ih.custComplex _ _ _ _) (fun e' _ => ?_)
        exact Good.updCls _ _ hc (fun _ => ⟨rfl, rfl, rfl⟩)
    · intro src kw
      simp only [customizeAny]
      refine Good.bind (Good.getCls _) (fun sc _ => ?_)
      split
      · exact ih.custComplex _ _ _ _
      · exact ih.custComplex _ _ _ _
      · exact ih.custComplex _ _ _ _
      · exact good_xmlCustomize _ _ _
      · exact good_simpleCustomize _ _ _
    · intro c k kw hc
      simp only [custField]
      refine Good.bind (Good.getCls _) (fun cn _ => ?_)
      split
      · refine Good.bind (ih.customizeAny _ _) (fun t' _ => ?_)
        exact Good.updCls _ _ hc (fun _ => ⟨rfl, rfl, rfl⟩)
      · exact Good.pure' _ trivial
    · intro c fields d hc
      unfold custFieldsAll
      split
      · exact Good.pure' _ trivial
      · refine Good.bind (ih.custField _ _ _ hc) (fun _ _ => ?_)
        exact ih.custFieldsAll _ _ _ hc
    · intro c cs hc
      unfold custFieldsSome
      split
      · exact Good.pure' _ trivial
      · refine Good.bind (Good.getCls _) (fun cn _ => ?_)
        split
        · refine Good.bind (ih.custField _ _ _ hc) (fun _ _ => ?_)
          exact ih.custFieldsSome _ _ hc
        · refine Good.bind (ih.custFieldsSome _ _ hc) (fun r _ => ?_)
          exact Good.pure' _ trivial

theorem good_customizeAny (F : Facts15) [DeepCopy F] (fuel src : Nat) (kw : Kw) :
    Good n na T (customizeAny F fuel src kw) (Fresh n) := (goodCust F fuel).customizeAny src kw

theorem good_custComplex (F : Facts15) [DeepCopy F] (fuel src : Nat) (kw : Kw) (ca : Option (List (String × Kw))) (caa : Option Kw) :
    Good n na T (custComplex F fuel src kw ca caa) (Fresh n) := (goodCust F fuel).custComplex src kw ca caa

theorem good_setSerializer (F : Facts15) [DeepCopy F] (fuel r ser : Nat) (member : Option String) (hr : n ≤ r ∨ r ∈ T) :
    Good n na T (setSerializer F fuel r ser member) Any := by
  unfold setSerializer
  refine Good.bind (Good.getCls _) (fun sc _ => ?_)
  refine Good.bind Good.getHeap (fun h _ => ?_)
  refine Good.bind (P := Any) ?_ (fun ser' _ => Good.updCls _ _ hr (fun _ => ⟨rfl, rfl, rfl⟩))
  unfold unboundedSer
  split
  · exact (good_customizeAny _ _ _ _).weaken (fun _ _ => trivial)
  · exact Good.pure' _ trivial

theorem good_arrayOp (F : Facts15) [DeepCopy F] (fuel src : Nat) (member : Option String) (kw : Kw) (flat iter : Bool) :
    Good n na T (arrayOp F fuel src member kw flat iter) (Fresh n) := by
  unfold arrayOp
  refine Good.bind (Good.getCls _) (fun sc _ => ?_)
  refine Good.bind Good.getHeap (fun h _ => ?_)
  split
  · exact good_customizeAny _ _ _ _
  · refine Good.bind (good_custComplex _ _ _ _ _ _) (fun r hr => ?_)
    refine Good.bind (good_setSerializer _ _ _ _ _ (Or.inl hr)) (fun _ _ => ?_)
    refine Good.bind (Good.updCls _ _ (Or.inl hr) (fun _ => ⟨rfl, rfl, rfl⟩)) (fun _ _ => ?_)
    exact Good.pure' _ hr

theorem good_arraySA (F : Facts15) [DeepCopy F] (fuel src : Nat) (sa kw : Kw) (ca : Option (List (String × Kw)))
    (caa : Option Kw) : Good n na T (arraySA F fuel src sa kw ca caa) (Fresh n) := by
  unfold arraySA
  refine Good.bind (Good.getCls _) (fun sc _ => ?_)
  split
  · refine Good.bind (good_customizeAny _ _ _ _) (fun m' _ => ?_)
    refine Good.bind (good_custComplex _ _ _ _ _ _) (fun r1 hr => ?_)
    refine Good.bind (good_setSerializer _ _ _ _ _ (Or.inl hr)) (fun _ _ => ?_)
    exact good_custComplex _ _ _ _ _ _
  · exact Good.fail _

/-- Mandatory, with the rule that gives the *new* class the mandatory member -/
structure GoodMand (F : Facts15) (n na : Nat) (T : List Nat) (fuel : Nat) : Prop where
  mandatory : ∀ src, Good n na T (mandatory F fuel src) (Fresh n)
  mandMember : ∀ b target, (n ≤ target ∨ target ∈ T) → Good n na T (mandMember F fuel b target) Any

theorem goodMand (F : Facts15) [DeepCopy F] (hF : F.mandRule = .copies) (fuel : Nat) : GoodMand F n na T fuel := by
  induction fuel with
  | zero => constructor <;> intros <;> simp only [mandatory, mandMember] <;> exact Good.fail _
  | succ fuel ih =>
    constructor
    · intro src
      simp only [mandatory]
      refine Good.bind (Good.getCls _) (fun sc _ => ?_)
      split
      · rename_i hc
        simp [hF] at hc
      · refine Good.bind (good_customizeAny _ _ _ _) (fun r hr => ?_)
        refine Good.bind (ih.mandMember _ _ (Or.inl hr)) (fun _ _ => ?_)
        exact Good.pure' _ hr
    · intro b target ht
      unfold mandMember
      split
      · exact Good.pure' _ trivial
      · refine Good.bind (Good.getCls _) (fun tc _ => ?_)
        split
        · refine Good.bind Good.getHeap (fun h _ => ?_)
          split
          · refine Good.bind (ih.mandatory _) (fun m _ => ?_)
            exact Good.updCls _ _ ht (fun _ => ⟨rfl, rfl, rfl⟩)
          · exact Good.pure' _ trivial
        · exact Good.fail _

theorem good_subclassRest (F : Facts15) (b : Nat) (bc : Cls) (ext : Option Nat) (name : String) (ns : Option String)
    (fields : List (String × Nat)) (perm : List Nat) (attrs : Option Kw) (mixins : List Nat) (asMixin : Bool)
    (hT : ∀ e, ext = some e → n ≤ e ∨ e ∈ T) :
    Good n na T (subclassRest F b bc ext name ns fields perm attrs mixins asMixin) (Fresh n) := by
  unfold subclassRest
  refine Good.bind Good.getHeap (fun h _ => ?_)
  refine Good.bind (Good.guardNone _) (fun _ _ => ?_)
  refine Good.bind (Good.allocBoth _ _) (fun c hc => ?_)
  refine Good.bind (good_regSub _ _ hT) (fun _ _ => ?_)
  exact Good.pure' _ hc

theorem good_xmlattrOp (F : Facts15) (src : Nat) : Good n na T (xmlattrOp F src) (Fresh n) := by
  unfold xmlattrOp
  refine Good.bind (Good.getCls _) (fun sc _ => ?_)
  refine Good.bind (Good.getCls _) (fun rc _ => ?_)
  refine Good.bind (Good.guardNone _) (fun _ _ => ?_)
  exact Good.allocCls _

theorem good_delayedAll (F : Facts15) [DeepCopy F] (fuel c t : Nat) : Good n na T (delayedAll F fuel c t) Any := by
  unfold delayedAll
  refine Good.bind (Good.getCls _) (fun cl _ => ?_)
  refine Good.bind Good.getHeap (fun h _ => ?_)
  split
  · exact (good_customizeAny _ _ _ _).weaken (fun _ _ => trivial)
  · exact Good.pure' _ trivial

theorem good_delayedOne (F : Facts15) [DeepCopy F] (fuel c : Nat) (name : String) (t : Nat) (pop : Bool) :
    Good n na T (delayedOne F fuel c name t pop) Any := by
  unfold delayedOne
  refine Good.bind (Good.getCls _) (fun cl _ => ?_)
  refine Good.bind Good.getHeap (fun h _ => ?_)
  split
  · split
    · refine Good.bind (Good.whenM _ (Good.updCells _ _)) (fun _ _ => ?_)
      exact (good_customizeAny _ _ _ _).weaken (fun _ _ => trivial)
    · exact Good.pure' _ trivial
  · exact Good.pure' _ trivial

theorem good_delayedBoth (F : Facts15) [DeepCopy F] (fuel : Nat) (order : DelayOrder) (c : Nat) (name : String) (t : Nat)
    (pop : Bool) : Good n na T (delayedBoth F fuel order c name t pop) Any := by
  unfold delayedBoth
  cases order with
  | allFirst => exact Good.bind (good_delayedAll _ _ _ _) (fun t1 _ => good_delayedOne _ _ _ _ _ _)
  | oneFirst => exact Good.bind (good_delayedOne _ _ _ _ _ _) (fun t1 _ => good_delayedAll _ _ _ _)

theorem good_appendImpl (F : Facts15) [DeepCopy F] (fuel : Nat) (name : String) (t c : Nat) (hc : n ≤ c ∨ c ∈ T) :
    Good n na T (appendImpl F fuel name t c) Any := by
  unfold appendImpl
  refine Good.bind (good_delayedBoth _ _ _ _ _ _ _) (fun t2 _ => ?_)
  exact Good.updCls _ _ hc (fun _ => ⟨rfl, rfl, rfl⟩)

theorem good_insertImpl (F : Facts15) [DeepCopy F] (fuel idx : Nat) (name : String) (t c : Nat) (hc : n ≤ c ∨ c ∈ T) :
    Good n na T (insertImpl F fuel idx name t c) Any := by
  unfold insertImpl
  refine Good.bind (good_delayedBoth _ _ _ _ _ _ _) (fun t2 _ => ?_)
  exact Good.updCls _ _ hc (fun _ => ⟨rfl, rfl, rfl⟩)

end SpyneModel.Derive
