/-
  C16 (dict-document part): wrapper-key polymorphism. An instance of a registered subclass written where the base
  class is declared carries the subclass name as wrapper key and the subclass's members, and is read back as an
  instance of that subclass; without polymorphism only the declared class's members are written.
-/
import Proofs.HierC02
namespace SpyneModel.Hier
open SpyneModel

variable {F : Facts08} {G : Facts02} {cfg : Cfg} {S : Spell} {rd : Bool}

theorem polyTarget_sub (R : Registry) (hpoly : S.poly = true) (name : Text) (fs : Fields) (cd : ClassDef)
    (hfind : R.find? cd.name = some cd) (hne : cd.name ≠ name) (hsub : R.hier.isSub R.length cd.name name = true) :
    polyTarget S R name fs cd.name = (cd.name, cd.fields) := by
  simp [polyTarget, hpoly, hne, hsub, hfind]

theorem mem_subclassesOf (R : Registry) (name : Text) (cd : ClassDef) (hmem : cd ∈ R) (hne : cd.name ≠ name)
    (hsub : R.hier.isSub R.length cd.name name = true) : (subclassesOf R name).isEmpty = false := by
  have : cd ∈ subclassesOf R name := by
    simp only [subclassesOf, List.mem_filter, Bool.and_eq_true, bne_iff_ne, ne_eq]
    exact ⟨hmem, by simpa using hne, hsub⟩
  cases h : subclassesOf R name with
  | nil => rw [h] at this; cases this
  | cons a b => rfl

theorem resolveClass_sub (R : Registry) (name : Text) (fs : Fields) (cd : ClassDef)
    (hfind : R.find? cd.name = some cd) (hne : cd.name ≠ name) (hsub : R.hier.isSub R.length cd.name name = true) :
    resolveClass R name fs (some cd.name) = .good (cd.name, cd.fields) := by
  have hmem := (find?_mem' R cd.name cd hfind)
  unfold resolveClass
  simp only [Option.some.injEq, hne, if_false, mem_subclassesOf R name cd hmem hne hsub, Bool.false_eq_true, hfind]
  simp [hne, hsub]
where
  find?_mem' (R : Registry) (k : Text) (c : ClassDef) (h : R.find? k = some c) : c ∈ R := by
    unfold Registry.find? at h
    exact List.mem_of_find?_eq_some h

/-- polymorphic round trip of one occurrence: the runtime class is kept -/
theorem poly_roundtrip (R : Registry) (C : RtCtx F G cfg S rd) (hpoly : S.poly = true) (hiw : S.iw = false)
    (name ns : Text) (base : Option Text) (fields : Fields) (o : Occ) (cd : ClassDef)
    (hfind : R.find? cd.name = some cd) (hne : cd.name ≠ name) (hsub : R.hier.isSub R.length cd.name name = true)
    (hnwn : cfg.notWrapped.contains name = false) (hnwc : cfg.notWrapped.contains cd.name = false)
    (hnd : namesDistinct (cd.fields.map (·.1)) = true) (hwf : wfFields cd.fields = true)
    (fvs : List (Text × Val)) (hc : conformsFields cd.fields fvs = true)
    (hmp : cfg.proto.isMsgpack = true → fitsFields F fvs = true ∧ (rd = true → mpReadableFields cd.fields = true))
    (hpl : plainFields S.cas cd.fields fvs = true) :
    decode F G cfg R (.obj name ns base fields o) (encOne R S (.obj name ns base fields o) (.obj cd.name fvs))
      = .good (.obj cd.name fvs) := by
  have hcas : S.cas = .dict := by
    have := C.hsc; simpa [Spell.consistent, hiw] using this
  have hiw' : cfg.ignoreWrappers = false := by rw [← C.hiw]; exact hiw
  have hu : cfg.unwrapped name = false := by simp only [Cfg.unwrapped, hiw', hnwn, Bool.or_false]
  have hnwS : S.nw cd.name = false := by rw [C.hnw]; exact hnwc
  have hk := kvs_rt R C hcas cd.fields cd.fields [] fvs [] (rt_fields R C cd.fields) (by simp) (by simpa using hnd)
    (by simp [slotNames]) hwf hc hmp hpl
  simp only [List.nil_append] at hk
  simp only [encOne, polyTarget_sub R hpoly name fields cd hfind hne hsub, wrapPairs, hcas, hiw, hnwS, Bool.or_false,
    Bool.false_eq_true, if_false]
  simp only [decode, hu, Bool.false_eq_true, if_false, decodeWrapped, C.hwkey, Res.good_bind,
    resolveClass_sub R name fields cd hfind hne hsub, decodeBody]
  have hk' : decodeKvs F G cfg R cd.fields (List.map (fun p => (S.kOut p.fst, p.snd)) (encodeFields S R cd.fields fvs))
      (initAcc cd.fields) = Res.good (finalSlots S cd.fields fvs) := hk
  rw [hk']; simp [finish_final C cd.name cd.fields fvs hwf hc]

/-- an array (or repeated member) whose items each survive the round trip survives as a whole: arrays of the
    base type may hold any mix of base and subclass instances -/
theorem items_roundtrip_of_each (R : Registry) (t : Ty) (vs : List Val)
    (h : ∀ v ∈ vs, decode F G cfg R t (encOne R S t v) = .good v) :
    decodeItems F G cfg R t (encodeItems S R t vs) = .good vs := by
  induction vs with
  | nil => simp [decodeItems]
  | cons v vs ih =>
    rw [encodeItems_cons, decodeItems_cons, h v (by simp), ih (fun w hw => h w (by simp [hw]))]
    simp

/-- without polymorphism the members written for any instance are members of the declared class, in order -/
theorem encodeFields_names (R : Registry) : ∀ (fs : Fields) (fvs : List (Text × Val)),
    ((encodeFields S R fs fvs).map (·.1)).Sublist (fs.map (·.1)) := by
  intro fs
  induction fs with
  | nil => intro fvs; simp [encodeFields]
  | cons nt fs ih =>
    obtain ⟨n, t⟩ := nt
    intro fvs
    cases fvs with
    | nil => simp [encodeFields]
    | cons mv fvs' =>
      obtain ⟨m, v⟩ := mv
      simp only [encodeFields, List.map_append, List.map_cons]
      split
      · simpa using (ih fvs').cons₂ n
      · simpa using (ih fvs').cons n

end SpyneModel.Hier
