/-
  C03: a concrete signature, spelled value and documents, used by the non-vacuity examples of
  Props/C03.lean.  `f(p: Array(C), q: Boolean)` with `class C: i = Integer; s = Unicode`.
-/
import Proofs.FlatRound
import SpyneModel.Generated.Facts03
namespace SpyneModel.Flat.Ex
open SpyneModel SpyneModel.Flat SpyneModel.Generated

def occ1 : Occ := ⟨false, 0, some 1, true⟩
def occN : Occ := ⟨true, 0, none, true⟩
def pInt : PK := .integer .unbounded {}
def pStr : PK := .unicode 0 none none []
def pBool : PK := .boolean
def clsC : Ty := .obj 2 [("i".toList, occ1, .prim pInt), ("s".toList, occ1, .prim pStr)]
def sig : List Fld := [("p".toList, occN, clsC), ("q".toList, occ1, .prim pBool)]
def dot : Text := ".".toList

/-- `p[2].i=7&p[2].s=x&p[10].i=5&q=true`: sparse indexes -/
def sparse : Members :=
  [("p".toList, .arr [(2, [("i".toList, .leaf (.int 7)), ("s".toList, .leaf (.str "x".toList))]),
                      (10, [("i".toList, .leaf (.int 5))])]),
   ("q".toList, .leaf (.bool true))]

/-- the same with indexes 0, 1 -/
def contig : Members :=
  [("p".toList, .arr [(0, [("i".toList, .leaf (.int 7)), ("s".toList, .leaf (.str "x".toList))]),
                      (1, [("i".toList, .leaf (.int 5))])]),
   ("q".toList, .leaf (.bool true))]

theorem sig_wf : WfSig sig := by simp [WfSig, NamesOk, WfFields, WfTy, sig, clsC]
theorem sig_keys : KeysOk dot sig := by unfold KeysOk; decide
theorem sig_opt : OptFields sig := by simp [OptFields, OptTy, sig, clsC, occ1, occN]

theorem int_ok (i : Int) (h : (intToText i).length ≤ facts03.leaf.intMaxStrLen .unbounded) : LeafOk facts03 pInt (.int i) :=
  ⟨by simp [pInt, PrimTy.valueOk, IntKind.lo, IntKind.hi, Range.holds], by simpa [fitsGuard, pInt] using h⟩

theorem sparse_wt : WtMembers facts03 sig sparse := by
  refine ⟨by decide, ⟨occN, 2, _, rfl, rfl, ⟨by decide, trivial⟩, ?_⟩, ⟨by decide, ⟨occ1, pBool, rfl, rfl, ⟨rfl, rfl⟩⟩, trivial⟩⟩
  refine ⟨by simp, ⟨by decide, ⟨occ1, pInt, rfl, rfl, int_ok 7 (by decide +kernel)⟩,
    ⟨by decide, ⟨occ1, pStr, rfl, rfl, ⟨by decide, rfl⟩⟩, trivial⟩⟩, ?_⟩
  exact ⟨by simp, ⟨by decide, ⟨occ1, pInt, rfl, rfl, int_ok 5 (by decide +kernel)⟩, trivial⟩, trivial⟩

theorem contig_wt : WtMembers facts03 sig contig := by
  refine ⟨by decide, ⟨occN, 2, _, rfl, rfl, ⟨by decide, trivial⟩, ?_⟩, ⟨by decide, ⟨occ1, pBool, rfl, rfl, ⟨rfl, rfl⟩⟩, trivial⟩⟩
  refine ⟨by simp, ⟨by decide, ⟨occ1, pInt, rfl, rfl, int_ok 7 (by decide +kernel)⟩,
    ⟨by decide, ⟨occ1, pStr, rfl, rfl, ⟨by decide, rfl⟩⟩, trivial⟩⟩, ?_⟩
  exact ⟨by simp, ⟨by decide, ⟨occ1, pInt, rfl, rfl, int_ok 5 (by decide +kernel)⟩, trivial⟩, trivial⟩

theorem contig_contig : ContigMembers contig := by
  simp [ContigMembers, ContigVal, ContigElems, contig, List.range, List.range.loop]

theorem contig_inorder : InOrder sig contig := by
  simp [InOrder, InOrderAll, InOrderVal, InOrderElems, contig, sig, clsC, subOf, lookupFld]

/-- 12 elements `p[0].i=0 … p[11].i=11` (the 9 -> 10 boundary) -/
def twelve : Doc :=
  ["p[0].i", "p[1].i", "p[2].i", "p[3].i", "p[4].i", "p[5].i", "p[6].i", "p[7].i", "p[8].i", "p[9].i",
   "p[10].i", "p[11].i"].map (fun k => (k.toList, [some "1".toList]))

/-- `f(a: Inner, b: Inner)` with `class Inner: x = Integer`: the same class for two arguments -/
def clsInner : Ty := .obj 5 [("x".toList, occ1, .prim pInt)]
def sigAB : List Fld := [("a".toList, occ1, clsInner), ("b".toList, occ1, clsInner)]
def docAB : Doc := [("a.x".toList, [some "1".toList]), ("b.x".toList, [some "2".toList])]
def valAB : Members := [("a".toList, .obj [("x".toList, .leaf (.int 1))]), ("b".toList, .obj [("x".toList, .leaf (.int 2))])]

def isOk {α : Type} : Outcome α → Bool
  | .ok _ => true
  | _ => false

def isFault {α : Type} : Outcome α → Bool
  | .fault => true
  | _ => false

end SpyneModel.Flat.Ex
