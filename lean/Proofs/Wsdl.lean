/- Lemmas for C07 (WSDL/XSD rendering): sorting, toposort2, prefix tables. General in `F : Facts07`. -/
import SpyneModel.Wsdl
namespace SpyneModel.Wsdl
open SpyneModel

/-! ## the order of `sorted` -/

theorem leNats_refl (a : List Nat) : leNats a a = true := by
  induction a with
  | nil => rfl
  | cons x xs ih => simp [leNats, ih]

theorem leNats_total (a b : List Nat) : leNats a b = true ∨ leNats b a = true := by
  induction a generalizing b with
  | nil => left; rfl
  | cons x xs ih =>
    cases b with
    | nil => right; rfl
    | cons y ys =>
      simp only [leNats]
      by_cases h1 : x < y
      · left; simp [h1]
      · by_cases h2 : y < x
        · right; simp [h2]
        · have : x = y := by omega
          subst this
          simp only [Nat.lt_irrefl, if_false]
          exact ih ys

theorem leNats_antisymm (a b : List Nat) (h1 : leNats a b = true) (h2 : leNats b a = true) : a = b := by
  induction a generalizing b with
  | nil => cases b with
    | nil => rfl
    | cons y ys => simp [leNats] at h2
  | cons x xs ih =>
    cases b with
    | nil => simp [leNats] at h1
    | cons y ys =>
      simp only [leNats] at h1 h2
      by_cases hxy : x < y
      · have : ¬ y < x := by omega
        simp [hxy, this] at h2
      · by_cases hyx : y < x
        · simp [hxy, hyx] at h1
        · have : x = y := by omega
          subst this
          simp only [Nat.lt_irrefl, if_false] at h1 h2
          rw [ih ys h1 h2]

theorem leNats_trans (a b c : List Nat) (h1 : leNats a b = true) (h2 : leNats b c = true) : leNats a c = true := by
  induction a generalizing b c with
  | nil => rfl
  | cons x xs ih =>
    cases b with
    | nil => simp [leNats] at h1
    | cons y ys =>
      cases c with
      | nil => simp [leNats] at h2
      | cons z zs =>
        simp only [leNats] at h1 h2 ⊢
        by_cases hxy : x < y
        · by_cases hyz : y < z
          · have : x < z := by omega
            simp [this]
          · by_cases hzy : z < y
            · simp [hyz, hzy] at h2
            · have : y = z := by omega
              subst this; simp [hxy]
        · by_cases hyx : y < x
          · simp [hxy, hyx] at h1
          · have : x = y := by omega
            subst this
            simp only [Nat.lt_irrefl, if_false] at h1
            by_cases hxz : x < z
            · simp [hxz]
            · by_cases hzx : z < x
              · simp [hxz, hzx] at h2
              · simp only [hxz, hzx, if_false] at h2 ⊢
                exact ih ys zs h1 h2

theorem map_toNat_inj : ∀ (a b : List Char), a.map Char.toNat = b.map Char.toNat → a = b
  | [], [], _ => rfl
  | [], _ :: _, h => by simp at h
  | _ :: _, [], h => by simp at h
  | x :: xs, y :: ys, h => by
    simp only [List.map_cons, List.cons.injEq] at h
    rw [Char.toNat_inj.mp h.1, map_toNat_inj xs ys h.2]

theorem skey_inj {a b : String} (h : skey a = skey b) : a = b :=
  String.toList_inj.mp (map_toNat_inj _ _ h)

theorem insBy_perm {α : Type} (key : α → List Nat) (x : α) (l : List α) : (insBy key x l).Perm (x :: l) := by
  induction l with
  | nil => exact List.Perm.refl _
  | cons y ys ih =>
    simp only [insBy]
    split
    · exact List.Perm.refl _
    · exact (List.Perm.cons y ih).trans (List.Perm.swap x y ys)

theorem isortBy_perm {α : Type} (key : α → List Nat) (l : List α) : (isortBy key l).Perm l := by
  induction l with
  | nil => exact List.Perm.refl _
  | cons x xs ih => exact (insBy_perm key x _).trans (List.Perm.cons x ih)

theorem insBy_sorted {α : Type} (key : α → List Nat) (x : α) (l : List α)
    (h : List.Pairwise (fun a b => leNats (key a) (key b) = true) l) :
    List.Pairwise (fun a b => leNats (key a) (key b) = true) (insBy key x l) := by
  induction l with
  | nil => simp [insBy]
  | cons y ys ih =>
    simp only [insBy]
    have hy := List.pairwise_cons.mp h
    split
    · rename_i hxy
      refine List.pairwise_cons.mpr ⟨?_, h⟩
      intro z hz
      rcases List.mem_cons.mp hz with rfl | hz
      · exact hxy
      · exact leNats_trans _ _ _ hxy (hy.1 z hz)
    · rename_i hxy
      refine List.pairwise_cons.mpr ⟨?_, ih hy.2⟩
      intro z hz
      have hz' := (insBy_perm key x ys).mem_iff.mp hz
      rcases List.mem_cons.mp hz' with rfl | hz'
      · rcases leNats_total (key z) (key y) with h' | h'
        · exact absurd h' hxy
        · exact h'
      · exact hy.1 z hz'

theorem isortBy_sorted {α : Type} (key : α → List Nat) (l : List α) :
    List.Pairwise (fun a b => leNats (key a) (key b) = true) (isortBy key l) := by
  induction l with
  | nil => exact List.Pairwise.nil
  | cons x xs ih => exact insBy_sorted key x _ ih

/-- sorting by an injective key does not depend on the order in which the members are enumerated -/
theorem isortBy_perm_eq {α : Type} (key : α → List Nat) (hinj : ∀ a b, key a = key b → a = b)
    (l₁ l₂ : List α) (h : l₁.Perm l₂) : isortBy key l₁ = isortBy key l₂ := by
  apply List.Perm.eq_of_pairwise (le := fun a b => leNats (key a) (key b) = true)
  · intro a b _ _ h1 h2
    exact hinj a b (leNats_antisymm _ _ h1 h2)
  · exact isortBy_sorted key l₁
  · exact isortBy_sorted key l₂
  · exact ((isortBy_perm key l₁).trans h).trans (isortBy_perm key l₂).symm

theorem sorted_strings_perm_eq (l₁ l₂ : List String) (h : l₁.Perm l₂) : isortBy skey l₁ = isortBy skey l₂ :=
  isortBy_perm_eq skey (fun _ _ => skey_inj) l₁ l₂ h

/-! ## toposort2 -/

theorem tierOrder_insertion (F : Facts07) (hF : F.tierTies = .insertion) (e : Enum) (l : List Nat) :
    tierOrder F e l = l := by
  simp [tierOrder, hF]

theorem tierOrder_mem (F : Facts07) (e : Enum) (he : e.Valid) (l : List Nat) (x : Nat) :
    x ∈ tierOrder F e l ↔ x ∈ l := by
  unfold tierOrder
  split
  · exact Iff.rfl
  · exact (he.2 l).mem_iff

theorem topoLoop_enum_irrelevant (F : Facts07) (hF : F.tierTies = .insertion) (e₁ e₂ : Enum) (key : Nat → List Nat)
    (n : Nat) (d : Deps) : topoLoop F e₁ key n d = topoLoop F e₂ key n d := by
  induction n generalizing d with
  | zero => rfl
  | succ n ih =>
    simp only [topoLoop, tierOrder_insertion F hF, ih]

/-- with ties broken by registration order the tiers do not depend on how any unordered container is enumerated -/
theorem topo_enum_irrelevant (F : Facts07) (hF : F.tierTies = .insertion) (e₁ e₂ : Enum) (key : Nat → List Nat)
    (d : Deps) : topo F e₁ key d = topo F e₂ key d := by
  simp only [topo, tierOrder_insertion F hF, topoLoop_enum_irrelevant F hF e₁ e₂]

theorem mem_candidates (d : Deps) (x : Nat) : x ∈ candidates d → x ∈ Deps.keys d := by
  simp only [candidates, Deps.keys, List.mem_map, List.mem_filter]
  rintro ⟨kv, ⟨h1, _⟩, rfl⟩
  exact ⟨kv, h1, rfl⟩

theorem keys_removeTier (cand : List Nat) (d : Deps) (x : Nat) :
    x ∈ Deps.keys (removeTier cand d) ↔ x ∈ Deps.keys d ∧ x ∉ cand := by
  simp only [removeTier, Deps.keys, List.map_map, List.mem_map, List.mem_filter, Function.comp]
  constructor
  · rintro ⟨kv, ⟨h1, h2⟩, rfl⟩
    refine ⟨⟨kv, h1, rfl⟩, ?_⟩
    simpa using h2
  · rintro ⟨⟨kv, h1, rfl⟩, h2⟩
    exact ⟨kv, ⟨h1, by simpa using h2⟩, rfl⟩

/-- the loop neither loses nor invents members: what went in is in a tier or left over -/
theorem topoLoop_keys (F : Facts07) (e : Enum) (he : e.Valid) (key : Nat → List Nat) (n : Nat) (d : Deps) (x : Nat) :
    x ∈ Deps.keys d ↔ x ∈ (topoLoop F e key n d).1.flatten ∨ x ∈ Deps.keys (topoLoop F e key n d).2 := by
  induction n generalizing d with
  | zero => simp [topoLoop]
  | succ n ih =>
    simp only [topoLoop]
    split
    · simp
    · simp only [List.flatten_cons, List.mem_append, (isortBy_perm key _).mem_iff, tierOrder_mem F e he]
      rw [or_assoc, ← ih (removeTier (candidates d) d), keys_removeTier]
      constructor
      · intro hx
        by_cases hc : x ∈ candidates d
        · exact Or.inl hc
        · exact Or.inr ⟨hx, hc⟩
      · rintro (hc | ⟨hx, _⟩)
        · exact mem_candidates d x hc
        · exact hx

/-- members of the dependency graph handed to toposort2 -/
def Deps.nodes (d : Deps) : List Nat := Deps.keys d ++ d.flatMap (·.2)

theorem mem_dedupAux {α : Type} [DecidableEq α] (l seen : List α) (x : α) :
    x ∈ dedupAux l seen ↔ x ∈ l ∨ x ∈ seen := by
  induction l generalizing seen with
  | nil => simp [dedupAux]
  | cons y ys ih =>
    simp only [dedupAux]
    split
    · rename_i hy
      rw [ih]
      constructor
      · rintro (h | h)
        · exact Or.inl (List.mem_cons_of_mem _ h)
        · exact Or.inr h
      · rintro (h | h)
        · rcases List.mem_cons.mp h with rfl | h
          · exact Or.inr hy
          · exact Or.inl h
        · exact Or.inr h
    · rw [ih]
      simp only [List.mem_cons]
      constructor
      · rintro (h | h | h)
        · exact Or.inl (Or.inr h)
        · exact Or.inl (Or.inl h)
        · exact Or.inr h
      · rintro ((h | h) | h)
        · exact Or.inr (Or.inl h)
        · exact Or.inl h
        · exact Or.inr (Or.inr h)

theorem mem_dedup {α : Type} [DecidableEq α] (l : List α) (x : α) : x ∈ dedup l ↔ x ∈ l := by
  simp [dedup, mem_dedupAux]

theorem keys_discardSelf (d : Deps) : Deps.keys (discardSelf d) = Deps.keys d := by
  simp [Deps.keys, discardSelf, List.map_map, Function.comp]

theorem nodes_discardSelf (d : Deps) (x : Nat) : x ∈ Deps.nodes (discardSelf d) ↔ x ∈ Deps.nodes d := by
  simp only [Deps.nodes, List.mem_append, keys_discardSelf, List.mem_flatMap]
  constructor
  · rintro (h | ⟨kv, h1, h2⟩)
    · exact Or.inl h
    · simp only [discardSelf, List.mem_map] at h1
      obtain ⟨kv', h1', rfl⟩ := h1
      simp only [List.mem_filter] at h2
      exact Or.inr ⟨kv', h1', h2.1⟩
  · rintro (h | ⟨kv, h1, h2⟩)
    · exact Or.inl h
    · by_cases hx : x = kv.1
      · left
        simp only [Deps.keys, List.mem_map]
        exact ⟨kv, h1, hx.symm⟩
      · right
        refine ⟨(kv.1, kv.2.filter (fun y => y != kv.1)), ?_, ?_⟩
        · simp only [discardSelf, List.mem_map]; exact ⟨kv, h1, rfl⟩
        · simp only [List.mem_filter]; exact ⟨h2, by simpa using hx⟩

/-- **toposort2 is complete**: when it returns (no cyclic dependency) every key and every dependency of the
    input occurs in a tier, and nothing else does -/
theorem topo_complete (F : Facts07) (e : Enum) (he : e.Valid) (key : Nat → List Nat) (d : Deps) (ts : List (List Nat))
    (h : topo F e key d = .ok ts) (hd : d ≠ []) (x : Nat) : x ∈ ts.flatten ↔ x ∈ Deps.nodes d := by
  unfold topo at h
  have hne : d.isEmpty = false := by cases d <;> simp_all
  simp only [hne, Bool.false_eq_true, if_false] at h
  generalize hD : discardSelf d ++ (tierOrder F e (extraItems (discardSelf d))).map (fun x => (x, [])) = D at h
  by_cases hr : (topoLoop F e key (D.length + 1) D).2.isEmpty = true
  · simp only [hr, if_true] at h
    injection h with h
    subst h
    have hk := topoLoop_keys F e he key (D.length + 1) D x
    have hr' : Deps.keys (topoLoop F e key (D.length + 1) D).2 = [] := by
      simp only [List.isEmpty_iff] at hr
      simp [Deps.keys, hr]
    rw [hr'] at hk
    simp only [List.not_mem_nil, or_false] at hk
    rw [← hk, ← nodes_discardSelf, ← hD]
    simp only [Deps.keys, List.map_append, List.map_map, List.mem_append, List.mem_map, Function.comp,
      Deps.nodes]
    constructor
    · rintro (h1 | ⟨y, hy, rfl⟩)
      · exact Or.inl h1
      · rw [tierOrder_mem F e he] at hy
        simp only [extraItems, List.mem_filter, mem_dedup] at hy
        exact Or.inr hy.1
    · rintro (h1 | h1)
      · exact Or.inl h1
      · by_cases hk' : x ∈ Deps.keys (discardSelf d)
        · left; simpa [Deps.keys] using hk'
        · right
          refine ⟨x, ?_, rfl⟩
          rw [tierOrder_mem F e he]
          simp only [extraItems, List.mem_filter, mem_dedup]
          exact ⟨h1, by simpa using hk'⟩
  · simp only [hr, if_false] at h
    cases h

/-! ## determinism -/

theorem importOrder_enum_irrelevant (F : Facts07) (hF : F.importsIter = .sorted) (e₁ e₂ : Enum)
    (h₁ : e₁.Valid) (h₂ : e₂.Valid) (l : List String) : importOrder F e₁ l = importOrder F e₂ l := by
  simp only [importOrder, hF]
  exact sorted_strings_perm_eq _ _ ((h₁.1 l).trans (h₂.1 l).symm)

theorem schemaLoop_enum_irrelevant (F : Facts07) (hF : F.importsIter = .sorted) (e₁ e₂ : Enum)
    (h₁ : e₁.Valid) (h₂ : e₂.Valid) (I : IState) (infos : List (String × SInfo)) :
    schemaLoop F e₁ I infos = schemaLoop F e₂ I infos := by
  induction infos with
  | nil => rfl
  | cons kv rest ih =>
    obtain ⟨ns, info⟩ := kv
    simp only [schemaLoop, ih, importOrder_enum_irrelevant F hF e₁ e₂ h₁ h₂]

theorem buildSchemas_enum_irrelevant (F : Facts07) (hI : F.importsIter = .sorted) (hT : F.tierTies = .insertion)
    (e₁ e₂ : Enum) (h₁ : e₁.Valid) (h₂ : e₂.Valid) (I : IState) : buildSchemas F e₁ I = buildSchemas F e₂ I := by
  simp only [buildSchemas, topo_enum_irrelevant F hT e₁ e₂, schemaLoop_enum_irrelevant F hI e₁ e₂ h₁ h₂]

/-- the document does not depend on the iteration order of any unordered container of the process -/
theorem gen_enum_irrelevant (F : Facts07) (hI : F.importsIter = .sorted) (hT : F.tierTies = .insertion)
    (e₁ e₂ : Enum) (h₁ : e₁.Valid) (h₂ : e₂.Valid) (I : IState) (url : String) :
    gen F e₁ I url = gen F e₂ I url := by
  simp only [gen, buildSchemas_enum_irrelevant F hI hT e₁ e₂ h₁ h₂]

theorem Enum.id_valid : Enum.id.Valid := ⟨fun _ => List.Perm.refl _, fun _ => List.Perm.refl _⟩

/-- reversing every container is an admissible enumeration -/
def Enum.rev : Enum := ⟨List.reverse, List.reverse⟩

theorem Enum.rev_valid : Enum.rev.Valid := ⟨fun l => List.reverse_perm l, fun l => List.reverse_perm l⟩

/-! ## prefix tables -/

theorem lookup_append_some {κ β : Type} [BEq κ] (l₁ l₂ : List (κ × β)) (k : κ) (v : β)
    (h : l₁.lookup k = some v) : (l₁ ++ l₂).lookup k = some v := by
  induction l₁ with
  | nil => simp [List.lookup] at h
  | cons kv r ih =>
    obtain ⟨k', v'⟩ := kv
    simp only [List.cons_append, List.lookup] at h ⊢
    split <;> simp_all

theorem lookup_append_none {κ β : Type} [BEq κ] (l₁ l₂ : List (κ × β)) (k : κ)
    (h : l₁.lookup k = none) : (l₁ ++ l₂).lookup k = l₂.lookup k := by
  induction l₁ with
  | nil => rfl
  | cons kv r ih =>
    obtain ⟨k', v'⟩ := kv
    simp only [List.cons_append, List.lookup] at h ⊢
    split
    · rename_i heq; simp [heq] at h
    · rename_i heq; simp only [heq] at h; exact ih h

theorem lookup_none_of_not_mem' {κ β : Type} [BEq κ] [LawfulBEq κ] (l : List (κ × β)) (k : κ)
    (h : k ∉ l.map (·.1)) : l.lookup k = none := by
  induction l with
  | nil => rfl
  | cons kv r ih =>
    obtain ⟨k', v'⟩ := kv
    simp only [List.map_cons, List.mem_cons, not_or] at h
    have : (k == k') = false := by simpa using h.1
    simp only [List.lookup, this]
    exact ih h.2

theorem nodup_map_of_inj' {α β : Type} (f : α → β) (hf : ∀ a b, f a = f b → a = b) (l : List α) (h : l.Nodup) :
    (l.map f).Nodup := by
  induction l with
  | nil => exact List.nodup_nil
  | cons x xs ih =>
    simp only [List.nodup_cons, List.map_cons] at h ⊢
    refine ⟨?_, ih h.2⟩
    intro hc
    obtain ⟨y, hy, hxy⟩ := List.mem_map.mp hc
    rw [hf _ _ hxy] at hy
    exact h.1 hy

/-! ### the `while` loop of `get_namespace_prefix` finds a free prefix, whatever is pinned already -/

theorem nodup_subset_length {α : Type} [DecidableEq α] (l₁ l₂ : List α) (hn : l₁.Nodup) (hs : ∀ x ∈ l₁, x ∈ l₂) :
    l₁.length ≤ l₂.length := by
  induction l₁ generalizing l₂ with
  | nil => simp
  | cons x r ih =>
    simp only [List.nodup_cons] at hn
    have hx : x ∈ l₂ := hs x List.mem_cons_self
    have hr : ∀ y ∈ r, y ∈ l₂.erase x := by
      intro y hy
      have hne : y ≠ x := fun h => hn.1 (h ▸ hy)
      exact (List.mem_erase_of_ne hne).mpr (hs y (List.mem_cons_of_mem _ hy))
    have := ih (l₂.erase x) hn.2 hr
    rw [List.length_erase_of_mem hx] at this
    have hpos : 0 < l₂.length := List.length_pos_of_mem hx
    simp only [List.length_cons]
    omega

theorem firstFree_spec (keys : List Pref) (fuel k : Nat) :
    Pref.gen (firstFree keys fuel k) ∉ keys ∨
    (firstFree keys fuel k = k + fuel ∧ ∀ i, i < fuel → Pref.gen (k + i) ∈ keys) := by
  induction fuel generalizing k with
  | zero => right; exact ⟨rfl, fun i hi => by omega⟩
  | succ fuel ih =>
    simp only [firstFree]
    by_cases hc : keys.contains (.gen k) = true
    · simp only [hc, if_true]
      rcases ih (k + 1) with h | ⟨h1, h2⟩
      · exact Or.inl h
      · right
        refine ⟨by omega, ?_⟩
        intro i hi
        cases i with
        | zero => simpa using hc
        | succ i =>
          have := h2 i (by omega)
          have e : k + 1 + i = k + (i + 1) := by omega
          rw [e] at this
          exact this
    · simp only [hc, Bool.false_eq_true, if_false]
      left
      simpa using hc

theorem firstFree_free (keys : List Pref) (k : Nat) : Pref.gen (firstFree keys (keys.length + 1) k) ∉ keys := by
  rcases firstFree_spec keys (keys.length + 1) k with h | ⟨_, h2⟩
  · exact h
  · exfalso
    have hn : ((List.range (keys.length + 1)).map (fun i => Pref.gen (k + i))).Nodup := by
      apply nodup_map_of_inj' _ _ _ List.nodup_range
      intro a b hab
      injection hab with hab
      omega
    have := nodup_subset_length _ keys hn (by
      intro x hx
      obtain ⟨i, hi, rfl⟩ := List.mem_map.mp hx
      exact h2 i (by simpa using hi))
    simp only [List.length_map, List.length_range] at this
    omega

/-- invariant of the prefix tables: a prefix that is written for a namespace is declared for that namespace -/
structure Prefs.Inv (p : Prefs) : Prop where
  back : ∀ ns pf, p.prefmap.lookup ns = some pf → p.nsmap.lookup pf = some ns

theorem Prefs.get_inv (p : Prefs) (h : p.Inv) (ns : String) : (p.get ns).2.Inv := by
  unfold Prefs.get
  cases hl : p.prefmap.lookup ns with
  | some pf => simpa using h
  | none =>
    have hfree : p.nsmap.lookup (.gen (firstFree (p.nsmap.map (·.1)) (p.nsmap.length + 1) p.counter)) = none := by
      apply lookup_none_of_not_mem'
      have := firstFree_free (p.nsmap.map (·.1)) p.counter
      simpa using this
    refine ⟨?_⟩
    intro ns' pf hp
    simp only at hp ⊢
    cases ho : p.prefmap.lookup ns' with
    | some pf' =>
      rw [lookup_append_some _ _ _ _ ho] at hp
      injection hp with hp; subst hp
      exact lookup_append_some _ _ _ _ (h.back _ _ ho)
    | none =>
      rw [lookup_append_none _ _ _ ho] at hp
      simp only [List.lookup] at hp
      split at hp
      · rename_i heq
        injection hp with hp; subst hp
        have : ns' = ns := by simpa using heq
        subst this
        rw [lookup_append_none _ _ _ hfree]
        simp [List.lookup]
      · cases hp

theorem Prefs.get_prefmap_mono (p : Prefs) (ns ns' : String) (pf : Pref) (h : p.prefmap.lookup ns' = some pf) :
    (p.get ns).2.prefmap.lookup ns' = some pf := by
  unfold Prefs.get
  cases hl : p.prefmap.lookup ns with
  | some _ => simpa using h
  | none => exact lookup_append_some _ _ _ _ h

theorem Prefs.get_nsmap_mono (p : Prefs) (ns : String) (pf : Pref) (x : String) (h : p.nsmap.lookup pf = some x) :
    (p.get ns).2.nsmap.lookup pf = some x := by
  unfold Prefs.get
  cases hl : p.prefmap.lookup ns with
  | some _ => simpa using h
  | none => exact lookup_append_some _ _ _ _ h

theorem Prefs.get_has (p : Prefs) (ns : String) : ∃ pf, (p.get ns).2.prefmap.lookup ns = some pf := by
  unfold Prefs.get
  cases hl : p.prefmap.lookup ns with
  | some pf => exact ⟨pf, by simpa using hl⟩
  | none =>
    refine ⟨.gen (firstFree (p.nsmap.map (·.1)) (p.nsmap.length + 1) p.counter), ?_⟩
    simp only
    rw [lookup_append_none _ _ _ hl]
    simp [List.lookup]

theorem touchAll_inv (p : Prefs) (h : p.Inv) (l : List String) : (touchAll p l).Inv := by
  induction l generalizing p with
  | nil => exact h
  | cons n ns ih => exact ih _ (p.get_inv h n)

theorem touchAll_prefmap_mono (p : Prefs) (l : List String) (ns : String) (pf : Pref)
    (h : p.prefmap.lookup ns = some pf) : (touchAll p l).prefmap.lookup ns = some pf := by
  induction l generalizing p with
  | nil => exact h
  | cons n ns' ih => exact ih _ (p.get_prefmap_mono n ns pf h)

theorem touchAll_nsmap_mono (p : Prefs) (l : List String) (pf : Pref) (x : String)
    (h : p.nsmap.lookup pf = some x) : (touchAll p l).nsmap.lookup pf = some x := by
  induction l generalizing p with
  | nil => exact h
  | cons n ns' ih => exact ih _ (p.get_nsmap_mono n pf x h)

theorem touchAll_has (p : Prefs) (l : List String) (ns : String) (h : ns ∈ l) :
    ∃ pf, (touchAll p l).prefmap.lookup ns = some pf := by
  induction l generalizing p with
  | nil => cases h
  | cons n ns' ih =>
    rcases List.mem_cons.mp h with rfl | h
    · obtain ⟨pf, hpf⟩ := p.get_has ns
      exact ⟨pf, touchAll_prefmap_mono (p.get ns).2 ns' ns pf hpf⟩
    · exact ih _ h

theorem touchAll_append (p : Prefs) (l₁ l₂ : List String) : touchAll p (l₁ ++ l₂) = touchAll (touchAll p l₁) l₂ := by
  induction l₁ generalizing p with
  | nil => rfl
  | cons n ns ih => exact ih _

/-- a namespace that has a prefix when the root element is created is written with a declared prefix, whatever is
    requested afterwards -/
theorem declared_of_known (p : Prefs) (h : p.Inv) (l₁ l₂ : List String) (ns : String)
    (hk : (∃ pf, p.prefmap.lookup ns = some pf) ∨ ns ∈ l₁) :
    ∃ pf, (touchAll (touchAll p l₁) l₂).prefmap.lookup ns = some pf ∧ (touchAll p l₁).nsmap.lookup pf = some ns := by
  have h1 : ∃ pf, (touchAll p l₁).prefmap.lookup ns = some pf := by
    rcases hk with ⟨pf, hpf⟩ | hm
    · exact ⟨pf, touchAll_prefmap_mono _ _ _ _ hpf⟩
    · exact touchAll_has _ _ _ hm
  obtain ⟨pf, hpf⟩ := h1
  exact ⟨pf, touchAll_prefmap_mono _ _ _ _ hpf, (touchAll_inv p h l₁).back _ _ hpf⟩

/-- two namespaces are never written with the same prefix -/
theorem prefix_injective (p : Prefs) (h : p.Inv) (ns₁ ns₂ : String) (pf : Pref)
    (h₁ : p.prefmap.lookup ns₁ = some pf) (h₂ : p.prefmap.lookup ns₂ = some pf) : ns₁ = ns₂ := by
  have a := h.back _ _ h₁
  have b := h.back _ _ h₂
  rw [a] at b
  injection b

theorem lookup_mem {κ β : Type} [BEq κ] [LawfulBEq κ] (l : List (κ × β)) (k : κ) (v : β)
    (h : l.lookup k = some v) : (k, v) ∈ l := by
  induction l with
  | nil => simp [List.lookup] at h
  | cons kv r ih =>
    obtain ⟨k', v'⟩ := kv
    simp only [List.lookup] at h
    split at h
    · rename_i heq
      have : k = k' := by simpa using heq
      subst this
      injection h with h; subst h
      exact List.mem_cons_self
    · exact List.mem_cons_of_mem _ (ih h)

theorem lookup_of_mem_nodup {κ β : Type} [BEq κ] [LawfulBEq κ] (l : List (κ × β)) (k : κ) (v : β)
    (hm : (k, v) ∈ l) (hn : (l.map (·.1)).Nodup) : l.lookup k = some v := by
  induction l with
  | nil => cases hm
  | cons kv r ih =>
    obtain ⟨k', v'⟩ := kv
    simp only [List.map_cons, List.nodup_cons] at hn
    simp only [List.lookup]
    rcases List.mem_cons.mp hm with heq | hm
    · injection heq with h1 h2
      subst h1; subst h2
      simp
    · have hne : k ≠ k' := fun h => hn.1 (List.mem_map.mpr ⟨(k, v), hm, h⟩)
      have : (k == k') = false := by simpa using hne
      simp only [this]
      exact ih hm hn.2

theorem nodup_map_of_inj {α β : Type} (f : α → β) (hf : ∀ a b, f a = f b → a = b) (l : List α) (h : l.Nodup) :
    (l.map f).Nodup := by
  induction l with
  | nil => exact List.nodup_nil
  | cons x xs ih =>
    simp only [List.nodup_cons, List.map_cons] at h ⊢
    refine ⟨?_, ih h.2⟩
    intro hc
    obtain ⟨y, hy, hxy⟩ := List.mem_map.mp hc
    rw [hf _ _ hxy] at hy
    exact h.1 hy

theorem lookup_none_of_not_mem {κ β : Type} [BEq κ] [LawfulBEq κ] (l : List (κ × β)) (k : κ)
    (h : k ∉ l.map (·.1)) : l.lookup k = none := by
  induction l with
  | nil => rfl
  | cons kv r ih =>
    obtain ⟨k', v'⟩ := kv
    simp only [List.map_cons, List.mem_cons, not_or] at h
    have : (k == k') = false := by simpa using h.1
    simp only [List.lookup, this]
    exact ih h.2

end SpyneModel.Wsdl
