/-
  C06 lemmas, part 2: the document the XML encoder model writes for a conformant value is valid
  against the schema type its class denotes (`emitted_validS`).
-/
import Proofs.SchemaLex
namespace SpyneModel
namespace Schema
open Xml

/-! ### sequences -/

theorem takeWhile_replicate_append {α} [DecidableEq α] (k : α) (n : Nat) (rest : List α)
    (h : ∀ x ∈ rest, x ≠ k) :
    (List.replicate n k ++ rest).takeWhile (fun x => decide (x = k)) = List.replicate n k ∧
    (List.replicate n k ++ rest).dropWhile (fun x => decide (x = k)) = rest := by
  induction n with
  | zero =>
    cases rest with
    | nil => simp
    | cons r rs =>
      have : r ≠ k := h r (by simp)
      simp [this]
  | succ n ih =>
    simp only [List.replicate_succ, List.cons_append, List.takeWhile, List.dropWhile, decide_true]
    exact ⟨by rw [ih.1], ih.2⟩

theorem seqOk_block (k : Key) (o : Occ) (ps : List (Key × Occ)) (n : Nat) (rest : List Key)
    (hn : o.countOk n = true) (hrest : ∀ x ∈ rest, x ≠ k) :
    seqOk ((k, o) :: ps) (List.replicate n k ++ rest) = seqOk ps rest := by
  have h := takeWhile_replicate_append k n rest hrest
  simp only [seqOk, h.1, h.2, List.length_replicate, hn, Bool.true_and]

theorem eq_replicate_of_all {α} (l : List α) (k : α) (h : ∀ x ∈ l, x = k) : l = List.replicate l.length k := by
  induction l with
  | nil => rfl
  | cons a t ih =>
    rw [List.length_cons, List.replicate_succ, h a (by simp), ← ih (fun x hx => h x (by simp [hx]))]

/-! ### children -/

theorem validChildrenS_append (ps : List (Key × Occ × STy)) (a b : List Node) :
    validChildrenS ps (a ++ b) = (validChildrenS ps a && validChildrenS ps b) := by
  induction a with
  | nil => simp [validChildrenS]
  | cons c cs ih => simp [validChildrenS, ih, Bool.and_assoc]

theorem validChildrenS_of_forall (ps : List (Key × Occ × STy)) (o : Occ) (d : STy) (kids : List Node)
    (h : ∀ c ∈ kids, findS ps (nodeKey c) = some (o, d) ∧ validS d o.nillable c = true) :
    validChildrenS ps kids = true := by
  induction kids with
  | nil => rfl
  | cons c cs ih =>
    have hc := h c (by simp)
    simp only [validChildrenS, hc.1, hc.2, Bool.true_and]
    exact ih (fun x hx => h x (by simp [hx]))

/-! ### single nodes -/

theorem nilAttr_nil : nilAttr [] = some none := rfl

theorem validS_nilElem (d : STy) (ns name : Text) : validS d true (nilElem ns name) = true := by
  unfold nilElem validS
  have : nilAttr [(xsiNilKey, ['t', 'r', 'u', 'e'])] = some (some true) := by decide
  simp [attrsOk, this]

theorem nodeKey_nilElem (ns name : Text) : nodeKey (nilElem ns name) = (ns, name) := rfl

theorem validS_plain_simple (b : Builtin) (fs : List Facet) (nillable : Bool) (ns name : Text) (s : Text)
    (h : simpleOk b fs s = true) : validS (.simple b fs) nillable (.elem ns name [] (mkText s) []) = true := by
  have e : (mkText s).getD [] = s := by
    unfold mkText
    cases s with
    | nil => rfl
    | cons c t => rfl
  unfold validS
  simp [attrsOk, nilAttr_nil, e, h]

theorem validS_plain_complex (ps : List (Key × Occ × STy)) (nillable : Bool) (ns name : Text) (kids : List Node)
    (h1 : seqOk (slotsS ps) (kids.map nodeKey) = true) (h2 : validChildrenS ps kids = true) :
    validS (.complex ps) nillable (.elem ns name [] none kids) = true := by
  unfold validS
  have : textOk ps.isEmpty none = true := by unfold textOk; split <;> rfl
  simp [attrsOk, nilAttr_nil, this, h1, h2]

/-! ### occurrence bounds -/

theorem countOk_one (o : Occ) (hw : occWf o = true) (hr : o.repeated = false) : o.countOk 1 = true := by
  unfold occWf at hw
  unfold Occ.repeated at hr
  unfold Occ.countOk
  cases hm : o.maxOccurs with
  | none => rw [hm] at hr; cases hr
  | some m =>
    rw [hm] at hw hr
    simp only [Bool.and_eq_true, decide_eq_true_eq, decide_eq_false_iff_not] at hw hr ⊢
    omega

theorem countOk_zero (o : Occ) (h : o.minOccurs = 0) : o.countOk 0 = true := by
  unfold Occ.countOk
  cases o.maxOccurs <;> simp [h]

end Schema
end SpyneModel

namespace SpyneModel
namespace Schema
open Xml

/-! ### the namespace context only matters for a direct array of a customised primitive -/

def ctxFree : Ty → Bool
  | .arr _ (.prim p _) _ => isEnum p || primIsDefault p
  | .arr _ (.obj _ _ _ _ _) _ => true
  | .arr _ (.arr _ _ _) _ => false
  | _ => true

theorem isEnum_default (p : PrimTy) (h : isEnum p = true) : primIsDefault p = true := by
  cases p <;> simp [isEnum] at h; rfl

theorem denote_ctx (pf : PrimTy → List Facet) (tns ctx ctx' : Text) (t : Ty) (h : ctxFree t = true) :
    denote pf tns ctx t = denote pf tns ctx' t := by
  cases t with
  | prim p o => simp [denote]
  | obj n ns b fs o => simp [denote]
  | arr m e o =>
    cases e with
    | prim p o' =>
      simp only [ctxFree, Bool.or_eq_true] at h
      have hd : primIsDefault p = true := by
        rcases h with h | h
        · exact isEnum_default p h
        · exact h
      simp [denote, memberNs, arrNs, hd]
    | obj n ns b fs o' => simp [denote, memberNs, arrNs]
    | arr m' e' o' => simp [ctxFree] at h

theorem ctxFree_of_tyWf_elem (m : Text) (e : Ty) (o : Occ) (h : tyWf (.arr m e o) = true) : ctxFree e = true := by
  unfold tyWf at h
  simp only [Bool.and_eq_true] at h
  cases e with
  | prim p o' => rfl
  | obj n ns b fs o' => rfl
  | arr m' e' o' =>
    cases e' with
    | prim p o'' => simpa [ctxFree] using h.2
    | obj n ns b fs o'' => rfl
    | arr m'' e'' o'' => simp at h

end Schema
end SpyneModel

namespace SpyneModel
namespace Schema
open Xml

/-! ### sizes (the induction measure: the encoder recurses on the value) -/

mutual
  def vsize : Val → Nat
    | .obj _ fs => 1 + fsize fs
    | .list vs => 1 + lsize vs
    | _ => 1

  def fsize : List (Text × Val) → Nat
    | [] => 0
    | (_, v) :: r => 1 + vsize v + fsize r

  def lsize : List Val → Nat
    | [] => 0
    | v :: r => 1 + vsize v + lsize r
end

theorem conformsItems_forall (t : Ty) (vs : List Val) (h : conformsItems t vs = true) : ∀ v ∈ vs, conformsOne t v = true := by
  induction vs with
  | nil => intro v hv; cases hv
  | cons a r ih =>
    simp only [conformsItems, Bool.and_eq_true] at h
    intro v hv
    rcases List.mem_cons.mp hv with e | e
    · subst e; exact h.1
    · exact ih h.2 v e

theorem conformsArr_forall (t : Ty) (vs : List Val) (h : conformsArr t vs = true) : ∀ v ∈ vs, conformsOne t v = true := by
  induction vs with
  | nil => intro v hv; cases hv
  | cons a r ih =>
    simp only [conformsArr, Bool.and_eq_true] at h
    intro v hv
    rcases List.mem_cons.mp hv with e | e
    · subst e; exact h.1
    · exact ih h.2 v e

/-- the occurrences written for one element slot: all named `(ns, name)` and valid for `t` -/
def RunOk (pf : PrimTy → List Facet) (tns ns name : Text) (t : Ty) (out : List Node) : Prop :=
  ∀ x ∈ out, nodeKey x = (ns, name) ∧ validS (denote pf tns ns t) t.occ.nillable x = true

/-- what the member loop produces for the members `fs` of a class in namespace `cns` -/
def MembersOk (pf : PrimTy → List Facet) (tns cns : Text) (fs : List (Text × Ty)) (kids : List Node) : Prop :=
  (∀ x ∈ kids, ∃ k, k ∈ fs.map (·.1) ∧ nodeKey x = (cns, k)) ∧
  seqOk (slotsS (denoteFields pf tns cns fs)) (kids.map nodeKey) = true ∧
  (∀ ps : List (Key × Occ × STy),
    (∀ f ∈ fs, findS ps (cns, f.1) = some (f.2.occ, denote pf tns cns f.2)) → validChildrenS ps kids = true)

theorem RunOk_nil (pf : PrimTy → List Facet) (tns ns name : Text) (t : Ty) : RunOk pf tns ns name t [] := by
  intro x hx; cases hx

theorem RunOk_append {pf : PrimTy → List Facet} {tns ns name : Text} {t : Ty} {a b : List Node}
    (ha : RunOk pf tns ns name t a) (hb : RunOk pf tns ns name t b) : RunOk pf tns ns name t (a ++ b) := by
  intro x hx
  rcases List.mem_append.mp hx with h | h
  · exact ha x h
  · exact hb x h

theorem findS_denoteFields (pf : PrimTy → List Facet) (tns ns : Text) (fs : List (Text × Ty)) (hn : namesNodup fs = true) :
    ∀ f ∈ fs, findS (denoteFields pf tns ns fs) (ns, f.1) = some (f.2.occ, denote pf tns ns f.2) := by
  induction fs with
  | nil => intro f hf; cases hf
  | cons g gs ih =>
    obtain ⟨k, t⟩ := g
    simp only [namesNodup, Bool.and_eq_true, Bool.not_eq_true', List.any_eq_false, decide_eq_true_eq] at hn
    intro f hf
    rcases List.mem_cons.mp hf with e | e
    · subst e
      simp [denoteFields, findS]
    · have hne : f.1 ≠ k := by
        intro e'
        exact hn.1 f e e'
      have := ih hn.2 f e
      simp only [denoteFields, findS, List.find?_cons] at this ⊢
      have hk : ((ns, k) = (ns, f.1)) = False := by
        simp; exact fun e' => hne e'.symm
      simp only [hk, decide_false]
      exact this

end Schema
end SpyneModel

namespace SpyneModel
namespace Schema
open Xml

theorem occWf_of_tyWf (t : Ty) (h : tyWf t = true) : occWf t.occ = true := by
  cases t with
  | prim p o => simp only [tyWf, Bool.and_eq_true] at h; exact h.2
  | obj n ns b fs o => simp only [tyWf, Bool.and_eq_true] at h; exact h.1.1
  | arr m e o => simp only [tyWf, Bool.and_eq_true] at h; exact h.1.1.1.1

section
variable (F : Facts08) (pf : PrimTy → List Facet) (c : PrimTy → Val → Bool)
  (hleaf : ∀ p v, p.valueOk v = true → c p v = true →
    ∃ s, leafToText F p v = some s ∧ simpleOk (builtinOf p) (pf p) s = true)
  (cfg : Cfg) (I : Iface)

def P1 (n : Nat) : Prop :=
  ∀ v t ns name, vsize v ≤ n → conformsOne t v = true → tyWf t = true → leavesOne c t v = true →
    (toParent F cfg I ns name t v).length = 1 ∧ RunOk pf I.tns ns name t (toParent F cfg I ns name t v)

def P2 (n : Nat) : Prop :=
  ∀ vs fs cns, fsize vs ≤ n → conformsFields fs vs = true → fieldsWf fs = true → namesNodup fs = true →
    leavesFields c fs vs = true → MembersOk pf I.tns cns fs (membersToParent F cfg I cns fs vs)

def P3 (n : Nat) : Prop :=
  ∀ vs t ns name, lsize vs ≤ n → (∀ v ∈ vs, conformsOne t v = true) → tyWf t = true → leavesItems c t vs = true →
    (itemsToParent F cfg I ns name t vs).length = vs.length ∧
    RunOk pf I.tns ns name t (itemsToParent F cfg I ns name t vs)

theorem step3 (n : Nat) (h1 : P1 F pf c cfg I n) (h3 : P3 F pf c cfg I n) : P3 F pf c cfg I (n + 1) := by
  intro vs t ns name hs hc hw hr
  cases vs with
  | nil => exact ⟨rfl, RunOk_nil _ _ _ _ _⟩
  | cons v r =>
    simp only [lsize] at hs
    simp only [leavesItems, Bool.and_eq_true] at hr
    have a := h1 v t ns name (by omega) (hc v (by simp)) hw hr.1
    have b := h3 r t ns name (by omega) (fun x hx => hc x (by simp [hx])) hw hr.2
    simp only [itemsToParent, List.length_append, a.1, b.1, List.length_cons]
    exact ⟨by omega, RunOk_append a.2 b.2⟩

/-- the wrapper element of an `Array` with its items -/
theorem arr_wrapper (n : Nat) (h3 : P3 F pf c cfg I n) (member : Text) (elem : Ty) (o : Occ) (ns name : Text) (items : List Val)
    (hs : lsize items ≤ n) (hc : conformsArr elem items = true) (hw : tyWf (.arr member elem o) = true)
    (hr : leavesItems c elem items = true) :
    validS (denote pf I.tns ns (.arr member elem o)) o.nillable
      (.elem ns name [] none
        (itemsToParent F cfg I (memberNs I.tns ns member elem) (memberLocal member) elem items)) = true := by
  have hfree := ctxFree_of_tyWf_elem member elem o hw
  have hw' := hw
  unfold tyWf at hw'
  simp only [Bool.and_eq_true, decide_eq_true_eq] at hw'
  obtain ⟨⟨⟨⟨_, hmin⟩, hmax⟩, hwe⟩, _⟩ := hw'
  have a := h3 items elem (memberNs I.tns ns member elem) (memberLocal member) hs (conformsArr_forall elem items hc) hwe hr
  simp only [denote]
  apply validS_plain_complex
  · -- the items form one run of the member element
    have hall : ∀ x ∈ (itemsToParent F cfg I (memberNs I.tns ns member elem) (memberLocal member) elem items).map nodeKey,
        x = (memberNs I.tns ns member elem, memberLocal member) := by
      intro x hx
      obtain ⟨y, hy, e⟩ := List.mem_map.mp hx
      rw [← e]; exact (a.2 y hy).1
    have e := eq_replicate_of_all _ _ hall
    rw [e, ← List.append_nil (List.replicate _ _)]
    simp only [slotsS, List.map_cons, List.map_nil]
    rw [seqOk_block _ _ _ _ _ _ (by intro x hx; cases hx)]
    · rfl
    · unfold Occ.countOk; rw [hmin, hmax]; simp
  · apply validChildrenS_of_forall _ elem.occ (denote pf I.tns ns elem)
    intro c hc'
    have hk := a.2 c hc'
    refine ⟨?_, ?_⟩
    · rw [hk.1]; simp [findS]
    · rw [denote_ctx pf I.tns ns (memberNs I.tns ns member elem) elem hfree]; exact hk.2

include hleaf in
theorem leaf_node (p : PrimTy) (o : Occ) (ns name : Text) (v : Val)
    (hv : p.valueOk v = true) (hr : c p v = true)
    (hshape : toParent F cfg I ns name (.prim p o) v =
      (match leafToText F p v with | some s => [.elem ns name [] (mkText s) []] | none => [])) :
    (toParent F cfg I ns name (.prim p o) v).length = 1 ∧
    RunOk pf I.tns ns name (.prim p o) (toParent F cfg I ns name (.prim p o) v) := by
  obtain ⟨s, hs, hok⟩ := hleaf p v hv hr
  rw [hshape, hs]
  refine ⟨rfl, ?_⟩
  intro x hx
  simp only [List.mem_singleton] at hx
  subst hx
  exact ⟨rfl, validS_plain_simple _ _ _ _ _ _ hok⟩

include hleaf in
theorem step1 (n : Nat) (h2 : P2 F pf c cfg I n) (h3 : P3 F pf c cfg I n) : P1 F pf c cfg I (n + 1) := by
  intro v t ns name hs hc hw hr
  cases v with
  | none =>
    have hn : t.occ.nillable = true := by
      cases t <;> simpa [conformsOne, Ty.occ] using hc
    refine ⟨rfl, ?_⟩
    intro x hx
    simp only [toParent, List.mem_singleton] at hx
    subst hx
    rw [hn]
    exact ⟨rfl, validS_nilElem _ _ _⟩
  | obj cls vs =>
    cases t with
    | prim p o => simp [conformsOne, PrimTy.valueOk] at hc
    | arr m e o => simp [conformsOne] at hc
    | obj cname cns b fields o =>
      simp only [conformsOne, Bool.and_eq_true, decide_eq_true_eq] at hc
      obtain ⟨hcls, hcf⟩ := hc
      subst hcls
      simp only [tyWf, Bool.and_eq_true] at hw
      simp only [vsize] at hs
      simp only [leavesOne] at hr
      have m := h2 vs fields cns (by omega) hcf hw.2 hw.1.2 hr
      have hp : polyTarget cfg I cls cls = none := by simp [polyTarget]
      simp only [toParent, hp]
      refine ⟨rfl, ?_⟩
      intro x hx
      simp only [List.mem_singleton] at hx
      subst hx
      refine ⟨rfl, ?_⟩
      simp only [denote]
      exact validS_plain_complex _ _ _ _ _ m.2.1 (m.2.2 _ (findS_denoteFields pf I.tns cns fields hw.1.2))
  | list items =>
    cases t with
    | prim p o => simp [conformsOne, PrimTy.valueOk] at hc
    | obj cname cns b fields o => simp [conformsOne] at hc
    | arr m e o =>
      simp only [conformsOne] at hc
      simp only [vsize] at hs
      simp only [leavesOne] at hr
      simp only [toParent]
      refine ⟨rfl, ?_⟩
      intro x hx
      simp only [List.mem_singleton] at hx
      subst hx
      exact ⟨rfl, arr_wrapper F pf c cfg I n h3 m e o ns name items (by omega) hc hw hr⟩
  | int i =>
    cases t with
    | prim p o => exact leaf_node F pf c hleaf cfg I p o ns name _ (by simpa [conformsOne] using hc) (by simpa [leavesOne] using hr) rfl
    | obj cname cns b fields o => simp [conformsOne] at hc
    | arr m e o => simp [conformsOne] at hc
  | bool i =>
    cases t with
    | prim p o => exact leaf_node F pf c hleaf cfg I p o ns name _ (by simpa [conformsOne] using hc) (by simpa [leavesOne] using hr) rfl
    | obj cname cns b fields o => simp [conformsOne] at hc
    | arr m e o => simp [conformsOne] at hc
  | str i =>
    cases t with
    | prim p o => exact leaf_node F pf c hleaf cfg I p o ns name _ (by simpa [conformsOne] using hc) (by simpa [leavesOne] using hr) rfl
    | obj cname cns b fields o => simp [conformsOne] at hc
    | arr m e o => simp [conformsOne] at hc
  | date i =>
    cases t with
    | prim p o => exact leaf_node F pf c hleaf cfg I p o ns name _ (by simpa [conformsOne] using hc) (by simpa [leavesOne] using hr) rfl
    | obj cname cns b fields o => simp [conformsOne] at hc
    | arr m e o => simp [conformsOne] at hc
  | time i =>
    cases t with
    | prim p o => exact leaf_node F pf c hleaf cfg I p o ns name _ (by simpa [conformsOne] using hc) (by simpa [leavesOne] using hr) rfl
    | obj cname cns b fields o => simp [conformsOne] at hc
    | arr m e o => simp [conformsOne] at hc
  | dt i =>
    cases t with
    | prim p o => exact leaf_node F pf c hleaf cfg I p o ns name _ (by simpa [conformsOne] using hc) (by simpa [leavesOne] using hr) rfl
    | obj cname cns b fields o => simp [conformsOne] at hc
    | arr m e o => simp [conformsOne] at hc
  | dur i =>
    cases t with
    | prim p o => exact leaf_node F pf c hleaf cfg I p o ns name _ (by simpa [conformsOne] using hc) (by simpa [leavesOne] using hr) rfl
    | obj cname cns b fields o => simp [conformsOne] at hc
    | arr m e o => simp [conformsOne] at hc
  | bytes i =>
    cases t with
    | prim p o => exact leaf_node F pf c hleaf cfg I p o ns name _ (by simpa [conformsOne] using hc) (by simpa [leavesOne] using hr) rfl
    | obj cname cns b fields o => simp [conformsOne] at hc
    | arr m e o => simp [conformsOne] at hc
  | enum i =>
    cases t with
    | prim p o => exact leaf_node F pf c hleaf cfg I p o ns name _ (by simpa [conformsOne] using hc) (by simpa [leavesOne] using hr) rfl
    | obj cname cns b fields o => simp [conformsOne] at hc
    | arr m e o => simp [conformsOne] at hc

/-- what the member loop writes for one member -/
def fieldOut (cns k : Text) (t : Ty) (v : Val) : List Node :=
  match v with
  | .none => if t.occ.minOccurs > 0 then [nilElem cns k] else []
  | .list items =>
    if t.occ.repeated then itemsToParent F cfg I cns k t items
    else (match t with
          | .arr member elem _ =>
            [.elem cns k [] none (itemsToParent F cfg I (memberNs I.tns cns member elem) (memberLocal member) elem items)]
          | _ => [])
  | w => if t.occ.repeated then [] else toParent F cfg I cns k t w

theorem membersToParent_cons (cns k : Text) (t : Ty) (fs : List (Text × Ty)) (v : Val) (vs : List (Text × Val)) :
    membersToParent F cfg I cns ((k, t) :: fs) ((k, v) :: vs) =
      fieldOut F cfg I cns k t v ++ membersToParent F cfg I cns fs vs := by
  cases v <;> simp [membersToParent, fieldOut]
  split
  · rfl
  · cases t <;> rfl

/-- the condition `conformsFields` puts on one member value -/
def fieldCond (t : Ty) (v : Val) : Bool :=
  match v with
  | .none => decide (t.occ.minOccurs = 0) || (t.occ.nillable && !t.occ.repeated)
  | v => conforms t v

theorem other_value (n : Nat) (h1 : P1 F pf c cfg I n) (cns k : Text) (t : Ty) (w : Val)
    (hs : vsize w ≤ n) (hcond : conforms t w = true) (hw : tyWf t = true) (hr : leavesOne c t w = true)
    (hnl : ∀ items, w ≠ .list items) (hnn : w ≠ .none)
    (hout : fieldOut F cfg I cns k t w = if t.occ.repeated then [] else toParent F cfg I cns k t w) :
    RunOk pf I.tns cns k t (fieldOut F cfg I cns k t w) ∧ t.occ.countOk (fieldOut F cfg I cns k t w).length = true := by
  have hrep : t.occ.repeated = false := by
    cases hrp : t.occ.repeated with
    | false => rfl
    | true =>
      unfold conforms at hcond
      rw [if_pos hrp] at hcond
      cases w <;> simp_all
  unfold conforms at hcond
  rw [hrep] at hcond
  simp only [Bool.false_eq_true, if_false] at hcond
  rw [hout, hrep]
  simp only [Bool.false_eq_true, if_false]
  have a := h1 w t cns k hs hcond hw hr
  exact ⟨a.2, by rw [a.1]; exact countOk_one _ (occWf_of_tyWf t hw) hrep⟩

def arrField (t : Ty) : Bool :=
  match t with
  | .arr _ _ o => !o.repeated
  | _ => true

theorem fieldOut_ok (n : Nat) (h1 : P1 F pf c cfg I n) (h3 : P3 F pf c cfg I n) (cns k : Text) (t : Ty) (v : Val)
    (hs : vsize v ≤ n) (hcond : fieldCond t v = true) (hw : tyWf t = true)
    (hr : leaves c t v = true) :
    RunOk pf I.tns cns k t (fieldOut F cfg I cns k t v) ∧ t.occ.countOk (fieldOut F cfg I cns k t v).length = true := by
  have hocc := occWf_of_tyWf t hw
  cases v with
  | none =>
    simp only [fieldCond, Bool.or_eq_true, decide_eq_true_eq, Bool.and_eq_true, Bool.not_eq_true'] at hcond
    simp only [fieldOut]
    by_cases hm : t.occ.minOccurs > 0
    · rw [if_pos hm]
      have hc : t.occ.nillable = true ∧ t.occ.repeated = false := by
        rcases hcond with h | h
        · omega
        · exact h
      refine ⟨?_, countOk_one _ hocc hc.2⟩
      intro x hx
      simp only [List.mem_singleton] at hx
      subst hx
      rw [hc.1]
      exact ⟨rfl, validS_nilElem _ _ _⟩
    · rw [if_neg hm]
      exact ⟨RunOk_nil _ _ _ _ _, countOk_zero _ (by omega)⟩
  | list items =>
    simp only [fieldCond, conforms] at hcond
    simp only [vsize] at hs
    simp only [leaves] at hr
    simp only [fieldOut]
    cases hrp : t.occ.repeated with
    | true =>
      rw [hrp] at hcond hr
      simp only [if_true, Bool.and_eq_true] at hcond hr ⊢
      have a := h3 items t cns k (by omega) (conformsItems_forall t items hcond.2) hw hr
      exact ⟨a.2, by rw [a.1]; exact hcond.1⟩
    | false =>
      rw [hrp] at hcond hr
      simp only [Bool.false_eq_true, if_false] at hcond hr ⊢
      cases t with
      | prim p o => simp [conformsOne, PrimTy.valueOk] at hcond
      | obj cname cns' b fields o => simp [conformsOne] at hcond
      | arr m e o =>
        simp only [conformsOne] at hcond
        simp only [leavesOne] at hr
        refine ⟨?_, countOk_one _ hocc hrp⟩
        intro x hx
        simp only [List.mem_singleton] at hx
        subst hx
        exact ⟨rfl, arr_wrapper F pf c cfg I n h3 m e o cns k items (by omega) hcond hw hr⟩
  | obj cls ws => exact other_value F pf c cfg I n h1 cns k t _ hs hcond hw (by simpa [leaves] using hr) (by intro i e; cases e) (by intro e; cases e) rfl
  | int i => exact other_value F pf c cfg I n h1 cns k t _ hs hcond hw (by simpa [leaves] using hr) (by intro i e; cases e) (by intro e; cases e) rfl
  | bool i => exact other_value F pf c cfg I n h1 cns k t _ hs hcond hw (by simpa [leaves] using hr) (by intro i e; cases e) (by intro e; cases e) rfl
  | str i => exact other_value F pf c cfg I n h1 cns k t _ hs hcond hw (by simpa [leaves] using hr) (by intro i e; cases e) (by intro e; cases e) rfl
  | date i => exact other_value F pf c cfg I n h1 cns k t _ hs hcond hw (by simpa [leaves] using hr) (by intro i e; cases e) (by intro e; cases e) rfl
  | time i => exact other_value F pf c cfg I n h1 cns k t _ hs hcond hw (by simpa [leaves] using hr) (by intro i e; cases e) (by intro e; cases e) rfl
  | dt i => exact other_value F pf c cfg I n h1 cns k t _ hs hcond hw (by simpa [leaves] using hr) (by intro i e; cases e) (by intro e; cases e) rfl
  | dur i => exact other_value F pf c cfg I n h1 cns k t _ hs hcond hw (by simpa [leaves] using hr) (by intro i e; cases e) (by intro e; cases e) rfl
  | bytes i => exact other_value F pf c cfg I n h1 cns k t _ hs hcond hw (by simpa [leaves] using hr) (by intro i e; cases e) (by intro e; cases e) rfl
  | enum i => exact other_value F pf c cfg I n h1 cns k t _ hs hcond hw (by simpa [leaves] using hr) (by intro i e; cases e) (by intro e; cases e) rfl

theorem step2 (n : Nat) (h1 : P1 F pf c cfg I n) (h2 : P2 F pf c cfg I n) (h3 : P3 F pf c cfg I n) : P2 F pf c cfg I (n + 1) := by
  intro vs fs cns hs hc hw hn hr
  cases fs with
  | nil =>
    cases vs with
    | nil =>
      refine ⟨(by intro x hx; cases hx), rfl, ?_⟩
      intro ps _; rfl
    | cons v r => simp [conformsFields] at hc
  | cons f fs' =>
    obtain ⟨k, t⟩ := f
    cases vs with
    | nil => simp [conformsFields] at hc
    | cons kv r =>
      obtain ⟨k', v⟩ := kv
      have hc' : k = k' ∧ fieldCond t v = true ∧ conformsFields fs' r = true := by
        unfold conformsFields at hc
        simp only [Bool.and_eq_true, decide_eq_true_eq] at hc
        refine ⟨hc.1.1, ?_, hc.2⟩
        have := hc.1.2
        cases v <;> exact this
      obtain ⟨hk, hcond, hcr⟩ := hc'
      subst hk
      simp only [fieldsWf, Bool.and_eq_true, decide_eq_true_eq] at hw
      obtain ⟨⟨⟨_, hwt⟩, harr⟩, hwr⟩ := hw
      simp only [namesNodup, Bool.and_eq_true, Bool.not_eq_true', List.any_eq_false, decide_eq_true_eq] at hn
      simp only [leavesFields, Bool.and_eq_true] at hr
      simp only [fsize] at hs
      have a := fieldOut_ok F pf c cfg I n h1 h3 cns k t v (by omega) hcond hwt hr.1
      have b := h2 r fs' cns (by omega) hcr hwr hn.2 hr.2
      rw [membersToParent_cons]
      have hrest : ∀ x ∈ (membersToParent F cfg I cns fs' r).map nodeKey, x ≠ (cns, k) := by
        intro x hx e
        obtain ⟨y, hy, e'⟩ := List.mem_map.mp hx
        obtain ⟨k2, hk2, e2⟩ := b.1 y hy
        rw [e2] at e'
        rw [← e'] at e
        have : k2 = k := by injection e
        subst this
        obtain ⟨g, hg, eg⟩ := List.mem_map.mp hk2
        exact hn.1 g hg eg
      refine ⟨?_, ?_, ?_⟩
      · intro x hx
        rcases List.mem_append.mp hx with h | h
        · exact ⟨k, by simp, (a.1 x h).1⟩
        · obtain ⟨k2, hk2, e2⟩ := b.1 x h
          exact ⟨k2, by simp [hk2], e2⟩
      · have hall : ∀ x ∈ (fieldOut F cfg I cns k t v).map nodeKey, x = (cns, k) := by
          intro x hx
          obtain ⟨y, hy, e⟩ := List.mem_map.mp hx
          rw [← e]; exact (a.1 y hy).1
        have e := eq_replicate_of_all _ _ hall
        rw [List.map_append, e]
        simp only [denoteFields, slotsS, List.map_cons]
        rw [seqOk_block _ _ _ _ _ _ hrest]
        · exact b.2.1
        · rw [List.length_map]; exact a.2
      · intro ps hps
        rw [validChildrenS_append, Bool.and_eq_true]
        constructor
        · apply validChildrenS_of_forall ps t.occ (denote pf I.tns cns t)
          intro c hc2
          have hk := a.1 c hc2
          exact ⟨by rw [hk.1]; exact hps (k, t) (by simp), hk.2⟩
        · exact b.2.2 ps (fun g hg => hps g (by simp [hg]))

include hleaf in
theorem emit_all (n : Nat) : P1 F pf c cfg I n ∧ P2 F pf c cfg I n ∧ P3 F pf c cfg I n := by
  induction n with
  | zero =>
    refine ⟨?_, ?_, ?_⟩
    · intro v t ns name hs
      cases v <;> simp [vsize] at hs
    · intro vs fs cns hs hc hw hn hr
      cases vs with
      | nil =>
        cases fs with
        | nil =>
          refine ⟨(by intro x hx; cases hx), rfl, ?_⟩
          intro ps _; rfl
        | cons f r => obtain ⟨k, t⟩ := f; simp [conformsFields] at hc
      | cons kv r => obtain ⟨k, v⟩ := kv; simp [fsize] at hs
    · intro vs t ns name hs
      cases vs with
      | nil => intro _ _ _; exact ⟨rfl, RunOk_nil _ _ _ _ _⟩
      | cons v r => simp [lsize] at hs
  | succ n ih =>
    obtain ⟨i1, i2, i3⟩ := ih
    exact ⟨step1 F pf c hleaf cfg I n i2 i3, step2 F pf c cfg I n i1 i2 i3, step3 F pf c cfg I n i1 i3⟩

include hleaf in
/-- **B**: the element written for a conformant value of `t` is valid for the schema type `t` denotes -/
theorem emitted_validS (t : Ty) (v : Val) (ns name : Text)
    (hc : conformsOne t v = true) (hw : tyWf t = true) (hr : leavesOne c t v = true) :
    ∃ x, encode F cfg I ns name t v = [x] ∧ nodeKey x = (ns, name) ∧
      validS (denote pf I.tns ns t) t.occ.nillable x = true := by
  have h := (emit_all F pf c hleaf cfg I (vsize v)).1 v t ns name (Nat.le_refl _) hc hw hr
  unfold encode
  cases hl : toParent F cfg I ns name t v with
  | nil => rw [hl] at h; simp at h
  | cons x r =>
    rw [hl] at h
    cases r with
    | nil => exact ⟨x, rfl, h.2 x (by simp)⟩
    | cons y r' => simp at h

end
end Schema
end SpyneModel
