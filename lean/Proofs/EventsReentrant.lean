/-
  C14 helper lemmas, part 4: under re-entrant registration and removal, a listener that was registered before
  the firing and is not removed during it is called exactly once.
-/
import SpyneModel.EventsReentrant
namespace SpyneModel.Events

structure WalkInv (h : H) (w : Walk) : Prop where
  nodup : w.ahead.Nodup
  notDead : h ∉ w.dead
  stuckEmpty : w.stuck = true → w.ahead = []
  pos : (h ∈ w.ahead ∧ h ∉ w.visited ∧ w.calls.count h = 0) ∨
        (h ∈ w.visited ∧ h ∉ w.ahead ∧ w.calls.count h = 1)

theorem mem_rm (k x : H) (l : List H) : x ∈ rm k l ↔ x ∈ l ∧ x ≠ k := by
  simp [rm]

theorem rm_nodup (k : H) (l : List H) (h : l.Nodup) : (rm k l).Nodup := h.sublist List.filter_sublist

theorem mem_tail_of_ne_head (x k : H) (l : List H) (hx : x ∈ l) (hk : l.head? = some k) (hne : x ≠ k) :
    x ∈ l.tail := by
  cases l with
  | nil => simp at hx
  | cons a t =>
    simp only [List.head?_cons, Option.some.injEq] at hk
    subst hk
    rcases List.mem_cons.1 hx with rfl | hx
    · exact absurd rfl hne
    · simpa using hx

theorem inv_del (h k : H) (w : Walk) (hk : k ≠ h) (I : WalkInv h w) : WalkInv h (w.del k) := by
  unfold Walk.del
  by_cases h1 : k ∈ w.ahead
  · simp only [h1, if_true]
    by_cases h2 : (w.curDead && (w.ahead.head? == some k)) = true
    · simp only [h2, if_true]
      have hhead : w.ahead.head? = some k := by
        simp only [Bool.and_eq_true, beq_iff_eq] at h2; exact h2.2
      refine ⟨I.nodup.sublist (List.tail_sublist _), ?_, ?_, ?_⟩
      · simp only [List.mem_append, List.mem_singleton, not_or]
        exact ⟨I.notDead, fun c => hk c.symm⟩
      · intro hs
        simp only [Bool.or_eq_true, List.isEmpty_iff] at hs
        rcases hs with hs | hs
        · have := I.stuckEmpty hs; simp [this]
        · exact hs
      · rcases I.pos with ⟨a, b, c⟩ | ⟨a, b, c⟩
        · exact Or.inl ⟨mem_tail_of_ne_head h k _ a hhead (fun c => hk c.symm), b, c⟩
        · exact Or.inr ⟨a, fun c' => b (List.mem_of_mem_tail c'), c⟩
    · simp only [h2, Bool.false_eq_true, if_false]
      refine ⟨rm_nodup _ _ I.nodup, I.notDead, ?_, ?_⟩
      · intro hs; have := I.stuckEmpty hs; simp [this, rm]
      · rcases I.pos with ⟨a, b, c⟩ | ⟨a, b, c⟩
        · exact Or.inl ⟨(mem_rm _ _ _).2 ⟨a, fun c => hk c.symm⟩, b, c⟩
        · exact Or.inr ⟨a, fun c' => b ((mem_rm _ _ _).1 c').1, c⟩
  · simp only [h1, if_false]
    by_cases h3 : k ∈ w.visited
    · simp only [h3, if_true]
      refine ⟨I.nodup, I.notDead, ?_, ?_⟩
      · intro hs
        simp only [Bool.or_eq_true, Bool.and_eq_true, List.isEmpty_iff] at hs
        rcases hs with hs | ⟨_, hs⟩
        · exact I.stuckEmpty hs
        · exact hs
      · rcases I.pos with ⟨a, b, c⟩ | ⟨a, b, c⟩
        · exact Or.inl ⟨a, fun c' => b ((mem_rm _ _ _).1 c').1, c⟩
        · exact Or.inr ⟨(mem_rm _ _ _).2 ⟨a, fun c => hk c.symm⟩, b, c⟩
    · simp only [h3, if_false]
      exact ⟨I.nodup, I.notDead, I.stuckEmpty, I.pos⟩

theorem inv_add (h k : H) (w : Walk) (I : WalkInv h w) : WalkInv h (w.add k) := by
  unfold Walk.add
  by_cases h1 : k ∈ w.visited ∨ k ∈ w.ahead ∨ k ∈ w.unreach
  · simp only [h1, if_true]; exact I
  · simp only [h1, if_false]
    by_cases hs : w.stuck = true
    · simp only [hs, if_true]
      exact ⟨I.nodup, I.notDead, fun _ => I.stuckEmpty hs, I.pos⟩
    · simp only [hs, Bool.false_eq_true, if_false]
      have hka : k ∉ w.ahead := fun c => h1 (Or.inr (Or.inl c))
      have hkv : k ∉ w.visited := fun c => h1 (Or.inl c)
      refine ⟨?_, I.notDead, fun c => by simp at c, ?_⟩
      · rw [List.nodup_append]
        refine ⟨I.nodup, by simp, ?_⟩
        intro a ha b hb
        simp only [List.mem_singleton] at hb
        subst hb
        exact fun c => hka (c ▸ ha)
      · rcases I.pos with ⟨a, b, c⟩ | ⟨a, b, c⟩
        · exact Or.inl ⟨List.mem_append_left _ a, b, c⟩
        · refine Or.inr ⟨a, ?_, c⟩
          simp only [List.mem_append, List.mem_singleton, not_or]
          exact ⟨b, fun c' => hkv (c' ▸ a)⟩

theorem inv_ops (h : H) (ops : List ROp) (w : Walk) (hno : ROp.del h ∉ ops) (I : WalkInv h w) :
    WalkInv h (ops.foldl Walk.apply w) := by
  induction ops generalizing w with
  | nil => exact I
  | cons op ops ih =>
    simp only [List.foldl_cons]
    apply ih
    · exact fun c => hno (List.mem_cons_of_mem _ c)
    · cases op with
      | add k => exact inv_add h k w I
      | del k =>
        have : k ≠ h := fun c => hno (by subst c; simp)
        exact inv_del h k w this I

/-- calling a listener only appends to `calls`; the program cannot touch it -/
theorem inv_call (prog : H → List ROp) (h x : H) (w : Walk) (hnd : ∀ k, ROp.del h ∉ prog k)
    (I : WalkInv h { w with calls := w.calls ++ [x] }) : WalkInv h (w.call prog x) := by
  unfold Walk.call
  simp only
  split
  · exact I
  · exact inv_ops h (prog x) _ (hnd x) ⟨I.nodup, I.notDead, I.stuckEmpty, I.pos⟩

theorem inv_step (prog : H → List ROp) (h x : H) (w w' : Walk) (hnd : ∀ k, ROp.del h ∉ prog k)
    (I : WalkInv h w) (hn : w.next = some (x, w')) : WalkInv h (w'.call prog x) := by
  apply inv_call prog h x w' hnd
  unfold Walk.next at hn
  split at hn
  · rename_i d ds hd
    simp only [Option.some.injEq, Prod.mk.injEq] at hn
    obtain ⟨rfl, rfl⟩ := hn
    have hdh : d ≠ h := fun c => I.notDead (by rw [hd, c]; simp)
    refine ⟨I.nodup, fun c => I.notDead (by rw [hd]; exact List.mem_cons_of_mem _ c), I.stuckEmpty, ?_⟩
    have hc : (w.calls ++ [d]).count h = w.calls.count h := by
      simp [List.count_append, hdh]
    simpa only [hc] using I.pos
  · split at hn
    · cases hn
    · split at hn
      · rename_i n rest ha
        simp only [Option.some.injEq, Prod.mk.injEq] at hn
        obtain ⟨rfl, rfl⟩ := hn
        have hnd' : (n :: rest).Nodup := ha ▸ I.nodup
        have hn1 := (List.nodup_cons.1 hnd').1
        refine ⟨(List.nodup_cons.1 hnd').2, I.notDead, ?_, ?_⟩
        · intro hs
          have := I.stuckEmpty hs
          rw [ha] at this; cases this
        · by_cases hnh : n = h
          · subst hnh
            rcases I.pos with ⟨a, b, c⟩ | ⟨a, b, c⟩
            · refine Or.inr ⟨by simp, hn1, ?_⟩
              simp [List.count_append, c]
            · exact absurd (by rw [ha]; simp) b
          · have hc : (w.calls ++ [n]).count h = w.calls.count h := by
              simp [List.count_append, hnh]
            rcases I.pos with ⟨a, b, c⟩ | ⟨a, b, c⟩
            · refine Or.inl ⟨?_, ?_, by simpa only [hc] using c⟩
              · rw [ha] at a
                rcases List.mem_cons.1 a with rfl | a
                · exact absurd rfl hnh
                · exact a
              · simp only [List.mem_append, List.mem_singleton, not_or]
                exact ⟨b, fun c' => hnh c'.symm⟩
            · refine Or.inr ⟨List.mem_append_left _ a, ?_, by simpa only [hc] using c⟩
              exact fun c' => b (by rw [ha]; exact List.mem_cons_of_mem _ c')
      · cases hn

theorem inv_run (prog : H → List ROp) (h : H) (hnd : ∀ k, ROp.del h ∉ prog k) (fuel : Nat) (w : Walk)
    (I : WalkInv h w) : WalkInv h (Walk.run prog fuel w) := by
  induction fuel generalizing w with
  | zero => exact I
  | succ n ih =>
    unfold Walk.run
    split
    · exact I
    · rename_i x w' hn
      exact ih _ (inv_step prog h x w w' hnd I hn)

theorem inv_start (h : H) (s : List H) (hs : s.Nodup) (hh : h ∈ s) : WalkInv h (Walk.start s) :=
  ⟨hs, by simp [Walk.start], by simp [Walk.start], Or.inl ⟨hh, by simp [Walk.start], by simp [Walk.start]⟩⟩

/-- the walk is over: every live node that was ahead has been visited -/
theorem next_none_ahead (w : Walk) (h : H) (I : WalkInv h w) (hn : w.next = none) : w.ahead = [] := by
  unfold Walk.next at hn
  split at hn
  · cases hn
  · split at hn
    · rename_i hs; exact I.stuckEmpty hs
    · split at hn
      · cases hn
      · rename_i ha; exact ha

/-- A listener registered before the firing that no listener removes during it is called exactly once,
    whatever the listeners register and unregister while the event fires. -/
theorem reentrant_called_once (prog : H → List ROp) (fuel : Nat) (s : List H) (h : H) (hs : s.Nodup)
    (hh : h ∈ s) (hnd : ∀ k, ROp.del h ∉ prog k) (hterm : (fireReentrant prog fuel s).next = none) :
    (fireReentrant prog fuel s).calls.count h = 1 := by
  have I := inv_run prog h hnd fuel _ (inv_start h s hs hh)
  have ha := next_none_ahead _ h I hterm
  rcases I.pos with ⟨a, _, _⟩ | ⟨_, _, c⟩
  · unfold fireReentrant at ha; rw [ha] at a; cases a
  · exact c

end SpyneModel.Events
