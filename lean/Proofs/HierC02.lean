/-
  C02 at the level of members, requests and responses: instances of the general round trip for the protocol's
  own spelling and for the documented alternative spellings.
-/
import Proofs.HierRound
namespace SpyneModel.Hier
open SpyneModel

variable {F : Facts08} {G : Facts02} {cfg : Cfg}

/-! ### the protocol reads what it writes -/

theorem ownCtx (L : LeafLaws F) (hG : G.GoodRT) (hsc : cfg.selfConsistent = true) :
    RtCtx F G cfg (ownSpell F cfg) true where
  hG := hG
  hsc := by simp only [ownSpell, Spell.consistent]; exact hsc
  hiw := rfl
  hnw := fun _ => rfl
  hkey := keyName_keyOut cfg
  hwkey := wrapperKey_keyOut G cfg
  hleaf := fun p o v hv hm => primIn_leafOut L G cfg p o v hv (fun h => (hm h).1) (fun h => (hm h).2 rfl)
  hflat := leafOut_flat F cfg
  hnn := fun p v hv => leafOut_not_null cfg p v hv

/-! ### documented alternative spellings -/

/-- leaves as a client following the documented conventions writes them: numbers as numbers (MessagePack:
    text outside the 64-bit window), booleans as booleans, raw `bin` for MessagePack byte arrays without a text
    encoding, everything else as `str` text -/
def convLeaf (F : Facts08) (cfg : Cfg) (p : PrimTy) (v : Val) : Doc :=
  match p, v with
  | .integer _ _, .int i =>
    if cfg.proto.isMsgpack && !(decide (-9223372036854775808 ≤ i) && decide (i < 18446744073709551616))
    then .str (intToText i) else .int i
  | .boolean, .bool b => .bool b
  | .bytes .base64, .bytes bs => if cfg.proto.isMsgpack then .bytes bs else .str (b64enc false bs)
  | p, v => match leafToText F p v with | some s => .str s | none => .null

/-- `str` keys (every protocol accepts them), any of dict / positional form -/
def convSpell (F : Facts08) (cfg : Cfg) (cas : ComplexAs) : Spell :=
  { cas := cas, iw := cfg.ignoreWrappers, poly := false, nw := fun n => cfg.notWrapped.contains n, kOut := Key.str,
    lOut := convLeaf F cfg }

/-- MessagePack: `bytes` keys with `str` leaves, or `str` keys with the protocol's own `bin` leaves -/
def mixSpell (F : Facts08) (cfg : Cfg) (cas : ComplexAs) (bytesKeys : Bool) : Spell :=
  { cas := cas, iw := cfg.ignoreWrappers, poly := false, nw := fun n => cfg.notWrapped.contains n,
    kOut := if bytesKeys then keyOut cfg else Key.str,
    lOut := if bytesKeys then convLeaf F cfg else leafOut F cfg }

theorem primIn_int_str (G : Facts02) (cfg : Cfg) (k : IntKind) (r : Range) (o : Occ) (i : Int)
    (hm : cfg.proto.isMsgpack = true) (hv : (PrimTy.integer k r).valueOk (.int i) = true)
    (hfit : (intToText i).length ≤ F.intMaxStrLen k) :
    primIn F G cfg (.integer k r) o (.str (intToText i)) = .good (.int i) := by
  unfold primIn
  have h4 := (validateNative_int k r i).trans hv
  have hvs : validateString F (.integer k r) (intToText i) = true := by simp [validateString, hfit]
  simp only [preOk_str G cfg _ o _ hvs, strOk, hvs, Bool.and_self, Bool.not_true, Bool.and_false,
    Bool.false_eq_true, if_false]
  have := intFromText_intToText F k i hfit
  simp [leafIn, hm, intInMp, this, ofOutcome, Res.map, Res.bind, postLeaf, Res.good, h4]

theorem convLeaf_ok (L : LeafLaws F) (G : Facts02) (cfg : Cfg) (p : PrimTy) (o : Occ) (v : Val)
    (hv : p.valueOk v = true) (hm : mpLeaf F cfg false p v) :
    primIn F G cfg p o (convLeaf F cfg p v) = .good v := by
  have nraw : ∀ (q : PrimTy) enc, q = .bytes enc → enc ≠ .base64 ∨ cfg.proto.isMsgpack = false → isRaw cfg enc = false := by
    intro q enc _ h; rcases h with h | h <;> simp [isRaw, h]
  cases p <;> cases v <;> (try (simp [PrimTy.valueOk] at hv; done))
  case integer.int k r i =>
    simp only [convLeaf]
    split
    · rename_i hc
      simp only [Bool.and_eq_true, Bool.not_eq_true', Bool.and_eq_false_iff, decide_eq_false_iff_not] at hc
      have hmp := hc.1
      have hk : k = .unbounded := by
        cases k <;> first | rfl | (exfalso; have := bounded_in_window _ r i (by simp) hv; rcases hc.2 with h | h <;> omega)
      subst hk
      have : (intToText i).length ≤ F.intMaxStrLen .unbounded := by
        have := (hm hmp).1; simpa [fitsV, fitsInt] using this
      exact primIn_int_str G cfg .unbounded r o i hmp hv this
    · exact primIn_int G cfg k r o i hv
  case boolean.bool b => simpa [convLeaf] using primIn_bool G cfg o b
  case unicode.str a b c d s =>
    simpa [convLeaf, leafToText] using
      primIn_text L G cfg _ o _ s rfl hv rfl (by intros; simp) (by simp) (by intros; simp_all)
  case date.date x =>
    simpa [convLeaf, leafToText] using
      primIn_text L G cfg _ o _ _ rfl hv rfl (by intros; simp) (by simp) (by intros; simp_all)
  case time.time x =>
    simpa [convLeaf, leafToText] using
      primIn_text L G cfg _ o _ _ rfl hv rfl (by intros; simp) (by simp) (by intros; simp_all)
  case dateTime.dt x =>
    simpa [convLeaf, leafToText] using
      primIn_text L G cfg _ o _ _ rfl hv rfl (by intros; simp) (by simp) (by intros; simp_all)
  case duration.dur x =>
    simpa [convLeaf, leafToText] using
      primIn_text L G cfg _ o _ _ rfl hv rfl (by intros; simp) (by simp) (by intros; simp_all)
  case enum.enum names n =>
    simpa [convLeaf, leafToText] using
      primIn_text L G cfg _ o _ _ rfl hv rfl (by intros; simp) (by simp) (by intros; simp_all)
  case bytes.bytes enc bs =>
    cases enc
    · cases hmp : cfg.proto.isMsgpack
      · simpa [convLeaf, hmp] using
          primIn_text L G cfg _ o _ _ rfl hv rfl (by intros; simp) (by simp)
            (fun enc h => nraw _ enc h (Or.inr hmp))
      · simpa [convLeaf, hmp] using primIn_raw_bytes G cfg .base64 o bs hmp (by simp [isRaw, hmp]) (valueOk_bytes_all _ bs hv)
    · simpa [convLeaf, leafToText] using
        primIn_text L G cfg _ o _ _ rfl hv rfl (by intros; simp) (by simp)
          (fun enc h => nraw _ enc h (Or.inl (by cases h; simp)))
    · simpa [convLeaf, leafToText] using
        primIn_text L G cfg _ o _ _ rfl hv rfl (by intros; simp) (by simp)
          (fun enc h => nraw _ enc h (Or.inl (by cases h; simp)))


theorem convLeaf_flat (cfg : Cfg) (p : PrimTy) (v : Val) : (convLeaf F cfg p v).isFlat = true := by
  unfold convLeaf
  repeat' split
  all_goals simp [Doc.isFlat]

theorem convLeaf_not_null (cfg : Cfg) (p : PrimTy) (v : Val) (hv : p.valueOk v = true) :
    (convLeaf F cfg p v).isNull = false := by
  cases p <;> cases v <;> (try (simp [PrimTy.valueOk] at hv; done))
  case bytes.bytes enc bs => cases enc <;> simp only [convLeaf, leafToText] <;> (repeat' split) <;> simp [Doc.isNull]
  all_goals (simp only [convLeaf, leafToText] <;> (repeat' split) <;> simp [Doc.isNull])

theorem keyName_str (cfg : Cfg) (n : Text) : keyName cfg (.str n) = .good (some n) := rfl
theorem wrapperKey_str (G : Facts02) (n : Text) : wrapperKey G (.str n) = .good (some n) := rfl

/-- `str` keys and `str` text are understood by every protocol of the family, in dict and in positional form -/
theorem convCtx (L : LeafLaws F) (hG : G.GoodRT) (cas : ComplexAs)
    (hsc : cas = .dict ∨ cfg.ignoreWrappers = true) :
    RtCtx F G cfg (convSpell F cfg cas) false where
  hG := hG
  hsc := by simp only [convSpell, Spell.consistent]; rcases hsc with h | h <;> simp [h]
  hiw := rfl
  hnw := fun _ => rfl
  hkey := keyName_str cfg
  hwkey := wrapperKey_str G
  hleaf := fun p o v hv hm => convLeaf_ok L G cfg p o v hv hm
  hflat := convLeaf_flat cfg
  hnn := fun p v hv => convLeaf_not_null cfg p v hv

/-- MessagePack clients may mix key kinds and leaf kinds -/
theorem mixCtx (L : LeafLaws F) (hG : G.GoodRT) (cas : ComplexAs) (bk : Bool)
    (hsc : cas = .dict ∨ cfg.ignoreWrappers = true) :
    RtCtx F G cfg (mixSpell F cfg cas bk) (!bk) where
  hG := hG
  hsc := by simp only [mixSpell, Spell.consistent]; rcases hsc with h | h <;> simp [h]
  hiw := rfl
  hnw := fun _ => rfl
  hkey := by cases bk <;> simp [mixSpell, keyName_str, keyName_keyOut]
  hwkey := by cases bk <;> simp [mixSpell, wrapperKey_str, wrapperKey_keyOut]
  hleaf := by
    cases bk
    · intro p o v hv hm
      exact primIn_leafOut L G cfg p o v hv (fun h => (hm h).1) (fun h => (hm h).2 rfl)
    · intro p o v hv hm
      exact convLeaf_ok L G cfg p o v hv (fun h => ⟨(hm h).1, fun h' => by cases h'⟩)
  hflat := by cases bk <;> simp [mixSpell, convLeaf_flat, leafOut_flat]
  hnn := by
    cases bk
    · exact fun p v hv => leafOut_not_null cfg p v hv
    · exact fun p v hv => convLeaf_not_null cfg p v hv

/-! ### members -/

/-- a member of a single-occurrence type: whatever conformant value it holds (including `None` where
    nillable) is written by `_object_to_doc` in spelling `S` and read back by `_from_dict_value` -/
theorem member_roundtrip {S : Spell} {rd : Bool} (R : Registry) (C : RtCtx F G cfg S rd) (t : Ty) (v : Val)
    (hr : t.occ.repeated = false) (hwf : wfTy t = true) (hc : conforms t v = true)
    (hmp : mpOk F cfg rd t v) (hpl : plain S.cas t v = true) :
    decode F G cfg R t (encodeS S R t v) = .good v := by
  rw [conforms_single t v hr] at hc
  by_cases hv : v = .none
  · subst hv
    rw [conformsOne_none] at hc
    simp only [encodeS]
    exact decode_null G cfg R C.hG t hc
  · have hshape : ∀ vs, v = .list vs → ∃ m e o, t = .arr m e o := by
      intro vs hvs; subst hvs
      cases t with
      | prim p o => simp [conformsOne, PrimTy.valueOk] at hc
      | obj a b c d e => simp [conformsOne] at hc
      | arr m e o => exact ⟨m, e, o, rfl⟩
    rw [encode_eq_encOne R S t v hv hshape]
    exact rt_ty R C t v hv hwf hc hmp hpl

/-! ### requests -/

/-- the request document for the method whose input message is `msg`, written in spelling `S`: the method
    name as the single key (`params` for MessagePack-RPC, whose envelope is handled by the caller) -/
def requestDoc (cfg : Cfg) (S : Spell) (R : Registry) (msg : Ty) (args : Val) : Doc :=
  match msg with
  | .obj name _ _ _ _ =>
    if cfg.proto = .msgpackRpc || !S.iw then encOne R S msg args
    else .map [(S.kOut name, encOne R S msg args)]
  | _ => .null


/-- the key a spelling uses for the method name is understood by the dispatcher and by `deserialize` -/
def ReqKey (G : Facts02) (cfg : Cfg) (S : Spell) : Prop :=
  ∀ name : Text, requestMethod G cfg (S.kOut name) = .good (some name) ∧
    ∀ b, findBody G cfg name [(S.kOut name, b)] = some b

theorem reqKey_str (hG : G.mpNameAnyKey = true) (S : Spell) (hk : S.kOut = Key.str) : ReqKey G cfg S := by
  intro name
  rw [hk]
  refine ⟨rfl, fun b => ?_⟩
  simp [findBody, hG]

theorem reqKey_keyOut (S : Spell) (hk : S.kOut = keyOut cfg) : ReqKey G cfg S := by
  intro name
  rw [hk]
  unfold keyOut
  cases hm : cfg.proto.isMsgpack
  · refine ⟨rfl, fun b => ?_⟩
    simp [findBody, hm]
  · refine ⟨by simp [requestMethod, hm, utf8Dec_utf8Enc], fun b => ?_⟩
    simp [findBody, hm, utf8Dec_utf8Enc]

theorem encOne_obj_not_null (S : Spell) (R : Registry) (n ns : Text) (b : Option Text) (fs : Fields) (o : Occ)
    (c : Text) (fvs : List (Text × Val)) :
    encOne R S (.obj n ns b fs o) (.obj c fvs) ≠ .null := by
  simp only [encOne, wrapPairs]
  cases S.cas <;> simp only [] <;> (try split) <;> simp

/-- C02, request side: a request written by the documented conventions (spelling `S`) for conformant arguments
    hands exactly those arguments to the user function -/
theorem request_roundtrip {S : Spell} {rd : Bool} (R : Registry) (C : RtCtx F G cfg S rd) (hK : ReqKey G cfg S)
    (name ns : Text) (base : Option Text) (fields : Fields) (o : Occ) (fvs : List (Text × Val))
    (hwf : wfTy (.obj name ns base fields o) = true) (hc : conformsFields fields fvs = true)
    (hmp : mpOk F cfg rd (.obj name ns base fields o) (.obj name fvs))
    (hpl : plain S.cas (.obj name ns base fields o) (.obj name fvs) = true)
    (hnm : cfg.notWrapped.contains name = false) :
    decodeRequest F G cfg R (.obj name ns base fields o)
      (requestDoc cfg S R (.obj name ns base fields o) (.obj name fvs)) = .good (.obj name fvs) := by
  have hone : conformsOne (.obj name ns base fields o) (.obj name fvs) = true := by simp [conformsOne, hc]
  have hrt := rt_ty R C (.obj name ns base fields o) (.obj name fvs) (by simp) hwf hone hmp hpl
  obtain ⟨hmeth, hfind⟩ := hK name
  unfold decodeRequest requestDoc
  cases hproto : cfg.proto
  case msgpackRpc => simp [hrt, toCall, Res.good]
  all_goals
    cases hiw : S.iw
    · -- wrappers kept: the message wrapper is the request envelope
      have hiw' : cfg.ignoreWrappers = false := by rw [← C.hiw]; exact hiw
      have hcas : S.cas = .dict := by
        have := C.hsc; simpa [Spell.consistent, hiw] using this
      have hshape : encOne R S (.obj name ns base fields o) (.obj name fvs) =
          .map [(S.kOut name, .map ((encodeFields S R fields fvs).map (fun p => (S.kOut p.1, p.2))))] := by
        have hnwS : S.nw name = false := by rw [C.hnw]; exact hnm
        simp [encOne, polyTarget_self R, wrapPairs, hcas, hiw, hnwS]
      have hrt' := hrt
      rw [hshape] at hrt'
      simp [hshape, hmeth, hiw', hrt', toCall, Res.good, Res.bind]
    · have hiw' : cfg.ignoreWrappers = true := by rw [← C.hiw]; exact hiw
      have hnn := encOne_obj_not_null S R name ns base fields o name fvs
      simp only [hproto, hiw, Bool.not_true, Bool.or_false, reduceCtorEq, decide_false, Bool.false_eq_true, if_false, hmeth,
        Res.good_bind, ne_eq, not_true_eq_false, hiw', if_true, hfind]
      generalize hb : encOne R S (.obj name ns base fields o) (.obj name fvs) = body at *
      cases body <;> first | exact absurd rfl hnn | simp [hrt, toCall, Res.good]

/-! ### responses -/

theorem occWf_default : occWf {} = true := by decide

/-- a message with a single member `fname : ret` holding `v` survives the round trip -/
theorem single_member_msg {S : Spell} {rd : Bool} (R : Registry) (C : RtCtx F G cfg S rd)
    (rname fname : Text) (ret : Ty) (v : Val)
    (hr : ret.occ.repeated = false) (hwf : wfTy ret = true) (hc : conforms ret v = true)
    (hmp : mpOk F cfg rd ret v) (hpl : plain S.cas ret v = true) (hnl : v = .none → S.cas = .dict) :
    decode F G cfg R (.obj rname [] none [(fname, ret)] {})
      (encOne R S (.obj rname [] none [(fname, ret)] {}) (.obj rname [(fname, v)])) = .good (.obj rname [(fname, v)]) := by
  have hsingle := conforms_single ret v hr
  apply rt_ty R C _ _ (by simp)
  · simp [wfTy, occWf_default, namesDistinct, wfFields, hwf]
  · simp only [conformsOne, decide_true, Bool.true_and]
    rw [conformsFields.eq_def]
    simp only [decide_true, Bool.true_and]
    rw [conformsFields.eq_def]
    simp only [Bool.and_true]
    by_cases hv : v = .none
    · subst hv
      rw [hsingle, conformsOne_none] at hc
      simp [hc, hr]
    · cases v <;> first | exact absurd rfl hv | exact hc
  · intro hm
    have := hmp hm
    refine ⟨by simp [fitsV, fitsFields, this.1], fun h => by simp [mpReadable, mpReadableFields, this.2 h]⟩
  · by_cases hv : v = .none
    · subst hv; simp [plain, plainFields, hnl rfl]
    · cases v <;> first | exact absurd rfl hv | (simp only [plain, plainFields, Bool.and_true] at hpl ⊢; first | done | exact hpl)


theorem resultOf_good (c : Text) (n : Text) (v : Val) : resultOf (.good (.obj c [(n, v)])) = .good v := rfl

/-- C02, response side: what `serialize` writes for a conformant return value is read back, by the same
    conventions, as exactly that value -/
theorem response_roundtrip (L : LeafLaws F) (hG : G.GoodRT) (hsc : cfg.selfConsistent = true)
    (R : Registry) (method : Text) (ret : Ty) (v : Val)
    (hr : ret.occ.repeated = false) (hwf : wfTy ret = true) (hc : conforms ret v = true)
    (hmp : mpOk F cfg true ret v) (hpl : plain cfg.complexAs ret v = true)
    (hnone : v = .none → cfg.complexAs = .dict) :
    decodeResponse F G cfg R method ret (encodeResponse F cfg R method ret v) = .good v := by
  have C := ownCtx (F := F) (G := G) (cfg := cfg) L hG hsc
  have hmem := member_roundtrip R C ret v hr hwf hc hmp hpl
  unfold decodeResponse encodeResponse outMsgTy
  generalize method ++ "Response".toList = rname
  generalize method ++ "Result".toList = fname
  have hmsg := single_member_msg R C rname fname ret v hr hwf hc hmp hpl hnone
  have henc : encOne R (ownSpell F cfg) (.obj rname [] none [(fname, ret)] {}) (.obj rname [(fname, v)]) =
      wrapPairs (ownSpell F cfg) rname
        (if emits (ownSpell F cfg) ret (encodeS (ownSpell F cfg) R ret v) then [(fname, encodeS (ownSpell F cfg) R ret v)] else []) := by
    simp [encOne, polyTarget_self R, encodeFields]
  rw [henc] at hmsg
  have hE : encode F cfg R ret v = encodeS (ownSpell F cfg) R ret v := rfl
  simp only [hE]
  cases hproto : cfg.proto <;> cases hiw : cfg.ignoreWrappers <;> simp [hmsg, hmem, resultOf_good]

end SpyneModel.Hier
