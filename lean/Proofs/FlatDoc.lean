/-
  C03 helper lemmas, part 6: from the flat document (text) to the walk (structure):
  the member table, the leaf texts, and the decoder on any permutation of a documented request.
-/
import Proofs.FlatLenient
import Proofs.FlatKeys
import Proofs.Leaf
namespace SpyneModel.Flat
open SpyneModel

/-! ## the member table -/

/-- the member a path of names leads to -/
def memberAt : List Fld → List Text → Option (Occ × Ty)
  | _, [] => none
  | fields, [n] => (lookupFld fields n).map (fun f => (f.2.1, f.2.2))
  | fields, n :: m :: rest =>
    match lookupFld fields n with
    | some (_, _, .obj _ sub) => memberAt sub (m :: rest)
    | _ => none

/-- the `_SimpleTypeInfoElement` of a member -/
def memOf (path : List Text) (occ : Occ) : Ty → Member
  | .prim p => ⟨path, some p, occ.many, [], occ.nillable⟩
  | .obj _ fs => ⟨path, none, occ.many, fs, occ.nillable⟩

theorem stiTy_head (delim : Text) (path : List Text) (occ : Occ) (t : Ty) :
    (joinKey delim path, memOf path occ t) ∈ stiTy delim path occ t := by
  cases t <;> simp [stiTy, memOf]

theorem stiTy_sub (delim : Text) (path : List Text) (occ : Occ) (cid : Nat) (sub : List Fld) :
    ∀ x, x ∈ stiFields delim path sub → x ∈ stiTy delim path occ (.obj cid sub) := by
  intro x hx; simp [stiTy, hx]

theorem sti_lookup_sub (delim : Text) (pre : List Text) (fields : List Fld) (n : Text) (f : Fld)
    (h : lookupFld fields n = some f) :
    ∀ x, x ∈ stiTy delim (pre ++ [n]) f.2.1 f.2.2 → x ∈ stiFields delim pre fields := by
  induction fields with
  | nil => simp [lookupFld] at h
  | cons a r ih =>
    obtain ⟨an, aocc, at'⟩ := a
    intro x hx
    simp only [lookupFld] at h
    simp only [stiFields, List.mem_append]
    split at h
    · rename_i hn
      simp only [Option.some.injEq] at h
      subst h
      have hn' : an = n := hn
      subst hn'
      exact Or.inl hx
    · exact Or.inr (ih h x hx)

theorem sti_mem (delim : Text) : ∀ (path pre : List Text) (fields : List Fld) (occ : Occ) (ty : Ty),
    memberAt fields path = some (occ, ty) →
      (joinKey delim (pre ++ path), memOf (pre ++ path) occ ty) ∈ stiFields delim pre fields := by
  intro path
  induction path with
  | nil => intro pre fields occ ty h; simp [memberAt] at h
  | cons n rest ih =>
    intro pre fields occ ty h
    cases rest with
    | nil =>
      simp only [memberAt, Option.map_eq_some_iff] at h
      obtain ⟨f, hf, heq⟩ := h
      simp only [Prod.mk.injEq] at heq
      have := sti_lookup_sub delim pre fields n f hf _ (stiTy_head delim (pre ++ [n]) f.2.1 f.2.2)
      rw [heq.1, heq.2] at this
      exact this
    | cons m rest' =>
      simp only [memberAt] at h
      split at h
      · rename_i fn focc cid sub hl
        have := ih (pre ++ [n]) sub occ ty h
        rw [List.append_assoc] at this
        apply sti_lookup_sub delim pre fields n _ hl
        exact stiTy_sub delim (pre ++ [n]) focc cid sub _ this
      · simp at h

theorem stiGet_of_mem {table : List (Text × Member)} (hn : (table.map Prod.fst).Nodup) {k : Text} {m : Member}
    (h : (k, m) ∈ table) : stiGet table k = some m := by
  induction table with
  | nil => simp at h
  | cons a r ih =>
    obtain ⟨k', m'⟩ := a
    simp only [List.map_cons, List.nodup_cons] at hn
    simp only [stiGet]
    rcases List.mem_cons.mp h with h | h
    · simp only [Prod.mk.injEq] at h
      simp [h.1, h.2]
    · have : k' ≠ k := fun e => hn.1 (e ▸ List.mem_map_of_mem (f := Prod.fst) h)
      simp only [this, if_false]
      exact ih hn.2 h

/-! ## leaves -/

theorem intText_ne_nil (i : Int) : intText i ≠ [] := by
  unfold intText
  split
  · simp
  · exact natText_ne_nil _

theorem fitsGuard_eq (F : Facts03) (p : PK) (v : Leaf) : fitsGuard F p v = leafFits F.leaf p v := by
  cases p <;> cases v <;> first | rfl | (rename_i k r i; cases k <;> rfl)

theorem valueOk_ne_none (p : PK) (v : Leaf) (h : p.valueOk v = true) : v ≠ .none := by
  intro e; subst e; cases p <;> simp [PrimTy.valueOk] at h

theorem intFromText_nil (F8 : Facts08) (k : IntKind) : intFromText F8 k [] = .fault := by
  unfold intFromText
  split
  · rfl
  · rfl

/-- the text of a conformant value is read back as the value by HttpRpc's leaf reader, and passes
    both stages of soft validation -/
theorem leafFrom_leafText (F : Facts03) (L : LeafLaws F.leaf) (p : PK) (v : Leaf) (h : LeafOk F p v)
    (soft nillable : Bool) :
    ∃ s, leafText F p v = some s ∧ nativeOf F soft nillable p (some s) = .ok v := by
  obtain ⟨s, hs, hfrom⟩ := L.roundtrip p v h.1 (by rw [← fitsGuard_eq]; exact h.2)
  refine ⟨s, hs, ?_⟩
  have hsoft := L.soft p s v hfrom
  rw [h.1] at hsoft
  simp only [Bool.and_eq_true] at hsoft
  have hvn := valueOk_ne_none p v h.1
  -- HttpRpc's reader agrees with the shared one on this text
  have hmine : leafFrom F p (some s) = .ok v := by
    cases p with
    | integer k r =>
      simp only [leafFrom]
      have hne : s.isEmpty = false := by
        cases s with
        | nil =>
          simp only [leafFromText, intFromText_nil, Outcome.map] at hfrom
          exact absurd hfrom (by simp)
        | cons _ _ => rfl
      simp only [hne, Bool.false_and, Bool.false_eq_true, if_false]
      exact hfrom
    | boolean =>
      cases v <;> simp [leafToText] at hs
      rename_i b
      subst hs
      cases b <;> simp [leafFrom, boolFromHttp, boolToText, Outcome.map, asciiLower] <;> decide
    | unicode a b c d => exact hfrom
    | date => exact hfrom
    | time => exact hfrom
    | dateTime => exact hfrom
    | duration => exact hfrom
    | bytes e => exact hfrom
    | enum ns => exact hfrom
  unfold nativeOf
  have h1 : softString F nillable p (some s) = true := hsoft.1
  have h2 : softNative nillable p v = true := by
    cases v <;> first | exact absurd rfl hvn | exact hsoft.2
  simp [h1, hmine, h2]

theorem toNative_texts (F : Facts03) (L : LeafLaws F.leaf) (soft nillable : Bool) (p : PK) (vs : List Leaf)
    (h : ∀ v, v ∈ vs → LeafOk F p v) :
    toNative F soft nillable p (vs.map (leafText F p)) = .ok vs := by
  induction vs with
  | nil => rfl
  | cons v r ih =>
    obtain ⟨s, hs, hn⟩ := leafFrom_leafText F L p v (h v List.mem_cons_self) soft nillable
    simp only [List.map_cons, toNative, hs, hn, obind_ok]
    rw [ih (fun v' hv' => h v' (List.mem_cons_of_mem _ hv'))]
    rfl

/-! ## every key of a documented request is a key of the member table -/

/-- the values a key carries fit the member it names -/
def KVOk (F : Facts03) (occ : Occ) : Ty → KV → Prop
  | .prim p, .prims p' many vs => p' = p ∧ occ.many = many ∧ ∀ v, v ∈ vs → LeafOk F p v
  | .obj _ _, .emptyArr => occ.many = true
  | .obj _ sub', .emptyObj sub => occ.many = false ∧ sub = sub'
  | _, _ => False

theorem kentries_mem (fields : List Fld) (ms : Members) :
    ∀ e, e ∈ kentries fields ms → ∃ n sv, (n, sv) ∈ ms ∧ e ∈ kentriesVal fields n sv := by
  induction ms with
  | nil => simp [kentries]
  | cons a r ih =>
    obtain ⟨n, sv⟩ := a
    intro e he
    simp only [kentries, List.mem_append] at he
    rcases he with he | he
    · exact ⟨n, sv, List.mem_cons_self, he⟩
    · obtain ⟨n', sv', h1, h2⟩ := ih e he
      exact ⟨n', sv', List.mem_cons_of_mem _ h1, h2⟩

theorem memberAt_push (fields : List Fld) (n : Text) (occ : Occ) (cid : Nat) (sub : List Fld)
    (hl : lookupFld fields n = some (n, occ, .obj cid sub)) (i : Option Nat) (y : KEntry) (hy : y.segs ≠ []) :
    memberAt fields (y.push n i).path = memberAt sub y.path := by
  obtain ⟨segs, kv⟩ := y
  cases segs with
  | nil => exact absurd rfl hy
  | cons s r => simp [KEntry.push, KEntry.path, memberAt, hl]

theorem name_nobr {fields : List Fld} (h : NamesOk fields) {n : Text} {f : Fld} (hl : lookupFld fields n = some f) :
    ∀ c, c ∈ n → c ≠ '[' := by
  obtain ⟨h1, h2⟩ := lookupFld_some hl
  have := h.2 n (h2 ▸ List.mem_map_of_mem (f := Prod.fst) h1)
  intro c hc e
  exact this (e ▸ hc)

theorem kentries_valid (F : Facts03) : ∀ (N : Nat) (fields : List Fld) (ms : Members), msSize ms ≤ N →
    NamesOk fields → WfFields fields → WtMembers F fields ms →
    ∀ ke, ke ∈ kentries fields ms →
      ∃ occ ty, memberAt fields ke.path = some (occ, ty) ∧ KVOk F occ ty ke.kv ∧
        ∀ s, s ∈ ke.segs → ∀ c, c ∈ s.1 → c ≠ '[' := by
  intro N
  induction N with
  | zero =>
    intro fields ms hs _ _ _ ke hke
    cases ms with
    | nil => simp [kentries] at hke
    | cons a r => obtain ⟨n, sv⟩ := a; simp [msSize] at hs
  | succ N ih =>
    intro fields ms hs hnames hwf hwt ke hke
    obtain ⟨n, sv, hmem, hke'⟩ := kentries_mem fields ms ke hke
    have hwv := (WtMembers_unpack hwt).2 n sv hmem
    have hsz := size_lt_of_mem hmem
    cases sv with
    | leaf v =>
      obtain ⟨occ, p, hl, hm, hok⟩ := hwv
      simp only [kentriesVal, List.mem_singleton] at hke'
      subst hke'
      refine ⟨occ, .prim p, by simp [KEntry.path, memberAt, hl], ⟨by simp [primOf, hl], hm, by simpa using hok⟩, ?_⟩
      intro s hs'; simp only [List.mem_singleton] at hs'; subst hs'; exact name_nobr hnames hl
    | leaves vs =>
      obtain ⟨occ, p, hl, hm, _, hok⟩ := hwv
      simp only [kentriesVal, List.mem_singleton] at hke'
      subst hke'
      refine ⟨occ, .prim p, by simp [KEntry.path, memberAt, hl], ⟨by simp [primOf, hl], hm, hok⟩, ?_⟩
      intro s hs'; simp only [List.mem_singleton] at hs'; subst hs'; exact name_nobr hnames hl
    | emptyObj =>
      obtain ⟨occ, cid, sub, hl, hm⟩ := hwv
      simp only [kentriesVal, List.mem_singleton] at hke'
      subst hke'
      refine ⟨occ, .obj cid sub, by simp [KEntry.path, memberAt, hl], ⟨hm, subOf_eq hl⟩, ?_⟩
      intro s hs'; simp only [List.mem_singleton] at hs'; subst hs'; exact name_nobr hnames hl
    | obj ms' =>
      obtain ⟨occ, cid, sub, hl, hm, hne', hwt'⟩ := hwv
      simp only [kentriesVal, subOf_eq hl, List.mem_map] at hke'
      obtain ⟨y, hy, rfl⟩ := hke'
      obtain ⟨hsn, hswf⟩ := Wf_sub hwf hl
      obtain ⟨occ', ty', h1, h2, h3⟩ := ih sub ms' (by simp only [SVal.size] at hsz; omega) hsn hswf hwt' y hy
      refine ⟨occ', ty', ?_, h2, ?_⟩
      · rw [memberAt_push fields n occ cid sub hl none y (kentries_segs_ne sub ms' y hy)]; exact h1
      · intro s hs'
        simp only [KEntry.push, List.mem_cons] at hs'
        rcases hs' with rfl | hs'
        · exact name_nobr hnames hl
        · exact h3 s hs'
    | arr elems =>
      obtain ⟨occ, cid, sub, hl, hm, hinc, hwe⟩ := hwv
      simp only [kentriesVal, subOf_eq hl] at hke'
      split at hke'
      · simp only [List.mem_singleton] at hke'
        subst hke'
        refine ⟨occ, .obj cid sub, by simp [KEntry.path, memberAt, hl], hm, ?_⟩
        intro s hs'; simp only [List.mem_singleton] at hs'; subst hs'; exact name_nobr hnames hl
      · obtain ⟨i, ms', y, hel, hy, rfl⟩ := kentriesElems_form sub n elems ke hke'
        obtain ⟨hsn, hswf⟩ := Wf_sub hwf hl
        have hw := WtElems_unpack hwe i ms' hel
        have hsz' := elSize_lt_of_mem hel
        obtain ⟨occ', ty', h1, h2, h3⟩ := ih sub ms' (by simp only [SVal.size] at hsz; omega) hsn hswf hw.2 y hy
        refine ⟨occ', ty', ?_, h2, ?_⟩
        · rw [memberAt_push fields n occ cid sub hl (some i) y (kentries_segs_ne sub ms' y hy)]; exact h1
        · intro s hs'
          simp only [KEntry.push, List.mem_cons] at hs'
          rcases hs' with rfl | hs'
          · exact name_nobr hnames hl
          · exact h3 s hs'

/-! ## one key of the document -/

theorem stepKeyT_render (F : Facts03) (L : LeafLaws F.leaf) (strict soft : Bool) (fields : List Fld) (delim : Text)
    (hk : KeysOk delim fields) (ke : KEntry) (occ : Occ) (ty : Ty)
    (hm : memberAt fields ke.path = some (occ, ty)) (hkv : KVOk F occ ty ke.kv)
    (hnb : ∀ s, s ∈ ke.segs → ∀ c, c ∈ s.1 → c ≠ '[') (attrs : Attrs) :
    stepKeyT F strict soft fields (stiFields delim [] fields) attrs (renderKey delim ke.segs, ke.kv.texts F) =
      walkK strict fields attrs ke := by
  have hd : ∀ c, c ∈ delim → c ≠ '[' := fun c hc e => hk.2 (e ▸ hc)
  have hget : stiGet (stiFields delim [] fields) (stripIdx (renderKey delim ke.segs)) =
      some (memOf ke.path occ ty) := by
    rw [stripIdx_renderKey delim ke.segs hd hnb]
    have := sti_mem delim ke.path [] fields occ ty hm
    simp only [List.nil_append] at this
    exact stiGet_of_mem hk.1 this
  unfold stepKeyT
  simp only [hget, findIdx_renderKey delim ke.segs hd hnb]
  obtain ⟨segs, kv⟩ := ke
  cases ty with
  | prim p =>
    cases kv with
    | prims p' many vs =>
      obtain ⟨h0, h1, h2⟩ := hkv
      subst h0
      simp only [memOf, KV.texts, toNative_texts F L soft occ.nillable p' vs h2, obind_ok, h1]
      rfl
    | emptyArr => exact absurd hkv (by simp [KVOk])
    | emptyObj sub => exact absurd hkv (by simp [KVOk])
  | obj cid sub' =>
    cases kv with
    | prims p' many vs => exact absurd hkv (by simp [KVOk])
    | emptyArr =>
      simp only [KVOk] at hkv
      simp only [memOf, KV.texts, if_true, hkv]
      rfl
    | emptyObj sub =>
      obtain ⟨h1, h2⟩ := hkv
      subst h2
      simp only [memOf, KV.texts, if_true, h1, Bool.false_eq_true, if_false]
      rfl

/-! ## sorting -/

theorem insertFront_perm {α : Type} (lt : α → α → Bool) (x : α) (l : List α) :
    (sortBy.insertFront lt x l).Perm (x :: l) := by
  induction l with
  | nil => exact List.Perm.refl _
  | cons y ys ih =>
    simp only [sortBy.insertFront]
    split
    · exact (List.Perm.cons y ih).trans (List.Perm.swap x y ys)
    · exact List.Perm.refl _

theorem sortBy_perm {α : Type} (lt : α → α → Bool) (l : List α) : (sortBy lt l).Perm l := by
  induction l with
  | nil => exact List.Perm.refl _
  | cons x xs ih =>
    simp only [sortBy]
    exact (insertFront_perm lt x _).trans (List.Perm.cons x ih)

theorem foldO_map {σ α β : Type} (f : σ → β → Outcome σ) (g : α → β) (s : σ) (l : List α) :
    foldO f s (l.map g) = foldO (fun s a => f s (g a)) s l := by
  induction l generalizing s with
  | nil => rfl
  | cons a r ih =>
    simp only [List.map_cons, foldO_cons]
    cases f s (g a) with
    | ok s1 => simp [ih]
    | fault => rfl
    | crash e => rfl

/-! ## the decoder on a documented request, pairs in any order -/

theorem decode_documented_lenient (F : Facts03) (L : LeafLaws F.leaf) (cfg : Cfg) (fields : List Fld) (ms : Members) (doc : Doc)
    (hstrict : cfg.strict = false) (hsoft : cfg.soft = false)
    (htag : (F.tagScope = .perRequestClass && hasDup (cidsFields fields)) = false)
    (hwf : WfSig fields) (hkeys : KeysOk cfg.delim fields) (hwt : WtMembers F fields ms)
    (hp : doc.Perm (docOf F cfg.delim fields ms)) :
    decode F cfg fields doc = .ok (.obj (expAttrs fields ms)) := by
  rw [decode_eq_T F cfg fields doc hsoft htag, hstrict]
  have hperm : (sortDoc F doc).Perm (docOf F cfg.delim fields ms) := (sortBy_perm _ doc).trans hp
  obtain ⟨ys, hys, hyseq⟩ := perm_map_pullback _ _ _ hperm
  rw [hyseq, foldO_map]
  have hcongr := foldO_congr
    (fun s (a : KEntry) => stepKeyT F false false fields (stiFields cfg.delim [] fields) s
      (renderKey cfg.delim a.segs, a.kv.texts F))
    (walkK false fields) ys (by
      intro s a ha
      obtain ⟨occ, ty, h1, h2, h3⟩ := kentries_valid F _ fields ms (Nat.le_refl _) hwf.1 hwf.2 hwt a (hys.subset ha)
      exact stepKeyT_render F L false false fields cfg.delim hkeys a occ ty h1 h2 h3 s)
    (freshAttrs fields)
  rw [hcongr]
  obtain ⟨attrs', h1, h2⟩ := walkAll_lenient F _ fields ms (Nat.le_refl _) hwf.1.1 hwf.2 hwt ys hys
  rw [h1, omap_ok, h2]

end SpyneModel.Flat
