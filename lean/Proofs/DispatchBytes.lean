/-
  Lemmas for the byte level of the C11 model (SpyneModel/DispatchBytes.lean): strict UTF-8 decoding inverts
  encoding and accepts nothing but the canonical encoding.
-/
import SpyneModel.DispatchBytes
import Proofs.Dispatch
namespace SpyneModel.Dispatch
open SpyneModel

theorem utf8Decode_encodeOne (cp : Nat) (h : isScalar cp = true) (rest : List Nat) :
    utf8Decode (encodeOne cp ++ rest) = (utf8Decode rest).map (cp :: ·) := by
  simp only [isScalar, Bool.or_eq_true, Bool.and_eq_true, decide_eq_true_eq] at h
  unfold encodeOne
  by_cases h1 : cp < 0x80
  · simp only [h1, if_true, List.cons_append, List.nil_append]
    conv => lhs; unfold utf8Decode
    simp only [h1, if_true]
  · by_cases h2 : cp < 0x800
    · simp only [h1, h2, if_true, if_false, List.cons_append, List.nil_append]
      simp only [utf8Decode]
      have a1 : ¬ (0xC0 + cp / 64 < 0x80) := by omega
      have a2 : ¬ (0xC0 + cp / 64 < 0xC2) := by omega
      have a3 : 0xC0 + cp / 64 < 0xE0 := by omega
      have a4 : isCont (0x80 + cp % 64) = true := by simp [isCont]; omega
      have a5 : (0xC0 + cp / 64 - 0xC0) * 64 + (0x80 + cp % 64 - 0x80) = cp := by omega
      simp only [a1, a2, a3, a4, a5, if_true, if_false]
    · by_cases h3 : cp < 0x10000
      · simp only [h1, h2, h3, if_true, if_false, List.cons_append, List.nil_append]
        simp only [utf8Decode]
        have a1 : ¬ (0xE0 + cp / 4096 < 0x80) := by omega
        have a2 : ¬ (0xE0 + cp / 4096 < 0xC2) := by omega
        have a3 : ¬ (0xE0 + cp / 4096 < 0xE0) := by omega
        have a3' : 0xE0 + cp / 4096 < 0xF0 := by omega
        have a4 : isCont (0x80 + cp / 64 % 64) = true := by simp [isCont]; omega
        have a4' : isCont (0x80 + cp % 64) = true := by simp [isCont]; omega
        have a5 : (0xE0 + cp / 4096 - 0xE0) * 4096 + (0x80 + cp / 64 % 64 - 0x80) * 64 + (0x80 + cp % 64 - 0x80) = cp := by omega
        have a6 : 0x800 ≤ cp ∧ ¬ (0xD800 ≤ cp ∧ cp < 0xE000) := by omega
        simp only [a1, a2, a3, a3', a4, a4', a5, a6, if_true, if_false, and_self, not_false_eq_true]
      · simp only [h1, h2, h3, if_false, List.cons_append, List.nil_append]
        simp only [utf8Decode]
        have a1 : ¬ (0xF0 + cp / 262144 < 0x80) := by omega
        have a2 : ¬ (0xF0 + cp / 262144 < 0xC2) := by omega
        have a3 : ¬ (0xF0 + cp / 262144 < 0xE0) := by omega
        have a3' : ¬ (0xF0 + cp / 262144 < 0xF0) := by omega
        have a3'' : 0xF0 + cp / 262144 < 0xF5 := by omega
        have a4 : isCont (0x80 + cp / 4096 % 64) = true := by simp [isCont]; omega
        have a4' : isCont (0x80 + cp / 64 % 64) = true := by simp [isCont]; omega
        have a4'' : isCont (0x80 + cp % 64) = true := by simp [isCont]; omega
        have a5 : (0xF0 + cp / 262144 - 0xF0) * 262144 + (0x80 + cp / 4096 % 64 - 0x80) * 4096 +
            (0x80 + cp / 64 % 64 - 0x80) * 64 + (0x80 + cp % 64 - 0x80) = cp := by omega
        have a6 : 0x10000 ≤ cp ∧ cp < 0x110000 := by omega
        simp only [a1, a2, a3, a3', a3'', a4, a4', a4'', a5, a6, if_true, if_false, true_and, and_self]

theorem utf8Decode_encode (cps : List Nat) (h : ∀ c ∈ cps, isScalar c = true) :
    utf8Decode (utf8Encode cps) = some cps := by
  induction cps with
  | nil => simp [utf8Encode, utf8Decode]
  | cons c cs ih =>
    have : utf8Encode (c :: cs) = encodeOne c ++ utf8Encode cs := by simp [utf8Encode]
    rw [this, utf8Decode_encodeOne c (h c (by simp)), ih (fun x hx => h x (by simp [hx]))]
    rfl


theorem map_cons_some {α} {o : Option (List α)} {x : α} {l : List α}
    (h : o.map (x :: ·) = some l) : ∃ t, o = some t ∧ l = x :: t := by
  cases o with
  | none => simp at h
  | some t => simp at h; exact ⟨t, rfl, h.symm⟩

theorem utf8Encode_cons (c : Nat) (cs : List Nat) : utf8Encode (c :: cs) = encodeOne c ++ utf8Encode cs := by
  simp [utf8Encode]

theorem utf8Encode_decode (bs : List Nat) : ∀ cps, utf8Decode bs = some cps →
    utf8Encode cps = bs ∧ ∀ c ∈ cps, isScalar c = true := by
  fun_induction utf8Decode bs with
  | case1 => intro cps h; simp at h; subst h; simp [utf8Encode]
  | case2 b0 r h0 ih =>
    intro cps h
    obtain ⟨t, ht, rfl⟩ := map_cons_some h
    have ⟨e, s⟩ := ih t ht
    refine ⟨by rw [utf8Encode_cons, e]; simp [encodeOne, h0], ?_⟩
    intro c hc; rcases List.mem_cons.mp hc with rfl | hc
    · simp [isScalar]; omega
    · exact s c hc
  | case3 => intro cps h; simp at h
  | case4 b0 h0 h1 h2 b1 r1 hc ih =>
    intro cps h
    simp only [isCont, Bool.and_eq_true, decide_eq_true_eq] at hc
    generalize hcp : (b0 - 0xC0) * 64 + (b1 - 0x80) = cp at h
    obtain ⟨t, ht, rfl⟩ := map_cons_some h
    have ⟨e, s⟩ := ih t ht
    refine ⟨?_, ?_⟩
    · rw [utf8Encode_cons, e]
      have g1 : ¬ (cp < 0x80) := by omega
      have g2 : cp < 0x800 := by omega
      simp only [encodeOne, g1, g2, if_true, if_false, List.cons_append, List.nil_append]
      have q1 : 0xC0 + cp / 64 = b0 := by omega
      have q2 : 0x80 + cp % 64 = b1 := by omega
      rw [q1, q2]
    · intro c hc'
      rcases List.mem_cons.mp hc' with hceq | hc'
      · have : c < 0x800 := by omega
        simp only [isScalar, Bool.or_eq_true, Bool.and_eq_true, decide_eq_true_eq]; omega
      · exact s c hc'
  | case5 => intro cps h; simp at h
  | case6 => intro cps h; simp at h
  | case7 b0 h0 h1 h2 h3 b1 b2 r2 cp hc ih =>
    intro cps h
    obtain ⟨t, ht, rfl⟩ := map_cons_some h
    have ⟨e, s⟩ := ih t ht
    simp only [isCont, Bool.and_eq_true, decide_eq_true_eq] at hc
    have hcp : cp = (b0 - 224) * 4096 + (b1 - 128) * 64 + (b2 - 128) := rfl
    refine ⟨?_, ?_⟩
    · rw [utf8Encode_cons, e]
      have g1 : ¬ (cp < 0x80) := by omega
      have g2 : ¬ (cp < 0x800) := by omega
      have g3 : cp < 0x10000 := by omega
      simp only [encodeOne, g1, g2, g3, if_true, if_false, List.cons_append, List.nil_append]
      have q1 : 0xE0 + cp / 4096 = b0 := by omega
      have q2 : 0x80 + cp / 64 % 64 = b1 := by omega
      have q3 : 0x80 + cp % 64 = b2 := by omega
      rw [q1, q2, q3]
    · intro c hc'
      rcases List.mem_cons.mp hc' with hceq | hc'
      · simp only [isScalar, Bool.or_eq_true, Bool.and_eq_true, decide_eq_true_eq]; omega
      · exact s c hc'
  | case8 => intro cps h; simp at h
  | case9 => intro cps h; simp at h
  | case10 b0 h0 h1 h2 h3 h4 b1 b2 b3 r3 cp hc ih =>
    intro cps h
    obtain ⟨t, ht, rfl⟩ := map_cons_some h
    have ⟨e, s⟩ := ih t ht
    simp only [isCont, Bool.and_eq_true, decide_eq_true_eq] at hc
    have hcp : cp = (b0 - 240) * 262144 + (b1 - 128) * 4096 + (b2 - 128) * 64 + (b3 - 128) := rfl
    refine ⟨?_, ?_⟩
    · rw [utf8Encode_cons, e]
      have g1 : ¬ (cp < 0x80) := by omega
      have g2 : ¬ (cp < 0x800) := by omega
      have g3 : ¬ (cp < 0x10000) := by omega
      simp only [encodeOne, g1, g2, g3, if_false, List.cons_append, List.nil_append]
      have q0 : 0xF0 + cp / 262144 = b0 := by omega
      have q1 : 0x80 + cp / 4096 % 64 = b1 := by omega
      have q2 : 0x80 + cp / 64 % 64 = b2 := by omega
      have q3 : 0x80 + cp % 64 = b3 := by omega
      rw [q0, q1, q2, q3]
    · intro c hc'
      rcases List.mem_cons.mp hc' with hceq | hc'
      · simp only [isScalar, Bool.or_eq_true, Bool.and_eq_true, decide_eq_true_eq]; omega
      · exact s c hc'
  | case11 => intro cps h; simp at h
  | case12 => intro cps h; simp at h
  | case13 => intro cps h; simp at h


theorem toNat_ofNat_scalar (n : Nat) (h : isScalar n = true) : (Char.ofNat n).toNat = n := by
  simp only [isScalar, Bool.or_eq_true, Bool.and_eq_true, decide_eq_true_eq] at h
  have hv : n.isValidChar := by
    unfold Nat.isValidChar; omega
  simp [Char.ofNat, hv, Char.ofNatAux, Char.toNat]

theorem isScalar_toNat (c : Char) : isScalar c.toNat = true := by
  have hv : c.toNat < 0xd800 ∨ (0xdfff < c.toNat ∧ c.toNat < 0x110000) := c.valid
  simp only [isScalar, Bool.or_eq_true, Bool.and_eq_true, decide_eq_true_eq]
  omega

theorem map_toNat_ofNat (cps : List Nat) (h : ∀ c ∈ cps, isScalar c = true) :
    (cps.map Char.ofNat).map Char.toNat = cps := by
  induction cps with
  | nil => rfl
  | cons c cs ih =>
    simp only [List.map_cons, toNat_ofNat_scalar c (h c (by simp)), ih (fun x hx => h x (by simp [hx]))]

/-- strict UTF-8 accepts only the one canonical encoding of the text it yields -/
theorem decodeName_canonical (bs : List Nat) (s : Text) (h : decodeName bs = some s) : bs = encodeName s := by
  unfold decodeName at h
  cases hd : utf8Decode bs with
  | none => simp [hd] at h
  | some cps =>
    simp [hd] at h
    have ⟨e, sc⟩ := utf8Encode_decode bs cps hd
    unfold encodeName
    rw [← h, map_toNat_ofNat cps sc, e]

theorem decodeName_encodeName (s : Text) : decodeName (encodeName s) = some s := by
  unfold decodeName encodeName
  rw [utf8Decode_encode _ (by intro c hc; simp only [List.mem_map] at hc; obtain ⟨x, _, rfl⟩ := hc; exact isScalar_toNat x)]
  simp only [List.map_map, Option.map_some]
  congr 1
  induction s with
  | nil => rfl
  | cons c cs ih => simp only [List.map_cons, Function.comp, Char.ofNat_toNat, ih]

/-- the naming function on bytes is injective on what it accepts -/
theorem decodeName_inj (b1 b2 : List Nat) (s : Text) (h1 : decodeName b1 = some s) (h2 : decodeName b2 = some s) :
    b1 = b2 := by
  rw [decodeName_canonical b1 s h1, decodeName_canonical b2 s h2]


/-! ## requests whose name is a wire name -/

theorem serveWire_bin (F : Facts11) (hB : F.binNames = .strictUtf8) (r : Routes) (tns : Text)
    (mk : Text → Request) (bs : List Nat) :
    serveWire F r tns mk (.bin bs) =
      (match decodeName bs with | none => .clientFault | some n => serve F r tns (mk n)) := by
  simp only [serveWire, WireName.decode, hB]
  cases decodeName bs <;> rfl

/-- bytes that run something are exactly the UTF-8 encoding of a registered public name -/
theorem serveWire_ran_exact (F : Facts11) (hA : F.auxFirst = .insertFront) (hI : F.ifaceDup = .reject)
    (hE : F.emptyIsNotFound = true) (hB : F.binNames = .strictUtf8)
    (tns : Text) (ms : List Method) (r : Routes) (hb : build F tns ms = .ok r)
    (mk : Text → Request) (hmk : ∀ n, requestKey F tns (mk n) = qname tns n)
    (bs : List Nat) (calls : List Nat) (hs : serveWire F r tns mk (.bin bs) = .ran calls) :
    ∃ m ∈ ms, bs = encodeName m.name := by
  rw [serveWire_bin F hB] at hs
  cases hd : decodeName bs with
  | none => simp [hd] at hs
  | some n =>
    simp only [hd] at hs
    by_cases hex : ∃ m ∈ ms, m.name = n
    · obtain ⟨m, hm, hn⟩ := hex
      exact ⟨m, hm, by rw [hn]; exact decodeName_canonical bs n hd⟩
    · exfalso
      have : serve F r tns (mk n) = .notFound := by
        apply serve_unknown F hA hI hE tns ms r hb
        intro m hm hk
        rw [hmk n] at hk
        exact hex ⟨m, hm, qname_inj_right tns _ _ hk⟩
      rw [this] at hs; cases hs

theorem serveWire_registered (F : Facts11) (hA : F.auxFirst = .insertFront) (hI : F.ifaceDup = .reject)
    (hE : F.emptyIsNotFound = true) (hB : F.binNames = .strictUtf8)
    (tns : Text) (ms : List Method) (r : Routes) (hb : build F tns ms = .ok r)
    (mk : Text → Request) (hmk : ∀ n, requestKey F tns (mk n) = qname tns n)
    (m : Method) (hm : m ∈ ms) (ha : m.aux = false) :
    serveWire F r tns mk (.bin (encodeName m.name)) =
      .ran (m.fid :: (auxs tns ms (routeKey tns m)).map (·.fid)) := by
  rw [serveWire_bin F hB, decodeName_encodeName]
  exact serve_registered F hA hI hE tns ms r hb m hm ha (mk m.name) (hmk m.name)

end SpyneModel.Dispatch
