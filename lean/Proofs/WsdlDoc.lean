/- Lemmas for C07: the WSDL part of the document (messages, portTypes, bindings, services). -/
import Proofs.Wsdl
namespace SpyneModel.Wsdl
open SpyneModel

/-! ## messages -/

abbrev MAcc := List Msg × List String

def mnames (a : MAcc) : List String := a.1.map (·.name)

theorem addMessage_mono (I : IState) (objs : List Nat) (n : String) (a : MAcc) (x : String)
    (h : x ∈ mnames a) : x ∈ mnames (addMessage I objs n a) := by
  unfold addMessage
  split
  · exact h
  · simp only [mnames, List.map_append, List.mem_append]
    exact Or.inl h

theorem addMessage_has (I : IState) (objs : List Nat) (n : String) (a : MAcc) :
    n ∈ mnames (addMessage I objs n a) := by
  unfold addMessage
  split
  · rename_i h
    simpa [mnames] using h
  · simp [mnames]

theorem addHeaderMessage_mono (I : IState) (m : Meth) (h : Option (List Nat)) (sfx : String) (a : MAcc) (x : String)
    (hx : x ∈ mnames a) : x ∈ mnames (addHeaderMessage I m h sfx a) := by
  unfold addHeaderMessage
  cases h with
  | none => exact hx
  | some hs => exact addMessage_mono I _ _ a x hx

theorem faultMsgLoop_mono (I : IState) (fs : List Nat) (a : MAcc) (x : String) (hx : x ∈ mnames a) :
    x ∈ mnames (faultMsgLoop I fs a) := by
  induction fs generalizing a with
  | nil => exact hx
  | cons f fs ih => exact ih _ (addMessage_mono I _ _ a x hx)

theorem faultMsgLoop_has (I : IState) (fs : List Nat) (a : MAcc) (f : Nat) (hf : f ∈ fs) :
    (I.cls f).tn ∈ mnames (faultMsgLoop I fs a) := by
  induction fs generalizing a with
  | nil => cases hf
  | cons g gs ih =>
    rcases List.mem_cons.mp hf with rfl | hf
    · simp only [faultMsgLoop]
      exact faultMsgLoop_mono I gs _ _ (addMessage_has I _ _ a)
    · simp only [faultMsgLoop]
      exact ih _ hf

theorem messagesLoop_mono (I : IState) (ms : List Meth) (a : MAcc) (x : String) (hx : x ∈ mnames a) :
    x ∈ mnames (messagesLoop I ms a) := by
  induction ms generalizing a with
  | nil => exact hx
  | cons m ms ih =>
    simp only [messagesLoop]
    apply ih
    apply faultMsgLoop_mono
    apply addHeaderMessage_mono
    apply addHeaderMessage_mono
    apply addMessage_mono
    exact addMessage_mono I _ _ a x hx

/-- every message name a method refers to is the name of a `wsdl:message` -/
theorem messagesLoop_has (I : IState) (ms : List Meth) (a : MAcc) (m : Meth) (hm : m ∈ ms) :
    (I.cls m.inMsg).elemName ∈ mnames (messagesLoop I ms a) ∧
    (I.cls m.outMsg).elemName ∈ mnames (messagesLoop I ms a) ∧
    (∀ f ∈ m.faults, (I.cls f).tn ∈ mnames (messagesLoop I ms a)) ∧
    (∀ hs, m.inHeader = some hs → headerMsgName I m hs "InHeaderMsg" ∈ mnames (messagesLoop I ms a)) ∧
    (∀ hs, m.outHeader = some hs → headerMsgName I m hs "OutHeaderMsg" ∈ mnames (messagesLoop I ms a)) := by
  induction ms generalizing a with
  | nil => cases hm
  | cons m' ms ih =>
    rcases List.mem_cons.mp hm with rfl | hm
    · simp only [messagesLoop]
      refine ⟨?_, ?_, ?_, ?_, ?_⟩
      · apply messagesLoop_mono; apply faultMsgLoop_mono; apply addHeaderMessage_mono; apply addHeaderMessage_mono
        apply addMessage_mono; exact addMessage_has I _ _ a
      · apply messagesLoop_mono; apply faultMsgLoop_mono; apply addHeaderMessage_mono; apply addHeaderMessage_mono
        exact addMessage_has I _ _ _
      · intro f hf
        apply messagesLoop_mono
        exact faultMsgLoop_has I _ _ f hf
      · intro hs hh
        apply messagesLoop_mono; apply faultMsgLoop_mono; apply addHeaderMessage_mono
        rw [hh]
        exact addMessage_has I _ _ _
      · intro hs hh
        apply messagesLoop_mono; apply faultMsgLoop_mono
        rw [hh]
        exact addMessage_has I _ _ _
    · simp only [messagesLoop]
      exact ih _ hm

/-! ## portTypes -/

def ptNames (pts : List PortType) : List String := pts.map (·.name)

theorem ptNames_appendOp (x : String) (op : Op) (pts : List PortType) : ptNames (appendOp x op pts) = ptNames pts := by
  induction pts with
  | nil => rfl
  | cons pt r ih =>
    simp only [appendOp]
    split
    · simp [ptNames]
    · simp only [ptNames, List.map_cons] at ih ⊢
      rw [ih]

theorem ptNames_ensure (x : String) (pts : List PortType) :
    ptNames (ensurePortType x pts) = if (ptNames pts).contains x then ptNames pts else ptNames pts ++ [x] := by
  unfold ensurePortType
  split <;> simp_all [ptNames]

theorem mem_ptNames_ensure (x y : String) (pts : List PortType) :
    y ∈ ptNames (ensurePortType x pts) ↔ y ∈ ptNames pts ∨ y = x := by
  rw [ptNames_ensure]
  split
  · rename_i h
    constructor
    · exact Or.inl
    · rintro (h' | rfl)
      · exact h'
      · simpa using h
  · simp

theorem mem_ptNames_ensureAll (names : List String) (pts : List PortType) (y : String) :
    y ∈ ptNames (ensureAll names pts) ↔ y ∈ ptNames pts ∨ y ∈ names := by
  unfold ensureAll
  induction names generalizing pts with
  | nil => simp
  | cons n ns ih =>
    simp only [List.foldl_cons]
    rw [ih, mem_ptNames_ensure]
    simp only [List.mem_cons]
    constructor
    · rintro ((h | h) | h)
      · exact Or.inl h
      · exact Or.inr (Or.inl h)
      · exact Or.inr (Or.inr h)
    · rintro (h | h | h)
      · exact Or.inl (Or.inl h)
      · exact Or.inl (Or.inr h)
      · exact Or.inr h

theorem ptNames_opsLoop (F : Facts07) (I : IState) (s : Svc) (ms : List Meth) (pts : List PortType) :
    ptNames (opsLoop F I s ms pts) = ptNames pts := by
  induction ms generalizing pts with
  | nil => rfl
  | cons m ms ih => simp only [opsLoop]; rw [ih, ptNames_appendOp]

/-- number of operations called `n` in all portTypes -/
def opCount (n : String) (pts : List PortType) : Nat :=
  ((pts.flatMap (·.ops)).filter (fun o => o.name == n)).length

theorem opCount_nil (n : String) : opCount n [] = 0 := rfl

theorem opCount_cons (n : String) (pt : PortType) (r : List PortType) :
    opCount n (pt :: r) = (pt.ops.filter (fun o => o.name == n)).length + opCount n r := by
  simp [opCount, List.flatMap_cons, List.filter_append]

theorem opCount_append (n : String) (a b : List PortType) : opCount n (a ++ b) = opCount n a + opCount n b := by
  simp [opCount, List.flatMap_append, List.filter_append]

theorem opCount_ensure (n x : String) (pts : List PortType) : opCount n (ensurePortType x pts) = opCount n pts := by
  unfold ensurePortType
  split
  · rfl
  · rw [opCount_append]; simp [opCount]

theorem opCount_ensureAll (n : String) (names : List String) (pts : List PortType) :
    opCount n (ensureAll names pts) = opCount n pts := by
  unfold ensureAll
  induction names generalizing pts with
  | nil => rfl
  | cons x xs ih => simp only [List.foldl_cons]; rw [ih, opCount_ensure]

theorem opCount_appendOp (n x : String) (op : Op) (pts : List PortType) (hx : x ∈ ptNames pts) :
    opCount n (appendOp x op pts) = opCount n pts + (if op.name == n then 1 else 0) := by
  induction pts with
  | nil => simp [ptNames] at hx
  | cons pt r ih =>
    simp only [appendOp]
    split
    · simp only [opCount_cons, List.filter_append, List.length_append]
      by_cases h : op.name == n <;> simp [h] <;> omega
    · rename_i hne
      have hx' : x ∈ ptNames r := by
        simp only [ptNames, List.map_cons, List.mem_cons] at hx
        rcases hx with rfl | hx
        · exact absurd rfl hne
        · exact hx
      rw [opCount_cons, opCount_cons, ih hx']
      omega

theorem mkOp_name (I : IState) (m : Meth) : (mkOp I m).name = m.opName := rfl

theorem opCount_opsLoop (F : Facts07) (I : IState) (s : Svc) (n : String) (ms : List Meth) (pts : List PortType)
    (ht : ∀ m ∈ ms, opTarget F I.name s m ∈ ptNames pts) :
    opCount n (opsLoop F I s ms pts) = opCount n pts + (ms.filter (fun m => m.opName == n)).length := by
  induction ms generalizing pts with
  | nil => simp [opsLoop]
  | cons m ms ih =>
    simp only [opsLoop]
    rw [ih]
    · rw [opCount_appendOp n _ _ pts (ht m List.mem_cons_self), mkOp_name]
      by_cases h : m.opName == n <;> simp [List.filter_cons, h] <;> omega
    · intro m' hm'
      rw [ptNames_appendOp]
      exact ht m' (List.mem_cons_of_mem _ hm')

/-- a portType named `x` holds the operation -/
def hasOp (pts : List PortType) (x : String) (op : Op) : Prop := ∃ pt ∈ pts, pt.name = x ∧ op ∈ pt.ops

theorem hasOp_appendOp_keep (pts : List PortType) (x y : String) (op op' : Op) (h : hasOp pts x op) :
    hasOp (appendOp y op' pts) x op := by
  induction pts with
  | nil => obtain ⟨pt, hpt, _⟩ := h; cases hpt
  | cons pt r ih =>
    obtain ⟨q, hq, hn, ho⟩ := h
    simp only [appendOp]
    split
    · rcases List.mem_cons.mp hq with rfl | hq
      · exact ⟨_, List.mem_cons_self, hn, List.mem_append_left _ ho⟩
      · exact ⟨q, List.mem_cons_of_mem _ hq, hn, ho⟩
    · rcases List.mem_cons.mp hq with rfl | hq
      · exact ⟨_, List.mem_cons_self, hn, ho⟩
      · obtain ⟨q', hq', hn', ho'⟩ := ih ⟨q, hq, hn, ho⟩
        exact ⟨q', List.mem_cons_of_mem _ hq', hn', ho'⟩

theorem hasOp_appendOp_new (pts : List PortType) (x : String) (op : Op) (hx : x ∈ ptNames pts) :
    hasOp (appendOp x op pts) x op := by
  induction pts with
  | nil => simp [ptNames] at hx
  | cons pt r ih =>
    simp only [appendOp]
    split
    · rename_i heq
      exact ⟨_, List.mem_cons_self, heq, by simp⟩
    · rename_i hne
      have hx' : x ∈ ptNames r := by
        simp only [ptNames, List.map_cons, List.mem_cons] at hx
        rcases hx with rfl | hx
        · exact absurd rfl hne
        · exact hx
      obtain ⟨q, hq, hn, ho⟩ := ih hx'
      exact ⟨q, List.mem_cons_of_mem _ hq, hn, ho⟩

theorem hasOp_ensure (pts : List PortType) (x y : String) (op : Op) (h : hasOp pts x op) :
    hasOp (ensurePortType y pts) x op := by
  unfold ensurePortType
  split
  · exact h
  · obtain ⟨q, hq, hn, ho⟩ := h
    exact ⟨q, List.mem_append_left _ hq, hn, ho⟩

theorem hasOp_ensureAll (names : List String) (pts : List PortType) (x : String) (op : Op) (h : hasOp pts x op) :
    hasOp (ensureAll names pts) x op := by
  unfold ensureAll
  induction names generalizing pts with
  | nil => exact h
  | cons n ns ih => simp only [List.foldl_cons]; exact ih _ (hasOp_ensure pts x n op h)

theorem hasOp_opsLoop_keep (F : Facts07) (I : IState) (s : Svc) (ms : List Meth) (pts : List PortType) (x : String)
    (op : Op) (h : hasOp pts x op) : hasOp (opsLoop F I s ms pts) x op := by
  induction ms generalizing pts with
  | nil => exact h
  | cons m ms ih => simp only [opsLoop]; exact ih _ (hasOp_appendOp_keep pts x _ op _ h)

theorem hasOp_opsLoop_new (F : Facts07) (I : IState) (s : Svc) (ms : List Meth) (pts : List PortType)
    (ht : ∀ m ∈ ms, opTarget F I.name s m ∈ ptNames pts) (m : Meth) (hm : m ∈ ms) :
    hasOp (opsLoop F I s ms pts) (opTarget F I.name s m) (mkOp I m) := by
  induction ms generalizing pts with
  | nil => cases hm
  | cons m' ms ih =>
    simp only [opsLoop]
    rcases List.mem_cons.mp hm with rfl | hm
    · exact hasOp_opsLoop_keep F I s ms _ _ _ (hasOp_appendOp_new pts _ _ (ht m List.mem_cons_self))
    · apply ih _ _ hm
      intro m'' hm''
      rw [ptNames_appendOp]
      exact ht m'' (List.mem_cons_of_mem _ hm'')

/-- every operation of every portType is the operation of a method -/
def opsFrom (I : IState) (ms : List Meth) (pts : List PortType) : Prop :=
  ∀ pt ∈ pts, ∀ o ∈ pt.ops, ∃ m ∈ ms, o = mkOp I m

theorem opsFrom_appendOp (I : IState) (ms : List Meth) (pts : List PortType) (x : String) (m : Meth) (hm : m ∈ ms)
    (h : opsFrom I ms pts) : opsFrom I ms (appendOp x (mkOp I m) pts) := by
  induction pts with
  | nil => intro pt hpt; cases hpt
  | cons pt r ih =>
    simp only [appendOp]
    have hr : opsFrom I ms r := fun q hq => h q (List.mem_cons_of_mem _ hq)
    split
    · intro q hq o ho
      rcases List.mem_cons.mp hq with rfl | hq
      · rcases List.mem_append.mp ho with ho | ho
        · exact h pt List.mem_cons_self o ho
        · simp only [List.mem_singleton] at ho
          exact ⟨m, hm, ho⟩
      · exact hr q hq o ho
    · intro q hq o ho
      rcases List.mem_cons.mp hq with rfl | hq
      · exact h _ List.mem_cons_self o ho
      · exact ih hr q hq o ho

theorem opsFrom_ensureAll (I : IState) (ms : List Meth) (names : List String) (pts : List PortType)
    (h : opsFrom I ms pts) : opsFrom I ms (ensureAll names pts) := by
  unfold ensureAll
  induction names generalizing pts with
  | nil => exact h
  | cons n ns ih =>
    simp only [List.foldl_cons]
    apply ih
    unfold ensurePortType
    split
    · exact h
    · intro q hq o ho
      rcases List.mem_append.mp hq with hq | hq
      · exact h q hq o ho
      · simp only [List.mem_singleton] at hq
        subst hq
        cases ho

theorem opsFrom_opsLoop (F : Facts07) (I : IState) (s : Svc) (all : List Meth) (ms : List Meth)
    (hsub : ∀ m ∈ ms, m ∈ all) (pts : List PortType) (h : opsFrom I all pts) :
    opsFrom I all (opsLoop F I s ms pts) := by
  induction ms generalizing pts with
  | nil => exact h
  | cons m ms ih =>
    simp only [opsLoop]
    apply ih (fun m' hm' => hsub m' (List.mem_cons_of_mem _ hm'))
    exact opsFrom_appendOp I all pts _ m (hsub m List.mem_cons_self) h

/-! ## portTypes over all services -/

/-- every method's operation is aimed at a portType the service creates -/
def targetsOk (F : Facts07) (I : IState) (s : Svc) : Prop :=
  ∀ m ∈ s.methods, opTarget F I.name s m ∈ portNames I.name s

theorem targetsOk_of_own (F : Facts07) (hF : F.opPortType = .own) (I : IState) (s : Svc)
    (h : ∀ m ∈ s.methods, match m.portType with
      | none => s.portTypes.isEmpty = true
      | some p => s.portTypes.contains p = true) : targetsOk F I s := by
  intro m hm
  have hm' := h m hm
  unfold opTarget portNames
  by_cases he : s.portTypes.isEmpty = true
  · simp [he]
  · simp only [he, Bool.false_eq_true, if_false, hF]
    cases hp : m.portType with
    | none => rw [hp] at hm'; exact absurd hm' he
    | some p => rw [hp] at hm'; simpa using hm'

theorem addPortType_opCount (F : Facts07) (I : IState) (url : String) (s : Svc) (st : PtSt) (n : String)
    (ht : targetsOk F I s) :
    opCount n (addPortType F I url s st).portTypes =
      opCount n st.portTypes + (s.methods.filter (fun m => m.opName == n)).length := by
  simp only [addPortType]
  rw [opCount_opsLoop, opCount_ensureAll]
  intro m hm
  rw [mem_ptNames_ensureAll]
  exact Or.inr (ht m hm)

theorem mem_ptNames_addPortType (F : Facts07) (I : IState) (url : String) (s : Svc) (st : PtSt) (y : String) :
    y ∈ ptNames (addPortType F I url s st).portTypes ↔ y ∈ ptNames st.portTypes ∨ y ∈ portNames I.name s := by
  simp only [addPortType]
  rw [ptNames_opsLoop, mem_ptNames_ensureAll]

theorem portTypesLoop_opCount (F : Facts07) (I : IState) (url : String) (ss : List Svc) (st : PtSt) (n : String)
    (ht : ∀ s ∈ ss, targetsOk F I s) :
    opCount n (portTypesLoop F I url ss st).portTypes =
      opCount n st.portTypes + ((ss.flatMap (·.methods)).filter (fun m => m.opName == n)).length := by
  induction ss generalizing st with
  | nil => simp [portTypesLoop]
  | cons s ss ih =>
    simp only [portTypesLoop]
    rw [ih _ (fun s' hs' => ht s' (List.mem_cons_of_mem _ hs')),
      addPortType_opCount F I url s st n (ht s List.mem_cons_self)]
    simp only [List.flatMap_cons, List.filter_append, List.length_append]
    omega

theorem mem_ptNames_portTypesLoop (F : Facts07) (I : IState) (url : String) (ss : List Svc) (st : PtSt) (y : String) :
    y ∈ ptNames (portTypesLoop F I url ss st).portTypes ↔
      y ∈ ptNames st.portTypes ∨ ∃ s ∈ ss, y ∈ portNames I.name s := by
  induction ss generalizing st with
  | nil => simp [portTypesLoop]
  | cons s ss ih =>
    simp only [portTypesLoop]
    rw [ih, mem_ptNames_addPortType]
    constructor
    · rintro ((h | h) | ⟨s', hs', h⟩)
      · exact Or.inl h
      · exact Or.inr ⟨s, List.mem_cons_self, h⟩
      · exact Or.inr ⟨s', List.mem_cons_of_mem _ hs', h⟩
    · rintro (h | ⟨s', hs', h⟩)
      · exact Or.inl (Or.inl h)
      · rcases List.mem_cons.mp hs' with rfl | hs'
        · exact Or.inl (Or.inr h)
        · exact Or.inr ⟨s', hs', h⟩

theorem hasOp_addPortType_keep (F : Facts07) (I : IState) (url : String) (s : Svc) (st : PtSt) (x : String) (op : Op)
    (h : hasOp st.portTypes x op) : hasOp (addPortType F I url s st).portTypes x op := by
  simp only [addPortType]
  exact hasOp_opsLoop_keep F I s _ _ x op (hasOp_ensureAll _ _ x op h)

theorem hasOp_portTypesLoop_keep (F : Facts07) (I : IState) (url : String) (ss : List Svc) (st : PtSt) (x : String)
    (op : Op) (h : hasOp st.portTypes x op) : hasOp (portTypesLoop F I url ss st).portTypes x op := by
  induction ss generalizing st with
  | nil => exact h
  | cons s ss ih => simp only [portTypesLoop]; exact ih _ (hasOp_addPortType_keep F I url s st x op h)

theorem hasOp_portTypesLoop (F : Facts07) (I : IState) (url : String) (ss : List Svc) (st : PtSt)
    (ht : ∀ s ∈ ss, targetsOk F I s) (s : Svc) (hs : s ∈ ss) (m : Meth) (hm : m ∈ s.methods) :
    hasOp (portTypesLoop F I url ss st).portTypes (opTarget F I.name s m) (mkOp I m) := by
  induction ss generalizing st with
  | nil => cases hs
  | cons s' ss ih =>
    simp only [portTypesLoop]
    rcases List.mem_cons.mp hs with rfl | hs
    · apply hasOp_portTypesLoop_keep
      simp only [addPortType]
      apply hasOp_opsLoop_new F I s _ _ _ m hm
      intro m' hm'
      rw [mem_ptNames_ensureAll]
      exact Or.inr (ht s List.mem_cons_self m' hm')
    · exact ih _ (fun s'' hs'' => ht s'' (List.mem_cons_of_mem _ hs'')) hs

theorem opsFrom_portTypesLoop (F : Facts07) (I : IState) (url : String) (all : List Meth) (ss : List Svc)
    (hsub : ∀ s ∈ ss, ∀ m ∈ s.methods, m ∈ all) (st : PtSt) (h : opsFrom I all st.portTypes) :
    opsFrom I all (portTypesLoop F I url ss st).portTypes := by
  induction ss generalizing st with
  | nil => exact h
  | cons s ss ih =>
    simp only [portTypesLoop]
    apply ih (fun s' hs' => hsub s' (List.mem_cons_of_mem _ hs'))
    simp only [addPortType]
    exact opsFrom_opsLoop F I s all _ (hsub s List.mem_cons_self) _ (opsFrom_ensureAll I all _ _ h)

theorem mem_allMethods (I : IState) (s : Svc) (hs : s ∈ I.services) (m : Meth) (hm : m ∈ s.methods) :
    m ∈ allMethods I := List.mem_flatMap.mpr ⟨s, hs, hm⟩

/-- in a list without repetitions exactly one member has a given (injective) label -/
theorem filter_length_one_of_nodup {α : Type} (f : α → String) (l : List α) (hn : (l.map f).Nodup) (a : α) (ha : a ∈ l) :
    (l.filter (fun x => f x == f a)).length = 1 := by
  induction l with
  | nil => cases ha
  | cons x xs ih =>
    simp only [List.map_cons, List.nodup_cons] at hn
    rcases List.mem_cons.mp ha with rfl | ha
    · have : xs.filter (fun x => f x == f a) = [] := by
        rw [List.filter_eq_nil_iff]
        intro y hy hc
        have : f y = f a := by simpa using hc
        exact hn.1 (this ▸ List.mem_map.mpr ⟨y, hy, rfl⟩)
      simp [List.filter_cons, this]
    · have hne : (f x == f a) = false := by
        have : f x ≠ f a := fun h => hn.1 (h ▸ List.mem_map.mpr ⟨a, ha, rfl⟩)
        simpa using this
      simp only [List.filter_cons, hne, Bool.false_eq_true, if_false]
      exact ih hn.2 ha

/-! ## services and ports -/

def portsFrom (I : IState) (svcs : List Service) : Prop :=
  ∀ sv ∈ svcs, ∀ p ∈ sv.ports, p.binding = ⟨I.tns, p.name⟩ ∧ ∃ s ∈ I.services, p.name ∈ portNames I.name s

theorem portsFrom_addPorts (I : IState) (s : Svc) (hs : s ∈ I.services) (url : String) (svcs : List Service)
    (h : portsFrom I svcs) : portsFrom I (addPorts s.name (portsOf I.tns url (portNames I.name s)) svcs) := by
  induction svcs with
  | nil => intro sv hsv; cases hsv
  | cons sv r ih =>
    have hr : portsFrom I r := fun q hq => h q (List.mem_cons_of_mem _ hq)
    simp only [addPorts]
    split
    · intro q hq p hp
      rcases List.mem_cons.mp hq with rfl | hq
      · rcases List.mem_append.mp hp with hp | hp
        · exact h sv List.mem_cons_self p hp
        · simp only [portsOf, List.mem_map] at hp
          obtain ⟨n, hn, rfl⟩ := hp
          exact ⟨rfl, s, hs, hn⟩
      · exact hr q hq p hp
    · intro q hq p hp
      rcases List.mem_cons.mp hq with rfl | hq
      · exact h _ List.mem_cons_self p hp
      · exact ih hr q hq p hp

theorem portsFrom_portTypesLoop (F : Facts07) (I : IState) (url : String) (ss : List Svc)
    (hsub : ∀ s ∈ ss, s ∈ I.services) (st : PtSt) (h : portsFrom I st.services) :
    portsFrom I (portTypesLoop F I url ss st).services := by
  induction ss generalizing st with
  | nil => exact h
  | cons s ss ih =>
    simp only [portTypesLoop]
    apply ih (fun s' hs' => hsub s' (List.mem_cons_of_mem _ hs'))
    simp only [addPortType]
    exact portsFrom_addPorts I s (hsub s List.mem_cons_self) url _ h

theorem portsFrom_servicesInit (I : IState) : portsFrom I (servicesInit I) := by
  unfold servicesInit
  suffices h : ∀ (ss : List Svc) (acc : List Service), portsFrom I acc →
      portsFrom I (ss.foldl (fun acc s => ensureService s.name acc) acc) from
    h _ _ (fun sv hsv => by cases hsv)
  intro ss
  induction ss with
  | nil => intro acc h; exact h
  | cons s ss ih =>
    intro acc h
    simp only [List.foldl_cons]
    apply ih
    unfold ensureService
    split
    · exact h
    · intro sv hsv p hp
      rcases List.mem_append.mp hsv with hsv | hsv
      · exact h sv hsv p hp
      · simp only [List.mem_singleton] at hsv
        subst hsv
        cases hp

/-! ## bindings -/

def bNames (bs : List Binding) : List String := bs.map (·.name)

def bopCount (n : String) (bs : List Binding) : Nat :=
  ((bs.flatMap (·.ops)).filter (fun o => o.name == n)).length

theorem bopCount_cons (n : String) (b : Binding) (r : List Binding) :
    bopCount n (b :: r) = (b.ops.filter (fun o => o.name == n)).length + bopCount n r := by
  simp [bopCount, List.flatMap_cons, List.filter_append]

theorem bopCount_append (n : String) (a b : List Binding) : bopCount n (a ++ b) = bopCount n a + bopCount n b := by
  simp [bopCount, List.flatMap_append, List.filter_append]

theorem bNames_appendBOps (x : String) (ops : List BOp) (bs : List Binding) : bNames (appendBOps x ops bs) = bNames bs := by
  induction bs with
  | nil => rfl
  | cons b r ih =>
    simp only [appendBOps]
    split
    · simp [bNames]
    · simp only [bNames, List.map_cons] at ih ⊢
      rw [ih]

theorem bopCount_appendBOps (n x : String) (ops : List BOp) (bs : List Binding) (hx : x ∈ bNames bs) :
    bopCount n (appendBOps x ops bs) = bopCount n bs + (ops.filter (fun o => o.name == n)).length := by
  induction bs with
  | nil => simp [bNames] at hx
  | cons b r ih =>
    simp only [appendBOps]
    split
    · simp only [bopCount_cons, List.filter_append, List.length_append]
      omega
    · rename_i hne
      have hx' : x ∈ bNames r := by
        simp only [bNames, List.map_cons, List.mem_cons] at hx
        rcases hx with rfl | hx
        · exact absurd rfl hne
        · exact hx
      rw [bopCount_cons, bopCount_cons, ih hx']
      omega

def hasBOp (bs : List Binding) (x : String) (bo : BOp) : Prop := ∃ b ∈ bs, b.name = x ∧ bo ∈ b.ops

theorem hasBOp_appendBOps_keep (bs : List Binding) (x y : String) (bo : BOp) (ops : List BOp) (h : hasBOp bs x bo) :
    hasBOp (appendBOps y ops bs) x bo := by
  induction bs with
  | nil => obtain ⟨b, hb, _⟩ := h; cases hb
  | cons b r ih =>
    obtain ⟨q, hq, hn, ho⟩ := h
    simp only [appendBOps]
    split
    · rcases List.mem_cons.mp hq with rfl | hq
      · exact ⟨_, List.mem_cons_self, hn, List.mem_append_left _ ho⟩
      · exact ⟨q, List.mem_cons_of_mem _ hq, hn, ho⟩
    · rcases List.mem_cons.mp hq with rfl | hq
      · exact ⟨_, List.mem_cons_self, hn, ho⟩
      · obtain ⟨q', hq', hn', ho'⟩ := ih ⟨q, hq, hn, ho⟩
        exact ⟨q', List.mem_cons_of_mem _ hq', hn', ho'⟩

theorem hasBOp_appendBOps_new (bs : List Binding) (x : String) (ops : List BOp) (bo : BOp) (hbo : bo ∈ ops)
    (hx : x ∈ bNames bs) : hasBOp (appendBOps x ops bs) x bo := by
  induction bs with
  | nil => simp [bNames] at hx
  | cons b r ih =>
    simp only [appendBOps]
    split
    · rename_i heq
      exact ⟨_, List.mem_cons_self, heq, List.mem_append_right _ hbo⟩
    · rename_i hne
      have hx' : x ∈ bNames r := by
        simp only [bNames, List.map_cons, List.mem_cons] at hx
        rcases hx with rfl | hx
        · exact absurd rfl hne
        · exact hx
      obtain ⟨q, hq, hn, ho⟩ := ih hx'
      exact ⟨q, List.mem_cons_of_mem _ hq, hn, ho⟩

/-- every binding is typed by the portType of its own name, which some service creates -/
def bindingsWf (I : IState) (bs : List Binding) : Prop :=
  ∀ b ∈ bs, b.type = ⟨I.tns, b.name⟩ ∧ ∃ s ∈ I.services, b.name ∈ portNames I.name s

def bopsFrom (F : Facts07) (I : IState) (all : List Meth) (bs : List Binding) : Prop :=
  ∀ b ∈ bs, ∀ o ∈ b.ops, ∃ m ∈ all, o = mkBOp F I m

theorem bindingsWf_appendBOps (I : IState) (x : String) (ops : List BOp) (bs : List Binding) (h : bindingsWf I bs) :
    bindingsWf I (appendBOps x ops bs) := by
  induction bs with
  | nil => intro b hb; cases hb
  | cons b r ih =>
    have hr : bindingsWf I r := fun q hq => h q (List.mem_cons_of_mem _ hq)
    simp only [appendBOps]
    split
    · intro q hq
      rcases List.mem_cons.mp hq with rfl | hq
      · exact h b List.mem_cons_self
      · exact hr q hq
    · intro q hq
      rcases List.mem_cons.mp hq with rfl | hq
      · exact h _ List.mem_cons_self
      · exact ih hr q hq

theorem bopsFrom_appendBOps (F : Facts07) (I : IState) (all : List Meth) (x : String) (ms : List Meth)
    (hsub : ∀ m ∈ ms, m ∈ all) (bs : List Binding) (h : bopsFrom F I all bs) :
    bopsFrom F I all (appendBOps x (ms.map (mkBOp F I)) bs) := by
  induction bs with
  | nil => intro b hb; cases hb
  | cons b r ih =>
    have hr : bopsFrom F I all r := fun q hq => h q (List.mem_cons_of_mem _ hq)
    simp only [appendBOps]
    split
    · intro q hq o ho
      rcases List.mem_cons.mp hq with rfl | hq
      · rcases List.mem_append.mp ho with ho | ho
        · exact h b List.mem_cons_self o ho
        · obtain ⟨m, hm, rfl⟩ := List.mem_map.mp ho
          exact ⟨m, hsub m hm, rfl⟩
      · exact hr q hq o ho
    · intro q hq o ho
      rcases List.mem_cons.mp hq with rfl | hq
      · exact h _ List.mem_cons_self o ho
      · exact ih hr q hq o ho

/-- the service's methods name its port types consistently -/
def svcOk (s : Svc) : Prop :=
  s.portTypes.Nodup ∧ ∀ m ∈ s.methods, match m.portType with
    | none => s.portTypes.isEmpty = true
    | some p => s.portTypes.contains p = true

def cbInv (I : IState) (st : BSt) : Prop := st.cb = true → I.name ∈ bNames st.bindings

theorem mkBOp_name (F : Facts07) (I : IState) (m : Meth) : (mkBOp F I m).name = m.opName := rfl

theorem filter_map_mkBOp (F : Facts07) (I : IState) (n : String) (ms : List Meth) :
    ((ms.map (mkBOp F I)).filter (fun o => o.name == n)).length = (ms.filter (fun m => m.opName == n)).length := by
  induction ms with
  | nil => rfl
  | cons m ms ih =>
    simp only [List.map_cons, List.filter_cons, mkBOp_name]
    by_cases h : m.opName == n <;> simp [h, ih]

theorem split_count {α : Type} (l : List α) (a q : α → Bool) :
    ((l.filter a).filter q).length + ((l.filter (fun m => !a m)).filter q).length = (l.filter q).length := by
  induction l with
  | nil => rfl
  | cons m l ih =>
    simp only [List.filter_cons]
    cases ha : a m <;> cases hq : q m <;> simp only [ha, hq, List.filter_cons, Bool.not_false, Bool.not_true,
      if_true, if_false, Bool.false_eq_true, List.length_cons] <;> omega

theorem flatMap_congr' {α β : Type} (l : List α) (f g : α → List β) (h : ∀ a ∈ l, f a = g a) :
    l.flatMap f = l.flatMap g := by
  induction l with
  | nil => rfl
  | cons a r ih =>
    simp only [List.flatMap_cons]
    rw [h a List.mem_cons_self, ih (fun b hb => h b (List.mem_cons_of_mem _ hb))]

/-- splitting the methods by port type loses and duplicates nothing -/
theorem partition_count (ps : List String) (hn : ps.Nodup) (ms : List Meth) (q : Meth → Bool)
    (hk : ∀ m ∈ ms, ∃ p ∈ ps, m.portType = some p) :
    ((ps.flatMap (fun p => ms.filter (fun m => m.portType = some p))).filter q).length = (ms.filter q).length := by
  induction ps generalizing ms with
  | nil =>
    cases ms with
    | nil => rfl
    | cons m ms => obtain ⟨p, hp, _⟩ := hk m List.mem_cons_self; cases hp
  | cons p ps ih =>
    simp only [List.nodup_cons] at hn
    simp only [List.flatMap_cons, List.filter_append, List.length_append]
    -- the methods of `p` and the others
    have hrest : ((ps.flatMap (fun p' => ms.filter (fun m => m.portType = some p'))).filter q).length =
        ((ms.filter (fun m => !decide (m.portType = some p))).filter q).length := by
      have e : ∀ p' ∈ ps, ms.filter (fun m => m.portType = some p') =
          (ms.filter (fun m => !decide (m.portType = some p))).filter (fun m => m.portType = some p') := by
        intro p' hp'
        rw [List.filter_filter]
        apply List.filter_congr
        intro m _
        have hpp : p' ≠ p := fun h2 => hn.1 (h2 ▸ hp')
        by_cases h : m.portType = some p'
        · simp [h, hpp]
        · simp [h]
      have e2 : ps.flatMap (fun p' => ms.filter (fun m => m.portType = some p')) =
          ps.flatMap (fun p' => (ms.filter (fun m => !decide (m.portType = some p))).filter (fun m => m.portType = some p')) := by
        exact flatMap_congr' _ _ _ e
      rw [e2]
      apply ih hn.2
      intro m hm
      simp only [List.mem_filter] at hm
      obtain ⟨p', hp', hmp⟩ := hk m hm.1
      rcases List.mem_cons.mp hp' with rfl | hp'
      · simp [hmp] at hm
      · exact ⟨p', hp', hmp⟩
    rw [hrest]
    exact split_count ms (fun m => decide (m.portType = some p)) q

/-! ## bindings over all services -/

theorem svcOk_some (s : Svc) (h : svcOk s) (hne : s.portTypes.isEmpty = false) (m : Meth) (hm : m ∈ s.methods) :
    ∃ p ∈ s.portTypes, m.portType = some p := by
  have := h.2 m hm
  cases hp : m.portType with
  | none => rw [hp] at this; rw [hne] at this; cases this
  | some p => rw [hp] at this; exact ⟨p, by simpa using this, rfl⟩

theorem addBindings_cbInv (F : Facts07) (I : IState) (s : Svc) (st : BSt) (h : cbInv I st) :
    cbInv I (addBindings F I s st) := by
  unfold addBindings
  split
  · intro _
    simp only
    rw [bNames_appendBOps]
    by_cases hc : st.cb = true
    · simp only [hc, if_true]; exact h hc
    · simp [hc, bNames]
  · intro hc
    simp only at hc ⊢
    simp only [bNames, List.map_append, List.mem_append]
    exact Or.inl (h hc)

theorem addBindings_bopCount (F : Facts07) (I : IState) (s : Svc) (st : BSt) (n : String) (hs : svcOk s)
    (hcb : cbInv I st) :
    bopCount n (addBindings F I s st).bindings =
      bopCount n st.bindings + (s.methods.filter (fun m => m.opName == n)).length := by
  unfold addBindings
  by_cases he : s.portTypes.isEmpty = true
  · simp only [he, if_true]
    rw [bopCount_appendBOps, filter_map_mkBOp]
    · by_cases hc : st.cb = true
      · simp [hc]
      · simp only [hc, Bool.false_eq_true, if_false, bopCount_append]
        simp [bopCount]
    · by_cases hc : st.cb = true
      · simp only [hc, if_true]; exact hcb hc
      · simp [hc, bNames]
  · have he' : s.portTypes.isEmpty = false := by simpa using he
    simp only [he', Bool.false_eq_true, if_false]
    rw [bopCount_append]
    congr 1
    have : bopCount n (s.portTypes.map (fun n' => (⟨n', ⟨I.tns, n'⟩, I.transport, I.inSoap12,
          (s.methods.filter (fun m => m.portType = some n')).map (mkBOp F I)⟩ : Binding))) =
        (((s.portTypes.flatMap (fun p => s.methods.filter (fun m => m.portType = some p))).map (mkBOp F I)).filter
          (fun o => o.name == n)).length := by
      simp only [bopCount]
      congr 2
      induction s.portTypes with
      | nil => rfl
      | cons p ps ih => simp only [List.map_cons, List.flatMap_cons, List.map_append, ih]
    rw [this, filter_map_mkBOp]
    exact partition_count s.portTypes hs.1 s.methods _ (fun m hm => svcOk_some s hs he' m hm)

theorem bindingsLoop_inv (F : Facts07) (I : IState) (ss : List Svc) (st : BSt) (n : String)
    (hs : ∀ s ∈ ss, svcOk s) (hcb : cbInv I st) :
    bopCount n (bindingsLoop F I ss st).bindings =
      bopCount n st.bindings + ((ss.flatMap (·.methods)).filter (fun m => m.opName == n)).length := by
  induction ss generalizing st with
  | nil => simp [bindingsLoop]
  | cons s ss ih =>
    simp only [bindingsLoop]
    rw [ih _ (fun s' hs' => hs s' (List.mem_cons_of_mem _ hs')) (addBindings_cbInv F I s st hcb),
      addBindings_bopCount F I s st n (hs s List.mem_cons_self) hcb]
    simp only [List.flatMap_cons, List.filter_append, List.length_append]
    omega

theorem addBindings_wf (F : Facts07) (I : IState) (s : Svc) (hsm : s ∈ I.services) (st : BSt)
    (h : bindingsWf I st.bindings) : bindingsWf I (addBindings F I s st).bindings := by
  unfold addBindings
  by_cases he : s.portTypes.isEmpty = true
  · simp only [he, if_true]
    apply bindingsWf_appendBOps
    by_cases hc : st.cb = true
    · simpa [hc] using h
    · simp only [hc, Bool.false_eq_true, if_false]
      intro b hb
      rcases List.mem_append.mp hb with hb | hb
      · exact h b hb
      · simp only [List.mem_singleton] at hb
        subst hb
        exact ⟨rfl, s, hsm, by simp [portNames, he]⟩
  · have he' : s.portTypes.isEmpty = false := by simpa using he
    simp only [he', Bool.false_eq_true, if_false]
    intro b hb
    rcases List.mem_append.mp hb with hb | hb
    · exact h b hb
    · obtain ⟨p, hp, rfl⟩ := List.mem_map.mp hb
      exact ⟨rfl, s, hsm, by simpa [portNames, he'] using hp⟩

theorem addBindings_from (F : Facts07) (I : IState) (all : List Meth) (s : Svc) (hsub : ∀ m ∈ s.methods, m ∈ all)
    (st : BSt) (h : bopsFrom F I all st.bindings) : bopsFrom F I all (addBindings F I s st).bindings := by
  unfold addBindings
  by_cases he : s.portTypes.isEmpty = true
  · simp only [he, if_true]
    apply bopsFrom_appendBOps F I all _ _ hsub
    by_cases hc : st.cb = true
    · simpa [hc] using h
    · simp only [hc, Bool.false_eq_true, if_false]
      intro b hb o ho
      rcases List.mem_append.mp hb with hb | hb
      · exact h b hb o ho
      · simp only [List.mem_singleton] at hb
        subst hb
        cases ho
  · have he' : s.portTypes.isEmpty = false := by simpa using he
    simp only [he', Bool.false_eq_true, if_false]
    intro b hb o ho
    rcases List.mem_append.mp hb with hb | hb
    · exact h b hb o ho
    · obtain ⟨p, hp, rfl⟩ := List.mem_map.mp hb
      simp only [List.mem_map, List.mem_filter] at ho
      obtain ⟨m, ⟨hm, _⟩, rfl⟩ := ho
      exact ⟨m, hsub m hm, rfl⟩

theorem addBindings_names_mono (F : Facts07) (I : IState) (s : Svc) (st : BSt) (x : String)
    (h : x ∈ bNames st.bindings) : x ∈ bNames (addBindings F I s st).bindings := by
  unfold addBindings
  by_cases he : s.portTypes.isEmpty = true
  · simp only [he, if_true]
    rw [bNames_appendBOps]
    by_cases hc : st.cb = true
    · simpa [hc] using h
    · simp only [hc, Bool.false_eq_true, if_false, bNames, List.map_append, List.mem_append]
      exact Or.inl h
  · have he' : s.portTypes.isEmpty = false := by simpa using he
    simp only [he', Bool.false_eq_true, if_false, bNames, List.map_append, List.mem_append]
    exact Or.inl h

theorem addBindings_names_new (F : Facts07) (I : IState) (s : Svc) (st : BSt) (hcb : cbInv I st) (x : String)
    (hx : x ∈ portNames I.name s) : x ∈ bNames (addBindings F I s st).bindings := by
  unfold addBindings
  by_cases he : s.portTypes.isEmpty = true
  · simp only [he, if_true]
    rw [bNames_appendBOps]
    have : x = I.name := by simpa [portNames, he] using hx
    subst this
    by_cases hc : st.cb = true
    · simp only [hc, if_true]; exact hcb hc
    · simp [hc, bNames]
  · have he' : s.portTypes.isEmpty = false := by simpa using he
    simp only [he', Bool.false_eq_true, if_false, bNames, List.map_append, List.mem_append, List.map_map]
    right
    have : x ∈ s.portTypes := by simpa [portNames, he'] using hx
    exact List.mem_map.mpr ⟨x, this, rfl⟩

theorem hasBOp_addBindings_keep (F : Facts07) (I : IState) (s : Svc) (st : BSt) (x : String) (bo : BOp)
    (h : hasBOp st.bindings x bo) : hasBOp (addBindings F I s st).bindings x bo := by
  unfold addBindings
  by_cases he : s.portTypes.isEmpty = true
  · simp only [he, if_true]
    apply hasBOp_appendBOps_keep
    by_cases hc : st.cb = true
    · simpa [hc] using h
    · simp only [hc, Bool.false_eq_true, if_false]
      obtain ⟨b, hb, hn, ho⟩ := h
      exact ⟨b, List.mem_append_left _ hb, hn, ho⟩
  · have he' : s.portTypes.isEmpty = false := by simpa using he
    simp only [he', Bool.false_eq_true, if_false]
    obtain ⟨b, hb, hn, ho⟩ := h
    exact ⟨b, List.mem_append_left _ hb, hn, ho⟩

/-- the binding named like the method's portType holds the method's binding operation -/
theorem hasBOp_addBindings_new (F : Facts07) (hF : F.opPortType = .own) (I : IState) (s : Svc) (hs : svcOk s) (st : BSt)
    (hcb : cbInv I st) (m : Meth) (hm : m ∈ s.methods) :
    hasBOp (addBindings F I s st).bindings (opTarget F I.name s m) (mkBOp F I m) := by
  unfold addBindings
  by_cases he : s.portTypes.isEmpty = true
  · simp only [he, if_true]
    have ht : opTarget F I.name s m = I.name := by simp [opTarget, he]
    rw [ht]
    apply hasBOp_appendBOps_new _ _ _ _ (List.mem_map.mpr ⟨m, hm, rfl⟩)
    by_cases hc : st.cb = true
    · simp only [hc, if_true]; exact hcb hc
    · simp [hc, bNames]
  · have he' : s.portTypes.isEmpty = false := by simpa using he
    simp only [he', Bool.false_eq_true, if_false]
    obtain ⟨p, hp, hmp⟩ := svcOk_some s hs he' m hm
    have ht : opTarget F I.name s m = p := by simp [opTarget, he', hF, hmp]
    rw [ht]
    refine ⟨_, List.mem_append_right _ (List.mem_map.mpr ⟨p, hp, rfl⟩), rfl, ?_⟩
    simp only [List.mem_map, List.mem_filter]
    exact ⟨m, ⟨hm, by simpa using hmp⟩, rfl⟩

theorem bindingsLoop_cbInv (F : Facts07) (I : IState) (ss : List Svc) (st : BSt) (h : cbInv I st) :
    cbInv I (bindingsLoop F I ss st) := by
  induction ss generalizing st with
  | nil => exact h
  | cons s ss ih => simp only [bindingsLoop]; exact ih _ (addBindings_cbInv F I s st h)

theorem bindingsLoop_wf (F : Facts07) (I : IState) (ss : List Svc) (hsub : ∀ s ∈ ss, s ∈ I.services) (st : BSt)
    (h : bindingsWf I st.bindings) : bindingsWf I (bindingsLoop F I ss st).bindings := by
  induction ss generalizing st with
  | nil => exact h
  | cons s ss ih =>
    simp only [bindingsLoop]
    exact ih (fun s' hs' => hsub s' (List.mem_cons_of_mem _ hs')) _ (addBindings_wf F I s (hsub s List.mem_cons_self) st h)

theorem bindingsLoop_from (F : Facts07) (I : IState) (all : List Meth) (ss : List Svc)
    (hsub : ∀ s ∈ ss, ∀ m ∈ s.methods, m ∈ all) (st : BSt) (h : bopsFrom F I all st.bindings) :
    bopsFrom F I all (bindingsLoop F I ss st).bindings := by
  induction ss generalizing st with
  | nil => exact h
  | cons s ss ih =>
    simp only [bindingsLoop]
    exact ih (fun s' hs' => hsub s' (List.mem_cons_of_mem _ hs')) _ (addBindings_from F I all s (hsub s List.mem_cons_self) st h)

theorem bindingsLoop_names_mono (F : Facts07) (I : IState) (ss : List Svc) (st : BSt) (x : String)
    (h : x ∈ bNames st.bindings) : x ∈ bNames (bindingsLoop F I ss st).bindings := by
  induction ss generalizing st with
  | nil => exact h
  | cons s ss ih => simp only [bindingsLoop]; exact ih _ (addBindings_names_mono F I s st x h)

theorem bindingsLoop_names (F : Facts07) (I : IState) (ss : List Svc) (st : BSt) (hcb : cbInv I st) (s : Svc)
    (hs : s ∈ ss) (x : String) (hx : x ∈ portNames I.name s) : x ∈ bNames (bindingsLoop F I ss st).bindings := by
  induction ss generalizing st with
  | nil => cases hs
  | cons s' ss ih =>
    simp only [bindingsLoop]
    rcases List.mem_cons.mp hs with rfl | hs
    · exact bindingsLoop_names_mono F I ss _ x (addBindings_names_new F I s st hcb x hx)
    · exact ih _ (addBindings_cbInv F I s' st hcb) hs

theorem hasBOp_bindingsLoop_keep (F : Facts07) (I : IState) (ss : List Svc) (st : BSt) (x : String) (bo : BOp)
    (h : hasBOp st.bindings x bo) : hasBOp (bindingsLoop F I ss st).bindings x bo := by
  induction ss generalizing st with
  | nil => exact h
  | cons s ss ih => simp only [bindingsLoop]; exact ih _ (hasBOp_addBindings_keep F I s st x bo h)

theorem hasBOp_bindingsLoop (F : Facts07) (hF : F.opPortType = .own) (I : IState) (ss : List Svc)
    (hok : ∀ s ∈ ss, svcOk s) (st : BSt) (hcb : cbInv I st) (s : Svc) (hs : s ∈ ss) (m : Meth) (hm : m ∈ s.methods) :
    hasBOp (bindingsLoop F I ss st).bindings (opTarget F I.name s m) (mkBOp F I m) := by
  induction ss generalizing st with
  | nil => cases hs
  | cons s' ss ih =>
    simp only [bindingsLoop]
    rcases List.mem_cons.mp hs with rfl | hs
    · exact hasBOp_bindingsLoop_keep F I ss _ _ _
        (hasBOp_addBindings_new F hF I s (hok s List.mem_cons_self) st hcb m hm)
    · exact ih (fun s'' hs'' => hok s'' (List.mem_cons_of_mem _ hs'')) _ (addBindings_cbInv F I s' st hcb) hs

end SpyneModel.Wsdl
