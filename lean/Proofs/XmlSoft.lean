/-
  C05 (XML part): the enforcement points of soft validation, each shown exact.
-/
import Proofs.XmlRoundtrip
namespace SpyneModel
namespace Xml

/-- what the declared facets and the lexical space demand of a leaf text -/
def leafSpec (F : Facts08) (p : PrimTy) (s : Text) : Outcome Val :=
  match leafFromText F p s with
  | .ok v => if p.valueOk v then .ok v else .fault
  | _ => .fault

/-- soft validation of a leaf element with text: accepted iff the text is in the lexical space of
    the type and the value satisfies every declared facet; then the value is delivered unchanged -/
theorem soft_leaf_exact {F : Facts08} (L : LeafLaws F) (X : FactsXml) (cfg : Cfg) (hs : cfg.soft = true)
    (p : PrimTy) (o : Occ) (s : Text) :
    leafFromElement F X cfg p o (some s) = leafSpec F p s := by
  unfold leafSpec
  cases hft : leafFromText F p s with
  | crash e => exact absurd hft (L.nocrash p s e)
  | fault =>
    cases p with
    | unicode a b c d => simp [leafFromText] at hft
    | enum names =>
      simp only [leafFromText] at hft
      split at hft
      · cases hft
      · rename_i h; simp only [leafFromElement, h]; simp
    | _ => simp [leafFromElement, hft, hs] <;> (split <;> rfl)
  | ok v =>
    have hsoft := L.soft p s v hft
    cases p with
    | unicode a b c d =>
      have hv : v = .str s := by simp only [leafFromText] at hft; exact (Outcome.ok.inj hft).symm
      subst hv
      simp only [leafFromElement, Option.getD, hs, Bool.true_and]
      cases hvs : validateString F (.unicode a b c d) s <;> cases hvn : validateNative (.unicode a b c d) (.str s) <;>
        simp_all
    | enum names =>
      simp only [leafFromText] at hft
      split at hft
      · rename_i h
        cases hft
        simp [leafFromElement, h, PrimTy.valueOk]
      · cases hft
    | _ =>
      simp only [leafFromElement, hs, Bool.true_and, hft]
      cases hvs : validateString F _ s <;> cases hvn : validateNative _ v <;> simp_all

/-- an empty element: a string type reads the empty string (checked like any other text), every
    other type reads None, which is accepted iff the type is nillable -/
theorem soft_leaf_empty {F : Facts08} (L : LeafLaws F) {X : FactsXml} (hE : X.emptyStringText = true) (cfg : Cfg)
    (hs : cfg.soft = true) (p : PrimTy) (o : Occ) :
    leafFromElement F X cfg p o none =
      (match p with
       | .unicode _ _ _ _ => leafSpec F p []
       | .enum _ => .fault
       | _ => if o.nillable then .ok .none else .fault) := by
  cases p with
  | unicode a b c d =>
    have := soft_leaf_exact L X cfg hs (.unicode a b c d) o []
    simp only [leafFromElement, Option.getD, hE, if_true] at this ⊢
    exact this
  | enum names => simp [leafFromElement]
  | _ => simp [leafFromElement, hs] <;> (cases o.nillable <;> rfl)

/-- `xsi:nil`: accepted (as None) iff the type is nillable -/
theorem soft_nil_exact (F : Facts08) (X : FactsXml) (cfg : Cfg) (hs : cfg.soft = true) (I : Iface) (t : Ty)
    (ns name : Text) (attrs : List (Text × Text)) (text : Option Text) (children : List Node)
    (hnil : isNil X attrs = true) :
    fromElement F X cfg I t (.elem ns name attrs text children) =
      if t.occ.nillable then .ok .none else .fault := by
  rw [fromElement]
  simp only [hnil, if_true, hs, Bool.true_and]
  cases t.occ.nillable <;> rfl

/-- occurrence constraints: an object is accepted only if every member occurs within
    `min_occurs .. max_occurs` -/
theorem soft_freq_enforced (F : Facts08) (X : FactsXml) (cfg : Cfg) (hs : cfg.soft = true) (hP : cfg.parseXsiType = true)
    (I : Iface) (cname cns : Text) (cb : Option Text) (fields : List (Text × Ty)) (o : Occ)
    (ns name : Text) (attrs : List (Text × Text)) (text : Option Text) (children : List Node) (v : Val)
    (hx : attrs.lookup xsiTypeKey = none)
    (h : fromElement F X cfg I (.obj cname cns cb fields o) (.elem ns name attrs text children) = .ok v)
    (hv : v ≠ .none) : freqOk fields children = true := by
  rw [fromElement] at h
  split at h
  · split at h
    · cases h
    · cases h; exact absurd rfl hv
  · simp only [hP, if_true, hx] at h
    split at h
    · split at h
      · cases h
      · rename_i hf
        simp only [hs, Bool.true_and, Bool.not_eq_true'] at hf
        cases hfo : freqOk fields children with
        | true => rfl
        | false => simp [hfo] at hf
    · cases h
    · cases h

end Xml
end SpyneModel
