/-
  C12 lemmas, part 3: the product system.  A run of the whole system projects onto a run of the
  WSDL model (the `?wsdl` threads of the schedule) and a run of the request-thread model (the
  others); the two main lemmas then combine.
-/
import Proofs.Conc
import Proofs.ConcCache
import SpyneModel.ConcSys
set_option linter.unusedSimpArgs false
set_option linter.unusedVariables false
namespace SpyneModel.Conc

theorem sysStep_isWsdl (F : Facts12) (O : Nat → Fail) (s : SysState) (i : Nat) :
    (sysStep F O s i).isWsdl = s.isWsdl := by
  unfold sysStep; split <;> rfl

/-- projection of a system run onto its two components -/
theorem sysRun_proj (F : Facts12) (O : Nat → Fail) (sched : List Nat) : ∀ s : SysState,
    (sysRun F O s sched).isWsdl = s.isWsdl ∧
    (sysRun F O s sched).w = run (F.cfg O) F.wsdlSkeleton s.w (sched.filter s.isWsdl) ∧
    (sysRun F O s sched).r = rrun F.rfacts s.r (sched.filter (fun i => !s.isWsdl i)) := by
  induction sched with
  | nil => intro s; exact ⟨rfl, rfl, rfl⟩
  | cons i rest ih =>
    intro s
    obtain ⟨h1, h2, h3⟩ := ih (sysStep F O s i)
    simp only [sysRun]
    rw [sysStep_isWsdl] at h1 h2 h3
    refine ⟨h1, ?_, ?_⟩
    · rw [h2]; unfold sysStep
      by_cases hk : s.isWsdl i = true
      · simp [hk, List.filter, run]
      · simp [hk, List.filter]
    · rw [h3]; unfold sysStep
      by_cases hk : s.isWsdl i = true
      · simp [hk, List.filter]
      · simp [hk, List.filter, rrun]

theorem good_safe (F : Facts12) (hG : F.Good) (op : ROp) (h : op.isPark = false) : op.Safe F.rfacts := by
  obtain ⟨_, _, h1, h2, h3, h4, h5, _, h7, h8, h9⟩ := hG
  have hctx : ∀ c, F.rfacts.ctxShared c = false := by intro c; simp [Facts12.rfacts, h7]
  cases op with
  | probe k => trivial
  | publish k =>
    simp only [ROp.Safe, published, Facts12.rfacts]
    cases k.c <;> simp [h1, h2, h3, h4, h8, h9]
  | complete k => trivial
  | validate => trivial
  | readErr => exact h5
  | park x => simp [ROp.isPark] at h
  | unpark x => simp [ROp.isPark] at h
  | setCtx c => exact hctx c
  | getCtx c => exact hctx c

theorem faithful_allsafe (F : Facts12) (hG : F.Good) (q : Req) (hq : q.Faithful F) :
    AllSafe F.rfacts q.local := by
  intro op hop
  apply good_safe F hG
  have hp : F.parked = [] := hG.2.2.2.2.2.2.2.1
  cases q with
  | wsdl => simp [Req.local] at hop
  | rpc a inv p =>
    simp only [Req.local, mkReq] at hop
    cases hk : op.isPark with
    | false => rfl
    | true => exact absurd hp (hq op hop hk)

theorem sysInit_loc (reqs : List Req) (i : Nat) (hi : i < reqs.length) :
    (sysInit reqs).r.loc i = (reqs[i]).local := by
  simp [sysInit, rinit, List.getD_eq_getElem?_getD, hi]

theorem sysInit_isWsdl (reqs : List Req) (i : Nat) (hi : i < reqs.length) :
    (sysInit reqs).isWsdl i = (reqs[i]).isWsdl := by
  simp [sysInit, hi]

theorem no_failure_allOk (rs : Bool) : ¬ HasFailure { resets := rs, fail := allOk } := by
  intro ⟨k, hk⟩; exact hk rfl

/-- a `?wsdl` request processed alone is served the sequential document -/
theorem alone_wsdl (F : Facts12) (hG : F.Good) : alone F .wsdl = some (.doc (.doc (some .whole))) := by
  unfold alone
  obtain ⟨_, h2, _⟩ := sysRun_proj F allOk (List.replicate (Req.fuel F .wsdl) 0) (sysInit [.wsdl])
  have hw : (sysInit [Req.wsdl]).isWsdl 0 = true := rfl
  have hflt : List.filter (sysInit [Req.wsdl]).isWsdl (List.replicate (Req.fuel F .wsdl) 0)
      = List.replicate 23 0 := by
    simp only [Req.fuel, hG.1, expectedSkeleton, List.length_cons, List.length_nil]
    simp [List.filter_replicate, hw]
  unfold SysState.response
  rw [(sysRun_proj F allOk _ _).1, hw, h2, hflt, hG.1]
  simp only [if_true]
  have : (sysInit [Req.wsdl]).w = init := rfl
  rw [this]
  have hc : F.cfg allOk = { resets := true, fail := allOk } := by simp [Facts12.cfg, hG.2.1]
  rw [hc]
  decide +kernel

/-- an RPC request processed alone observes `soloObs` -/
theorem alone_rpc (F : Facts12) (hG : F.Good) (a : Nat) (inv : Bool) (p : List ROp)
    (hq : (Req.rpc a inv p).Faithful F) :
    alone F (.rpc a inv p) = some (.body (soloObs a inv p none (fun _ => none))) := by
  unfold alone
  obtain ⟨h1, _, h3⟩ := sysRun_proj F allOk (List.replicate (Req.fuel F (.rpc a inv p)) 0) (sysInit [.rpc a inv p])
  have hw : (sysInit [Req.rpc a inv p]).isWsdl 0 = false := rfl
  have hflt : List.filter (fun i => !(sysInit [Req.rpc a inv p]).isWsdl i)
      (List.replicate (Req.fuel F (.rpc a inv p)) 0) = List.replicate p.length 0 := by
    simp [Req.fuel, List.filter_replicate, hw]
  unfold SysState.response
  rw [h1, hw, h3, hflt]
  simp only [Bool.false_eq_true, if_false]
  have hr : (sysInit [Req.rpc a inv p]).r = rinit [mkReq a inv p] := rfl
  rw [hr]
  have hfin : ((rrun F.rfacts (rinit [mkReq a inv p]) (List.replicate p.length 0)).loc 0).finished = true := by
    unfold RLocal.finished
    rw [todo_run_alone F.rfacts 0 p.length _ (by simp [rinit, mkReq])]
    rfl
  rw [hfin]
  simp only [if_true]
  have hs : ∀ l ∈ [mkReq a inv p], AllSafe F.rfacts l := by
    intro l hl
    simp only [List.mem_singleton] at hl
    subst hl
    exact faithful_allsafe F hG (.rpc a inv p) hq
  rw [requests_alone F.rfacts [mkReq a inv p] hs _ 0 hfin]
  simp [soloResponse, rinit, mkReq]

/-- MAIN (whole system) -/
theorem sys_main (F : Facts12) (hG : F.Good) (reqs : List Req) (hf : ∀ q ∈ reqs, q.Faithful F)
    (sched : List Nat) (i : Nat) (hi : i < reqs.length) (r : Resp)
    (hr : (sysRun F allOk (sysInit reqs) sched).response i = some r) :
    alone F reqs[i] = some r := by
  obtain ⟨h1, h2, h3⟩ := sysRun_proj F allOk sched (sysInit reqs)
  unfold SysState.response at hr
  rw [h1, sysInit_isWsdl reqs i hi] at hr
  cases hq : reqs[i] with
  | wsdl =>
    rw [alone_wsdl F hG]
    simp only [hq, Req.isWsdl, if_true] at hr
    rw [h2, hG.1] at hr
    have hw : (sysInit reqs).w = init := rfl
    rw [hw] at hr
    have hinv := (ginv_reachable (F.cfg allOk) hG.2.1 (List.filter (sysInit reqs).isWsdl sched)).thr i
    unfold State.responded at hr
    rcases hinv.resp_ok with h0 | h0 | h0
    · rw [h0] at hr; simp at hr
    · rw [h0] at hr; simp at hr; rw [← hr]
    · exact absurd (hinv.e1 (Or.inr (Or.inr h0))) (no_failure_allOk _)
  | rpc a inv p =>
    have hmem : Req.rpc a inv p ∈ reqs := hq ▸ List.getElem_mem hi
    rw [alone_rpc F hG a inv p (hf _ hmem)]
    simp only [hq, Req.isWsdl, Bool.false_eq_true, if_false] at hr
    rw [h3] at hr
    have hr0 : (sysInit reqs).r = rinit (reqs.map Req.local) := rfl
    rw [hr0] at hr
    split at hr
    · rename_i hfin
      have hs : ∀ l ∈ reqs.map Req.local, AllSafe F.rfacts l := by
        intro l hl
        obtain ⟨q, hq1, hq2⟩ := List.mem_map.mp hl
        subst hq2
        exact faithful_allsafe F hG q (hf q hq1)
      rw [requests_alone F.rfacts _ hs _ i hfin] at hr
      have hl : (rinit (reqs.map Req.local)).loc i = mkReq a inv p := by
        have := sysInit_loc reqs i hi
        rw [hq] at this
        exact this
      rw [hl] at hr
      simp only [soloResponse, mkReq, List.nil_append, Option.some.injEq, List.lookup] at hr
      rw [← hr]
    · simp at hr

/-- the whole system builds the WSDL at most once (no injected failure) -/
theorem sys_builds (F : Facts12) (hG : F.Good) (reqs : List Req) (sched : List Nat) :
    (sysRun F allOk (sysInit reqs) sched).w.builds ≤ 1 := by
  obtain ⟨_, h2, _⟩ := sysRun_proj F allOk sched (sysInit reqs)
  rw [h2, hG.1]
  exact builds_le_one _ _ (ginv_reachable (F.cfg allOk) hG.2.1 _) (no_failure_allOk _)

end SpyneModel.Conc
