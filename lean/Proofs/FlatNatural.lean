/-
  C03 helper lemmas, part 11: the natural key order (array indexes compared as numbers) processes
  documented keys index-sorted — which is what `strict_arrays` needs — and the strict decoder on
  any permutation of a documented request.
-/
import Proofs.FlatStrict
import Proofs.FlatOrder
namespace SpyneModel.Flat
open SpyneModel

/-! ## tokens of a written key -/

theorem toksGo_plain (pre rest cur : Text) (h : ∀ c, c ∈ pre → c ≠ '[') :
    toksGo 0 cur (pre ++ rest) = toksGo 0 (pre.reverse ++ cur) rest := by
  induction pre generalizing cur with
  | nil => rfl
  | cons c p ih =>
    simp only [List.cons_append, toksGo, matchIdx_nobr c _ (h c List.mem_cons_self)]
    rw [ih (c :: cur) (fun c' hc' => h c' (List.mem_cons_of_mem _ hc'))]
    simp

theorem toksGo_skip (l rest : Text) : toksGo l.length [] (l ++ rest) = toksGo 0 [] rest := by
  induction l with
  | nil => rfl
  | cons c l ih => simp only [List.length_cons, List.cons_append, toksGo]; exact ih

theorem toksGo_index (i : Nat) (rest cur : Text) :
    toksGo 0 cur ('[' :: (natText i ++ ']' :: rest)) = .txt cur.reverse :: .idx i :: toksGo 0 [] rest := by
  simp only [toksGo, matchIdx_index, valNat_natText]
  have := toksGo_skip (natText i ++ [']']) rest
  simp only [List.append_assoc, List.length_append, List.length_cons, List.length_nil,
    List.cons_append, List.nil_append] at this
  rw [this]

theorem lexLt_append_same {α : Type} [DecidableEq α] (lt : α → α → Bool) (hirr : ∀ a, lt a a = false)
    (t a b : List α) : lexLt lt (t ++ a) (t ++ b) = lexLt lt a b := by
  induction t with
  | nil => rfl
  | cons x t ih => simp [lexLt, hirr, ih]

/-- what a whole segment followed by the delimiter contributes: tokens closed so far and the text
    collected since -/
theorem toksGo_seg_delim (delim : Text) (s : Text × Option Nat) (rest cur : Text)
    (hd : ∀ c, c ∈ delim → c ≠ '[') (hs : ∀ c, c ∈ s.1 → c ≠ '[') :
    ∃ T cur', toksGo 0 cur (renderSeg s ++ (delim ++ rest)) = T ++ toksGo 0 cur' rest ∧
      ∀ rest', toksGo 0 cur (renderSeg s ++ (delim ++ rest')) = T ++ toksGo 0 cur' rest' := by
  obtain ⟨n, oi⟩ := s
  cases oi with
  | none =>
    refine ⟨[], delim.reverse ++ (n.reverse ++ cur), ?_, ?_⟩
    · simp only [renderSeg, List.nil_append]
      rw [toksGo_plain n _ cur hs, toksGo_plain delim _ _ hd]
    · intro rest'
      simp only [renderSeg, List.nil_append]
      rw [toksGo_plain n _ cur hs, toksGo_plain delim _ _ hd]
  | some i =>
    refine ⟨[.txt (n.reverse ++ cur).reverse, .idx i], delim.reverse ++ [], ?_, ?_⟩
    · simp only [renderSeg, List.append_assoc, List.cons_append, List.nil_append]
      rw [toksGo_plain n _ cur hs, toksGo_index, toksGo_plain delim _ _ hd]
    · intro rest'
      simp only [renderSeg, List.append_assoc, List.cons_append, List.nil_append]
      rw [toksGo_plain n _ cur hs, toksGo_index, toksGo_plain delim _ _ hd]

theorem renderKey_cons2 (delim : Text) (s t : Text × Option Nat) (r : List (Text × Option Nat)) :
    renderKey delim (s :: t :: r) = renderSeg s ++ (delim ++ renderKey delim (t :: r)) := by
  simp [renderKey, joinKey]

/-- a key that is not allowed before another (`¬ KLe`) is larger in the natural order -/
theorem natural_lt_of_not_KLe (delim : Text) (hd : ∀ c, c ∈ delim → c ≠ '[') :
    ∀ (segs1 segs2 : List (Text × Option Nat)) (cur : Text),
      (∀ s, s ∈ segs1 → ∀ c, c ∈ s.1 → c ≠ '[') → (∀ s, s ∈ segs2 → ∀ c, c ∈ s.1 → c ≠ '[') →
      ¬ KLe segs1 segs2 →
      lexLt Tok.lt (toksGo 0 cur (renderKey delim segs2)) (toksGo 0 cur (renderKey delim segs1)) = true := by
  intro segs1
  induction segs1 with
  | nil => intro segs2 cur _ _ h; exact absurd (by simp [KLe]) h
  | cons s1 r1 ih =>
    intro segs2 cur h1 h2 hk
    cases segs2 with
    | nil => exact absurd (by simp [KLe]) hk
    | cons s2 r2 =>
      rw [KLe] at hk
      have hname : s1.1 = s2.1 := by
        apply Classical.byContradiction
        intro hne
        exact hk (fun e => absurd e hne)
      have hrest : ¬ (idxLe s1.2 s2.2 ∧ (s1.2 = s2.2 → KLe r1 r2)) := fun hh => hk (fun _ => hh)
      obtain ⟨n, o1⟩ := s1
      obtain ⟨n2, o2⟩ := s2
      simp only at hname; subst hname
      have hn : ∀ c, c ∈ n → c ≠ '[' := h1 (n, o1) List.mem_cons_self
      by_cases hidx : idxLe o1 o2
      · -- same index (or none): the difference is further down
        have hnk : ¬ (o1 = o2 → KLe r1 r2) := fun hh => hrest ⟨hidx, hh⟩
        have ho : o1 = o2 := by
          apply Classical.byContradiction
          intro hne
          exact hnk (fun e => absurd e hne)
        subst ho
        have hkr : ¬ KLe r1 r2 := fun hh => hnk (fun _ => hh)
        cases r1 with
        | nil => exact absurd (by simp [KLe]) hkr
        | cons t1 r1' =>
          cases r2 with
          | nil => exact absurd (by cases t1; simp [KLe]) hkr
          | cons t2 r2' =>
            rw [renderKey_cons2, renderKey_cons2]
            obtain ⟨T, cur', _, hT⟩ := toksGo_seg_delim delim (n, o1) [] cur hd hn
            rw [hT, hT, lexLt_append_same Tok.lt tokLt_strictTotal.irrefl]
            exact ih (t2 :: r2') cur' (fun s hs => h1 s (List.mem_cons_of_mem _ hs))
              (fun s hs => h2 s (List.mem_cons_of_mem _ hs)) hkr
      · -- both carry an index and the first key's is larger
        cases o1 with
        | none => exact absurd (by simp [idxLe]) hidx
        | some a =>
          cases o2 with
          | none => exact absurd (by simp [idxLe]) hidx
          | some b =>
            have hba : b < a := by simp only [idxLe] at hidx; omega
            have hr : ∀ (r : List (Text × Option Nat)) (i : Nat), ∃ X,
                renderKey delim ((n, some i) :: r) = n ++ ('[' :: (natText i ++ ']' :: X)) := by
              intro r i
              cases r with
              | nil => exact ⟨[], by simp [renderKey, joinKey, renderSeg]⟩
              | cons t r' =>
                exact ⟨delim ++ renderKey delim (t :: r'), by
                  rw [renderKey_cons2]; simp [renderSeg, List.append_assoc]⟩
            obtain ⟨X1, hX1⟩ := hr r1 a
            obtain ⟨X2, hX2⟩ := hr r2 b
            rw [hX1, hX2, toksGo_plain n _ cur hn, toksGo_plain n _ cur hn, toksGo_index, toksGo_index]
            simp [lexLt, Tok.lt, textLt_strictTotal.irrefl, hba]

/-- keys sorted by the natural order are index-sorted -/
theorem KSorted_of_natural (F : Facts03) (hF : F.keyOrder = .natural) (delim : Text)
    (hd : ∀ c, c ∈ delim → c ≠ '[') (ys : List KEntry)
    (hnb : ∀ y, y ∈ ys → ∀ s, s ∈ y.segs → ∀ c, c ∈ s.1 → c ≠ '[')
    (hs : (ys.map (fun e => (renderKey delim e.segs, e.kv.texts F))).Pairwise
      (fun a b => keyLt F b.1 a.1 = false)) : KSorted ys := by
  unfold KSorted
  rw [List.pairwise_map] at hs
  -- Pairwise.imp needs membership: use the version with membership
  have := List.Pairwise.and_mem.mp hs
  apply this.imp
  intro a b hab
  obtain ⟨ha, hb, hlt⟩ := hab
  apply Classical.byContradiction
  intro hk
  have := natural_lt_of_not_KLe delim hd a.segs b.segs [] (hnb a ha) (hnb b hb) hk
  simp only [keyLt, hF, toks] at hlt
  rw [this] at hlt
  exact absurd hlt (by simp)

/-! ## the strict decoder on a documented request, pairs in any order -/

theorem decode_documented_strict (F : Facts03) (L : LeafLaws F.leaf) (hF : F.keyOrder = .natural)
    (cfg : Cfg) (fields : List Fld) (ms : Members) (doc : Doc)
    (hstrict : cfg.strict = true) (hsoft : cfg.soft = false)
    (htag : (F.tagScope = .perRequestClass && hasDup (cidsFields fields)) = false)
    (hwf : WfSig fields) (hkeys : KeysOk cfg.delim fields) (hwt : WtMembers F fields ms)
    (hcontig : ContigMembers ms)
    (hp : doc.Perm (docOf F cfg.delim fields ms)) :
    decode F cfg fields doc = .ok (.obj (expAttrs fields ms)) := by
  rw [decode_eq_T F cfg fields doc hsoft htag, hstrict]
  have hperm : (sortDoc F doc).Perm (docOf F cfg.delim fields ms) := (sortBy_perm _ doc).trans hp
  obtain ⟨ys, hys, hyseq⟩ := perm_map_pullback _ _ _ hperm
  have hd : ∀ c, c ∈ cfg.delim → c ≠ '[' := fun c hc e => hkeys.2 (e ▸ hc)
  have hvalid := fun a (ha : a ∈ ys) =>
    kentries_valid F _ fields ms (Nat.le_refl _) hwf.1 hwf.2 hwt a (hys.subset ha)
  -- the sorted document is index-sorted
  have hst := lexLt_strictTotal tokLt_strictTotal
  have hsorted : (sortDoc F doc).Pairwise (fun a b => keyLt F b.1 a.1 = false) := by
    unfold sortDoc
    apply sortBy_sorted
    · intro a b h; rw [keyLt_eq] at h ⊢; exact hst.asymm h
    · intro a b c h1 h2; rw [keyLt_eq] at h1 h2 ⊢; exact hst.negtrans h1 h2
  rw [hyseq] at hsorted
  have hks : KSorted ys := KSorted_of_natural F hF cfg.delim hd ys
    (fun y hy => by obtain ⟨_, _, _, _, h3⟩ := hvalid y hy; exact h3) hsorted
  rw [hyseq, foldO_map]
  have hcongr := foldO_congr
    (fun s (a : KEntry) => stepKeyT F true false fields (stiFields cfg.delim [] fields) s
      (renderKey cfg.delim a.segs, a.kv.texts F))
    (walkK true fields) ys (by
      intro s a ha
      obtain ⟨occ, ty, h1, h2, h3⟩ := hvalid a ha
      exact stepKeyT_render F L true false fields cfg.delim hkeys a occ ty h1 h2 h3 s)
    (freshAttrs fields)
  rw [hcongr]
  obtain ⟨attrs', h1, h2⟩ := walkAll_strict F _ fields ms (Nat.le_refl _) hwf.1.1 hwf.2 hwt hcontig ys hys hks
  rw [h1, omap_ok, h2]

end SpyneModel.Flat
