/-
  C06 lemmas, part 6: the restriction steps the generator writes are legal XSD (the conditions
  libxml2 checks, `simpleDefOk`), and the repaired facet emission does not change the value space.
-/
import Proofs.SchemaSoft
namespace SpyneModel
namespace Schema
open Xml

/-- the checks of `Decimal._s_customize` that raise ValueError: a bound that excludes the whole base type -/
def rangeSane (k : IntKind) (r : Range) : Bool :=
  (match r.ge, k.hi with | some a, some h => decide (a ≤ h) | _, _ => true) &&
  (match r.gt, k.hi with | some a, some h => decide (a < h) | _, _ => true) &&
  (match r.le, k.lo with | some a, some l => decide (l ≤ a) | _, _ => true) &&
  (match r.lt, k.lo with | some a, some l => decide (l < a) | _, _ => true)

def optGe (o : Option Int) (i : Int) : Bool := match o with | some b => decide (b ≤ i) | none => true
def optGt (o : Option Int) (i : Int) : Bool := match o with | some b => decide (b < i) | none => true
def optLe' (o : Option Int) (i : Int) : Bool := match o with | some b => decide (i ≤ b) | none => true
def optLt' (o : Option Int) (i : Int) : Bool := match o with | some b => decide (i < b) | none => true

theorem holds_eq (r : Range) (i : Int) : r.holds i = (optGe r.ge i && optGt r.gt i && optLe' r.le i && optLt' r.lt i) := rfl

theorem mergeLower_holds (gt ge : Option Int) (i : Int) :
    (optGe (mergeLower gt ge).2 i && optGt (mergeLower gt ge).1 i) = (optGe ge i && optGt gt i) := by
  unfold mergeLower
  cases gt <;> cases ge <;> simp [optGe, optGt]
  rename_i a b
  by_cases h : a ≥ b
  · simp [h]; omega
  · simp [h]; omega

theorem mergeUpper_holds (lt le : Option Int) (i : Int) :
    (optLe' (mergeUpper lt le).2 i && optLt' (mergeUpper lt le).1 i) = (optLe' le i && optLt' lt i) := by
  unfold mergeUpper
  cases lt <;> cases le <;> simp [optLe', optLt']
  rename_i a b
  by_cases h : a ≤ b
  · simp [h]; omega
  · simp [h]; omega

theorem inKind_iff (k : IntKind) (i : Int) :
    inKind k i = true ↔ (∀ l, k.lo = some l → l ≤ i) ∧ (∀ h, k.hi = some h → i ≤ h) := by
  unfold inKind
  cases k.lo <;> cases k.hi <;> simp

theorem clamp_ge (F6 : Facts06) (k : IntKind) (o : Option Int) (i : Int) (hi : inKind k i = true)
    (hs : match o, k.hi with | some a, some h => a ≤ h | _, _ => True) :
    optGe (clampOpt F6 k o) i = optGe o i := by
  cases o with
  | none => rfl
  | some a =>
    unfold clampOpt
    by_cases hc : (!F6.clampFacets || inKind k a) = true
    · simp [hc]
    · simp only [hc, Bool.false_eq_true, if_false, optGe]
      simp only [Bool.or_eq_true, Bool.not_eq_true', not_or, Bool.not_eq_false, Bool.not_eq_true] at hc
      have hk := (inKind_iff k i).mp hi
      have hna : ¬ (inKind k a = true) := by simp [hc.2]
      rw [inKind_iff] at hna
      symm; simp only [decide_eq_true_eq]
      apply Classical.byContradiction
      intro hlt
      apply hna
      constructor
      · intro l hl; have := hk.1 l hl; omega
      · intro h hh; rw [hh] at hs; exact hs

theorem clamp_gt (F6 : Facts06) (k : IntKind) (o : Option Int) (i : Int) (hi : inKind k i = true)
    (hs : match o, k.hi with | some a, some h => a < h | _, _ => True) :
    optGt (clampOpt F6 k o) i = optGt o i := by
  cases o with
  | none => rfl
  | some a =>
    unfold clampOpt
    by_cases hc : (!F6.clampFacets || inKind k a) = true
    · simp [hc]
    · simp only [hc, Bool.false_eq_true, if_false, optGt]
      simp only [Bool.or_eq_true, Bool.not_eq_true', not_or, Bool.not_eq_false, Bool.not_eq_true] at hc
      have hk := (inKind_iff k i).mp hi
      have hna : ¬ (inKind k a = true) := by simp [hc.2]
      rw [inKind_iff] at hna
      symm; simp only [decide_eq_true_eq]
      apply Classical.byContradiction
      intro hlt
      apply hna
      constructor
      · intro l hl; have := hk.1 l hl; omega
      · intro h hh; rw [hh] at hs; have : a < h := hs; omega

theorem clamp_le (F6 : Facts06) (k : IntKind) (o : Option Int) (i : Int) (hi : inKind k i = true)
    (hs : match o, k.lo with | some a, some l => l ≤ a | _, _ => True) :
    optLe' (clampOpt F6 k o) i = optLe' o i := by
  cases o with
  | none => rfl
  | some a =>
    unfold clampOpt
    by_cases hc : (!F6.clampFacets || inKind k a) = true
    · simp [hc]
    · simp only [hc, Bool.false_eq_true, if_false, optLe']
      simp only [Bool.or_eq_true, Bool.not_eq_true', not_or, Bool.not_eq_false, Bool.not_eq_true] at hc
      have hk := (inKind_iff k i).mp hi
      have hna : ¬ (inKind k a = true) := by simp [hc.2]
      rw [inKind_iff] at hna
      symm; simp only [decide_eq_true_eq]
      apply Classical.byContradiction
      intro hlt
      apply hna
      constructor
      · intro l hl; rw [hl] at hs; exact hs
      · intro h hh; have := hk.2 h hh; omega

theorem clamp_lt (F6 : Facts06) (k : IntKind) (o : Option Int) (i : Int) (hi : inKind k i = true)
    (hs : match o, k.lo with | some a, some l => l < a | _, _ => True) :
    optLt' (clampOpt F6 k o) i = optLt' o i := by
  cases o with
  | none => rfl
  | some a =>
    unfold clampOpt
    by_cases hc : (!F6.clampFacets || inKind k a) = true
    · simp [hc]
    · simp only [hc, Bool.false_eq_true, if_false, optLt']
      simp only [Bool.or_eq_true, Bool.not_eq_true', not_or, Bool.not_eq_false, Bool.not_eq_true] at hc
      have hk := (inKind_iff k i).mp hi
      have hna : ¬ (inKind k a = true) := by simp [hc.2]
      rw [inKind_iff] at hna
      symm; simp only [decide_eq_true_eq]
      apply Classical.byContradiction
      intro hlt
      apply hna
      constructor
      · intro l hl; rw [hl] at hs; have : l < a := hs; omega
      · intro h hh; have := hk.2 h hh; omega

/-- the facet emission — whatever the two switches say — describes the declared set of values of the
    base type: dropping out-of-range bounds and merging double bounds loses nothing -/
theorem writtenRange_same_values (F6 : Facts06) (k : IntKind) (r : Range) (i : Int)
    (hs : rangeSane k r = true) (hi : inKind k i = true) : (writtenRange F6 k r).holds i = r.holds i := by
  simp only [rangeSane, Bool.and_eq_true] at hs
  obtain ⟨⟨⟨s1, s2⟩, s3⟩, s4⟩ := hs
  have c1 := clamp_ge F6 k r.ge i hi (by cases h1 : r.ge <;> cases h2 : k.hi <;> simp_all)
  have c2 := clamp_gt F6 k r.gt i hi (by cases h1 : r.gt <;> cases h2 : k.hi <;> simp_all)
  have c3 := clamp_le F6 k r.le i hi (by cases h1 : r.le <;> cases h2 : k.lo <;> simp_all)
  have c4 := clamp_lt F6 k r.lt i hi (by cases h1 : r.lt <;> cases h2 : k.lo <;> simp_all)
  rw [holds_eq r i, ← c1, ← c2, ← c3, ← c4]
  unfold writtenRange
  dsimp only
  split
  · rw [holds_eq]
    dsimp only
    have m1 := mergeLower_holds (clampOpt F6 k r.gt) (clampOpt F6 k r.ge) i
    have m2 := mergeUpper_holds (clampOpt F6 k r.lt) (clampOpt F6 k r.le) i
    rw [Bool.and_assoc, Bool.and_assoc (optGe _ _ && optGt _ _), m1, m2]
  · rw [holds_eq]

/-! ### with both repairs in place every satisfiable integer declaration yields a legal restriction -/

def optIn (k : IntKind) (o : Option Int) : Bool := match o with | some a => inKind k a | none => true

theorem clampOpt_in (F6 : Facts06) (k : IntKind) (o : Option Int) (h : F6.clampFacets = true) : optIn k (clampOpt F6 k o) = true := by
  cases o with
  | none => rfl
  | some a =>
    unfold clampOpt
    by_cases hc : inKind k a = true
    · simp [h, hc, optIn]
    · simp [h, hc, optIn]

theorem optIn_sub (k : IntKind) {a b : Option Int} (h : optSub a b) (hb : optIn k b = true) : optIn k a = true := by
  rcases h with e | e
  · rw [e]; rfl
  · rw [e]; exact hb

theorem mergeLower_not_both (a b : Option Int) : ((mergeLower a b).1.isSome && (mergeLower a b).2.isSome) = false := by
  unfold mergeLower
  cases a <;> cases b <;> simp
  rename_i x y
  by_cases h : x ≥ y <;> simp [h]

theorem mergeUpper_not_both (a b : Option Int) : ((mergeUpper a b).1.isSome && (mergeUpper a b).2.isSome) = false := by
  unfold mergeUpper
  cases a <;> cases b <;> simp
  rename_i x y
  by_cases h : x ≤ y <;> simp [h]

theorem all_applies_intFacets (k : IntKind) (w : Range) :
    (intFacets w).all (facetApplies (.integer k)) = (optIn k w.gt && optIn k w.ge && optIn k w.lt && optIn k w.le) := by
  obtain ⟨ge, gt, le, lt⟩ := w
  cases ge <;> cases gt <;> cases le <;> cases lt <;>
    simp [intFacets, optFacet, facetApplies, isIntBuiltin, optIn, Bool.and_assoc]

theorem no_length_facets (w : Range) : (intFacets w).any Facet.isLength = false := by
  obtain ⟨ge, gt, le, lt⟩ := w
  cases ge <;> cases gt <;> cases le <;> cases lt <;> simp [intFacets, optFacet, Facet.isLength]

theorem consistent_of_witness (w : Range) (i : Int) (hw : w.holds i = true)
    (h1 : (w.gt.isSome && w.ge.isSome) = false) (h2 : (w.lt.isSome && w.le.isSome) = false) :
    facetsConsistent (intFacets w) = true := by
  obtain ⟨g1, g2, g3, g4⟩ := facetGet_intFacets w
  unfold facetsConsistent
  rw [g1, g2, g3, g4, h1, h2, no_length_facets]
  rw [holds_eq] at hw
  simp only [Bool.and_eq_true] at hw
  obtain ⟨⟨⟨a, b⟩, c⟩, d⟩ := hw
  have e1 : optLe w.ge w.le = true := by
    cases x : w.ge <;> cases y : w.le <;> simp_all [optLe, optGe, optLe']; omega
  have e2 : optLe w.gt w.lt = true := by
    cases x : w.gt <;> cases y : w.lt <;> simp_all [optLe, optGt, optLt']; omega
  have e3 : optLt w.ge w.lt = true := by
    cases x : w.ge <;> cases y : w.lt <;> simp_all [optLt, optGe, optLt']; omega
  have e4 : optLt w.gt w.le = true := by
    cases x : w.gt <;> cases y : w.le <;> simp_all [optLt, optGt, optLe']; omega
  simp [e1, e2, e3, e4]

/-- with the repaired generator (`clampFacets`, `mergeBounds`) every integer declaration that at
    least one value of the base type satisfies produces a restriction libxml2 accepts -/
theorem fixed_facets_legal (F6 : Facts06) (hc : F6.clampFacets = true) (hm : F6.mergeBounds = true)
    (k : IntKind) (r : Range) (i : Int) (hi : r.holds i = true) :
    simpleDefOk { base := .integer k, facets := primFacets F6 (.integer k r) } = true := by
  have hw := holds_writtenRange F6 k r i hi
  show ((intFacets (writtenRange F6 k r)).all (facetApplies (.integer k)) &&
    facetsConsistent (intFacets (writtenRange F6 k r))) = true
  have hform : writtenRange F6 k r =
      { gt := (mergeLower (clampOpt F6 k r.gt) (clampOpt F6 k r.ge)).1,
        ge := (mergeLower (clampOpt F6 k r.gt) (clampOpt F6 k r.ge)).2,
        lt := (mergeUpper (clampOpt F6 k r.lt) (clampOpt F6 k r.le)).1,
        le := (mergeUpper (clampOpt F6 k r.lt) (clampOpt F6 k r.le)).2 } := by
    unfold writtenRange; simp [hm]
  rw [hform] at hw ⊢
  rw [all_applies_intFacets, Bool.and_eq_true]
  constructor
  · simp only [Bool.and_eq_true]
    refine ⟨⟨⟨?_, ?_⟩, ?_⟩, ?_⟩
    · exact optIn_sub k (mergeLower_sub _ _).1 (clampOpt_in F6 k _ hc)
    · exact optIn_sub k (mergeLower_sub _ _).2 (clampOpt_in F6 k _ hc)
    · exact optIn_sub k (mergeUpper_sub _ _).1 (clampOpt_in F6 k _ hc)
    · exact optIn_sub k (mergeUpper_sub _ _).2 (clampOpt_in F6 k _ hc)
  · exact consistent_of_witness _ i hw (mergeLower_not_both _ _) (mergeUpper_not_both _ _)

/-- string restrictions are always legal: the length facets are `length` or `minLength`/`maxLength`,
    never both, and (for an ordered character class) the pattern is a regular expression -/
theorem string_facets_legal (F6 : Facts06) (a : Nat) (b : Option Nat) (pat : Option Pattern) (vals : List Text)
    (hw : primWf (.unicode a b pat vals) = true) :
    simpleDefOk { base := .string, facets := primFacets F6 (.unicode a b pat vals) } = true := by
  rw [primFacets_unicode]
  unfold simpleDefOk
  simp only [Bool.and_eq_true]
  constructor
  · simp only [List.all_append, Bool.and_eq_true]
    refine ⟨⟨?_, ?_⟩, ?_⟩
    · rw [List.all_eq_true]; intro f hf
      obtain ⟨v, _, e⟩ := List.mem_map.mp hf
      subst e; rfl
    · unfold lenFacets
      split
      · rfl
      · cases b <;> (split <;> simp [optFacet, facetApplies, Builtin.isString])
    · cases pat with
      | none => rfl
      | some p => simpa [optFacet, facetApplies, Builtin.isString, primWf] using hw
  · unfold facetsConsistent
    have hnone : ∀ g : Facet → Option Int, (∀ f, (∃ v, f = .enumeration v) ∨ (∃ n, f = .length n) ∨ (∃ n, f = .minLength n) ∨
        (∃ n, f = .maxLength n) ∨ (∃ p, f = .pattern p) → g f = none) →
        facetGet g (List.map Facet.enumeration vals ++ lenFacets a b ++ optFacet Facet.pattern pat) = none := by
      intro g hg
      unfold facetGet
      rw [List.findSome?_eq_none_iff]
      intro f hf
      apply hg
      simp only [List.mem_append] at hf
      rcases hf with (hf | hf) | hf
      · obtain ⟨v, _, e⟩ := List.mem_map.mp hf; exact Or.inl ⟨v, e.symm⟩
      · unfold lenFacets at hf
        split at hf
        · simp at hf; exact Or.inr (Or.inl ⟨_, hf⟩)
        · simp only [List.mem_append] at hf
          rcases hf with hf | hf
          · split at hf
            · simp at hf; exact Or.inr (Or.inr (Or.inl ⟨_, hf⟩))
            · cases hf
          · cases b with
            | none => cases hf
            | some m => simp [optFacet] at hf; exact Or.inr (Or.inr (Or.inr (Or.inl ⟨_, hf⟩)))
      · cases pat with
        | none => cases hf
        | some p => simp [optFacet] at hf; exact Or.inr (Or.inr (Or.inr (Or.inr ⟨_, hf⟩)))
    have g1 := hnone Facet.minExcl? (by rintro f (⟨v, e⟩ | ⟨n, e⟩ | ⟨n, e⟩ | ⟨n, e⟩ | ⟨p, e⟩) <;> (subst e; rfl))
    have g2 := hnone Facet.minIncl? (by rintro f (⟨v, e⟩ | ⟨n, e⟩ | ⟨n, e⟩ | ⟨n, e⟩ | ⟨p, e⟩) <;> (subst e; rfl))
    have g3 := hnone Facet.maxExcl? (by rintro f (⟨v, e⟩ | ⟨n, e⟩ | ⟨n, e⟩ | ⟨n, e⟩ | ⟨p, e⟩) <;> (subst e; rfl))
    have g4 := hnone Facet.maxIncl? (by rintro f (⟨v, e⟩ | ⟨n, e⟩ | ⟨n, e⟩ | ⟨n, e⟩ | ⟨p, e⟩) <;> (subst e; rfl))
    rw [g1, g2, g3, g4]
    simp only [Option.isSome_none, Bool.and_self, Bool.not_false, optLe, optLt, Bool.true_and]
    -- `length` and `minLength`/`maxLength` are never written together
    simp only [List.any_append, Bool.not_eq_true', Bool.and_eq_false_iff]
    unfold lenFacets
    split
    · right
      have h1 : (List.map Facet.enumeration vals).any Facet.isMinMaxLength = false := by
        rw [List.any_eq_false]; intro f hf; obtain ⟨v, _, e⟩ := List.mem_map.mp hf; subst e; simp [Facet.isMinMaxLength]
      have h3 : (optFacet Facet.pattern pat).any Facet.isMinMaxLength = false := by
        cases pat <;> simp [optFacet, Facet.isMinMaxLength]
      simp [h1, h3, Facet.isMinMaxLength]
    · left
      have h1 : (List.map Facet.enumeration vals).any Facet.isLength = false := by
        rw [List.any_eq_false]; intro f hf; obtain ⟨v, _, e⟩ := List.mem_map.mp hf; subst e; simp [Facet.isLength]
      have h3 : (optFacet Facet.pattern pat).any Facet.isLength = false := by
        cases pat <;> simp [optFacet, Facet.isLength]
      have h2 : ((if a ≠ 0 then [Facet.minLength a] else []) ++ optFacet Facet.maxLength b).any Facet.isLength = false := by
        cases b <;> (split <;> simp [optFacet, Facet.isLength])
      rw [h1, h3]
      simp only [List.any_append, Bool.or_eq_false_iff] at h2
      simp [h2.2]
      intro _; rfl

/-! ### every class definition of the generated schema is legal -/

theorem mem_dedupL {α} [BEq α] [LawfulBEq α] (l : List α) (x : α) : x ∈ dedupL l ↔ x ∈ l := by
  induction l with
  | nil => simp [dedupL]
  | cons a r ih =>
    unfold dedupL
    by_cases h : r.contains a = true
    · rw [if_pos h, ih]
      have : a ∈ r := List.contains_iff_mem.mp h
      constructor
      · intro hx; exact List.mem_cons_of_mem _ hx
      · intro hx
        rcases List.mem_cons.mp hx with e | e
        · subst e; exact this
        · exact e
    · rw [if_neg h]
      simp [ih]

theorem chainOk_parent (A : App) (f : Nat) (D P : ClassDef) (hp : parentOf A.iface D = some P)
    (hc : chainOk A.iface (f + 1) D = true) : chainOk A.iface f P = true := by
  unfold parentOf at hp
  unfold chainOk at hc
  cases hb : D.base with
  | none => rw [hb] at hp; cases hp
  | some b =>
    rw [hb] at hp hc
    dsimp only at hp hc
    have hp' : Registry.find? A.iface.classes b = some P := hp
    rw [hp'] at hc
    simp only [Bool.and_eq_true, decide_eq_true_eq] at hc
    exact hc.2

theorem chainEnds_gen (A : App) (hc : Closed A) :
    ∀ (f : Nat) (D : ClassDef), D ∈ A.allClasses → chainOk A.iface f D = true →
      chainEnds (gen A).complex f (D.ns, D.name) = true := by
  intro f
  induction f with
  | zero => intro D _ h; simp [chainOk] at h
  | succ f ih =>
    intro D hD hch
    simp only [chainEnds, hc.cplx D hD, classComplex]
    cases hp : parentOf A.iface D with
    | none => rfl
    | some P =>
      simp only [Option.map_some]
      exact ih P (parent_mem A D P hp) (chainOk_parent A f D P hp hch)

theorem names_of_aligned (A : App) (ps : List (Text × Particle)) (l : List (Text × (Text × Ty)))
    (h : All2 (AlignedG A) ps l) : ∀ e ∈ ps, ∃ x ∈ l, e.2.name = x.2.1 := by
  induction h with
  | nil => intro e he; cases he
  | @cons e fl l1 l2 hab _ ih =>
    intro x hx
    rcases List.mem_cons.mp hx with e' | e'
    · subst e'; exact ⟨fl, by simp, hab.2.1⟩
    · obtain ⟨g, hg, h2⟩ := ih x e'
      exact ⟨g, by simp [hg], h2⟩

theorem namesDistinct_of_aligned (A : App) (ps : List (Text × Particle)) (l : List (Text × (Text × Ty)))
    (h : All2 (AlignedG A) ps l) (hn : namesNodup (l.map (·.2)) = true) : namesDistinct ps = true := by
  induction h with
  | nil => rfl
  | @cons e fl l1 l2 hab hrest ih =>
    obtain ⟨n, k, t⟩ := fl
    simp only [List.map_cons, namesNodup, Bool.and_eq_true, Bool.not_eq_true', List.any_eq_false, decide_eq_true_eq] at hn
    obtain ⟨ens, p⟩ := e
    simp only [namesDistinct, Bool.and_eq_true, Bool.not_eq_true', List.any_eq_false, decide_eq_true_eq, not_and]
    refine ⟨?_, ih hn.2⟩
    intro x hx _ hname
    obtain ⟨g, hg, h2⟩ := names_of_aligned A l1 l2 hrest x hx
    have : p.name = k := hab.2.1
    exact hn.1 g.2 (List.mem_map.mpr ⟨g, hg, rfl⟩) (by rw [← h2, hname, this])

theorem tyWf_of_mem (fs : List (Text × Ty)) (hw : fieldsWf fs = true) : ∀ f ∈ fs, tyWf f.2 = true := by
  induction fs with
  | nil => intro f hf; cases hf
  | cons g r ih =>
    obtain ⟨k, t⟩ := g
    simp only [fieldsWf, Bool.and_eq_true] at hw
    intro f hf
    rcases List.mem_cons.mp hf with e | e
    · subst e; exact hw.1.1.2
    · exact ih hw.2 f e

theorem occ_ok_of_wf (o : Occ) (h : occWf o = true) :
    (match o.maxOccurs with | some m => decide (o.minOccurs ≤ m) | none => true) = true := by
  unfold occWf at h
  cases hm : o.maxOccurs with
  | none => rfl
  | some m => rw [hm] at h; simp only [Bool.and_eq_true, decide_eq_true_eq] at h ⊢; exact h.2

/-- the `type=` of a member resolves, from the class's namespace document, to a component of the schema -/
theorem refOk_field (A : App) (D : ClassDef) (hD : D ∈ A.allClasses) (f : Text × Ty)
    (hf : f ∈ ownFields A.iface D) (hpos : posOk A (gen A) D.ns D.name f.1 f.2 = true) :
    (gen A).refOk D.ns (refOf A D.ns D.name f.1 f.2) = true := by
  cases hr : refOf A D.ns D.name f.1 f.2 with
  | builtin b => rfl
  | named key =>
    simp only [Schema.refOk, Bool.and_eq_true]
    constructor
    · -- visible: own namespace, or imported
      simp only [Schema.visible, Bool.or_eq_true, decide_eq_true_eq]
      by_cases hk : key.1 = D.ns
      · exact Or.inl hk
      · right
        have hmem : (D.ns, key.1) ∈ (gen A).imports := by
          show (D.ns, key.1) ∈ dedupL (A.allClasses.flatMap (classImports A))
          rw [mem_dedupL]
          refine List.mem_flatMap.mpr ⟨D, hD, ?_⟩
          unfold classImports
          refine List.mem_filterMap.mpr ⟨key.1, ?_, by simp [hk]⟩
          refine List.mem_append.mpr (Or.inr (List.mem_filterMap.mpr ⟨f, hf, ?_⟩))
          rw [hr]; rfl
        exact List.contains_iff_mem.mpr hmem
    · -- defined
      obtain ⟨k, t⟩ := f
      cases t with
      | prim p o =>
        simp only [posOk] at hpos
        by_cases hq : (isEnum p || !isDefaultA A p) = true
        · rw [if_pos hq] at hpos
          have hrr : refOf A D.ns D.name k (.prim p o) = .named (itemKey A D.ns D.name k (.prim p o)) := by
            have : (!isEnum p && isDefaultA A p) = false := by
              cases h1 : isEnum p <;> cases h2 : isDefaultA A p <;> simp_all
            simp [refOf, this]
          rw [hrr] at hr
          injection hr with hr
          subst hr
          simp [Schema.hasSimple, beq_iff_eq.mp hpos]
        · have hrr : refOf A D.ns D.name k (.prim p o) = .builtin (builtinOf p) := by
            have : (!isEnum p && isDefaultA A p) = true := by
              cases h1 : isEnum p <;> cases h2 : isDefaultA A p <;> simp_all
            simp [refOf, this]
          rw [hrr] at hr; cases hr
      | obj cn ons b fields o =>
        simp only [posOk, Bool.and_eq_true, beq_iff_eq] at hpos
        have hrr : refOf A D.ns D.name k (.obj cn ons b fields o) = .named (ons, cn) := rfl
        rw [hrr] at hr
        injection hr with hr
        subst hr
        simp [Schema.hasComplex, hpos.2]
      | arr m e o =>
        simp only [posOk, Bool.and_eq_true, beq_iff_eq] at hpos
        have hrr : refOf A D.ns D.name k (.arr m e o) = .named (itemKey A D.ns D.name k (.arr m e o)) := rfl
        rw [hrr] at hr
        injection hr with hr
        subst hr
        simp [Schema.hasComplex, hpos.1.2]

/-- **compiles, classes**: the complexType written for every class of a well-formed universe passes
    the checks libxml2 applies: the base is a visible complex type and the chain ends, every member
    type resolves to a visible component, occurrence bounds are ordered, the content model is
    deterministic; its global element resolves -/
theorem class_definition_ok (A : App) (hwf : A.wf = true) (D : ClassDef) (hD : D ∈ A.allClasses) :
    complexDefOk (gen A) ((D.ns, D.name), (classComplex A D).2) = true ∧
    (gen A).hasComplex (D.ns, D.name) = true := by
  have hc := closed_of_wf A hwf
  have hbase : namesNodup D.fields = true ∧ fieldsWf D.fields = true := by
    unfold App.wf at hwf
    simp only [Bool.and_eq_true] at hwf
    have hb := hwf.1.1
    unfold App.wfBase at hb
    rw [List.all_eq_true] at hb
    have := hb D hD
    simp only [Bool.and_eq_true] at this
    exact ⟨this.1.1.2, this.1.2⟩
  have hcx : (gen A).hasComplex (D.ns, D.name) = true := by simp [Schema.hasComplex, hc.cplx D hD]
  refine ⟨?_, hcx⟩
  have hbnd : (gen A).chainBound = A.iface.classes.length + 1 := rfl
  unfold complexDefOk
  simp only [Bool.and_eq_true]
  refine ⟨⟨⟨?_, ?_⟩, ?_⟩, ?_⟩
  · -- base
    simp only [classComplex]
    cases hp : parentOf A.iface D with
    | none => rfl
    | some P =>
      have hPa := parent_mem A D P hp
      have hl := hc.cplx P hPa
      simp only [Option.map_some, Schema.hasComplex, hl, Option.isSome_some, Bool.and_true]
      simp only [Schema.visible, Bool.or_eq_true, decide_eq_true_eq]
      by_cases hk : P.ns = D.ns
      · exact Or.inl hk
      · right
        have hmem : (D.ns, P.ns) ∈ (gen A).imports := by
          show (D.ns, P.ns) ∈ dedupL (A.allClasses.flatMap (classImports A))
          rw [mem_dedupL]
          refine List.mem_flatMap.mpr ⟨D, hD, ?_⟩
          unfold classImports
          refine List.mem_filterMap.mpr ⟨P.ns, ?_, by simp [hk]⟩
          rw [hp]
          exact List.mem_append.mpr (Or.inl (by simp))
        exact List.contains_iff_mem.mpr hmem
  · rw [hbnd]; exact chainEnds_gen A hc _ D hD (hc.chain D hD)
  · rw [List.all_eq_true]
    intro p hp
    simp only [classComplex] at hp
    obtain ⟨f, hf, e⟩ := List.mem_map.mp hp
    subst e
    simp only [Bool.and_eq_true]
    refine ⟨refOk_field A D hD f hf (hc.pos D hD f hf), ?_⟩
    exact occ_ok_of_wf _ (occWf_of_tyWf f.2 (tyWf_of_mem D.fields hbase.2 f (ownFields_sub _ _ f hf)))
  · rw [hbnd, effParticles_gen A hc.cplx _ D hD]
    exact namesDistinct_of_aligned A _ _ (classParticles_aligned A _ D hD) (by rw [annFields_snd A _ D (hc.chain D hD)]; exact hbase.1)

end Schema
end SpyneModel

namespace SpyneModel
namespace Schema
open Xml

/-! ### every entry of the generated lists is one of the components proved legal -/

theorem enum_facets_legal (names : List Text) :
    simpleDefOk { base := .string, facets := names.map Facet.enumeration } = true := by
  unfold simpleDefOk
  simp only [Bool.and_eq_true]
  constructor
  · rw [List.all_eq_true]; intro f hf
    obtain ⟨v, _, e⟩ := List.mem_map.mp hf
    subst e; rfl
  · have hnone : ∀ g : Facet → Option Int, (∀ v, g (.enumeration v) = none) →
        facetGet g (names.map Facet.enumeration) = none := by
      intro g hg
      unfold facetGet
      rw [List.findSome?_eq_none_iff]
      intro f hf
      obtain ⟨v, _, e⟩ := List.mem_map.mp hf
      subst e; exact hg v
    unfold facetsConsistent
    rw [hnone _ (fun _ => rfl), hnone _ (fun _ => rfl), hnone _ (fun _ => rfl), hnone _ (fun _ => rfl)]
    have : (names.map Facet.enumeration).any Facet.isLength = false := by
      rw [List.any_eq_false]; intro f hf; obtain ⟨v, _, e⟩ := List.mem_map.mp hf; subst e; simp [Facet.isLength]
    simp [this, optLe, optLt]

theorem prim_base_legal (F6 : Facts06) (p : PrimTy) (hw : primWf p = true) :
    simpleDefOk { base := builtinOf p, facets := primFacets F6 p } = true := by
  cases p with
  | integer k r =>
    have e : primFacets F6 (.integer k r) = intFacets r := by
      show intFacets (writtenRange F6 k r) = intFacets r
      rw [writtenRange_wf F6 k r hw]
    rw [e]; exact hw
  | unicode a b c d => exact string_facets_legal F6 a b c d hw
  | enum names => exact enum_facets_legal names
  | boolean => rfl
  | date => rfl
  | time => rfl
  | dateTime => rfl
  | duration => rfl
  | bytes e => cases e <;> rfl

theorem facetGet_enum_prefix (g : Facet → Option Int) (hg : ∀ v, g (.enumeration v) = none) (lits : List Text) (fs : List Facet) :
    facetGet g (lits.map Facet.enumeration ++ fs) = facetGet g fs := by
  unfold facetGet
  induction lits with
  | nil => rfl
  | cons l r ih => simp only [List.map_cons, List.cons_append, List.findSome?_cons, hg]; exact ih

theorem any_enum_prefix (q : Facet → Bool) (hq : ∀ v, q (.enumeration v) = false) (lits : List Text) (fs : List Facet) :
    (lits.map Facet.enumeration ++ fs).any q = fs.any q := by
  induction lits with
  | nil => rfl
  | cons l r ih => simp only [List.map_cons, List.cons_append, List.any_cons, hq, Bool.false_or]; exact ih

/-- enumeration facets whose literals are valid for the base type keep a restriction legal -/
theorem enum_prefix_legal (b : Builtin) (lits : List Text) (fs : List Facet) (hb : b ≠ .boolean)
    (hl : ∀ l ∈ lits, b.lexOk (b.norm l) = true) (h : simpleDefOk { base := b, facets := fs } = true) :
    simpleDefOk { base := b, facets := lits.map Facet.enumeration ++ fs } = true := by
  unfold simpleDefOk at h ⊢
  simp only [Bool.and_eq_true] at h ⊢
  constructor
  · rw [List.all_append, Bool.and_eq_true]
    refine ⟨?_, h.1⟩
    rw [List.all_eq_true]
    intro f hf
    obtain ⟨l, hlm, e⟩ := List.mem_map.mp hf
    subst e
    cases b <;> first | exact absurd rfl hb | exact hl l hlm
  · have := h.2
    unfold facetsConsistent at this ⊢
    rw [facetGet_enum_prefix _ (fun _ => rfl), facetGet_enum_prefix _ (fun _ => rfl), facetGet_enum_prefix _ (fun _ => rfl),
      facetGet_enum_prefix _ (fun _ => rfl), any_enum_prefix _ (fun _ => rfl), any_enum_prefix _ (fun _ => rfl)]
    exact this

theorem mem_of_lookup_gen {α β} [BEq α] [LawfulBEq α] (l : List (α × β)) (k : α) (v : β) (h : l.lookup k = some v) : (k, v) ∈ l := by
  induction l with
  | nil => cases h
  | cons e r ih =>
    obtain ⟨k', v'⟩ := e
    simp only [List.lookup] at h
    cases hk : k == k' with
    | true => rw [hk] at h; injection h with h; subst h; simp [beq_iff_eq.mp hk]
    | false => rw [hk] at h; exact List.mem_cons_of_mem _ (ih h)

/-- **every enumeration literal of the generated schema is in the lexical space of its base type**
    (and the restriction as a whole is legal) -/
theorem prim_def_legalA (A : App) (G : A.leaf.Good) (hvw : A.valuesWf = true) (p : PrimTy) (hw : primWf p = true) :
    simpleDefOk { base := builtinOf p, facets := primFacetsA A p } = true := by
  unfold primFacetsA App.enumLits
  cases he : (A.extraVals p).isEmpty with
  | true =>
    simp only [List.isEmpty_iff] at he
    rw [he]; exact prim_base_legal A.facts p hw
  | false =>
    -- the values come from an entry of the table
    have hent : (p, A.extraVals p) ∈ A.values := by
      have hlk : A.values.lookup p = some (A.extraVals p) := by
        cases hl : A.values.lookup p with
        | none => cases p <;> simp [App.extraVals, hl] at he
        | some vs => cases p <;> simp_all [App.extraVals]
      exact mem_of_lookup_gen _ _ _ hlk
    unfold App.valuesWf at hvw
    rw [List.all_eq_true] at hvw
    have hp := hvw _ hent
    simp only [Bool.and_eq_true, decide_eq_true_eq, List.all_eq_true] at hp
    obtain ⟨⟨hnb, _⟩, hvals⟩ := hp
    apply enum_prefix_legal _ _ _ _ _ (prim_base_legal A.facts p hw)
    · intro e
      cases p with
      | boolean => exact hnb rfl
      | bytes enc => cases enc <;> cases e
      | _ => cases e
    · intro l hl
      obtain ⟨v, hv, hs⟩ := List.mem_filterMap.mp hl
      have hvv := hvals v hv
      obtain ⟨s, hs', hok⟩ := leaf_simpleOk A.leaf G A.facts p v hvv.1 (rep_of_leaf p v hvv.1 hvv.2)
      rw [hs] at hs'; injection hs' with e; subst e
      simp only [simpleOk, Bool.and_eq_true] at hok
      exact hok.1

theorem tyDefs_simple_ok (A : App) (G : A.leaf.Good) (hvw : A.valuesWf = true) (cns cname k : Text) :
    ∀ t : Ty, tyWf t = true → ∀ e ∈ (tyDefs A cns cname k t).simple, simpleDefOk e.2 = true
  | .prim p o, hw, e, he => by
    simp only [tyWf, Bool.and_eq_true] at hw
    simp only [tyDefs] at he
    split at he
    · simp only [List.mem_singleton] at he
      subst he
      exact prim_def_legalA A G hvw p hw.1
    · cases he
  | .obj _ _ _ _ _, _, e, he => by simp [tyDefs] at he
  | .arr m el o, hw, e, he => by
    have hw' := hw
    unfold tyWf at hw'
    simp only [Bool.and_eq_true] at hw'
    obtain ⟨⟨⟨_, _⟩, hwe⟩, _⟩ := hw'
    simp only [tyDefs, Defs.append, List.mem_append] at he
    rcases he with he | he
    · exact tyDefs_simple_ok A G hvw cns cname k el hwe e he
    · cases el with
      | prim p o' =>
        simp only at he
        split at he
        · simp only [List.mem_singleton] at he
          subst he
          simp only [tyWf, Bool.and_eq_true] at hwe
          exact prim_def_legalA A G hvw p hwe.1
        · cases he
      | obj _ _ _ _ _ => cases he
      | arr _ _ _ => cases he

theorem tyDefs_complex_wrappers (A : App) (cns cname k : Text) :
    ∀ t : Ty, tyWf t = true → arrNsOk A cns cname k t = true →
      ∀ e ∈ (tyDefs A cns cname k t).complex,
        ∃ m el o, tyWf (.arr m el o) = true ∧ arrNsOk A cns cname k (.arr m el o) = true ∧
          e = (itemKey A cns cname k (.arr m el o),
               { base := none, particles := [{ name := memberLocal m, type := refOf A cns cname k el, occ := el.occ }] }) ∧
          (∀ x ∈ (tyDefs A cns cname k (.arr m el o)).simple, x ∈ (tyDefs A cns cname k t).simple) ∧
          (∀ x ∈ (tyDefs A cns cname k (.arr m el o)).complex, x ∈ (tyDefs A cns cname k t).complex) ∧
          (∀ D ∈ nested (.arr m el o), D ∈ nested t)
  | .prim p o, _, _, e, he => by
    simp only [tyDefs] at he
    split at he <;> cases he
  | .obj _ _ _ _ _, _, _, e, he => by simp [tyDefs] at he
  | .arr m el o, hw, ha, e, he => by
    have hw' := hw
    unfold tyWf at hw'
    simp only [Bool.and_eq_true] at hw'
    obtain ⟨⟨⟨_, _⟩, hwe⟩, _⟩ := hw'
    have ha' := ha
    simp only [arrNsOk, Bool.and_eq_true] at ha'
    simp only [tyDefs, Defs.append, List.mem_append, List.mem_singleton] at he
    rcases he with he | he
    · obtain ⟨m', el', o', h1, h2, h3, h4, h5, h6⟩ := tyDefs_complex_wrappers A cns cname k el hwe ha'.2 e he
      refine ⟨m', el', o', h1, h2, h3, ?_, ?_, ?_⟩
      · intro x hx; simp only [tyDefs, Defs.append, List.mem_append]; exact Or.inl (h4 x hx)
      · intro x hx; simp only [tyDefs, Defs.append, List.mem_append]; exact Or.inl (h5 x hx)
      · intro D hD; simp only [nested]; exact h6 D hD
    · exact ⟨m, el, o, hw, ha, he, fun x hx => hx, fun x hx => hx, fun D hD => hD⟩

theorem ref_defined (A : App) (cns cname k : Text) (t : Ty) (key : Key)
    (hpos : posOk A (gen A) cns cname k t = true) (hr : refOf A cns cname k t = .named key) :
    ((gen A).hasSimple key || (gen A).hasComplex key) = true := by
  cases t with
  | prim p o =>
    simp only [posOk] at hpos
    by_cases hq : (isEnum p || !isDefaultA A p) = true
    · rw [if_pos hq] at hpos
      have hrr : refOf A cns cname k (.prim p o) = .named (itemKey A cns cname k (.prim p o)) := by
        have : (!isEnum p && isDefaultA A p) = false := by
          cases h1 : isEnum p <;> cases h2 : isDefaultA A p <;> simp_all
        simp [refOf, this]
      rw [hrr] at hr
      injection hr with hr
      subst hr
      simp [Schema.hasSimple, beq_iff_eq.mp hpos]
    · have hrr : refOf A cns cname k (.prim p o) = .builtin (builtinOf p) := by
        have : (!isEnum p && isDefaultA A p) = true := by
          cases h1 : isEnum p <;> cases h2 : isDefaultA A p <;> simp_all
        simp [refOf, this]
      rw [hrr] at hr; cases hr
  | obj cn ons b fields o =>
    simp only [posOk, Bool.and_eq_true, beq_iff_eq] at hpos
    have hrr : refOf A cns cname k (.obj cn ons b fields o) = .named (ons, cn) := rfl
    rw [hrr] at hr
    injection hr with hr
    subst hr
    simp [Schema.hasComplex, hpos.2]
  | arr m e o =>
    simp only [posOk, Bool.and_eq_true, beq_iff_eq] at hpos
    have hrr : refOf A cns cname k (.arr m e o) = .named (itemKey A cns cname k (.arr m e o)) := rfl
    rw [hrr] at hr
    injection hr with hr
    subst hr
    simp [Schema.hasComplex, hpos.1.2]

/-- the wrapper complexType of an `Array` member passes libxml2's checks -/
theorem wrapper_ok (A : App) (hN : NoClash A) (cns cname k m : Text) (el : Ty) (o : Occ)
    (hw : tyWf (.arr m el o) = true) (ha : arrNsOk A cns cname k (.arr m el o) = true)
    (hs : ∀ x ∈ (tyDefs A cns cname k (.arr m el o)).simple, x ∈ rawSimple A)
    (hc : ∀ x ∈ (tyDefs A cns cname k (.arr m el o)).complex, x ∈ rawComplex A)
    (hn : ∀ D ∈ nested (.arr m el o), D ∈ A.allClasses) :
    complexDefOk (gen A) (itemKey A cns cname k (.arr m el o),
      { base := none, particles := [{ name := memberLocal m, type := refOf A cns cname k el, occ := el.occ }] }) = true := by
  have hm : (itemKey A cns cname k (.arr m el o), ({ base := none, particles := [{ name := memberLocal m, type := refOf A cns cname k el, occ := el.occ }] } : ComplexDef)) ∈ rawComplex A := by
    apply hc; simp [tyDefs, Defs.append]
  have hl := (complex_lookup A hN _ _ hm).1
  have hbnd : (gen A).chainBound = A.iface.classes.length + 1 := rfl
  have hpos := posOk_of_noClash A hN cns cname k el
    (fun x hx => hs x (by simp only [tyDefs, Defs.append, List.mem_append]; exact Or.inl hx))
    (fun x hx => hc x (by simp only [tyDefs, Defs.append, List.mem_append]; exact Or.inl hx))
    (fun D hD => hn D (by simpa [nested] using hD))
  have hw' := hw
  unfold tyWf at hw'
  simp only [Bool.and_eq_true, decide_eq_true_eq] at hw'
  obtain ⟨⟨⟨⟨_, hmin⟩, _⟩, _⟩, _⟩ := hw'
  simp only [arrNsOk, Bool.and_eq_true] at ha
  unfold complexDefOk
  simp only [Bool.and_eq_true]
  refine ⟨⟨⟨trivial, ?_⟩, ?_⟩, ?_⟩
  · rw [hbnd]; simp only [chainEnds, hl]
  · simp only [List.all_cons, List.all_nil, Bool.and_true, Bool.and_eq_true]
    constructor
    · cases hr : refOf A cns cname k el with
      | builtin b => rfl
      | named rk =>
        simp only [Schema.refOk, Bool.and_eq_true]
        refine ⟨?_, ref_defined A cns cname k el rk hpos hr⟩
        have := ha.1
        rw [hr] at this
        simp only [refNs, decide_eq_true_eq] at this
        simp [Schema.visible, this]
    · rw [hmin]; cases el.occ.maxOccurs <;> simp
  · rw [hbnd]
    simp only [effParticles, hl, List.nil_append, List.map_cons, List.map_nil, namesDistinct, List.any_nil, Bool.not_false,
      Bool.and_self]

theorem nodupKeys_map_self {α} (l : List (Key × α)) (h : nodupKeys l = true) :
    nodupKeys (l.map (fun e => (e.1, e.1))) = true := by
  induction l with
  | nil => rfl
  | cons e r ih =>
    obtain ⟨k, v⟩ := e
    simp only [nodupKeys, Bool.and_eq_true, Bool.not_eq_true', List.any_eq_false, beq_iff_eq, List.map_cons] at h ⊢
    refine ⟨?_, ih h.2⟩
    intro x hx
    obtain ⟨y, hy, e⟩ := List.mem_map.mp hx
    subst e
    exact h.1 y hy

theorem lookup_isSome_of_mem {α} (l : List (Key × α)) (e : Key × α) (h : e ∈ l) : (l.lookup e.1).isSome = true := by
  induction l with
  | nil => cases h
  | cons a r ih =>
    obtain ⟨k, v⟩ := a
    simp only [List.lookup]
    cases hk : e.1 == k with
    | true => rfl
    | false =>
      rcases List.mem_cons.mp h with e' | e'
      · subst e'; simp at hk
      · exact ih e'

/-- **gen_compiles.** The schema generated for a well-formed application passes every check libxml2
    applies to this subset of XSD. -/
theorem gen_compiles_of (A : App) (G : A.leaf.Good) (hwf : A.wf = true)
    (himp : (gen A).importsHaveDocs = true) : (gen A).compiles = true := by
  have hc := closed_of_wf A hwf
  have hwf' := hwf
  unfold App.wf at hwf'
  simp only [Bool.and_eq_true] at hwf'
  have hN := noClash_unfold A hwf'.1.2
  have hb := hwf'.1.1
  have hvw := hwf'.2
  unfold App.wfBase at hb
  rw [List.all_eq_true] at hb
  have hfields : ∀ D ∈ A.allClasses, ∀ f ∈ ownFields A.iface D, tyWf f.2 = true ∧ arrNsOk A D.ns D.name f.1 f.2 = true := by
    intro D hD f hf
    have := hb D hD
    simp only [Bool.and_eq_true, List.all_eq_true] at this
    exact ⟨tyWf_of_mem D.fields this.1.2 f (ownFields_sub _ _ f hf), this.2 f hf⟩
  have hsimple : (gen A).simple = dedupKeys (rawSimple A) := rfl
  have hcomplex : (gen A).complex = dedupKeys (rawComplex A) := rfl
  have helems : (gen A).elements = (gen A).complex.map (fun e => (e.1, e.1)) := rfl
  unfold Schema.compiles
  simp only [Bool.and_eq_true]
  refine ⟨⟨⟨⟨⟨⟨⟨?_, ?_⟩, ?_⟩, ?_⟩, ?_⟩, ?_⟩, ?_⟩, himp⟩
  · rw [hsimple]; exact nodupKeys_dedupAux [] _
  · rw [hcomplex]; exact nodupKeys_dedupAux [] _
  · rw [helems]; exact nodupKeys_map_self _ (by rw [hcomplex]; exact nodupKeys_dedupAux [] _)
  · rw [List.all_eq_true]
    intro e he
    have hraw : e ∈ rawSimple A := dedupAux_sub [] _ e (by rw [hsimple] at he; exact he)
    have := hN.disj e hraw
    simp only [Schema.hasComplex, hcomplex, lookup_dedupKeys, this, Option.isSome_none, Bool.not_false]
  · rw [List.all_eq_true]
    intro e he
    have hraw : e ∈ rawSimple A := dedupAux_sub [] _ e (by rw [hsimple] at he; exact he)
    unfold rawSimple at hraw
    obtain ⟨D, hD, hd⟩ := List.mem_flatMap.mp hraw
    simp only [classDefs] at hd
    obtain ⟨ds, hds, hed⟩ := List.mem_flatMap.mp hd
    obtain ⟨f, hf, rfl⟩ := List.mem_map.mp hds
    exact tyDefs_simple_ok A G hvw D.ns D.name f.1 f.2 (hfields D hD f hf).1 e hed
  · rw [List.all_eq_true]
    intro e he
    have hraw : e ∈ rawComplex A := dedupAux_sub [] _ e (by rw [hcomplex] at he; exact he)
    unfold rawComplex at hraw
    obtain ⟨D, hD, hd⟩ := List.mem_flatMap.mp hraw
    simp only [classDefs, List.mem_append, List.mem_singleton] at hd
    rcases hd with hd | hd
    · obtain ⟨ds, hds, hed⟩ := List.mem_flatMap.mp hd
      obtain ⟨f, hf, rfl⟩ := List.mem_map.mp hds
      have hsub := field_defs_sub A D hD f hf
      obtain ⟨m, el, o, h1, h2, h3, h4, h5, h6⟩ :=
        tyDefs_complex_wrappers A D.ns D.name f.1 f.2 (hfields D hD f hf).1 (hfields D hD f hf).2 e hed
      rw [h3]
      exact wrapper_ok A hN D.ns D.name f.1 m el o h1 h2 (fun x hx => hsub.1 x (h4 x hx)) (fun x hx => hsub.2 x (h5 x hx))
        (fun D2 hD2 => allClasses_closed A D hD D2
          (nested_sub_nestedFields D.fields f.1 f.2 (ownFields_sub _ _ f hf) D2 (h6 D2 hD2)))
    · rw [hd]
      exact (class_definition_ok A hwf D hD).1
  · rw [List.all_eq_true]
    intro e he
    rw [helems] at he
    obtain ⟨y, hy, rfl⟩ := List.mem_map.mp he
    simp only [Schema.hasComplex, lookup_isSome_of_mem _ y hy, Bool.true_or, Schema.visible, decide_true, Bool.and_self]

end Schema
end SpyneModel
