/-
  Server-level corollaries of the round trip: dispatch by the request tag, envelope handling.
-/
import Proofs.XmlRoundtrip
import Proofs.XmlNoCrash
import SpyneModel.Soap
namespace SpyneModel
namespace Xml

/-! ### server level -/

theorem toParent_ns (F : Facts08) (cfg : Cfg) (I : Iface) (ns name : Text) (t : Ty) (v : Val) :
    ∀ e ∈ toParent F cfg I ns name t v, e.ns = ns := by
  intro e he
  cases v with
  | none => simp only [toParent, List.mem_singleton] at he; subst he; rfl
  | obj cls vs =>
    simp only [toParent] at he
    split at he
    · split at he <;> (simp only [List.mem_singleton] at he; subst he; rfl)
    · cases he
  | list vs =>
    simp only [toParent] at he
    split at he
    · simp only [List.mem_singleton] at he; subst he; rfl
    · cases he
  | _ =>
    simp only [toParent] at he
    split at he
    · split at he
      · simp only [List.mem_singleton] at he; subst he; rfl
      · cases he
    · cases he

theorem methodKey_of (I : Iface) (e : Node) (name : Text) (hns : e.ns = I.tns) (hn : e.name = name) :
    Soap.methodKey I e = clark I.tns name := by
  unfold Soap.methodKey
  rw [hns, hn]
  split <;> rfl

/-- XmlDocument server: a request written for method `name` is dispatched to it and its arguments
    arrive -/
theorem xml_server_rt {F : Facts08} {X : FactsXml} {cfg : Cfg} {I : Iface} (C : RtCtx F X cfg I)
    (ms : Soap.Methods) (name : Text) (t : Ty) (ht : tyWf t = true) (hm : ms.lookup (clark I.tns name) = some t)
    (v : Val) (hok : okOneX I cfg.polymorphic cfg.soft t v = true) (hfit : fitsV F v = true) :
    ∃ e, toParent F cfg I I.tns name t v = [e] ∧
      Soap.xmlServerDecode F X cfg I ms e = .ok (clark I.tns name, normOneX I t v) := by
  obtain ⟨e, he, hdec⟩ := one_rt C I.tns name t ht v hok hfit
  have hmem : e ∈ toParent F cfg I I.tns name t v := by rw [he]; exact List.mem_singleton.mpr rfl
  have hk := methodKey_of I e name (toParent_ns F cfg I I.tns name t v e hmem)
    (toParent_nodeOk F cfg I I.tns name t v e hmem).1
  refine ⟨e, he, ?_⟩
  unfold Soap.xmlServerDecode
  rw [hk, hm]
  simp [hdec]

theorem soapServerDecode_envelope (F : Facts08) (X : FactsXml) (S : Soap.FactsSoap) (cfg : Cfg) (I : Iface)
    (ver : Soap.Version) (ms : Soap.Methods) (e : Node)
    (hf : ¬ (e.ns = Soap.envNs ver ∧ e.name = "Fault".toList)) :
    Soap.soapServerDecode F X S cfg I ver ms (Soap.envelope ver [e]) = Soap.xmlServerDecode F X cfg I ms e := by
  have h1 : ("Body".toList = "Header".toList) = False := by decide
  cases e with
  | elem ens en ea et ec =>
    simp only [Node.ns, Node.name] at hf
    unfold Soap.soapServerDecode
    by_cases a : ens = Soap.envNs ver
    · have b : ¬ en = "Fault".toList := fun b => hf ⟨a, b⟩
      simp [Soap.envelope, Soap.childrenNamed, Node.ns, Node.name, Node.children, a]
      intro h
      exact absurd (show en = "Fault".toList from of_decide_eq_true h) b
    · simp [Soap.envelope, Soap.childrenNamed, Node.ns, Node.name, Node.children, a]

/-- Soap11 / Soap12 server: the same through the envelope -/
theorem soap_server_rt {F : Facts08} {X : FactsXml} {cfg : Cfg} {I : Iface} (C : RtCtx F X cfg I)
    (S : Soap.FactsSoap) (ver : Soap.Version) (ms : Soap.Methods) (name : Text) (t : Ty) (ht : tyWf t = true)
    (hm : ms.lookup (clark I.tns name) = some t) (hnf : ¬ (I.tns = Soap.envNs ver ∧ name = "Fault".toList))
    (v : Val) (hok : okOneX I cfg.polymorphic cfg.soft t v = true) (hfit : fitsV F v = true) :
    ∃ e, toParent F cfg I I.tns name t v = [e] ∧
      Soap.soapServerDecode F X S cfg I ver ms (Soap.envelope ver [e]) = .ok (clark I.tns name, normOneX I t v) := by
  obtain ⟨e, he, hdec⟩ := xml_server_rt C ms name t ht hm v hok hfit
  have hmem : e ∈ toParent F cfg I I.tns name t v := by rw [he]; exact List.mem_singleton.mpr rfl
  have hns := toParent_ns F cfg I I.tns name t v e hmem
  have hnm := (toParent_nodeOk F cfg I I.tns name t v e hmem).1
  refine ⟨e, he, ?_⟩
  rw [soapServerDecode_envelope F X S cfg I ver ms e ?_, hdec]
  rw [hns, hnm]; exact hnf

/-! ### no crash / soundness at the server level -/

theorem xmlServerDecode_nocrash {F : Facts08} (L : LeafLaws F) {X : FactsXml} (hX : X.childAttrGuard = true)
    (cfg : Cfg) (I : Iface) (ms : Soap.Methods) (doc : Node) (e : String) :
    Soap.xmlServerDecode F X cfg I ms doc ≠ .crash e := by
  unfold Soap.xmlServerDecode
  split
  · intro h; cases h
  · split
    · intro h; cases h
    · intro h; cases h
    · rename_i h; intro h'; cases h'; exact absurd h (fromElement_nocrash L hX cfg I _ doc _)

theorem soapServerDecode_nocrash {F : Facts08} (L : LeafLaws F) {X : FactsXml} (hX : X.childAttrGuard = true)
    {S : Soap.FactsSoap} (hS : S.emptyBodyGuard = true) (cfg : Cfg) (I : Iface) (ver : Soap.Version)
    (ms : Soap.Methods) (doc : Node) (e : String) :
    Soap.soapServerDecode F X S cfg I ver ms doc ≠ .crash e := by
  unfold Soap.soapServerDecode
  simp only [hS, if_true]
  repeat' (first | split | (dsimp only; split))
  all_goals first
    | (intro h; cases h; done)
    | exact xmlServerDecode_nocrash L hX cfg I ms _ e

theorem xmlServerDecode_sound {F : Facts08} (L : LeafLaws F) {X : FactsXml} (hX : X.xsiTypeCheck = true)
    (cfg : Cfg) {I : Iface} (hI : ifaceWf I = true) (ms : Soap.Methods) (doc : Node) (k : Text) (v : Val)
    (h : Soap.xmlServerDecode F X cfg I ms doc = .ok (k, v)) :
    ∃ t, ms.lookup k = some t ∧ hasTyOne I t v = true := by
  unfold Soap.xmlServerDecode at h
  split at h
  · cases h
  · rename_i t hm
    split at h
    · rename_i w hw
      injection h with h
      injection h with h1 h2
      subst h2
      exact ⟨t, by rw [← h1]; exact hm, fromElement_sound L hX cfg hI t doc _ hw⟩
    · cases h
    · cases h

theorem soapServerDecode_sound {F : Facts08} (L : LeafLaws F) {X : FactsXml} (hX : X.xsiTypeCheck = true)
    (S : Soap.FactsSoap) (cfg : Cfg) {I : Iface} (hI : ifaceWf I = true) (ver : Soap.Version)
    (ms : Soap.Methods) (doc : Node) (k : Text) (v : Val)
    (h : Soap.soapServerDecode F X S cfg I ver ms doc = .ok (k, v)) :
    ∃ t, ms.lookup k = some t ∧ hasTyOne I t v = true := by
  unfold Soap.soapServerDecode at h
  repeat' (first | split at h | (dsimp only at h; split at h))
  all_goals first
    | (cases h; done)
    | exact xmlServerDecode_sound L hX cfg hI ms _ k v h

end Xml
end SpyneModel
