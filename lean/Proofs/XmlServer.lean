/-
  Server-level corollaries of the round trip: dispatch by the request tag, envelope handling.
-/
import Proofs.XmlRoundtrip
import SpyneModel.Soap
namespace SpyneModel
namespace Xml

/-! ### server level -/

theorem toParent_ns (F : Facts08) (cfg : Cfg) (I : Iface) (ns name : Text) (t : Ty) (v : Val) :
    ∀ e ∈ toParent F cfg I ns name t v, e.ns = ns := by
  intro e he
  cases v with
  | none => simp only [toParent, List.mem_singleton] at he; subst he; rfl
  | obj cls vs =>
    simp only [toParent] at he
    split at he
    · split at he <;> (simp only [List.mem_singleton] at he; subst he; rfl)
    · cases he
  | list vs =>
    simp only [toParent] at he
    split at he
    · simp only [List.mem_singleton] at he; subst he; rfl
    · cases he
  | _ =>
    simp only [toParent] at he
    split at he
    · split at he
      · simp only [List.mem_singleton] at he; subst he; rfl
      · cases he
    · cases he

theorem methodKey_of (I : Iface) (e : Node) (name : Text) (hns : e.ns = I.tns) (hn : e.name = name) :
    Soap.methodKey I e = clark I.tns name := by
  unfold Soap.methodKey
  rw [hns, hn]
  split <;> rfl

/-- XmlDocument server: a request written for method `name` is dispatched to it and its arguments
    arrive -/
theorem xml_server_rt {F : Facts08} {X : FactsXml} {cfg : Cfg} {I : Iface} (C : RtCtx F X cfg I)
    (ms : Soap.Methods) (name : Text) (t : Ty) (ht : tyWf t = true) (hm : ms.lookup (clark I.tns name) = some t)
    (v : Val) (hok : okOneX I cfg.polymorphic cfg.soft t v = true) (hfit : fitsV F v = true) :
    ∃ e, toParent F cfg I I.tns name t v = [e] ∧
      Soap.xmlServerDecode F X cfg I ms e = .ok (clark I.tns name, normOneX I t v) := by
  obtain ⟨e, he, hdec⟩ := one_rt C I.tns name t ht v hok hfit
  have hmem : e ∈ toParent F cfg I I.tns name t v := by rw [he]; exact List.mem_singleton.mpr rfl
  have hk := methodKey_of I e name (toParent_ns F cfg I I.tns name t v e hmem)
    (toParent_nodeOk F cfg I I.tns name t v e hmem).1
  refine ⟨e, he, ?_⟩
  unfold Soap.xmlServerDecode
  rw [hk, hm]
  simp [hdec]

/-- Soap11 / Soap12 server: the same through the envelope -/
theorem soap_server_rt {F : Facts08} {X : FactsXml} {cfg : Cfg} {I : Iface} (C : RtCtx F X cfg I)
    (S : Soap.FactsSoap) (ver : Soap.Version) (ms : Soap.Methods) (name : Text) (t : Ty) (ht : tyWf t = true)
    (hm : ms.lookup (clark I.tns name) = some t) (hnf : ¬ (I.tns = Soap.envNs ver ∧ name = "Fault".toList))
    (v : Val) (hok : okOneX I cfg.polymorphic cfg.soft t v = true) (hfit : fitsV F v = true) :
    ∃ e, toParent F cfg I I.tns name t v = [e] ∧
      Soap.soapServerDecode F X S cfg I ver ms (Soap.envelope ver [e]) = .ok (clark I.tns name, normOneX I t v) := by
  obtain ⟨e, he, hdec⟩ := xml_server_rt C ms name t ht hm v hok hfit
  have hmem : e ∈ toParent F cfg I I.tns name t v := by rw [he]; exact List.mem_singleton.mpr rfl
  have hns := toParent_ns F cfg I I.tns name t v e hmem
  have hnm := (toParent_nodeOk F cfg I I.tns name t v e hmem).1
  refine ⟨e, he, ?_⟩
  have hfault : (e.ns = Soap.envNs ver && e.name = "Fault".toList) = false := by
    rw [hns, hnm]
    cases h1 : decide (I.tns = Soap.envNs ver) <;> cases h2 : decide (name = "Fault".toList) <;> simp_all
  have hhdr : Soap.childrenNamed (Soap.envNs ver) "Header".toList (Soap.envelope ver [e]) = [] := by
    cases ver <;> simp [Soap.childrenNamed, Soap.envelope, Node.children, Node.ns, Node.name] <;> decide
  have hbody : Soap.childrenNamed (Soap.envNs ver) "Body".toList (Soap.envelope ver [e]) =
      [.elem (Soap.envNs ver) "Body".toList [] none [e]] := by
    cases ver <;> simp [Soap.childrenNamed, Soap.envelope, Node.children, Node.ns, Node.name]
  unfold Soap.soapServerDecode
  rw [hhdr, hbody]
  simp only [Soap.envelope, Node.ns, Node.name, Node.children, hfault]
  simp [hdec]

end Xml
end SpyneModel
