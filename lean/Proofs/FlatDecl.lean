/-
  C03 helper lemmas: the member table names every member by its own sub_name.
-/
import SpyneModel.FlatDecl
import SpyneModel.FlatQs
namespace SpyneModel.Flat
open SpyneModel

mutual
theorem keyedTy_own (F : Facts03) (hF : F.subNameScope = .member) (own : Option Text) (t : DTy) :
    keyedTy F own t = ownTy t := by
  match t with
  | .prim p => rfl
  | .obj cid fs => simp only [keyedTy, ownTy, keyedFields_own F hF (some own) fs]
theorem keyedFields_own (F : Facts03) (hF : F.subNameScope = .member) (cont : Option (Option Text)) (fs : List DFld) :
    keyedFields F cont fs = ownFields fs := by
  match fs with
  | [] => rfl
  | (n, sub, occ, t) :: r =>
    simp only [keyedFields, ownFields, keyedTy_own F hF sub t, keyedFields_own F hF cont r]
    cases cont <;> simp [keyName, hF]
end

/-- a WSDL request starts with `wsdl` (any case), and that is the whole query or `=` follows -/
theorem isWsdl_firstName (F : Facts03) (hF : F.wsdlRule = .firstName) (qs : Text) (h : isWsdl F qs = true) :
    ∃ w rest, qs = w ++ rest ∧ w.map asciiLower = "wsdl".toList ∧ (rest = [] ∨ ∃ r, rest = '=' :: r) := by
  simp only [isWsdl, hF, decide_eq_true_eq] at h
  refine ⟨qs.takeWhile (fun c => c ≠ '='), qs.dropWhile (fun c => c ≠ '='), (List.takeWhile_append_dropWhile).symm, h, ?_⟩
  cases hd : qs.dropWhile (fun c => c ≠ '=') with
  | nil => exact Or.inl rfl
  | cons c r =>
    right
    have hc : c = '=' := by
      have : ∀ (l : Text), l.dropWhile (fun c => c ≠ '=') = c :: r → c = '=' := by
        intro l
        induction l with
        | nil => intro h0; simp at h0
        | cons a t ih =>
          intro h0
          simp only [List.dropWhile_cons] at h0
          split at h0
          · exact ih h0
          · rename_i hne
            simp only [List.cons.injEq] at h0
            rw [← h0.1]
            simpa using hne
      exact this qs hd
    exact ⟨r, by rw [hc]⟩

end SpyneModel.Flat
