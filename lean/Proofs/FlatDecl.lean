/-
  C03 helper lemmas: the member table names every member by its own sub_name.
-/
import SpyneModel.FlatDecl
import SpyneModel.FlatQs
namespace SpyneModel.Flat
open SpyneModel

theorem effPrim_own (F : Facts03) (hB : F.bytesDeclaredWins = true) (d : Bool) (p : PK) : effPrim F d p = ownPrim d p := by
  cases p <;> simp [effPrim, ownPrim, hB]

mutual
theorem keyedTy_own (F : Facts03) (hF : F.subNameScope = .member) (hB : F.bytesDeclaredWins = true) (a : MAttr) (t : DTy) :
    keyedTy F a t = ownTy a t := by
  match t with
  | .prim p => simp only [keyedTy, ownTy, effPrim_own F hB]
  | .obj cid fs => simp only [keyedTy, ownTy, keyedFields_own F hF hB (some a.sub) fs]
theorem keyedFields_own (F : Facts03) (hF : F.subNameScope = .member) (hB : F.bytesDeclaredWins = true)
    (cont : Option (Option Text)) (fs : List DFld) :
    keyedFields F cont fs = ownFields fs := by
  match fs with
  | [] => rfl
  | (n, a, occ, t) :: r =>
    simp only [keyedFields, ownFields, keyedTy_own F hF hB a t, keyedFields_own F hF hB cont r]
    cases cont <;> simp [keyName, hF]
end

/-! ## sharing -/

mutual
theorem pruneNode_id (seen : List Nat) (t : LNode) (h : ∀ i, i ∈ idsL t → i ∉ seen) :
    pruneNode false seen t = (t, seen) := by
  match t with
  | .none => rfl
  | .leaf v => rfl
  | .leaves vs => rfl
  | .obj id attrs =>
    have hid : seen.contains id = false := by
      have := h id (by simp [idsL])
      simpa using this
    simp only [pruneNode, hid, Bool.false_eq_true, if_false]
    rw [pruneAttrs_id seen attrs (fun i hi => h i (by simp [idsL, hi]))]
  | .arr items =>
    simp only [pruneNode]
    rw [pruneItems_id seen items (fun i hi => h i (by simpa [idsL] using hi))]
theorem pruneAttrs_id (seen : List Nat) (attrs : List (Text × LNode)) (h : ∀ i, i ∈ idsAttrsL attrs → i ∉ seen) :
    pruneAttrs false seen attrs = (attrs, seen) := by
  match attrs with
  | [] => rfl
  | (k, v) :: r =>
    simp only [pruneAttrs]
    rw [pruneNode_id seen v (fun i hi => h i (by simp [idsAttrsL, hi]))]
    simp only
    rw [pruneAttrs_id seen r (fun i hi => h i (by simp [idsAttrsL, hi]))]
theorem pruneItems_id (seen : List Nat) (items : List LNode) (h : ∀ i, i ∈ idsItemsL items → i ∉ seen) :
    pruneItems false seen items = (items, seen) := by
  match items with
  | [] => rfl
  | v :: r =>
    simp only [pruneItems]
    rw [pruneNode_id seen v (fun i hi => h i (by simp [idsItemsL, hi]))]
    simp only
    rw [pruneItems_id seen r (fun i hi => h i (by simp [idsItemsL, hi]))]
end

/-- with the guard on the root only, a value without a reference back to its root is flattened as its tree:
    sharing is invisible -/
theorem encodeShared_tree (F : Facts03) (hF : F.encGuard = .rootOnly) (delim : Text) (fields : List Fld)
    (id : Nat) (attrs : List (Text × LNode)) (h : id ∉ idsAttrsL attrs) :
    encodeShared F delim fields (.obj id attrs) = encode delim fields (stripL (.obj id attrs)) := by
  simp only [encodeShared, hF]
  rw [show decide (EncGuard.rootOnly = EncGuard.visited) = false from by decide]
  rw [pruneAttrs_id [id] attrs (fun i hi => by
    intro hm
    simp only [List.mem_singleton] at hm
    exact h (hm ▸ hi))]

/-- a WSDL request starts with `wsdl` (any case), and that is the whole query or `=` follows -/
theorem isWsdl_firstName (F : Facts03) (hF : F.wsdlRule = .firstName) (qs : Text) (h : isWsdl F qs = true) :
    ∃ w rest, qs = w ++ rest ∧ w.map asciiLower = "wsdl".toList ∧ (rest = [] ∨ ∃ r, rest = '=' :: r) := by
  simp only [isWsdl, hF, decide_eq_true_eq] at h
  refine ⟨qs.takeWhile (fun c => c ≠ '='), qs.dropWhile (fun c => c ≠ '='), (List.takeWhile_append_dropWhile).symm, h, ?_⟩
  cases hd : qs.dropWhile (fun c => c ≠ '=') with
  | nil => exact Or.inl rfl
  | cons c r =>
    right
    have hc : c = '=' := by
      have : ∀ (l : Text), l.dropWhile (fun c => c ≠ '=') = c :: r → c = '=' := by
        intro l
        induction l with
        | nil => intro h0; simp at h0
        | cons a t ih =>
          intro h0
          simp only [List.dropWhile_cons] at h0
          split at h0
          · exact ih h0
          · rename_i hne
            simp only [List.cons.injEq] at h0
            rw [← h0.1]
            simpa using hne
      exact this qs hd
    exact ⟨r, by rw [hc]⟩

/-! ## request headers -/

theorem setDoc_new (d : Doc) (k : Text) (v : List (Option Text)) (h : k ∉ d.map Prod.fst) :
    setDoc d k v = d ++ [(k, v)] := by
  induction d with
  | nil => rfl
  | cons a r ih =>
    obtain ⟨k', v'⟩ := a
    simp only [List.map_cons, List.mem_cons, not_or] at h
    simp only [setDoc, Ne.symm h.1, if_false, List.cons_append, ih h.2]

theorem httpHeaders_go (ps : List (Text × Text)) (acc : Doc)
    (hn : (ps.map (fun p => p.1.map asciiLower)).Nodup)
    (hd : ∀ p, p ∈ ps → p.1.map asciiLower ∉ acc.map Prod.fst) :
    (ps.map fun p => ("HTTP_".toList ++ p.1, p.2)).foldl (fun acc kv =>
      if "HTTP_".toList.isPrefixOf kv.1 then setDoc acc ((kv.1.drop 5).map asciiLower) [some kv.2] else acc) acc =
    acc ++ ps.map fun p => (p.1.map asciiLower, [some p.2]) := by
  induction ps generalizing acc with
  | nil => simp
  | cons p r ih =>
    simp only [List.map_cons, List.nodup_cons] at hn
    have hpre : "HTTP_".toList.isPrefixOf ("HTTP_".toList ++ p.1) = true := by
      simp [List.isPrefixOf]
    have hdrop : ("HTTP_".toList ++ p.1).drop 5 = p.1 := by simp
    simp only [List.map_cons, List.foldl_cons, hpre, if_true, hdrop]
    rw [setDoc_new acc _ _ (hd p List.mem_cons_self)]
    rw [ih _ hn.2]
    · simp
    · intro q hq
      simp only [List.map_append, List.map_cons, List.map_nil, List.mem_append, List.mem_singleton, not_or]
      refine ⟨hd q (List.mem_cons_of_mem _ hq), ?_⟩
      intro e
      exact hn.1 (List.mem_map.mpr ⟨q, hq, e⟩)

/-- the request headers `HTTP_<NAME>: value` arrive as the flat document `<name> -> [value]`, names in lower case -/
theorem httpHeaders_pairs (ps : List (Text × Text)) (hn : (ps.map (fun p => p.1.map asciiLower)).Nodup) :
    httpHeaders (ps.map fun p => ("HTTP_".toList ++ p.1, p.2)) = ps.map fun p => (p.1.map asciiLower, [some p.2]) := by
  have := httpHeaders_go ps [] hn (fun _ _ => by simp)
  simpa [httpHeaders] using this

end SpyneModel.Flat
