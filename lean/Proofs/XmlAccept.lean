/-
  C05 (XML part), "only if": whatever document arrives, a value that `from_element` delivers under
  soft validation satisfies every declared constraint (nullability, facets, lexical space,
  occurrence counts), at every nesting depth.
-/
import Proofs.XmlSoft
import Proofs.XmlSound
namespace SpyneModel
namespace Xml

/-! ### declared types agree with the registry -/

mutual
  /-- an object type that names a registered class lists that class's members -/
  def tyCons (I : Iface) : Ty → Prop
    | .prim _ _ => True
    | .obj name _ _ fields _ =>
      (∀ c, Registry.find? I.classes name = some c → c.fields = fields) ∧ fieldsCons I fields
    | .arr _ elem _ => tyCons I elem

  def fieldsCons (I : Iface) : List (Text × Ty) → Prop
    | [] => True
    | (_, t) :: fs => tyCons I t ∧ fieldsCons I fs
end

def ifaceCons (I : Iface) : Prop := ∀ c ∈ I.classes, fieldsCons I c.fields

theorem fieldsCons_lookup {I : Iface} : (fields : List (Text × Ty)) → fieldsCons I fields →
    ∀ k t, lookupField fields k = some t → tyCons I t
  | [], _, k, t, h => by simp [lookupField, List.lookup] at h
  | (k0, t0) :: fs, hc, k, t, h => by
    simp only [fieldsCons] at hc
    simp only [lookupField, List.lookup] at h
    split at h
    · cases h; exact hc.1
    · exact fieldsCons_lookup fs hc.2 k t h

theorem wfFields_lookup : (fields : List (Text × Ty)) → wfFields fields = true →
    ∀ k t, lookupField fields k = some t → tyWf t = true
  | [], _, k, t, h => by simp [lookupField, List.lookup] at h
  | (k0, t0) :: fs, hw, k, t, h => by
    simp only [wfFields, Bool.and_eq_true] at hw
    simp only [lookupField, List.lookup] at h
    split at h
    · cases h; exact hw.1
    · exact wfFields_lookup fs hw.2 k t h

/-! ### leaves -/

theorem okOneX_prim_of_valueOk (I : Iface) (poly : Bool) (p : PrimTy) (o : Occ) (w : Val) (h : p.valueOk w = true) :
    okOneX I poly false (.prim p o) w = true := by
  cases p <;> cases w <;> simp_all [okOneX, leafOk, PrimTy.valueOk]

theorem leafSpec_ok {F : Facts08} {p : PrimTy} {s : Text} {w : Val} (h : leafSpec F p s = .ok w) :
    p.valueOk w = true := by
  unfold leafSpec at h
  split at h
  · split at h
    · cases h; assumption
    · cases h
  · cases h

theorem leaf_acc {F : Facts08} (L : LeafLaws F) {X : FactsXml} (hE : X.emptyStringText = true) (cfg : Cfg)
    (hs : cfg.soft = true) (I : Iface) (p : PrimTy) (o : Occ) (text : Option Text) (w : Val)
    (h : leafFromElement F X cfg p o text = .ok w) : okOneX I true false (.prim p o) w = true := by
  cases text with
  | some s =>
    rw [soft_leaf_exact L X cfg hs] at h
    exact okOneX_prim_of_valueOk I true p o w (leafSpec_ok h)
  | none =>
    rw [soft_leaf_empty L hE cfg hs] at h
    split at h
    · exact okOneX_prim_of_valueOk I true _ o w (leafSpec_ok h)
    · cases h
    · split at h
      · rename_i hn; cases h; simp only [okOneX, Ty.occ]; exact hn
      · cases h

/-! ### the instance state while the children are consumed -/

/-- what is known about member `k` after the children `pre` -/
def memberAcc (I : Iface) (pre : List Node) (k : Text) (t : Ty) (w : Val) : Prop :=
  if t.occ.repeated then
    (w = .none ∧ pre.countP (fun c => c.name = k) = 0) ∨
    (∃ l, w = .list l ∧ l.length = pre.countP (fun c => c.name = k) ∧ okItemsX I true false t l = true)
  else
    (pre.countP (fun c => c.name = k) = 0 ∧ w = .none) ∨
    (pre.countP (fun c => c.name = k) > 0 ∧ okOneX I true false t w = true)

def AccInv (I : Iface) (pre : List Node) : List (Text × Ty) → List (Text × Val) → Prop
  | [], [] => True
  | (k, t) :: fs, (k', w) :: st => k = k' ∧ memberAcc I pre k t w ∧ AccInv I pre fs st
  | _, _ => False

theorem accInv_init (I : Iface) : (fields : List (Text × Ty)) → AccInv I [] fields (initState fields)
  | [] => by simp [initState, AccInv]
  | (k, t) :: fs => by
    rw [initState_cons]
    refine ⟨rfl, ?_, accInv_init I fs⟩
    unfold memberAcc
    split <;> simp

theorem okItemsX_append {I : Iface} {p s : Bool} {t : Ty} (l : List Val) (v : Val)
    (hl : okItemsX I p s t l = true) (hv : okOneX I p s t v = true) : okItemsX I p s t (l ++ [v]) = true := by
  induction l with
  | nil => simp [okItemsX, hv]
  | cons a l ih =>
    simp only [okItemsX, Bool.and_eq_true] at hl
    simp [okItemsX, hl.1, ih hl.2]

theorem countP_snoc_ne (pre : List Node) (c : Node) (k : Text) (h : c.name ≠ k) :
    (pre ++ [c]).countP (fun c => c.name = k) = pre.countP (fun c => c.name = k) := by
  simp [List.countP_append, List.countP_cons, h]

theorem countP_snoc_eq (pre : List Node) (c : Node) (k : Text) (h : c.name = k) :
    (pre ++ [c]).countP (fun c => c.name = k) = pre.countP (fun c => c.name = k) + 1 := by
  simp [List.countP_append, List.countP_cons, h]

/-- a child that is no member leaves everything as it is -/
theorem accInv_skip {I : Iface} (pre : List Node) (c : Node) : (fields : List (Text × Ty)) → (st : List (Text × Val)) →
    (∀ f ∈ fields, f.1 ≠ c.name) → AccInv I pre fields st → AccInv I (pre ++ [c]) fields st
  | [], [], _, _ => by simp [AccInv]
  | [], _ :: _, _, h => by simp [AccInv] at h
  | _ :: _, [], _, h => by simp [AccInv] at h
  | (k, t) :: fs, (k', w) :: st, hne, h => by
    obtain ⟨hk, hm, hr⟩ := h
    refine ⟨hk, ?_, accInv_skip pre c fs st (fun f hf => hne f (List.mem_cons_of_mem _ hf)) hr⟩
    have hkc : c.name ≠ k := fun e => hne (k, t) List.mem_cons_self e.symm
    unfold memberAcc at hm ⊢
    rw [countP_snoc_ne pre c k hkc]
    exact hm

/-- a child that is member `kc`: its value replaces / extends what the instance holds for `kc` -/
theorem accInv_step {I : Iface} (pre : List Node) (c : Node) (mt : Ty) (v : Val)
    (hv : okOneX I true false mt v = true) :
    (fields : List (Text × Ty)) → (st : List (Text × Val)) → namesNodup fields = true →
    lookupField fields c.name = some mt → AccInv I pre fields st →
    AccInv I (pre ++ [c]) fields (if mt.occ.repeated then stAppend st c.name v else stSet st c.name v)
  | [], _, _, hl, _ => by simp [lookupField, List.lookup] at hl
  | _ :: _, [], _, _, h => by simp [AccInv] at h
  | (k, t) :: fs, (k', w) :: st, hnd, hl, h => by
    obtain ⟨hk, hm, hr⟩ := h
    subst hk
    obtain ⟨hknot, hnd'⟩ := namesNodup_cons hnd
    simp only [lookupField, List.lookup] at hl
    by_cases hkc : c.name = k
    · -- this member
      have hb : (c.name == k) = true := by simp [hkc]
      rw [hb] at hl
      cases hl
      have hrest : AccInv I (pre ++ [c]) fs st := by
        apply accInv_skip pre c fs st _ hr
        intro f hf e
        apply hknot
        simp only [fieldNames, List.mem_map]
        exact ⟨f, hf, by rw [e, hkc]⟩
      by_cases hrep : mt.occ.repeated = true
      · simp only [hrep, if_true]
        unfold memberAcc at hm
        simp only [hrep, if_true] at hm
        rcases hm with ⟨hw, hn⟩ | ⟨l, hw, hlen, hok⟩
        · subst hw
          have : stAppend ((k, Val.none) :: st) c.name v = (k, .list [v]) :: st := by
            simp [stAppend, stGet, List.lookup, hb, stSet, hkc]
          rw [this]
          refine ⟨rfl, ?_, hrest⟩
          unfold memberAcc
          simp only [hrep, if_true]
          right
          exact ⟨[v], rfl, by rw [countP_snoc_eq pre c k hkc, hn]; rfl, by simp [okItemsX, hv]⟩
        · subst hw
          have : stAppend ((k, Val.list l) :: st) c.name v = (k, .list (l ++ [v])) :: st := by
            simp [stAppend, stGet, List.lookup, hb, stSet, hkc]
          rw [this]
          refine ⟨rfl, ?_, hrest⟩
          unfold memberAcc
          simp only [hrep, if_true]
          right
          exact ⟨l ++ [v], rfl, by rw [countP_snoc_eq pre c k hkc, ← hlen]; simp, okItemsX_append l v hok hv⟩
      · simp only [hrep]
        have : stSet ((k, w) :: st) c.name v = (k, v) :: st := by simp [stSet, hkc]
        rw [if_neg (by simp), this]
        refine ⟨rfl, ?_, hrest⟩
        unfold memberAcc
        simp only [hrep]
        right
        exact ⟨by rw [countP_snoc_eq pre c k hkc]; omega, hv⟩
    · -- a later member
      have hb : (c.name == k) = false := by simp [hkc]
      rw [hb] at hl
      have hmem : memberAcc I (pre ++ [c]) k t w := by
        unfold memberAcc at hm ⊢
        rw [countP_snoc_ne pre c k hkc]; exact hm
      have hkc' : ¬ k = c.name := fun e => hkc e.symm
      have ih := accInv_step pre c mt v hv fs st hnd' hl hr
      by_cases hrep : mt.occ.repeated = true
      · simp only [hrep, if_true] at ih ⊢
        have : stAppend ((k, w) :: st) c.name v = (k, w) :: stAppend st c.name v := by
          unfold stAppend
          have hg : stGet ((k, w) :: st) c.name = stGet st c.name := by simp [stGet, List.lookup, hb]
          rw [hg]
          split <;> simp [stSet, hkc']
        rw [this]
        exact ⟨rfl, hmem, ih⟩
      · simp only [hrep] at ih ⊢
        rw [if_neg (by simp)] at ih ⊢
        have : stSet ((k, w) :: st) c.name v = (k, w) :: stSet st c.name v := by simp [stSet, hkc']
        rw [this]
        exact ⟨rfl, hmem, ih⟩

/-- with the occurrence counts checked, the instance conforms -/
theorem accInv_final {I : Iface} (children : List Node) : (fields : List (Text × Ty)) → (st : List (Text × Val)) →
    AccInv I children fields st → freqOk fields children = true → okFieldsX I true false fields st = true
  | [], [], _, _ => by simp [okFieldsX]
  | [], _ :: _, h, _ => by simp [AccInv] at h
  | _ :: _, [], h, _ => by simp [AccInv] at h
  | (k, t) :: fs, (k', w) :: st, h, hf => by
    obtain ⟨hk, hm, hr⟩ := h
    subst hk
    simp only [freqOk, List.all_cons, Bool.and_eq_true] at hf
    have ih := accInv_final children fs st hr (by simpa [freqOk] using hf.2)
    rw [okFieldsX_cons]
    simp only [decide_true, Bool.true_and, Bool.and_eq_true]
    refine ⟨?_, ih⟩
    have hcnt := hf.1
    unfold memberAcc at hm
    by_cases hrep : t.occ.repeated = true
    · simp only [hrep, if_true] at hm
      rcases hm with ⟨hw, hn⟩ | ⟨l, hw, hlen, hok⟩
      · subst hw
        rw [hn] at hcnt
        simp only [Occ.countOk, Bool.and_eq_true, decide_eq_true_eq] at hcnt
        simp only [fieldOk, Bool.or_eq_true, decide_eq_true_eq]
        left; omega
      · subst hw
        rw [← hlen] at hcnt
        simp [fieldOk, okX, hrep, hcnt, hok]
    · have hrep' : t.occ.repeated = false := by simpa using hrep
      simp only [hrep] at hm
      rw [if_neg (by simp)] at hm
      rcases hm with ⟨hn, hw⟩ | ⟨hn, hok⟩
      · subst hw
        rw [hn] at hcnt
        simp only [Occ.countOk, Bool.and_eq_true, decide_eq_true_eq] at hcnt
        simp only [fieldOk, Bool.or_eq_true, decide_eq_true_eq]
        left; omega
      · cases w with
        | none =>
          simp only [okOneX] at hok
          simp [fieldOk, hok, hrep']
        | _ =>
          simp only [fieldOk]
          rw [okX_nonrep hrep' (by simp)]
          exact hok

theorem lookupField_none_ne : (fields : List (Text × Ty)) → (k : Text) → lookupField fields k = none →
    ∀ f ∈ fields, f.1 ≠ k
  | [], _, _, f, hf => by cases hf
  | (k0, t0) :: fs, k, h, f, hf => by
    simp only [lookupField, List.lookup] at h
    split at h
    · cases h
    · rename_i hb
      cases hf with
      | head => intro e; simp only at e; subst e; simp at hb
      | tail _ hf' => exact lookupField_none_ne fs k h f hf'

/-! ### the theorem -/

structure AccCtx (F : Facts08) (X : FactsXml) (cfg : Cfg) (I : Iface) : Prop where
  L : LeafLaws F
  hE : X.emptyStringText = true
  hX : X.xsiTypeCheck = true
  hs : cfg.soft = true
  hI : ifaceWf I = true
  hC : ifaceCons I

theorem okOneX_obj_of_resolved {I : Iface} (hC : ifaceCons I) {t : Ty} (ht : tyCons I t) {cname cns : Text}
    {cb : Option Text} {fields : List (Text × Ty)} {o : Occ} (hr : ResolvedFrom I t (.obj cname cns cb fields o))
    (st : List (Text × Val)) (hst : okFieldsX I true false fields st = true) :
    okOneX I true false t (.obj cname st) = true := by
  rcases hr with h | ⟨dn, dns, db, dfs, docc, c, ht', hrt, hf, hs⟩
  · subst h; simp [okOneX, hst]
  · subst ht'
    simp only [ClassDef.toTy] at hrt
    injection hrt with h1 h2 h3 h4 h5
    subst h1; subst h4
    simp only [okOneX]
    by_cases hc : c.name = dn
    · simp only [hc, if_true]
      simp only [tyCons] at ht
      have := ht.1 c (by rw [← hc]; exact hf)
      rw [← this]; exact hst
    · simp [hc, hs, hf, hst]

theorem resolved_cons {I : Iface} (hI : ifaceWf I = true) (hC : ifaceCons I) {t rt : Ty} (ht : tyCons I t)
    (hr : ResolvedFrom I t rt) : tyCons I rt := by
  rcases hr with h | ⟨dn, dns, db, dfs, docc, c, ht', hrt, hf, hs⟩
  · subst h; exact ht
  · subst hrt
    obtain ⟨hcn, hcm⟩ := find?_name hf
    simp only [ClassDef.toTy, tyCons]
    refine ⟨?_, hC c hcm⟩
    intro c' hc'
    rw [hf] at hc'
    cases hc'; rfl

mutual
  /-- soft validation: a delivered value satisfies every declared constraint -/
  theorem fromElement_acc {F : Facts08} {X : FactsXml} {cfg : Cfg} {I : Iface} (C : AccCtx F X cfg I)
      (t : Ty) (ht : tyWf t = true) (hc : tyCons I t) :
      (x : Node) → (w : Val) → fromElement F X cfg I t x = .ok w → okOneX I true false t w = true
    | .elem ns name attrs text children, w, h => by
      unfold fromElement at h
      split at h
      · -- xsi:nil
        split at h
        · cases h
        · rename_i hn
          cases h
          simp only [C.hs, Bool.true_and, Bool.not_eq_true', Bool.not_eq_false] at hn
          simpa [okOneX] using hn
      · dsimp only at h
        generalize hrt : (if cfg.parseXsiType = true then
            (match List.lookup xsiTypeKey attrs with
             | none => some t
             | some key => resolveXsi X I t key) else some t) = rt at h
        have hres : ∀ rt', rt = some rt' → ResolvedFrom I t rt' := by
          intro rt' hrt'
          subst hrt'
          split at hrt
          · split at hrt
            · cases hrt; exact Or.inl rfl
            · exact resolveXsi_sound C.hX C.hI hrt
          · cases hrt; exact Or.inl rfl
        split at h
        · cases h
        · -- a leaf
          rename_i p o
          have hr := hres _ rfl
          rcases hr with h' | ⟨dn, dns, db, dfs, docc, c, ht', hrt', hf, hs⟩
          · subst h'; exact leaf_acc C.L C.hE cfg C.hs I p o text w h
          · simp [ClassDef.toTy] at hrt'
        · -- an object
          rename_i cname cns cb fields o
          have hr := hres _ rfl
          have hcr : tyCons I (.obj cname cns cb fields o) := resolved_cons C.hI C.hC hc hr
          have hwf : namesNodup fields = true ∧ wfFields fields = true := by
            rcases hr with h' | ⟨dn, dns, db, dfs, docc, c, ht', hrt', hf, hs⟩
            · subst h'
              simp only [tyWf, Bool.and_eq_true] at ht
              exact ⟨ht.1.1.1, ht.1.2⟩
            · simp only [ClassDef.toTy] at hrt'
              injection hrt' with h1 h2 h3 h4 h5
              subst h4
              obtain ⟨_, hcm⟩ := find?_name hf
              obtain ⟨a, _, b⟩ := ifaceWf_fields C.hI c hcm
              exact ⟨a, b⟩
          split at h
          · rename_i st hcl
            split at h
            · cases h
            · rename_i hfq
              cases h
              simp only [C.hs, Bool.true_and, Bool.not_eq_true', Bool.not_eq_false] at hfq
              simp only [tyCons] at hcr
              have hinv := childLoop_acc C fields hwf.1 hwf.2 hcr.2 children [] (initState fields) st
                (accInv_init I fields) hcl
              simp only [List.nil_append] at hinv
              exact okOneX_obj_of_resolved C.hC hc hr st (accInv_final children fields st hinv hfq)
          · cases h
          · cases h
        · -- a wrapped array
          rename_i member elem o
          have hr := hres _ rfl
          rcases hr with h' | ⟨dn, dns, db, dfs, docc, c, ht', hrt', hf, hs⟩
          · subst h'
            simp only [tyWf, Bool.and_eq_true] at ht
            simp only [tyCons] at hc
            split at h
            · rename_i vs hal
              cases h
              simpa [okOneX] using arrayLoop_acc C elem ht.1 hc children vs hal
            · cases h
            · cases h
          · simp [ClassDef.toTy] at hrt'

  theorem childLoop_acc {F : Facts08} {X : FactsXml} {cfg : Cfg} {I : Iface} (C : AccCtx F X cfg I)
      (fields : List (Text × Ty)) (hnd : namesNodup fields = true) (hwf : wfFields fields = true)
      (hc : fieldsCons I fields) :
      (cs : List Node) → (pre : List Node) → (st st' : List (Text × Val)) → AccInv I pre fields st →
      childLoop F X cfg I fields cs st = .ok st' → AccInv I (pre ++ cs) fields st'
    | [], pre, st, st', hinv, h => by
      simp only [childLoop] at h; cases h; simpa using hinv
    | c :: cs, pre, st, st', hinv, h => by
      unfold childLoop at h
      have happ : pre ++ c :: cs = (pre ++ [c]) ++ cs := by simp
      rw [happ]
      split at h
      · rename_i hl
        exact childLoop_acc C fields hnd hwf hc cs (pre ++ [c]) st st'
          (accInv_skip pre c fields st (lookupField_none_ne fields c.name hl) hinv) h
      · rename_i mt hl
        split at h
        · rename_i v hv
          have hmt : tyWf mt = true := wfFields_lookup fields hwf c.name mt hl
          have hv' := fromElement_acc C mt hmt (fieldsCons_lookup fields hc c.name mt hl) c v hv
          split at h
          · cases h
          · exact childLoop_acc C fields hnd hwf hc cs (pre ++ [c]) _ st'
              (accInv_step pre c mt v hv' fields st hnd hl hinv) h
        · cases h
        · cases h

  theorem arrayLoop_acc {F : Facts08} {X : FactsXml} {cfg : Cfg} {I : Iface} (C : AccCtx F X cfg I)
      (elem : Ty) (ht : tyWf elem = true) (hc : tyCons I elem) :
      (cs : List Node) → (vs : List Val) → arrayLoop F X cfg I elem cs = .ok vs →
      okItemsX I true false elem vs = true
    | [], vs, h => by
      simp only [arrayLoop] at h; cases h; simp [okItemsX]
    | c :: cs, vs, h => by
      unfold arrayLoop at h
      split at h
      · rename_i v hv
        split at h
        · rename_i ws hws
          cases h
          simp [okItemsX, fromElement_acc C elem ht hc c v hv, arrayLoop_acc C elem ht hc cs ws hws]
        · cases h
        · cases h
      · cases h
      · cases h
end

end Xml
end SpyneModel
