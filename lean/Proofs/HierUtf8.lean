/-
  UTF-8: `utf8Dec (utf8Enc t) = some t` for every text (every Unicode scalar value).
-/
import SpyneModel.Hier
namespace SpyneModel.Hier
open SpyneModel

theorem utf8Dec_encChar (c : Char) (rest : List Nat) :
    utf8Dec (utf8EncChar c ++ rest) = (utf8Dec rest).map (c :: ·) := by
  have hv := c.valid
  have hn : c.toNat = c.val.toNat := rfl
  unfold utf8EncChar
  simp only []
  by_cases h1 : c.toNat < 0x80
  · simp only [h1, if_true, List.singleton_append]
    rw [utf8Dec.eq_def]; simp only [h1, if_true, Char.ofNat_toNat]
  · by_cases h2 : c.toNat < 0x800
    · simp only [h1, h2, if_true, if_false, List.cons_append, List.nil_append]
      rw [utf8Dec.eq_def]
      have a1 : ¬ (0xC0 + c.toNat / 64 < 0x80) := by omega
      have a2 : ¬ (0xC0 + c.toNat / 64 < 0xC2) := by omega
      have a3 : 0xC0 + c.toNat / 64 < 0xE0 := by omega
      have a4 : isCont (0x80 + c.toNat % 64) = true := by simp [isCont]; omega
      have a5 : (0xC0 + c.toNat / 64 - 0xC0) * 64 + (0x80 + c.toNat % 64 - 0x80) = c.toNat := by omega
      simp only [a1, a2, a3, a4, a5, if_true, if_false, Char.ofNat_toNat]
    · by_cases h3 : c.toNat < 0x10000
      · simp only [h1, h2, h3, if_true, if_false, List.cons_append, List.nil_append]
        rw [utf8Dec.eq_def]
        have a1 : ¬ (0xE0 + c.toNat / 4096 < 0x80) := by omega
        have a2 : ¬ (0xE0 + c.toNat / 4096 < 0xC2) := by omega
        have a3 : ¬ (0xE0 + c.toNat / 4096 < 0xE0) := by omega
        have a3' : 0xE0 + c.toNat / 4096 < 0xF0 := by omega
        have a4 : isCont (0x80 + c.toNat / 64 % 64) = true := by simp [isCont]; omega
        have a4' : isCont (0x80 + c.toNat % 64) = true := by simp [isCont]; omega
        have a5 : (0xE0 + c.toNat / 4096 - 0xE0) * 4096 + (0x80 + c.toNat / 64 % 64 - 0x80) * 64 +
            (0x80 + c.toNat % 64 - 0x80) = c.toNat := by omega
        have a6 : 0x800 ≤ c.toNat := by omega
        have a7 : ¬ (0xD800 ≤ c.toNat ∧ c.toNat < 0xE000) := by
          rcases hv with h | ⟨h, _⟩
          · intro ⟨h', _⟩; rw [hn] at h'; omega
          · intro ⟨_, h'⟩; rw [hn] at h'; omega
        simp only [a1, a2, a3, a3', a4, a4', a5, a6, if_true, if_false, Char.ofNat_toNat, Bool.and_true,
          Bool.true_and, decide_true]
        have : (decide (0xD800 ≤ c.toNat) && decide (c.toNat < 0xE000)) = false := by
          simp only [Bool.and_eq_false_iff, decide_eq_false_iff_not]
          by_cases hh : 0xD800 ≤ c.toNat
          · right; intro h'; exact a7 ⟨hh, h'⟩
          · left; exact hh
        simp [this]
      · simp only [h1, h2, h3, if_false, List.cons_append, List.nil_append]
        have hmax : c.toNat < 0x110000 := by
          rcases hv with h | ⟨_, h⟩ <;> (rw [hn]; omega)
        rw [utf8Dec.eq_def]
        have a1 : ¬ (0xF0 + c.toNat / 262144 < 0x80) := by omega
        have a2 : ¬ (0xF0 + c.toNat / 262144 < 0xC2) := by omega
        have a3 : ¬ (0xF0 + c.toNat / 262144 < 0xE0) := by omega
        have a3' : ¬ (0xF0 + c.toNat / 262144 < 0xF0) := by omega
        have a3'' : 0xF0 + c.toNat / 262144 < 0xF5 := by omega
        have a4 : isCont (0x80 + c.toNat / 4096 % 64) = true := by simp [isCont]; omega
        have a4' : isCont (0x80 + c.toNat / 64 % 64) = true := by simp [isCont]; omega
        have a4'' : isCont (0x80 + c.toNat % 64) = true := by simp [isCont]; omega
        have a5 : (0xF0 + c.toNat / 262144 - 0xF0) * 262144 + (0x80 + c.toNat / 4096 % 64 - 0x80) * 4096 +
            (0x80 + c.toNat / 64 % 64 - 0x80) * 64 + (0x80 + c.toNat % 64 - 0x80) = c.toNat := by omega
        have a6 : 0x10000 ≤ c.toNat := by omega
        simp only [a1, a2, a3, a3', a3'', a4, a4', a4'', a5, a6, hmax, if_true, if_false, Char.ofNat_toNat,
          Bool.and_true, decide_true]

theorem utf8Dec_utf8Enc (t : Text) : utf8Dec (utf8Enc t) = some t := by
  induction t with
  | nil => simp [utf8Enc, utf8Dec]
  | cons c cs ih => simp [utf8Enc, utf8Dec_encChar, ih]

end SpyneModel.Hier
