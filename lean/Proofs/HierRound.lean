/-
  C02: what the dict-document decoder makes of the encoder's output (round trip), by structural induction over
  the type universe. General in `F`, `G`; uses the `LeafLaws` only.
-/
import Proofs.HierBasic
namespace SpyneModel.Hier
open SpyneModel

/-! ### the specification `conforms`, unfolded -/

theorem conformsItems_iff (t : Ty) (vs : List Val) :
    conformsItems t vs = true ↔ ∀ v ∈ vs, conformsOne t v = true := by
  induction vs with
  | nil => simp [conformsItems]
  | cons v vs ih => simp [conformsItems, ih]
theorem conformsArr_iff (t : Ty) (vs : List Val) :
    conformsArr t vs = true ↔ ∀ v ∈ vs, conformsOne t v = true := by
  induction vs with
  | nil => simp [conformsArr]
  | cons v vs ih => simp [conformsArr, ih]
theorem conformsOne_none (t : Ty) : conformsOne t .none = t.occ.nillable := by
  cases t <;> simp [conformsOne]
theorem conformsOne_prim (p o v) (hv : v ≠ .none) : conformsOne (.prim p o) v = p.valueOk v := by
  cases v <;> simp [conformsOne] at hv ⊢
theorem conformsOne_arr (m e o v) (hv : v ≠ .none) (h : conformsOne (.arr m e o) v = true) : ∃ vs, v = .list vs ∧ conformsArr e vs = true := by
  cases v <;> simp [conformsOne] at hv h ⊢
  exact h
theorem conformsOne_obj (n ns b fs o v) (hv : v ≠ .none) (h : conformsOne (.obj n ns b fs o) v = true) : ∃ fvs, v = .obj n fvs ∧ conformsFields fs fvs = true := by
  cases v <;> simp [conformsOne] at hv h ⊢
  exact ⟨_, ⟨h.1, rfl⟩, h.2⟩
theorem conforms_rep (t : Ty) (v : Val) (hr : t.occ.repeated = true) (hv : v ≠ .none) (h : conforms t v = true) :
    ∃ vs, v = .list vs ∧ t.occ.countOk vs.length = true ∧ conformsItems t vs = true := by
  unfold conforms at h
  simp only [hr, if_true] at h
  cases v <;> simp at hv h ⊢
  exact h
theorem conforms_single (t : Ty) (v : Val) (hr : t.occ.repeated = false) : conforms t v = conformsOne t v := by
  unfold conforms; simp [hr]

/-! ### keys, nulls -/

variable {F : Facts08} (G : Facts02) (cfg : Cfg) (R : Registry)

theorem keyName_keyOut (n : Text) : keyName cfg (keyOut cfg n) = .good (some n) := by
  unfold keyOut
  cases hm : cfg.proto.isMsgpack <;> simp [keyName, hm, utf8Dec_utf8Enc]

theorem wrapperKey_keyOut (n : Text) : wrapperKey G (keyOut cfg n) = .good (some n) := by
  unfold keyOut
  cases hm : cfg.proto.isMsgpack <;> simp [wrapperKey, utf8Dec_utf8Enc]

theorem leafOut_not_null (p : PrimTy) (v : Val) (hv : p.valueOk v = true) :
    (leafOut F cfg p v).isNull = false := by
  cases p <;> cases v <;> (try (simp [PrimTy.valueOk] at hv; done))
  case bytes.bytes enc bs => cases enc <;> simp only [leafOut, leafToText, textOut] <;> (repeat' split) <;> simp [Doc.isNull]
  all_goals (simp only [leafOut, leafToText, textOut] <;> (repeat' split) <;> simp [Doc.isNull])

/-- a `null` for a nillable member is `None` -/
theorem decode_null (hG : G.GoodRT) (t : Ty) (hn : t.occ.nillable = true) :
    decode F G cfg R t .null = .good .none := by
  rw [decode_flat _ _ _ _ _ _ rfl]
  cases t with
  | prim p o =>
    simp only [Ty.occ] at hn
    simp only [flatOne, primIn]
    have hpre : preOk F G cfg p o .null = true := by
      unfold preOk
      cases p <;> cases cfg.proto <;> simp [Doc.isNull, hn, hG.jnull]
    simp [hpre, strOk, hn]
  | obj n ns b fs o => simp only [Ty.occ] at hn; simp [flatOne, nullComplex, hG.nul, hn]
  | arr m e o => simp only [Ty.occ] at hn; simp [flatOne, nullComplex, hG.nul, hn]


/-! ### the round trip, for any spelling the decoder understands -/

/-- side conditions on a leaf for MessagePack: integers that travel as text stay within the length guard;
    with `rd` the leaf kind is one MessagePackDocument reads back from `bin` -/
def mpLeaf (F : Facts08) (cfg : Cfg) (rd : Bool) (p : PrimTy) (v : Val) : Prop :=
  cfg.proto.isMsgpack = true → fitsV F v = true ∧ (rd = true → mpLeafOk p = true)

/-- hypotheses shared by the round-trip lemmas: what the decoder (configuration `cfg`) needs to know about the
    spelling `S` a document was written in -/
structure RtCtx (F : Facts08) (G : Facts02) (cfg : Cfg) (S : Spell) (rd : Bool) : Prop where
  hG : G.GoodRT
  hsc : S.consistent = true
  hiw : S.iw = cfg.ignoreWrappers
  hnw : ∀ n, S.nw n = cfg.notWrapped.contains n
  hkey : ∀ n, keyName cfg (S.kOut n) = .good (some n)
  hwkey : ∀ n, wrapperKey G (S.kOut n) = .good (some n)
  hleaf : ∀ p o v, p.valueOk v = true → mpLeaf F cfg rd p v → primIn F G cfg p o (S.lOut p v) = .good v
  hflat : ∀ p v, (S.lOut p v).isFlat = true
  hnn : ∀ p v, p.valueOk v = true → (S.lOut p v).isNull = false

variable {F : Facts08} {G : Facts02} {cfg : Cfg} {S : Spell} {rd : Bool} (R : Registry)

/-- writer and reader agree on which classes travel without a wrapper -/
theorem RtCtx.unwrapped_eq (C : RtCtx F G cfg S rd) (n : Text) : (S.iw || S.nw n) = cfg.unwrapped n := by
  simp [C.hiw, C.hnw, Cfg.unwrapped]

/-- side conditions on a value for MessagePack -/
def mpOk (F : Facts08) (cfg : Cfg) (rd : Bool) (t : Ty) (v : Val) : Prop :=
  cfg.proto.isMsgpack = true → fitsV F v = true ∧ (rd = true → mpReadable t = true)

/-- round trip of one occurrence -/
def RtOne (F : Facts08) (G : Facts02) (cfg : Cfg) (S : Spell) (R : Registry) (rd : Bool) (t : Ty) : Prop :=
  ∀ v, v ≠ .none → wfTy t = true → conformsOne t v = true → mpOk F cfg rd t v → plain S.cas t v = true →
    decode F G cfg R t (encOne R S t v) = .good v

theorem decodeItems_cons (t : Ty) (d : Doc) (ds : List Doc) :
    decodeItems F G cfg R t (d :: ds) =
      (decode F G cfg R t d).bind (fun v => (decodeItems F G cfg R t ds).bind (fun vs => .good (v :: vs))) := by
  simp [decodeItems]

theorem items_rt (C : RtCtx F G cfg S rd) (t : Ty) (hP : RtOne F G cfg S R rd t) (hwf : wfTy t = true)
    (hmp : cfg.proto.isMsgpack = true → rd = true → mpReadable t = true) :
    ∀ vs, (∀ v ∈ vs, conformsOne t v = true) → (cfg.proto.isMsgpack = true → fitsItems F vs = true) →
      plainItems S.cas t vs = true →
      decodeItems F G cfg R t (encodeItems S R t vs) = .good vs := by
  intro vs
  induction vs with
  | nil => intros; simp [decodeItems]
  | cons v vs ih =>
    intro hc hf hp
    have hc1 := hc v (by simp)
    have hcr : ∀ w ∈ vs, conformsOne t w = true := fun w hw => hc w (by simp [hw])
    have hfr : cfg.proto.isMsgpack = true → fitsItems F vs = true := fun hm => by
      have := hf hm; simp [fitsItems] at this; exact this.2
    rw [encodeItems_cons, decodeItems_cons]
    by_cases hv : v = .none
    · subst hv
      have hp' : isObjTy t = false ∧ plainItems S.cas t vs = true := by simpa [plainItems] using hp
      have hn : t.occ.nillable = true := by rw [conformsOne_none] at hc1; exact hc1
      have : encOne R S t .none = .null := by
        have hno := hp'.1
        cases t <;> simp [encOne, isObjTy] at hno ⊢
      rw [this, decode_null G cfg R C.hG t hn, ih hcr hfr hp'.2]; simp
    · have hp' : plain S.cas t v = true ∧ plainItems S.cas t vs = true := by
        cases v <;> first | exact absurd rfl hv | simpa [plainItems] using hp
      have hm : mpOk F cfg rd t v := fun hm => by
        have := hf hm; simp [fitsItems] at this; exact ⟨this.1, hmp hm⟩
      rw [hP v hv hwf hc1 hm hp'.1, ih hcr hfr hp'.2]; simp


/-- occurrences counted for a member holding `v` -/
def cnt (S : Spell) (t : Ty) (v : Val) : Nat :=
  match v with
  | .none => if emits S t .null then 1 else 0
  | .list vs => if t.occ.repeated then vs.length else 1
  | _ => 1

def finalSlots (S : Spell) : Fields → List (Text × Val) → Acc
  | (n, t) :: fs, (_, v) :: fvs => (n, v, cnt S t v) :: finalSlots S fs fvs
  | _, _ => []

def kvsOf (S : Spell) (pairs : List (Text × Doc)) : List (Key × Doc) := pairs.map (fun p => (S.kOut p.1, p.2))

theorem conformsFields_cons {n : Text} {t : Ty} {fs : Fields} {fvs : List (Text × Val)}
    (h : conformsFields ((n, t) :: fs) fvs = true) :
    ∃ v fvs', fvs = (n, v) :: fvs' ∧
      (match v with
       | .none => decide (t.occ.minOccurs = 0) || (t.occ.nillable && !t.occ.repeated)
       | v => conforms t v) = true ∧ conformsFields fs fvs' = true := by
  cases fvs with
  | nil => rw [conformsFields.eq_def] at h; simp at h
  | cons mv fvs' =>
    obtain ⟨m, v⟩ := mv
    rw [conformsFields.eq_def] at h
    simp only [Bool.and_eq_true, decide_eq_true_eq] at h
    obtain ⟨⟨rfl, h2⟩, h3⟩ := h
    exact ⟨v, fvs', rfl, h2, h3⟩

/-- the encoding of a present value is never `null` -/
theorem encode_not_null (C : RtCtx F G cfg S rd) (t : Ty) (v : Val) (hv : v ≠ .none) (hwf : wfTy t = true)
    (hc : conforms t v = true) :
    (encodeS S R t v).isNull = false := by
  cases hr : t.occ.repeated
  · rw [conforms_single t v hr] at hc
    cases t with
    | prim p o =>
      rw [conformsOne_prim p o v hv] at hc
      have := C.hnn p v hc
      cases v <;> first | exact absurd rfl hv | (simp [PrimTy.valueOk] at hc; done) | simpa [encodeS] using this
    | obj n ns b fs o =>
      obtain ⟨fvs, rfl, _⟩ := conformsOne_obj n ns b fs o v hv hc
      simp only [encodeS, wrapPairs]
      cases S.cas <;> simp only [] <;> (try split) <;> simp [Doc.isNull]
    | arr m e o =>
      obtain ⟨vs, rfl, _⟩ := conformsOne_arr m e o v hv hc
      simp [encodeS, Doc.isNull]
  · obtain ⟨vs, rfl, _, _⟩ := conforms_rep t v hr hv hc
    cases t with
    | arr m e o => simp [encodeS, Doc.isNull]
    | prim p o => simp [encodeS, hr, Doc.isNull]
    | obj n ns b fs o => simp [encodeS, hr, Doc.isNull]


theorem decodeKvs_single (C : RtCtx F G cfg S rd) (all : Fields) (n : Text) (t : Ty) (d : Doc) (rest : List (Key × Doc)) (a : Acc)
    (hl : lookupField all n = some t) (hr : t.occ.repeated = false) :
    decodeKvs F G cfg R all ((S.kOut n, d) :: rest) a =
      ((decode F G cfg R t d).bind (fun x => .good (a.put G n x))).bind
        (fun a' => decodeKvs F G cfg R all rest a') := by
  rw [decodeKvs, C.hkey, Res.good_bind]
  simp only [hl, hr]
  rfl

theorem decodeKvs_list (C : RtCtx F G cfg S rd) (all : Fields) (n : Text) (t : Ty) (ds : List Doc) (rest : List (Key × Doc)) (a : Acc)
    (hl : lookupField all n = some t) (hr : t.occ.repeated = true) :
    decodeKvs F G cfg R all ((S.kOut n, .list ds) :: rest) a =
      ((decodeItems F G cfg R t ds).bind (fun vs => .good (a.putItems G n vs))).bind
        (fun a' => decodeKvs F G cfg R all rest a') := by
  rw [decodeKvs, C.hkey, Res.good_bind]
  simp only [hl, hr]
  rfl

theorem append_cons_assoc {α} (pre : List α) (x : α) (ys : List α) : pre ++ x :: ys = (pre ++ [x]) ++ ys := by simp

theorem kvs_rt (C : RtCtx F G cfg S rd) (hd : S.cas = .dict) :
    ∀ (fs : Fields) (all preF : Fields) (fvs : List (Text × Val)) (pre : Acc),
      (∀ nt ∈ fs, RtOne F G cfg S R rd nt.2) →
      all = preF ++ fs → namesDistinct (all.map (·.1)) = true → slotNames pre = preF.map (·.1) →
      wfFields fs = true → conformsFields fs fvs = true →
      (cfg.proto.isMsgpack = true → fitsFields F fvs = true ∧ (rd = true → mpReadableFields fs = true)) →
      plainFields S.cas fs fvs = true →
      decodeKvs F G cfg R all (kvsOf S (encodeFields S R fs fvs)) (pre ++ initAcc fs)
        = .good (pre ++ finalSlots S fs fvs) := by
  intro fs
  induction fs with
  | nil =>
    intro all preF fvs pre _ _ _ _ _ _ _ _
    simp [encodeFields, kvsOf, decodeKvs, initAcc, finalSlots]
  | cons nt fs ih =>
    obtain ⟨n, t⟩ := nt
    intro all preF fvs pre hP hall hnd hsl hwf hc hmp hpl
    obtain ⟨v, fvs', rfl, hcv, hcr⟩ := conformsFields_cons hc
    have hwf' : wfTy t = true ∧ wfFields fs = true := by simpa [wfFields] using hwf
    have hPt : RtOne F G cfg S R rd t := hP (n, t) (by simp)
    have hPr : ∀ nt ∈ fs, RtOne F G cfg S R rd nt.2 := fun nt h => hP nt (by simp [h])
    have hmpr : cfg.proto.isMsgpack = true → fitsFields F fvs' = true ∧ (rd = true → mpReadableFields fs = true) := fun hm => by
      have := hmp hm; simp [fitsFields, mpReadableFields] at this; exact ⟨this.1.2, fun h => (this.2 h).2⟩
    have hmpt : cfg.proto.isMsgpack = true → fitsV F v = true ∧ (rd = true → mpReadable t = true) := fun hm => by
      have := hmp hm; simp [fitsFields, mpReadableFields] at this; exact ⟨this.1.1, fun h => (this.2 h).1⟩
    -- names
    have hnn : n ∉ preF.map (·.1) := by
      subst hall
      have := namesDistinct_append_cons (preF.map (·.1)) n (fs.map (·.1)) (by simpa using hnd)
      exact this.1
    have hlook : lookupField all n = some t := by subst hall; exact lookupField_at preF n t fs hnn
    have hnsl : n ∉ slotNames pre := by rw [hsl]; exact hnn
    have hall' : all = (preF ++ [(n, t)]) ++ fs := by simp [hall]
    -- the continuation on the remaining members
    have step : ∀ (x : Val) (c : Nat),
        plainFields S.cas fs fvs' = true →
        decodeKvs F G cfg R all (kvsOf S (encodeFields S R fs fvs')) (pre ++ (n, x, c) :: initAcc fs)
          = .good (pre ++ (n, x, c) :: finalSlots S fs fvs') := by
      intro x c hplr
      rw [append_cons_assoc pre (n, x, c) (initAcc fs), append_cons_assoc pre (n, x, c) (finalSlots S fs fvs')]
      exact ih all (preF ++ [(n, t)]) fvs' (pre ++ [(n, x, c)]) hPr hall' hnd (by simp [slotNames, ← hsl]) hwf'.2 hcr hmpr hplr
    simp only [initAcc, List.map_cons] at *
    by_cases hv : v = .none
    · subst hv
      have hplr : plainFields S.cas fs fvs' = true := by
        have := hpl; simp [plainFields] at this; exact this.2
      have hd0 : encodeS S R t .none = .null := by simp [encodeS]
      by_cases hmin : t.occ.minOccurs = 0
      · have hem : emits S t .null = false := by simp [emits, Doc.isNull, hmin, hd]
        simp only [encodeFields, hd0, hem, Bool.false_eq_true, if_false, List.nil_append, finalSlots, cnt]
        exact step .none 0 hplr
      · have hem : emits S t .null = true := by simp [emits, Doc.isNull, hd]; omega
        have hnr : t.occ.nillable = true ∧ t.occ.repeated = false := by
          simp [hmin] at hcv; exact hcv
        simp only [encodeFields, hd0, hem, if_true, List.singleton_append, finalSlots, cnt, kvsOf, List.map_cons]
        rw [decodeKvs_single R C all n t .null _ _ hlook hnr.2]
        simp only [decode_null G cfg R C.hG t hnr.1, Res.good_bind, Acc.put]
        rw [putSlot_at pre n .none 0 _ _ _ hnsl]
        simp only [occInc, C.hG.occ, Nat.zero_add]
        exact step .none 1 hplr
    · have hcv' : conforms t v = true := by
        cases v <;> first | exact absurd rfl hv | exact hcv
      have hplv : plain S.cas t v = true ∧ plainFields S.cas fs fvs' = true := by
        cases v <;> first | exact absurd rfl hv | simpa [plainFields] using hpl
      have hnn' := encode_not_null R C t v hv hwf'.1 hcv'
      have hem : emits S t (encodeS S R t v) = true := by simp [emits, hnn']
      simp only [encodeFields, hem, if_true, List.singleton_append, finalSlots, kvsOf, List.map_cons]
      cases hr : t.occ.repeated
      · -- single occurrence
        rw [conforms_single t v hr] at hcv'
        have hshape : ∀ vs, v = .list vs → ∃ m e o, t = .arr m e o := by
          intro vs hvs; subst hvs
          cases t with
          | prim p o => simp [conformsOne, PrimTy.valueOk] at hcv'
          | obj a b c d e => simp [conformsOne] at hcv'
          | arr m e o => exact ⟨m, e, o, rfl⟩
        rw [decodeKvs_single R C all n t _ _ _ hlook hr, encode_eq_encOne R S t v hv hshape,
          hPt v hv hwf'.1 hcv' hmpt hplv.1]
        simp only [Res.good_bind, Acc.put]
        rw [putSlot_at pre n .none 0 _ _ _ hnsl]
        have hc1 : cnt S t v = 1 := by
          cases v <;> simp [cnt, hr] at hv ⊢
        simp only [occInc, C.hG.occ, Nat.zero_add, hc1]
        exact step v 1 hplv.2
      · -- repeated member: a list of occurrences
        obtain ⟨vs, rfl, hcount, hci⟩ := conforms_rep t v hr hv hcv'
        have hna : ∀ m e o, t ≠ .arr m e o := by
          intro m e o h; subst h
          simp [wfTy] at hwf'
          simp [Ty.occ, Occ.repeated, hwf'.1.1.1.1.1] at hr
        have henc : encodeS S R t (.list vs) = .list (encodeItems S R t vs) := by
          cases t with
          | arr m e o => exact absurd rfl (hna m e o)
          | prim p o => simp [encodeS, hr]
          | obj a b c d e => simp [encodeS, hr]
        have hit : itemTy t = t := by
          cases t with
          | arr m e o => exact absurd rfl (hna m e o)
          | _ => rfl
        have hpi : plainItems S.cas t vs = true := by
          have := hplv.1; simp only [plain, hit] at this; exact this
        have hitems := items_rt R C t hPt hwf'.1 (fun hm => (hmpt hm).2) vs ((conformsItems_iff t vs).1 hci)
          (fun hm => by have := (hmpt hm).1; simpa [fitsV] using this) hpi
        rw [henc, decodeKvs_list R C all n t _ _ _ hlook hr, hitems]
        simp only [Res.good_bind, Acc.putItems]
        rw [putSlot_at pre n .none 0 _ _ _ hnsl]
        simp only [occInc, C.hG.occ, Nat.zero_add, oldItems, List.nil_append, cnt, hr, if_true]
        exact step (.list vs) vs.length hplv.2


theorem decodePos_single (all fs : Fields) (n : Text) (t : Ty) (d : Doc) (rest : List Doc) (a : Acc)
    (hr : t.occ.repeated = false) :
    decodePos F G cfg R all ((n, t) :: fs) (d :: rest) a =
      ((decode F G cfg R t d).bind (fun x => .good (a.put G n x))).bind
        (fun a' => decodePos F G cfg R all fs rest a') := by
  rw [decodePos.eq_def]
  simp only [hr]
  rfl

theorem decodePos_list (all fs : Fields) (n : Text) (t : Ty) (ds : List Doc) (rest : List Doc) (a : Acc)
    (hr : t.occ.repeated = true) :
    decodePos F G cfg R all ((n, t) :: fs) (.list ds :: rest) a =
      ((decodeItems F G cfg R t ds).bind (fun vs => .good (a.putItems G n vs))).bind
        (fun a' => decodePos F G cfg R all fs rest a') := by
  rw [decodePos.eq_def]
  simp only [hr]
  rfl

theorem pos_rt (C : RtCtx F G cfg S rd) (hlm : S.cas = .list) :
    ∀ (fs : Fields) (all : Fields) (preN : List Text) (fvs : List (Text × Val)) (pre : Acc),
      (∀ nt ∈ fs, RtOne F G cfg S R rd nt.2) →
      namesDistinct (preN ++ fs.map (·.1)) = true → slotNames pre = preN →
      wfFields fs = true → conformsFields fs fvs = true →
      (cfg.proto.isMsgpack = true → fitsFields F fvs = true ∧ (rd = true → mpReadableFields fs = true)) →
      plainFields S.cas fs fvs = true →
      decodePos F G cfg R all fs ((encodeFields S R fs fvs).map (·.2)) (pre ++ initAcc fs)
        = .good (pre ++ finalSlots S fs fvs) := by
  intro fs
  induction fs with
  | nil =>
    intro all preN fvs pre _ _ _ _ _ _ _
    simp [encodeFields, decodePos, initAcc, finalSlots]
  | cons nt fs ih =>
    obtain ⟨n, t⟩ := nt
    intro all preN fvs pre hP hnd hsl hwf hc hmp hpl
    obtain ⟨v, fvs', rfl, hcv, hcr⟩ := conformsFields_cons hc
    have hwf' : wfTy t = true ∧ wfFields fs = true := by simpa [wfFields] using hwf
    have hPt : RtOne F G cfg S R rd t := hP (n, t) (by simp)
    have hPr : ∀ nt ∈ fs, RtOne F G cfg S R rd nt.2 := fun nt h => hP nt (by simp [h])
    have hmpr : cfg.proto.isMsgpack = true → fitsFields F fvs' = true ∧ (rd = true → mpReadableFields fs = true) := fun hm => by
      have := hmp hm; simp [fitsFields, mpReadableFields] at this; exact ⟨this.1.2, fun h => (this.2 h).2⟩
    have hmpt : cfg.proto.isMsgpack = true → fitsV F v = true ∧ (rd = true → mpReadable t = true) := fun hm => by
      have := hmp hm; simp [fitsFields, mpReadableFields] at this; exact ⟨this.1.1, fun h => (this.2 h).1⟩
    have hnn : n ∉ preN := (namesDistinct_append_cons preN n (fs.map (·.1)) (by simpa using hnd)).1
    have hnsl : n ∉ slotNames pre := by rw [hsl]; exact hnn
    have hv : v ≠ .none := by
      intro h; subst h; simp [plainFields, hlm] at hpl
    have hcv' : conforms t v = true := by
      cases v <;> first | exact absurd rfl hv | exact hcv
    have hplv : plain S.cas t v = true ∧ plainFields S.cas fs fvs' = true := by
      cases v <;> first | exact absurd rfl hv | simpa [plainFields] using hpl
    have step : ∀ (x : Val) (c : Nat),
        decodePos F G cfg R all fs ((encodeFields S R fs fvs').map (·.2)) (pre ++ (n, x, c) :: initAcc fs)
          = .good (pre ++ (n, x, c) :: finalSlots S fs fvs') := by
      intro x c
      rw [append_cons_assoc pre (n, x, c) (initAcc fs), append_cons_assoc pre (n, x, c) (finalSlots S fs fvs')]
      exact ih all (preN ++ [n]) fvs' (pre ++ [(n, x, c)]) hPr (by simpa using hnd) (by simp [slotNames, ← hsl])
        hwf'.2 hcr hmpr hplv.2
    have hem : emits S t (encodeS S R t v) = true := by simp [emits, hlm]
    simp only [initAcc, List.map_cons] at *
    simp only [encodeFields, hem, if_true, List.singleton_append, finalSlots, List.map_cons]
    cases hr : t.occ.repeated
    · rw [conforms_single t v hr] at hcv'
      have hshape : ∀ vs, v = .list vs → ∃ m e o, t = .arr m e o := by
        intro vs hvs; subst hvs
        cases t with
        | prim p o => simp [conformsOne, PrimTy.valueOk] at hcv'
        | obj a b c d e => simp [conformsOne] at hcv'
        | arr m e o => exact ⟨m, e, o, rfl⟩
      rw [decodePos_single R all fs n t _ _ _ hr, encode_eq_encOne R S t v hv hshape,
        hPt v hv hwf'.1 hcv' hmpt hplv.1]
      simp only [Res.good_bind, Acc.put]
      rw [putSlot_at pre n .none 0 _ _ _ hnsl]
      have hc1 : cnt S t v = 1 := by
        cases v <;> simp [cnt, hr] at hv ⊢
      simp only [occInc, C.hG.occ, Nat.zero_add, hc1]
      exact step v 1
    · obtain ⟨vs, rfl, hcount, hci⟩ := conforms_rep t v hr hv hcv'
      have hna : ∀ m e o, t ≠ .arr m e o := by
        intro m e o h; subst h
        simp [wfTy] at hwf'
        simp [Ty.occ, Occ.repeated, hwf'.1.1.1.1.1] at hr
      have henc : encodeS S R t (.list vs) = .list (encodeItems S R t vs) := by
        cases t with
        | arr m e o => exact absurd rfl (hna m e o)
        | prim p o => simp [encodeS, hr]
        | obj a b c d e => simp [encodeS, hr]
      have hit : itemTy t = t := by
        cases t with
        | arr m e o => exact absurd rfl (hna m e o)
        | _ => rfl
      have hpi : plainItems S.cas t vs = true := by
        have := hplv.1; simp only [plain, hit] at this; exact this
      have hitems := items_rt R C t hPt hwf'.1 (fun hm => (hmpt hm).2) vs ((conformsItems_iff t vs).1 hci)
        (fun hm => by have := (hmpt hm).1; simpa [fitsV] using this) hpi
      rw [henc, decodePos_list R all fs n t _ _ _ hr, hitems]
      simp only [Res.good_bind, Acc.putItems]
      rw [putSlot_at pre n .none 0 _ _ _ hnsl]
      simp only [occInc, C.hG.occ, Nat.zero_add, oldItems, List.nil_append, cnt, hr, if_true]
      exact step (.list vs) vs.length


theorem finalSlots_vals (S : Spell) : ∀ (fs : Fields) (fvs : List (Text × Val)), conformsFields fs fvs = true →
    (finalSlots S fs fvs).map (fun s => (s.1, s.2.1)) = fvs := by
  intro fs
  induction fs with
  | nil =>
    intro fvs h
    cases fvs with
    | nil => simp [finalSlots]
    | cons a b => rw [conformsFields.eq_def] at h; simp at h
  | cons nt fs ih =>
    obtain ⟨n, t⟩ := nt
    intro fvs h
    obtain ⟨v, fvs', rfl, _, hcr⟩ := conformsFields_cons h
    simp [finalSlots, ih fvs' hcr]

theorem single_bounds (o : Occ) (hw : occWf o = true) (hr : o.repeated = false) :
    o.minOccurs ≤ 1 ∧ ∀ m, o.maxOccurs = some m → 1 ≤ m := by
  unfold occWf at hw; unfold Occ.repeated at hr
  cases hm : o.maxOccurs with
  | none => simp [hm] at hr
  | some m => simp [hm] at hw hr ⊢; omega

theorem wfTy_occWf (t : Ty) (h : wfTy t = true) (hna : ∀ m e o, t ≠ .arr m e o) : occWf t.occ = true := by
  cases t with
  | prim p o => simpa [wfTy, Ty.occ] using h
  | obj a b c d e => simp [wfTy, Ty.occ] at h ⊢; exact h.1.1
  | arr m e o => exact absurd rfl (hna m e o)

theorem cnt_bounds (S : Spell) (t : Ty) (v : Val) (hw : occWf t.occ = true)
    (hcv : (match v with
       | .none => decide (t.occ.minOccurs = 0) || (t.occ.nillable && !t.occ.repeated)
       | v => conforms t v) = true) :
    t.occ.minOccurs ≤ cnt S t v ∧ ∀ m, t.occ.maxOccurs = some m → cnt S t v ≤ m := by
  have one_ok : t.occ.repeated = false → t.occ.minOccurs ≤ 1 ∧ ∀ m, t.occ.maxOccurs = some m → 1 ≤ m :=
    fun hr => single_bounds t.occ hw hr
  by_cases hv : v = .none
  · subst hv
    simp only [cnt, emits, Doc.isNull, Bool.not_true, Bool.false_or]
    by_cases hmin : t.occ.minOccurs = 0
    · by_cases hl : S.cas = .list
      · simp only [hmin, hl, decide_true, Bool.or_true, if_true]
        refine ⟨by omega, ?_⟩
        intro m hm
        unfold occWf at hw
        simp [hm] at hw; omega
      · simp [hmin, hl]
    · have hnr : t.occ.nillable = true ∧ t.occ.repeated = false := by simpa [hmin] using hcv
      have hpos : decide (t.occ.minOccurs > 0) = true := by simp; omega
      simp only [hpos, Bool.true_or, if_true]
      exact one_ok hnr.2
  · have hcv' : conforms t v = true := by
      cases v <;> first | exact absurd rfl hv | exact hcv
    cases hr : t.occ.repeated
    · rw [conforms_single t v hr] at hcv'
      have hc1 : cnt S t v = 1 := by
        cases v <;> simp [cnt, hr] at hv ⊢
      rw [hc1]; exact one_ok hr
    · obtain ⟨vs, rfl, hcount, _⟩ := conforms_rep t v hr hv hcv'
      simp only [cnt, hr, if_true]
      simp only [Occ.countOk, Bool.and_eq_true, decide_eq_true_eq] at hcount
      refine ⟨hcount.1, ?_⟩
      intro m hm
      simp [hm] at hcount; exact hcount.2

theorem checkFreq_final (S : Spell) : ∀ (fs : Fields) (fvs : List (Text × Val)),
    wfFields fs = true → conformsFields fs fvs = true → checkFreq fs (finalSlots S fs fvs) = true := by
  intro fs
  induction fs with
  | nil => intro fvs _ _; simp [checkFreq]
  | cons nt fs ih =>
    obtain ⟨n, t⟩ := nt
    intro fvs hwf h
    obtain ⟨v, fvs', rfl, hcv, hcr⟩ := conformsFields_cons h
    have hwf' : wfTy t = true ∧ wfFields fs = true := by simpa [wfFields] using hwf
    simp only [finalSlots, checkFreq, ih fvs' hwf'.2 hcr, Bool.and_true]
    cases t with
    | arr m e o =>
      have hw := hwf'.1
      simp only [wfTy, Bool.and_eq_true, decide_eq_true_eq] at hw
      simp [freqBounds, hw.1.1.1.1, hw.1.1.2, hw.1.2]
    | prim p o =>
      have hw : occWf o = true := wfTy_occWf _ hwf'.1 (by intros; simp)
      have := cnt_bounds S (.prim p o) v hw hcv
      simp only [freqBounds, Ty.occ] at this ⊢
      cases hmx : o.maxOccurs with
      | none => simp [this.1]
      | some m => simp [this.1, this.2 m hmx]
    | obj a b c d o =>
      have hw : occWf o = true := wfTy_occWf _ hwf'.1 (by intros; simp)
      have := cnt_bounds S (.obj a b c d o) v hw hcv
      simp only [freqBounds, Ty.occ] at this ⊢
      cases hmx : o.maxOccurs with
      | none => simp [this.1]
      | some m => simp [this.1, this.2 m hmx]


theorem finish_final (C : RtCtx F G cfg S rd) (name : Text) (fs : Fields) (fvs : List (Text × Val))
    (hwf : wfFields fs = true) (hc : conformsFields fs fvs = true) :
    finish cfg name fs (finalSlots S fs fvs) = .good (.obj name fvs) := by
  simp [finish, checkFreq_final S fs fvs hwf hc, finalSlots_vals S fs fvs hc]

theorem polyTarget_off (hp : S.poly = false) (name : Text) (fs : Fields) (c : Text) :
    polyTarget S R name fs c = (name, fs) := by simp [polyTarget, hp]

/-- an instance of exactly the declared class is written with the declared members, polymorphic or not -/
theorem polyTarget_self (name : Text) (fs : Fields) : polyTarget S R name fs name = (name, fs) := by
  simp [polyTarget]

mutual
  /-- C02 core: every conformant occurrence survives `_to_dict_value` followed by `_from_dict_value` -/
  theorem rt_ty (C : RtCtx F G cfg S rd) : ∀ (t : Ty), RtOne F G cfg S R rd t
    | .prim p o => by
      intro v hv hwf hc hmp hpl
      rw [conformsOne_prim p o v hv] at hc
      have henc : encOne R S (.prim p o) v = S.lOut p v := by
        cases v <;> first | exact absurd rfl hv | rfl | (simp [PrimTy.valueOk] at hc; done)
      rw [henc, decode_flat _ _ _ _ _ _ (C.hflat p v)]
      simp only [flatOne]
      exact C.hleaf p o v hc (fun hm => ⟨(hmp hm).1, fun h => by simpa [mpReadable] using (hmp hm).2 h⟩)
    | .arr m e o => by
      intro v hv hwf hc hmp hpl
      obtain ⟨vs, rfl, hca⟩ := conformsOne_arr m e o v hv hc
      have hwe : wfTy e = true := by simp [wfTy] at hwf; exact hwf.2
      have := items_rt R C e (rt_ty C e) hwe (fun hm h => by simpa [mpReadable] using (hmp hm).2 h) vs
        ((conformsArr_iff e vs).1 hca) (fun hm => by simpa [fitsV] using (hmp hm).1)
        (by simpa [plain, itemTy] using hpl)
      simp [encOne, decode, this]
    | .obj n ns b fields o => by
      intro v hv hwf hc hmp hpl
      obtain ⟨fvs, rfl, hcf⟩ := conformsOne_obj n ns b fields o v hv hc
      have hw : namesDistinct (fields.map (·.1)) = true ∧ wfFields fields = true := by
        simp [wfTy] at hwf; exact ⟨hwf.1.2, hwf.2⟩
      have hP := rt_fields C fields
      have hmpf : cfg.proto.isMsgpack = true → fitsFields F fvs = true ∧ (rd = true → mpReadableFields fields = true) :=
        fun hm => by have := hmp hm; simpa [fitsV, mpReadable] using this
      have hplf : plainFields S.cas fields fvs = true := by simpa [plain] using hpl
      simp only [encOne, polyTarget_self R]
      cases hca : S.cas
      · -- mappings
        have hk := kvs_rt R C hca fields fields [] fvs [] hP (by simp) (by simpa using hw.1) (by simp [slotNames]) hw.2 hcf hmpf hplf
        simp only [List.nil_append] at hk
        have hS := C.unwrapped_eq n
        cases hiw : cfg.unwrapped n
        · rw [hiw] at hS
          simp only [wrapPairs, hca, hS, Bool.false_eq_true, if_false]
          simp only [decode, hiw, Bool.false_eq_true, if_false, decodeWrapped, C.hwkey, Res.good_bind,
            resolveClass, if_true, decodeBody]
          have hk' : decodeKvs F G cfg R fields (List.map (fun p => (S.kOut p.fst, p.snd)) (encodeFields S R fields fvs))
              (initAcc fields) = Res.good (finalSlots S fields fvs) := hk
          rw [hk']; simp [finish_final C n fields fvs hw.2 hcf]
        · rw [hiw] at hS
          simp only [wrapPairs, hca, hS, if_true]
          simp only [decode, hiw, if_true]
          have hk' : decodeKvs F G cfg R fields (List.map (fun p => (S.kOut p.fst, p.snd)) (encodeFields S R fields fvs))
              (initAcc fields) = Res.good (finalSlots S fields fvs) := hk
          rw [hk']; simp [finish_final C n fields fvs hw.2 hcf]
      · -- positional lists (never wrapped)
        have hiw : cfg.ignoreWrappers = true := by
          have := C.hsc; rw [← C.hiw]; simpa [Spell.consistent, hca] using this
        have hk := pos_rt R C hca fields fields [] fvs [] hP (by simpa using hw.1) (by simp [slotNames]) hw.2 hcf hmpf hplf
        simp only [List.nil_append] at hk
        have hu : cfg.unwrapped n = true := by simp [Cfg.unwrapped, hiw]
        simp only [wrapPairs, hca, decode, hu, if_true]
        rw [hk]; simp [finish_final C n fields fvs hw.2 hcf]

  theorem rt_fields (C : RtCtx F G cfg S rd) : ∀ (fs : Fields), ∀ nt ∈ fs, RtOne F G cfg S R rd nt.2
    | [] => by intro nt h; cases h
    | (n, t) :: r => by
      intro nt h
      simp only [List.mem_cons] at h
      rcases h with rfl | h
      · exact rt_ty C t
      · exact rt_fields C r nt h
end

end SpyneModel.Hier
