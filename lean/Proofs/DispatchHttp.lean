/-
  Lemmas for the HTTP part of the C11 model (SpyneModel/DispatchHttp.lean):
  the descending sort, the first full match, independence of the collection order.
-/
import SpyneModel.DispatchHttp
import Proofs.Dispatch
namespace SpyneModel.Dispatch
open SpyneModel


theorem insertDesc_perm (p : Pat) (l : List Pat) : (insertDesc p l).Perm (p :: l) := by
  induction l with
  | nil => simp [insertDesc]
  | cons q qs ih =>
    simp only [insertDesc]
    split
    · exact List.Perm.refl _
    · exact (List.Perm.cons q ih).trans (List.Perm.swap p q qs)

theorem sortDesc_perm (l : List Pat) : (sortDesc l).Perm l := by
  induction l with
  | nil => simp [sortDesc]
  | cons p ps ih =>
    have : sortDesc (p :: ps) = insertDesc p (sortDesc ps) := rfl
    rw [this]
    exact (insertDesc_perm p _).trans (List.Perm.cons p ih)

/-- descending by address -/
def SortedDesc (l : List Pat) : Prop := l.Pairwise (fun a b => b.addr ≤ a.addr)

theorem insertDesc_sorted (p : Pat) (l : List Pat) (h : SortedDesc l) : SortedDesc (insertDesc p l) := by
  induction l with
  | nil => simp [insertDesc, SortedDesc]
  | cons q qs ih =>
    unfold SortedDesc at h ih ⊢
    rw [List.pairwise_cons] at h
    simp only [insertDesc]
    split
    · rename_i hle
      rw [List.pairwise_cons]
      refine ⟨?_, List.pairwise_cons.mpr h⟩
      intro x hx
      rcases List.mem_cons.mp hx with rfl | hx
      · exact hle
      · exact List.le_trans (h.1 x hx) hle
    · rename_i hle
      have hpq : p.addr ≤ q.addr := by
        rcases List.le_total q.addr p.addr with h1 | h1
        · exact absurd h1 hle
        · exact h1
      rw [List.pairwise_cons]
      refine ⟨?_, ih h.2⟩
      intro x hx
      have := (insertDesc_perm p qs).mem_iff.mp hx
      rcases List.mem_cons.mp this with rfl | hx
      · exact hpq
      · exact h.1 x hx

theorem sortDesc_sorted (l : List Pat) : SortedDesc (sortDesc l) := by
  induction l with
  | nil => simp [sortDesc, SortedDesc]
  | cons p ps ih => exact insertDesc_sorted p _ ih

/-- the chosen pattern matches the request completely and no matching pattern has a greater address -/
theorem choose_some {ps : List Pat} {verb path : Text} {p : Pat}
    (h : choosePattern ps verb path = some p) :
    p ∈ ps ∧ p.matches verb path = true ∧ ∀ q ∈ ps, q.matches verb path = true → q.addr ≤ p.addr := by
  unfold choosePattern at h
  have ⟨hm, l1, l2, hl, hno⟩ := List.find?_eq_some_iff_append.mp h
  have hs := sortDesc_sorted ps
  unfold SortedDesc at hs
  rw [hl, List.pairwise_append] at hs
  refine ⟨(sortDesc_perm ps).mem_iff.mp (by rw [hl]; simp), hm, ?_⟩
  intro q hq hqm
  have hq' : q ∈ l1 ++ p :: l2 := by rw [← hl]; exact (sortDesc_perm ps).mem_iff.mpr hq
  rcases List.mem_append.mp hq' with h1 | h1
  · have := hno q h1; simp [hqm] at this
  · rcases List.mem_cons.mp h1 with rfl | h2
    · exact List.le_refl _
    · exact (List.pairwise_cons.mp hs.2.1).1 q h2

theorem choose_none_iff {ps : List Pat} {verb path : Text} :
    choosePattern ps verb path = none ↔ ∀ p ∈ ps, p.matches verb path = false := by
  unfold choosePattern
  rw [List.find?_eq_none]
  constructor
  · intro h p hp; simpa using h p ((sortDesc_perm ps).mem_iff.mpr hp)
  · intro h p hp; simpa using h p ((sortDesc_perm ps).mem_iff.mp hp)

/-- which pattern is chosen does not depend on the order in which the patterns were collected,
    provided no two patterns that match the request share an address -/
theorem choose_perm {ps ps' : List Pat} (hp : ps.Perm ps') (verb path : Text)
    (hu : ∀ p ∈ ps, ∀ q ∈ ps, p.matches verb path = true → q.matches verb path = true →
      p.addr = q.addr → p = q) :
    choosePattern ps verb path = choosePattern ps' verb path := by
  cases h1 : choosePattern ps verb path with
  | none =>
    have := choose_none_iff.mp h1
    exact (choose_none_iff.mpr (fun p hp' => this p (hp.mem_iff.mpr hp'))).symm
  | some p =>
    cases h2 : choosePattern ps' verb path with
    | none =>
      have := choose_none_iff.mp h2 p (hp.mem_iff.mp (choose_some h1).1)
      rw [(choose_some h1).2.1] at this; cases this
    | some q =>
      have ⟨a1, a2, a3⟩ := choose_some h1
      have ⟨b1, b2, b3⟩ := choose_some h2
      have hq : q ∈ ps := hp.mem_iff.mpr b1
      have e : p.addr = q.addr := List.le_antisymm (b3 p (hp.mem_iff.mp a1) a2) (a3 q hq b2)
      rw [hu p a1 q hq a2 b2 e]

/-! ## address matching -/

theorem matchToks_lits (s rest : Text) : matchToks (lits s) (s ++ rest) = some rest := by
  induction s with
  | nil => simp [lits, matchToks]
  | cons c s ih => simp [lits, matchToks] at ih ⊢; exact ih

/-- a literal address matches exactly itself -/
theorem addrMatches_lits (s path : Text) : addrMatches (lits s) path = true ↔ path = s := by
  unfold addrMatches
  induction s generalizing path with
  | nil => cases path <;> simp [lits, matchToks]
  | cons c s ih =>
    cases path with
    | nil => simp [lits, matchToks]
    | cons x r =>
      simp only [lits, List.map_cons, matchToks]
      by_cases hx : x = c
      · subst hx; simp only [if_true]; have := ih r; simp only [lits] at this; rw [this]; simp
      · simp [hx]

theorem lastSegment_go (s acc : Text) (hs : '/' ∉ s) :
    List.foldl (fun acc c => if c = '/' then [] else acc ++ [c]) acc s = acc ++ s := by
  induction s generalizing acc with
  | nil => simp
  | cons c s ih =>
    simp at hs
    have hc : c ≠ '/' := fun e => hs.1 e.symm
    simp [hc, ih _ (fun h => hs.2 h)]

theorem lastSegment_append (p s : Text) (hs : '/' ∉ s) : lastSegment (p ++ '/' :: s) = s := by
  unfold lastSegment
  rw [List.foldl_append, List.foldl_cons]
  simp only [if_true]
  rw [lastSegment_go s [] hs]; simp


/-! ## from a pattern to what runs -/

theorem rset_keys (r : Routes) (k : Text) (v : List Method) :
    (rset r k v).map Prod.fst =
      if k ∈ r.map Prod.fst then r.map Prod.fst else r.map Prod.fst ++ [k] := by
  induction r with
  | nil => simp [rset]
  | cons kv r ih =>
    obtain ⟨k0, v0⟩ := kv
    simp only [rset]
    by_cases h : k0 = k
    · subst h; simp
    · have h' : ¬ k = k0 := fun e => h e.symm
      simp only [h, if_false, List.map_cons, ih, List.mem_cons, h', false_or]
      split <;> simp

theorem rset_nodup (r : Routes) (k : Text) (v : List Method) (h : (r.map Prod.fst).Nodup) :
    ((rset r k v).map Prod.fst).Nodup := by
  rw [rset_keys]
  split
  · exact h
  · rename_i hk
    rw [List.nodup_append]
    refine ⟨h, by simp, ?_⟩
    intro a ha b hb; simp at hb; subst hb; intro e; subst e; exact hk ha

theorem rget_of_mem (r : Routes) (h : (r.map Prod.fst).Nodup) (k : Text) (v : List Method)
    (hm : (k, v) ∈ r) : rget r k = v := by
  induction r with
  | nil => cases hm
  | cons kv r ih =>
    obtain ⟨k0, v0⟩ := kv
    simp only [List.map_cons, List.nodup_cons] at h
    simp only [rget]
    rcases List.mem_cons.mp hm with e | hm'
    · cases e; simp
    · have : k0 ≠ k := by
        intro e; subst e
        exact h.1 (List.mem_map.mpr ⟨(k0, v), hm', rfl⟩)
      simp [this, ih h.2 hm']

theorem processMethod_keys (F : Facts11) (tns : Text) (st st' : St) (m : Method)
    (h : (st.routes.map Prod.fst).Nodup) (hs : processMethod F tns st m = .ok st') :
    (st'.routes.map Prod.fst).Nodup := by
  unfold processMethod at hs
  by_cases hik : ifaceKey m ∈ st.ids
  · simp only [hik, if_true] at hs
    cases hd : F.ifaceDup <;> simp [hd] at hs <;> (subst hs; exact h)
  · simp only [hik, if_false] at hs
    cases hv : rget st.routes (routeKey tns m) with
    | nil => simp [hv] at hs; subst hs; exact rset_nodup _ _ _ h
    | cons v0 rest =>
      simp only [hv] at hs
      by_cases hma : m.aux = true
      · simp [hma] at hs; subst hs; exact rset_nodup _ _ _ h
      · simp only [hma] at hs
        by_cases hv0 : v0.aux = true
        · simp only [hv0, if_true] at hs
          cases ha : F.auxFirst <;> simp [ha] at hs
          subst hs; exact rset_nodup _ _ _ h
        · simp [hv0] at hs

theorem processAll_keys (F : Facts11) (tns : Text) (ms : List Method) : ∀ (st st' : St),
    (st.routes.map Prod.fst).Nodup → processAll F tns st ms = .ok st' → (st'.routes.map Prod.fst).Nodup := by
  induction ms with
  | nil => intro st st' h hs; simp [processAll] at hs; subst hs; exact h
  | cons m ms ih =>
    intro st st' h hs
    simp only [processAll] at hs
    cases hp : processMethod F tns st m with
    | error e => simp [hp] at hs
    | ok st1 =>
      simp [hp] at hs
      exact ih st1 st' (processMethod_keys F tns st st1 m h hp) hs

theorem build_keys_nodup (F : Facts11) (tns : Text) (ms : List Method) (r : Routes)
    (h : build F tns ms = .ok r) : (r.map Prod.fst).Nodup := by
  unfold build at h
  cases h1 : checkUnique [] ms with
  | error e => simp [h1] at h
  | ok u =>
    cases h2 : addClasses tns [] ms with
    | error e => simp [h1, h2] at h
    | ok s =>
      cases h3 : processAll F tns ⟨[], []⟩ ms with
      | error e => simp [h1, h2, h3] at h
      | ok st =>
        simp [h1, h2, h3] at h
        subst h
        exact processAll_keys F tns ms ⟨[], []⟩ st (by simp) h3

/-- every collected pattern belongs to the head of a route of the table -/
theorem mem_httpPatterns {r : Routes} {p : Pat} (h : p ∈ httpPatterns r) :
    ∃ k hd tl, (k, hd :: tl) ∈ r ∧ p.endpoint = hd.msgName ∧ p.efid = hd.fid := by
  unfold httpPatterns at h
  rw [List.mem_flatMap] at h
  obtain ⟨⟨k, v⟩, hkv, hp⟩ := h
  cases v with
  | nil => simp at hp
  | cons hd tl =>
    simp only [List.mem_map] at hp
    obtain ⟨va, _, e⟩ := hp
    exact ⟨k, hd, tl, hkv, by rw [← e], by rw [← e]⟩

/-- a request line that an HttpPattern answers runs the function the pattern was attached to first,
    followed by the other functions registered under that function's public name -/
theorem pattern_runs (F : Facts11) (hA : F.auxFirst = .insertFront) (hI : F.ifaceDup = .reject)
    (hQ : F.qualify = .unlessBrace) (hE : F.emptyIsNotFound = true)
    (tns : Text) (ms : List Method) (r : Routes) (hb : build F tns ms = .ok r)
    (hn : ∀ m ∈ ms, m.name.head? ≠ some '{') (hmsg : ∀ m ∈ ms, m.msgName = m.name) (verb path : Text) (p : Pat)
    (hc : choosePattern (httpPatterns r) verb path = some p) :
    httpRequest r verb path = .endpoint p.endpoint ∧
    ∃ hd tl, hd ∈ ms ∧ hd.fid = p.efid ∧ hd.name = p.endpoint ∧
      rget r (qname tns p.endpoint) = hd :: tl ∧
      serve F r tns (httpRequest r verb path) = .ran (p.efid :: tl.map (·.fid)) := by
  have hreq : httpRequest r verb path = .endpoint p.endpoint := by simp [httpRequest, hc]
  obtain ⟨k, hd, tl, hmem, he, hf⟩ := mem_httpPatterns (choose_some hc).1
  have hget := rget_of_mem r (build_keys_nodup F tns ms r hb) k (hd :: tl) hmem
  have hspec := build_routes F hA hI tns ms r hb k
  rw [hget] at hspec
  have hin : hd ∈ prims tns ms k ++ auxs tns ms k := by rw [← hspec]; simp
  have ⟨hdms, hk⟩ : hd ∈ ms ∧ routeKey tns hd = k := by
    rcases List.mem_append.mp hin with h | h
    · have := mem_prims.mp h; exact ⟨this.1, this.2.2⟩
    · have := mem_auxs.mp h; exact ⟨this.1, this.2.2⟩
  have he : p.endpoint = hd.name := by rw [he, hmsg hd hdms]
  have hkey : requestKey F tns (.endpoint p.endpoint) = k := by
    simp only [requestKey, requestString, qualify_good F hQ, he, hn hd hdms, if_false]
    exact hk
  refine ⟨hreq, hd, tl, hdms, hf.symm, he.symm, ?_, ?_⟩
  · rw [he]; show rget r (routeKey tns hd) = hd :: tl; rw [hk]; exact hget
  · rw [hreq, serve_eq F hE, hkey, hget]; simp [hf]



/-! ## WSDL request or RPC -/

theorem isPrefix_iff (a s : Text) : isPrefix a s = true ↔ ∃ t, s = a ++ t := by
  induction a generalizing s with
  | nil => simp [isPrefix]
  | cons x xs ih =>
    cases s with
    | nil => simp [isPrefix]
    | cons y ys =>
      simp only [isPrefix, Bool.and_eq_true, beq_iff_eq, ih, List.cons_append, List.cons.injEq]
      constructor
      · rintro ⟨rfl, t, rfl⟩; exact ⟨t, rfl, rfl⟩
      · rintro ⟨t, rfl, rfl⟩; exact ⟨rfl, t, rfl⟩

/-- `endsWith` is `str.endswith` -/
theorem endsWith_iff (s suf : Text) : endsWith s suf = true ↔ ∃ p, s = p ++ suf := by
  unfold endsWith
  rw [isPrefix_iff]
  constructor
  · rintro ⟨t, h⟩
    refine ⟨t.reverse, ?_⟩
    have := congrArg List.reverse h
    simpa using this
  · rintro ⟨p, rfl⟩
    exact ⟨p.reverse, by simp⟩

/-- the WSDL decision under the good facts, spelled out -/
theorem isWsdlRequest_good (F : Facts11) (hP : F.wsdlPath = .dotWsdlSuffix) (hQ : F.wsdlQuery = .firstName)
    (hG : F.wsdlGetOnly = true) (verb path query : Text) :
    isWsdlRequest F verb path query = true ↔
      verb.map asciiUpper = "GET".toList ∧
      ((qsFirstName query).map asciiLower = "wsdl".toList ∨ ∃ p, path = p ++ ".wsdl".toList) := by
  simp only [isWsdlRequest, hP, hQ, hG, if_true, Bool.and_eq_true, Bool.or_eq_true, beq_iff_eq, endsWith_iff]

theorem serveHttp_rpc (F : Facts11) (r : Routes) (tns verb path query : Text)
    (h : isWsdlRequest F verb path query = false) :
    serveHttp F r tns verb path query = serve F r tns (httpRequest r verb path) := by
  simp [serveHttp, h]

theorem serve_ne_wsdl (F : Facts11) (r : Routes) (tns : Text) (q : Request) : serve F r tns q ≠ .wsdl := by
  unfold serve
  split
  · split <;> simp
  · simp


end SpyneModel.Dispatch
