/-
  Lemmas for the HTTP part of the C11 model (SpyneModel/DispatchHttp.lean):
  the descending sort, the first full match, independence of the collection order.
-/
import SpyneModel.DispatchHttp
namespace SpyneModel.Dispatch
open SpyneModel


theorem insertDesc_perm (p : Pat) (l : List Pat) : (insertDesc p l).Perm (p :: l) := by
  induction l with
  | nil => simp [insertDesc]
  | cons q qs ih =>
    simp only [insertDesc]
    split
    · exact List.Perm.refl _
    · exact (List.Perm.cons q ih).trans (List.Perm.swap p q qs)

theorem sortDesc_perm (l : List Pat) : (sortDesc l).Perm l := by
  induction l with
  | nil => simp [sortDesc]
  | cons p ps ih =>
    have : sortDesc (p :: ps) = insertDesc p (sortDesc ps) := rfl
    rw [this]
    exact (insertDesc_perm p _).trans (List.Perm.cons p ih)

/-- descending by address -/
def SortedDesc (l : List Pat) : Prop := l.Pairwise (fun a b => b.addr ≤ a.addr)

theorem insertDesc_sorted (p : Pat) (l : List Pat) (h : SortedDesc l) : SortedDesc (insertDesc p l) := by
  induction l with
  | nil => simp [insertDesc, SortedDesc]
  | cons q qs ih =>
    unfold SortedDesc at h ih ⊢
    rw [List.pairwise_cons] at h
    simp only [insertDesc]
    split
    · rename_i hle
      rw [List.pairwise_cons]
      refine ⟨?_, List.pairwise_cons.mpr h⟩
      intro x hx
      rcases List.mem_cons.mp hx with rfl | hx
      · exact hle
      · exact List.le_trans (h.1 x hx) hle
    · rename_i hle
      have hpq : p.addr ≤ q.addr := by
        rcases List.le_total q.addr p.addr with h1 | h1
        · exact absurd h1 hle
        · exact h1
      rw [List.pairwise_cons]
      refine ⟨?_, ih h.2⟩
      intro x hx
      have := (insertDesc_perm p qs).mem_iff.mp hx
      rcases List.mem_cons.mp this with rfl | hx
      · exact hpq
      · exact h.1 x hx

theorem sortDesc_sorted (l : List Pat) : SortedDesc (sortDesc l) := by
  induction l with
  | nil => simp [sortDesc, SortedDesc]
  | cons p ps ih => exact insertDesc_sorted p _ ih

/-- the chosen pattern matches the request completely and no matching pattern has a greater address -/
theorem choose_some {ps : List Pat} {verb path : Text} {p : Pat}
    (h : choosePattern ps verb path = some p) :
    p ∈ ps ∧ p.matches verb path = true ∧ ∀ q ∈ ps, q.matches verb path = true → q.addr ≤ p.addr := by
  unfold choosePattern at h
  have ⟨hm, l1, l2, hl, hno⟩ := List.find?_eq_some_iff_append.mp h
  have hs := sortDesc_sorted ps
  unfold SortedDesc at hs
  rw [hl, List.pairwise_append] at hs
  refine ⟨(sortDesc_perm ps).mem_iff.mp (by rw [hl]; simp), hm, ?_⟩
  intro q hq hqm
  have hq' : q ∈ l1 ++ p :: l2 := by rw [← hl]; exact (sortDesc_perm ps).mem_iff.mpr hq
  rcases List.mem_append.mp hq' with h1 | h1
  · have := hno q h1; simp [hqm] at this
  · rcases List.mem_cons.mp h1 with rfl | h2
    · exact List.le_refl _
    · exact (List.pairwise_cons.mp hs.2.1).1 q h2

theorem choose_none_iff {ps : List Pat} {verb path : Text} :
    choosePattern ps verb path = none ↔ ∀ p ∈ ps, p.matches verb path = false := by
  unfold choosePattern
  rw [List.find?_eq_none]
  constructor
  · intro h p hp; simpa using h p ((sortDesc_perm ps).mem_iff.mpr hp)
  · intro h p hp; simpa using h p ((sortDesc_perm ps).mem_iff.mp hp)

/-- which pattern is chosen does not depend on the order in which the patterns were collected,
    provided no two patterns that match the request share an address -/
theorem choose_perm {ps ps' : List Pat} (hp : ps.Perm ps') (verb path : Text)
    (hu : ∀ p ∈ ps, ∀ q ∈ ps, p.matches verb path = true → q.matches verb path = true →
      p.addr = q.addr → p = q) :
    choosePattern ps verb path = choosePattern ps' verb path := by
  cases h1 : choosePattern ps verb path with
  | none =>
    have := choose_none_iff.mp h1
    exact (choose_none_iff.mpr (fun p hp' => this p (hp.mem_iff.mpr hp'))).symm
  | some p =>
    cases h2 : choosePattern ps' verb path with
    | none =>
      have := choose_none_iff.mp h2 p (hp.mem_iff.mp (choose_some h1).1)
      rw [(choose_some h1).2.1] at this; cases this
    | some q =>
      have ⟨a1, a2, a3⟩ := choose_some h1
      have ⟨b1, b2, b3⟩ := choose_some h2
      have hq : q ∈ ps := hp.mem_iff.mpr b1
      have e : p.addr = q.addr := List.le_antisymm (b3 p (hp.mem_iff.mp a1) a2) (a3 q hq b2)
      rw [hu p a1 q hq a2 b2 e]

/-! ## address matching -/

theorem matchToks_lits (s rest : Text) : matchToks (lits s) (s ++ rest) = some rest := by
  induction s with
  | nil => simp [lits, matchToks]
  | cons c s ih => simp [lits, matchToks] at ih ⊢; exact ih

/-- a literal address matches exactly itself -/
theorem addrMatches_lits (s path : Text) : addrMatches (lits s) path = true ↔ path = s := by
  unfold addrMatches
  induction s generalizing path with
  | nil => cases path <;> simp [lits, matchToks]
  | cons c s ih =>
    cases path with
    | nil => simp [lits, matchToks]
    | cons x r =>
      simp only [lits, List.map_cons, matchToks]
      by_cases hx : x = c
      · subst hx; simp only [if_true]; have := ih r; simp only [lits] at this; rw [this]; simp
      · simp [hx]

theorem lastSegment_go (s acc : Text) (hs : '/' ∉ s) :
    List.foldl (fun acc c => if c = '/' then [] else acc ++ [c]) acc s = acc ++ s := by
  induction s generalizing acc with
  | nil => simp
  | cons c s ih =>
    simp at hs
    have hc : c ≠ '/' := fun e => hs.1 e.symm
    simp [hc, ih _ (fun h => hs.2 h)]

theorem lastSegment_append (p s : Text) (hs : '/' ∉ s) : lastSegment (p ++ '/' :: s) = s := by
  unfold lastSegment
  rw [List.foldl_append, List.foldl_cons]
  simp only [if_true]
  rw [lastSegment_go s [] hs]; simp

end SpyneModel.Dispatch
