/-
  Lemmas about the request funnel (SpyneModel/Hostile.lean), general in the facts `F`.
  The side conditions are decidable shape predicates on the extracted handler lists / measured tables, so
  that Props/C10.lean discharges them by `decide` on the regenerated facts.
-/
import SpyneModel.Hostile
namespace SpyneModel.Hostile

/-! ### `except` matching -/

theorem catches_of_mem {h : Handler} {r : Raised} {c : Name} (hc : c ∈ h.classes) (hm : c ∈ r.mro) :
    h.catches r = true := by
  unfold Handler.catches
  rw [List.any_eq_true]
  exact ⟨c, hc, by simpa using hm⟩

theorem fault_ordinary (c : String) : "Exception" ∈ (Raised.fault c).mro := by
  simp [Raised.mro]

theorem unknownBody_ordinary : "Exception" ∈ (Raised.exc unknownBody).mro := by
  simp [Raised.mro, unknownBody]

/-- every handler of the statement is understood and answers (keep / wrap) -/
def answers (hs : List Handler) : Bool :=
  hs.all (fun h => match h.action with | .keep => true | .wrap _ => true | _ => false)

/-- the statement has a catch-all for ordinary exceptions -/
def catchAll (hs : List Handler) : Bool := hs.any (fun h => h.classes.contains "Exception")

/-- a `try` of the server that lets nothing ordinary through -/
def total (hs : List Handler) : Bool := answers hs && catchAll hs

theorem tryExcept_code_of_total : ∀ (hs : List Handler) (r : Raised), answers hs = true → catchAll hs = true →
    "Exception" ∈ r.mro → ∃ c, tryExcept hs r = .code c
  | [], r, _, hc, _ => by simp [catchAll] at hc
  | h :: t, r, ha, hc, hr => by
    simp only [answers, List.all_cons, Bool.and_eq_true] at ha
    simp only [catchAll, List.any_cons, Bool.or_eq_true] at hc
    unfold tryExcept
    by_cases hcat : h.catches r = true
    · rw [if_pos hcat]
      rcases h with ⟨cl, act⟩
      cases act with
      | keep => cases r with
        | fault c => exact ⟨_, rfl⟩
        | exc e => exact ⟨_, rfl⟩
      | wrap c => exact ⟨_, rfl⟩
      | retry => simp at ha
      | other => simp at ha
    · rw [if_neg hcat]
      have hc' : catchAll t = true := by
        rcases hc with hc | hc
        · exact absurd (catches_of_mem (by simpa using hc) hr) hcat
        · simpa [catchAll] using hc
      exact tryExcept_code_of_total t r (by simpa [answers] using ha.2) hc' hr

/-- whatever leaves a `try` statement is still an ordinary exception -/
theorem tryExcept_propagates_ordinary : ∀ (hs : List Handler) (r r' : Raised), "Exception" ∈ r.mro →
    tryExcept hs r = .propagates r' → "Exception" ∈ r'.mro
  | [], r, r', hr, h => by
    simp only [tryExcept, Caught.propagates.injEq] at h
    subst h; exact hr
  | h :: t, r, r', hr, hp => by
    unfold tryExcept at hp
    by_cases hcat : h.catches r = true
    · rw [if_pos hcat] at hp
      rcases h with ⟨cl, act⟩
      cases act with
      | keep => cases r <;> simp at hp
      | wrap c => simp at hp
      | retry => simp at hp
      | other =>
        simp only [Caught.propagates.injEq] at hp
        subst hp; exact unknownBody_ordinary
    · rw [if_neg hcat] at hp
      exact tryExcept_propagates_ordinary t r r' hr hp

theorem throughChain_propagates_ordinary : ∀ (ch : List (List Handler)) (r r' : Raised), "Exception" ∈ r.mro →
    throughChain ch r = .propagates r' → "Exception" ∈ r'.mro
  | [], r, r', hr, h => by
    simp only [throughChain, Caught.propagates.injEq] at h
    subst h; exact hr
  | hs :: outer, r, r', hr, hp => by
    unfold throughChain at hp
    cases hte : tryExcept hs r with
    | code c =>
      rw [hte] at hp
      exact throughChain_propagates_ordinary outer _ r' (fault_ordinary c) hp
    | retried => rw [hte] at hp; simp at hp
    | propagates r2 =>
      rw [hte] at hp
      exact throughChain_propagates_ordinary outer r2 r' (tryExcept_propagates_ordinary hs r r2 hr hte) hp

/-! ### ordinary requests: every oracle exception derives from `Exception` -/

def ParseResult.Ordinary : ParseResult → Prop
  | .doc => True
  | .decodeExc e => e.ordinary
  | .parseExc e => e.ordinary

def Codec.Ordinary : Codec → Prop
  | .crash e => e.ordinary
  | _ => True

def User.Ordinary : User → Prop
  | .raisesExc e => e.ordinary
  | _ => True

structure Req.Ordinary (q : Req) : Prop where
  parse : q.parse.Ordinary
  reparse : q.reparse.Ordinary
  dispatch : q.dispatch.Ordinary
  deser : q.deser.Ordinary
  user : q.user.Ordinary
  ser : ∀ e, q.serExc = some e → e.ordinary

theorem attempt_ordinary (F : Facts10) (p : Proto) (pr : ParseResult) (h : pr.Ordinary) (r : Raised)
    (ha : attempt F p pr = some (.propagates r)) : "Exception" ∈ r.mro := by
  cases pr with
  | doc => simp [attempt] at ha
  | decodeExc e =>
    simp only [attempt, Option.some.injEq] at ha
    exact throughChain_propagates_ordinary _ (.exc e) _ h ha
  | parseExc e =>
    simp only [attempt, Option.some.injEq] at ha
    exact throughChain_propagates_ordinary _ (.exc e) _ h ha

theorem secondAttempt_ordinary (F : Facts10) (p : Proto) (first pr : ParseResult) (h : pr.Ordinary) (r : Raised)
    (ha : secondAttempt F p first pr = some (.propagates r)) : "Exception" ∈ r.mro := by
  cases pr with
  | doc => simp [secondAttempt] at ha
  | decodeExc e =>
    simp only [secondAttempt, Option.some.injEq] at ha
    exact throughChain_propagates_ordinary _ (.exc e) _ h ha
  | parseExc e =>
    simp only [secondAttempt, Option.some.injEq] at ha
    exact throughChain_propagates_ordinary _ (.exc e) _ h ha

theorem cid_ordinary (F : Facts10) (p : Proto) (pr rp : ParseResult) (h1 : pr.Ordinary) (h2 : rp.Ordinary) (r : Raised)
    (hc : cid F p pr rp = some r) : "Exception" ∈ r.mro := by
  unfold cid at hc
  cases ha : attempt F p pr with
  | none => rw [ha] at hc; simp at hc
  | some c1 =>
    rw [ha] at hc
    cases c1 with
    | code c => simp only [Option.some.injEq] at hc; subst hc; exact fault_ordinary c
    | propagates r1 =>
      simp only [Option.some.injEq] at hc; subst hc
      exact attempt_ordinary F p pr h1 _ ha
    | retried =>
      simp only at hc
      cases hb : secondAttempt F p pr rp with
      | none => rw [hb] at hc; simp at hc
      | some c2 =>
        rw [hb] at hc
        cases c2 with
        | code c => simp only [Option.some.injEq] at hc; subst hc; exact fault_ordinary c
        | propagates r2 =>
          simp only [Option.some.injEq] at hc; subst hc
          exact secondAttempt_ordinary F p pr rp h2 _ hb
        | retried => simp only [Option.some.injEq] at hc; subst hc; exact unknownBody_ordinary

theorem codec_raised_ordinary (c : Codec) (h : c.Ordinary) (r : Raised) (hr : c.raised = some r) : "Exception" ∈ r.mro := by
  cases c with
  | ok => simp [Codec.raised] at hr
  | fault code => simp only [Codec.raised, Option.some.injEq] at hr; subst hr; exact fault_ordinary code
  | crash e => simp only [Codec.raised, Option.some.injEq] at hr; subst hr; exact h

/-! ### totality -/

theorem guarded_total {hs : List Handler} (ht : total hs = true) (r : Raised) (hr : "Exception" ∈ r.mro) (n : Nat) :
    ∃ c, guarded hs r n = .fault c n := by
  simp only [total, Bool.and_eq_true] at ht
  obtain ⟨c, hc⟩ := tryExcept_code_of_total hs r ht.1 ht.2 hr
  exact ⟨c, by simp [guarded, hc]⟩

/-- ServerBase: with catch-alls around the three stages nothing ordinary escapes; the answer is a normal response or
    a fault document -/
theorem runBase_total (F : Facts10) (hg : total F.genContexts = true) (hi : total F.getInObject = true)
    (hp : total F.processRequest = true) (q : Req) (ho : q.Ordinary) :
    (∃ n, runBase F q = .ok n) ∨ (∃ c n, runBase F q = .fault c n) := by
  unfold runBase
  cases hcid : createInDocument F q with
  | some r =>
    have hr := cid_ordinary F q.proto q.parse q.reparse ho.parse ho.reparse r hcid
    obtain ⟨c, hc⟩ := guarded_total hg r hr 0
    exact Or.inr ⟨c, 0, by simp [hc]⟩
  | none =>
    cases hd : q.dispatch.raised with
    | some r =>
      obtain ⟨c, hc⟩ := guarded_total hg r (codec_raised_ordinary _ ho.dispatch r hd) 0
      exact Or.inr ⟨c, 0, by simp [hc]⟩
    | none =>
      cases hs : q.deser.raised with
      | some r =>
        obtain ⟨c, hc⟩ := guarded_total hi r (codec_raised_ordinary _ ho.deser r hs) 0
        exact Or.inr ⟨c, 0, by simp [hc]⟩
      | none =>
        cases hu : q.user with
        | returns => exact Or.inl ⟨1, by simp⟩
        | raisesFault c0 =>
          obtain ⟨c, hc⟩ := guarded_total hp (.fault c0) (fault_ordinary c0) 1
          exact Or.inr ⟨c, 1, by simp [hc]⟩
        | raisesExc e =>
          have he : "Exception" ∈ (Raised.exc e).mro := by
            have := ho.user; rw [hu] at this; exact this
          obtain ⟨c, hc⟩ := guarded_total hp (.exc e) he 1
          exact Or.inr ⟨c, 1, by simp [hc]⟩

theorem runBase_no_escape (F : Facts10) (hg : total F.genContexts = true) (hi : total F.getInObject = true)
    (hp : total F.processRequest = true) (q : Req) (ho : q.Ordinary) (r : Raised) : runBase F q ≠ .escape r := by
  rcases runBase_total F hg hi hp q ho with ⟨n, h⟩ | ⟨c, n, h⟩ <;> rw [h] <;> simp

/-! ### the transport table -/

theorem PFam.idx_le (f : PFam) : f.idx ≤ 2 := by cases f <;> decide
theorem PMethod.idx_le (m : PMethod) : m.idx ≤ 2 := by cases m <;> decide
theorem PCtype.idx_le (c : PCtype) : c.idx ≤ 5 := by cases c <;> decide
theorem PLen.idx_le (l : PLen) : l.idx ≤ 11 := by cases l <;> decide

theorem PreKey.idx_lt (k : PreKey) : k.idx < PreKey.count := by
  rcases k with ⟨f, m, c, l⟩
  have h1 := PFam.idx_le f
  have h2 := PMethod.idx_le m
  have h3 := PCtype.idx_le c
  have h4 := PLen.idx_le l
  simp only [PreKey.idx, PreKey.count]
  omega

/-- what holds for every row of a complete table holds for the decision of every key -/
theorem pre_of_all (F : Facts10) (hl : F.preTable.length = PreKey.count) (P : PreDecision → Prop)
    (h : ∀ d ∈ F.preTable, P d) (k : PreKey) : P (F.pre k) := by
  have hk : k.idx < F.preTable.length := by rw [hl]; exact PreKey.idx_lt k
  unfold Facts10.pre
  simp only [List.getD_eq_getElem?_getD, List.getElem?_eq_getElem hk, Option.getD_some]
  exact h _ (List.getElem_mem hk)

/-! ### the envelope table -/

theorem EnvKey.idx_lt (k : EnvKey) : k.idx < EnvKey.count := by
  rcases k with ⟨v, n, h, b⟩
  have h1 : n.idx ≤ 2 := by cases n <;> decide
  have h2 : h.idx ≤ 5 := by cases h <;> decide
  have h3 : b.idx ≤ 7 := by cases b <;> decide
  simp only [EnvKey.idx, EnvKey.count]
  cases v <;> simp <;> omega

def EnvDecision.good : EnvDecision → Bool
  | .called => true
  | .clientFault c => isClient c
  | _ => false

/-- every row of the envelope table is a call or a Client fault -/
def envTableOk (F : Facts10) : Bool := decide (F.envTable.length = EnvKey.count) && F.envTable.all EnvDecision.good

theorem env_good (F : Facts10) (h : envTableOk F = true) (k : EnvKey) : (F.env k).good = true := by
  simp only [envTableOk, Bool.and_eq_true, decide_eq_true_eq, List.all_eq_true] at h
  have hk : k.idx < F.envTable.length := by rw [h.1]; exact EnvKey.idx_lt k
  unfold Facts10.env
  simp only [List.getD_eq_getElem?_getD, List.getElem?_eq_getElem hk, Option.getD_some]
  exact h.2 _ (List.getElem_mem hk)

/-! ### the multi-reference and url tables -/

theorem HrefKey.idx_lt (k : HrefKey) : k.idx < HrefKey.count := by
  rcases k with ⟨v, sh⟩
  have h1 : sh.idx ≤ 8 := by cases sh <;> decide
  simp only [HrefKey.idx, HrefKey.count]
  cases v <;> simp <;> omega

def hrefTableOk (F : Facts10) : Bool := decide (F.hrefTable.length = HrefKey.count) && F.hrefTable.all EnvDecision.good

theorem href_good (F : Facts10) (h : hrefTableOk F = true) (k : HrefKey) : (F.href k).good = true := by
  simp only [hrefTableOk, Bool.and_eq_true, decide_eq_true_eq, List.all_eq_true] at h
  have hk : k.idx < F.hrefTable.length := by rw [h.1]; exact HrefKey.idx_lt k
  unfold Facts10.href
  simp only [List.getD_eq_getElem?_getD, List.getElem?_eq_getElem hk, Option.getD_some]
  exact h.2 _ (List.getElem_mem hk)

theorem FaultDocKey.idx_lt (k : FaultDocKey) : k.idx < FaultDocKey.count := by
  rcases k with ⟨o, w, c⟩
  have h1 : o.idx ≤ 7 := by cases o <;> decide
  have h2 : c.idx ≤ 5 := by cases c <;> decide
  simp only [FaultDocKey.idx, FaultDocKey.count]
  cases w <;> simp <;> omega

def faultDocTableOk (F : Facts10) : Bool :=
  decide (F.faultDocTable.length = FaultDocKey.count) && F.faultDocTable.all (fun d => d == .proceed)

theorem faultDoc_written (F : Facts10) (h : faultDocTableOk F = true) (k : FaultDocKey) : F.faultDoc k = .proceed := by
  simp only [faultDocTableOk, Bool.and_eq_true, decide_eq_true_eq, List.all_eq_true, beq_iff_eq] at h
  have hk : k.idx < F.faultDocTable.length := by rw [h.1]; exact FaultDocKey.idx_lt k
  unfold Facts10.faultDoc
  simp only [List.getD_eq_getElem?_getD, List.getElem?_eq_getElem hk, Option.getD_some]
  exact h.2 _ (List.getElem_mem hk)

theorem UrlKey.idx_lt (k : UrlKey) : k.idx < UrlKey.count := by
  rcases k with ⟨f, sc, pa, ho, hs⟩
  have h0 := PFam.idx_le f
  have h1 : sc.idx ≤ 3 := by cases sc <;> decide
  have h2 : pa.idx ≤ 2 := by cases pa <;> decide
  have h3 : ho.idx ≤ 3 := by cases ho <;> decide
  simp only [UrlKey.idx, UrlKey.count]
  cases hs <;> simp <;> omega

/-- a row of the url table: served as usual, or refused with a Client-family fault (4xx outside SOAP) -/
def urlRowOk (soap : Bool) : PreDecision → Bool
  | .proceed => true
  | .reject c s => isClient c && (soap || (decide (400 ≤ s) && decide (s < 500)))
  | _ => false

def urlTableOk (F : Facts10) : Bool :=
  decide (F.urlTable.length = UrlKey.count) && F.urlTable.all (fun d => urlRowOk true d)

theorem url_ok (F : Facts10) (h : urlTableOk F = true) (k : UrlKey) : urlRowOk true (F.url k) = true := by
  simp only [urlTableOk, Bool.and_eq_true, decide_eq_true_eq, List.all_eq_true] at h
  have hk : k.idx < F.urlTable.length := by rw [h.1]; exact UrlKey.idx_lt k
  unfold Facts10.url
  simp only [List.getD_eq_getElem?_getD, List.getElem?_eq_getElem hk, Option.getD_some]
  exact h.2 _ (List.getElem_mem hk)

theorem PreKey.mem_all (k : PreKey) : k ∈ PreKey.all := by
  rcases k with ⟨f, m, c, l⟩
  simp only [PreKey.all, List.mem_flatMap, List.mem_map]
  refine ⟨f, ?_, m, ?_, c, ?_, l, ?_, rfl⟩
  · cases f <;> decide
  · cases m <;> decide
  · cases c <;> decide
  · cases l <;> decide

def PreDecision.noEscape : PreDecision → Bool
  | .escape _ => false
  | _ => true

/-- a row that answers without looking at the document: a Client-family fault; 4xx unless the family is SOAP -/
def rowOk (k : PreKey) : PreDecision → Bool
  | .proceed => true
  | .unavailable => true
  | .escape _ => false
  | .reject c s => isClient c && (k.fam == .soap || (decide (400 ≤ s) && decide (s < 500)))

def tableOk (F : Facts10) : Bool := PreKey.all.all (fun k => rowOk k (F.pre k))

theorem rowOk_of_tableOk (F : Facts10) (h : tableOk F = true) (k : PreKey) : rowOk k (F.pre k) = true := by
  unfold tableOk at h
  rw [List.all_eq_true] at h
  exact h k (PreKey.mem_all k)

/-! ### WSGI -/

theorem statusOf_eq (F : Facts10) (p : Proto) (c : String) :
    statusOf F p c = if p.soap then F.statusSoap (faultClass c) else F.statusPlain (faultClass c) := rfl

/-- WsgiApplication: nothing ordinary escapes the callable -/
theorem runWsgi_total (F : Facts10) (hg : total F.genContexts = true) (hi : total F.getInObject = true)
    (hp : total F.processRequest = true) (hw : total F.wsgiOutString = true) (ht : tableOk F = true)
    (k : PreKey) (hav : F.pre k ≠ .unavailable) (q : Req) (ho : q.Ordinary) :
    (∃ s n, runWsgi F k q = .ok s n) ∨ (∃ c s n, runWsgi F k q = .fault c s n) := by
  have hrow := rowOk_of_tableOk F ht k
  unfold runWsgi
  cases hpre : F.pre k with
  | escape n => rw [hpre] at hrow; simp [rowOk] at hrow
  | unavailable => exact absurd hpre hav
  | reject c s => exact Or.inr ⟨c, s, 0, rfl⟩
  | proceed =>
    simp only
    rcases runBase_total F hg hi hp q ho with ⟨n, h⟩ | ⟨c, n, h⟩
    · rw [h]
      cases hse : q.serExc with
      | none => exact Or.inl ⟨_, _, rfl⟩
      | some e =>
        simp only [total, Bool.and_eq_true] at hw
        have he : "Exception" ∈ (Raised.exc e).mro := ho.ser e hse
        obtain ⟨c, hc⟩ := tryExcept_code_of_total _ (.exc e) hw.1 hw.2 he
        exact Or.inr ⟨c, statusOf F q.proto c, n, by simp [hc]⟩
    · rw [h]; exact Or.inr ⟨c, _, n, rfl⟩

/-! ### a Fault raised by a codec stage is the answer -/

/-- the first clause that matches a Fault keeps it -/
def keeps : List Handler → Bool
  | [] => false
  | h :: t => if h.catches (.fault "") then h.action == .keep else keeps t

theorem tryExcept_fault_of_keeps : ∀ (hs : List Handler) (c : String), keeps hs = true → tryExcept hs (.fault c) = .code c
  | [], c, h => by simp [keeps] at h
  | h :: t, c, hk => by
    have hsame : h.catches (.fault c) = h.catches (.fault "") := rfl
    unfold keeps at hk
    unfold tryExcept
    rw [hsame]
    by_cases hcat : h.catches (.fault "") = true
    · rw [if_pos hcat] at hk ⊢
      rcases h with ⟨cl, act⟩
      cases act <;> simp_all
    · rw [if_neg hcat] at hk ⊢
      exact tryExcept_fault_of_keeps t c hk

theorem guarded_fault_of_keeps {hs : List Handler} (hk : keeps hs = true) (c : String) (n : Nat) :
    guarded hs (.fault c) n = .fault c n := by
  simp [guarded, tryExcept_fault_of_keeps hs c hk]

/-! ### the call count -/

/-- a fault that is answered although the user function did not raise comes from the input path: no call -/
theorem runBase_fault_not_called (F : Facts10) (q : Req) (hu : q.user = .returns) (c : String) (n : Nat)
    (h : runBase F q = .fault c n) : n = 0 := by
  unfold runBase at h
  cases hcid : createInDocument F q with
  | some r =>
    simp only [hcid, guarded] at h
    split at h <;> simp_all
  | none =>
    simp only [hcid] at h
    cases hd : q.dispatch.raised with
    | some r =>
      simp only [hd, guarded] at h
      split at h <;> simp_all
    | none =>
      simp only [hd] at h
      cases hs : q.deser.raised with
      | some r =>
        simp only [hs, guarded] at h
        split at h <;> simp_all
      | none => simp [hs, hu] at h

theorem runBase_ok_called_once (F : Facts10) (q : Req) (n : Nat) (h : runBase F q = .ok n) : n = 1 := by
  unfold runBase at h
  cases hcid : createInDocument F q with
  | some r => simp only [hcid, guarded] at h; split at h <;> simp_all
  | none =>
    simp only [hcid] at h
    cases hd : q.dispatch.raised with
    | some r => simp only [hd, guarded] at h; split at h <;> simp_all
    | none =>
      simp only [hd] at h
      cases hs : q.deser.raised with
      | some r => simp only [hs, guarded] at h; split at h <;> simp_all
      | none =>
        simp only [hs] at h
        cases hu : q.user with
        | returns => simp [hu] at h; exact h.symm
        | raisesFault c0 => simp only [hu, guarded] at h; split at h <;> simp_all
        | raisesExc e => simp only [hu, guarded] at h; split at h <;> simp_all

/-! ### parser rejections -/

/-- what the bytes -> document step of protocol `p` can raise on input it rejects -/
def rejections (F : Facts10) (p : Proto) : List ParseResult :=
  (F.raisable p).map .parseExc ++
  (if F.decodes p then (F.raisableText p).map .parseExc ++ F.raisableDecode.map .decodeExc else [])

/-- what the retry can end in: it parses the bytes again -/
def retryOutcomes (F : Facts10) (p : Proto) : List ParseResult := .doc :: (F.raisable p).map .parseExc

def clientOrDoc (o : Option Raised) : Bool :=
  match o with
  | none => true
  | some (.fault c) => isClient c
  | some (.exc _) => false

/-- every rejection (and every rejection of the retry) ends in a Client fault raised by create_in_document -/
def rejectionsAreClient (F : Facts10) : Bool :=
  Proto.all.all fun p => (rejections F p).all fun pr => (retryOutcomes F p).all fun rp =>
    clientOrDoc (cid F p pr rp)

theorem Proto.mem_all (p : Proto) : p ∈ Proto.all := by cases p <;> decide

theorem cid_of_rejectionsAreClient (F : Facts10) (h : rejectionsAreClient F = true) (p : Proto) (pr rp : ParseResult)
    (h1 : pr ∈ rejections F p) (h2 : rp ∈ retryOutcomes F p) :
    cid F p pr rp = none ∨ ∃ c, cid F p pr rp = some (.fault c) ∧ isClient c = true := by
  unfold rejectionsAreClient at h
  rw [List.all_eq_true] at h
  have := h p (Proto.mem_all p)
  rw [List.all_eq_true] at this
  have := this pr h1
  rw [List.all_eq_true] at this
  have := this rp h2
  cases hc : cid F p pr rp with
  | none => exact Or.inl rfl
  | some r =>
    rw [hc] at this
    cases r with
    | fault c => exact Or.inr ⟨c, rfl, by simpa [clientOrDoc] using this⟩
    | exc e => simp [clientOrDoc] at this

/-- the request whose bytes the parser rejects is answered with a Client fault and no call -/
theorem runBase_rejected (F : Facts10) (hk : keeps F.genContexts = true) (q : Req) (c : String)
    (h : createInDocument F q = some (.fault c)) : runBase F q = .fault c 0 := by
  unfold runBase
  simp [h, guarded_fault_of_keeps hk]

theorem runBase_dispatch_fault (F : Facts10) (hk : keeps F.genContexts = true) (q : Req) (c : String)
    (hdoc : createInDocument F q = none) (h : q.dispatch = .fault c) : runBase F q = .fault c 0 := by
  unfold runBase
  simp [hdoc, h, Codec.raised, guarded_fault_of_keeps hk]

theorem runBase_deser_fault (F : Facts10) (hk : keeps F.getInObject = true) (q : Req) (c : String)
    (hdoc : createInDocument F q = none) (hd : q.dispatch = .ok) (h : q.deser = .fault c) : runBase F q = .fault c 0 := by
  unfold runBase
  simp [hdoc, hd, h, Codec.raised, guarded_fault_of_keeps hk]

theorem runBase_valid (F : Facts10) (q : Req) (hdoc : createInDocument F q = none) (hd : q.dispatch = .ok)
    (hs : q.deser = .ok) (hu : q.user = .returns) : runBase F q = .ok 1 := by
  unfold runBase
  simp [hdoc, hd, hs, hu, Codec.raised]

/-! ### status of a Client fault -/

theorem faultClass_ne_server {c : String} (h : isClient c = true) : faultClass c ≠ .server := by
  unfold faultClass
  repeat' split
  all_goals simp_all

/-- the plain status table sends every class but `server` with 4xx -/
def plainIs4xx (F : Facts10) : Bool :=
  [FaultClass.tooLong, .notFound, .notAllowed, .invalidCreds, .client].all
    (fun fc => decide (400 ≤ F.statusPlain fc) && decide (F.statusPlain fc < 500))

theorem statusPlain_4xx (F : Facts10) (h : plainIs4xx F = true) (fc : FaultClass) (hfc : fc ≠ .server) :
    400 ≤ F.statusPlain fc ∧ F.statusPlain fc < 500 := by
  unfold plainIs4xx at h
  rw [List.all_eq_true] at h
  have := h fc (by cases fc <;> simp_all)
  simpa using this

end SpyneModel.Hostile
