/-
  C01 for classes with XmlAttribute / XmlData members: the decoder reads back what the encoder wrote —
  element members as child elements, attribute members from the element's attributes, the data member from
  its text — for every conformant value and every validator setting (`xml_roundtrip_attrs`).
-/
import Proofs.XmlAttrBasic
import Proofs.XmlRoundtrip
namespace SpyneModel
namespace Xml

/-! ### shape of the encoder's output: element members -/

theorem memberNodesA_nonrep (F : Facts08) (tns cns k : Text) (t : TyA) (v : Val)
    (hr : t.occ.repeated = false) (hv : v ≠ .none) :
    memberNodesA F tns cns k t v = toParentA F tns cns k t v := by
  cases v with
  | none => exact absurd rfl hv
  | list items => simp only [memberNodesA, hr]; cases t <;> simp [toParentA]
  | _ => simp [memberNodesA, hr]

theorem okA_nonrep {strict : Bool} {t : TyA} {v : Val} (hr : t.occ.repeated = false)
    (hv : v ≠ .none) : okA strict t v = okOneA strict t v := by
  cases v <;> simp_all [okA, okOneA]

theorem toParentA_single {F : Facts08} (L : LeafLaws F) (tns ns name : Text) (t : TyA) (v : Val)
    {strict : Bool} (hok : okOneA strict t v = true) (hfit : fitsV F v = true) :
    ∃ e, toParentA F tns ns name t v = [e] := by
  have leaf : ∀ w : Val, (∀ p o, t = .prim p o → leafOk strict p o w = true) → fitsV F w = true →
      (∀ p o, t = .prim p o →
        ∃ e, (match leafToText F p w with
              | some s => [Node.elem ns name [] (mkText s) []]
              | none => []) = [e]) := by
    intro w hw hf p o ht
    have := hw p o ht
    simp only [leafOk, Bool.and_eq_true] at this
    obtain ⟨s, hto, _⟩ := L.roundtrip p w this.1 (leafFits_of_fitsV F p w hf)
    exact ⟨_, by rw [hto]⟩
  cases v with
  | none => exact ⟨_, rfl⟩
  | obj cls vs =>
    cases t with
    | obj cname cns cb fields o => exact ⟨_, rfl⟩
    | _ => simp [okOneA] at hok
  | list vs =>
    cases t with
    | arr member elem o => exact ⟨_, rfl⟩
    | _ => simp [okOneA] at hok
  | _ =>
    cases t with
    | prim p o =>
      simp only [okOneA] at hok
      simp only [toParentA]
      exact leaf _ (by intro p' o' h; cases h; exact hok) hfit p o rfl
    | _ => simp [okOneA] at hok

theorem itemsA_length {F : Facts08} (L : LeafLaws F) (tns ns name : Text) (t : TyA)
    {strict : Bool} (vs : List Val) (hok : okItemsA strict t vs = true) (hfit : fitsItemsV F vs = true) :
    (itemsA F tns ns name t vs).length = vs.length := by
  induction vs with
  | nil => simp [itemsA]
  | cons v vs ih =>
    simp only [okItemsA, Bool.and_eq_true] at hok
    simp only [fitsItemsV, Bool.and_eq_true] at hfit
    obtain ⟨e, he⟩ := toParentA_single L tns ns name t v hok.1 hfit.1
    simp [itemsA, he, ih hok.2 hfit.2]

/-- the `okFieldsA` condition on one member -/
def fieldOkA (strict : Bool) (kind : MKind) (t : TyA) (v : Val) : Bool :=
  match kind, v with
  | .element, .none => decide (t.occ.minOccurs = 0) || (t.occ.nillable && !t.occ.repeated)
  | .element, w => okA strict t w
  | _, .none => decide (t.occ.minOccurs = 0)
  | _, w => modOk t w

theorem okFieldsA_cons {strict : Bool} {k k' : Text} {kind : MKind} {t : TyA} {v : Val}
    {fs : List (Text × MKind × TyA)} {vs : List (Text × Val)} :
    okFieldsA strict ((k, kind, t) :: fs) ((k', v) :: vs) =
      (decide (k = k') && fieldOkA strict kind t v && okFieldsA strict fs vs) := by
  cases kind <;> cases v <;> simp [okFieldsA, fieldOkA]

theorem memberNodesA_count {F : Facts08} (L : LeafLaws F) (tns cns k : Text) (t : TyA) (v : Val)
    {strict : Bool} (hw : occWf t.occ = true) (hok : fieldOkA strict .element t v = true)
    (hfit : fitsV F v = true) : t.occ.countOk (memberNodesA F tns cns k t v).length = true := by
  by_cases hr : t.occ.repeated = true
  · cases v with
    | none =>
      simp only [fieldOkA, hr, Bool.not_true, Bool.and_false, Bool.or_false, decide_eq_true_eq] at hok
      simp [memberNodesA, hok, Occ.countOk]
      cases t.occ.maxOccurs <;> simp
    | list items =>
      simp only [fieldOkA, okA, hr, if_true, Bool.and_eq_true] at hok
      simp only [memberNodesA, hr, if_true]
      simp only [fitsV] at hfit
      rw [itemsA_length L tns cns k t items hok.2 hfit]
      exact hok.1
    | _ => simp [fieldOkA, okA, hr] at hok
  · have hr' : t.occ.repeated = false := by simpa using hr
    obtain ⟨hmax, hmin⟩ := nonrep_occ hr' hw
    cases v with
    | none =>
      simp only [memberNodesA]
      split
      · simp [Occ.countOk, hmax, hmin]
      · rename_i h
        have : t.occ.minOccurs = 0 := by omega
        simp [Occ.countOk, hmax, this]
    | _ =>
      rw [memberNodesA_nonrep F tns cns k t _ hr' (by simp)]
      simp only [fieldOkA] at hok
      rw [okA_nonrep hr' (by simp)] at hok
      obtain ⟨e, he⟩ := toParentA_single L tns cns k t _ hok hfit
      simp [he, Occ.countOk, hmax, hmin]

/-! ### attribute and data values -/

/-- what the round trip needs from the environment -/
structure RtCtxA (F : Facts08) (X : FactsXml) (A : FactsAttr) (cfg : Cfg) : Prop where
  L : LeafLaws F
  /-- under soft validation `unicode_from_element` validates `''` for an empty element -/
  hE : cfg.soft = true → X.emptyStringText = true
  /-- `xsi:nil="true"` is read as nil (holds for both measured nil rules) -/
  hN : isNil X [(xsiNilKey, "true".toList)] = true
  /-- the attributes of a child element are the child's -/
  hLeak : A.childAttrsIgnored = true
  /-- under soft validation an attribute member occurs when the element carries the attribute -/
  hSoft : cfg.soft = true → A.attrSoftChecked = true

theorem modifier_rt {F : Facts08} (L : LeafLaws F) (A : FactsAttr) (cfg : Cfg) (p : PrimTy) (v : Val)
    (hval : p.valueOk v = true) (hfit : fitsV F v = true) :
    ∃ s, leafToText F p v = some s ∧ modifierValue F A cfg p s = .ok v := by
  obtain ⟨s, hto, hfrom⟩ := L.roundtrip p v hval (leafFits_of_fitsV F p v hfit)
  have hsoft := L.soft p s v hfrom
  rw [hval] at hsoft
  simp only [Bool.and_eq_true] at hsoft
  exact ⟨s, hto, by simp [modifierValue, hfrom, hsoft.1, hsoft.2]⟩

theorem valueOk_ne_none (p : PrimTy) (v : Val) (h : p.valueOk v = true) : v ≠ .none := by
  intro hv; subst hv; cases p <;> simp [PrimTy.valueOk] at h

theorem attrOne_none (F : Facts08) (k : Text) (t : TyA) : attrOne F k t .none = [] := by
  cases t <;> simp [attrOne]

theorem attrOne_some (F : Facts08) (k : Text) (p : PrimTy) (o : Occ) (v : Val) (s : Text) (hv : v ≠ .none)
    (hto : leafToText F p v = some s) : attrOne F k (.prim p o) v = [(k, s)] := by
  cases v <;> simp_all [attrOne]

theorem dataOne_none (F : Facts08) (t : TyA) (cur : Option Text) : dataOne F t .none cur = cur := by
  cases t <;> simp [dataOne, dataStep] <;> split <;> rfl

theorem dataOne_some (F : Facts08) (p : PrimTy) (o : Occ) (v : Val) (s : Text) (cur : Option Text) (hv : v ≠ .none)
    (hto : leafToText F p v = some s) : dataOne F (.prim p o) v cur = mkText s := by
  cases v <;> simp_all [dataOne, dataStep]

theorem dataAttrs_nil (t : TyA) (v : Val) (h : v = .none → t.occ.minOccurs = 0) : dataAttrs t v = [] := by
  cases v <;> simp_all [dataAttrs]

theorem dataNorm_of_text {F : Facts08} (L : LeafLaws F) (p : PrimTy) (v : Val) (s : Text) (hwf : primWf p = true)
    (hval : p.valueOk v = true) (hto : leafToText F p v = some s) :
    (s = [] → dataNorm v = .none) ∧ (s ≠ [] → dataNorm v = v) := by
  constructor
  · intro hs
    subst hs
    rcases L.emptyText p v hval hto with hv | hv | hv
    · subst hv; rfl
    · subst hv; rfl
    · subst hv
      cases p <;> simp [PrimTy.valueOk] at hval
      simp [primWf, hval] at hwf
  · intro hs
    cases v with
    | str x =>
      cases x with
      | nil =>
        cases p <;> simp [PrimTy.valueOk] at hval
        simp only [leafToText] at hto
        exact absurd (Option.some.inj hto).symm hs
      | cons c cs => rfl
    | bytes x =>
      cases x with
      | nil =>
        cases p <;> simp [PrimTy.valueOk] at hval
        rw [leafToText_bytes_nil] at hto
        exact absurd (Option.some.inj hto).symm hs
      | cons c cs => rfl
    | _ => rfl

/-! ### the instance state after each pass -/

def stWith (g : MKind → TyA → Val → Val) : List (Text × MKind × TyA) → List (Text × Val) → List (Text × Val)
  | (k, kind, t) :: fs, (_, v) :: vs => (k, g kind t v) :: stWith g fs vs
  | [], _ => []
  | f :: fs, [] => initStateA (f :: fs)

/-- after `_xml_tag_body_as` -/
def slotData (kind : MKind) (_t : TyA) (v : Val) : Val := match kind with | .data => dataNorm v | _ => .none
/-- after the child loop -/
def slotMid (kind : MKind) (t : TyA) (v : Val) : Val :=
  match kind with | .element => normA t v | .attribute => .none | .data => dataNorm v
/-- after the attribute loop -/
def slotFin (kind : MKind) (t : TyA) (v : Val) : Val :=
  match kind with | .element => normA t v | .attribute => v | .data => dataNorm v

theorem initStateA_cons (k : Text) (x : MKind × TyA) (fs : List (Text × MKind × TyA)) :
    initStateA ((k, x) :: fs) = (k, Val.none) :: initStateA fs := rfl

theorem stWith_fin {strict : Bool} : (fs : List (Text × MKind × TyA)) → (vs : List (Text × Val)) →
    okFieldsA strict fs vs = true → stWith slotFin fs vs = normFieldsA fs vs
  | [], [], _ => by simp [stWith, normFieldsA]
  | [], _ :: _, h => by simp [okFieldsA] at h
  | _ :: _, [], h => by simp [okFieldsA] at h
  | (k, kind, t) :: fs, (k', v) :: vs, h => by
    rw [okFieldsA_cons] at h
    simp only [Bool.and_eq_true, decide_eq_true_eq] at h
    obtain ⟨⟨hk, _⟩, hr⟩ := h
    subst hk
    simp only [stWith, normFieldsA, stWith_fin fs vs hr]
    cases kind <;> rfl

theorem stWith_data_nodata : (fs : List (Text × MKind × TyA)) → (vs : List (Text × Val)) → noKind .data fs = true →
    stWith slotData fs vs = initStateA fs
  | [], _, _ => by simp [stWith, initStateA]
  | _ :: _, [], _ => by simp [stWith]
  | (k, kind, t) :: fs, (k', v) :: vs, h => by
    rw [noKind_cons] at h
    simp only [Bool.and_eq_true, decide_eq_true_eq] at h
    simp only [stWith, initStateA_cons, stWith_data_nodata fs vs h.2]
    match kind, h with
    | .element, _ => rfl
    | .attribute, _ => rfl
    | .data, h => exact absurd rfl h.1

/-! ### `_xml_tag_body_as` -/

theorem dataPass_nodata (F : Facts08) (A : FactsAttr) (cfg : Cfg) (text : Option Text) :
    (fs : List (Text × MKind × TyA)) → (st : List (Text × Val)) → noKind .data fs = true →
    dataPass F A cfg text fs st = .ok st
  | [], st, _ => by simp [dataPass]
  | (k, kind, t) :: fs, st, h => by
    rw [noKind_cons] at h
    simp only [Bool.and_eq_true, decide_eq_true_eq] at h
    match kind, h with
    | .element, h => cases t <;> simp only [dataPass] <;> exact dataPass_nodata F A cfg text fs st h.2
    | .attribute, h => cases t <;> simp only [dataPass] <;> exact dataPass_nodata F A cfg text fs st h.2
    | .data, h => exact absurd rfl h.1

theorem dataPass_skip (F : Facts08) (A : FactsAttr) (cfg : Cfg) (text : Option Text) (k : Text) (kind : MKind) (t : TyA)
    (fs : List (Text × MKind × TyA)) (st : List (Text × Val)) (hk : kind ≠ .data) :
    dataPass F A cfg text ((k, kind, t) :: fs) st = dataPass F A cfg text fs st := by
  match kind, hk with
  | .element, _ => cases t <;> simp only [dataPass]
  | .attribute, _ => cases t <;> simp only [dataPass]
  | .data, hk => exact absurd rfl hk

/-- number of XmlData members -/
def dataCount (fs : List (Text × MKind × TyA)) : Nat := fs.countP (fun f => f.2.1 = .data)

theorem noData_of_count {fs : List (Text × MKind × TyA)} (h : dataCount fs = 0) : noKind .data fs = true := by
  unfold dataCount at h
  rw [List.countP_eq_zero] at h
  simp only [noKind, List.all_eq_true, decide_eq_true_eq]
  intro f hf hk
  exact h f hf (by simp [hk])

theorem keys_append_single (done : List (Text × Val)) (k : Text) (x : Val) : keys (done ++ [(k, x)]) = keys done ++ [k] := by
  simp [keys]

theorem namesNodupA_cons {k : Text} {x : MKind × TyA} {fs : List (Text × MKind × TyA)}
    (h : namesNodupA ((k, x) :: fs) = true) : k ∉ fieldNamesA fs ∧ namesNodupA fs = true := by
  simp only [namesNodupA, Bool.and_eq_true, Bool.not_eq_true', List.any_eq_false] at h
  refine ⟨?_, h.2⟩
  intro hk
  simp only [fieldNamesA, List.mem_map] at hk
  obtain ⟨f, hf, hfk⟩ := hk
  exact h.1 f hf (by simpa using hfk)

theorem done_step {k : Text} {x : MKind × TyA} {fs : List (Text × MKind × TyA)} {done : List (Text × Val)}
    (hknot : k ∉ fieldNamesA fs) (hdone : ∀ k' ∈ fieldNamesA ((k, x) :: fs), k' ∉ keys done) (w : Val) :
    ∀ k' ∈ fieldNamesA fs, k' ∉ keys (done ++ [(k, w)]) := by
  intro k' hk'
  simp only [keys, List.map_append, List.map, List.mem_append, List.mem_singleton, not_or]
  refine ⟨hdone k' (by simp only [fieldNamesA, List.map, List.mem_cons]; right; exact hk'), ?_⟩
  intro h; subst h; exact hknot hk'

theorem fieldOkA_mod {strict : Bool} {kind : MKind} (hk : kind ≠ .element) {p : PrimTy} {o : Occ} {v : Val}
    (hv : v ≠ .none) (h : fieldOkA strict kind (.prim p o) v = true) : p.valueOk v = true := by
  match kind, hk with
  | .element, hk => exact absurd rfl hk
  | .attribute, _ => cases v <;> simp_all [fieldOkA, modOk]
  | .data, _ => cases v <;> simp_all [fieldOkA, modOk]

theorem fieldOkA_mod_none {strict : Bool} {kind : MKind} (hk : kind ≠ .element) {t : TyA}
    (h : fieldOkA strict kind t .none = true) : t.occ.minOccurs = 0 := by
  match kind, hk with
  | .element, hk => exact absurd rfl hk
  | .attribute, _ => simpa [fieldOkA] using h
  | .data, _ => simpa [fieldOkA] using h

theorem dataPass_rt {F : Facts08} {X : FactsXml} {A : FactsAttr} {cfg : Cfg} (C : RtCtxA F X A cfg) :
    (fs : List (Text × MKind × TyA)) → (vs : List (Text × Val)) → dataCount fs ≤ 1 →
    (∀ f ∈ fs, f.2.1 = .data → isPrimA f.2.2 = true) → namesNodupA fs = true → wfFieldsA fs = true →
    okFieldsA cfg.soft fs vs = true → fitsFieldsV F vs = true →
    ∀ done : List (Text × Val), (∀ k ∈ fieldNamesA fs, k ∉ keys done) →
      dataPass F A cfg (dataTextA F fs vs none) fs (done ++ initStateA fs) = .ok (done ++ stWith slotData fs vs)
  | [], [], _, _, _, _, _, _ => by intro done _; simp [dataPass, initStateA, stWith]
  | [], _ :: _, _, _, _, _, h, _ => by simp [okFieldsA] at h
  | _ :: _, [], _, _, _, _, h, _ => by simp [okFieldsA] at h
  | (k, kind, t) :: fs, (k', v) :: vs, hcnt, hprim, hnd, hwf, hok, hfit => by
    intro done hdone
    rw [okFieldsA_cons] at hok
    simp only [Bool.and_eq_true, decide_eq_true_eq] at hok
    obtain ⟨⟨hk, hf⟩, hrest⟩ := hok
    subst hk
    obtain ⟨hknot, hnd'⟩ := namesNodupA_cons hnd
    simp only [wfFieldsA, Bool.and_eq_true] at hwf
    simp only [fitsFieldsV, Bool.and_eq_true] at hfit
    have hkdone : k ∉ keys done := hdone k (by simp [fieldNamesA])
    by_cases hkind : kind = .data
    · subst hkind
      have hnodata : noKind .data fs = true := by
        apply noData_of_count
        simp only [dataCount, List.countP_cons, decide_true, if_true] at hcnt ⊢
        omega
      have hp := hprim (k, .data, t) List.mem_cons_self rfl
      cases t with
      | obj a b c d e => simp [isPrimA] at hp
      | arr a b c => simp [isPrimA] at hp
      | prim p o =>
        simp only [tyWfA, Bool.and_eq_true] at hwf
        simp only [dataTextA, if_true]
        rw [dataTextA_nodata F fs vs _ hnodata, initStateA_cons]
        simp only [stWith, slotData]
        rw [stWith_data_nodata fs vs hnodata]
        by_cases hv : v = .none
        · subst hv
          rw [dataOne_none]
          simp only [dataPass]
          rw [dataPass_nodata F A cfg none fs _ hnodata]
          rfl
        · have hval := fieldOkA_mod (by simp) hv hf
          obtain ⟨s, hto, hmod⟩ := modifier_rt C.L A cfg p v hval hfit.1
          obtain ⟨hn1, hn2⟩ := dataNorm_of_text C.L p v s hwf.1.1 hval hto
          rw [dataOne_some F p o v s none hv hto]
          by_cases hs : s = []
          · subst hs
            have : mkText ([] : Text) = none := by simp [mkText]
            rw [this, hn1 rfl]
            simp only [dataPass]
            rw [dataPass_nodata F A cfg none fs _ hnodata]
          · have : mkText s = some s := by simp [mkText, hs]
            rw [this, hn2 hs]
            simp only [dataPass, hmod]
            rw [stSet_at done k .none v _ hkdone, dataPass_nodata F A cfg (some s) fs _ hnodata]
    · rw [dataPass_skip F A cfg _ k kind t fs _ hkind, initStateA_cons]
      have hcnt' : dataCount fs ≤ 1 := by
        simp only [dataCount, List.countP_cons] at hcnt ⊢
        omega
      have htxt : dataTextA F ((k, kind, t) :: fs) ((k, v) :: vs) none = dataTextA F fs vs none := by
        match kind, hkind with
        | .element, _ => simp only [dataTextA, if_true]
        | .attribute, _ => simp only [dataTextA, if_true]
        | .data, h => exact absurd rfl h
      have hslot : slotData kind t v = .none := by
        match kind, hkind with
        | .element, _ => rfl
        | .attribute, _ => rfl
        | .data, h => exact absurd rfl h
      rw [htxt]
      simp only [stWith, hslot]
      have := dataPass_rt C fs vs hcnt' (fun f hf => hprim f (List.mem_cons_of_mem _ hf)) hnd' hwf.2 hrest hfit.2
        (done ++ [(k, .none)]) (done_step hknot hdone .none)
      simpa [List.append_assoc] using this

/-! ### the loop over the element's own attributes -/

theorem attrPass_hit (F : Facts08) (A : FactsAttr) (cfg : Cfg) (fields : List (Text × MKind × TyA)) (key s : Text)
    (as : List (Text × Text)) (st : List (Text × Val)) (p : PrimTy) (o : Occ) (v : Val)
    (hlk : lookupA fields key = some (.attribute, .prim p o)) (hmod : modifierValue F A cfg p s = .ok v) :
    attrPass F A cfg fields ((key, s) :: as) st = attrPass F A cfg fields as (stSet st key v) := by
  rw [attrPass]
  simp only [hlk, hmod]

theorem attr_rt {F : Facts08} {X : FactsXml} {A : FactsAttr} {cfg : Cfg} (C : RtCtxA F X A cfg)
    (allFields : List (Text × MKind × TyA)) :
    (fs : List (Text × MKind × TyA)) → (vs : List (Text × Val)) →
    (∀ f ∈ fs, lookupA allFields f.1 = some f.2) →
    (∀ f ∈ fs, f.2.1 ≠ .element → isPrimA f.2.2 = true) → namesNodupA fs = true →
    okFieldsA cfg.soft fs vs = true → fitsFieldsV F vs = true →
    ∀ done : List (Text × Val), (∀ k ∈ fieldNamesA fs, k ∉ keys done) →
      attrPass F A cfg allFields (attrPairsA F fs vs) (done ++ stWith slotMid fs vs) =
        .ok (done ++ stWith slotFin fs vs)
  | [], [], _, _, _, _, _ => by intro done _; simp [attrPass, attrPairsA, stWith]
  | [], _ :: _, _, _, _, h, _ => by simp [okFieldsA] at h
  | _ :: _, [], _, _, _, h, _ => by simp [okFieldsA] at h
  | (k, kind, t) :: fs, (k', v) :: vs, hsub, hprim, hnd, hok, hfit => by
    intro done hdone
    rw [okFieldsA_cons] at hok
    simp only [Bool.and_eq_true, decide_eq_true_eq] at hok
    obtain ⟨⟨hk, hf⟩, hrest⟩ := hok
    subst hk
    obtain ⟨hknot, hnd'⟩ := namesNodupA_cons hnd
    simp only [fitsFieldsV, Bool.and_eq_true] at hfit
    have hkdone : k ∉ keys done := hdone k (by simp [fieldNamesA])
    have ih := fun w => attr_rt C allFields fs vs (fun f hf => hsub f (List.mem_cons_of_mem _ hf))
      (fun f hf => hprim f (List.mem_cons_of_mem _ hf)) hnd' hrest hfit.2 (done ++ [(k, w)]) (done_step hknot hdone w)
    simp only [attrPairsA, if_true, stWith]
    match kind, hf, hsub (k, kind, t) List.mem_cons_self, hprim (k, kind, t) List.mem_cons_self with
    | .element, _, _, _ =>
      simp only [slotMid, slotFin, List.nil_append]
      simpa [List.append_assoc] using ih (normA t v)
    | .data, hf, _, _ =>
      have : dataAttrs t v = [] := dataAttrs_nil t v (fun hv => by subst hv; exact fieldOkA_mod_none (by simp) hf)
      simp only [slotMid, slotFin, this, List.nil_append]
      simpa [List.append_assoc] using ih (dataNorm v)
    | .attribute, hf, hlk, hp =>
      simp only [slotMid, slotFin]
      by_cases hv : v = .none
      · subst hv
        rw [attrOne_none, List.nil_append]
        simpa [List.append_assoc] using ih .none
      · have hp' := hp (by simp)
        cases t with
        | obj a b c d e => simp [isPrimA] at hp'
        | arr a b c => simp [isPrimA] at hp'
        | prim p o =>
          have hval := fieldOkA_mod (by simp) hv hf
          obtain ⟨s, hto, hmod⟩ := modifier_rt C.L A cfg p v hval hfit.1
          rw [attrOne_some F k p o v s hv hto, List.cons_append, List.nil_append,
            attrPass_hit F A cfg allFields k s _ _ p o v hlk hmod, stSet_at done k .none v _ hkdone]
          simpa [List.append_assoc] using ih v

/-! ### what `kindsWf` gives -/

theorem kindsWf_mod {fields : List (Text × MKind × TyA)} (h : kindsWf fields = true) :
    ∀ f ∈ fields, f.2.1 ≠ .element → isPrimA f.2.2 = true ∧ f.2.2.occ.repeated = false ∧ f.2.2.occ.minOccurs ≤ 1 := by
  simp only [kindsWf, Bool.and_eq_true, List.all_eq_true] at h
  intro f hf hk
  have := h.1 f hf
  obtain ⟨k, kind, t⟩ := f
  match kind, hk, this with
  | .element, hk, _ => exact absurd rfl hk
  | .attribute, _, this =>
    simp only [Bool.and_eq_true, Bool.not_eq_true', decide_eq_true_eq] at this
    exact ⟨this.1.1, this.1.2, this.2⟩
  | .data, _, this =>
    simp only [Bool.and_eq_true, Bool.not_eq_true', decide_eq_true_eq] at this
    exact ⟨this.1.1, this.1.2, by simp only; omega⟩

theorem kindsWf_data {fields : List (Text × MKind × TyA)} (h : kindsWf fields = true) :
    dataCount fields ≤ 1 ∧ (noKind .data fields = true ∨ noKind .element fields = true) := by
  simp only [kindsWf, Bool.and_eq_true, Bool.or_eq_true, decide_eq_true_eq] at h
  refine ⟨h.2.1, ?_⟩
  rcases h.2.2 with h0 | h1
  · left; exact noData_of_count h0
  · right
    simp only [noKind, List.all_eq_true, decide_eq_true_eq] at h1 ⊢
    intro f hf; simpa using h1 f hf

/-! ### frequencies -/

theorem elemNodesA_fieldNames (F : Facts08) (tns cns : Text) (fs : List (Text × MKind × TyA)) (vs : List (Text × Val)) :
    ∀ e ∈ elemNodesA F tns cns fs vs, e.name ∈ fieldNamesA fs :=
  fun e he => namesOfKind_sub .element fs _ (elemNodesA_names F tns cns fs vs e he)

theorem lookup_isSome_of_mem {β : Type} (k : Text) (x : β) : (l : List (Text × β)) → (k, x) ∈ l → (l.lookup k).isSome = true
  | [], h => by cases h
  | (k0, x0) :: l, h => by
    simp only [List.lookup]
    cases hb : (k == k0) with
    | true => rfl
    | false =>
      cases h with
      | head => simp at hb
      | tail _ h => exact lookup_isSome_of_mem k x l h

theorem elemNodesA_cons_elem (F : Facts08) (tns cns k : Text) (t : TyA) (v : Val) (fs : List (Text × MKind × TyA))
    (vs : List (Text × Val)) :
    elemNodesA F tns cns ((k, .element, t) :: fs) ((k, v) :: vs) = memberNodesA F tns cns k t v ++ elemNodesA F tns cns fs vs := by
  simp [elemNodesA]

theorem elemNodesA_cons_mod (F : Facts08) (tns cns k : Text) (kind : MKind) (hk : kind ≠ .element) (t : TyA) (v : Val)
    (fs : List (Text × MKind × TyA)) (vs : List (Text × Val)) :
    elemNodesA F tns cns ((k, kind, t) :: fs) ((k, v) :: vs) = elemNodesA F tns cns fs vs := by
  match kind, hk with
  | .element, hk => exact absurd rfl hk
  | .attribute, _ => simp [elemNodesA]
  | .data, _ => simp [elemNodesA]

def modAttrs (F : Facts08) (k : Text) (kind : MKind) (t : TyA) (v : Val) : List (Text × Text) :=
  match kind with
  | .attribute => attrOne F k t v
  | .data => dataAttrs t v
  | .element => []

theorem attrPairsA_cons (F : Facts08) (k : Text) (kind : MKind) (t : TyA) (v : Val) (fs : List (Text × MKind × TyA))
    (vs : List (Text × Val)) :
    attrPairsA F ((k, kind, t) :: fs) ((k, v) :: vs) = modAttrs F k kind t v ++ attrPairsA F fs vs := by
  simp [attrPairsA, modAttrs]
  cases kind <;> rfl

/-- one conjunct of the soft frequency check -/
def freqSlot (A : FactsAttr) (attrs : List (Text × Text)) (children : List Node) (f : Text × MKind × TyA) : Bool :=
  match f.2.1, A.attrSoftChecked with
  | .data, true => true
  | kind, _ => f.2.2.occ.countOk (memberCount A attrs children f.1 kind)

theorem freqOkA_eq (A : FactsAttr) (fields : List (Text × MKind × TyA)) (attrs : List (Text × Text)) (children : List Node) :
    freqOkA A fields attrs children = fields.all (freqSlot A attrs children) := by
  unfold freqOkA
  congr 1

theorem freq_membersA {F : Facts08} (L : LeafLaws F) (tns cns : Text) {strict : Bool} (A : FactsAttr)
    (hA : A.attrSoftChecked = true) :
    (fs : List (Text × MKind × TyA)) → (vs : List (Text × Val)) → namesNodupA fs = true → wfFieldsA fs = true →
    (∀ f ∈ fs, f.2.1 ≠ .element → isPrimA f.2.2 = true ∧ f.2.2.occ.repeated = false ∧ f.2.2.occ.minOccurs ≤ 1) →
    okFieldsA strict fs vs = true → fitsFieldsV F vs = true →
    ∀ (pre : List Node) (preA : List (Text × Text)), (∀ e ∈ pre, e.name ∉ fieldNamesA fs) →
      fs.all (freqSlot A (preA ++ attrPairsA F fs vs) (pre ++ elemNodesA F tns cns fs vs)) = true
  | [], _, _, _, _, _, _ => by intro pre preA _; rfl
  | _ :: _, [], _, _, _, hok, _ => by simp [okFieldsA] at hok
  | (k, kind, t) :: fs, (k', v) :: vs, hnd, hwf, hmod, hok, hfit => by
    intro pre preA hpre
    rw [okFieldsA_cons] at hok
    simp only [Bool.and_eq_true, decide_eq_true_eq] at hok
    obtain ⟨⟨hk, hf⟩, hrest⟩ := hok
    subst hk
    obtain ⟨hknot, hnd'⟩ := namesNodupA_cons hnd
    simp only [wfFieldsA, Bool.and_eq_true] at hwf
    simp only [fitsFieldsV, Bool.and_eq_true] at hfit
    have hocc : occWf t.occ = true := by
      cases t <;> simp_all [tyWfA, TyA.occ]
    have hmod' : ∀ f ∈ fs, f.2.1 ≠ .element → isPrimA f.2.2 = true ∧ f.2.2.occ.repeated = false ∧ f.2.2.occ.minOccurs ≤ 1 :=
      fun f hf => hmod f (List.mem_cons_of_mem _ hf)
    simp only [List.all_cons, Bool.and_eq_true]
    by_cases hkind : kind = .element
    · subst hkind
      rw [elemNodesA_cons_elem]
      constructor
      · -- the head member
        have h1 : pre.countP (fun c => c.name = k) = 0 := by
          rw [List.countP_eq_zero]
          intro e he
          have := hpre e he
          simp only [fieldNamesA, List.map, List.mem_cons, not_or] at this
          simpa using this.1
        have h2 : (memberNodesA F tns cns k t v).countP (fun c => c.name = k) =
            (memberNodesA F tns cns k t v).length := by
          rw [List.countP_eq_length]
          intro e he
          simpa using memberNodesA_name F tns cns k t v e he
        have h3 : (elemNodesA F tns cns fs vs).countP (fun c => c.name = k) = 0 := by
          rw [List.countP_eq_zero]
          intro e he
          have := elemNodesA_fieldNames F tns cns fs vs e he
          intro hek
          simp only [decide_eq_true_eq] at hek
          rw [hek] at this
          exact hknot this
        have hcnt := memberNodesA_count L tns cns k t v hocc hf hfit.1
        cases hs : A.attrSoftChecked <;>
          simp only [freqSlot, hs, memberCount, List.countP_append, h1, h2, h3, Nat.zero_add, Nat.add_zero] <;> exact hcnt
      · have := freq_membersA L tns cns A hA fs vs hnd' hwf.2 hmod' hrest hfit.2
          (pre ++ memberNodesA F tns cns k t v) preA (by
            intro e he
            rw [List.mem_append] at he
            rcases he with he | he
            · have := hpre e he
              simp only [fieldNamesA, List.map, List.mem_cons, not_or] at this
              exact this.2
            · rw [memberNodesA_name F tns cns k t v e he]
              exact hknot)
        simpa [attrPairsA, List.append_assoc] using this
    · rw [elemNodesA_cons_mod F tns cns k kind hkind]
      obtain ⟨hprim, hrep, hmin⟩ := hmod (k, kind, t) List.mem_cons_self hkind
      obtain ⟨hmax, _⟩ := nonrep_occ hrep hocc
      constructor
      · match kind, hkind, hf with
        | .element, hk, _ => exact absurd rfl hk
        | .data, _, _ => simp only [freqSlot, hA]
        | .attribute, _, hf =>
          simp only [freqSlot, hA, memberCount]
          by_cases hv : v = .none
          · subst hv
            have hm := fieldOkA_mod_none (by simp) hf
            split <;> simp [Occ.countOk, hmax, hm]
          · cases t with
            | obj a b c d e => simp [isPrimA] at hprim
            | arr a b c => simp [isPrimA] at hprim
            | prim p o =>
              have hval := fieldOkA_mod (by simp) hv hf
              obtain ⟨s, hto, _⟩ := L.roundtrip p v hval (leafFits_of_fitsV F p v hfit.1)
              have hmem : (k, s) ∈ preA ++ attrPairsA F ((k, .attribute, .prim p o) :: fs) ((k, v) :: vs) := by
                simp only [attrPairsA, if_true, attrOne_some F k p o v s hv hto]
                simp
              rw [lookup_isSome_of_mem k s _ hmem]
              simp only [if_true]
              simp only [TyA.occ] at hmax hmin
              simp [Occ.countOk, TyA.occ, hmax, hmin]
      · have := freq_membersA L tns cns A hA fs vs hnd' hwf.2 hmod' hrest hfit.2 pre
          (preA ++ modAttrs F k kind t v) (by
            intro e he
            have := hpre e he
            simp only [fieldNamesA, List.map, List.mem_cons, not_or] at this
            exact this.2)
        simpa [attrPairsA_cons, List.append_assoc] using this

/-! ### reading an element the encoder wrote -/

theorem lookup_none_of_plain : (attrs : List (Text × Text)) → (∀ a ∈ attrs, plainName a.1 = true) → ∀ key : Text,
    plainName key = false → attrs.lookup key = none
  | [], _, _, _ => rfl
  | (k, s) :: as, h, key, hkey => by
    have hne : (key == k) = false := by
      cases hb : (key == k) with
      | false => rfl
      | true =>
        have : key = k := by simpa using hb
        subst this
        have := h (key, s) List.mem_cons_self
        simp only at this
        rw [this] at hkey; cases hkey
    simp only [List.lookup, hne]
    exact lookup_none_of_plain as (fun a ha => h a (List.mem_cons_of_mem _ ha)) key hkey

theorem isNil_of_plain (X : FactsXml) (attrs : List (Text × Text)) (h : ∀ a ∈ attrs, plainName a.1 = true) :
    isNil X attrs = false := by
  unfold isNil
  rw [lookup_none_of_plain attrs h xsiNilKey plain_xsiNil]

theorem attrPairsA_plain (F : Facts08) {strict : Bool} :
    (fs : List (Text × MKind × TyA)) → (vs : List (Text × Val)) → fs.all (fun f => plainName f.1) = true →
    okFieldsA strict fs vs = true → ∀ a ∈ attrPairsA F fs vs, plainName a.1 = true
  | [], _, _, _ => by intro a ha; simp [attrPairsA] at ha
  | _ :: _, [], _, _ => by intro a ha; simp [attrPairsA] at ha
  | (k, kind, t) :: fs, (k', v) :: vs, hpl, hok => by
    intro a ha
    rw [okFieldsA_cons] at hok
    simp only [Bool.and_eq_true, decide_eq_true_eq] at hok
    obtain ⟨⟨hk, hf⟩, hrest⟩ := hok
    subst hk
    simp only [List.all_cons, Bool.and_eq_true] at hpl
    rw [attrPairsA_cons, List.mem_append] at ha
    rcases ha with ha | ha
    · match kind, hf, ha with
      | .element, _, ha => simp [modAttrs] at ha
      | .attribute, _, ha =>
        simp only [modAttrs] at ha
        rw [attrOne_keys F k t v a ha]; exact hpl.1
      | .data, hf, ha =>
        simp only [modAttrs] at ha
        rw [dataAttrs_nil t v (fun hv => by subst hv; exact fieldOkA_mod_none (by simp) hf)] at ha
        cases ha
    · exact attrPairsA_plain F fs vs hpl.2 hrest a ha

theorem childLoopA_step {F : Facts08} {X : FactsXml} {A : FactsAttr} {cfg : Cfg} (C : RtCtxA F X A cfg) (I : IfaceA)
    (allFields : List (Text × MKind × TyA)) (e : Node) (rest : List Node) (st : List (Text × Val)) (t : TyA) (w : Val)
    (hk : lookupA allFields e.name = some (.element, t)) (hd : fromElementA F X A cfg I t e = .ok w) :
    childLoopA F X A cfg I allFields (e :: rest) st =
      childLoopA F X A cfg I allFields rest (if t.occ.repeated then stAppend st e.name w else stSet st e.name w) := by
  rw [childLoopA]
  simp only [hk, hd, childAttrLeak, C.hLeak, if_true]

theorem nil_rtA {F : Facts08} {X : FactsXml} {A : FactsAttr} {cfg : Cfg} (C : RtCtxA F X A cfg) (I : IfaceA)
    (ns name : Text) (t : TyA) (hn : t.occ.nillable = true) :
    fromElementA F X A cfg I t (nilElem ns name) = .ok .none := by
  have hN : isNil X [(xsiNilKey, "true".toList)] = true := C.hN
  rw [nilElem, fromElementA, hN]
  simp [hn]

theorem normA_nonrep (t : TyA) (v : Val) (hr : t.occ.repeated = false) : normA t v = normOneA t v := by
  cases v with
  | bytes bs => cases bs <;> simp [normA, normOneA, hr]
  | _ => simp [normA, normOneA, hr]

theorem normOne_prim (I : Iface) (p : PrimTy) (o : Occ) (v : Val) :
    normOneX I (.prim p o) v = normOneA (.prim p o) v := by
  cases v with
  | bytes bs => cases bs <;> simp [normOneX, normOneA]
  | _ => simp [normOneX, normOneA]

/-- a leaf value: `modelbase_to_parent` & co. followed by the leaf handler -/
theorem leaf_one_rtA {F : Facts08} {X : FactsXml} {A : FactsAttr} {cfg : Cfg} (C : RtCtxA F X A cfg) (I : IfaceA)
    (tns ns name : Text) (t : TyA) (ht : tyWfA t = true) (v : Val) (h1 : v ≠ .none)
    (h2 : ∀ cls vs, v ≠ .obj cls vs) (h3 : ∀ vs, v ≠ .list vs)
    (hok : okOneA cfg.soft t v = true) (hfit : fitsV F v = true) :
    ∃ e, toParentA F tns ns name t v = [e] ∧ fromElementA F X A cfg I t e = .ok (normOneA t v) := by
  cases t with
  | obj a b c d e => cases v <;> simp_all [okOneA]
  | arr a b c => cases v <;> simp_all [okOneA]
  | prim p o =>
    have hleaf : leafOk cfg.soft p o v = true := by cases v <;> simp_all [okOneA]
    simp only [tyWfA, Bool.and_eq_true] at ht
    obtain ⟨s, hto, hfrom⟩ := leaf_rt C.L (X := X) cfg C.hE ⟨[], [], []⟩ p o v ht.1 hleaf hfit
    rw [normOne_prim] at hfrom
    refine ⟨.elem ns name [] (mkText s) [], ?_, ?_⟩
    · cases v <;> simp_all [toParentA]
    · rw [fromElementA]
      simp only [isNil_nil, List.lookup]
      simp only [Bool.false_eq_true, if_false, ite_self]
      exact hfrom

/-- the child loop on the single element written for a present single-occurrence element member -/
theorem single_field_stepA {F : Facts08} {X : FactsXml} {A : FactsAttr} {cfg : Cfg} (C : RtCtxA F X A cfg) (I : IfaceA)
    (tns : Text) (allFields : List (Text × MKind × TyA)) (cns k : Text) (t : TyA) (v : Val) (hv : v ≠ .none)
    (hr : t.occ.repeated = false) (hlk : lookupA allFields k = some (.element, t))
    (hone : ∃ e, toParentA F tns cns k t v = [e] ∧ fromElementA F X A cfg I t e = .ok (normOneA t v))
    (done tail : List (Text × Val)) (rest : List Node) (hkdone : k ∉ keys done) :
    childLoopA F X A cfg I allFields (memberNodesA F tns cns k t v ++ rest) (done ++ (k, .none) :: tail) =
      childLoopA F X A cfg I allFields rest (done ++ (k, normA t v) :: tail) := by
  obtain ⟨e, he, hdec⟩ := hone
  have hname := toParentA_name F tns cns k t v e (by rw [he]; exact List.mem_singleton.mpr rfl)
  rw [memberNodesA_nonrep F tns cns k t v hr hv, he, List.cons_append, List.nil_append]
  rw [childLoopA_step C I allFields e _ _ t _ (by rw [hname]; exact hlk) hdec]
  simp only [hr, hname]
  rw [stSet_at done k .none _ _ hkdone, normA_nonrep t v hr]
  simp

theorem lookupA_of_memA : (fs : List (Text × MKind × TyA)) → namesNodupA fs = true →
    ∀ f ∈ fs, lookupA fs f.1 = some f.2
  | [], _, f, h => by cases h
  | (k0, x0) :: fs, hnd, f, h => by
    obtain ⟨hknot, hnd'⟩ := namesNodupA_cons hnd
    cases h with
    | head => simp [lookupA, List.lookup]
    | tail _ h =>
      have hne : (f.1 == k0) = false := by
        cases hb : (f.1 == k0) with
        | false => rfl
        | true =>
          have : f.1 = k0 := by simpa using hb
          exact absurd (by simp only [fieldNamesA, List.mem_map]; exact ⟨f, h, this⟩) hknot
      simp only [lookupA, List.lookup, hne]
      exact lookupA_of_memA fs hnd' f h

/-! ### the round trip -/

theorem stWith_cons (g : MKind → TyA → Val → Val) (k k' : Text) (kind : MKind) (t : TyA) (v : Val)
    (fs : List (Text × MKind × TyA)) (vs : List (Text × Val)) :
    stWith g ((k, kind, t) :: fs) ((k', v) :: vs) = (k, g kind t v) :: stWith g fs vs := rfl

mutual
  /-- one occurrence: `to_parent` writes exactly one element and `from_element` reads it back -/
  theorem one_rtA {F : Facts08} {X : FactsXml} {A : FactsAttr} {cfg : Cfg} (C : RtCtxA F X A cfg) (I : IfaceA)
      (tns ns name : Text) (t : TyA) (ht : tyWfA t = true) :
      (v : Val) → okOneA cfg.soft t v = true → fitsV F v = true →
      ∃ e, toParentA F tns ns name t v = [e] ∧ fromElementA F X A cfg I t e = .ok (normOneA t v)
    | .none, hok, _ => by
      simp only [okOneA] at hok
      exact ⟨nilElem ns name, rfl, by rw [nil_rtA C I ns name t hok]; simp [normOneA]⟩
    | .obj cls vs, hok, hfit => by
      cases t with
      | prim p o => simp [okOneA] at hok
      | arr m el o => simp [okOneA] at hok
      | obj cname cns cb fields o =>
        simp only [okOneA, Bool.and_eq_true, decide_eq_true_eq] at hok
        obtain ⟨hcls, hok⟩ := hok
        subst hcls
        simp only [fitsV] at hfit
        simp only [tyWfA, Bool.and_eq_true] at ht
        obtain ⟨⟨⟨⟨hnd, hpl⟩, hkw⟩, hwf⟩, _⟩ := ht
        have hmod := kindsWf_mod hkw
        obtain ⟨hcnt, hshape⟩ := kindsWf_data hkw
        -- what was written
        have hattrs : (membersA F tns cns fields vs {}).attrs = attrPairsA F fields vs := by
          rw [membersA_attrs]; rfl
        have hchildren : (membersA F tns cns fields vs {}).children = elemNodesA F tns cns fields vs := by
          rw [membersA_children]; rfl
        have htext : (membersA F tns cns fields vs {}).text = dataTextA F fields vs none := by
          rcases hshape with h | h
          · rw [membersA_text_nodata F tns cns fields vs {} h, dataTextA_nodata F fields vs none h]
          · rw [membersA_text_noelem F tns cns fields vs {} h rfl]
        refine ⟨Node.elem ns name (attrPairsA F fields vs) (dataTextA F fields vs none) (elemNodesA F tns cns fields vs),
          by simp only [toParentA, hattrs, hchildren, htext], ?_⟩
        have hplain := attrPairsA_plain F fields vs hpl hok
        have hsub := lookupA_of_memA fields hnd
        -- the three passes
        have hdata := dataPass_rt C fields vs hcnt (fun f hf hk => (hmod f hf (by rw [hk]; simp)).1) hnd hwf hok hfit
          [] (by intro k _ h; cases h)
        have hloop := fields_rtA C I tns fields cns fields vs hsub hnd hwf hok hfit [] [] (by intro k _ h; cases h)
        have hattr := attr_rt C fields fields vs hsub (fun f hf hk => (hmod f hf hk).1) hnd hok hfit
          [] (by intro k _ h; cases h)
        simp only [List.append_nil, List.nil_append] at hdata hloop hattr
        rw [fromElementA]
        simp only [isNil_of_plain X _ hplain, lookup_none_of_plain _ hplain xsiTypeKey plain_xsiType]
        simp only [Bool.false_eq_true, if_false, ite_self]
        simp only [hdata, hloop, childLoopA, hattr]
        have hfin : stWith slotFin fields vs = normFieldsA fields vs := stWith_fin fields vs hok
        by_cases hs : cfg.soft = true
        · have hfreq := freq_membersA C.L tns cns A (C.hSoft hs) fields vs hnd hwf hmod hok hfit [] []
            (by intro e he; cases he)
          simp only [List.nil_append] at hfreq
          simp [freqOkA_eq, hfreq, normOneA, hfin]
        · simp [hs, normOneA, hfin]
    | .list vs, hok, hfit => by
      cases t with
      | prim p o => simp [okOneA] at hok
      | obj a b c d e => simp [okOneA] at hok
      | arr member elem o =>
        simp only [okOneA] at hok
        simp only [fitsV] at hfit
        simp only [tyWfA, Bool.and_eq_true] at ht
        refine ⟨Node.elem ns name [] none
          (itemsA F tns (memberNsA tns ns member elem) (memberLocal member) elem vs), by simp only [toParentA], ?_⟩
        have := arr_items_rtA C I tns (memberNsA tns ns member elem) (memberLocal member) elem ht.1 vs hok hfit
        rw [fromElementA]
        simp only [isNil_nil, List.lookup]
        simp only [Bool.false_eq_true, if_false, ite_self]
        simp only [this]
        simp [normOneA]
    | .int i, hok, hfit => leaf_one_rtA C I tns ns name t ht (.int i) (by simp) (by simp) (by simp) hok hfit
    | .bool i, hok, hfit => leaf_one_rtA C I tns ns name t ht (.bool i) (by simp) (by simp) (by simp) hok hfit
    | .str i, hok, hfit => leaf_one_rtA C I tns ns name t ht (.str i) (by simp) (by simp) (by simp) hok hfit
    | .date i, hok, hfit => leaf_one_rtA C I tns ns name t ht (.date i) (by simp) (by simp) (by simp) hok hfit
    | .time i, hok, hfit => leaf_one_rtA C I tns ns name t ht (.time i) (by simp) (by simp) (by simp) hok hfit
    | .dt i, hok, hfit => leaf_one_rtA C I tns ns name t ht (.dt i) (by simp) (by simp) (by simp) hok hfit
    | .dur i, hok, hfit => leaf_one_rtA C I tns ns name t ht (.dur i) (by simp) (by simp) (by simp) hok hfit
    | .bytes i, hok, hfit => leaf_one_rtA C I tns ns name t ht (.bytes i) (by simp) (by simp) (by simp) hok hfit
    | .enum i, hok, hfit => leaf_one_rtA C I tns ns name t ht (.enum i) (by simp) (by simp) (by simp) hok hfit

  /-- the member loop: the child loop of `complex_from_element` consumes what `_get_members_etree` wrote
      for the element members among `fs` and leaves their (normalised) values in the instance; the slots of
      attribute and data members are not touched -/
  theorem fields_rtA {F : Facts08} {X : FactsXml} {A : FactsAttr} {cfg : Cfg} (C : RtCtxA F X A cfg) (I : IfaceA)
      (tns : Text) (allFields : List (Text × MKind × TyA)) (cns : Text) :
      (fs : List (Text × MKind × TyA)) → (vs : List (Text × Val)) →
      (∀ f ∈ fs, lookupA allFields f.1 = some f.2) → namesNodupA fs = true → wfFieldsA fs = true →
      okFieldsA cfg.soft fs vs = true → fitsFieldsV F vs = true →
      ∀ (done : List (Text × Val)) (rest : List Node), (∀ k ∈ fieldNamesA fs, k ∉ keys done) →
        childLoopA F X A cfg I allFields (elemNodesA F tns cns fs vs ++ rest) (done ++ stWith slotData fs vs) =
          childLoopA F X A cfg I allFields rest (done ++ stWith slotMid fs vs)
    | [], [], _, _, _, _, _ => by
      intro done rest _
      simp [elemNodesA, stWith]
    | [], _ :: _, _, _, _, hok, _ => by simp [okFieldsA] at hok
    | _ :: _, [], _, _, _, hok, _ => by simp [okFieldsA] at hok
    | (k, kind, t) :: fs, (k', v) :: vs, hsub, hnd, hwf, hok, hfit => by
      intro done rest hdone
      rw [okFieldsA_cons] at hok
      simp only [Bool.and_eq_true, decide_eq_true_eq] at hok
      obtain ⟨⟨hk, hf⟩, hrest⟩ := hok
      subst hk
      obtain ⟨hknot, hnd'⟩ := namesNodupA_cons hnd
      simp only [wfFieldsA, Bool.and_eq_true] at hwf
      simp only [fitsFieldsV, Bool.and_eq_true] at hfit
      have hkdone : k ∉ keys done := hdone k (by simp [fieldNamesA])
      -- the remaining members, once this one is done
      have tailStep : ∀ w : Val,
          childLoopA F X A cfg I allFields (elemNodesA F tns cns fs vs ++ rest)
            (done ++ (k, w) :: stWith slotData fs vs) =
          childLoopA F X A cfg I allFields rest (done ++ (k, w) :: stWith slotMid fs vs) := by
        intro w
        have := fields_rtA C I tns allFields cns fs vs (fun f hf => hsub f (List.mem_cons_of_mem _ hf)) hnd'
          hwf.2 hrest hfit.2 (done ++ [(k, w)]) rest (done_step hknot hdone w)
        simpa [List.append_assoc] using this
      rw [stWith_cons, stWith_cons]
      by_cases hkind : kind = .element
      · subst hkind
        have hlk : lookupA allFields k = some (.element, t) := hsub (k, .element, t) List.mem_cons_self
        rw [elemNodesA_cons_elem, List.append_assoc]
        simp only [slotData, slotMid]
        by_cases hr : t.occ.repeated = true
        · -- a repeated member
          cases v with
          | none =>
            simp only [fieldOkA, hr, Bool.not_true, Bool.and_false, Bool.or_false, decide_eq_true_eq] at hf
            have : memberNodesA F tns cns k t .none = [] := by simp [memberNodesA, hf]
            rw [this, List.nil_append]
            have hn : normA t .none = .none := by simp [normA]
            rw [hn]; exact tailStep .none
          | list items =>
            simp only [fieldOkA, okA, hr, if_true, Bool.and_eq_true] at hf
            simp only [fitsV] at hfit
            have : memberNodesA F tns cns k t (.list items) = itemsA F tns cns k t items := by
              simp [memberNodesA, hr]
            rw [this]
            have hstep := rep_items_rtA C I tns allFields cns k t hwf.1 hlk hr items hf.2 hfit.1 done .none
              (stWith slotData fs vs) (elemNodesA F tns cns fs vs ++ rest) hkdone
            rw [hstep]
            have hn : normA t (.list items) = accApp .none (normItemsA t items) := by
              cases items <;> simp [normA, hr, accApp, normItemsA]
            rw [hn]; exact tailStep _
          | _ => simp [fieldOkA, okA, hr] at hf
        · -- a single-occurrence member
          have hr' : t.occ.repeated = false := by simpa using hr
          cases v with
          | none =>
            have hn : normA t .none = .none := by simp [normA]
            rw [hn]
            simp only [memberNodesA]
            split
            · -- written as an xsi:nil element
              rename_i hmin
              simp only [fieldOkA, hr', Bool.not_false, Bool.and_true, Bool.or_eq_true, decide_eq_true_eq] at hf
              have hnil : t.occ.nillable = true := by
                rcases hf with h | h
                · omega
                · exact h
              have hdec := nil_rtA C I cns k t hnil
              rw [List.cons_append, List.nil_append]
              rw [childLoopA_step C I allFields (nilElem cns k) _ _ t _ hlk hdec]
              simp only [hr']
              have : (nilElem cns k).name = k := rfl
              simp only [this, Bool.false_eq_true, if_false]
              rw [stSet_at done k .none .none _ hkdone]
              exact tailStep .none
            · rw [List.nil_append]; exact tailStep .none
          | obj cls ws =>
            simp only [fieldOkA] at hf
            rw [okA_nonrep hr' (by simp)] at hf
            rw [single_field_stepA C I tns allFields cns k t _ (by simp) hr' hlk
              (one_rtA C I tns cns k t hwf.1 (.obj cls ws) hf hfit.1) done _ _ hkdone]
            exact tailStep _
          | list items =>
            simp only [fieldOkA] at hf
            rw [okA_nonrep hr' (by simp)] at hf
            rw [single_field_stepA C I tns allFields cns k t _ (by simp) hr' hlk
              (one_rtA C I tns cns k t hwf.1 (.list items) hf hfit.1) done _ _ hkdone]
            exact tailStep _
          | int i =>
            simp only [fieldOkA] at hf
            rw [okA_nonrep hr' (by simp)] at hf
            rw [single_field_stepA C I tns allFields cns k t _ (by simp) hr' hlk
              (leaf_one_rtA C I tns cns k t hwf.1 (.int i) (by simp) (by simp) (by simp) hf hfit.1) done _ _ hkdone]
            exact tailStep _
          | bool i =>
            simp only [fieldOkA] at hf
            rw [okA_nonrep hr' (by simp)] at hf
            rw [single_field_stepA C I tns allFields cns k t _ (by simp) hr' hlk
              (leaf_one_rtA C I tns cns k t hwf.1 (.bool i) (by simp) (by simp) (by simp) hf hfit.1) done _ _ hkdone]
            exact tailStep _
          | str i =>
            simp only [fieldOkA] at hf
            rw [okA_nonrep hr' (by simp)] at hf
            rw [single_field_stepA C I tns allFields cns k t _ (by simp) hr' hlk
              (leaf_one_rtA C I tns cns k t hwf.1 (.str i) (by simp) (by simp) (by simp) hf hfit.1) done _ _ hkdone]
            exact tailStep _
          | date i =>
            simp only [fieldOkA] at hf
            rw [okA_nonrep hr' (by simp)] at hf
            rw [single_field_stepA C I tns allFields cns k t _ (by simp) hr' hlk
              (leaf_one_rtA C I tns cns k t hwf.1 (.date i) (by simp) (by simp) (by simp) hf hfit.1) done _ _ hkdone]
            exact tailStep _
          | time i =>
            simp only [fieldOkA] at hf
            rw [okA_nonrep hr' (by simp)] at hf
            rw [single_field_stepA C I tns allFields cns k t _ (by simp) hr' hlk
              (leaf_one_rtA C I tns cns k t hwf.1 (.time i) (by simp) (by simp) (by simp) hf hfit.1) done _ _ hkdone]
            exact tailStep _
          | dt i =>
            simp only [fieldOkA] at hf
            rw [okA_nonrep hr' (by simp)] at hf
            rw [single_field_stepA C I tns allFields cns k t _ (by simp) hr' hlk
              (leaf_one_rtA C I tns cns k t hwf.1 (.dt i) (by simp) (by simp) (by simp) hf hfit.1) done _ _ hkdone]
            exact tailStep _
          | dur i =>
            simp only [fieldOkA] at hf
            rw [okA_nonrep hr' (by simp)] at hf
            rw [single_field_stepA C I tns allFields cns k t _ (by simp) hr' hlk
              (leaf_one_rtA C I tns cns k t hwf.1 (.dur i) (by simp) (by simp) (by simp) hf hfit.1) done _ _ hkdone]
            exact tailStep _
          | bytes i =>
            simp only [fieldOkA] at hf
            rw [okA_nonrep hr' (by simp)] at hf
            rw [single_field_stepA C I tns allFields cns k t _ (by simp) hr' hlk
              (leaf_one_rtA C I tns cns k t hwf.1 (.bytes i) (by simp) (by simp) (by simp) hf hfit.1) done _ _ hkdone]
            exact tailStep _
          | enum i =>
            simp only [fieldOkA] at hf
            rw [okA_nonrep hr' (by simp)] at hf
            rw [single_field_stepA C I tns allFields cns k t _ (by simp) hr' hlk
              (leaf_one_rtA C I tns cns k t hwf.1 (.enum i) (by simp) (by simp) (by simp) hf hfit.1) done _ _ hkdone]
            exact tailStep _
      · -- attribute and data members write no child element and their slot stays as it is
        rw [elemNodesA_cons_mod F tns cns k kind hkind]
        have : slotData kind t v = slotMid kind t v := by
          match kind, hkind with
          | .element, h => exact absurd rfl h
          | .attribute, _ => rfl
          | .data, _ => rfl
        rw [this]
        exact tailStep _

  /-- items of a wrapped array -/
  theorem arr_items_rtA {F : Facts08} {X : FactsXml} {A : FactsAttr} {cfg : Cfg} (C : RtCtxA F X A cfg) (I : IfaceA)
      (tns ns name : Text) (elem : TyA) (ht : tyWfA elem = true) :
      (vs : List Val) → okItemsA cfg.soft elem vs = true → fitsItemsV F vs = true →
      arrayLoopA F X A cfg I elem (itemsA F tns ns name elem vs) = .ok (normItemsA elem vs)
    | [], _, _ => by simp [itemsA, arrayLoopA, normItemsA]
    | v :: vs, hok, hfit => by
      simp only [okItemsA, Bool.and_eq_true] at hok
      simp only [fitsItemsV, Bool.and_eq_true] at hfit
      obtain ⟨e, he, hdec⟩ := one_rtA C I tns ns name elem ht v hok.1 hfit.1
      have ih := arr_items_rtA C I tns ns name elem ht vs hok.2 hfit.2
      simp [itemsA, he, arrayLoopA, hdec, ih, normItemsA]

  /-- occurrences of a repeated member accumulate in the instance -/
  theorem rep_items_rtA {F : Facts08} {X : FactsXml} {A : FactsAttr} {cfg : Cfg} (C : RtCtxA F X A cfg) (I : IfaceA)
      (tns : Text) (allFields : List (Text × MKind × TyA)) (cns k : Text) (t : TyA) (ht : tyWfA t = true)
      (hlk : lookupA allFields k = some (.element, t)) (hr : t.occ.repeated = true) :
      (items : List Val) → okItemsA cfg.soft t items = true → fitsItemsV F items = true →
      ∀ (done : List (Text × Val)) (acc : Val) (tail : List (Text × Val)) (rest : List Node), k ∉ keys done →
        childLoopA F X A cfg I allFields (itemsA F tns cns k t items ++ rest) (done ++ (k, acc) :: tail) =
          childLoopA F X A cfg I allFields rest (done ++ (k, accApp acc (normItemsA t items)) :: tail)
    | [], _, _ => by
      intro done acc tail rest _
      simp [itemsA, normItemsA, accApp]
    | v :: vs, hok, hfit => by
      intro done acc tail rest hk
      simp only [okItemsA, Bool.and_eq_true] at hok
      simp only [fitsItemsV, Bool.and_eq_true] at hfit
      obtain ⟨e, he, hdec⟩ := one_rtA C I tns cns k t ht v hok.1 hfit.1
      have hname := toParentA_name F tns cns k t v e (by rw [he]; exact List.mem_singleton.mpr rfl)
      simp only [itemsA, he, List.cons_append, List.nil_append, List.append_assoc]
      rw [childLoopA_step C I allFields e _ _ t _ (by rw [hname]; exact hlk) hdec]
      simp only [hr, if_true, hname]
      rw [stAppend_at done k acc _ tail hk]
      rw [rep_items_rtA C I tns allFields cns k t ht hlk hr vs hok.2 hfit.2 done _ tail rest hk]
      simp only [normItemsA, accApp_step]
end

/-- C01 for classes with attribute and data members -/
theorem xml_roundtrip_attrs {F : Facts08} {X : FactsXml} {A : FactsAttr} {cfg : Cfg} (C : RtCtxA F X A cfg) (I : IfaceA)
    (tns ns name : Text) (t : TyA) (ht : tyWfA t = true) (v : Val) (hok : okOneA cfg.soft t v = true)
    (hfit : fitsV F v = true) :
    ∃ e, encodeA F tns ns name t v = [e] ∧ decodeA F X A cfg I t e = .ok (normOneA t v) :=
  one_rtA C I tns ns name t ht v hok hfit

end Xml
end SpyneModel
