/-
  C12 lemmas, part 1: the lazily built WSDL document.

  `GInv` is an inductive invariant of `expectedSkeleton` under the interleaving semantics of
  SpyneModel/Conc.lean: it holds initially and is preserved by every step of every thread
  (`ginv_step`: case split on the program counter, closed by `grind`), hence in every state any
  schedule of any number of threads can reach.
-/
import SpyneModel.Conc
set_option linter.unusedSimpArgs false
set_option linter.unusedVariables false
namespace SpyneModel.Conc

/-! ### generic facts about the semantics (any program) -/

theorem setLoc_loc (s : State) (i : Nat) (l : Local) (j : Nat) :
    (s.setLoc i l).loc j = if j = i then l else s.loc j := rfl

theorem run_append (rs : Bool) (p : Prog) (a b : List Nat) :
    ∀ s, run rs p s (a ++ b) = run rs p (run rs p s a) b := by
  induction a with
  | nil => intro s; rfl
  | cons i rest ih => intro s; simp only [List.cons_append, run]; exact ih _

/-- a step of thread `i` never touches the private state of another thread -/
theorem step_other (rs : Bool) (p : Prog) (s : State) (i j : Nat) (h : j ≠ i) :
    (step rs p s i).loc j = s.loc j := by
  unfold step
  dsimp only
  split
  · rfl
  · split <;> (try split) <;> simp [State.setLoc, h]

theorem localRun_is_run (rs : Bool) (p : Prog) (i : Nat) (fuel : Nat) :
    ∀ s, ∃ k, localRun rs p fuel s i = run rs p s (List.replicate k i) := by
  induction fuel with
  | zero => intro s; exact ⟨0, rfl⟩
  | succ n ih =>
    intro s
    simp only [localRun]
    split
    · obtain ⟨k, hk⟩ := ih (step rs p s i)
      exact ⟨k + 1, by rw [hk]; rfl⟩
    · exact ⟨0, rfl⟩

/-- a macro step (what one baton hand-over of the real scheduler executes) is a sequence of
    ordinary steps of the same thread -/
theorem macroStep_is_run (rs : Bool) (p : Prog) (s : State) (i : Nat) :
    ∃ l, macroStep rs p s i = run rs p s l := by
  unfold macroStep
  obtain ⟨k1, h1⟩ := localRun_is_run rs p i p.length s
  obtain ⟨k2, h2⟩ := localRun_is_run rs p i p.length (step rs p (localRun rs p p.length s i) i)
  refine ⟨List.replicate k1 i ++ ([i] ++ List.replicate k2 i), ?_⟩
  rw [h2, h1, run_append, run_append]
  rfl

theorem runMacro_is_run (rs : Bool) (p : Prog) (sched : List Nat) :
    ∀ s, ∃ l, runMacro rs p s sched = run rs p s l := by
  induction sched with
  | nil => intro s; exact ⟨[], rfl⟩
  | cons i rest ih =>
    intro s
    obtain ⟨l1, h1⟩ := macroStep_is_run rs p s i
    obtain ⟨l2, h2⟩ := ih (macroStep rs p s i)
    exact ⟨l1 ++ l2, by simp only [runMacro]; rw [h2, h1, run_append]⟩

/-! ### the invariant of `expectedSkeleton` -/

/-- a place holds nothing or the sequential document -/
def okv (v : Option Doc) : Prop := v = none ∨ v = some .whole

/-- per-thread part of the invariant, indexed by the program counter -/
structure TInv (s : State) (i : Nat) : Prop where
  w_ok : okv (s.loc i).w
  t_ok : okv (s.loc i).t
  resp_ok : (s.loc i).resp = none ∨ (s.loc i).resp = some (some .whole)
  pc_le : (s.loc i).pc ≤ 18
  resp_iff : (s.loc i).pc = 18 ↔ (s.loc i).resp ≠ none
  /-- inside the locked region ⇒ holds the lock -/
  crit : 8 ≤ (s.loc i).pc → (s.loc i).pc ≤ 16 → s.lock = some i
  /-- holds the lock ⇒ inside the locked region -/
  crit' : s.lock = some i → 8 ≤ (s.loc i).pc ∧ (s.loc i).pc ≤ 16
  p3 : ((s.loc i).pc = 3 ∨ (s.loc i).pc = 4) → (s.loc i).t ≠ none → s.builds = 1
  p4 : (s.loc i).pc = 4 → (s.loc i).t ≠ none
  p8 : (s.loc i).pc = 8 → (s.builds = 0 ∨ s.cache = some .whole)
  p9 : (s.loc i).pc = 9 →
    ((s.loc i).w = none → s.builds = 0) ∧ ((s.loc i).w ≠ none → s.cache = some .whole)
  p10 : (s.loc i).pc = 10 → s.builds = 0
  p11 : (s.loc i).pc = 11 → s.builds = 1 ∧ s.filled = false
  p12 : (s.loc i).pc = 12 → s.builds = 1 ∧ (s.loc i).mine = true
  p13 : (s.loc i).pc = 13 → s.builds = 1 ∧ s.pub = some .whole
  p14 : (s.loc i).pc = 14 → s.builds = 1 ∧ (s.loc i).t = some .whole
  p15 : (s.loc i).pc = 15 → s.builds = 1 ∧ (s.loc i).t = some .whole ∧ (s.loc i).w = some .whole
  p16 : (s.loc i).pc = 16 → s.cache = some .whole ∧ (s.loc i).w = some .whole
  p17 : (s.loc i).pc = 17 → (s.loc i).w = some .whole

structure GInv (s : State) : Prop where
  cache_ok : okv s.cache
  pub_ok : okv s.pub
  /-- nothing is visible before the first build has started -/
  b0 : s.builds = 0 → s.pub = none ∧ s.cache = none ∧ s.filled = false
  b1 : s.builds ≤ 1
  /-- with the lock free, either nothing was built yet or the cache is filled -/
  free : s.lock = none → (s.builds = 0 ∨ s.cache = some .whole)
  thr : ∀ i, TInv s i

theorem ginv_init : GInv init := by
  constructor <;> try simp [init, okv]
  intro i; constructor <;> simp [okv]

set_option maxHeartbeats 1000000 in
theorem ginv_step_g0 (rs : Bool) (s : State) (i : Nat) (h : GInv s)
    (hpc : 0 ≤ (s.loc i).pc ∧ (s.loc i).pc < 3) : GInv (step rs expectedSkeleton s i) := by
  have hi := h.thr i
  obtain ⟨c1, c2, c3, c4, c5, c6⟩ := h
  unfold step
  generalize hl : s.loc i = l at *
  obtain ⟨pc, w, t, mine, resp⟩ := l
  obtain ⟨a1, a2, a3, a4, a5, a6, a7, a8, a9, a10, a11, a12, a13, a14, a15, a16, a17, a18, a19⟩ := hi
  simp only at *
  match pc with
  | 0 | 1 | 2 =>
    simp only [expectedSkeleton, List.getElem?_cons_succ, List.getElem?_cons_zero, Local.set, Local.get]
    try split
    all_goals
      apply GInv.mk
      · grind [State.setLoc, okv]
      · grind [State.setLoc, okv]
      · grind [State.setLoc, okv]
      · grind [State.setLoc, okv]
      · grind [State.setLoc, okv]
      · intro j
        have hj := c6 j
        by_cases hji : j = i
        · subst hji
          constructor <;> grind [State.setLoc, okv]
        · obtain ⟨b1, b2, b3, b4, b5, b6, b7, b8, b9, b10, b11, b12, b13, b14, b15, b16, b17, b18, b19⟩ := hj
          constructor <;> grind [State.setLoc, okv]
  | n + 3 => omega

set_option maxHeartbeats 1000000 in
theorem ginv_step_g1 (rs : Bool) (s : State) (i : Nat) (h : GInv s)
    (hpc : 3 ≤ (s.loc i).pc ∧ (s.loc i).pc < 5) : GInv (step rs expectedSkeleton s i) := by
  have hi := h.thr i
  obtain ⟨c1, c2, c3, c4, c5, c6⟩ := h
  unfold step
  generalize hl : s.loc i = l at *
  obtain ⟨pc, w, t, mine, resp⟩ := l
  obtain ⟨a1, a2, a3, a4, a5, a6, a7, a8, a9, a10, a11, a12, a13, a14, a15, a16, a17, a18, a19⟩ := hi
  simp only at *
  match pc with
  | 3 | 4 =>
    simp only [expectedSkeleton, List.getElem?_cons_succ, List.getElem?_cons_zero, Local.set, Local.get]
    try split
    all_goals
      apply GInv.mk
      · grind [State.setLoc, okv]
      · grind [State.setLoc, okv]
      · grind [State.setLoc, okv]
      · grind [State.setLoc, okv]
      · grind [State.setLoc, okv]
      · intro j
        have hj := c6 j
        by_cases hji : j = i
        · subst hji
          constructor <;> grind [State.setLoc, okv]
        · obtain ⟨b1, b2, b3, b4, b5, b6, b7, b8, b9, b10, b11, b12, b13, b14, b15, b16, b17, b18, b19⟩ := hj
          constructor <;> grind [State.setLoc, okv]
  | n + 5 => omega
  | 0 | 1 | 2 => omega

set_option maxHeartbeats 1000000 in
theorem ginv_step_g2 (rs : Bool) (s : State) (i : Nat) (h : GInv s)
    (hpc : 5 ≤ (s.loc i).pc ∧ (s.loc i).pc < 8) : GInv (step rs expectedSkeleton s i) := by
  have hi := h.thr i
  obtain ⟨c1, c2, c3, c4, c5, c6⟩ := h
  unfold step
  generalize hl : s.loc i = l at *
  obtain ⟨pc, w, t, mine, resp⟩ := l
  obtain ⟨a1, a2, a3, a4, a5, a6, a7, a8, a9, a10, a11, a12, a13, a14, a15, a16, a17, a18, a19⟩ := hi
  simp only at *
  match pc with
  | 5 | 6 | 7 =>
    simp only [expectedSkeleton, List.getElem?_cons_succ, List.getElem?_cons_zero, Local.set, Local.get]
    try split
    all_goals
      apply GInv.mk
      · grind [State.setLoc, okv]
      · grind [State.setLoc, okv]
      · grind [State.setLoc, okv]
      · grind [State.setLoc, okv]
      · grind [State.setLoc, okv]
      · intro j
        have hj := c6 j
        by_cases hji : j = i
        · subst hji
          constructor <;> grind [State.setLoc, okv]
        · obtain ⟨b1, b2, b3, b4, b5, b6, b7, b8, b9, b10, b11, b12, b13, b14, b15, b16, b17, b18, b19⟩ := hj
          constructor <;> grind [State.setLoc, okv]
  | n + 8 => omega
  | 0 | 1 | 2 | 3 | 4 => omega

set_option maxHeartbeats 1000000 in
theorem ginv_step_g3 (rs : Bool) (s : State) (i : Nat) (h : GInv s)
    (hpc : 8 ≤ (s.loc i).pc ∧ (s.loc i).pc < 10) : GInv (step rs expectedSkeleton s i) := by
  have hi := h.thr i
  obtain ⟨c1, c2, c3, c4, c5, c6⟩ := h
  unfold step
  generalize hl : s.loc i = l at *
  obtain ⟨pc, w, t, mine, resp⟩ := l
  obtain ⟨a1, a2, a3, a4, a5, a6, a7, a8, a9, a10, a11, a12, a13, a14, a15, a16, a17, a18, a19⟩ := hi
  simp only at *
  match pc with
  | 8 | 9 =>
    simp only [expectedSkeleton, List.getElem?_cons_succ, List.getElem?_cons_zero, Local.set, Local.get]
    try split
    all_goals
      apply GInv.mk
      · grind [State.setLoc, okv]
      · grind [State.setLoc, okv]
      · grind [State.setLoc, okv]
      · grind [State.setLoc, okv]
      · grind [State.setLoc, okv]
      · intro j
        have hj := c6 j
        by_cases hji : j = i
        · subst hji
          constructor <;> grind [State.setLoc, okv]
        · obtain ⟨b1, b2, b3, b4, b5, b6, b7, b8, b9, b10, b11, b12, b13, b14, b15, b16, b17, b18, b19⟩ := hj
          constructor <;> grind [State.setLoc, okv]
  | n + 10 => omega
  | 0 | 1 | 2 | 3 | 4 | 5 | 6 | 7 => omega

set_option maxHeartbeats 1000000 in
theorem ginv_step_g4 (rs : Bool) (s : State) (i : Nat) (h : GInv s)
    (hpc : 10 ≤ (s.loc i).pc ∧ (s.loc i).pc < 12) : GInv (step rs expectedSkeleton s i) := by
  have hi := h.thr i
  obtain ⟨c1, c2, c3, c4, c5, c6⟩ := h
  unfold step
  generalize hl : s.loc i = l at *
  obtain ⟨pc, w, t, mine, resp⟩ := l
  obtain ⟨a1, a2, a3, a4, a5, a6, a7, a8, a9, a10, a11, a12, a13, a14, a15, a16, a17, a18, a19⟩ := hi
  simp only at *
  match pc with
  | 10 | 11 =>
    simp only [expectedSkeleton, List.getElem?_cons_succ, List.getElem?_cons_zero, Local.set, Local.get]
    try split
    all_goals
      apply GInv.mk
      · grind [State.setLoc, okv]
      · grind [State.setLoc, okv]
      · grind [State.setLoc, okv]
      · grind [State.setLoc, okv]
      · grind [State.setLoc, okv]
      · intro j
        have hj := c6 j
        by_cases hji : j = i
        · subst hji
          constructor <;> grind [State.setLoc, okv]
        · obtain ⟨b1, b2, b3, b4, b5, b6, b7, b8, b9, b10, b11, b12, b13, b14, b15, b16, b17, b18, b19⟩ := hj
          constructor <;> grind [State.setLoc, okv]
  | n + 12 => omega
  | 0 | 1 | 2 | 3 | 4 | 5 | 6 | 7 | 8 | 9 => omega

set_option maxHeartbeats 1000000 in
theorem ginv_step_g5 (rs : Bool) (s : State) (i : Nat) (h : GInv s)
    (hpc : 12 ≤ (s.loc i).pc ∧ (s.loc i).pc < 14) : GInv (step rs expectedSkeleton s i) := by
  have hi := h.thr i
  obtain ⟨c1, c2, c3, c4, c5, c6⟩ := h
  unfold step
  generalize hl : s.loc i = l at *
  obtain ⟨pc, w, t, mine, resp⟩ := l
  obtain ⟨a1, a2, a3, a4, a5, a6, a7, a8, a9, a10, a11, a12, a13, a14, a15, a16, a17, a18, a19⟩ := hi
  simp only at *
  match pc with
  | 12 | 13 =>
    simp only [expectedSkeleton, List.getElem?_cons_succ, List.getElem?_cons_zero, Local.set, Local.get]
    try split
    all_goals
      apply GInv.mk
      · grind [State.setLoc, okv]
      · grind [State.setLoc, okv]
      · grind [State.setLoc, okv]
      · grind [State.setLoc, okv]
      · grind [State.setLoc, okv]
      · intro j
        have hj := c6 j
        by_cases hji : j = i
        · subst hji
          constructor <;> grind [State.setLoc, okv]
        · obtain ⟨b1, b2, b3, b4, b5, b6, b7, b8, b9, b10, b11, b12, b13, b14, b15, b16, b17, b18, b19⟩ := hj
          constructor <;> grind [State.setLoc, okv]
  | n + 14 => omega
  | 0 | 1 | 2 | 3 | 4 | 5 | 6 | 7 | 8 | 9 | 10 | 11 => omega

set_option maxHeartbeats 1000000 in
theorem ginv_step_g6 (rs : Bool) (s : State) (i : Nat) (h : GInv s)
    (hpc : 14 ≤ (s.loc i).pc ∧ (s.loc i).pc < 16) : GInv (step rs expectedSkeleton s i) := by
  have hi := h.thr i
  obtain ⟨c1, c2, c3, c4, c5, c6⟩ := h
  unfold step
  generalize hl : s.loc i = l at *
  obtain ⟨pc, w, t, mine, resp⟩ := l
  obtain ⟨a1, a2, a3, a4, a5, a6, a7, a8, a9, a10, a11, a12, a13, a14, a15, a16, a17, a18, a19⟩ := hi
  simp only at *
  match pc with
  | 14 | 15 =>
    simp only [expectedSkeleton, List.getElem?_cons_succ, List.getElem?_cons_zero, Local.set, Local.get]
    try split
    all_goals
      apply GInv.mk
      · grind [State.setLoc, okv]
      · grind [State.setLoc, okv]
      · grind [State.setLoc, okv]
      · grind [State.setLoc, okv]
      · grind [State.setLoc, okv]
      · intro j
        have hj := c6 j
        by_cases hji : j = i
        · subst hji
          constructor <;> grind [State.setLoc, okv]
        · obtain ⟨b1, b2, b3, b4, b5, b6, b7, b8, b9, b10, b11, b12, b13, b14, b15, b16, b17, b18, b19⟩ := hj
          constructor <;> grind [State.setLoc, okv]
  | n + 16 => omega
  | 0 | 1 | 2 | 3 | 4 | 5 | 6 | 7 | 8 | 9 | 10 | 11 | 12 | 13 => omega

set_option maxHeartbeats 1000000 in
theorem ginv_step_g7 (rs : Bool) (s : State) (i : Nat) (h : GInv s)
    (hpc : 16 ≤ (s.loc i).pc ∧ (s.loc i).pc < 18) : GInv (step rs expectedSkeleton s i) := by
  have hi := h.thr i
  obtain ⟨c1, c2, c3, c4, c5, c6⟩ := h
  unfold step
  generalize hl : s.loc i = l at *
  obtain ⟨pc, w, t, mine, resp⟩ := l
  obtain ⟨a1, a2, a3, a4, a5, a6, a7, a8, a9, a10, a11, a12, a13, a14, a15, a16, a17, a18, a19⟩ := hi
  simp only at *
  match pc with
  | 16 | 17 =>
    simp only [expectedSkeleton, List.getElem?_cons_succ, List.getElem?_cons_zero, Local.set, Local.get, List.length_cons, List.length_nil]
    try split
    all_goals
      apply GInv.mk
      · grind [State.setLoc, okv]
      · grind [State.setLoc, okv]
      · grind [State.setLoc, okv]
      · grind [State.setLoc, okv]
      · grind [State.setLoc, okv]
      · intro j
        have hj := c6 j
        by_cases hji : j = i
        · subst hji
          constructor <;> grind [State.setLoc, okv]
        · obtain ⟨b1, b2, b3, b4, b5, b6, b7, b8, b9, b10, b11, b12, b13, b14, b15, b16, b17, b18, b19⟩ := hj
          constructor <;> grind [State.setLoc, okv]
  | n + 18 => omega
  | 0 | 1 | 2 | 3 | 4 | 5 | 6 | 7 | 8 | 9 | 10 | 11 | 12 | 13 | 14 | 15 => omega

/-- the invariant is preserved by every step of every thread -/
theorem ginv_step (rs : Bool) (s : State) (i : Nat) (h : GInv s) : GInv (step rs expectedSkeleton s i) := by
  by_cases h18 : (s.loc i).pc < 18
  · rcases Nat.lt_or_ge (s.loc i).pc 3 with h3 | h3
    · exact ginv_step_g0 rs s i h (by omega)
    rcases Nat.lt_or_ge (s.loc i).pc 5 with h5 | h5
    · exact ginv_step_g1 rs s i h (by omega)
    rcases Nat.lt_or_ge (s.loc i).pc 8 with h8 | h8
    · exact ginv_step_g2 rs s i h (by omega)
    rcases Nat.lt_or_ge (s.loc i).pc 10 with h10 | h10
    · exact ginv_step_g3 rs s i h (by omega)
    rcases Nat.lt_or_ge (s.loc i).pc 12 with h12 | h12
    · exact ginv_step_g4 rs s i h (by omega)
    rcases Nat.lt_or_ge (s.loc i).pc 14 with h14 | h14
    · exact ginv_step_g5 rs s i h (by omega)
    rcases Nat.lt_or_ge (s.loc i).pc 16 with h16 | h16
    · exact ginv_step_g6 rs s i h (by omega)
    rcases Nat.lt_or_ge (s.loc i).pc 18 with h18 | h18
    · exact ginv_step_g7 rs s i h (by omega)
    omega
  · have hnone : expectedSkeleton[(s.loc i).pc]? = none := by
      apply List.getElem?_eq_none; simp [expectedSkeleton]; omega
    unfold step; simp only [hnone]; exact h

theorem ginv_run (rs : Bool) (sched : List Nat) :
    ∀ s, GInv s → GInv (run rs expectedSkeleton s sched) := by
  induction sched with
  | nil => intro s h; exact h
  | cons i rest ih => intro s h; exact ih _ (ginv_step rs s i h)

theorem ginv_reachable (rs : Bool) (sched : List Nat) : GInv (run rs expectedSkeleton init sched) :=
  ginv_run rs sched init ginv_init

/-! ### consequences -/

/-- a filled cache is never emptied or replaced -/
theorem cache_stays_step (rs : Bool) (s : State) (i : Nat) (h : GInv s) (hc : s.cache = some .whole) :
    (step rs expectedSkeleton s i).cache = some .whole := by
  have hi := h.thr i
  unfold step
  generalize hl : s.loc i = l at *
  obtain ⟨pc, w, t, mine, resp⟩ := l
  obtain ⟨a1, a2, a3, a4, a5, a6, a7, a8, a9, a10, a11, a12, a13, a14, a15, a16, a17, a18, a19⟩ := hi
  simp only at *
  match pc with
  | 0 | 1 | 2 | 3 | 4 | 5 | 6 | 7 | 8 | 9 | 10 | 11 | 12 | 13 | 14 | 15 | 16 | 17 =>
    simp only [expectedSkeleton, List.getElem?_cons_succ, List.getElem?_cons_zero, Local.set, Local.get]
    try split
    all_goals grind [State.setLoc, okv]
  | n + 18 =>
    have : expectedSkeleton[n + 18]? = none := by simp [expectedSkeleton]
    simp only [this]; exact hc

theorem cache_stays_run (rs : Bool) (sched : List Nat) :
    ∀ s, GInv s → s.cache = some .whole → (run rs expectedSkeleton s sched).cache = some .whole := by
  induction sched with
  | nil => intro s _ hc; exact hc
  | cons i rest ih =>
    intro s h hc
    exact ih _ (ginv_step rs s i h) (cache_stays_step rs s i h hc)

/-- at most one thread is between `acquire` and `release` -/
theorem mutex_of_ginv (s : State) (h : GInv s) (i j : Nat)
    (hi : 8 ≤ (s.loc i).pc ∧ (s.loc i).pc ≤ 16) (hj : 8 ≤ (s.loc j).pc ∧ (s.loc j).pc ≤ 16) : i = j := by
  have h1 := (h.thr i).crit hi.1 hi.2
  have h2 := (h.thr j).crit hj.1 hj.2
  rw [h1] at h2
  exact Option.some.inj h2

/-- a thread that has not answered is never stuck for good: it can move itself, or the holder of
    the lock it waits for can -/
theorem not_all_stuck (s : State) (h : GInv s) (i : Nat) (hi : (s.loc i).pc < 18) :
    ∃ j, stuck expectedSkeleton s j = false := by
  by_cases hs : stuck expectedSkeleton s i = false
  · exact ⟨i, hs⟩
  · -- `i` waits at `acquire`; the lock is held by some `j`, and `j` is inside the locked region
    have hlock : ∃ j, s.lock = some j := by
      unfold stuck at hs
      generalize hpc : (s.loc i).pc = pc at *
      match pc with
      | 0 | 1 | 2 | 3 | 4 | 5 | 6 | 8 | 9 | 10 | 11 | 12 | 13 | 14 | 15 | 16 | 17 =>
        simp [expectedSkeleton] at hs
      | 7 =>
        simp only [expectedSkeleton, List.getElem?_cons_succ, List.getElem?_cons_zero] at hs
        cases hk : s.lock with
        | none => simp [hk] at hs
        | some j => exact ⟨j, rfl⟩
      | n + 18 => omega
    obtain ⟨j, hj⟩ := hlock
    have hc := (h.thr j).crit' hj
    refine ⟨j, ?_⟩
    unfold stuck
    generalize hpc : (s.loc j).pc = pc at *
    match pc with
    | 8 | 9 | 10 | 11 | 12 | 13 | 14 | 15 | 16 => simp [expectedSkeleton]
    | 0 | 1 | 2 | 3 | 4 | 5 | 6 | 7 => omega
    | n + 17 => omega

/-- every step that is not a skip moves its thread strictly forward (so a thread takes at most
    18 effective steps) -/
theorem progress_step (rs : Bool) (s : State) (i : Nat)
    (hs : stuck expectedSkeleton s i = false) :
    (s.loc i).pc < ((step rs expectedSkeleton s i).loc i).pc := by
  unfold stuck at hs
  unfold step
  generalize hl : s.loc i = l at *
  obtain ⟨pc, w, t, mine, resp⟩ := l
  simp only at *
  match pc with
  | 0 | 1 | 2 | 3 | 4 | 5 | 6 | 8 | 9 | 10 | 11 | 12 | 13 | 14 | 15 | 16 | 17 =>
    simp only [expectedSkeleton, List.getElem?_cons_succ, List.getElem?_cons_zero, Local.set, Local.get,
      List.length_cons, List.length_nil]
    try split
    all_goals simp [State.setLoc]
    all_goals first | omega | grind
  | 7 =>
    simp only [expectedSkeleton, List.getElem?_cons_succ, List.getElem?_cons_zero] at hs ⊢
    cases hk : s.lock with
    | none => simp [State.setLoc]
    | some j => simp [hk] at hs
  | n + 18 =>
    have : expectedSkeleton[n + 18]? = none := by simp [expectedSkeleton]
    simp [this] at hs

/-! ### the pinned handler loses an update (D20) -/

/-- thread 1 reads `__wsdl` (None) for the unguarded write-back, thread 0 then builds, publishes
    and answers, thread 1 stores its stale None over the cached document, enters the locked
    region, builds again on the used builder and is served — and caches — a truncated document -/
def raceSchedule : List Nat := [1, 1, 1] ++ List.replicate 17 0 ++ List.replicate 14 1

theorem pinned_race :
    (run false pinnedSkeleton init raceSchedule).builds = 2 ∧
    (run false pinnedSkeleton init raceSchedule).responded 0 = some (some .whole) ∧
    (run false pinnedSkeleton init raceSchedule).responded 1 = some (some .truncated) ∧
    (run false pinnedSkeleton init raceSchedule).cache = some .truncated := by
  decide

end SpyneModel.Conc
