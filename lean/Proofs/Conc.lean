/-
  C12 lemmas, part 1: the lazily built WSDL document.

  `GInv` is an inductive invariant of `expectedSkeleton` under the interleaving semantics of
  SpyneModel/Conc.lean: it holds initially and is preserved by every step of every thread
  (`ginv_step`: case split on the program counter, closed by `grind`), hence in every state any
  schedule of any number of threads can reach.
-/
import SpyneModel.Conc
set_option linter.unusedSimpArgs false
set_option linter.unusedVariables false
namespace SpyneModel.Conc

/-! ### generic facts about the semantics (any program) -/

theorem setLoc_loc (s : State) (i : Nat) (l : Local) (j : Nat) :
    (s.setLoc i l).loc j = if j = i then l else s.loc j := rfl

theorem run_append (c : Cfg) (p : Prog) (a b : List Nat) :
    ∀ s, run c p s (a ++ b) = run c p (run c p s a) b := by
  induction a with
  | nil => intro s; rfl
  | cons i rest ih => intro s; simp only [List.cons_append, run]; exact ih _

/-- a step of thread `i` never touches the private state of another thread -/
theorem step_other (c : Cfg) (p : Prog) (s : State) (i j : Nat) (h : j ≠ i) :
    (step c p s i).loc j = s.loc j := by
  unfold step
  dsimp only
  split
  · rfl
  · split <;> (try simp only [raise]) <;> (repeat' split) <;> simp [State.setLoc, h]

theorem localRun_is_run (c : Cfg) (p : Prog) (i : Nat) (fuel : Nat) :
    ∀ s, ∃ k, localRun c p fuel s i = run c p s (List.replicate k i) := by
  induction fuel with
  | zero => intro s; exact ⟨0, rfl⟩
  | succ n ih =>
    intro s
    simp only [localRun]
    split
    · obtain ⟨k, hk⟩ := ih (step c p s i)
      exact ⟨k + 1, by rw [hk]; rfl⟩
    · exact ⟨0, rfl⟩

/-- a macro step (what one baton hand-over of the real scheduler executes) is a sequence of
    ordinary steps of the same thread -/
theorem macroStep_is_run (c : Cfg) (p : Prog) (s : State) (i : Nat) :
    ∃ l, macroStep c p s i = run c p s l := by
  unfold macroStep
  obtain ⟨k1, h1⟩ := localRun_is_run c p i p.length s
  obtain ⟨k2, h2⟩ := localRun_is_run c p i p.length (step c p (localRun c p p.length s i) i)
  refine ⟨List.replicate k1 i ++ ([i] ++ List.replicate k2 i), ?_⟩
  rw [h2, h1, run_append, run_append]
  rfl

theorem runMacro_is_run (c : Cfg) (p : Prog) (sched : List Nat) :
    ∀ s, ∃ l, runMacro c p s sched = run c p s l := by
  induction sched with
  | nil => intro s; exact ⟨[], rfl⟩
  | cons i rest ih =>
    intro s
    obtain ⟨l1, h1⟩ := macroStep_is_run c p s i
    obtain ⟨l2, h2⟩ := ih (macroStep c p s i)
    exact ⟨l1 ++ l2, by simp only [runMacro]; rw [h2, h1, run_append]⟩

/-! ### the invariant of `expectedSkeleton` (builder resets its dicts; any build may fail) -/

/-- a place holds nothing or the sequential document -/
def okv (v : Option Doc) : Prop := v = none ∨ v = some .whole

/-- program counters at which the thread holds the build lock -/
def held (pc : Nat) : Prop := (9 ≤ pc ∧ pc ≤ 18) ∨ pc = 20

/-- some build is made to fail -/
def HasFailure (c : Cfg) : Prop := ∃ k, c.fail k ≠ .ok

/-- per-thread part of the invariant, indexed by the program counter -/
structure TInv (c : Cfg) (s : State) (i : Nat) : Prop where
  w_ok : okv (s.loc i).w
  t_ok : okv (s.loc i).t
  resp_ok : (s.loc i).resp = none ∨ (s.loc i).resp = some (.doc (some .whole)) ∨ (s.loc i).resp = some .error
  pc_le : (s.loc i).pc ≤ 23
  resp_iff : (s.loc i).pc = 23 ↔ (s.loc i).resp ≠ none
  /-- inside the locked region ⇒ holds the lock -/
  crit : held (s.loc i).pc → s.lock = some i
  /-- holds the lock ⇒ inside the locked region (in particular: has not answered) -/
  crit' : s.lock = some i → held (s.loc i).pc
  /-- inside the `try` body the `except` clause is armed -/
  hnd : 8 ≤ (s.loc i).pc → (s.loc i).pc ≤ 17 → (s.loc i).handler = some 20
  p3 : ((s.loc i).pc = 3 ∨ (s.loc i).pc = 4) → (s.loc i).t ≠ none → s.succ = 1
  p4 : (s.loc i).pc = 4 → (s.loc i).t ≠ none
  p9 : (s.loc i).pc = 9 → (s.succ = 0 ∨ s.cache = some .whole)
  p10 : (s.loc i).pc = 10 →
    ((s.loc i).w = none → s.succ = 0) ∧ ((s.loc i).w ≠ none → s.cache = some .whole)
  p11 : (s.loc i).pc = 11 → s.succ = 0
  p12 : (s.loc i).pc = 12 → s.succ = 0 ∧ s.filled = false
  p13 : (s.loc i).pc = 13 → s.succ = 0 ∧ (s.loc i).mine = true
  p14 : (s.loc i).pc = 14 → s.succ = 1 ∧ s.pub = some .whole
  p15 : (s.loc i).pc = 15 → s.succ = 1 ∧ (s.loc i).t = some .whole
  p16 : (s.loc i).pc = 16 → s.succ = 1 ∧ (s.loc i).t = some .whole ∧ (s.loc i).w = some .whole
  p17 : ((s.loc i).pc = 17 ∨ (s.loc i).pc = 18) → s.cache = some .whole ∧ (s.loc i).w = some .whole
  p19 : ((s.loc i).pc = 19 ∨ (s.loc i).pc = 22) → (s.loc i).w = some .whole
  /-- a failed build leaves nothing behind -/
  p20 : (s.loc i).pc = 20 → s.succ = 0
  /-- the `except` clause is only ever reached through an injected failure -/
  e1 : ((s.loc i).pc = 20 ∨ (s.loc i).pc = 21 ∨ (s.loc i).resp = some .error) → HasFailure c
  e2 : ((s.loc i).pc = 12 ∨ (s.loc i).pc = 13) → (s.loc i).failing ≠ .ok → HasFailure c
  /-- without failures every started build is the one in progress or has succeeded -/
  n1 : held (s.loc i).pc → (s.loc i).pc ≠ 12 → (s.loc i).pc ≠ 13 → (HasFailure c ∨ s.builds = s.succ)
  n2 : ((s.loc i).pc = 12 ∨ (s.loc i).pc = 13) → (HasFailure c ∨ s.builds = s.succ + 1)

structure GInv (c : Cfg) (s : State) : Prop where
  cache_ok : okv s.cache
  pub_ok : okv s.pub
  /-- nothing is visible before a build has succeeded -/
  b0 : s.succ = 0 → s.pub = none ∧ s.cache = none
  /-- at most one build ever succeeds -/
  b1 : s.succ ≤ 1
  /-- with the lock free, either no build succeeded yet (the next requester builds) or the cache is filled -/
  free : s.lock = none → (s.succ = 0 ∨ s.cache = some .whole)
  nb : s.lock = none → (HasFailure c ∨ s.builds = s.succ)
  thr : ∀ i, TInv c s i

theorem ginv_init (c : Cfg) : GInv c init := by
  constructor <;> try simp [init, okv]
  intro i; constructor <;> simp [okv, held]

set_option maxHeartbeats 1600000 in
theorem ginv_step_g0 (c : Cfg) (hrs : c.resets = true) (s : State) (i : Nat) (h : GInv c s)
    (hpc : 0 ≤ (s.loc i).pc ∧ (s.loc i).pc < 3) : GInv c (step c expectedSkeleton s i) := by
  have hi := h.thr i
  obtain ⟨c1, c2, c3, c4, c5, c7, c6⟩ := h
  have hfail : c.fail s.builds ≠ .ok → HasFailure c := fun hne => ⟨s.builds, hne⟩
  unfold step
  generalize hl : s.loc i = l at *
  obtain ⟨pc, w, t, mine, handler, failing, resp⟩ := l
  obtain ⟨a1, a2, a3, a4, a5, a6, a7, a8, a9, a10, a11, a12, a13, a14, a15, a16, a17, a18, a19, a20, a21, a22, a23, a24, a25⟩ := hi
  simp only at *
  match pc with
  | 0 | 1 | 2 =>
    simp only [expectedSkeleton, List.getElem?_cons_succ, List.getElem?_cons_zero, Local.set, Local.get, raise, hrs, List.length_cons, List.length_nil]
    repeat' split
    all_goals
      apply GInv.mk
      · grind [State.setLoc, okv, held]
      · grind [State.setLoc, okv, held]
      · grind [State.setLoc, okv, held]
      · grind [State.setLoc, okv, held]
      · grind [State.setLoc, okv, held]
      · grind [State.setLoc, okv, held]
      · intro j
        have hj := c6 j
        by_cases hji : j = i
        · subst hji
          constructor <;> grind [State.setLoc, okv, held]
        · obtain ⟨b1, b2, b3, b4, b5, b6, b7, b8, b9, b10, b11, b12, b13, b14, b15, b16, b17, b18, b19, b20, b21, b22, b23, b24, b25⟩ := hj
          constructor <;> grind [State.setLoc, okv, held]
  | n + 3 => omega

set_option maxHeartbeats 1600000 in
theorem ginv_step_g1 (c : Cfg) (hrs : c.resets = true) (s : State) (i : Nat) (h : GInv c s)
    (hpc : 3 ≤ (s.loc i).pc ∧ (s.loc i).pc < 5) : GInv c (step c expectedSkeleton s i) := by
  have hi := h.thr i
  obtain ⟨c1, c2, c3, c4, c5, c7, c6⟩ := h
  have hfail : c.fail s.builds ≠ .ok → HasFailure c := fun hne => ⟨s.builds, hne⟩
  unfold step
  generalize hl : s.loc i = l at *
  obtain ⟨pc, w, t, mine, handler, failing, resp⟩ := l
  obtain ⟨a1, a2, a3, a4, a5, a6, a7, a8, a9, a10, a11, a12, a13, a14, a15, a16, a17, a18, a19, a20, a21, a22, a23, a24, a25⟩ := hi
  simp only at *
  match pc with
  | 3 | 4 =>
    simp only [expectedSkeleton, List.getElem?_cons_succ, List.getElem?_cons_zero, Local.set, Local.get, raise, hrs, List.length_cons, List.length_nil]
    repeat' split
    all_goals
      apply GInv.mk
      · grind [State.setLoc, okv, held]
      · grind [State.setLoc, okv, held]
      · grind [State.setLoc, okv, held]
      · grind [State.setLoc, okv, held]
      · grind [State.setLoc, okv, held]
      · grind [State.setLoc, okv, held]
      · intro j
        have hj := c6 j
        by_cases hji : j = i
        · subst hji
          constructor <;> grind [State.setLoc, okv, held]
        · obtain ⟨b1, b2, b3, b4, b5, b6, b7, b8, b9, b10, b11, b12, b13, b14, b15, b16, b17, b18, b19, b20, b21, b22, b23, b24, b25⟩ := hj
          constructor <;> grind [State.setLoc, okv, held]
  | n + 5 => omega
  | 0 | 1 | 2 => omega

set_option maxHeartbeats 1600000 in
theorem ginv_step_g2 (c : Cfg) (hrs : c.resets = true) (s : State) (i : Nat) (h : GInv c s)
    (hpc : 5 ≤ (s.loc i).pc ∧ (s.loc i).pc < 7) : GInv c (step c expectedSkeleton s i) := by
  have hi := h.thr i
  obtain ⟨c1, c2, c3, c4, c5, c7, c6⟩ := h
  have hfail : c.fail s.builds ≠ .ok → HasFailure c := fun hne => ⟨s.builds, hne⟩
  unfold step
  generalize hl : s.loc i = l at *
  obtain ⟨pc, w, t, mine, handler, failing, resp⟩ := l
  obtain ⟨a1, a2, a3, a4, a5, a6, a7, a8, a9, a10, a11, a12, a13, a14, a15, a16, a17, a18, a19, a20, a21, a22, a23, a24, a25⟩ := hi
  simp only at *
  match pc with
  | 5 | 6 =>
    simp only [expectedSkeleton, List.getElem?_cons_succ, List.getElem?_cons_zero, Local.set, Local.get, raise, hrs, List.length_cons, List.length_nil]
    repeat' split
    all_goals
      apply GInv.mk
      · grind [State.setLoc, okv, held]
      · grind [State.setLoc, okv, held]
      · grind [State.setLoc, okv, held]
      · grind [State.setLoc, okv, held]
      · grind [State.setLoc, okv, held]
      · grind [State.setLoc, okv, held]
      · intro j
        have hj := c6 j
        by_cases hji : j = i
        · subst hji
          constructor <;> grind [State.setLoc, okv, held]
        · obtain ⟨b1, b2, b3, b4, b5, b6, b7, b8, b9, b10, b11, b12, b13, b14, b15, b16, b17, b18, b19, b20, b21, b22, b23, b24, b25⟩ := hj
          constructor <;> grind [State.setLoc, okv, held]
  | n + 7 => omega
  | 0 | 1 | 2 | 3 | 4 => omega

set_option maxHeartbeats 1600000 in
theorem ginv_step_g3 (c : Cfg) (hrs : c.resets = true) (s : State) (i : Nat) (h : GInv c s)
    (hpc : 7 ≤ (s.loc i).pc ∧ (s.loc i).pc < 9) : GInv c (step c expectedSkeleton s i) := by
  have hi := h.thr i
  obtain ⟨c1, c2, c3, c4, c5, c7, c6⟩ := h
  have hfail : c.fail s.builds ≠ .ok → HasFailure c := fun hne => ⟨s.builds, hne⟩
  unfold step
  generalize hl : s.loc i = l at *
  obtain ⟨pc, w, t, mine, handler, failing, resp⟩ := l
  obtain ⟨a1, a2, a3, a4, a5, a6, a7, a8, a9, a10, a11, a12, a13, a14, a15, a16, a17, a18, a19, a20, a21, a22, a23, a24, a25⟩ := hi
  simp only at *
  match pc with
  | 7 | 8 =>
    simp only [expectedSkeleton, List.getElem?_cons_succ, List.getElem?_cons_zero, Local.set, Local.get, raise, hrs, List.length_cons, List.length_nil]
    repeat' split
    all_goals
      apply GInv.mk
      · grind [State.setLoc, okv, held]
      · grind [State.setLoc, okv, held]
      · grind [State.setLoc, okv, held]
      · grind [State.setLoc, okv, held]
      · grind [State.setLoc, okv, held]
      · grind [State.setLoc, okv, held]
      · intro j
        have hj := c6 j
        by_cases hji : j = i
        · subst hji
          constructor <;> grind [State.setLoc, okv, held]
        · obtain ⟨b1, b2, b3, b4, b5, b6, b7, b8, b9, b10, b11, b12, b13, b14, b15, b16, b17, b18, b19, b20, b21, b22, b23, b24, b25⟩ := hj
          constructor <;> grind [State.setLoc, okv, held]
  | n + 9 => omega
  | 0 | 1 | 2 | 3 | 4 | 5 | 6 => omega

set_option maxHeartbeats 1600000 in
theorem ginv_step_g4 (c : Cfg) (hrs : c.resets = true) (s : State) (i : Nat) (h : GInv c s)
    (hpc : 9 ≤ (s.loc i).pc ∧ (s.loc i).pc < 11) : GInv c (step c expectedSkeleton s i) := by
  have hi := h.thr i
  obtain ⟨c1, c2, c3, c4, c5, c7, c6⟩ := h
  have hfail : c.fail s.builds ≠ .ok → HasFailure c := fun hne => ⟨s.builds, hne⟩
  unfold step
  generalize hl : s.loc i = l at *
  obtain ⟨pc, w, t, mine, handler, failing, resp⟩ := l
  obtain ⟨a1, a2, a3, a4, a5, a6, a7, a8, a9, a10, a11, a12, a13, a14, a15, a16, a17, a18, a19, a20, a21, a22, a23, a24, a25⟩ := hi
  simp only at *
  match pc with
  | 9 | 10 =>
    simp only [expectedSkeleton, List.getElem?_cons_succ, List.getElem?_cons_zero, Local.set, Local.get, raise, hrs, List.length_cons, List.length_nil]
    repeat' split
    all_goals
      apply GInv.mk
      · grind [State.setLoc, okv, held]
      · grind [State.setLoc, okv, held]
      · grind [State.setLoc, okv, held]
      · grind [State.setLoc, okv, held]
      · grind [State.setLoc, okv, held]
      · grind [State.setLoc, okv, held]
      · intro j
        have hj := c6 j
        by_cases hji : j = i
        · subst hji
          constructor <;> grind [State.setLoc, okv, held]
        · obtain ⟨b1, b2, b3, b4, b5, b6, b7, b8, b9, b10, b11, b12, b13, b14, b15, b16, b17, b18, b19, b20, b21, b22, b23, b24, b25⟩ := hj
          constructor <;> grind [State.setLoc, okv, held]
  | n + 11 => omega
  | 0 | 1 | 2 | 3 | 4 | 5 | 6 | 7 | 8 => omega

set_option maxHeartbeats 1600000 in
theorem ginv_step_g5 (c : Cfg) (hrs : c.resets = true) (s : State) (i : Nat) (h : GInv c s)
    (hpc : 11 ≤ (s.loc i).pc ∧ (s.loc i).pc < 12) : GInv c (step c expectedSkeleton s i) := by
  have hi := h.thr i
  obtain ⟨c1, c2, c3, c4, c5, c7, c6⟩ := h
  have hfail : c.fail s.builds ≠ .ok → HasFailure c := fun hne => ⟨s.builds, hne⟩
  unfold step
  generalize hl : s.loc i = l at *
  obtain ⟨pc, w, t, mine, handler, failing, resp⟩ := l
  obtain ⟨a1, a2, a3, a4, a5, a6, a7, a8, a9, a10, a11, a12, a13, a14, a15, a16, a17, a18, a19, a20, a21, a22, a23, a24, a25⟩ := hi
  simp only at *
  match pc with
  | 11 =>
    simp only [expectedSkeleton, List.getElem?_cons_succ, List.getElem?_cons_zero, Local.set, Local.get, raise, hrs, List.length_cons, List.length_nil]
    repeat' split
    all_goals
      apply GInv.mk
      · grind [State.setLoc, okv, held]
      · grind [State.setLoc, okv, held]
      · grind [State.setLoc, okv, held]
      · grind [State.setLoc, okv, held]
      · grind [State.setLoc, okv, held]
      · grind [State.setLoc, okv, held]
      · intro j
        have hj := c6 j
        by_cases hji : j = i
        · subst hji
          constructor <;> grind [State.setLoc, okv, held]
        · obtain ⟨b1, b2, b3, b4, b5, b6, b7, b8, b9, b10, b11, b12, b13, b14, b15, b16, b17, b18, b19, b20, b21, b22, b23, b24, b25⟩ := hj
          constructor <;> grind [State.setLoc, okv, held]
  | n + 12 => omega
  | 0 | 1 | 2 | 3 | 4 | 5 | 6 | 7 | 8 | 9 | 10 => omega

set_option maxHeartbeats 1600000 in
theorem ginv_step_g6 (c : Cfg) (hrs : c.resets = true) (s : State) (i : Nat) (h : GInv c s)
    (hpc : 12 ≤ (s.loc i).pc ∧ (s.loc i).pc < 13) : GInv c (step c expectedSkeleton s i) := by
  have hi := h.thr i
  obtain ⟨c1, c2, c3, c4, c5, c7, c6⟩ := h
  have hfail : c.fail s.builds ≠ .ok → HasFailure c := fun hne => ⟨s.builds, hne⟩
  unfold step
  generalize hl : s.loc i = l at *
  obtain ⟨pc, w, t, mine, handler, failing, resp⟩ := l
  obtain ⟨a1, a2, a3, a4, a5, a6, a7, a8, a9, a10, a11, a12, a13, a14, a15, a16, a17, a18, a19, a20, a21, a22, a23, a24, a25⟩ := hi
  simp only at *
  match pc with
  | 12 =>
    simp only [expectedSkeleton, List.getElem?_cons_succ, List.getElem?_cons_zero, Local.set, Local.get, raise, hrs, List.length_cons, List.length_nil]
    repeat' split
    all_goals
      apply GInv.mk
      · grind [State.setLoc, okv, held]
      · grind [State.setLoc, okv, held]
      · grind [State.setLoc, okv, held]
      · grind [State.setLoc, okv, held]
      · grind [State.setLoc, okv, held]
      · grind [State.setLoc, okv, held]
      · intro j
        have hj := c6 j
        by_cases hji : j = i
        · subst hji
          constructor <;> grind [State.setLoc, okv, held]
        · obtain ⟨b1, b2, b3, b4, b5, b6, b7, b8, b9, b10, b11, b12, b13, b14, b15, b16, b17, b18, b19, b20, b21, b22, b23, b24, b25⟩ := hj
          constructor <;> grind [State.setLoc, okv, held]
  | n + 13 => omega
  | 0 | 1 | 2 | 3 | 4 | 5 | 6 | 7 | 8 | 9 | 10 | 11 => omega

set_option maxHeartbeats 1600000 in
theorem ginv_step_g7 (c : Cfg) (hrs : c.resets = true) (s : State) (i : Nat) (h : GInv c s)
    (hpc : 13 ≤ (s.loc i).pc ∧ (s.loc i).pc < 14) : GInv c (step c expectedSkeleton s i) := by
  have hi := h.thr i
  obtain ⟨c1, c2, c3, c4, c5, c7, c6⟩ := h
  have hfail : c.fail s.builds ≠ .ok → HasFailure c := fun hne => ⟨s.builds, hne⟩
  unfold step
  generalize hl : s.loc i = l at *
  obtain ⟨pc, w, t, mine, handler, failing, resp⟩ := l
  obtain ⟨a1, a2, a3, a4, a5, a6, a7, a8, a9, a10, a11, a12, a13, a14, a15, a16, a17, a18, a19, a20, a21, a22, a23, a24, a25⟩ := hi
  simp only at *
  match pc with
  | 13 =>
    simp only [expectedSkeleton, List.getElem?_cons_succ, List.getElem?_cons_zero, Local.set, Local.get, raise, hrs, List.length_cons, List.length_nil]
    repeat' split
    all_goals
      apply GInv.mk
      · grind [State.setLoc, okv, held]
      · grind [State.setLoc, okv, held]
      · grind [State.setLoc, okv, held]
      · grind [State.setLoc, okv, held]
      · grind [State.setLoc, okv, held]
      · grind [State.setLoc, okv, held]
      · intro j
        have hj := c6 j
        by_cases hji : j = i
        · subst hji
          constructor <;> grind [State.setLoc, okv, held]
        · obtain ⟨b1, b2, b3, b4, b5, b6, b7, b8, b9, b10, b11, b12, b13, b14, b15, b16, b17, b18, b19, b20, b21, b22, b23, b24, b25⟩ := hj
          constructor <;> grind [State.setLoc, okv, held]
  | n + 14 => omega
  | 0 | 1 | 2 | 3 | 4 | 5 | 6 | 7 | 8 | 9 | 10 | 11 | 12 => omega

set_option maxHeartbeats 1600000 in
theorem ginv_step_g8 (c : Cfg) (hrs : c.resets = true) (s : State) (i : Nat) (h : GInv c s)
    (hpc : 14 ≤ (s.loc i).pc ∧ (s.loc i).pc < 16) : GInv c (step c expectedSkeleton s i) := by
  have hi := h.thr i
  obtain ⟨c1, c2, c3, c4, c5, c7, c6⟩ := h
  have hfail : c.fail s.builds ≠ .ok → HasFailure c := fun hne => ⟨s.builds, hne⟩
  unfold step
  generalize hl : s.loc i = l at *
  obtain ⟨pc, w, t, mine, handler, failing, resp⟩ := l
  obtain ⟨a1, a2, a3, a4, a5, a6, a7, a8, a9, a10, a11, a12, a13, a14, a15, a16, a17, a18, a19, a20, a21, a22, a23, a24, a25⟩ := hi
  simp only at *
  match pc with
  | 14 | 15 =>
    simp only [expectedSkeleton, List.getElem?_cons_succ, List.getElem?_cons_zero, Local.set, Local.get, raise, hrs, List.length_cons, List.length_nil]
    repeat' split
    all_goals
      apply GInv.mk
      · grind [State.setLoc, okv, held]
      · grind [State.setLoc, okv, held]
      · grind [State.setLoc, okv, held]
      · grind [State.setLoc, okv, held]
      · grind [State.setLoc, okv, held]
      · grind [State.setLoc, okv, held]
      · intro j
        have hj := c6 j
        by_cases hji : j = i
        · subst hji
          constructor <;> grind [State.setLoc, okv, held]
        · obtain ⟨b1, b2, b3, b4, b5, b6, b7, b8, b9, b10, b11, b12, b13, b14, b15, b16, b17, b18, b19, b20, b21, b22, b23, b24, b25⟩ := hj
          constructor <;> grind [State.setLoc, okv, held]
  | n + 16 => omega
  | 0 | 1 | 2 | 3 | 4 | 5 | 6 | 7 | 8 | 9 | 10 | 11 | 12 | 13 => omega

set_option maxHeartbeats 1600000 in
theorem ginv_step_g9 (c : Cfg) (hrs : c.resets = true) (s : State) (i : Nat) (h : GInv c s)
    (hpc : 16 ≤ (s.loc i).pc ∧ (s.loc i).pc < 18) : GInv c (step c expectedSkeleton s i) := by
  have hi := h.thr i
  obtain ⟨c1, c2, c3, c4, c5, c7, c6⟩ := h
  have hfail : c.fail s.builds ≠ .ok → HasFailure c := fun hne => ⟨s.builds, hne⟩
  unfold step
  generalize hl : s.loc i = l at *
  obtain ⟨pc, w, t, mine, handler, failing, resp⟩ := l
  obtain ⟨a1, a2, a3, a4, a5, a6, a7, a8, a9, a10, a11, a12, a13, a14, a15, a16, a17, a18, a19, a20, a21, a22, a23, a24, a25⟩ := hi
  simp only at *
  match pc with
  | 16 | 17 =>
    simp only [expectedSkeleton, List.getElem?_cons_succ, List.getElem?_cons_zero, Local.set, Local.get, raise, hrs, List.length_cons, List.length_nil]
    repeat' split
    all_goals
      apply GInv.mk
      · grind [State.setLoc, okv, held]
      · grind [State.setLoc, okv, held]
      · grind [State.setLoc, okv, held]
      · grind [State.setLoc, okv, held]
      · grind [State.setLoc, okv, held]
      · grind [State.setLoc, okv, held]
      · intro j
        have hj := c6 j
        by_cases hji : j = i
        · subst hji
          constructor <;> grind [State.setLoc, okv, held]
        · obtain ⟨b1, b2, b3, b4, b5, b6, b7, b8, b9, b10, b11, b12, b13, b14, b15, b16, b17, b18, b19, b20, b21, b22, b23, b24, b25⟩ := hj
          constructor <;> grind [State.setLoc, okv, held]
  | n + 18 => omega
  | 0 | 1 | 2 | 3 | 4 | 5 | 6 | 7 | 8 | 9 | 10 | 11 | 12 | 13 | 14 | 15 => omega

set_option maxHeartbeats 1600000 in
theorem ginv_step_g10 (c : Cfg) (hrs : c.resets = true) (s : State) (i : Nat) (h : GInv c s)
    (hpc : 18 ≤ (s.loc i).pc ∧ (s.loc i).pc < 20) : GInv c (step c expectedSkeleton s i) := by
  have hi := h.thr i
  obtain ⟨c1, c2, c3, c4, c5, c7, c6⟩ := h
  have hfail : c.fail s.builds ≠ .ok → HasFailure c := fun hne => ⟨s.builds, hne⟩
  unfold step
  generalize hl : s.loc i = l at *
  obtain ⟨pc, w, t, mine, handler, failing, resp⟩ := l
  obtain ⟨a1, a2, a3, a4, a5, a6, a7, a8, a9, a10, a11, a12, a13, a14, a15, a16, a17, a18, a19, a20, a21, a22, a23, a24, a25⟩ := hi
  simp only at *
  match pc with
  | 18 | 19 =>
    simp only [expectedSkeleton, List.getElem?_cons_succ, List.getElem?_cons_zero, Local.set, Local.get, raise, hrs, List.length_cons, List.length_nil]
    repeat' split
    all_goals
      apply GInv.mk
      · grind [State.setLoc, okv, held]
      · grind [State.setLoc, okv, held]
      · grind [State.setLoc, okv, held]
      · grind [State.setLoc, okv, held]
      · grind [State.setLoc, okv, held]
      · grind [State.setLoc, okv, held]
      · intro j
        have hj := c6 j
        by_cases hji : j = i
        · subst hji
          constructor <;> grind [State.setLoc, okv, held]
        · obtain ⟨b1, b2, b3, b4, b5, b6, b7, b8, b9, b10, b11, b12, b13, b14, b15, b16, b17, b18, b19, b20, b21, b22, b23, b24, b25⟩ := hj
          constructor <;> grind [State.setLoc, okv, held]
  | n + 20 => omega
  | 0 | 1 | 2 | 3 | 4 | 5 | 6 | 7 | 8 | 9 | 10 | 11 | 12 | 13 | 14 | 15 | 16 | 17 => omega

set_option maxHeartbeats 1600000 in
theorem ginv_step_g11 (c : Cfg) (hrs : c.resets = true) (s : State) (i : Nat) (h : GInv c s)
    (hpc : 20 ≤ (s.loc i).pc ∧ (s.loc i).pc < 22) : GInv c (step c expectedSkeleton s i) := by
  have hi := h.thr i
  obtain ⟨c1, c2, c3, c4, c5, c7, c6⟩ := h
  have hfail : c.fail s.builds ≠ .ok → HasFailure c := fun hne => ⟨s.builds, hne⟩
  unfold step
  generalize hl : s.loc i = l at *
  obtain ⟨pc, w, t, mine, handler, failing, resp⟩ := l
  obtain ⟨a1, a2, a3, a4, a5, a6, a7, a8, a9, a10, a11, a12, a13, a14, a15, a16, a17, a18, a19, a20, a21, a22, a23, a24, a25⟩ := hi
  simp only at *
  match pc with
  | 20 | 21 =>
    simp only [expectedSkeleton, List.getElem?_cons_succ, List.getElem?_cons_zero, Local.set, Local.get, raise, hrs, List.length_cons, List.length_nil]
    repeat' split
    all_goals
      apply GInv.mk
      · grind [State.setLoc, okv, held]
      · grind [State.setLoc, okv, held]
      · grind [State.setLoc, okv, held]
      · grind [State.setLoc, okv, held]
      · grind [State.setLoc, okv, held]
      · grind [State.setLoc, okv, held]
      · intro j
        have hj := c6 j
        by_cases hji : j = i
        · subst hji
          constructor <;> grind [State.setLoc, okv, held]
        · obtain ⟨b1, b2, b3, b4, b5, b6, b7, b8, b9, b10, b11, b12, b13, b14, b15, b16, b17, b18, b19, b20, b21, b22, b23, b24, b25⟩ := hj
          constructor <;> grind [State.setLoc, okv, held]
  | n + 22 => omega
  | 0 | 1 | 2 | 3 | 4 | 5 | 6 | 7 | 8 | 9 | 10 | 11 | 12 | 13 | 14 | 15 | 16 | 17 | 18 | 19 => omega

set_option maxHeartbeats 1600000 in
theorem ginv_step_g12 (c : Cfg) (hrs : c.resets = true) (s : State) (i : Nat) (h : GInv c s)
    (hpc : 22 ≤ (s.loc i).pc ∧ (s.loc i).pc < 23) : GInv c (step c expectedSkeleton s i) := by
  have hi := h.thr i
  obtain ⟨c1, c2, c3, c4, c5, c7, c6⟩ := h
  have hfail : c.fail s.builds ≠ .ok → HasFailure c := fun hne => ⟨s.builds, hne⟩
  unfold step
  generalize hl : s.loc i = l at *
  obtain ⟨pc, w, t, mine, handler, failing, resp⟩ := l
  obtain ⟨a1, a2, a3, a4, a5, a6, a7, a8, a9, a10, a11, a12, a13, a14, a15, a16, a17, a18, a19, a20, a21, a22, a23, a24, a25⟩ := hi
  simp only at *
  match pc with
  | 22 =>
    simp only [expectedSkeleton, List.getElem?_cons_succ, List.getElem?_cons_zero, Local.set, Local.get, raise, hrs, List.length_cons, List.length_nil]
    repeat' split
    all_goals
      apply GInv.mk
      · grind [State.setLoc, okv, held]
      · grind [State.setLoc, okv, held]
      · grind [State.setLoc, okv, held]
      · grind [State.setLoc, okv, held]
      · grind [State.setLoc, okv, held]
      · grind [State.setLoc, okv, held]
      · intro j
        have hj := c6 j
        by_cases hji : j = i
        · subst hji
          constructor <;> grind [State.setLoc, okv, held]
        · obtain ⟨b1, b2, b3, b4, b5, b6, b7, b8, b9, b10, b11, b12, b13, b14, b15, b16, b17, b18, b19, b20, b21, b22, b23, b24, b25⟩ := hj
          constructor <;> grind [State.setLoc, okv, held]
  | n + 23 => omega
  | 0 | 1 | 2 | 3 | 4 | 5 | 6 | 7 | 8 | 9 | 10 | 11 | 12 | 13 | 14 | 15 | 16 | 17 | 18 | 19 | 20 | 21 => omega

/-- the invariant is preserved by every step of every thread, whatever the build outcomes -/
theorem ginv_step (c : Cfg) (hrs : c.resets = true) (s : State) (i : Nat) (h : GInv c s) :
    GInv c (step c expectedSkeleton s i) := by
  by_cases h23 : (s.loc i).pc < 23
  · rcases Nat.lt_or_ge (s.loc i).pc 3 with h3 | h3
    · exact ginv_step_g0 c hrs s i h (by omega)
    rcases Nat.lt_or_ge (s.loc i).pc 5 with h5 | h5
    · exact ginv_step_g1 c hrs s i h (by omega)
    rcases Nat.lt_or_ge (s.loc i).pc 7 with h7 | h7
    · exact ginv_step_g2 c hrs s i h (by omega)
    rcases Nat.lt_or_ge (s.loc i).pc 9 with h9 | h9
    · exact ginv_step_g3 c hrs s i h (by omega)
    rcases Nat.lt_or_ge (s.loc i).pc 11 with h11 | h11
    · exact ginv_step_g4 c hrs s i h (by omega)
    rcases Nat.lt_or_ge (s.loc i).pc 12 with h12 | h12
    · exact ginv_step_g5 c hrs s i h (by omega)
    rcases Nat.lt_or_ge (s.loc i).pc 13 with h13 | h13
    · exact ginv_step_g6 c hrs s i h (by omega)
    rcases Nat.lt_or_ge (s.loc i).pc 14 with h14 | h14
    · exact ginv_step_g7 c hrs s i h (by omega)
    rcases Nat.lt_or_ge (s.loc i).pc 16 with h16 | h16
    · exact ginv_step_g8 c hrs s i h (by omega)
    rcases Nat.lt_or_ge (s.loc i).pc 18 with h18 | h18
    · exact ginv_step_g9 c hrs s i h (by omega)
    rcases Nat.lt_or_ge (s.loc i).pc 20 with h20 | h20
    · exact ginv_step_g10 c hrs s i h (by omega)
    rcases Nat.lt_or_ge (s.loc i).pc 22 with h22 | h22
    · exact ginv_step_g11 c hrs s i h (by omega)
    rcases Nat.lt_or_ge (s.loc i).pc 23 with h23 | h23
    · exact ginv_step_g12 c hrs s i h (by omega)
    omega
  · have hnone : expectedSkeleton[(s.loc i).pc]? = none := by
      apply List.getElem?_eq_none; simp [expectedSkeleton]; omega
    unfold step; simp only [hnone]; exact h

theorem ginv_run (c : Cfg) (hrs : c.resets = true) (sched : List Nat) :
    ∀ s, GInv c s → GInv c (run c expectedSkeleton s sched) := by
  induction sched with
  | nil => intro s h; exact h
  | cons i rest ih => intro s h; exact ih _ (ginv_step c hrs s i h)

theorem ginv_reachable (c : Cfg) (hrs : c.resets = true) (sched : List Nat) :
    GInv c (run c expectedSkeleton init sched) :=
  ginv_run c hrs sched init (ginv_init c)

/-! ### consequences -/

/-- a filled cache is never emptied or replaced -/
theorem cache_stays_step (c : Cfg) (s : State) (i : Nat) (h : GInv c s) (hc : s.cache = some .whole) :
    (step c expectedSkeleton s i).cache = some .whole := by
  have hi := h.thr i
  unfold step
  generalize hl : s.loc i = l at *
  obtain ⟨pc, w, t, mine, handler, failing, resp⟩ := l
  obtain ⟨a1, a2, a3, a4, a5, a6, a7, a8, a9, a10, a11, a12, a13, a14, a15, a16, a17, a18, a19, a20, a21, a22, a23, a24, a25⟩ := hi
  simp only at *
  match pc with
  | 0 | 1 | 2 | 3 | 4 | 5 | 6 | 7 | 8 | 9 | 10 | 11 | 12 | 13 | 14 | 15 | 16 | 17 | 18 | 19 | 20 | 21 | 22 =>
    simp only [expectedSkeleton, List.getElem?_cons_succ, List.getElem?_cons_zero, Local.set, Local.get, raise]
    repeat' split
    all_goals grind [State.setLoc, okv]
  | n + 23 =>
    have : expectedSkeleton[n + 23]? = none := by simp [expectedSkeleton]
    simp only [this]; exact hc

theorem cache_stays_run (c : Cfg) (hrs : c.resets = true) (sched : List Nat) :
    ∀ s, GInv c s → s.cache = some .whole → (run c expectedSkeleton s sched).cache = some .whole := by
  induction sched with
  | nil => intro s _ hc; exact hc
  | cons i rest ih =>
    intro s h hc
    exact ih _ (ginv_step c hrs s i h) (cache_stays_step c s i h hc)

/-- at most one thread is between `acquire` and its `release` -/
theorem mutex_of_ginv (c : Cfg) (s : State) (h : GInv c s) (i j : Nat)
    (hi : held (s.loc i).pc) (hj : held (s.loc j).pc) : i = j := by
  have h1 := (h.thr i).crit hi
  have h2 := (h.thr j).crit hj
  rw [h1] at h2
  exact Option.some.inj h2

/-- without injected failures `build_interface_document` is started at most once -/
theorem builds_le_one (c : Cfg) (s : State) (h : GInv c s) (hc : ¬ HasFailure c) : s.builds ≤ 1 := by
  have hb := h.b1
  cases hl : s.lock with
  | none => rcases h.nb hl with h1 | h1
            · exact absurd h1 hc
            · omega
  | some j =>
    have hh := (h.thr j).crit' hl
    by_cases h12 : (s.loc j).pc = 12 ∨ (s.loc j).pc = 13
    · rcases (h.thr j).n2 h12 with h1 | h1
      · exact absurd h1 hc
      · have := (h.thr j).p12; have := (h.thr j).p13
        rcases h12 with h12 | h12 <;> simp_all <;> omega
    · rcases (h.thr j).n1 hh (by omega) (by omega) with h1 | h1
      · exact absurd h1 hc
      · omega

/-- a thread that has answered does not hold the lock -/
theorem finished_not_holding (c : Cfg) (s : State) (h : GInv c s) (i : Nat) (hr : (s.loc i).resp ≠ none) :
    s.lock ≠ some i := by
  intro hl
  have hh := (h.thr i).crit' hl
  have hp := (h.thr i).resp_iff.mpr hr
  unfold held at hh
  omega

/-- a thread that has not answered is never stuck for good: it can move itself, or the holder of
    the lock it waits for can — also after failed builds -/
theorem not_all_stuck (c : Cfg) (s : State) (h : GInv c s) (i : Nat) (hi : (s.loc i).pc < 23) :
    ∃ j, stuck expectedSkeleton s j = false := by
  by_cases hs : stuck expectedSkeleton s i = false
  · exact ⟨i, hs⟩
  · have hlock : ∃ j, s.lock = some j := by
      unfold stuck at hs
      generalize hpc : (s.loc i).pc = pc at *
      match pc with
      | 0 | 1 | 2 | 3 | 4 | 5 | 6 | 7 | 9 | 10 | 11 | 12 | 13 | 14 | 15 | 16 | 17 | 18 | 19 | 20 | 21 | 22 =>
        simp [expectedSkeleton] at hs
      | 8 =>
        simp only [expectedSkeleton, List.getElem?_cons_succ, List.getElem?_cons_zero] at hs
        cases hk : s.lock with
        | none => simp [hk] at hs
        | some j => exact ⟨j, rfl⟩
      | n + 23 => omega
    obtain ⟨j, hj⟩ := hlock
    have hc := (h.thr j).crit' hj
    refine ⟨j, ?_⟩
    unfold stuck
    unfold held at hc
    generalize hpc : (s.loc j).pc = pc at *
    match pc with
    | 9 | 10 | 11 | 12 | 13 | 14 | 15 | 16 | 17 | 18 | 20 => simp [expectedSkeleton]
    | 0 | 1 | 2 | 3 | 4 | 5 | 6 | 7 | 8 | 19 => omega
    | n + 21 => omega

/-- every step that is not a skip moves its thread strictly forward (a requester takes at most 23
    effective steps, whatever fails) -/
theorem progress_step (c : Cfg) (s : State) (i : Nat) (h : GInv c s)
    (hs : stuck expectedSkeleton s i = false) :
    (s.loc i).pc < ((step c expectedSkeleton s i).loc i).pc := by
  have hi := (h.thr i).hnd
  unfold stuck at hs
  unfold step
  generalize hl : s.loc i = l at *
  obtain ⟨pc, w, t, mine, handler, failing, resp⟩ := l
  simp only at *
  match pc with
  | 0 | 1 | 2 | 3 | 4 | 5 | 6 | 7 | 9 | 10 | 12 | 14 | 15 | 16 | 17 | 18 | 19 | 20 | 21 | 22 =>
    simp only [expectedSkeleton, List.getElem?_cons_succ, List.getElem?_cons_zero, Local.set, Local.get,
      List.length_cons, List.length_nil]
    try split
    all_goals simp [State.setLoc]
    all_goals first | omega | grind
  | 11 | 13 =>
    have hh : handler = some 20 := hi (by omega) (by omega)
    subst hh
    simp only [expectedSkeleton, List.getElem?_cons_succ, List.getElem?_cons_zero, raise]
    repeat' split
    all_goals simp [State.setLoc]
  | 8 =>
    simp only [expectedSkeleton, List.getElem?_cons_succ, List.getElem?_cons_zero] at hs ⊢
    cases hk : s.lock with
    | none => simp [State.setLoc]
    | some j => simp [hk] at hs
  | n + 23 =>
    have : expectedSkeleton[n + 23]? = none := by simp [expectedSkeleton]
    simp [this] at hs

/-! ### what goes wrong otherwise (each witness is replayed on the real threads by the harness) -/

/-- thread 1 reads `__wsdl` (None) for the unguarded write-back, thread 0 then builds, publishes
    and answers, thread 1 stores its stale None over the cached document, enters the locked
    region, builds again on the used builder and is served — and caches — a truncated document -/
def raceSchedule : List Nat := [1, 1, 1] ++ List.replicate 17 0 ++ List.replicate 14 1

theorem pinned_race :
    (run (noFail false) pinnedSkeleton init raceSchedule).builds = 2 ∧
    (run (noFail false) pinnedSkeleton init raceSchedule).responded 0 = some (.doc (some .whole)) ∧
    (run (noFail false) pinnedSkeleton init raceSchedule).responded 1 = some (.doc (some .truncated)) ∧
    (run (noFail false) pinnedSkeleton init raceSchedule).cache = some .truncated := by
  decide

/-- the first build fails -/
def firstFails (f : Fail) (resets : Bool) : Cfg := { resets := resets, fail := fun k => if k = 0 then f else .ok }

/-- lock released in `else:` instead of `finally:`: the first build raises, the builder answers 500
    and keeps the lock; the second requester waits for it forever -/
theorem else_release_deadlock :
    let s := run (firstFails .early true) elseReleaseSkeleton init (List.replicate 14 0 ++ List.replicate 30 1)
    s.responded 0 = some .error ∧ s.lock = some 0 ∧ s.responded 1 = none ∧
    stuck elseReleaseSkeleton s 1 = true ∧ stuck elseReleaseSkeleton s 0 = true := by
  decide +kernel

/-- a builder that keeps its element dicts: the first build raises late (after the portType / service
    elements exist), the next requester builds on the used builder and is served — and caches — a
    truncated document, although the handler is the good one -/
theorem dirty_builder_after_failed_build :
    let s := run (firstFails .late false) expectedSkeleton init (List.replicate 16 0 ++ List.replicate 22 1)
    s.responded 0 = some .error ∧ s.responded 1 = some (.doc (some .truncated)) ∧ s.cache = some .truncated := by
  decide +kernel

/-- with the dicts reset the same history ends well -/
theorem clean_builder_after_failed_build :
    let s := run (firstFails .late true) expectedSkeleton init (List.replicate 16 0 ++ List.replicate 22 1)
    s.responded 0 = some .error ∧ s.responded 1 = some (.doc (some .whole)) ∧ s.cache = some .whole ∧
    s.lock = none ∧ s.builds = 2 ∧ s.succ = 1 := by
  decide +kernel

end SpyneModel.Conc
