/-
  C05 (HttpRpc) helper lemmas, part 1: counting the frequency increments of soft validation.
  The keys of the increments are relative to the instance a walk starts from; what happens below
  member `k`, element `i`, carries `(k, i)` in front (`Ev.under`). `evsUnder c evs` reads the
  increments below child `c` back in the child's own frame.
-/
import Proofs.FlatNatural
namespace SpyneModel.Flat
open SpyneModel

/-! ## counting -/

theorem evCount_foldl (evs : List Ev) (k : FKey) (name : Text) (a : Nat) :
    evs.foldl (fun acc e => if e.key = k && e.name = name then acc + e.inc else acc) a =
      a + evCount evs k name := by
  unfold evCount
  induction evs generalizing a with
  | nil => simp
  | cons e r ih =>
    simp only [List.foldl_cons]
    rw [ih, ih (if (decide (e.key = k) && decide (e.name = name)) = true then 0 + e.inc else 0)]
    split <;> omega

theorem evCount_nil (k : FKey) (name : Text) : evCount [] k name = 0 := rfl

theorem evCount_cons (e : Ev) (r : List Ev) (k : FKey) (name : Text) :
    evCount (e :: r) k name = (if e.key = k ∧ e.name = name then e.inc else 0) + evCount r k name := by
  conv => lhs; unfold evCount
  simp only [List.foldl_cons]
  rw [evCount_foldl]
  by_cases h : e.key = k ∧ e.name = name
  · simp [h.1, h.2]
  · have : (decide (e.key = k) && decide (e.name = name)) = false := by
      simp only [Bool.and_eq_false_iff, decide_eq_false_iff_not]
      by_cases h1 : e.key = k
      · right; exact fun h2 => h ⟨h1, h2⟩
      · left; exact h1
    simp [this, h]

theorem evCount_append (a b : List Ev) (k : FKey) (name : Text) :
    evCount (a ++ b) k name = evCount a k name + evCount b k name := by
  induction a with
  | nil => simp [evCount_nil]
  | cons e r ih => simp only [List.cons_append, evCount_cons, ih]; omega

/-- increments below child `c`, in the child's frame -/
def evsUnder (c : Text × Nat) (evs : List Ev) : List Ev :=
  evs.filterMap (fun e =>
    match e.key with
    | h :: tl => if h = c then some ⟨tl, e.spec, e.name, e.inc⟩ else none
    | [] => none)

theorem evsUnder_append (c : Text × Nat) (a b : List Ev) : evsUnder c (a ++ b) = evsUnder c a ++ evsUnder c b := by
  simp [evsUnder, List.filterMap_append]

theorem evsUnder_under_same (c : Text × Nat) (evs : List Ev) : evsUnder c (evs.map (Ev.under [c])) = evs := by
  induction evs with
  | nil => rfl
  | cons e r ih =>
    simp only [evsUnder, List.map_cons, List.filterMap_cons, Ev.under, List.cons_append, List.nil_append, if_true] at ih ⊢
    rw [ih]

theorem evsUnder_under_other (c c' : Text × Nat) (h : c' ≠ c) (evs : List Ev) :
    evsUnder c (evs.map (Ev.under [c'])) = [] := by
  induction evs with
  | nil => rfl
  | cons e r ih =>
    simp only [evsUnder, List.map_cons, List.filterMap_cons, Ev.under, List.cons_append, List.nil_append, h, if_false] at ih ⊢
    exact ih

theorem evCount_child (evs : List Ev) (c : Text × Nat) (K : FKey) (name : Text) :
    evCount evs (c :: K) name = evCount (evsUnder c evs) K name := by
  induction evs with
  | nil => rfl
  | cons e r ih =>
    rw [evCount_cons, ih]
    obtain ⟨key, spec, nm, inc⟩ := e
    cases key with
    | nil => simp [evsUnder]
    | cons h tl =>
      by_cases hc : h = c
      · subst hc
        simp only [evsUnder, List.filterMap_cons, if_true, evCount_cons, List.cons.injEq, true_and] at ih ⊢
      · have : evsUnder c (⟨h :: tl, spec, nm, inc⟩ :: r) = evsUnder c r := by
          simp [evsUnder, hc]
        rw [this]
        simp [hc]

theorem freqOkAt_child (evs : List Ev) (c : Text × Nat) (K : FKey) (spec : List (Text × Nat × Option Nat)) :
    freqOkAt evs (c :: K) spec = freqOkAt (evsUnder c evs) K spec := by
  unfold freqOkAt
  simp only [evCount_child]

theorem evCount_under_nil (evs : List Ev) (c : Text × Nat) (name : Text) :
    evCount (evs.map (Ev.under [c])) [] name = 0 := by
  induction evs with
  | nil => rfl
  | cons e r ih => rw [List.map_cons, evCount_cons, ih]; simp [Ev.under]

/-- the deep part of `freqOk`: every instance that has an entry passes `_check_freq_dict` -/
def freqDeep (evs : List Ev) : Bool := evs.all (fun e => freqOkAt evs e.key e.spec)

theorem freqOk_eq (fields : List Fld) (evs : List Ev) :
    freqOk fields evs = (freqOkAt evs [] (specOf fields) && freqDeep evs) := rfl

/-- an entry of the child in the parent's table is checked against the child's own increments -/
theorem freqDeep_child (evs : List Ev) (c : Text × Nat) (h : freqDeep evs = true) : freqDeep (evsUnder c evs) = true := by
  unfold freqDeep at h ⊢
  rw [List.all_eq_true] at h ⊢
  intro e he
  simp only [evsUnder, List.mem_filterMap] at he
  obtain ⟨e0, he0, hm⟩ := he
  obtain ⟨key, spec, nm, inc⟩ := e0
  cases key with
  | nil => simp at hm
  | cons hd tl =>
    by_cases hc : hd = c
    · subst hc
      simp only [if_true, Option.some.injEq] at hm
      subst hm
      have := h _ he0
      simp only at this ⊢
      rw [freqOkAt_child] at this
      exact this
    · simp [hc] at hm

end SpyneModel.Flat

namespace SpyneModel.Flat
open SpyneModel

/-! ## which member an increment belongs to -/

/-- the increment was made by a key that starts with member `k` (labels are member names) -/
def ownedBy (k : Text) (e : Ev) : Bool :=
  match e.key with
  | [] => decide (e.name = k)
  | h :: _ => decide (h.1 = k)

theorem ownedBy_under (k : Text) (i : Nat) (e : Ev) : ownedBy k (e.under [(k, i)]) = true := by
  simp [ownedBy, Ev.under]

/-- all increments of one key applied to member `p` belong to `p`; those at the instance itself
    carry the member list of the instance's class -/
theorem stepMember_owned (F : Facts03) (hF : F.freqScope = .perMember) (strict : Bool) (fields : List Fld)
    (cur : Node) (p : Text) (rest : List Text) (idxs : List Nat) (pl : Payload) (r : Node × List Ev)
    (h : stepMember F strict fields cur p rest idxs pl = .ok r) :
    ∀ e, e ∈ r.2 → ownedBy p e = true ∧ (e.key = [] → e.spec = specOf fields ∧ e.name = p) := by
  cases rest with
  | nil =>
    simp only [stepMember] at h
    obtain ⟨n, _, hr⟩ := obind_eq_ok.mp h
    simp only [Outcome.ok.injEq] at hr
    subst hr
    intro e he
    simp only [List.mem_cons] at he
    rcases he with rfl | he
    · exact ⟨by simp [ownedBy], fun _ => ⟨rfl, rfl⟩⟩
    · cases pl with
      | emptyObj fs =>
        simp only at he
        split at he
        · simp only [List.mem_singleton] at he
          subst he
          simp [ownedBy, memberLabel, hF]
        · simp at he
      | prims m vs => simp at he
      | emptyArr => simp at he
  | cons q rest =>
    simp only [stepMember] at h
    cases hl : lookupFld fields p with
    | none => rw [hl] at h; exact absurd h (by simp)
    | some f =>
      rw [hl] at h
      obtain ⟨n, occ, t⟩ := f
      cases t with
      | prim pk => exact absurd h (by simp)
      | obj cid sub =>
        simp only [hF] at h
        -- own-level increments: the creation / touch increments; below: shifted under (p, i)
        have hown : ∀ e : Ev, e = ⟨[], specOf fields, p, 1⟩ → ownedBy p e = true ∧ (e.key = [] → e.spec = specOf fields ∧ e.name = p) := by
          intro e he; subst he; exact ⟨by simp [ownedBy], fun _ => ⟨rfl, rfl⟩⟩
        have htouch : ∀ (i : Nat) (e : Ev), e ∈ (if F.freqTouch = true then [(⟨[(p, i)], specOf sub, [], 0⟩ : Ev)] else []) →
            ownedBy p e = true ∧ (e.key = [] → e.spec = specOf fields ∧ e.name = p) := by
          intro i e he
          split at he
          · simp only [List.mem_singleton] at he; subst he; exact ⟨by simp [ownedBy], fun hk => by simp at hk⟩
          · simp at he
        have hunder : ∀ (i : Nat) (l : List Ev) (e : Ev), e ∈ l.map (Ev.under [(p, i)]) →
            ownedBy p e = true ∧ (e.key = [] → e.spec = specOf fields ∧ e.name = p) := by
          intro i l e he
          obtain ⟨e0, _, rfl⟩ := List.mem_map.mp he
          exact ⟨ownedBy_under p i e0, fun hk => by simp [Ev.under] at hk⟩
        by_cases hm : occ.many
        · simp only [hm, if_true] at h
          cases cur with
          | none =>
            simp only at h
            by_cases hs : strict
            · subst hs
              simp only [if_true] at h
              obtain ⟨sl, hsl, h2⟩ := obind_eq_ok.mp h
              obtain ⟨s, hs', hsl'⟩ := obind_eq_ok.mp hsl
              simp only [Outcome.ok.injEq] at hsl'
              subst hsl'
              simp only at h2
              split at h2
              · obtain ⟨rr, _, hr⟩ := obind_eq_ok.mp h2
                simp only [Outcome.ok.injEq] at hr
                subst hr
                intro e he
                simp only [List.mem_append] at he
                rcases he with he | he
                · -- increments of the strict slot
                  unfold strictSlot at hs'
                  simp only [List.isEmpty_nil, if_true] at hs'
                  split at hs'
                  · exact absurd hs' (by simp)
                  · split at hs'
                    · simp only [Outcome.ok.injEq] at hs'; subst hs'
                      simp only [List.mem_append, List.mem_cons] at he
                      rcases he with (he | he) | he | he
                      · exact hown e he
                      · exact htouch 0 e he
                      · exact hown e he
                      · exact htouch _ e he
                    · simp only [Outcome.ok.injEq] at hs'; subst hs'
                      simp only [List.mem_cons] at he
                      rcases he with he | he
                      · exact hown e he
                      · exact htouch 0 e he
                · exact hunder _ _ e he
              · exact absurd h2 (by simp)
            · have hs' : strict = false := by simpa using hs
              subst hs'
              simp only [Bool.false_eq_true, if_false, obind_ok] at h
              split at h
              · obtain ⟨rr, _, hr⟩ := obind_eq_ok.mp h
                simp only [Outcome.ok.injEq] at hr
                subst hr
                intro e he
                simp only [List.mem_append] at he
                rcases he with he | he
                · unfold lenientSlot at he
                  simp only [mapGet, List.mem_singleton] at he
                  exact hown e he
                · exact hunder _ _ e he
              · exact absurd h (by simp)
          | arr m items =>
            simp only at h
            by_cases hs : strict
            · subst hs
              simp only [if_true] at h
              obtain ⟨sl, hsl, h2⟩ := obind_eq_ok.mp h
              obtain ⟨s, hs', hsl'⟩ := obind_eq_ok.mp hsl
              simp only [Outcome.ok.injEq] at hsl'
              subst hsl'
              simp only at h2
              split at h2
              · obtain ⟨rr, _, hr⟩ := obind_eq_ok.mp h2
                simp only [Outcome.ok.injEq] at hr
                subst hr
                intro e he
                simp only [List.mem_append] at he
                rcases he with he | he
                · unfold strictSlot at hs'
                  by_cases hie : items.isEmpty
                  · simp only [hie, if_true] at hs'
                    split at hs'
                    · exact absurd hs' (by simp)
                    · split at hs'
                      · simp only [Outcome.ok.injEq] at hs'; subst hs'
                        simp only [List.mem_append, List.mem_cons] at he
                        rcases he with (he | he) | he | he
                        · exact hown e he
                        · exact htouch 0 e he
                        · exact hown e he
                        · exact htouch _ e he
                      · simp only [Outcome.ok.injEq] at hs'; subst hs'
                        simp only [List.mem_cons] at he
                        rcases he with he | he
                        · exact hown e he
                        · exact htouch 0 e he
                  · simp only [hie, Bool.false_eq_true, if_false] at hs'
                    split at hs'
                    · exact absurd hs' (by simp)
                    · split at hs'
                      · simp only [Outcome.ok.injEq] at hs'; subst hs'
                        simp only [List.nil_append, List.mem_cons] at he
                        rcases he with he | he
                        · exact hown e he
                        · exact htouch _ e he
                      · simp only [Outcome.ok.injEq] at hs'; subst hs'
                        simp at he
                · exact hunder _ _ e he
              · exact absurd h2 (by simp)
            · have hs' : strict = false := by simpa using hs
              subst hs'
              simp only [Bool.false_eq_true, if_false, obind_ok] at h
              split at h
              · obtain ⟨rr, _, hr⟩ := obind_eq_ok.mp h
                simp only [Outcome.ok.injEq] at hr
                subst hr
                intro e he
                simp only [List.mem_append] at he
                rcases he with he | he
                · unfold lenientSlot at he
                  split at he
                  · simp at he
                  · simp only [List.mem_singleton] at he
                    exact hown e he
                · exact hunder _ _ e he
              · exact absurd h (by simp)
          | leaf _ => exact absurd h (by simp)
          | leaves _ => exact absurd h (by simp)
          | obj _ => exact absurd h (by simp)
        · simp only [hm, Bool.false_eq_true, if_false] at h
          cases cur with
          | none =>
            simp only at h
            obtain ⟨rr, _, hr⟩ := obind_eq_ok.mp h
            simp only [Outcome.ok.injEq] at hr
            subst hr
            intro e he
            simp only [List.mem_append, List.mem_singleton] at he
            rcases he with he | he
            · exact hown e he
            · exact hunder _ _ e he
          | obj c =>
            simp only at h
            obtain ⟨rr, _, hr⟩ := obind_eq_ok.mp h
            simp only [Outcome.ok.injEq] at hr
            subst hr
            intro e he
            simp only [List.nil_append] at he
            exact hunder _ _ e he
          | leaf _ => exact absurd h (by simp)
          | leaves _ => exact absurd h (by simp)
          | arr _ _ => exact absurd h (by simp)

end SpyneModel.Flat
