/-
  C06 lemmas, part 7: keyed lists — `dedupKeys` keeps the first definition of every name, so on a
  clash-free universe every generated component is found under its key.
-/
import SpyneModel.SchemaSpec
namespace SpyneModel
namespace Schema
open Xml

theorem dedupAux_sub {α} (seen : List Key) (l : List (Key × α)) : ∀ x ∈ dedupAux seen l, x ∈ l := by
  induction l generalizing seen with
  | nil => intro x hx; simp [dedupAux] at hx
  | cons e r ih =>
    obtain ⟨k, v⟩ := e
    intro x hx
    simp only [dedupAux] at hx
    split at hx
    · exact List.mem_cons_of_mem _ (ih seen x hx)
    · rcases List.mem_cons.mp hx with h | h
      · subst h; simp
      · exact List.mem_cons_of_mem _ (ih _ x h)

theorem dedupAux_notseen {α} (seen : List Key) (l : List (Key × α)) : ∀ x ∈ dedupAux seen l, seen.contains x.1 = false := by
  induction l generalizing seen with
  | nil => intro x hx; simp [dedupAux] at hx
  | cons e r ih =>
    obtain ⟨k, v⟩ := e
    intro x hx
    simp only [dedupAux] at hx
    split at hx
    · exact ih seen x hx
    · rename_i hk
      rcases List.mem_cons.mp hx with h | h
      · subst h; simpa using hk
      · have := ih (k :: seen) x h
        simp only [List.contains_cons, Bool.or_eq_false_iff] at this
        exact this.2

theorem nodupKeys_dedupAux {α} (seen : List Key) (l : List (Key × α)) : nodupKeys (dedupAux seen l) = true := by
  induction l generalizing seen with
  | nil => rfl
  | cons e r ih =>
    obtain ⟨k, v⟩ := e
    simp only [dedupAux]
    split
    · exact ih seen
    · simp only [nodupKeys, Bool.and_eq_true, Bool.not_eq_true', List.any_eq_false, beq_iff_eq]
      refine ⟨?_, ih _⟩
      intro x hx e
      have := dedupAux_notseen (k :: seen) r x hx
      simp [e] at this

theorem lookup_dedupAux {α} (seen : List Key) (l : List (Key × α)) (k : Key) (hk : seen.contains k = false) :
    (dedupAux seen l).lookup k = l.lookup k := by
  induction l generalizing seen with
  | nil => rfl
  | cons e r ih =>
    obtain ⟨k', v⟩ := e
    simp only [dedupAux]
    by_cases hs : seen.contains k' = true
    · rw [if_pos hs]
      have hne : (k == k') = false := by
        cases h : k == k' with
        | false => rfl
        | true => rw [beq_iff_eq.mp h] at hk; rw [hk] at hs; cases hs
      simp only [List.lookup, hne]
      exact ih seen hk
    · rw [if_neg hs]
      simp only [List.lookup]
      cases h : k == k' with
      | true => rfl
      | false =>
        apply ih
        simp only [List.contains_cons, Bool.or_eq_false_iff]
        exact ⟨h, hk⟩

theorem lookup_dedupKeys {α} (l : List (Key × α)) (k : Key) : (dedupKeys l).lookup k = l.lookup k :=
  lookup_dedupAux [] l k rfl

theorem lookup_functional {α} [DecidableEq α] (l : List (Key × α)) (h : functional l = true) (k : Key) (v : α)
    (hm : (k, v) ∈ l) : l.lookup k = some v := by
  induction l with
  | nil => cases hm
  | cons e r ih =>
    obtain ⟨k', v'⟩ := e
    simp only [functional, Bool.and_eq_true, List.all_eq_true, Bool.or_eq_true, bne_iff_ne, ne_eq, decide_eq_true_eq] at h
    simp only [List.lookup]
    rcases List.mem_cons.mp hm with e | e
    · injection e with e1 e2; subst e1; subst e2; simp
    · cases hk : k == k' with
      | false => exact ih h.2 e
      | true =>
        have := beq_iff_eq.mp hk
        subst this
        rcases h.1 (k, v) e with h1 | h1
        · exact absurd rfl h1
        · simp; exact h1.symm

theorem lookup_none_of_not_mem {α} (l : List (Key × α)) (k : Key) (h : ∀ e ∈ l, e.1 ≠ k) : l.lookup k = none := by
  induction l with
  | nil => rfl
  | cons e r ih =>
    obtain ⟨k', v⟩ := e
    have hne : (k == k') = false := by
      have := h (k', v) (by simp)
      simpa using fun e => this e.symm
    simp only [List.lookup, hne]
    exact ih (fun x hx => h x (by simp [hx]))

theorem mem_of_lookup {α} (l : List (Key × α)) (k : Key) (v : α) (h : l.lookup k = some v) : (k, v) ∈ l := by
  induction l with
  | nil => cases h
  | cons e r ih =>
    obtain ⟨k', v'⟩ := e
    simp only [List.lookup] at h
    cases hk : k == k' with
    | true => rw [hk] at h; injection h with h; subst h; simp [beq_iff_eq.mp hk]
    | false => rw [hk] at h; exact List.mem_cons_of_mem _ (ih h)

end Schema
end SpyneModel
