/-
  C06 lemmas, part 4: the statements about whole documents and the generated schema.
-/
import Proofs.SchemaGen
namespace SpyneModel
namespace Schema
open Xml

theorem lookup_map_self {α} (l : List (Key × α)) (k : Key) (h : (l.lookup k).isSome = true) :
    (l.map (fun e => (e.1, e.1))).lookup k = some k := by
  induction l with
  | nil => simp at h
  | cons e r ih =>
    obtain ⟨k', v⟩ := e
    simp only [List.map_cons, List.lookup_cons]
    by_cases hk : k = k'
    · subst hk; simp
    · have : (k == k') = false := by simpa using hk
      rw [this]
      simp only [List.lookup_cons, this] at h
      exact ih h

theorem occWf_default : occWf ({} : Occ) = true := by decide

theorem tyWf_toTy (A : App) (hwf : A.wf = true) (C : ClassDef) (hC : C ∈ A.allClasses) :
    tyWf (ClassDef.toTy C) = true := by
  unfold App.wf at hwf
  simp only [Bool.and_eq_true] at hwf
  have hb := hwf.1.1
  unfold App.wfBase at hb
  rw [List.all_eq_true] at hb
  have := hb C hC
  simp only [Bool.and_eq_true] at this
  simp only [ClassDef.toTy, tyWf, occWf_default, this.1.1.2, this.1.2, Bool.and_self]

/-! ### same-namespace chains: the general denotation is the single-namespace one -/

theorem fieldNs_same (A : App) : ∀ (f : Nat) (D : ClassDef), chainOk A.iface f D = true →
    chainSameNs A.iface f D = true → fieldNs A f D = List.replicate D.fields.length D.ns := by
  intro f
  induction f with
  | zero => intro D h; simp [chainOk] at h
  | succ f ih =>
    intro D hc hs
    unfold chainOk at hc
    unfold chainSameNs at hs
    simp only [fieldNs]
    cases hb : D.base with
    | none =>
      have hp : parentOf A.iface D = none := by simp [parentOf, hb]
      simp [hp, ownFields, List.map_const']
    | some b =>
      rw [hb] at hc hs
      dsimp only at hc hs
      cases hf : Registry.find? A.iface.classes b with
      | none => rw [hf] at hc; cases hc
      | some P =>
        rw [hf] at hc hs
        simp only [Bool.and_eq_true, decide_eq_true_eq] at hc hs
        obtain ⟨⟨hlen, _⟩, hch⟩ := hc
        have hp : parentOf A.iface D = some P := by simp [parentOf, hb, hf]
        simp only [hp, ownFields, ih P hch hs.2, hs.1, List.map_const', List.length_drop]
        rw [List.replicate_append_replicate]
        congr 1
        omega

structure SameNs (A : App) : Prop where
  ok : ∀ D ∈ A.allClasses, chainOk A.iface (A.iface.classes.length + 1) D = true ∧
    chainSameNs A.iface (A.iface.classes.length + 1) D = true

mutual
  theorem denoteG_same (A : App) (h : SameNs A) : ∀ (t : Ty) (ctx : Text), (∀ D ∈ nested t, D ∈ A.allClasses) →
      denoteG A ctx t = denote (primFacetsA A) A.tns ctx t
    | .prim p o, ctx, _ => by simp [denoteG, denote]
    | .obj name ns b fields o, ctx, hn => by
      have hD : ({ name := name, ns := ns, base := b, fields := fields } : ClassDef) ∈ A.allClasses := hn _ (by simp [nested])
      have := fieldNs_same A _ _ (h.ok _ hD).1 (h.ok _ hD).2
      simp only [denoteG, denote, this]
      rw [denoteFieldsG_same A h fields ns (fun D hD' => hn D (by simp [nested, hD']))]
    | .arr m e o, ctx, hn => by
      simp only [denoteG, denote]
      rw [denoteG_same A h e ctx (fun D hD => hn D (by simpa [nested] using hD))]

  theorem denoteFieldsG_same (A : App) (h : SameNs A) : ∀ (fs : List (Text × Ty)) (ns : Text),
      (∀ D ∈ nestedFields fs, D ∈ A.allClasses) →
      denoteFieldsG A (List.replicate fs.length ns) fs = denoteFields (primFacetsA A) A.tns ns fs
    | [], ns, _ => by simp [denoteFieldsG, denoteFields]
    | (k, t) :: r, ns, hn => by
      simp only [List.length_cons, List.replicate_succ, denoteFieldsG, denoteFields]
      rw [denoteG_same A h t ns (fun D hD => hn D (by simp [nestedFields, hD])),
        denoteFieldsG_same A h r ns (fun D hD => hn D (by simp [nestedFields, hD]))]
end

theorem sameNs_of (A : App) (hwf : A.wf = true) (hs : A.sameNsChains = true) : SameNs A := by
  have hc := closed_of_wf A hwf
  unfold App.sameNsChains at hs
  rw [List.all_eq_true] at hs
  exact ⟨fun D hD => ⟨hc.chain D hD, hs D hD⟩⟩

/-- **A** for documents: a document whose root is the element of a registered class is valid against
    the generated schema iff it is valid for the type the class denotes -/
theorem valid_gen (A : App) (hwf : A.wf = true) (C : ClassDef) (hC : C ∈ A.iface.classes) (x : Node)
    (hkey : nodeKey x = (C.ns, C.name)) :
    (gen A).valid x = validS (denoteG A C.ns (ClassDef.toTy C)) false x := by
  have hc := closed_of_wf A hwf
  have hCa : C ∈ A.allClasses := List.mem_append.mpr (Or.inl hC)
  have hl := hc.cplx C hCa
  have he : (gen A).elements.lookup (C.ns, C.name) = some (C.ns, C.name) := by
    show ((gen A).complex.map (fun e => (e.1, e.1))).lookup (C.ns, C.name) = some (C.ns, C.name)
    exact lookup_map_self _ _ (by rw [hl]; rfl)
  unfold Schema.valid
  rw [hkey, he]
  have := validElem_gen_pos A hc x C.ns C.name [] (ClassDef.toTy C) false
    (by
      simp only [ClassDef.toTy, posOk, Bool.and_eq_true, Option.isNone_iff_eq_none, beq_iff_eq]
      exact ⟨hc.simp C hCa, hl⟩)
    (by
      intro D hD
      simp only [ClassDef.toTy, nested, List.mem_cons] at hD
      rcases hD with e | e
      · subst e; exact hCa
      · exact allClasses_closed A C hCa D e)
  exact this

theorem validS_no_attrs (d : STy) (n n' : Bool) (ns name : Text) (text : Option Text) (children : List Node) :
    validS d n (.elem ns name [] text children) = validS d n' (.elem ns name [] text children) := by
  simp only [validS, nilAttr_nil]
  simp

theorem encode_obj_shape (F : Facts08) (cfg : Cfg) (I : Iface) (ns name cname cns : Text) (b : Option Text)
    (fields : List (Text × Ty)) (o : Occ) (vs : List (Text × Val)) :
    encode F cfg I ns name (.obj cname cns b fields o) (.obj cname vs) =
      [.elem ns name [] none (membersToParent F cfg I cns fields vs)] := by
  simp [encode, toParent, polyTarget]

/-- on same-namespace chains -/
theorem valid_gen_same (A : App) (hwf : A.wf = true) (hs : A.sameNsChains = true) (C : ClassDef) (hC : C ∈ A.iface.classes)
    (x : Node) (hkey : nodeKey x = (C.ns, C.name)) :
    (gen A).valid x = validS (denote (primFacetsA A) A.tns C.ns (ClassDef.toTy C)) false x := by
  have hCa : C ∈ A.allClasses := List.mem_append.mpr (Or.inl hC)
  rw [valid_gen A hwf C hC x hkey, denoteG_same A (sameNs_of A hwf hs) (ClassDef.toTy C) C.ns (by
    intro D hD
    simp only [ClassDef.toTy, nested, List.mem_cons] at hD
    rcases hD with e | e
    · subst e; exact hCa
    · exact allClasses_closed A C hCa D e)]

/-- **emitted_valid**: the message document the encoder writes for a conformant instance of a
    registered class is valid against the schema generated for the application -/
theorem emitted_valid_gen (A : App) (G : A.leaf.Good) (hwf : A.wf = true) (hsn : A.sameNsChains = true) (cfg : Cfg)
    (C : ClassDef) (hC : C ∈ A.iface.classes) (vs : List (Text × Val))
    (hc : conformsOne (ClassDef.toTy C) (.obj C.name vs) = true)
    (hr : leavesOne (leafCond A) (ClassDef.toTy C) (.obj C.name vs) = true) :
    ∃ x, encode A.leaf cfg A.iface C.ns C.name (ClassDef.toTy C) (.obj C.name vs) = [x] ∧ (gen A).valid x = true := by
  have hCa : C ∈ A.allClasses := List.mem_append.mpr (Or.inl hC)
  obtain ⟨x, hx, hk, hv⟩ := emitted_validS A.leaf (primFacetsA A) (leafCond A) (fun p v h1 h2 => leaf_simpleOkA A G p v h1 h2)
    cfg A.iface (ClassDef.toTy C) (.obj C.name vs) C.ns C.name hc (tyWf_toTy A hwf C hCa) hr
  refine ⟨x, hx, ?_⟩
  rw [valid_gen_same A hwf hsn C hC x hk]
  have hshape := encode_obj_shape A.leaf cfg A.iface C.ns C.name C.name C.ns C.base C.fields {} vs
  simp only [ClassDef.toTy] at hx hv ⊢
  rw [hshape] at hx
  injection hx with hx _
  subst hx
  rw [validS_no_attrs _ false true]
  exact hv

end Schema
end SpyneModel
