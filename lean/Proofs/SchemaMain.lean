/-
  C06 lemmas, part 4: the statements about whole documents and the generated schema.
-/
import Proofs.SchemaGen
namespace SpyneModel
namespace Schema
open Xml

theorem lookup_map_self {α} (l : List (Key × α)) (k : Key) (h : (l.lookup k).isSome = true) :
    (l.map (fun e => (e.1, e.1))).lookup k = some k := by
  induction l with
  | nil => simp at h
  | cons e r ih =>
    obtain ⟨k', v⟩ := e
    simp only [List.map_cons, List.lookup_cons]
    by_cases hk : k = k'
    · subst hk; simp
    · have : (k == k') = false := by simpa using hk
      rw [this]
      simp only [List.lookup_cons, this] at h
      exact ih h

theorem occWf_default : occWf ({} : Occ) = true := by decide

theorem tyWf_toTy (A : App) (hwf : A.wf = true) (C : ClassDef) (hC : C ∈ A.allClasses) :
    tyWf (ClassDef.toTy C) = true := by
  unfold App.wf at hwf
  simp only [Bool.and_eq_true] at hwf
  have hb := hwf.1.1
  unfold App.wfBase at hb
  rw [List.all_eq_true] at hb
  have := hb C hC
  simp only [Bool.and_eq_true] at this
  simp only [ClassDef.toTy, tyWf, occWf_default, this.1.1.2, this.1.2, Bool.and_self]

/-- **A** for documents: a document whose root is the element of a registered class is valid against
    the generated schema iff it is valid for the type the class denotes -/
theorem valid_gen (A : App) (hwf : A.wf = true) (C : ClassDef) (hC : C ∈ A.iface.classes) (x : Node)
    (hkey : nodeKey x = (C.ns, C.name)) :
    (gen A).valid x = validS (denote (primFacetsA A) A.tns C.ns (ClassDef.toTy C)) false x := by
  have hc := closed_of_wf A hwf
  have hCa : C ∈ A.allClasses := List.mem_append.mpr (Or.inl hC)
  have hl := hc.cplx C hCa
  have he : (gen A).elements.lookup (C.ns, C.name) = some (C.ns, C.name) := by
    show ((gen A).complex.map (fun e => (e.1, e.1))).lookup (C.ns, C.name) = some (C.ns, C.name)
    exact lookup_map_self _ _ (by rw [hl]; rfl)
  unfold Schema.valid
  rw [hkey, he]
  have := validElem_gen_pos A hc x C.ns C.name [] (ClassDef.toTy C) false
    (by
      simp only [ClassDef.toTy, posOk, Bool.and_eq_true, Option.isNone_iff_eq_none, beq_iff_eq]
      exact ⟨hc.simp C hCa, hl⟩)
    (by
      intro D hD
      simp only [ClassDef.toTy, nested, List.mem_cons] at hD
      rcases hD with e | e
      · subst e; exact hCa
      · exact allClasses_closed A C hCa D e)
  exact this

theorem validS_no_attrs (d : STy) (n n' : Bool) (ns name : Text) (text : Option Text) (children : List Node) :
    validS d n (.elem ns name [] text children) = validS d n' (.elem ns name [] text children) := by
  simp only [validS, nilAttr_nil]
  simp

theorem encode_obj_shape (F : Facts08) (cfg : Cfg) (I : Iface) (ns name cname cns : Text) (b : Option Text)
    (fields : List (Text × Ty)) (o : Occ) (vs : List (Text × Val)) :
    encode F cfg I ns name (.obj cname cns b fields o) (.obj cname vs) =
      [.elem ns name [] none (membersToParent F cfg I cns fields vs)] := by
  simp [encode, toParent, polyTarget]

/-- **emitted_valid**: the message document the encoder writes for a conformant instance of a
    registered class is valid against the schema generated for the application -/
theorem emitted_valid_gen (A : App) (G : A.leaf.Good) (hwf : A.wf = true) (cfg : Cfg)
    (C : ClassDef) (hC : C ∈ A.iface.classes) (vs : List (Text × Val))
    (hc : conformsOne (ClassDef.toTy C) (.obj C.name vs) = true)
    (hr : leavesOne (leafCond A) (ClassDef.toTy C) (.obj C.name vs) = true) :
    ∃ x, encode A.leaf cfg A.iface C.ns C.name (ClassDef.toTy C) (.obj C.name vs) = [x] ∧ (gen A).valid x = true := by
  have hCa : C ∈ A.allClasses := List.mem_append.mpr (Or.inl hC)
  obtain ⟨x, hx, hk, hv⟩ := emitted_validS A.leaf (primFacetsA A) (leafCond A) (fun p v h1 h2 => leaf_simpleOkA A G p v h1 h2)
    cfg A.iface (ClassDef.toTy C) (.obj C.name vs) C.ns C.name hc (tyWf_toTy A hwf C hCa) hr
  refine ⟨x, hx, ?_⟩
  rw [valid_gen A hwf C hC x hk]
  have hshape := encode_obj_shape A.leaf cfg A.iface C.ns C.name C.name C.ns C.base C.fields {} vs
  simp only [ClassDef.toTy] at hx hv ⊢
  rw [hshape] at hx
  injection hx with hx _
  subst hx
  rw [validS_no_attrs _ false true]
  exact hv

end Schema
end SpyneModel
