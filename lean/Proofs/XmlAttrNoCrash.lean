/-
  C10 for classes with attribute / data members: with a child element named like an XmlAttribute / XmlData
  member skipped (`modifierChildSkipped`), `from_element` never lets an exception escape.
-/
import SpyneModel.XmlAttrSpec
import Proofs.XmlNoCrash
namespace SpyneModel
namespace Xml

theorem modifierValue_nocrash {F : Facts08} (L : LeafLaws F) (A : FactsAttr) (cfg : Cfg) (p : PrimTy) (s : Text)
    (e : String) : modifierValue F A cfg p s ≠ .crash e := by
  unfold modifierValue
  repeat' (first | split | (dsimp only; split))
  all_goals (try (intro h; cases h; done))
  all_goals (rename_i h; exact absurd h (L.nocrash _ _ _))

theorem dataPass_nocrash {F : Facts08} (L : LeafLaws F) (A : FactsAttr) (cfg : Cfg) (text : Option Text)
    (fs : List (Text × MKind × TyA)) : ∀ (st : List (Text × Val)) (e : String), dataPass F A cfg text fs st ≠ .crash e := by
  induction fs with
  | nil => intro st e; simp [dataPass]
  | cons f fs ih =>
    intro st e
    obtain ⟨k, kind, t⟩ := f
    cases kind <;> cases t <;> simp only [dataPass]
    all_goals first
      | exact ih _ e
      | skip
    repeat' (first | split | (dsimp only; split))
    all_goals first
      | (intro h; cases h; done)
      | exact ih _ e
      | exact absurd ‹modifierValue F A cfg _ _ = Outcome.crash _› (modifierValue_nocrash L A cfg _ _ _)

theorem attrPass_nocrash {F : Facts08} (L : LeafLaws F) (A : FactsAttr) (cfg : Cfg) (fields : List (Text × MKind × TyA)) :
    (as : List (Text × Text)) → (st : List (Text × Val)) → (e : String) → attrPass F A cfg fields as st ≠ .crash e
  | [], st, e => by simp [attrPass]
  | a :: as, st, e => by
    unfold attrPass
    repeat' (first | split | (dsimp only; split))
    all_goals first
      | (intro h; cases h; done)
      | exact attrPass_nocrash L A cfg fields as _ e
      | exact absurd ‹modifierValue F A cfg _ _ = Outcome.crash _› (modifierValue_nocrash L A cfg _ _ _)

theorem childAttrLeak_nocrash {F : Facts08} (L : LeafLaws F) (A : FactsAttr) (cfg : Cfg) (fields : List (Text × MKind × TyA))
    (as : List (Text × Text)) (st : List (Text × Val)) (e : String) : childAttrLeak F A cfg fields as st ≠ .crash e := by
  unfold childAttrLeak
  split
  · intro h; cases h
  · exact attrPass_nocrash L _ cfg fields as st e

mutual
  theorem fromElementA_nocrash {F : Facts08} (L : LeafLaws F) (X : FactsXml) {A : FactsAttr}
      (hA : A.modifierChildSkipped = true) (cfg : Cfg) (I : IfaceA) (t : TyA) :
      (x : Node) → (e : String) → fromElementA F X A cfg I t x ≠ .crash e
    | .elem ns name attrs text children, e => by
      unfold fromElementA
      repeat' (first | split | (dsimp only; split))
      all_goals first
        | (intro h; cases h; done)
        | exact leafFromElement_nocrash L X cfg _ _ _ e
        | (rename_i h; exact absurd h (attrPass_nocrash L A cfg _ _ _ _))
        | (rename_i h; exact absurd h (dataPass_nocrash L A cfg _ _ _ _))
        | (rename_i h; exact absurd h (childLoopA_nocrash L X hA cfg I _ children _ _))
        | (rename_i h; exact absurd h (arrayLoopA_nocrash L X hA cfg I _ children _))

  theorem childLoopA_nocrash {F : Facts08} (L : LeafLaws F) (X : FactsXml) {A : FactsAttr}
      (hA : A.modifierChildSkipped = true) (cfg : Cfg) (I : IfaceA) (fields : List (Text × MKind × TyA)) :
      (cs : List Node) → (st : List (Text × Val)) → (e : String) → childLoopA F X A cfg I fields cs st ≠ .crash e
    | [], st, e => by simp [childLoopA]
    | c :: cs, st, e => by
      unfold childLoopA
      repeat' (first | split | (dsimp only; split))
      all_goals first
        | (intro h; cases h; done)
        | exact childLoopA_nocrash L X hA cfg I fields cs _ e
        | (rename_i h; exact absurd h (childAttrLeak_nocrash L A cfg _ _ _ _))
        | (rename_i h; exact absurd h (fromElementA_nocrash L X hA cfg I _ c _))
        | (rename_i h; exact absurd hA h)

  theorem arrayLoopA_nocrash {F : Facts08} (L : LeafLaws F) (X : FactsXml) {A : FactsAttr}
      (hA : A.modifierChildSkipped = true) (cfg : Cfg) (I : IfaceA) (elem : TyA) :
      (cs : List Node) → (e : String) → arrayLoopA F X A cfg I elem cs ≠ .crash e
    | [], e => by simp [arrayLoopA]
    | c :: cs, e => by
      unfold arrayLoopA
      repeat' (first | split | (dsimp only; split))
      all_goals first
        | (intro h; cases h; done)
        | (rename_i h; exact absurd h (arrayLoopA_nocrash L X hA cfg I elem cs _))
        | (rename_i h; exact absurd h (fromElementA_nocrash L X hA cfg I _ c _))
end

theorem decodeA_nocrash {F : Facts08} (L : LeafLaws F) (X : FactsXml) {A : FactsAttr}
    (hA : A.modifierChildSkipped = true) (cfg : Cfg) (I : IfaceA) (t : TyA) (x : Node) (e : String) :
    decodeA F X A cfg I t x ≠ .crash e := fromElementA_nocrash L X hA cfg I t x e

end Xml
end SpyneModel
