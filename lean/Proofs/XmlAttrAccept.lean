/-
  C05 for classes with attribute / data members, "only if": whatever document arrives, a value that
  `from_element` delivers under soft validation satisfies every declared constraint — for attribute members
  the facets of the attribute's type and `use="required"`, for the data member the facets of its type —
  at every nesting depth. (xsi:type switched off: `okA` speaks about the declared classes.)
-/
import Proofs.XmlAccept
import Proofs.XmlAttrRoundtrip
import Proofs.XmlAttrSound
namespace SpyneModel
namespace Xml

/-! ### attribute and data values under soft validation -/

/-- soft validation of an attribute value / the text of an XmlData member: accepted iff the text is in
    the lexical space of the type and the value satisfies every declared facet -/
theorem soft_modifier_exact {F : Facts08} (L : LeafLaws F) {A : FactsAttr} (hA : A.attrSoftChecked = true) (cfg : Cfg)
    (hs : cfg.soft = true) (p : PrimTy) (s : Text) : modifierValue F A cfg p s = leafSpec F p s := by
  unfold leafSpec modifierValue
  cases hft : leafFromText F p s with
  | crash e => exact absurd hft (L.nocrash p s e)
  | fault => simp
  | ok v =>
    have hsoft := L.soft p s v hft
    simp only [hs, hA, Bool.true_and]
    cases hvs : validateString F p s <;> cases hvn : validateNative p v <;> simp_all

theorem modifier_acc {F : Facts08} (L : LeafLaws F) {A : FactsAttr} (hA : A.attrSoftChecked = true) (cfg : Cfg)
    (hs : cfg.soft = true) (p : PrimTy) (s : Text) (v : Val) (h : modifierValue F A cfg p s = .ok v) :
    p.valueOk v = true := by
  rw [soft_modifier_exact L hA cfg hs] at h
  exact leafSpec_ok h

/-! ### the instance state while the element is consumed -/

/-- what is known about element member `k` after the children `pre` -/
def memberAccA (pre : List Node) (k : Text) (t : TyA) (w : Val) : Prop :=
  if t.occ.repeated then
    (w = .none ∧ pre.countP (fun c => c.name = k) = 0) ∨
    (∃ l, w = .list l ∧ l.length = pre.countP (fun c => c.name = k) ∧ okItemsA false t l = true)
  else
    (pre.countP (fun c => c.name = k) = 0 ∧ w = .none) ∨
    (pre.countP (fun c => c.name = k) > 0 ∧ okOneA false t w = true)

/-- what is known about a slot after the children `pre` and the attributes `seen` -/
def slotAcc (pre : List Node) (seen : List (Text × Text)) (k : Text) (kind : MKind) (t : TyA) (w : Val) : Prop :=
  match kind with
  | .element => memberAccA pre k t w
  | .attribute => (w = .none ∧ seen.lookup k = none) ∨ (modOk t w = true ∧ (seen.lookup k).isSome = true)
  | .data => w = .none ∨ modOk t w = true

def AccInvA (pre : List Node) (seen : List (Text × Text)) : List (Text × MKind × TyA) → List (Text × Val) → Prop
  | [], [] => True
  | (k, kind, t) :: fs, (k', w) :: st => k = k' ∧ slotAcc pre seen k kind t w ∧ AccInvA pre seen fs st
  | _, _ => False

theorem accInvA_init : (fields : List (Text × MKind × TyA)) → AccInvA [] [] fields (initStateA fields)
  | [] => by simp [initStateA, AccInvA]
  | (k, kind, t) :: fs => by
    rw [initStateA_cons]
    refine ⟨rfl, ?_, accInvA_init fs⟩
    cases kind
    · simp only [slotAcc, memberAccA]; split <;> simp
    · simp [slotAcc, List.lookup]
    · simp [slotAcc]

theorem accInvA_mono {pre pre' : List Node} {seen seen' : List (Text × Text)} :
    (fs : List (Text × MKind × TyA)) → (st : List (Text × Val)) →
    (∀ k kind t w, (k, kind, t) ∈ fs → slotAcc pre seen k kind t w → slotAcc pre' seen' k kind t w) →
    AccInvA pre seen fs st → AccInvA pre' seen' fs st
  | [], [], _, _ => by simp [AccInvA]
  | [], _ :: _, _, h => by simp [AccInvA] at h
  | _ :: _, [], _, h => by simp [AccInvA] at h
  | (k, kind, t) :: fs, (k', w) :: st, hmono, h => by
    obtain ⟨hk, hs, hr⟩ := h
    exact ⟨hk, hmono k kind t w List.mem_cons_self hs,
      accInvA_mono fs st (fun k kind t w hm => hmono k kind t w (List.mem_cons_of_mem _ hm)) hr⟩

/-- `setattr(inst, key, v)`: the slot of `key` takes the new value, every other slot is carried over -/
theorem accInvA_set {pre pre' : List Node} {seen seen' : List (Text × Text)} (key : Text) (v : Val) :
    (fs : List (Text × MKind × TyA)) → (st : List (Text × Val)) → namesNodupA fs = true →
    (∀ k kind t w, (k, kind, t) ∈ fs → k ≠ key → slotAcc pre seen k kind t w → slotAcc pre' seen' k kind t w) →
    (∀ kind t, lookupA fs key = some (kind, t) → slotAcc pre seen key kind t (stGet st key) →
      slotAcc pre' seen' key kind t v) →
    AccInvA pre seen fs st → AccInvA pre' seen' fs (stSet st key v)
  | [], [], _, _, _, _ => by simp [AccInvA, stSet]
  | [], _ :: _, _, _, _, h => by simp [AccInvA] at h
  | _ :: _, [], _, _, _, h => by simp [AccInvA] at h
  | (k, kind, t) :: fs, (k', w) :: st, hnd, hother, hkey, h => by
    obtain ⟨hk, hs, hr⟩ := h
    subst hk
    obtain ⟨hknot, hnd'⟩ := namesNodupA_cons hnd
    by_cases hkk : k = key
    · subst hkk
      simp only [stSet, if_true]
      refine ⟨rfl, ?_, ?_⟩
      · exact hkey kind t (by simp [lookupA, List.lookup]) (by simpa [stGet, List.lookup] using hs)
      · apply accInvA_mono fs st _ hr
        intro k' kind' t' w' hm hs'
        refine hother k' kind' t' w' (List.mem_cons_of_mem _ hm) ?_ hs'
        intro e; subst e
        exact hknot (by simp only [fieldNamesA, List.mem_map]; exact ⟨_, hm, rfl⟩)
    · simp only [stSet, hkk, if_false]
      have hkk' : ¬ key = k := fun e => hkk e.symm
      have hb : (key == k) = false := by simp [hkk']
      refine ⟨rfl, hother k kind t w List.mem_cons_self hkk hs, ?_⟩
      apply accInvA_set key v fs st hnd' (fun k' kind' t' w' hm => hother k' kind' t' w' (List.mem_cons_of_mem _ hm)) _ hr
      intro kind' t' hl hs'
      apply hkey kind' t' (by simpa [lookupA, List.lookup, hb] using hl)
      simpa [stGet, List.lookup, hb] using hs'

theorem stAppend_eq (st : List (Text × Val)) (key : Text) (v : Val) :
    stAppend st key v = stSet st key (accStep (stGet st key) v) := by
  unfold stAppend accStep
  split <;> simp_all

theorem okItemsA_append {s : Bool} {t : TyA} (l : List Val) (v : Val)
    (hl : okItemsA s t l = true) (hv : okOneA s t v = true) : okItemsA s t (l ++ [v]) = true := by
  induction l with
  | nil => simp [okItemsA, hv]
  | cons a l ih =>
    simp only [okItemsA, Bool.and_eq_true] at hl
    simp [okItemsA, hl.1, ih hl.2]

theorem lookup_snoc_ne {β : Type} (k key : Text) (s : β) (h : k ≠ key) : (seen : List (Text × β)) →
    List.lookup k (seen ++ [(key, s)]) = List.lookup k seen
  | [] => by
    have : (k == key) = false := by simp [h]
    simp [List.lookup, this]
  | (k0, x) :: seen => by
    simp only [List.cons_append, List.lookup]
    cases (k == k0)
    · exact lookup_snoc_ne k key s h seen
    · rfl

theorem lookup_snoc_self {β : Type} (key : Text) (s : β) : (seen : List (Text × β)) →
    (List.lookup key (seen ++ [(key, s)])).isSome = true
  | [] => by simp [List.lookup]
  | (k0, x) :: seen => by
    simp only [List.cons_append, List.lookup]
    cases (key == k0)
    · exact lookup_snoc_self key s seen
    · rfl

/-- slots of members whose kind does not depend on what grew are carried over -/
theorem slotAcc_child_ne {pre : List Node} {seen : List (Text × Text)} (c : Node) {k : Text} {kind : MKind} {t : TyA} {w : Val}
    (h : kind = .element → k ≠ c.name) (hs : slotAcc pre seen k kind t w) : slotAcc (pre ++ [c]) seen k kind t w := by
  cases kind
  · have hkc : c.name ≠ k := fun e => h rfl e.symm
    simp only [slotAcc, memberAccA] at hs ⊢
    rw [countP_snoc_ne pre c k hkc]
    exact hs
  · exact hs
  · exact hs

theorem slotAcc_attr_ne {pre : List Node} {seen : List (Text × Text)} (key s : Text) {k : Text} {kind : MKind} {t : TyA} {w : Val}
    (h : kind = .attribute → k ≠ key) (hs : slotAcc pre seen k kind t w) :
    slotAcc pre (seen ++ [(key, s)]) k kind t w := by
  cases kind
  · exact hs
  · simp only [slotAcc] at hs ⊢
    rw [lookup_snoc_ne k key s (h rfl) seen]
    exact hs
  · exact hs

/-! ### the passes -/

structure AccCtxA (F : Facts08) (X : FactsXml) (A : FactsAttr) (cfg : Cfg) : Prop where
  L : LeafLaws F
  hE : X.emptyStringText = true
  hs : cfg.soft = true
  hP : cfg.parseXsiType = false
  hA : A.attrSoftChecked = true
  hLeak : A.childAttrsIgnored = true

theorem dataPass_acc {F : Facts08} {X : FactsXml} {A : FactsAttr} {cfg : Cfg} (C : AccCtxA F X A cfg) (text : Option Text)
    (fields : List (Text × MKind × TyA)) (hnd : namesNodupA fields = true) (fs : List (Text × MKind × TyA)) :
    (∀ f ∈ fs, lookupA fields f.1 = some f.2) → ∀ (st st' : List (Text × Val)),
    AccInvA [] [] fields st → dataPass F A cfg text fs st = .ok st' → AccInvA [] [] fields st' := by
  induction fs with
  | nil => intro _ st st' hst h; simp only [dataPass] at h; cases h; exact hst
  | cons f fs ih =>
    intro hsub st st' hst h
    have ih' := ih (fun g hg => hsub g (List.mem_cons_of_mem _ hg))
    obtain ⟨k, kind, t⟩ := f
    have hlk := hsub (k, kind, t) List.mem_cons_self
    cases kind <;> cases t <;> simp only [dataPass] at h
    all_goals first
      | exact ih' st st' hst h
      | skip
    rename_i p o
    split at h
    · exact ih' st st' hst h
    · split at h
      · rename_i v hv
        refine ih' _ st' ?_ h
        apply accInvA_set k v fields st hnd (fun _ _ _ _ _ _ hs => hs) _ hst
        intro kind' t' hl _
        simp only at hlk
        rw [hlk] at hl
        cases hl
        right
        exact modifier_acc C.L C.hA cfg C.hs p _ v hv
      · cases h
      · cases h

theorem attrPass_acc {F : Facts08} {X : FactsXml} {A : FactsAttr} {cfg : Cfg} (C : AccCtxA F X A cfg) (pre : List Node)
    (fields : List (Text × MKind × TyA)) (hnd : namesNodupA fields = true)
    (hprim : ∀ f ∈ fields, f.2.1 = .attribute → isPrimA f.2.2 = true) :
    (as : List (Text × Text)) → (seen : List (Text × Text)) → (st st' : List (Text × Val)) →
    AccInvA pre seen fields st → attrPass F A cfg fields as st = .ok st' → AccInvA pre (seen ++ as) fields st'
  | [], seen, st, st', hst, h => by simp only [attrPass] at h; cases h; simpa using hst
  | (key, s) :: as, seen, st, st', hst, h => by
    have happ : seen ++ (key, s) :: as = (seen ++ [(key, s)]) ++ as := by simp
    rw [happ]
    unfold attrPass at h
    split at h
    · rename_i p o hlk
      split at h
      · rename_i v hv
        refine attrPass_acc C pre fields hnd hprim as _ _ st' ?_ h
        apply accInvA_set key v fields st hnd _ _ hst
        · intro k kind t w _ hne hs
          exact slotAcc_attr_ne key s (fun _ => hne) hs
        · intro kind' t' hl _
          rw [hlk] at hl
          cases hl
          right
          exact ⟨modifier_acc C.L C.hA cfg C.hs p s v hv, lookup_snoc_self key s seen⟩
      · cases h
      · cases h
    · rename_i hnot
      refine attrPass_acc C pre fields hnd hprim as _ st st' ?_ h
      apply accInvA_mono fields st _ hst
      intro k kind t w hm hs
      apply slotAcc_attr_ne key s _ hs
      intro hkind e
      subst hkind; subst e
      have hl := lookupA_of_memA fields hnd (k, .attribute, t) hm
      have hp := hprim (k, .attribute, t) hm rfl
      cases t with
      | prim p o => exact hnot p o hl
      | obj a b c d e => simp [isPrimA] at hp
      | arr a b c => simp [isPrimA] at hp

theorem lookupA_none_ne : (fields : List (Text × MKind × TyA)) → (k : Text) → lookupA fields k = none →
    ∀ f ∈ fields, f.1 ≠ k
  | [], _, _, f, hf => by cases hf
  | (k0, x0) :: fs, k, h, f, hf => by
    simp only [lookupA, List.lookup] at h
    split at h
    · cases h
    · rename_i hb
      cases hf with
      | head => intro e; simp only at e; subst e; simp at hb
      | tail _ hf' => exact lookupA_none_ne fs k h f hf'

theorem okOne_prim (I : Iface) (poly s : Bool) (p : PrimTy) (o : Occ) (w : Val) :
    okOneX I poly s (.prim p o) w = okOneA s (.prim p o) w := by
  cases w <;> simp [okOneX, okOneA, Ty.occ, TyA.occ]

/-- with the occurrence counts checked, the instance conforms -/
theorem accInvA_final (A : FactsAttr) (hA : A.attrSoftChecked = true) (children : List Node) (attrs : List (Text × Text)) :
    (fields : List (Text × MKind × TyA)) → (st : List (Text × Val)) →
    (∀ f ∈ fields, f.2.1 = .data → f.2.2.occ.minOccurs = 0) →
    AccInvA children attrs fields st → fields.all (freqSlot A attrs children) = true →
    okFieldsA false fields st = true
  | [], [], _, _, _ => by simp [okFieldsA]
  | [], _ :: _, _, h, _ => by simp [AccInvA] at h
  | _ :: _, [], _, h, _ => by simp [AccInvA] at h
  | (k, kind, t) :: fs, (k', w) :: st, hdata, h, hf => by
    obtain ⟨hk, hm, hr⟩ := h
    subst hk
    simp only [List.all_cons, Bool.and_eq_true] at hf
    have ih := accInvA_final A hA children attrs fs st (fun f hf => hdata f (List.mem_cons_of_mem _ hf)) hr hf.2
    rw [okFieldsA_cons]
    simp only [decide_true, Bool.true_and, Bool.and_eq_true]
    refine ⟨?_, ih⟩
    have hcnt := hf.1
    have hd := hdata (k, kind, t) List.mem_cons_self
    have hnn : ∀ w : Val, modOk t w = true → w ≠ .none := by
      intro w hw e; subst e
      cases t <;> simp [modOk] at hw
      rename_i p o; cases p <;> simp [PrimTy.valueOk] at hw
    cases kind
    · -- element
      have hcnt' : t.occ.countOk (children.countP (fun c => c.name = k)) = true := by
        cases hs : A.attrSoftChecked <;> simpa [freqSlot, hs, memberCount] using hcnt
      simp only [slotAcc, memberAccA] at hm
      by_cases hrep : t.occ.repeated = true
      · simp only [hrep, if_true] at hm
        rcases hm with ⟨hw, hn⟩ | ⟨l, hw, hlen, hok⟩
        · subst hw
          rw [hn] at hcnt'
          simp only [Occ.countOk, Bool.and_eq_true, decide_eq_true_eq] at hcnt'
          simp only [fieldOkA, Bool.or_eq_true, decide_eq_true_eq]
          left; omega
        · subst hw
          rw [← hlen] at hcnt'
          simp [fieldOkA, okA, hrep, hcnt', hok]
      · have hrep' : t.occ.repeated = false := by simpa using hrep
        simp only [hrep] at hm
        rw [if_neg (by simp)] at hm
        rcases hm with ⟨hn, hw⟩ | ⟨hn, hok⟩
        · subst hw
          rw [hn] at hcnt'
          simp only [Occ.countOk, Bool.and_eq_true, decide_eq_true_eq] at hcnt'
          simp only [fieldOkA, Bool.or_eq_true, decide_eq_true_eq]
          left; omega
        · cases w with
          | none =>
            simp only [okOneA] at hok
            simp [fieldOkA, hok, hrep']
          | _ =>
            simp only [fieldOkA]
            rw [okA_nonrep hrep' (by simp)]
            exact hok
    · -- attribute
      simp only [freqSlot, hA, memberCount] at hcnt
      simp only [slotAcc] at hm
      rcases hm with ⟨hw, hl⟩ | ⟨hw, _⟩
      · subst hw
        simp only [hl, Option.isSome_none, Bool.false_eq_true, if_false, Occ.countOk, Bool.and_eq_true,
          decide_eq_true_eq] at hcnt
        simp only [fieldOkA, decide_eq_true_eq]
        omega
      · have := hnn w hw
        cases w <;> simp_all [fieldOkA]
    · -- data
      simp only [slotAcc] at hm
      rcases hm with hw | hw
      · subst hw; simp [fieldOkA, hd rfl]
      · have := hnn w hw
        cases w <;> simp_all [fieldOkA]

/-! ### the theorem -/

mutual
  /-- soft validation: a delivered value satisfies every declared constraint -/
  theorem fromElementA_acc {F : Facts08} {X : FactsXml} {A : FactsAttr} {cfg : Cfg} (C : AccCtxA F X A cfg) (I : IfaceA)
      (t : TyA) (ht : tyWfA t = true) :
      (x : Node) → (w : Val) → fromElementA F X A cfg I t x = .ok w → okOneA false t w = true
    | .elem ns name attrs text children, w, h => by
      unfold fromElementA at h
      split at h
      · split at h
        · cases h
        · rename_i hn
          cases h
          simp only [C.hs, Bool.true_and, Bool.not_eq_true', Bool.not_eq_false] at hn
          simpa [okOneA] using hn
      · simp only [C.hP, Bool.false_eq_true, if_false] at h
        cases t with
        | prim p o =>
          simp only at h
          have := leaf_acc C.L C.hE cfg C.hs ⟨[], [], []⟩ p o text w h
          rw [okOne_prim] at this
          exact this
        | arr m elem o =>
          simp only at h
          simp only [tyWfA, Bool.and_eq_true] at ht
          split at h
          · rename_i vs hal
            cases h
            simpa [okOneA] using arrayLoopA_acc C I elem ht.1 children vs hal
          · cases h
          · cases h
        | obj cname cns cb fields o =>
          simp only at h
          simp only [tyWfA, Bool.and_eq_true] at ht
          obtain ⟨⟨⟨⟨hnd, _⟩, hkw⟩, hwf⟩, _⟩ := ht
          have hmod := kindsWf_mod hkw
          split at h
          · rename_i st1 h1
            have hs1 := dataPass_acc C text fields hnd fields (lookupA_of_memA fields hnd) _ st1 (accInvA_init fields) h1
            split at h
            · rename_i st2 h2
              have hs2 := childLoopA_acc C I fields hnd hwf children [] st1 st2 hs1 h2
              simp only [List.nil_append] at hs2
              split at h
              · rename_i st3 h3
                have hs3 := attrPass_acc C children fields hnd (fun f hf hk => (hmod f hf (by rw [hk]; simp)).1)
                  attrs [] st2 st3 hs2 h3
                simp only [List.nil_append] at hs3
                split at h
                · cases h
                · rename_i hfq
                  cases h
                  simp only [C.hs, Bool.true_and, Bool.not_eq_true', Bool.not_eq_false] at hfq
                  rw [freqOkA_eq] at hfq
                  have hdata : ∀ f ∈ fields, f.2.1 = .data → f.2.2.occ.minOccurs = 0 := by
                    intro f hf hk
                    simp only [kindsWf, Bool.and_eq_true, List.all_eq_true] at hkw
                    have := hkw.1 f hf
                    rw [hk] at this
                    simp only [Bool.and_eq_true, decide_eq_true_eq] at this
                    exact this.2
                  simp [okOneA, accInvA_final A C.hA children attrs fields st3 hdata hs3 hfq]
              · cases h
              · cases h
            · cases h
            · cases h
          · cases h
          · cases h

  theorem childLoopA_acc {F : Facts08} {X : FactsXml} {A : FactsAttr} {cfg : Cfg} (C : AccCtxA F X A cfg) (I : IfaceA)
      (fields : List (Text × MKind × TyA)) (hnd : namesNodupA fields = true) (hwf : wfFieldsA fields = true) :
      (cs : List Node) → (pre : List Node) → (st st' : List (Text × Val)) → AccInvA pre [] fields st →
      childLoopA F X A cfg I fields cs st = .ok st' → AccInvA (pre ++ cs) [] fields st'
    | [], pre, st, st', hinv, h => by
      simp only [childLoopA] at h; cases h; simpa using hinv
    | c :: cs, pre, st, st', hinv, h => by
      unfold childLoopA at h
      have happ : pre ++ c :: cs = (pre ++ [c]) ++ cs := by simp
      rw [happ]
      split at h
      · rename_i hl
        refine childLoopA_acc C I fields hnd hwf cs (pre ++ [c]) st st' ?_ h
        apply accInvA_mono fields st _ hinv
        intro k kind t w hm hs
        exact slotAcc_child_ne c (fun _ => lookupA_none_ne fields c.name hl (k, kind, t) hm) hs
      · rename_i mt hl
        split at h
        · rename_i v hv
          have hmt : tyWfA mt = true := wf_of_lookupA fields hwf c.name .element mt hl
          have hv' := fromElementA_acc C I mt hmt c v hv
          simp only [childAttrLeak, C.hLeak, if_true] at h
          refine childLoopA_acc C I fields hnd hwf cs (pre ++ [c]) _ st' ?_ h
          have hset : (if mt.occ.repeated then stAppend st c.name v else stSet st c.name v) =
              stSet st c.name (if mt.occ.repeated then accStep (stGet st c.name) v else v) := by
            split
            · exact stAppend_eq st c.name v
            · rfl
          rw [hset]
          apply accInvA_set c.name _ fields st hnd _ _ hinv
          · intro k kind t w _ hne hs
            exact slotAcc_child_ne c (fun _ => hne) hs
          · intro kind' t' hl' hs
            rw [hl] at hl'
            cases hl'
            simp only [slotAcc, memberAccA] at hs ⊢
            by_cases hrep : mt.occ.repeated = true
            · simp only [hrep, if_true] at hs ⊢
              right
              rcases hs with ⟨hw, hn⟩ | ⟨l, hw, hlen, hok⟩
              · rw [hw]
                exact ⟨[v], rfl, by rw [countP_snoc_eq pre c c.name rfl, hn]; rfl, by simp [okItemsA, hv']⟩
              · rw [hw]
                exact ⟨l ++ [v], rfl, by rw [countP_snoc_eq pre c c.name rfl, ← hlen]; simp,
                  okItemsA_append l v hok hv'⟩
            · simp only [hrep] at hs ⊢
              rw [if_neg (by simp)]
              right
              exact ⟨by rw [countP_snoc_eq pre c c.name rfl]; omega, hv'⟩
        · cases h
        · cases h
      · rename_i kind' mt' hne hl
        split at h
        · refine childLoopA_acc C I fields hnd hwf cs (pre ++ [c]) st st' ?_ h
          apply accInvA_mono fields st _ hinv
          intro k kind t w hm hs
          apply slotAcc_child_ne c _ hs
          intro hkind e
          subst hkind; subst e
          have := lookupA_of_memA fields hnd (c.name, .element, t) hm
          simp only at this
          rw [this] at hl
          cases hl
          exact hne rfl
        · cases h

  theorem arrayLoopA_acc {F : Facts08} {X : FactsXml} {A : FactsAttr} {cfg : Cfg} (C : AccCtxA F X A cfg) (I : IfaceA)
      (elem : TyA) (ht : tyWfA elem = true) :
      (cs : List Node) → (vs : List Val) → arrayLoopA F X A cfg I elem cs = .ok vs → okItemsA false elem vs = true
    | [], vs, h => by
      simp only [arrayLoopA] at h; cases h; simp [okItemsA]
    | c :: cs, vs, h => by
      unfold arrayLoopA at h
      split at h
      · rename_i v hv
        split at h
        · rename_i ws hws
          cases h
          simp [okItemsA, fromElementA_acc C I elem ht c v hv, arrayLoopA_acc C I elem ht cs ws hws]
        · cases h
        · cases h
      · cases h
      · cases h
end

end Xml
end SpyneModel
