/-
  Lemmas for the C11 model (SpyneModel/Dispatch.lean): construction of the routing table,
  its order-free description, permutation invariance.  General in `F : Facts11`.
-/
import SpyneModel.Dispatch
namespace SpyneModel.Dispatch
open SpyneModel

theorem qname_inj_right (ns a b : Text) (h : qname ns a = qname ns b) : a = b := by
  simpa [qname] using h

/-- the service methods among the descriptors (member methods are not subject to `check_unique_method_keys`) -/
def svcOnly (ms : List Method) : List Method := ms.filter (fun m => !m.member)

theorem checkUnique_ok_iff (seen : List Text) (ms : List Method) :
    checkUnique seen ms = .ok () ↔
      ((svcOnly ms).map internalKey).Nodup ∧ ∀ m ∈ svcOnly ms, internalKey m ∉ seen := by
  induction ms generalizing seen with
  | nil => simp [checkUnique, svcOnly]
  | cons m ms ih =>
    simp only [checkUnique]
    by_cases hm : m.member = true
    · have : svcOnly (m :: ms) = svcOnly ms := by simp [svcOnly, hm]
      simp only [hm, if_true, this, ih]
    · have hm' : m.member = false := by simpa using hm
      have : svcOnly (m :: ms) = m :: svcOnly ms := by simp [svcOnly, hm']
      rw [this]
      by_cases h : internalKey m ∈ seen
      · simp [h, hm']
      · simp only [hm', Bool.false_eq_true, h, if_false, ih, List.map_cons, List.nodup_cons, List.mem_cons, List.mem_map]
        grind

theorem checkUnique_err (seen : List Text) (ms : List Method) (e : BuildErr)
    (h : checkUnique seen ms = .error e) : e = .methodAlreadyExists := by
  induction ms generalizing seen with
  | nil => simp [checkUnique] at h
  | cons m ms ih =>
    simp only [checkUnique] at h
    split at h
    · exact ih _ h
    · split at h
      · cases h; rfl
      · exact ih _ h

theorem allClassKeys_cons (tns : Text) (m : Method) (ms : List Method) :
    allClassKeys tns (m :: ms) = (if m.aux then [] else classKeys tns m) ++ allClassKeys tns ms := by
  unfold allClassKeys
  by_cases h : m.aux <;> simp [h]

theorem addKeys_iff (seen ks : List Text) :
    (∃ s, addKeys seen ks = some s) ↔ ks.Nodup ∧ ∀ k ∈ ks, k ∉ seen := by
  induction ks generalizing seen with
  | nil => simp [addKeys]
  | cons k ks ih =>
    simp only [addKeys]
    by_cases h : k ∈ seen
    · simp [h]
    · simp only [h, if_false, ih, List.nodup_cons, List.mem_cons]
      grind

theorem addKeys_mem (seen ks s : List Text) (h : addKeys seen ks = some s) :
    ∀ x, x ∈ s ↔ x ∈ ks ∨ x ∈ seen := by
  induction ks generalizing seen with
  | nil => simp [addKeys] at h; subst h; simp
  | cons k ks ih =>
    simp only [addKeys] at h
    split at h
    · cases h
    · intro x; rw [ih _ h x]; simp only [List.mem_cons]; grind

theorem addClasses_ok_iff (tns : Text) (seen : List Text) (ms : List Method) :
    (∃ s, addClasses tns seen ms = .ok s) ↔
      (allClassKeys tns ms).Nodup ∧ ∀ k ∈ allClassKeys tns ms, k ∉ seen := by
  induction ms generalizing seen with
  | nil => simp [addClasses, allClassKeys]
  | cons m ms ih =>
    rw [allClassKeys_cons]
    simp only [addClasses]
    by_cases ha : m.aux
    · simp [ha, ih]
    · simp only [ha, Bool.false_eq_true, if_false]
      cases hk : addKeys seen (classKeys tns m) with
      | none =>
        have := mt (addKeys_iff seen (classKeys tns m)).mpr (by simp [hk])
        simp only [reduceCtorEq, exists_false, false_iff, List.nodup_append, List.mem_append]
        grind
      | some s' =>
        have h1 := (addKeys_iff seen (classKeys tns m)).mp ⟨s', hk⟩
        have h2 := addKeys_mem seen (classKeys tns m) s' hk
        simp only [ih, List.nodup_append, List.mem_append]
        grind

theorem addClasses_err (tns : Text) (seen : List Text) (ms : List Method) (e : BuildErr)
    (h : addClasses tns seen ms = .error e) : e = .valueError := by
  induction ms generalizing seen with
  | nil => simp [addClasses] at h
  | cons m ms ih =>
    simp only [addClasses] at h
    split at h
    · exact ih _ h
    · split at h
      · cases h; rfl
      · exact ih _ h

theorem rget_rset (r : Routes) (k k' : Text) (v : List Method) :
    rget (rset r k v) k' = if k = k' then v else rget r k' := by
  induction r with
  | nil => simp [rset, rget]
  | cons kv r ih =>
    obtain ⟨k0, v0⟩ := kv
    simp only [rset]
    by_cases h : k0 = k
    · subst h; simp only [if_true, rget]; split <;> rfl
    · simp only [h, if_false, rget, ih]
      by_cases h2 : k0 = k'
      · subst h2; simp; intro h3; exact absurd h3.symm h
      · simp [h2]


/-- what is true of the interface state after the methods `p` have been processed -/
structure Inv (tns : Text) (p : List Method) (st : St) : Prop where
  ids : ∀ k, k ∈ st.ids ↔ k ∈ p.map ifaceKey
  routes : ∀ k, rget st.routes k = prims tns p k ++ auxs tns p k
  nodup : (p.map ifaceKey).Nodup
  noClash : p.Pairwise (fun a b => ¬ Clash a b)

theorem inv_init (tns : Text) : Inv tns [] ⟨[], []⟩ := by
  constructor <;> simp [rget, prims, auxs]

theorem prims_snoc (tns : Text) (p : List Method) (m : Method) (k : Text) :
    prims tns (p ++ [m]) k = prims tns p k ++ (if !m.aux && routeKey tns m == k then [m] else []) := by
  simp [prims, List.filter_append, List.filter_cons]

theorem auxs_snoc (tns : Text) (p : List Method) (m : Method) (k : Text) :
    auxs tns (p ++ [m]) k = auxs tns p k ++ (if m.aux && routeKey tns m == k then [m] else []) := by
  simp [auxs, List.filter_append, List.filter_cons]

theorem mem_prims {tns : Text} {p : List Method} {k : Text} {a : Method} :
    a ∈ prims tns p k ↔ a ∈ p ∧ a.aux = false ∧ routeKey tns a = k := by
  simp [prims, List.mem_filter]

theorem mem_auxs {tns : Text} {p : List Method} {k : Text} {a : Method} :
    a ∈ auxs tns p k ↔ a ∈ p ∧ a.aux = true ∧ routeKey tns a = k := by
  simp [auxs, List.mem_filter]

/-- the head of a route decides whether a primary method is already there -/
theorem head_aux_no_prims {tns : Text} {p : List Method} {k : Text} {v0 : Method} {rest : List Method}
    (h : prims tns p k ++ auxs tns p k = v0 :: rest) (hv : v0.aux = true) : prims tns p k = [] := by
  cases hp : prims tns p k with
  | nil => rfl
  | cons a as =>
    rw [hp] at h
    simp at h
    have : a ∈ prims tns p k := by rw [hp]; simp
    have := (mem_prims.mp this).2.1
    rw [h.1] at this; rw [this] at hv; cases hv

theorem head_prim_mem {tns : Text} {p : List Method} {k : Text} {v0 : Method} {rest : List Method}
    (h : prims tns p k ++ auxs tns p k = v0 :: rest) (hv : v0.aux = false) :
    v0 ∈ p ∧ routeKey tns v0 = k := by
  have hm : v0 ∈ prims tns p k ++ auxs tns p k := by rw [h]; simp
  rcases List.mem_append.mp hm with h1 | h1
  · have := mem_prims.mp h1; exact ⟨this.1, this.2.2⟩
  · have := mem_auxs.mp h1; rw [this.2.1] at hv; cases hv

theorem pairwise_snoc {α} {R : α → α → Prop} {p : List α} {m : α} :
    (p ++ [m]).Pairwise R ↔ p.Pairwise R ∧ ∀ a ∈ p, R a m := by
  simp [List.pairwise_append]

theorem inv_snoc {tns : Text} {p : List Method} {st : St} {m : Method} (inv : Inv tns p st)
    (hik : ifaceKey m ∉ p.map ifaceKey) (hc : ∀ a ∈ p, ¬ Clash a m) (v : List Method)
    (hv : v = prims tns (p ++ [m]) (routeKey tns m) ++ auxs tns (p ++ [m]) (routeKey tns m)) :
    Inv tns (p ++ [m]) ⟨ifaceKey m :: st.ids, rset st.routes (routeKey tns m) v⟩ := by
  constructor
  · intro k; simp [inv.ids k]; grind
  · intro k
    rw [rget_rset]
    by_cases hk : routeKey tns m = k
    · subst hk; simp [hv]
    · have hk' : (routeKey tns m == k) = false := by simpa using hk
      simp [hk, inv.routes k, prims_snoc, auxs_snoc, hk']
  · have := inv.nodup
    simp only [List.map_append, List.map_cons, List.map_nil]
    rw [List.nodup_append]
    refine ⟨this, by simp, ?_⟩
    intro a ha b hb; simp at hb; subst hb; intro h; subst h; exact hik ha
  · exact pairwise_snoc.mpr ⟨inv.noClash, hc⟩

theorem processMethod_step (F : Facts11) (hA : F.auxFirst = .insertFront) (hI : F.ifaceDup = .reject)
    (tns : Text) (p : List Method) (st : St) (m : Method) (inv : Inv tns p st) :
    (∀ st', processMethod F tns st m = .ok st' → Inv tns (p ++ [m]) st') ∧
    ((∃ st', processMethod F tns st m = .ok st') ↔
        (ifaceKey m ∉ p.map ifaceKey ∧ ∀ a ∈ p, ¬ Clash a m)) ∧
    (∀ e, processMethod F tns st m = .error e → e = .valueError) := by
  unfold processMethod
  simp only [hA, hI]
  by_cases hik : ifaceKey m ∈ st.ids
  · have : ifaceKey m ∈ p.map ifaceKey := (inv.ids _).mp hik
    simp [hik]
    intro h; exact absurd this (by simpa using h)
  · have hik' : ifaceKey m ∉ p.map ifaceKey := fun h => hik ((inv.ids _).mpr h)
    simp only [hik, if_false]
    have hr := inv.routes (routeKey tns m)
    have hself : (routeKey tns m == routeKey tns m) = true := by simp
    -- a clash with an earlier method shows up as a primary at the head of the route
    have clash_prim : ∀ a ∈ p, Clash a m → a ∈ prims tns p (routeKey tns m) := by
      intro a ha hc
      exact mem_prims.mpr ⟨ha, hc.1, by simp [routeKey, hc.2.2]⟩
    cases hval : rget st.routes (routeKey tns m) with
    | nil =>
      rw [hval] at hr
      have hp0 : prims tns p (routeKey tns m) = [] := by
        cases h : prims tns p (routeKey tns m) <;> simp_all
      have ha0 : auxs tns p (routeKey tns m) = [] := by
        cases h : auxs tns p (routeKey tns m) <;> simp_all
      have hc : ∀ a ∈ p, ¬ Clash a m := by
        intro a ha hc; have := clash_prim a ha hc; rw [hp0] at this; simp at this
      refine ⟨?_, ⟨fun _ => ⟨hik', hc⟩, fun _ => ⟨_, rfl⟩⟩, by simp⟩
      intro st' h; simp at h; subst h
      apply inv_snoc inv hik' hc
      rw [prims_snoc, auxs_snoc, hp0, ha0, hself]
      cases m.aux <;> simp
    | cons v0 rest =>
      rw [hval] at hr
      by_cases hma : m.aux = true
      · have hc : ∀ a ∈ p, ¬ Clash a m := by
          intro a _ hc; rw [hc.2.1] at hma; cases hma
        simp only [hma, if_true]
        refine ⟨?_, ⟨fun _ => ⟨hik', hc⟩, fun _ => ⟨_, rfl⟩⟩, by simp⟩
        intro st' h; simp at h; subst h
        apply inv_snoc inv hik' hc
        rw [prims_snoc, auxs_snoc, hself, hma, ← List.cons_append, hr]; simp
      · have hma' : m.aux = false := by simpa using hma
        simp only [hma', Bool.false_eq_true, if_false]
        by_cases hv0 : v0.aux = true
        · have hp0 := head_aux_no_prims hr.symm hv0
          have hc : ∀ a ∈ p, ¬ Clash a m := by
            intro a ha hc; have := clash_prim a ha hc; rw [hp0] at this; simp at this
          simp only [hv0, if_true]
          refine ⟨?_, ⟨fun _ => ⟨hik', hc⟩, fun _ => ⟨_, rfl⟩⟩, by simp⟩
          intro st' h; simp at h; subst h
          apply inv_snoc inv hik' hc
          rw [prims_snoc, auxs_snoc, hself, hma', hp0]
          rw [hp0] at hr; simp [hr]
        · have hv0' : v0.aux = false := by simpa using hv0
          have ⟨hmem, hkey⟩ := head_prim_mem hr.symm hv0'
          have hcl : Clash v0 m := ⟨hv0', hma', qname_inj_right tns _ _ hkey⟩
          simp only [hv0', Bool.false_eq_true, if_false]
          refine ⟨by simp, ?_, by simp⟩
          simp
          intro _; exact ⟨v0, hmem, hcl⟩


theorem processAll_spec (F : Facts11) (hA : F.auxFirst = .insertFront) (hI : F.ifaceDup = .reject)
    (tns : Text) (ms : List Method) : ∀ (p : List Method) (st : St), Inv tns p st →
    (∀ st', processAll F tns st ms = .ok st' → Inv tns (p ++ ms) st') ∧
    ((∃ st', processAll F tns st ms = .ok st') ↔
        (((p ++ ms).map ifaceKey).Nodup ∧ (p ++ ms).Pairwise (fun a b => ¬ Clash a b))) ∧
    (∀ e, processAll F tns st ms = .error e → e = .valueError) := by
  induction ms with
  | nil =>
    intro p st inv
    simp only [processAll, List.append_nil]
    refine ⟨?_, ?_, by simp⟩
    · intro st' h; cases h; exact inv
    · exact ⟨fun _ => ⟨inv.nodup, inv.noClash⟩, fun _ => ⟨_, rfl⟩⟩
  | cons m ms ih =>
    intro p st inv
    have ⟨s1, s2, s3⟩ := processMethod_step F hA hI tns p st m inv
    have happ : p ++ m :: ms = (p ++ [m]) ++ ms := by simp
    simp only [processAll]
    cases hpm : processMethod F tns st m with
    | error e =>
      refine ⟨by simp, ?_, ?_⟩
      · simp only [reduceCtorEq, exists_false, false_iff]
        intro ⟨hn, hp⟩
        have : ∃ st', processMethod F tns st m = .ok st' := by
          apply s2.mpr
          constructor
          · intro hmem
            rw [List.map_append, List.nodup_append] at hn
            exact hn.2.2 _ hmem (ifaceKey m) (by simp) rfl
          · intro a ha
            rw [List.pairwise_append] at hp
            exact hp.2.2 a ha m (by simp)
        rw [hpm] at this; simp at this
      · intro e' h; cases h; exact s3 e hpm
    | ok st1 =>
      have inv1 := s1 st1 hpm
      have ⟨i1, i2, i3⟩ := ih (p ++ [m]) st1 inv1
      simp only
      rw [happ]
      exact ⟨i1, i2, i3⟩



theorem build_ok_iff (F : Facts11) (hA : F.auxFirst = .insertFront) (hI : F.ifaceDup = .reject)
    (tns : Text) (ms : List Method) : (∃ r, build F tns ms = .ok r) ↔ Valid tns ms := by
  have ⟨_, p2, _⟩ := processAll_spec F hA hI tns ms [] ⟨[], []⟩ (inv_init tns)
  simp only [List.nil_append] at p2
  have c1 := checkUnique_ok_iff [] ms
  have c2 := addClasses_ok_iff tns [] ms
  unfold build
  constructor
  · intro ⟨r, h⟩
    cases h1 : checkUnique [] ms with
    | error e => simp [h1] at h
    | ok u =>
      cases h2 : addClasses tns [] ms with
      | error e => simp [h1, h2] at h
      | ok s =>
        cases h3 : processAll F tns ⟨[], []⟩ ms with
        | error e => simp [h1, h2, h3] at h
        | ok st =>
          have a1 := (c1.mp h1).1
          have a2 := (c2.mp ⟨s, h2⟩).1
          have a3 := p2.mp ⟨st, h3⟩
          exact ⟨a1, a2, a3.1, a3.2⟩
  · intro v
    have h1 : checkUnique [] ms = .ok () := c1.mpr ⟨v.ikeys, by simp⟩
    have ⟨s, h2⟩ := c2.mpr ⟨v.classes, by simp⟩
    have ⟨st, h3⟩ := p2.mpr ⟨v.ifaces, v.noClash⟩
    exact ⟨st.routes, by simp [h1, h2, h3]⟩

/-- the routing table of an accepted application, independent of the listing order up to the
    order of the auxiliaries: the primary method of the key, then its auxiliary methods -/
theorem build_routes (F : Facts11) (hA : F.auxFirst = .insertFront) (hI : F.ifaceDup = .reject)
    (tns : Text) (ms : List Method) (r : Routes) (h : build F tns ms = .ok r) (k : Text) :
    rget r k = prims tns ms k ++ auxs tns ms k := by
  have ⟨p1, _, _⟩ := processAll_spec F hA hI tns ms [] ⟨[], []⟩ (inv_init tns)
  unfold build at h
  cases h1 : checkUnique [] ms with
  | error e => simp [h1] at h
  | ok u =>
    cases h2 : addClasses tns [] ms with
    | error e => simp [h1, h2] at h
    | ok s =>
      cases h3 : processAll F tns ⟨[], []⟩ ms with
      | error e => simp [h1, h2, h3] at h
      | ok st =>
        simp [h1, h2, h3] at h
        subst h
        simpa using (p1 st h3).routes k

theorem build_err (F : Facts11) (hA : F.auxFirst = .insertFront) (hI : F.ifaceDup = .reject)
    (tns : Text) (ms : List Method) (e : BuildErr) (h : build F tns ms = .error e) :
    e = .methodAlreadyExists ∨ e = .valueError := by
  have ⟨_, _, p3⟩ := processAll_spec F hA hI tns ms [] ⟨[], []⟩ (inv_init tns)
  unfold build at h
  cases h1 : checkUnique [] ms with
  | error e1 => simp [h1] at h; subst h; exact .inl (checkUnique_err _ _ _ h1)
  | ok u =>
    cases h2 : addClasses tns [] ms with
    | error e2 => simp [h1, h2] at h; subst h; exact .inr (addClasses_err _ _ _ _ h2)
    | ok s =>
      cases h3 : processAll F tns ⟨[], []⟩ ms with
      | error e3 => simp [h1, h2, h3] at h; subst h; exact .inr (p3 _ h3)
      | ok st => simp [h1, h2, h3] at h

theorem prims_le_one {tns : Text} {ms : List Method} (h : ms.Pairwise (fun a b => ¬ Clash a b)) (k : Text) :
    (prims tns ms k).length ≤ 1 := by
  have hp : (prims tns ms k).Pairwise (fun a b => ¬ Clash a b) := h.sublist List.filter_sublist
  match hl : prims tns ms k with
  | [] => simp
  | [_] => simp
  | a :: b :: rest =>
    exfalso
    rw [hl] at hp
    have ha : a ∈ prims tns ms k := by rw [hl]; simp
    have hb : b ∈ prims tns ms k := by rw [hl]; simp
    have ha := mem_prims.mp ha
    have hb := mem_prims.mp hb
    have : ¬ Clash a b := (List.pairwise_cons.mp hp).1 b (by simp)
    exact this ⟨ha.2.1, hb.2.1, qname_inj_right tns _ _ (ha.2.2.trans hb.2.2.symm)⟩

theorem clash_symm {a b : Method} (h : ¬ Clash a b) : ¬ Clash b a :=
  fun ⟨h1, h2, h3⟩ => h ⟨h2, h1, h3.symm⟩

theorem valid_perm {tns : Text} {ms ms' : List Method} (hp : ms.Perm ms') (v : Valid tns ms) :
    Valid tns ms' where
  ikeys := ((hp.filter _).map internalKey).nodup_iff.mp v.ikeys
  classes := by
    have : (allClassKeys tns ms).Perm (allClassKeys tns ms') := by
      unfold allClassKeys
      exact (hp.filter _).flatMap_right _
    exact this.nodup_iff.mp v.classes
  ifaces := (hp.map ifaceKey).nodup_iff.mp v.ifaces
  noClash := hp.pairwise v.noClash (fun h => clash_symm h)

theorem perm_le_one_eq {α} {l₁ l₂ : List α} (hp : l₁.Perm l₂) (h : l₁.length ≤ 1) : l₁ = l₂ := by
  match l₁, l₂, hp, h with
  | [], l₂, hp, _ => exact (List.nil_perm.mp hp).symm
  | [a], l₂, hp, _ => exact (List.singleton_perm.mp hp)
  | _ :: _ :: _, _, _, h => simp at h



/-! ## permutation of the listing -/

theorem build_perm (F : Facts11) (hA : F.auxFirst = .insertFront) (hI : F.ifaceDup = .reject)
    (tns : Text) (ms ms' : List Method) (hp : ms.Perm ms') (r : Routes) (h : build F tns ms = .ok r) :
    ∃ r', build F tns ms' = .ok r' ∧
      ∀ k, ∃ A', rget r' k = prims tns ms k ++ A' ∧ A'.Perm (auxs tns ms k) ∧
             rget r k = prims tns ms k ++ auxs tns ms k := by
  have v := (build_ok_iff F hA hI tns ms).mp ⟨r, h⟩
  have v' := valid_perm hp v
  have ⟨r', h'⟩ := (build_ok_iff F hA hI tns ms').mpr v'
  refine ⟨r', h', fun k => ⟨auxs tns ms' k, ?_, ?_, build_routes F hA hI tns ms r h k⟩⟩
  · rw [build_routes F hA hI tns ms' r' h' k]
    have : prims tns ms k = prims tns ms' k :=
      perm_le_one_eq (hp.filter _) (prims_le_one v.noClash k)
    rw [this]
  · exact (hp.filter _).symm

theorem build_fails_perm (F : Facts11) (hA : F.auxFirst = .insertFront) (hI : F.ifaceDup = .reject)
    (tns : Text) (ms ms' : List Method) (hp : ms.Perm ms') (e : BuildErr) (h : build F tns ms = .error e) :
    ∃ e', build F tns ms' = .error e' := by
  cases h' : build F tns ms' with
  | error e' => exact ⟨e', rfl⟩
  | ok r' =>
    have v' := (build_ok_iff F hA hI tns ms').mp ⟨r', h'⟩
    have ⟨r, hr⟩ := (build_ok_iff F hA hI tns ms).mpr (valid_perm hp.symm v')
    rw [h] at hr; cases hr

/-- two primary methods with one public name: no listing order is accepted -/
theorem clash_rejected (F : Facts11) (hA : F.auxFirst = .insertFront) (hI : F.ifaceDup = .reject)
    (tns : Text) (a b : Method) (l1 l2 l3 ms' : List Method) (hc : Clash a b)
    (hp : ms'.Perm (l1 ++ a :: l2 ++ b :: l3)) : ∃ e, build F tns ms' = .error e := by
  cases h' : build F tns ms' with
  | error e' => exact ⟨e', rfl⟩
  | ok r' =>
    exfalso
    have v := valid_perm hp ((build_ok_iff F hA hI tns ms').mp ⟨r', h'⟩)
    have := v.noClash
    rw [List.append_assoc, List.pairwise_append] at this
    have h2 := this.2.1
    rw [List.cons_append, List.pairwise_cons] at h2
    exact h2.1 b (by simp) hc

/-! ## service level: permuting the *services* permutes the descriptors -/

theorem resolveAll_cons_ok (F : Facts11) (s : ServiceDecl) (ss : List ServiceDecl) (ms : List Method) :
    resolveAll F (s :: ss) = .ok ms ↔
      ∃ m1 rest, resolveMethods F s s.methods = .ok m1 ∧ resolveAll F ss = .ok rest ∧ ms = m1 ++ rest := by
  simp only [resolveAll]
  cases h1 : resolveMethods F s s.methods with
  | error e => simp
  | ok m1 =>
    cases h2 : resolveAll F ss with
    | error e => simp
    | ok rest => simp; exact eq_comm

theorem resolveAll_perm (F : Facts11) (ss ss' : List ServiceDecl) (hp : ss.Perm ss') :
    ∀ ms, resolveAll F ss = .ok ms → ∃ ms', resolveAll F ss' = .ok ms' ∧ ms.Perm ms' := by
  induction hp with
  | nil => intro ms h; exact ⟨ms, h, List.Perm.refl _⟩
  | cons s _ ih =>
    intro ms h
    have ⟨m1, rest, h1, h2, he⟩ := (resolveAll_cons_ok F _ _ _).mp h
    have ⟨rest', hr, hpr⟩ := ih rest h2
    exact ⟨m1 ++ rest', (resolveAll_cons_ok F _ _ _).mpr ⟨m1, rest', h1, hr, rfl⟩,
      by rw [he]; exact List.Perm.append_left _ hpr⟩
  | swap s t l =>
    intro ms h
    have ⟨m1, rest, h1, h2, he⟩ := (resolveAll_cons_ok F _ _ _).mp h
    have ⟨m0, rest0, h3, h4, he0⟩ := (resolveAll_cons_ok F _ _ _).mp h2
    refine ⟨m0 ++ (m1 ++ rest0), (resolveAll_cons_ok F _ _ _).mpr ⟨m0, m1 ++ rest0, h3,
      (resolveAll_cons_ok F _ _ _).mpr ⟨m1, rest0, h1, h4, rfl⟩, rfl⟩, ?_⟩
    rw [he, he0, ← List.append_assoc, ← List.append_assoc]
    exact List.Perm.append_right _ List.perm_append_comm
  | trans _ _ ih1 ih2 =>
    intro ms h
    have ⟨m2, h2, p2⟩ := ih1 ms h
    have ⟨m3, h3, p3⟩ := ih2 m2 h2
    exact ⟨m3, h3, p2.trans p3⟩



/-! ## names -/

theorem split_at_unique {c : Char} : ∀ (xs ys a b : Text), c ∉ xs → c ∉ ys →
    xs ++ c :: a = ys ++ c :: b → xs = ys ∧ a = b
  | [], [], a, b, _, _, h => by simpa using h
  | [], y :: ys, a, b, _, h2, h => by
    simp at h; simp at h2; exact absurd h.1.symm (by intro e; exact h2.1 e.symm)
  | x :: xs, [], a, b, h1, _, h => by
    simp at h; simp at h1; exact absurd h.1 (by intro e; exact h1.1 e.symm)
  | x :: xs, y :: ys, a, b, h1, h2, h => by
    simp at h h1 h2
    have := split_at_unique xs ys a b h1.2 h2.2 h.2
    exact ⟨by rw [h.1, this.1], this.2⟩

/-- '{ns}name' determines both parts when the namespaces contain no '}' -/
theorem qname_inj (ns ns' a b : Text) (h1 : '}' ∉ ns) (h2 : '}' ∉ ns') (h : qname ns a = qname ns' b) :
    ns = ns' ∧ a = b := by
  unfold qname at h
  exact split_at_unique ns ns' a b h1 h2 (List.cons.inj h).2

theorem qname_head (ns a : Text) : (qname ns a).head? = some '{' := rfl

theorem qualify_good (F : Facts11) (hQ : F.qualify = .unlessBrace) (tns mrs : Text) :
    qualify F tns mrs = if mrs.head? = some '{' then mrs else qname tns mrs := by
  simp [qualify, hQ]

/-! ## serving a request -/

/-- the routing key a request is looked up under -/
def requestKey (F : Facts11) (tns : Text) (q : Request) : Text := qualify F tns (requestString F tns q)

theorem serve_eq (F : Facts11) (hE : F.emptyIsNotFound = true) (r : Routes) (tns : Text) (q : Request) :
    serve F r tns q = (match rget r (requestKey F tns q) with
      | [] => .notFound
      | h :: hs => .ran ((h :: hs).map (·.fid))) := by
  unfold serve callHandles requestKey
  split <;> simp_all

theorem prims_of_mem {tns : Text} {ms : List Method} (hn : ms.Pairwise (fun a b => ¬ Clash a b))
    {m : Method} (hm : m ∈ ms) (ha : m.aux = false) : prims tns ms (routeKey tns m) = [m] := by
  have hmem : m ∈ prims tns ms (routeKey tns m) := mem_prims.mpr ⟨hm, ha, rfl⟩
  have hle := prims_le_one (tns := tns) hn (routeKey tns m)
  match hl : prims tns ms (routeKey tns m) with
  | [] => rw [hl] at hmem; simp at hmem
  | [x] => rw [hl] at hmem; simp at hmem; rw [hmem]
  | _ :: _ :: _ => rw [hl] at hle; simp at hle

theorem serve_registered (F : Facts11) (hA : F.auxFirst = .insertFront) (hI : F.ifaceDup = .reject)
    (hE : F.emptyIsNotFound = true) (tns : Text) (ms : List Method) (r : Routes)
    (hb : build F tns ms = .ok r) (m : Method) (hm : m ∈ ms) (ha : m.aux = false)
    (q : Request) (hq : requestKey F tns q = routeKey tns m) :
    serve F r tns q = .ran (m.fid :: (auxs tns ms (routeKey tns m)).map (·.fid)) := by
  have v := (build_ok_iff F hA hI tns ms).mp ⟨r, hb⟩
  rw [serve_eq F hE, hq, build_routes F hA hI tns ms r hb, prims_of_mem v.noClash hm ha]
  simp

theorem serve_unknown (F : Facts11) (hA : F.auxFirst = .insertFront) (hI : F.ifaceDup = .reject)
    (hE : F.emptyIsNotFound = true) (tns : Text) (ms : List Method) (r : Routes)
    (hb : build F tns ms = .ok r) (q : Request)
    (hq : ∀ m ∈ ms, routeKey tns m ≠ requestKey F tns q) :
    serve F r tns q = .notFound := by
  rw [serve_eq F hE, build_routes F hA hI tns ms r hb]
  have h1 : prims tns ms (requestKey F tns q) = [] := by
    apply List.filter_eq_nil_iff.mpr
    intro m hm; simp; intro _; exact hq m hm
  have h2 : auxs tns ms (requestKey F tns q) = [] := by
    apply List.filter_eq_nil_iff.mpr
    intro m hm; simp; intro _; exact hq m hm
  simp [h1, h2]

/-- whatever ran was registered under exactly the requested key: the primary (if the name has one)
    first, then the auxiliaries -/
theorem serve_sound (F : Facts11) (hA : F.auxFirst = .insertFront) (hI : F.ifaceDup = .reject)
    (hE : F.emptyIsNotFound = true) (tns : Text) (ms : List Method) (r : Routes)
    (hb : build F tns ms = .ok r) (q : Request) (calls : List Nat) (hs : serve F r tns q = .ran calls) :
    calls = (prims tns ms (requestKey F tns q) ++ auxs tns ms (requestKey F tns q)).map (·.fid) ∧
    calls ≠ [] ∧ (prims tns ms (requestKey F tns q)).length ≤ 1 := by
  have v := (build_ok_iff F hA hI tns ms).mp ⟨r, hb⟩
  rw [serve_eq F hE, build_routes F hA hI tns ms r hb] at hs
  split at hs
  · cases hs
  · rename_i h hs' heq
    simp only [Resp.ran.injEq] at hs
    rw [← hs, ← heq]
    exact ⟨rfl, by rw [heq]; simp, prims_le_one v.noClash _⟩

theorem map_inj_of_nodup {α β} (f : α → β) : ∀ (l : List α), (l.map f).Nodup →
    ∀ a ∈ l, ∀ b ∈ l, f a = f b → a = b
  | [], _, a, ha, _, _, _ => by cases ha
  | x :: xs, hn, a, ha, b, hb, hf => by
    simp only [List.map_cons, List.nodup_cons, List.mem_map, not_exists, not_and] at hn
    rcases List.mem_cons.mp ha with rfl | ha' <;> rcases List.mem_cons.mp hb with rfl | hb'
    · rfl
    · exact absurd hf.symm (hn.1 b hb')
    · exact absurd hf (hn.1 a ha')
    · exact map_inj_of_nodup f xs hn.2 a ha' b hb' hf

/-- no function runs twice -/
theorem route_fids_nodup {tns : Text} {ms : List Method} (hn : (ms.map (·.fid)).Nodup) (k : Text) :
    ((prims tns ms k ++ auxs tns ms k).map (·.fid)).Nodup := by
  rw [List.map_append, List.nodup_append]
  refine ⟨?_, ?_, ?_⟩
  · exact List.Nodup.sublist (List.Sublist.map _ List.filter_sublist) hn
  · exact List.Nodup.sublist (List.Sublist.map _ List.filter_sublist) hn
  · intro x hx y hy hxy
    simp only [List.mem_map] at hx hy
    obtain ⟨a, ha, rfl⟩ := hx
    obtain ⟨b, hb, rfl⟩ := hy
    have ha' := mem_prims.mp ha
    have hb' := mem_auxs.mp hb
    have := map_inj_of_nodup (·.fid) ms hn a ha'.1 b hb'.1 hxy
    subst this
    rw [ha'.2.1] at hb'; cases hb'.2.1



theorem nodup_map_ne {α β} (f : α → β) (a b : α) (l1 l2 l3 : List α)
    (h : ((l1 ++ a :: l2 ++ b :: l3).map f).Nodup) : f a ≠ f b := by
  intro e
  simp only [List.append_assoc, List.map_append, List.map_cons, List.cons_append] at h
  rw [List.nodup_append] at h
  have h2 := h.2.1
  rw [List.nodup_cons] at h2
  apply h2.1
  simp [e]

theorem splitBrace_plain : ∀ (s : Text), s.head? ≠ some '{' → splitBrace s = (none, s)
  | [], _ => rfl
  | c :: r, h => by
    have hc : c ≠ '{' := by simpa using h
    unfold splitBrace
    split
    · rename_i r' heq; cases heq; exact absurd rfl hc
    · rfl

theorem takeWhile_ne_append (c : Char) (xs l : Text) (hx : c ∉ xs) :
    (xs ++ c :: l).takeWhile (· ≠ c) = xs ∧ (xs ++ c :: l).dropWhile (· ≠ c) = c :: l := by
  induction xs with
  | nil => simp
  | cons x xs ih =>
    simp at hx
    have hx1 : x ≠ c := fun e => hx.1 e.symm
    have := ih (fun h => hx.2 h)
    simp [hx1]
    simpa using this

theorem splitBrace_qname (ns l : Text) (h : '}' ∉ ns) : splitBrace (qname ns l) = (some ns, l) := by
  have ht := takeWhile_ne_append '}' ns l h
  show (some ((ns ++ '}' :: l).takeWhile (· ≠ '}')), ((ns ++ '}' :: l).dropWhile (· ≠ '}')).drop 1) = _
  rw [ht.1, ht.2]; rfl


/-! ## witnesses of the behaviour switches (general in the measured value) -/

/-- D32: with `val.insert(method, 0)` an auxiliary service listed before the primary one makes the
    construction fail, the other order is accepted -/
theorem aux_first_witness_gen (F : Facts11) (h : F.auxFirst = .typeError) (a x : Method)
    (ha : a.aux = false) (hx : x.aux = true) (hn : x.name = a.name) (hk : ifaceKey a ≠ ifaceKey x)
    (ham : a.member = false) (hxm : x.member = false)
    (hi : internalKey a ≠ internalKey x) (hc : (classKeys [] a).Nodup) :
    build F [] [x, a] = .error .typeError ∧ ∃ r, build F [] [a, x] = .ok r := by
  have hk' : ifaceKey x ≠ ifaceKey a := fun e => hk e.symm
  have hi' : internalKey x ≠ internalKey a := fun e => hi e.symm
  obtain ⟨s, hs⟩ := (addKeys_iff [] (classKeys [] a)).mpr ⟨hc, by simp⟩
  constructor
  · simp [build, checkUnique, addClasses, processAll, processMethod, rget, rset, routeKey, ha, hx, hn, h,
      hk, hi, ham, hxm, hs]
  · simp [build, checkUnique, addClasses, processAll, processMethod, rget, rset, routeKey, ha, hx, hn,
      hk', hi', ham, hxm, hs]

/-- with the silent skip, of two methods with one interface key the first listed wins -/
theorem iface_skip_witness_gen (F : Facts11) (h : F.ifaceDup = .silentSkip) (a b : Method)
    (hk : ifaceKey a = ifaceKey b)
    (st : St) (hst : processMethod F [] ⟨[], []⟩ a = .ok st) :
    processMethod F [] st b = .ok st := by
  simp only [processMethod, List.not_mem_nil, if_false, rget] at hst
  cases hst
  simp [processMethod, hk, h]


end SpyneModel.Dispatch
