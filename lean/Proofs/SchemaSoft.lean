/-
  C06 lemmas, part 5: on documents in the common form, soft validation accepts exactly the
  documents that are valid for the schema type the class denotes (`soft_eq_validS`).
-/
import Proofs.SchemaMain
namespace SpyneModel
namespace Schema
open Xml

def isOk {α} : Outcome α → Bool
  | .ok _ => true
  | _ => false

def softCfg : Cfg := { validator := .soft }

theorem softCfg_soft : softCfg.soft = true := rfl
theorem softCfg_xsi : softCfg.parseXsiType = true := rfl

/-! ### the written range of a well-formed integer type is the declared range -/

theorem facetGet_intFacets (r : Range) :
    facetGet Facet.minExcl? (intFacets r) = r.gt ∧ facetGet Facet.minIncl? (intFacets r) = r.ge ∧
    facetGet Facet.maxExcl? (intFacets r) = r.lt ∧ facetGet Facet.maxIncl? (intFacets r) = r.le := by
  obtain ⟨ge, gt, le, lt⟩ := r
  cases ge <;> cases gt <;> cases le <;> cases lt <;> exact ⟨rfl, rfl, rfl, rfl⟩

theorem clampOpt_id (F6 : Facts06) (k : IntKind) (o : Option Int)
    (h : match o with | some i => inKind k i = true | none => True) : clampOpt F6 k o = o := by
  cases o with
  | none => rfl
  | some i => simp only [clampOpt]; simp [show inKind k i = true from h]

theorem writtenRange_wf (F6 : Facts06) (k : IntKind) (r : Range) (h : primWf (.integer k r) = true) :
    writtenRange F6 k r = r := by
  simp only [primWf, Bool.and_eq_true] at h
  obtain ⟨ha, hcons⟩ := h
  obtain ⟨g1, g2, g3, g4⟩ := facetGet_intFacets r
  unfold facetsConsistent at hcons
  rw [g1, g2, g3, g4] at hcons
  simp only [Bool.and_eq_true, Bool.not_eq_true', Bool.and_eq_false_iff] at hcons
  have hgt : (match r.gt with | some i => inKind k i = true | none => True) := by
    cases hx : r.gt with
    | none => trivial
    | some i =>
      have : Facet.minExclusive i ∈ intFacets r := by simp [intFacets, optFacet, hx]
      simpa [facetApplies, isIntBuiltin] using List.all_eq_true.mp ha _ this
  have hge : (match r.ge with | some i => inKind k i = true | none => True) := by
    cases hx : r.ge with
    | none => trivial
    | some i =>
      have : Facet.minInclusive i ∈ intFacets r := by simp [intFacets, optFacet, hx]
      simpa [facetApplies, isIntBuiltin] using List.all_eq_true.mp ha _ this
  have hlt : (match r.lt with | some i => inKind k i = true | none => True) := by
    cases hx : r.lt with
    | none => trivial
    | some i =>
      have : Facet.maxExclusive i ∈ intFacets r := by simp [intFacets, optFacet, hx]
      simpa [facetApplies, isIntBuiltin] using List.all_eq_true.mp ha _ this
  have hle : (match r.le with | some i => inKind k i = true | none => True) := by
    cases hx : r.le with
    | none => trivial
    | some i =>
      have : Facet.maxInclusive i ∈ intFacets r := by simp [intFacets, optFacet, hx]
      simpa [facetApplies, isIntBuiltin] using List.all_eq_true.mp ha _ this
  unfold writtenRange
  rw [clampOpt_id F6 k r.gt hgt, clampOpt_id F6 k r.ge hge, clampOpt_id F6 k r.lt hlt, clampOpt_id F6 k r.le hle]
  have hlow : mergeLower r.gt r.ge = (r.gt, r.ge) := by
    unfold mergeLower
    cases h1 : r.gt <;> cases h2 : r.ge <;> simp_all
  have hup : mergeUpper r.lt r.le = (r.lt, r.le) := by
    unfold mergeUpper
    cases h1 : r.lt <;> cases h2 : r.le <;> simp_all
  simp only [hlow, hup]
  split <;> rfl

/-! ### leaves -/

theorem isOk_map {α β} (f : α → β) (o : Outcome α) : isOk (o.map f) = isOk o := by
  cases o <;> rfl

def plainSoft (F : Facts08) (p : PrimTy) (o : Occ) (text : Option Text) : Outcome Val :=
  match text with
  | none => if softCfg.soft && !o.nillable then .fault else .ok .none
  | some s =>
    if softCfg.soft && !validateString F p s then .fault
    else match leafFromText F p s with
      | .ok v => if softCfg.soft && !validateNative p v then .fault else .ok v
      | .fault => .fault
      | .crash e => .crash e

def plainAgree (F : Facts08) (p : PrimTy) (text : Option Text) : Bool :=
  match text with
  | none => false
  | some s =>
    match leafFromText F p s with
    | .ok _ => (builtinOf p).lexOk ((builtinOf p).norm s)
    | _ => !(builtinOf p).lexOk ((builtinOf p).norm s)

/-- leaves whose soft validators (`validate_string`, `validate_native`) check nothing: accepted iff
    the text parses; the schema side has no facets, so it checks the lexical space only -/
theorem plain_leaf_agree (F : Facts08) (X : FactsXml) (F6 : Facts06) (p : PrimTy) (o : Occ) (text : Option Text)
    (hvs : ∀ s, validateString F p s = true) (hvn : ∀ v, validateNative p v = true)
    (hfac : primFacets F6 p = [])
    (hshape : leafFromElement F X softCfg p o text = plainSoft F p o text)
    (hl : plainAgree F p text = true) :
    isOk (leafFromElement F X softCfg p o text) = simpleOk (builtinOf p) (primFacets F6 p) (text.getD []) := by
  rw [hshape, hfac]
  unfold plainSoft
  unfold plainAgree at hl
  cases text with
  | none => simp at hl
  | some s =>
    simp only [hvs, Bool.not_true, Bool.and_false, Bool.false_eq_true, if_false, Option.getD_some, simpleOk, facetsOk_nil,
      Bool.and_true] at hl ⊢
    cases hp : leafFromText F p s with
    | ok v => rw [hp] at hl; simp only [hvn, Bool.not_true, Bool.and_false, Bool.false_eq_true, if_false, isOk]; exact hl.symm
    | fault => rw [hp] at hl; simp only [isOk]; simpa using hl
    | crash e => rw [hp] at hl; simp only [isOk]; simpa using hl

theorem bool3 (v : Val) (A B C : Bool) :
    isOk (if (!(A && B && C)) = true then (Outcome.fault : Outcome Val) else .ok v) = (B && C && A) := by
  cases A <;> cases B <;> cases C <;> rfl

theorem leaf_agree (F : Facts08) (X : FactsXml) (F6 : Facts06) (p : PrimTy) (o : Occ) (text : Option Text)
    (hw : primWf p = true) (hl : lexAgree F X p text = true) :
    isOk (leafFromElement F X softCfg p o text) = simpleOk (builtinOf p) (primFacets F6 p) (text.getD []) := by
  cases p with
  | unicode a b c d =>
    simp only [lexAgree, Bool.or_eq_true] at hl
    have hs : (if X.emptyStringText then some (text.getD []) else text) = some (text.getD []) := by
      rcases hl with h | h
      · simp [h]
      · cases text with
        | none => simp at h
        | some s => simp
    have hv : (validateString F (.unicode a b c d) (text.getD []) && validateNative (.unicode a b c d) (.str (text.getD []))) =
        (PrimTy.unicode a b c d).valueOk (.str (text.getD [])) := by
      simp only [validateString, validateNative, PrimTy.valueOk, Bool.and_assoc]
      rfl
    simp only [simpleOk, builtinOf, Builtin.norm, Builtin.isString, if_true, Builtin.lexOk, Bool.true_and]
    rw [facetsOk_unicode, ← hv]
    simp only [leafFromElement, hs, softCfg, Cfg.soft, beq_self_eq_true, Bool.true_and]
    generalize validateString F (.unicode a b c d) (text.getD []) = x
    generalize validateNative (.unicode a b c d) (.str (text.getD [])) = y
    cases x <;> cases y <;> rfl
  | enum names =>
    simp only [primWf, Bool.and_eq_true, Bool.not_eq_true'] at hw
    simp only [lexAgree, Bool.or_eq_true, Bool.not_eq_true'] at hl
    simp only [simpleOk, builtinOf, Builtin.norm, Builtin.isString, if_true, Builtin.lexOk, Bool.true_and, primFacets,
      facetsOk, filterMap_enumeration, all_enumeration, Bool.and_true, hw.1, Bool.false_or, leafFromElement]
    cases text with
    | none =>
      have hne : names.contains [] = false := hw.2
      simp only [Option.getD_none, isOk, hne]
    | some s =>
      simp only [Option.getD_some]
      by_cases hc : names.contains s = true
      · simp only [hc, if_true, isOk]
      · have hc' : names.contains s = false := by simpa using hc
        simp only [hc', Bool.false_eq_true, if_false, isOk]
  | integer k r =>
    simp only [lexAgree] at hl
    cases text with
    | none => simp at hl
    | some s =>
      dsimp only at hl
      simp only [Option.getD_some, simpleOk, builtinOf, Builtin.norm, Builtin.isString, Bool.false_eq_true, if_false,
        Builtin.lexOk]
      show isOk (leafFromElement F X softCfg (.integer k r) o (some s)) = _
      have hprim : primFacets F6 (.integer k r) = intFacets r := by
        show intFacets (writtenRange F6 k r) = intFacets r
        rw [writtenRange_wf F6 k r hw]
      rw [hprim, facetsOk_intFacets]
      simp only [leafFromElement, softCfg, Cfg.soft, beq_self_eq_true, Bool.true_and, leafFromText]
      cases hi : intFromText F k s with
      | ok i =>
        rw [hi] at hl
        simp only [Bool.and_eq_true, decide_eq_true_eq] at hl
        have hlen := intFromText_len F k s i hi
        simp only [validateString, hlen, decide_true, Bool.not_true, Bool.false_eq_true, if_false, Outcome.map, validateNative]
        rw [hl.1, hl.2]
        simp only [inKind, Bool.true_and]
        exact bool3 (Val.int i) (r.holds i) _ _
      | fault =>
        rw [hi] at hl
        simp only [Bool.not_eq_true'] at hl
        rw [hl]
        simp only [Bool.false_and]
        split <;> simp [isOk, Outcome.map]
      | crash e =>
        rw [hi] at hl
        simp only [Bool.not_eq_true'] at hl
        rw [hl]
        simp only [Bool.false_and]
        split <;> simp [isOk, Outcome.map]
  | boolean => exact plain_leaf_agree F X F6 _ o text (fun _ => rfl) (fun _ => rfl) rfl (by cases text <;> rfl) (by cases text <;> exact hl)
  | date => exact plain_leaf_agree F X F6 _ o text (fun _ => rfl) (fun _ => rfl) rfl (by cases text <;> rfl) (by cases text <;> exact hl)
  | time => exact plain_leaf_agree F X F6 _ o text (fun _ => rfl) (fun _ => rfl) rfl (by cases text <;> rfl) (by cases text <;> exact hl)
  | dateTime => exact plain_leaf_agree F X F6 _ o text (fun _ => rfl) (fun _ => rfl) rfl (by cases text <;> rfl) (by cases text <;> exact hl)
  | duration => exact plain_leaf_agree F X F6 _ o text (fun _ => rfl) (fun _ => rfl) rfl (by cases text <;> rfl) (by cases text <;> exact hl)
  | bytes enc => exact plain_leaf_agree F X F6 _ o text (fun _ => rfl) (fun _ => rfl) rfl (by cases text <;> rfl) (by cases text <;> exact hl)

/-! ### declared order: the sequence check is the frequency check -/

theorem mem_of_dropWhile {α} (p : α → Bool) (l : List α) (x : α) (h : x ∈ l.dropWhile p) : x ∈ l := by
  induction l with
  | nil => simp at h
  | cons a r ih =>
    simp only [List.dropWhile] at h
    split at h
    · exact List.mem_cons_of_mem _ (ih h)
    · exact h

theorem mem_takeWhile_sat {α} (p : α → Bool) (l : List α) (x : α) (h : x ∈ l.takeWhile p) : p x = true := by
  induction l with
  | nil => simp at h
  | cons a r ih =>
    simp only [List.takeWhile] at h
    split at h
    · rcases List.mem_cons.mp h with e | e
      · subst e; assumption
      · exact ih e
    · cases h

theorem all_congr_mem {α} {l : List α} {p q : α → Bool} (h : ∀ x ∈ l, p x = q x) : l.all p = l.all q := by
  induction l with
  | nil => rfl
  | cons a r ih =>
    simp only [List.all_cons]
    rw [h a (by simp), ih (fun x hx => h x (by simp [hx]))]

theorem takeWhile_append_dropWhile' {α} (p : α → Bool) (l : List α) : l.takeWhile p ++ l.dropWhile p = l :=
  List.takeWhile_append_dropWhile

theorem inOrder_mem (ks : List Text) (l : List Text) (h : inOrder ks l = true) : ∀ n ∈ l, n ∈ ks := by
  induction ks generalizing l with
  | nil =>
    simp only [inOrder, List.isEmpty_iff] at h
    subst h; intro n hn; cases hn
  | cons k r ih =>
    intro n hn
    simp only [inOrder] at h
    by_cases hk : n = k
    · subst hk; simp
    · have : n ∈ l.dropWhile (fun c => decide (c = k)) := by
        have hsplit := takeWhile_append_dropWhile' (fun c => decide (c = k)) l
        rw [← hsplit] at hn
        rcases List.mem_append.mp hn with h1 | h1
        · have := mem_takeWhile_sat _ _ _ h1
          simp at this; exact absurd this hk
        · exact h1
      exact List.mem_cons_of_mem _ (ih _ h n this)

theorem count_eq_of_split (k : Text) (l : List Text) (hrest : ∀ n ∈ l.dropWhile (fun c => decide (c = k)), n ≠ k) :
    l.count k = (l.takeWhile (fun c => decide (c = k))).length := by
  induction l with
  | nil => rfl
  | cons a r ih =>
    by_cases ha : a = k
    · subst ha
      simp only [List.takeWhile, decide_true, List.length_cons, List.count_cons_self, List.dropWhile] at hrest ⊢
      rw [ih hrest]
    · have hd : decide (a = k) = false := by simpa using ha
      simp only [List.takeWhile, hd, List.length_nil]
      simp only [List.dropWhile, hd] at hrest
      rw [List.count_eq_zero]
      intro hm
      exact hrest k hm rfl

theorem count_drop_other (k g : Text) (hne : g ≠ k) (l : List Text) :
    (l.dropWhile (fun c => decide (c = k))).count g = l.count g := by
  induction l with
  | nil => rfl
  | cons a r ih =>
    by_cases ha : a = k
    · subst ha
      simp only [List.dropWhile, decide_true]
      rw [ih, List.count_cons_of_ne (Ne.symm hne)]
    · have hd : decide (a = k) = false := by simpa using ha
      simp only [List.dropWhile, hd]

theorem takeWhile_map_key (ns k : Text) (l : List Text) :
    (l.map (fun n => (ns, n))).takeWhile (fun x => decide (x = (ns, k))) =
      (l.takeWhile (fun c => decide (c = k))).map (fun n => (ns, n)) ∧
    (l.map (fun n => (ns, n))).dropWhile (fun x => decide (x = (ns, k))) =
      (l.dropWhile (fun c => decide (c = k))).map (fun n => (ns, n)) := by
  induction l with
  | nil => exact ⟨rfl, rfl⟩
  | cons a r ih =>
    by_cases ha : a = k
    · subst ha
      simp only [List.map_cons, List.takeWhile, List.dropWhile, decide_true]
      exact ⟨by rw [ih.1], ih.2⟩
    · have hd : decide (a = k) = false := by simpa using ha
      simp [List.takeWhile, List.dropWhile, hd]

/-- names in member order: the greedy sequence match succeeds iff every member's count is admissible -/
theorem seqOk_inOrder (F6 : Facts06) (tns ns : Text) (fields : List (Text × Ty)) (hn : namesNodup fields = true) :
    ∀ names : List Text, inOrder (fields.map (·.1)) names = true →
      seqOk (slotsS (denoteFields (primFacets F6) tns ns fields)) (names.map (fun n => (ns, n))) =
        fields.all (fun f => f.2.occ.countOk (names.count f.1)) := by
  induction fields with
  | nil =>
    intro names h
    simp only [List.map_nil, inOrder, List.isEmpty_iff] at h
    subst h; rfl
  | cons f fs ih =>
    obtain ⟨k, t⟩ := f
    intro names h
    simp only [namesNodup, Bool.and_eq_true, Bool.not_eq_true', List.any_eq_false, decide_eq_true_eq] at hn
    simp only [List.map_cons, inOrder] at h
    have hrestmem := inOrder_mem _ _ h
    have hrest : ∀ n ∈ names.dropWhile (fun c => decide (c = k)), n ≠ k := by
      intro n hnm e
      subst e
      obtain ⟨g, hg, eg⟩ := List.mem_map.mp (hrestmem n hnm)
      exact hn.1 g hg eg
    have hs := takeWhile_map_key ns k names
    simp only [denoteFields, slotsS, List.map_cons, seqOk, hs.1, hs.2, List.length_map, List.all_cons]
    rw [← count_eq_of_split k names hrest]
    have := ih hn.2 _ h
    simp only [slotsS] at this
    rw [this]
    congr 1
    apply all_congr_mem
    intro g hg
    have hne : g.1 ≠ k := fun e => hn.1 g hg e
    rw [count_drop_other k g.1 hne]

/-! ### the member loop and the item loop -/

theorem findS_of_lookupField (F6 : Facts06) (tns ns : Text) (fields : List (Text × Ty)) (k : Text) :
    findS (denoteFields (primFacets F6) tns ns fields) (ns, k) =
      (lookupField fields k).map (fun mt => (mt.occ, denote (primFacets F6) tns ns mt)) := by
  induction fields with
  | nil => rfl
  | cons f r ih =>
    obtain ⟨k', t⟩ := f
    by_cases hk : k = k'
    · subst hk
      simp [findS, denoteFields, lookupField, List.lookup]
    · have h1 : (k == k') = false := by simpa using hk
      have h2 : decide ((ns, k') = (ns, k)) = false := by
        simp only [decide_eq_false_iff_not]; intro e; injection e with _ e2; exact hk e2.symm
      simp only [findS, denoteFields, List.find?_cons, h2, lookupField, List.lookup, h1] at ih ⊢
      exact ih

theorem commonForm_attrs (F : Facts08) (X : FactsXml) (tns ctx : Text) (t : Ty) (c : Node)
    (h : commonForm F X tns ctx t c = true) : c.attrs = [] ∨ ∃ v, c.attrs = [(xsiNilKey, v)] := by
  cases c with
  | elem ns name attrs text children =>
    unfold commonForm at h
    cases attrs with
    | nil => exact Or.inl rfl
    | cons a r =>
      cases r with
      | nil =>
        obtain ⟨k, v⟩ := a
        simp only [Bool.and_eq_true, decide_eq_true_eq] at h
        right; exact ⟨v, by simp [Node.attrs, h.1.1.1.1]⟩
      | cons b r' => simp at h

theorem lookup_nil_key (fields : List (Text × Ty)) (h : fieldsWf fields = true) : lookupField fields xsiNilKey = none := by
  induction fields with
  | nil => rfl
  | cons f r ih =>
    obtain ⟨k, t⟩ := f
    simp only [fieldsWf, Bool.and_eq_true, decide_eq_true_eq] at h
    have hk : (xsiNilKey == k) = false := by
      simp only [beq_eq_false_iff_ne, ne_eq]; exact fun e => h.1.1.1 e.symm
    simp only [lookupField, List.lookup, hk] at ih ⊢
    exact ih h.2

theorem no_attr_crash (F : Facts08) (X : FactsXml) (tns ctx : Text) (t : Ty) (c : Node) (fields : List (Text × Ty))
    (hw : fieldsWf fields = true) (h : commonForm F X tns ctx t c = true) : childAttrCrash X fields c.attrs = false := by
  unfold childAttrCrash
  rcases commonForm_attrs F X tns ctx t c h with e | ⟨v, e⟩
  · rw [e]; simp
  · rw [e]; simp [lookup_nil_key fields hw]

theorem childLoop_ok (F : Facts08) (X : FactsXml) (F6 : Facts06) (I : Iface) (ns : Text) (fields : List (Text × Ty))
    (hw : fieldsWf fields = true) :
    ∀ (cs : List Node) (st : List (Text × Val)),
      (∀ c ∈ cs, ∀ mt, lookupField fields c.name = some mt →
        isOk (fromElement F X softCfg I mt c) = validS (denote (primFacets F6) I.tns ns mt) mt.occ.nillable c) →
      commonChildren F X I.tns ns fields cs = true →
      isOk (childLoop F X softCfg I fields cs st) = validChildrenS (denoteFields (primFacets F6) I.tns ns fields) cs := by
  intro cs
  induction cs with
  | nil => intro st _ _; rfl
  | cons c r ih =>
    intro st hih hcc
    simp only [commonChildren, Bool.and_eq_true] at hcc
    obtain ⟨hc1, hcr⟩ := hcc
    cases hl : lookupField fields c.name with
    | none => rw [hl] at hc1; simp at hc1
    | some mt =>
      rw [hl] at hc1
      simp only [Bool.and_eq_true, decide_eq_true_eq] at hc1
      have hkey : nodeKey c = (ns, c.name) := by rw [nodeKey_eq, hc1.1]
      have hfind := findS_of_lookupField F6 I.tns ns fields c.name
      rw [hl] at hfind
      simp only [Option.map_some] at hfind
      have hcrash := no_attr_crash F X I.tns ns mt c fields hw hc1.2
      have hthis := hih c (by simp) mt hl
      simp only [childLoop, hl, validChildrenS, hkey, hfind, ← hthis]
      cases hfe : fromElement F X softCfg I mt c with
      | ok v =>
        simp only [hcrash, Bool.false_eq_true, if_false, isOk, Bool.true_and]
        exact ih _ (fun x hx => hih x (by simp [hx])) hcr
      | fault => simp [isOk]
      | crash e => simp [isOk]

theorem arrayLoop_ok (F : Facts08) (X : FactsXml) (F6 : Facts06) (I : Iface) (ctx mns mloc : Text) (elem : Ty) :
    ∀ cs : List Node,
      (∀ c ∈ cs, isOk (fromElement F X softCfg I elem c) = validS (denote (primFacets F6) I.tns ctx elem) elem.occ.nillable c) →
      commonItems F X I.tns ctx mns mloc elem cs = true →
      isOk (arrayLoop F X softCfg I elem cs) =
        validChildrenS [((mns, mloc), elem.occ, denote (primFacets F6) I.tns ctx elem)] cs ∧
      ∀ c ∈ cs, nodeKey c = (mns, mloc) := by
  intro cs
  induction cs with
  | nil => intro _ _; exact ⟨rfl, by intro c hc; cases hc⟩
  | cons c r ih =>
    intro hih hcc
    simp only [commonItems, Bool.and_eq_true, decide_eq_true_eq] at hcc
    obtain ⟨⟨⟨h1, h2⟩, h3⟩, hcr⟩ := hcc
    have hkey : nodeKey c = (mns, mloc) := by rw [nodeKey_eq, h1, h2]
    have hrec := ih (fun x hx => hih x (by simp [hx])) hcr
    refine ⟨?_, ?_⟩
    · have hthis := hih c (by simp)
      simp only [arrayLoop, validChildrenS, hkey, findS, List.find?_cons, decide_true, Option.map_some, ← hthis, ← hrec.1]
      cases hfe : fromElement F X softCfg I elem c with
      | ok v =>
        cases hal : arrayLoop F X softCfg I elem r <;> simp [isOk]
      | fault => simp [isOk]
      | crash e => simp [isOk]
    · intro x hx
      rcases List.mem_cons.mp hx with e | e
      · subst e; exact hkey
      · exact hrec.2 x e

/-! ### the main agreement theorem -/

theorem countP_name (cs : List Node) (k : Text) :
    cs.countP (fun c => decide (c.name = k)) = (cs.map Node.name).count k := by
  induction cs with
  | nil => rfl
  | cons c r ih =>
    simp only [List.countP_cons, List.map_cons, List.count_cons, ih]
    by_cases h : c.name = k <;> simp [h]

theorem keys_of_common (F : Facts08) (X : FactsXml) (tns ns : Text) (fields : List (Text × Ty)) (cs : List Node)
    (h : commonChildren F X tns ns fields cs = true) : cs.map nodeKey = (cs.map Node.name).map (fun n => (ns, n)) := by
  induction cs with
  | nil => rfl
  | cons c r ih =>
    simp only [commonChildren, Bool.and_eq_true] at h
    cases hl : lookupField fields c.name with
    | none => rw [hl] at h; simp at h
    | some mt =>
      rw [hl] at h
      simp only [Bool.and_eq_true, decide_eq_true_eq] at h
      simp only [List.map_cons, ih h.2, nodeKey_eq, h.1.1]

theorem nil_true_cases (v : Text) (h : (v = "true".toList || v = "1".toList) = true) :
    nilAttr [(xsiNilKey, v)] = some (some true) ∧ v.isEmpty = false := by
  simp only [Bool.or_eq_true, decide_eq_true_eq] at h
  rcases h with e | e <;> (subst e; exact ⟨by decide, by decide⟩)

/-- **C**: on the common form, soft validation and validity for the denoted schema type coincide -/
theorem soft_eq_validS (F : Facts08) (X : FactsXml) (F6 : Facts06) (I : Iface) :
    ∀ (x : Node) (t : Ty) (ctx : Text), tyWf t = true → commonForm F X I.tns ctx t x = true →
      isOk (fromElement F X softCfg I t x) = validS (denote (primFacets F6) I.tns ctx t) t.occ.nillable x := by
  intro x
  induction x using Node.rec (motive_2 := fun cs => ∀ c ∈ cs, ∀ (t : Ty) (ctx : Text), tyWf t = true →
      commonForm F X I.tns ctx t c = true →
      isOk (fromElement F X softCfg I t c) = validS (denote (primFacets F6) I.tns ctx t) t.occ.nillable c) with
  | nil => rename_i c hm _ _ _ _; cases hm
  | cons head tail ih1 ih2 =>
    rename_i c hm t ctx hw hcf
    rcases List.mem_cons.mp hm with e | e
    · subst e; exact ih1 t ctx hw hcf
    · exact ih2 c e t ctx hw hcf
  | elem ns name attrs text children ih =>
    intro t ctx hw hcf
    unfold commonForm at hcf
    cases attrs with
    | cons a r =>
      cases r with
      | cons b r' => simp at hcf
      | nil =>
        obtain ⟨k, v⟩ := a
        simp only [Bool.and_eq_true, decide_eq_true_eq] at hcf
        obtain ⟨⟨⟨⟨hk, hv⟩, hnr⟩, htext⟩, hch⟩ := hcf
        subst hk
        obtain ⟨hna, hve⟩ := nil_true_cases v hv
        have hnil : isNil X [(xsiNilKey, v)] = true := by
          simp only [isNil, List.lookup, beq_self_eq_true]
          unfold nilReads at hnr
          cases hr : X.nilRule with
          | xsdBoolean => simpa using hv
          | anyNonEmpty => simp [hve]
          | other => rw [hr] at hnr; cases hnr
        simp only [Option.isNone_iff_eq_none] at htext
        simp only [List.isEmpty_iff] at hch
        subst htext; subst hch
        simp only [fromElement, hnil, if_true, softCfg, Cfg.soft, beq_self_eq_true, Bool.true_and, validS, attrsOk, List.all_cons,
          List.all_nil, decide_true, Bool.and_true, hna, Option.isNone_none, List.isEmpty_nil]
        cases t.occ.nillable <;> rfl
    | nil =>
      have hnil : isNil X [] = false := rfl
      simp only [fromElement, hnil, Bool.false_eq_true, if_false, softCfg_xsi, softCfg_soft, List.lookup, validS, attrsOk, List.all_nil,
        nilAttr_nil, Option.isNone_none, Bool.true_or, Bool.true_and, if_true]
      cases t with
      | prim p o =>
        simp only [Bool.and_eq_true] at hcf
        simp only [tyWf, Bool.and_eq_true] at hw
        simp only [denote, hcf.1, Bool.true_and]
        exact leaf_agree F X F6 p o text hw.1 hcf.2
      | obj cn ons b fields o =>
        simp only [Bool.and_eq_true] at hcf
        obtain ⟨⟨htx, hord⟩, hcc⟩ := hcf
        simp only [tyWf, Bool.and_eq_true] at hw
        obtain ⟨⟨_, hnd⟩, hfw⟩ := hw
        simp only [denote, denoteFields_isEmpty, htx, Bool.true_and]
        have hkeys := keys_of_common F X I.tns ons fields children hcc
        have hseq := seqOk_inOrder F6 I.tns ons fields hnd (children.map Node.name) hord
        have hloop := childLoop_ok F X F6 I ons fields hfw children (initState fields)
          (by
            intro c hc mt hl
            -- the member's own commonForm comes from `commonChildren`
            have hcm : commonForm F X I.tns ons mt c = true := by
              clear hseq hkeys hord
              induction children with
              | nil => cases hc
              | cons c' r' ihc =>
                simp only [commonChildren, Bool.and_eq_true] at hcc
                rcases List.mem_cons.mp hc with e | e
                · subst e
                  rw [hl] at hcc
                  simp only [Bool.and_eq_true] at hcc
                  exact hcc.1.2
                · exact ihc (fun x hx => ih x (by simp [hx])) hcc.2 e
            have hwm : tyWf mt = true := by
              have : ∀ (fs : List (Text × Ty)), fieldsWf fs = true → lookupField fs c.name = some mt → tyWf mt = true := by
                intro fs
                induction fs with
                | nil => intro _ h; simp [lookupField, List.lookup] at h
                | cons f r ihf =>
                  obtain ⟨k', t'⟩ := f
                  intro hf hlk
                  simp only [fieldsWf, Bool.and_eq_true] at hf
                  simp only [lookupField, List.lookup] at hlk
                  split at hlk
                  · injection hlk with e; subst e; exact hf.1.1.2
                  · exact ihf hf.2 hlk
              exact this fields hfw hl
            exact ih c hc mt ons hwm hcm)
          hcc
        rw [hkeys, hseq]
        have hfreq : freqOk fields children = fields.all (fun f => f.2.occ.countOk ((children.map Node.name).count f.1)) := by
          unfold freqOk
          apply all_congr_mem
          intro f _
          rw [countP_name]
        rw [← hfreq, ← hloop]
        cases hcl : childLoop F X softCfg I fields children (initState fields) with
        | ok st =>
          simp only [isOk]
          cases freqOk fields children <;> rfl
        | fault => simp [isOk]
        | crash e => simp [isOk]
      | arr m e o =>
        simp only [Bool.and_eq_true] at hcf
        obtain ⟨htx, hci⟩ := hcf
        have hw' := hw
        unfold tyWf at hw'
        simp only [Bool.and_eq_true, decide_eq_true_eq] at hw'
        obtain ⟨⟨⟨⟨_, hmin⟩, hmax⟩, hwe⟩, _⟩ := hw'
        have hal := arrayLoop_ok F X F6 I ctx (memberNs I.tns ctx m e) (memberLocal m) e children
          (fun c hc => ih c hc e ctx hwe (by
            induction children with
            | nil => cases hc
            | cons c' r' ihc =>
              simp only [commonItems, Bool.and_eq_true] at hci
              rcases List.mem_cons.mp hc with e' | e'
              · subst e'; exact hci.1.2
              · exact ihc (fun x hx => ih x (by simp [hx])) hci.2 e')) hci
        have htxt : textOk ([((memberNs I.tns ctx m e, memberLocal m), e.occ, denote (primFacets F6) I.tns ctx e)] : List (Key × Occ × STy)).isEmpty text = true := by
          simpa [textOk] using htx
        have hall : ∀ x ∈ children.map nodeKey, x = (memberNs I.tns ctx m e, memberLocal m) := by
          intro x hx
          obtain ⟨y, hy, e'⟩ := List.mem_map.mp hx
          rw [← e']; exact hal.2 y hy
        have hseq : seqOk (slotsS [((memberNs I.tns ctx m e, memberLocal m), e.occ, denote (primFacets F6) I.tns ctx e)]) (children.map nodeKey) = true := by
          rw [eq_replicate_of_all _ _ hall, ← List.append_nil (List.replicate _ _)]
          simp only [slotsS, List.map_cons, List.map_nil]
          rw [seqOk_block _ _ _ _ _ _ (by intro x hx; cases hx)]
          · rfl
          · unfold Occ.countOk; rw [hmin, hmax]; simp
        simp only [denote, htxt, hseq, Bool.true_and, ← hal.1]
        cases arrayLoop F X softCfg I e children <;> rfl

/-- **lxml_soft_agree** for documents -/
theorem primFacetsA_no_values (A : App) (h : A.values = []) : primFacetsA A = primFacets A.facts := by
  funext p
  have : A.extraVals p = [] := by cases p <;> simp [App.extraVals, h]
  simp [primFacetsA, App.enumLits, this]

theorem lxml_soft_agree_gen (F : Facts08) (X : FactsXml) (A : App) (hwf : A.wf = true)
    (hsn : A.sameNsChains = true) (hnv : A.values = [])
    (C : ClassDef) (hC : C ∈ A.iface.classes) (ns name : Text) (text : Option Text) (children : List Node)
    (hkey : (ns, name) = (C.ns, C.name))
    (hcf : commonForm F X A.tns C.ns (ClassDef.toTy C) (.elem ns name [] text children) = true) :
    (gen A).valid (.elem ns name [] text children) =
      softAccepts F X A.iface (ClassDef.toTy C) (.elem ns name [] text children) := by
  have hCa : C ∈ A.allClasses := List.mem_append.mpr (Or.inl hC)
  rw [valid_gen_same A hwf hsn C hC _ (by simpa [nodeKey] using hkey)]
  have h := soft_eq_validS F X A.facts A.iface (.elem ns name [] text children) (ClassDef.toTy C) C.ns
    (tyWf_toTy A hwf C hCa) hcf
  rw [validS_no_attrs _ false (ClassDef.toTy C).occ.nillable, primFacetsA_no_values A hnv]
  have h' : validS (denote (primFacets A.facts) A.tns C.ns (ClassDef.toTy C)) (ClassDef.toTy C).occ.nillable
      (.elem ns name [] text children) =
      isOk (fromElement F X softCfg A.iface (ClassDef.toTy C) (.elem ns name [] text children)) := h.symm
  rw [h']
  unfold softAccepts isOk softCfg
  cases fromElement F X { validator := .soft } A.iface (ClassDef.toTy C) (.elem ns name [] text children) <;> rfl

/-! ### a concrete universe for the non-vacuity examples of Props/C06.lean -/

namespace Example

def T (s : String) : Text := s.toList
def itemOcc : Occ := { nillable := true, minOccurs := 0, maxOccurs := none }
def baseFields : List (Text × Ty) := [(T "x", .prim (.integer .i8 { ge := some 3 }) {})]
def derFields : List (Text × Ty) :=
  baseFields ++ [(T "ys", .arr (T "{urn:t}string") (.prim (.unicode 0 none none []) itemOcc) {}),
                 (T "u", .prim (.unicode 1 (some 3) none []) { nillable := false, minOccurs := 1 })]
def cBase : ClassDef := { name := T "Base", ns := T "urn:a", base := none, fields := baseFields }
def cDer : ClassDef := { name := T "Derived", ns := T "urn:a", base := some (T "Base"), fields := derFields }
def msgFields : List (Text × Ty) := [(T "d", .obj (T "Derived") (T "urn:a") (some (T "Base")) derFields {})]
def cMsg : ClassDef := { name := T "m", ns := T "urn:t", base := none, fields := msgFields }
/-- Base ⊂ Derived (inheritance, array of strings, restricted string) in `urn:a`; message `m` in `urn:t` -/
def iface : Iface := { classes := [cBase, cDer, cMsg], tns := T "urn:t" }
/-- `m(d = Derived(x = 5, ys = ['a', None], u = 'ab'))` -/
def value : List (Text × Val) :=
  [(T "d", .obj (T "Derived") [(T "x", .int 5), (T "ys", .list [.str (T "a"), .none]), (T "u", .str (T "ab"))])]
/-- the same request with `x = 2` (violates `ge = 3`) -/
def badDoc : Node :=
  .elem (T "urn:t") (T "m") [] none
    [.elem (T "urn:t") (T "d") [] none
      [.elem (T "urn:a") (T "x") [] (some (T "2")) [], .elem (T "urn:a") (T "u") [] (some (T "ab")) []]]
def goodDoc : Node :=
  .elem (T "urn:t") (T "m") [] none
    [.elem (T "urn:t") (T "d") [] none
      [.elem (T "urn:a") (T "x") [] (some (T "3")) [], .elem (T "urn:a") (T "u") [] (some (T "ab")) []]]

/-- `values = [5, 7]` on the `Integer8(ge=3)` member -/
def exVals : List (PrimTy × List Val) := [(.integer .i8 { ge := some 3 }, [.int 5, .int 7])]

theorem value_conforms : conformsOne (ClassDef.toTy cMsg) (.obj cMsg.name value) = true := by
  simp [ClassDef.toTy, cMsg, msgFields, value, derFields, baseFields, conformsOne, conformsFields, conforms, conformsArr,
    Ty.occ, Occ.repeated, PrimTy.valueOk, T, itemOcc, Range.holds, IntKind.lo, IntKind.hi]

end Example

end Schema
end SpyneModel
