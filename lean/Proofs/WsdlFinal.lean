/- C07: the schema-level closure theorem, assembled. -/
import Proofs.WsdlClosed
namespace SpyneModel.Wsdl
open SpyneModel

theorem corr_of_mem_infos (ss : List Schema) (infos : List (String × SInfo)) (h : ss.map projS = infos.map projI)
    (kv : String × SInfo) (hkv : kv ∈ infos) : ∃ s ∈ ss, projS s = projI kv := by
  have : projI kv ∈ ss.map projS := by rw [h]; exact List.mem_map.mpr ⟨kv, hkv, rfl⟩
  obtain ⟨s, hs, he⟩ := List.mem_map.mp this
  exact ⟨s, hs, he⟩

theorem corr_of_mem_ss (ss : List Schema) (infos : List (String × SInfo)) (h : ss.map projS = infos.map projI)
    (s : Schema) (hs : s ∈ ss) : ∃ kv ∈ infos, projS s = projI kv := by
  have : projS s ∈ infos.map projI := by rw [← h]; exact List.mem_map.mpr ⟨s, hs, rfl⟩
  obtain ⟨kv, hkv, he⟩ := List.mem_map.mp this
  exact ⟨kv, hkv, he.symm⟩

theorem getD_ge {α : Type} (l : List α) (i : Nat) (d : α) (h : l.length ≤ i) : l.getD i d = d := by
  induction l generalizing i with
  | nil => simp
  | cons x xs ih =>
    cases i with
    | zero => simp at h
    | succ i => simp only [List.getD_cons_succ]; exact ih i (by simpa using h)

theorem wfCls_all (I : IState) (h : ∀ i, i < I.classes.length → I.wfCls i = true) (i : Nat) : I.wfCls i = true := by
  by_cases hi : i < I.classes.length
  · exact h i hi
  · have : I.cls i = default := by
      unfold IState.cls
      exact getD_ge _ _ _ (by omega)
    rw [IState.wfCls, this]
    rfl

structure ClsParts (I : IState) (i : Nat) : Prop where
  ext : ∀ b, (I.cls i).ext = some b → b < i ∧ I.typeKeyOk b = true
  attr : ∀ f ∈ (I.cls i).fields, f.isAttr = true → f.inner < i ∧ I.typeKeyOk f.inner = true
  elem : ∀ f ∈ (I.cls i).fields, f.isAttr = false → f.isData = false → f.ty < i ∧ I.refOk f.ty = true
  data : ∀ f ∈ (I.cls i).fields, f.isAttr = false → f.isData = true → f.inner < i ∧ I.refOk f.inner = true

theorem wfCls_unpack (I : IState) (i : Nat) (h : I.wfCls i = true) : ClsParts I i := by
  simp only [IState.wfCls, Bool.and_eq_true, List.all_eq_true] at h
  obtain ⟨⟨⟨h1, h2⟩, _⟩, _⟩ := h
  refine ⟨?_, ?_, ?_, ?_⟩
  · intro b hb
    rw [hb] at h1
    simpa using h1
  · intro f hf ha
    have := h2 f hf
    simpa [ha] using this
  · intro f hf ha hd
    have := h2 f hf
    simpa [ha, hd] using this
  · intro f hf ha hd
    have := h2 f hf
    simpa [ha, hd] using this

/-- the situation after `build_schema_nodes`, as the closure argument needs it -/
structure SchemaFacts (I : IState) (S : List Schema) (tags : List Nat) (trace : List String) : Prop where
  /-- a rendered class has its type in the schema of its namespace, whose prefix was requested -/
  typeOf : ∀ j ∈ tags, (I.cls j).kind ≠ .builtin →
    (I.cls j).ns ∈ trace ∧ ∃ s ∈ S, s.tns = (I.cls j).ns ∧ ∃ t ∈ s.types, t.name = (I.cls j).tn
  /-- a rendered complex class has its element -/
  elemOf : ∀ j ∈ tags, (I.cls j).kind = .complex →
    (I.cls j).elemNs I.tns ∈ trace ∧ ∃ s ∈ S, s.tns = (I.cls j).elemNs I.tns ∧ ∃ t ∈ s.elements, t.name = (I.cls j).elemName
  members : ∀ j ∈ tags, (I.cls j).kind = .complex → ∀ f ∈ (I.cls j).fields, f.isAttr = false → f.isData = false → f.ty ∈ tags
  dataMembers : ∀ j ∈ tags, (I.cls j).kind = .complex → ∀ f ∈ (I.cls j).fields, f.isData = true → f.inner ∈ tags
  graph : ∀ g ∈ I.graph, g ∈ tags
  /-- every type node is the node of a rendered class -/
  typesFrom : ∀ s ∈ S, ∀ t ∈ s.types, ∃ j ∈ tags, (I.cls j).kind ≠ .builtin ∧ t = nodeOf I (I.cls j)
  /-- every element node belongs to a rendered complex class or to a message -/
  elemsFrom : ∀ s ∈ S, ∀ t ∈ s.elements,
    (∃ j ∈ tags, (I.cls j).kind = .complex ∧ t = ⟨(I.cls j).elemName, typeQN (I.cls j)⟩) ∨
    (s.tns = I.tns ∧ ∃ p ∈ missingPairs I, t = ⟨p.1, typeQN (I.cls p.2)⟩)
  /-- the element of every message exists in the target namespace -/
  missing : ∀ p ∈ missingPairs I, ∃ s ∈ S, s.tns = I.tns ∧ ∃ t ∈ s.elements, t.name = p.1
  /-- one schema per namespace, one definition per type / element name in it -/
  uniqTns : (S.map (·.tns)).Nodup
  uniqTypes : ∀ s ∈ S, (s.types.map (·.name)).Nodup
  uniqElems : ∀ s ∈ S, (s.elements.map (·.name)).Nodup

theorem any_of_exists_type (S : List Schema) (ns tn : String)
    (h : ∃ s ∈ S, s.tns = ns ∧ ∃ t ∈ s.types, t.name = tn) :
    S.any (fun s => s.tns == ns && s.types.any (fun t => t.name == tn)) = true := by
  obtain ⟨s, hs, h1, t, ht, h2⟩ := h
  refine List.any_eq_true.mpr ⟨s, hs, ?_⟩
  simp only [Bool.and_eq_true, beq_iff_eq, List.any_eq_true]
  exact ⟨h1, t, ht, h2⟩

theorem any_of_exists_elem (S : List Schema) (ns n : String)
    (h : ∃ s ∈ S, s.tns = ns ∧ ∃ t ∈ s.elements, t.name = n) :
    S.any (fun s => s.tns == ns && s.elements.any (fun t => t.name == n)) = true := by
  obtain ⟨s, hs, h1, t, ht, h2⟩ := h
  refine List.any_eq_true.mpr ⟨s, hs, ?_⟩
  simp only [Bool.and_eq_true, beq_iff_eq, List.any_eq_true]
  exact ⟨h1, t, ht, h2⟩

/-! ## closure from the facts -/

section closure
variable (I : IState) (d : Doc) (tags : List Nat) (trace : List String)
variable (hw : WfParts I) (hf : SchemaFacts I d.schemas tags trace)
variable (hdecl : ∀ ns loc, (ns ∈ trace ∨ ns = nsXsd ∨ ns = I.tns) → d.declared ⟨ns, loc⟩ = true)
include hw hf hdecl

theorem typeDefined_of_tagged (j : Nat) (hj : j ∈ tags) (hk : (I.cls j).kind ≠ .builtin) :
    d.typeDefined (typeQN (I.cls j)) = true := by
  obtain ⟨h1, h2⟩ := hf.typeOf j hj hk
  simp only [Doc.typeDefined, typeQN, hdecl _ _ (Or.inl h1), Bool.true_and, Bool.or_eq_true]
  exact Or.inr (any_of_exists_type _ _ _ h2)

theorem typeDefined_of_builtin (j : Nat) (h1 : (I.cls j).ns = nsXsd) (h2 : xsdBuiltins.contains (I.cls j).tn = true) :
    d.typeDefined (typeQN (I.cls j)) = true := by
  simp only [Doc.typeDefined, typeQN, h1, hdecl _ _ (Or.inr (Or.inl rfl)), Bool.true_and, Bool.or_eq_true,
    Bool.and_eq_true, beq_self_eq_true, true_and]
  exact Or.inl h2

theorem typeDefined_of_keyOk (b : Nat) (h : I.typeKeyOk b = true) : d.typeDefined (typeQN (I.cls b)) = true := by
  simp only [IState.typeKeyOk, Bool.or_eq_true, Bool.and_eq_true, beq_iff_eq, List.any_eq_true, bne_iff_ne, ne_eq] at h
  rcases h with ⟨⟨_, h2⟩, h3⟩ | ⟨g, hg, ⟨h1, h2⟩, h3⟩
  · exact typeDefined_of_builtin I d tags trace hw hf hdecl b h2 h3
  · have := typeDefined_of_tagged I d tags trace hw hf hdecl g (hf.graph g hg) h3
    simpa [typeQN, h1, h2] using this

theorem typeDefined_of_refOk (k : Nat) (hk : k ∈ tags) (h : I.refOk k = true) : d.typeDefined (typeQN (I.cls k)) = true := by
  by_cases hb : (I.cls k).kind = .builtin
  · simp only [IState.refOk, hb, bne_self_eq_false, Bool.false_or, Bool.and_eq_true, beq_iff_eq] at h
    exact typeDefined_of_builtin I d tags trace hw hf hdecl k h.1 h.2
  · exact typeDefined_of_tagged I d tags trace hw hf hdecl k hk hb

/-- every reference inside the schema node of a rendered class resolves -/
theorem node_refs_defined (j : Nat) (hj : j ∈ tags) (hk : (I.cls j).kind ≠ .builtin) (q : QN)
    (hq : q ∈ (nodeOf I (I.cls j)).refs) : d.typeDefined q = true := by
  have cp := wfCls_unpack I j (wfCls_all I hw.cls j)
  have hext : ∀ b, (I.cls j).ext = some b → d.typeDefined (typeQN (I.cls b)) = true := fun b hb =>
    typeDefined_of_keyOk I d tags trace hw hf hdecl b (cp.ext b hb).2
  unfold nodeOf at hq
  cases hkind : (I.cls j).kind with
  | builtin => exact absurd hkind hk
  | simple =>
    rw [hkind] at hq
    simp only [TypeDef.refs, List.map_nil, List.append_nil, Option.mem_toList] at hq
    cases he : (I.cls j).ext with
    | none => rw [he] at hq; simp at hq
    | some b => rw [he] at hq; simp only [Option.map_some, Option.mem_def, Option.some.injEq] at hq; rw [← hq]; exact hext b he
  | enum =>
    rw [hkind] at hq
    simp only [TypeDef.refs, List.map_nil, List.append_nil, Option.mem_toList, Option.mem_def, Option.some.injEq] at hq
    rw [← hq]
    have hd := hdecl nsXsd "string" (Or.inr (Or.inl rfl))
    have e : (⟨"http://www.w3.org/2001/XMLSchema", "string"⟩ : QN) = ⟨nsXsd, "string"⟩ := rfl
    rw [e]
    simp only [Doc.typeDefined, hd, Bool.true_and, Bool.or_eq_true]
    left
    decide
  | complex =>
    rw [hkind] at hq
    simp only [TypeDef.refs, List.mem_append, Option.mem_toList, List.mem_map] at hq
    rcases hq with ((hq | ⟨p, hp, rfl⟩) | ⟨a, ha, rfl⟩) | hq
    · cases he : (I.cls j).ext with
      | none => rw [he] at hq; simp at hq
      | some b => rw [he] at hq; simp only [Option.map_some, Option.mem_def, Option.some.injEq] at hq; rw [← hq]; exact hext b he
    · simp only [particlesOf, List.mem_map, List.mem_filter] at hp
      obtain ⟨f, ⟨hf', hfa⟩, rfl⟩ := hp
      have hfa' : f.isAttr = false ∧ f.isData = false := by simpa using hfa
      exact typeDefined_of_refOk I d tags trace hw hf hdecl f.ty (hf.members j hj hkind f hf' hfa'.1 hfa'.2)
        (cp.elem f hf' hfa'.1 hfa'.2).2
    · simp only [attrDecls, attrFields, List.mem_map, List.mem_filter] at ha
      obtain ⟨f, ⟨hf', hfa⟩, rfl⟩ := ha
      exact typeDefined_of_keyOk I d tags trace hw hf hdecl f.inner (cp.attr f hf' hfa).2
    · simp only [dataBasesOf, List.mem_map, List.mem_filter] at hq
      obtain ⟨f, ⟨hf', hfd⟩, rfl⟩ := hq
      by_cases hfa : f.isAttr = true
      · exact typeDefined_of_keyOk I d tags trace hw hf hdecl f.inner (cp.attr f hf' hfa).2
      · have hfa' : f.isAttr = false := by simpa using hfa
        exact typeDefined_of_refOk I d tags trace hw hf hdecl f.inner (hf.dataMembers j hj hkind f hf' hfd)
          (cp.data f hf' hfa' hfd).2

/-- **every `type=` and `base=` of the embedded schemas resolves** -/
theorem typeRefs_defined (hm : ∀ m ∈ allMethods I, MethParts I m) (q : QN) (hq : q ∈ d.typeRefs) :
    d.typeDefined q = true := by
  simp only [Doc.typeRefs, List.mem_flatMap, Schema.refs, List.mem_append, List.mem_map] at hq
  obtain ⟨s, hs, hq⟩ := hq
  rcases hq with ⟨t, ht, hq⟩ | ⟨el, hel, rfl⟩
  · obtain ⟨j, hj, hk, rfl⟩ := hf.typesFrom s hs t ht
    exact node_refs_defined I d tags trace hw hf hdecl j hj hk q hq
  · rcases hf.elemsFrom s hs el hel with ⟨j, hj, hk, rfl⟩ | ⟨_, p, hp, rfl⟩
    · exact typeDefined_of_tagged I d tags trace hw hf hdecl j hj (by rw [hk]; intro hc; cases hc)
    · simp only [missingPairs, List.mem_flatMap, List.mem_cons, List.not_mem_nil, or_false] at hp
      obtain ⟨m, hm', hp⟩ := hp
      have mp := hm m hm'
      rcases hp with rfl | rfl
      · rcases mp.inOk with ⟨h1, h2⟩ | h
        · exact typeDefined_of_tagged I d tags trace hw hf hdecl _ (hf.graph _ h1) (by rw [h2]; intro hc; cases hc)
        · exact typeDefined_of_keyOk I d tags trace hw hf hdecl _ h
      · rcases mp.outOk with ⟨h1, h2⟩ | h
        · exact typeDefined_of_tagged I d tags trace hw hf hdecl _ (hf.graph _ h1) (by rw [h2]; intro hc; cases hc)
        · exact typeDefined_of_keyOk I d tags trace hw hf hdecl _ h

theorem elemDefined_of_complex (j : Nat) (hj : j ∈ tags) (hk : (I.cls j).kind = .complex) :
    d.elemDefined (elemQN I.tns (I.cls j)) = true := by
  obtain ⟨h1, h2⟩ := hf.elemOf j hj hk
  simp only [Doc.elemDefined, elemQN, hdecl _ _ (Or.inl h1), Bool.true_and]
  exact any_of_exists_elem _ _ _ h2

theorem elemDefined_of_message (m : Meth) (hm : m ∈ allMethods I) (mp : MethParts I m) (i : Nat)
    (hi : i = m.inMsg ∨ i = m.outMsg) (hns : (I.cls i).elemNs I.tns = I.tns) :
    d.elemDefined (elemQN I.tns (I.cls i)) = true := by
  have hp : ((I.cls i).elemName, i) ∈ missingPairs I := by
    simp only [missingPairs, List.mem_flatMap, List.mem_cons, List.not_mem_nil, or_false]
    refine ⟨m, hm, ?_⟩
    rcases hi with rfl | rfl
    · exact Or.inl rfl
    · exact Or.inr rfl
  have h2 := hf.missing _ hp
  simp only [Doc.elemDefined, elemQN, hns, hdecl _ _ (Or.inr (Or.inr rfl)), Bool.true_and]
  exact any_of_exists_elem _ _ _ h2

end closure

/-! ## the facts hold after `build_schema_nodes` -/

theorem ranked_of_wf (I : IState) (hw : WfParts I) : Ranked I := by
  intro i hi f hf
  have cp := wfCls_unpack I i (hw.cls i hi)
  refine ⟨fun ha hd => (cp.elem f hf ha hd).1, fun hd => ?_⟩
  by_cases ha : f.isAttr = true
  · exact (cp.attr f hf ha).1
  · exact (cp.data f hf (by simpa using ha) hd).1

theorem topo_nil (F : Facts07) (e : Enum) (key : Nat → List Nat) : topo F e key [] = .ok [] := by
  simp [topo]

theorem order_graph (F : Facts07) (e : Enum) (he : e.Valid) (I : IState) (tiers : List (List Nat))
    (h : topo F e I.reprKey I.deps = .ok tiers) (x : Nat) : x ∈ tiers.flatten ↔ x ∈ I.graph := by
  by_cases hd : I.deps = []
  · rw [hd, topo_nil] at h
    injection h with h
    subst h
    simp [IState.graph, hd, Deps.keys]
  · exact topo_complete F e he I.reprKey I.deps tiers h hd x

theorem map_name_eq_keys {β : Type} (l : List (String × β)) (name : β → String) (h : ∀ kv ∈ l, name kv.2 = kv.1) :
    (l.map (·.2)).map name = l.map (·.1) := by
  induction l with
  | nil => rfl
  | cons x r ih =>
    simp only [List.map_cons, List.cons.injEq]
    exact ⟨h x List.mem_cons_self, ih (fun kv hkv => h kv (List.mem_cons_of_mem _ hkv))⟩

theorem schemaFacts_of_build (F : Facts07) (e : Enum) (he : e.Valid) (I : IState) (hw : WfParts I)
    (schemas : List Schema) (tr : List String) (hb : buildSchemas F e I = .ok (schemas, tr)) :
    ∃ tags trace, SchemaFacts I schemas tags trace ∧ ∀ x ∈ trace, x ∈ tr := by
  obtain ⟨tiers, ss, tr', s0, rest, ht, hs, hss, hsch, htr⟩ := buildSchemas_ok F e I schemas tr hb
  have hord := order_graph F e he I tiers ht
  have hspec := mainLoop_spec I (ranked_of_wf I hw) tiers.flatten
    (fun i hi => hw.graph i ((hord i).mp hi)) ⟨[], [(I.tns, ⟨[], []⟩)], []⟩
    (fun j hj => by cases hj)
    ⟨(fun kv hkv t ht' => by
        simp only [List.mem_singleton] at hkv; subst hkv; cases ht'),
     (fun kv hkv t ht' => by
        simp only [List.mem_singleton] at hkv; subst hkv; cases ht')⟩
  have hhead := headTns_mainLoop I tiers.flatten ⟨[], [(I.tns, ⟨[], []⟩)], []⟩ ⟨_, _, rfl⟩
  have hkn := keysNodup_mainLoop I tiers.flatten ⟨[], [(I.tns, ⟨[], []⟩)], []⟩
    ⟨by simp, fun kv hkv => by simp only [List.mem_singleton] at hkv; subst hkv; exact ⟨List.nodup_nil, List.nodup_nil⟩⟩
  -- name the final state
  have hst : schemaState I tiers = mainLoop I tiers.flatten ⟨[], [(I.tns, ⟨[], []⟩)], []⟩ := rfl
  rw [hst] at hs hsch htr
  generalize mainLoop I tiers.flatten ⟨[], [(I.tns, ⟨[], []⟩)], []⟩ = st at hspec hhead hkn hs hsch htr
  obtain ⟨hq, ⟨hTF, hEF⟩, _, htags⟩ := hspec
  obtain ⟨info0, irest, hinfos⟩ := hhead
  have hcorr := schemaLoop_ok F e I st.infos ss tr' hs
  rw [hss, hinfos] at hcorr
  simp only [List.map_cons, List.cons.injEq] at hcorr
  obtain ⟨hc0, hcr⟩ := hcorr
  have hc0t : s0.tns = I.tns := congrArg (·.1) hc0
  have hc0ty : s0.types = info0.types.map (·.2) := congrArg (·.2.1) hc0
  have hlook : st.infos.lookup I.tns = some info0 := by rw [hinfos]; simp [List.lookup]
  rw [hlook] at hsch htr
  simp only [Option.getD_some] at hsch htr
  generalize hE : missingLoop I (missingPairs I) (info0.elements, []) = E at hsch htr
  -- names of nodes are their keys
  have knT : ∀ kv ∈ st.infos, ∀ t ∈ kv.2.types, t.2.name = t.1 := by
    intro kv hkv t ht'
    obtain ⟨j, _, _, _, rfl⟩ := hTF kv hkv t ht'
    exact nodeOf_name I _
  have knE : ∀ kv ∈ st.infos, ∀ t ∈ kv.2.elements, t.2.name = t.1 := by
    intro kv hkv t ht'
    obtain ⟨j, _, _, _, rfl⟩ := hEF kv hkv t ht'
    rfl
  have h0mem : (I.tns, info0) ∈ st.infos := by rw [hinfos]; exact List.mem_cons_self
  have knEE : ∀ kv ∈ E.1, kv.2.name = kv.1 := by
    intro kv hkv
    rw [← hE] at hkv
    rcases missingLoop_from I _ _ kv hkv with h | ⟨p, _, rfl⟩
    · exact knE _ h0mem kv h
    · rfl
  -- a table entry with a type yields a schema with that type
  have typeS : ∀ ns tn, HasType st.infos ns tn → ∃ s ∈ schemas, s.tns = ns ∧ ∃ t ∈ s.types, t.name = tn := by
    intro ns tn ⟨info, hi, hk⟩
    obtain ⟨kv, hkv, hk1⟩ := List.mem_map.mp hk
    rw [hinfos] at hi
    rcases List.mem_cons.mp hi with hi | hi
    · injection hi with e1 e2
      subst e1; subst e2
      refine ⟨{ s0 with elements := E.1.map (·.2) }, by rw [hsch]; exact List.mem_cons_self, hc0t, kv.2, ?_, ?_⟩
      · simp only; rw [hc0ty]; exact List.mem_map.mpr ⟨kv, hkv, rfl⟩
      · rw [knT _ h0mem kv hkv, hk1]
    · obtain ⟨s, hs', hp⟩ := corr_of_mem_infos rest irest hcr (ns, info) hi
      have e1 : s.tns = ns := congrArg (·.1) hp
      have e2 : s.types = info.types.map (·.2) := congrArg (·.2.1) hp
      refine ⟨s, by rw [hsch]; exact List.mem_cons_of_mem _ hs', e1, kv.2, ?_, ?_⟩
      · rw [e2]; exact List.mem_map.mpr ⟨kv, hkv, rfl⟩
      · rw [knT _ (by rw [hinfos]; exact List.mem_cons_of_mem _ hi) kv hkv, hk1]
  have elemS : ∀ ns n, HasElem st.infos ns n → ∃ s ∈ schemas, s.tns = ns ∧ ∃ t ∈ s.elements, t.name = n := by
    intro ns n ⟨info, hi, hk⟩
    obtain ⟨kv, hkv, hk1⟩ := List.mem_map.mp hk
    rw [hinfos] at hi
    rcases List.mem_cons.mp hi with hi | hi
    · injection hi with e1 e2
      subst e1; subst e2
      have hkE : kv ∈ E.1 := by rw [← hE]; exact missingLoop_mono I _ _ kv hkv
      refine ⟨{ s0 with elements := E.1.map (·.2) }, by rw [hsch]; exact List.mem_cons_self, hc0t, kv.2, ?_, ?_⟩
      · exact List.mem_map.mpr ⟨kv, hkE, rfl⟩
      · rw [knEE kv hkE, hk1]
    · obtain ⟨s, hs', hp⟩ := corr_of_mem_infos rest irest hcr (ns, info) hi
      have e1 : s.tns = ns := congrArg (·.1) hp
      have e2 : s.elements = info.elements.map (·.2) := congrArg (·.2.2) hp
      refine ⟨s, by rw [hsch]; exact List.mem_cons_of_mem _ hs', e1, kv.2, ?_, ?_⟩
      · rw [e2]; exact List.mem_map.mpr ⟨kv, hkv, rfl⟩
      · rw [knE _ (by rw [hinfos]; exact List.mem_cons_of_mem _ hi) kv hkv, hk1]
  have done : ∀ j ∈ st.tags, Done I st j := by
    intro j hj
    rcases hq j hj with h | h
    · cases h
    · exact h
  refine ⟨st.tags, st.trace, ⟨?_, ?_, ?_, ?_, ?_, ?_, ?_, ?_, ?_, ?_, ?_⟩, ?_⟩
  · intro j hj hk
    rcases done j hj with h | ⟨h1, h2, _⟩
    · exact absurd h hk
    · exact ⟨h2, typeS _ _ h1⟩
  · intro j hj hk
    rcases done j hj with h | ⟨_, _, h3⟩
    · rw [hk] at h; cases h
    · obtain ⟨e1, e2, _⟩ := h3 hk
      exact ⟨e2, elemS _ _ e1⟩
  · intro j hj hk f hf' ha hd
    rcases done j hj with h | ⟨_, _, h3⟩
    · rw [hk] at h; cases h
    · exact (h3 hk).2.2.1 f hf' ha hd
  · intro j hj hk f hf' hd
    rcases done j hj with h | ⟨_, _, h3⟩
    · rw [hk] at h; cases h
    · exact (h3 hk).2.2.2 f hf' hd
  · intro g hg
    exact htags g ((hord g).mpr hg)
  · intro s hs' t ht'
    rw [hsch] at hs'
    rcases List.mem_cons.mp hs' with rfl | hs'
    · simp only at ht'
      rw [hc0ty] at ht'
      obtain ⟨kv, hkv, rfl⟩ := List.mem_map.mp ht'
      obtain ⟨j, hj, hk, _, rfl⟩ := hTF _ h0mem kv hkv
      exact ⟨j, hj, hk, rfl⟩
    · obtain ⟨kv, hkv, hp⟩ := corr_of_mem_ss rest irest hcr s hs'
      have e2 : s.types = kv.2.types.map (·.2) := congrArg (·.2.1) hp
      rw [e2] at ht'
      obtain ⟨kt, hkt, rfl⟩ := List.mem_map.mp ht'
      obtain ⟨j, hj, hk, _, rfl⟩ := hTF kv (by rw [hinfos]; exact List.mem_cons_of_mem _ hkv) kt hkt
      exact ⟨j, hj, hk, rfl⟩
  · intro s hs' t ht'
    rw [hsch] at hs'
    rcases List.mem_cons.mp hs' with rfl | hs'
    · simp only at ht'
      obtain ⟨kv, hkv, rfl⟩ := List.mem_map.mp ht'
      rw [← hE] at hkv
      rcases missingLoop_from I _ _ kv hkv with h | ⟨p, hp, rfl⟩
      · obtain ⟨j, hj, hk, _, rfl⟩ := hEF _ h0mem kv h
        exact Or.inl ⟨j, hj, hk, rfl⟩
      · exact Or.inr ⟨hc0t, p, hp, rfl⟩
    · obtain ⟨kv, hkv, hp⟩ := corr_of_mem_ss rest irest hcr s hs'
      have e2 : s.elements = kv.2.elements.map (·.2) := congrArg (·.2.2) hp
      rw [e2] at ht'
      obtain ⟨kt, hkt, rfl⟩ := List.mem_map.mp ht'
      obtain ⟨j, hj, hk, _, rfl⟩ := hEF kv (by rw [hinfos]; exact List.mem_cons_of_mem _ hkv) kt hkt
      exact Or.inl ⟨j, hj, hk, rfl⟩
  · intro p hp
    have := missingLoop_has I (missingPairs I) (info0.elements, []) p hp
    rw [hE] at this
    obtain ⟨kv, hkv, hk1⟩ := List.mem_map.mp this
    refine ⟨{ s0 with elements := E.1.map (·.2) }, by rw [hsch]; exact List.mem_cons_self, hc0t, kv.2, List.mem_map.mpr ⟨kv, hkv, rfl⟩, ?_⟩
    rw [knEE kv hkv, hk1]
  · -- one schema per namespace
    rw [hsch]
    have e1 : rest.map (·.tns) = irest.map (·.1) := by
      have := congrArg (List.map (·.1)) hcr
      rw [List.map_map, List.map_map] at this
      exact this
    have hk := hkn.1
    rw [hinfos] at hk
    simpa [List.map_cons, hc0t, e1] using hk
  · intro s hs'
    rw [hsch] at hs'
    rcases List.mem_cons.mp hs' with rfl | hs'
    · simp only
      rw [hc0ty, map_name_eq_keys _ _ (knT _ h0mem)]
      exact (hkn.2 _ h0mem).1
    · obtain ⟨kv, hkv, hp⟩ := corr_of_mem_ss rest irest hcr s hs'
      have hkv' : kv ∈ st.infos := by rw [hinfos]; exact List.mem_cons_of_mem _ hkv
      have e2 : s.types = kv.2.types.map (·.2) := congrArg (·.2.1) hp
      rw [e2, map_name_eq_keys _ _ (knT _ hkv')]
      exact (hkn.2 _ hkv').1
  · intro s hs'
    rw [hsch] at hs'
    rcases List.mem_cons.mp hs' with rfl | hs'
    · simp only
      rw [map_name_eq_keys _ _ knEE, ← hE]
      exact missingLoop_keys_nodup I _ _ (hkn.2 _ h0mem).2
    · obtain ⟨kv, hkv, hp⟩ := corr_of_mem_ss rest irest hcr s hs'
      have hkv' : kv ∈ st.infos := by rw [hinfos]; exact List.mem_cons_of_mem _ hkv
      have e2 : s.elements = kv.2.elements.map (·.2) := congrArg (·.2.2) hp
      rw [e2, map_name_eq_keys _ _ (knE _ hkv')]
      exact (hkn.2 _ hkv').2
  · intro x hx
    rw [htr]
    exact List.mem_append_left _ (List.mem_append_left _ hx)

/-! ## message parts -/

/-- the classes message parts are made of -/
def MsgObj (I : IState) (ms : List Meth) (i : Nat) : Prop :=
  ∃ m ∈ ms, i = m.inMsg ∨ i = m.outMsg ∨ i ∈ (m.inHeader.getD []) ++ (m.outHeader.getD []) ++ m.faults

def PartsFrom (I : IState) (ms : List Meth) (a : MAcc) : Prop :=
  ∀ msg ∈ a.1, ∀ p ∈ msg.parts, ∃ i, MsgObj I ms i ∧ p.element = elemQN I.tns (I.cls i)

theorem partsFrom_addMessage (I : IState) (ms : List Meth) (objs : List Nat) (n : String) (a : MAcc)
    (ho : ∀ i ∈ objs, MsgObj I ms i) (h : PartsFrom I ms a) : PartsFrom I ms (addMessage I objs n a) := by
  unfold addMessage
  split
  · exact h
  · intro msg hmsg p hp
    rcases List.mem_append.mp hmsg with hmsg | hmsg
    · exact h msg hmsg p hp
    · simp only [List.mem_singleton] at hmsg
      subst hmsg
      simp only [partsOf, List.mem_map] at hp
      obtain ⟨i, hi, rfl⟩ := hp
      exact ⟨i, ho i hi, rfl⟩

theorem partsFrom_faultMsgLoop (I : IState) (ms : List Meth) (fs : List Nat) (a : MAcc)
    (ho : ∀ i ∈ fs, MsgObj I ms i) (h : PartsFrom I ms a) : PartsFrom I ms (faultMsgLoop I fs a) := by
  induction fs generalizing a with
  | nil => exact h
  | cons f fs ih =>
    simp only [faultMsgLoop]
    apply ih _ (fun i hi => ho i (List.mem_cons_of_mem _ hi))
    exact partsFrom_addMessage I ms [f] _ a (fun i hi => by
      simp only [List.mem_singleton] at hi; subst hi; exact ho i List.mem_cons_self) h

theorem partsFrom_messagesLoop (I : IState) (all : List Meth) (ms : List Meth) (hsub : ∀ m ∈ ms, m ∈ all) (a : MAcc)
    (h : PartsFrom I all a) : PartsFrom I all (messagesLoop I ms a) := by
  induction ms generalizing a with
  | nil => exact h
  | cons m ms ih =>
    simp only [messagesLoop]
    have hm := hsub m List.mem_cons_self
    apply ih (fun m' hm' => hsub m' (List.mem_cons_of_mem _ hm'))
    apply partsFrom_faultMsgLoop
    · intro i hi
      exact ⟨m, hm, Or.inr (Or.inr (List.mem_append_right _ hi))⟩
    · have h1 := partsFrom_addMessage I all [m.inMsg] (I.cls m.inMsg).elemName a (fun i hi => by
        simp only [List.mem_singleton] at hi; subst hi; exact ⟨m, hm, Or.inl rfl⟩) h
      have h2 := partsFrom_addMessage I all [m.outMsg] (I.cls m.outMsg).elemName _ (fun i hi => by
        simp only [List.mem_singleton] at hi; subst hi; exact ⟨m, hm, Or.inr (Or.inl rfl)⟩) h1
      have h3 : PartsFrom I all (addHeaderMessage I m m.inHeader "InHeaderMsg"
          (addMessage I [m.outMsg] (I.cls m.outMsg).elemName (addMessage I [m.inMsg] (I.cls m.inMsg).elemName a))) := by
        unfold addHeaderMessage
        cases hh : m.inHeader with
        | none => exact h2
        | some hs =>
          exact partsFrom_addMessage I all hs _ _ (fun i hi =>
            ⟨m, hm, Or.inr (Or.inr (List.mem_append_left _ (List.mem_append_left _ (by rw [hh]; exact hi))))⟩) h2
      unfold addHeaderMessage
      cases hh : m.outHeader with
      | none => exact h3
      | some hs =>
        exact partsFrom_addMessage I all hs _ _ (fun i hi =>
          ⟨m, hm, Or.inr (Or.inr (List.mem_append_left _ (List.mem_append_right _ (by rw [hh]; exact hi))))⟩) h3

/-! ## the closure theorem -/

/-- **every `type=`, `base=` and `element=` reference resolves** to a definition in the document or an XSD builtin,
    and is written with a declared prefix -/
theorem schema_refs_closed_general (F : Facts07) (hM : F.messageDedup = .perDocument) (e : Enum) (he : e.Valid) (I : IState) (url : String) (d : Doc)
    (h : gen F e I url = .ok d) (hwf : I.wf = true) :
    (∀ q ∈ d.typeRefs, d.typeDefined q = true) ∧ (∀ q ∈ d.elemRefs, d.elemDefined q = true) := by
  obtain ⟨schemas, tr, hb, hd⟩ := gen_ok F hM e I url d h
  have hw := wf_unpack I hwf
  obtain ⟨tags, trace, hf, htr⟩ := schemaFacts_of_build F e he I hw schemas tr hb
  have hinv := hw.prefsInv
  have hsch : d.schemas = schemas := by rw [hd]
  have hf' : SchemaFacts I d.schemas tags trace := by rw [hsch]; exact hf
  have hdecl : ∀ ns loc, (ns ∈ trace ∨ ns = nsXsd ∨ ns = I.tns) → d.declared ⟨ns, loc⟩ = true := by
    intro ns loc hk
    have hkn : (∃ pf, (Prefs.init I).prefmap.lookup ns = some pf) ∨ ns ∈ tr := by
      rcases hk with hk | rfl | rfl
      · exact Or.inr (htr ns hk)
      · exact Or.inl hw.knownXs
      · exact Or.inl hw.knownTns
    obtain ⟨pf, h1, h2⟩ := declared_of_known (Prefs.init I) hinv tr
      ((messagesOf I).2 ++ (portTypesOf F I (stripWsdl url)).trace ++ (bindingsOf F I).trace) ns hkn
    rw [hd]
    simp only [Doc.declared]
    rw [h1]
    simp [h2]
  have hm : ∀ m ∈ allMethods I, MethParts I m := fun m hm => wfMeth_unpack I m (hw.meth m hm)
  refine ⟨fun q hq => typeRefs_defined I d tags trace hw hf' hdecl hm q hq, ?_⟩
  intro q hq
  simp only [Doc.elemRefs, List.mem_flatMap, List.mem_map] at hq
  obtain ⟨msg, hmsg, p, hp, rfl⟩ := hq
  have hmsgs : d.messages = (messagesOf I).1 := by rw [hd]
  rw [hmsgs] at hmsg
  have hpf := partsFrom_messagesLoop I (allMethods I) (allMethods I) (fun _ h => h) ([], [])
    (fun msg hmsg => by cases hmsg)
  obtain ⟨i, ⟨m, hmm, hi⟩, hpe⟩ := hpf msg hmsg p hp
  rw [hpe]
  have mp := hm m hmm
  rcases hi with rfl | rfl | hi
  · exact elemDefined_of_message I d tags trace hw hf' hdecl m hmm mp _ (Or.inl rfl) mp.inNs
  · exact elemDefined_of_message I d tags trace hw hf' hdecl m hmm mp _ (Or.inr rfl) mp.outNs
  · obtain ⟨hg, hk⟩ := mp.hdrs i hi
    exact elemDefined_of_complex I d tags trace hw hf' hdecl i (hf'.graph i hg) hk

end SpyneModel.Wsdl

namespace SpyneModel.Wsdl
open SpyneModel

/-! ## `soap:header/@part` -/

/-- `add_messages_for_methods` as a fold of `_add_message_for_object` over the requests -/
def reqLoop (I : IState) (rs : List (String × List Nat)) (a : MAcc) : MAcc :=
  rs.foldl (fun a r => addMessage I r.2 r.1 a) a

theorem reqLoop_append (I : IState) (r1 r2 : List (String × List Nat)) (a : MAcc) :
    reqLoop I (r1 ++ r2) a = reqLoop I r2 (reqLoop I r1 a) := by
  simp [reqLoop, List.foldl_append]

theorem faultMsgLoop_eq (I : IState) (fs : List Nat) (a : MAcc) :
    faultMsgLoop I fs a = reqLoop I (fs.map (fun f => ((I.cls f).tn, [f]))) a := by
  induction fs generalizing a with
  | nil => rfl
  | cons f fs ih => simp only [faultMsgLoop, ih, reqLoop, List.map_cons, List.foldl_cons]

theorem messagesLoop_eq (I : IState) (ms : List Meth) (a : MAcc) :
    messagesLoop I ms a = reqLoop I (ms.flatMap (requestsOf I)) a := by
  induction ms generalizing a with
  | nil => rfl
  | cons m ms ih =>
    simp only [messagesLoop, List.flatMap_cons, reqLoop_append, ih, faultMsgLoop_eq, requestsOf]
    congr 1
    cases hi : m.inHeader <;> cases ho : m.outHeader <;>
      simp [reqLoop, addHeaderMessage, List.foldl_append]

/-- every message comes from a request, and every request has a message of its name -/
theorem reqLoop_spec (I : IState) (all : List (String × List Nat)) (rs : List (String × List Nat))
    (hsub : ∀ r ∈ rs, r ∈ all) (a : MAcc)
    (ha : ∀ msg ∈ a.1, ∃ r ∈ all, msg = ⟨r.1, partsOf I r.2⟩) :
    (∀ msg ∈ (reqLoop I rs a).1, ∃ r ∈ all, msg = ⟨r.1, partsOf I r.2⟩) ∧
    (∀ r ∈ rs, r.1 ∈ mnames (reqLoop I rs a)) ∧ (∀ x ∈ mnames a, x ∈ mnames (reqLoop I rs a)) := by
  induction rs generalizing a with
  | nil => exact ⟨ha, (fun r hr => by cases hr), (fun x hx => hx)⟩
  | cons r rs ih =>
    have ha' : ∀ msg ∈ (addMessage I r.2 r.1 a).1, ∃ r' ∈ all, msg = ⟨r'.1, partsOf I r'.2⟩ := by
      intro msg hmsg
      unfold addMessage at hmsg
      split at hmsg
      · exact ha msg hmsg
      · rcases List.mem_append.mp hmsg with h | h
        · exact ha msg h
        · simp only [List.mem_singleton] at h
          exact ⟨r, hsub r List.mem_cons_self, h⟩
    obtain ⟨h1, h2, h3⟩ := ih (fun r' hr' => hsub r' (List.mem_cons_of_mem _ hr')) (addMessage I r.2 r.1 a) ha'
    refine ⟨h1, ?_, fun x hx => h3 x (addMessage_mono I _ _ a x hx)⟩
    intro r' hr'
    rcases List.mem_cons.mp hr' with rfl | hr'
    · exact h3 _ (addMessage_has I _ _ a)
    · exact h2 r' hr'

/-- the message a request names has the parts of that request -/
theorem request_message (I : IState) (hc : ∀ r1 ∈ I.requests, ∀ r2 ∈ I.requests, r1.1 = r2.1 → partsOf I r1.2 = partsOf I r2.2)
    (r : String × List Nat) (hr : r ∈ I.requests) :
    ∃ msg ∈ (messagesOf I).1, msg.name = r.1 ∧ msg.parts = partsOf I r.2 := by
  have hs := reqLoop_spec I I.requests I.requests (fun _ h => h) ([], []) (fun msg h => by cases h)
  have he : messagesOf I = reqLoop I I.requests ([], []) := messagesLoop_eq I (allMethods I) ([], [])
  rw [← he] at hs
  obtain ⟨h1, h2, _⟩ := hs
  obtain ⟨msg, hmsg, hn⟩ := List.mem_map.mp (h2 r hr)
  obtain ⟨r', hr', rfl⟩ := h1 msg hmsg
  exact ⟨_, hmsg, hn, hc r' hr' r hr hn⟩

theorem header_request_mem (I : IState) (m : Meth) (hm : m ∈ allMethods I) (hs : List Nat) (sfx : String)
    (h : (m.inHeader = some hs ∧ sfx = "InHeaderMsg") ∨ (m.outHeader = some hs ∧ sfx = "OutHeaderMsg")) :
    (headerMsgName I m hs sfx, hs) ∈ I.requests := by
  refine List.mem_flatMap.mpr ⟨m, hm, ?_⟩
  simp only [requestsOf, List.mem_append, List.mem_cons, List.not_mem_nil, or_false]
  rcases h with ⟨h1, rfl⟩ | ⟨h1, rfl⟩
  · left; left; right; rw [h1]; simp
  · left; right; rw [h1]; simp

/-- **every `soap:header/@part` names a part of the message the header refers to** -/
theorem header_parts_general (F : Facts07) (hM : F.messageDedup = .perDocument) (e : Enum) (I : IState) (url : String) (d : Doc)
    (h : gen F e I url = .ok d) (hwf : I.wf = true) : ∀ bh ∈ d.headerRefs, d.headerPartOk bh = true := by
  obtain ⟨schemas, tr, _, rfl⟩ := gen_ok F hM e I url d h
  have hw := wf_unpack I hwf
  intro bh hbh
  simp only [Doc.headerRefs, List.mem_flatMap] at hbh
  obtain ⟨b, hb, o, ho, hbh⟩ := hbh
  have hfrom := bindingsLoop_from F I (allMethods I) I.services
    (fun s hs m hm => mem_allMethods I s hs m hm) ⟨[], false, []⟩ (fun b hb => by cases hb)
  obtain ⟨m, hm, rfl⟩ := hfrom b hb o ho
  have mp := wfMeth_unpack I m (hw.meth m hm)
  have key : ∀ (hs : List Nat) (sfx : String) (x : Nat), x ∈ hs →
      ((m.inHeader = some hs ∧ sfx = "InHeaderMsg") ∨ (m.outHeader = some hs ∧ sfx = "OutHeaderMsg")) →
      (Doc.headerPartOk ⟨(touchAll (Prefs.init I) tr).nsmap,
        (touchAll (touchAll (Prefs.init I) tr)
          ((messagesOf I).2 ++ (portTypesOf F I (stripWsdl url)).trace ++ (bindingsOf F I).trace)).prefmap,
        I.tns, I.name, schemas, (messagesOf I).1, (portTypesOf F I (stripWsdl url)).services,
        (portTypesOf F I (stripWsdl url)).portTypes, (bindingsOf F I).bindings⟩
        ⟨⟨headerRefNs F I x, headerMsgName I m hs sfx⟩, (I.cls x).tn⟩) = true := by
    intro hs sfx x hx hcase
    obtain ⟨msg, hmsg, hn, hp⟩ := request_message I hw.consistent _ (header_request_mem I m hm hs sfx hcase)
    have hpl : (I.cls x).subName = none ∧ (I.cls x).wsdlPart = none := by
      apply mp.plain
      rcases hcase with ⟨h1, _⟩ | ⟨h1, _⟩
      · exact List.mem_append_left _ (by rw [h1]; exact hx)
      · exact List.mem_append_right _ (by rw [h1]; exact hx)
    simp only [Doc.headerPartOk, List.any_eq_true, Bool.and_eq_true, beq_iff_eq]
    refine ⟨msg, hmsg, hn, ?_⟩
    rw [hp]
    refine ⟨⟨(I.cls x).wsdlPart.getD (I.cls x).elemName, elemQN I.tns (I.cls x)⟩,
      List.mem_map.mpr ⟨x, hx, rfl⟩, ?_⟩
    simp [hpl.1, hpl.2, Cls.elemName]
  simp only [mkBOp, List.mem_append] at hbh
  rcases hbh with hbh | hbh
  · cases hh : m.inHeader with
    | none => rw [hh] at hbh; simp [bHeaders] at hbh
    | some hs =>
      rw [hh] at hbh
      simp only [bHeaders, List.mem_map] at hbh
      obtain ⟨x, hx, rfl⟩ := hbh
      exact key hs "InHeaderMsg" x hx (Or.inl ⟨hh, rfl⟩)
  · cases hh : m.outHeader with
    | none => rw [hh] at hbh; simp [bHeaders] at hbh
    | some hs =>
      rw [hh] at hbh
      simp only [bHeaders, List.mem_map] at hbh
      obtain ⟨x, hx, rfl⟩ := hbh
      exact key hs "OutHeaderMsg" x hx (Or.inr ⟨hh, rfl⟩)

end SpyneModel.Wsdl

namespace SpyneModel.Wsdl
open SpyneModel

/-! ## `add_method`: the namespace of declared faults -/

theorem getD_map_range {α : Type} (n i : Nat) (g : Nat → α) (d : α) (h : i < n) :
    ((List.range n).map g).getD i d = g i := by
  simp [List.getD_eq_getElem?_getD, List.getElem?_map, List.getElem?_range h]

theorem addMethodFaults_forced (F : Facts07) (hF : F.faultNs = .forcedTns) (I : IState) :
    (I.addMethodFaults F).tns = I.tns ∧ (I.addMethodFaults F).services = I.services ∧
    (I.addMethodFaults F).deps = I.deps ∧ (I.addMethodFaults F).classes.length = I.classes.length ∧
    ∀ f, f < I.classes.length → f ∈ I.faultIds → ((I.addMethodFaults F).cls f).ns = I.tns := by
  simp only [IState.addMethodFaults, hF]
  refine ⟨trivial, trivial, trivial, by simp, ?_⟩
  intro f hf hm
  simp only [IState.cls]
  rw [getD_map_range _ _ _ _ hf]
  simp [hm]

/-- after `add_method` every declared fault is in the target namespace: the contract's fault clause holds -/
theorem wf_of_core_forced (F : Facts07) (hF : F.faultNs = .forcedTns) (I : IState)
    (h : (I.addMethodFaults F).wfCore = true) : (I.addMethodFaults F).wf = true := by
  obtain ⟨h1, h2, h3, h4, h5⟩ := addMethodFaults_forced F hF I
  have hcore := h
  simp only [IState.wf, h, Bool.true_and, IState.faultsTns, List.all_eq_true, beq_iff_eq]
  intro m hm f hf
  have hm' : m ∈ allMethods I := by simpa [allMethods, h2] using hm
  -- the fault is a class of the graph, hence of the table
  simp only [IState.wfCore, Bool.and_eq_true, List.all_eq_true, decide_eq_true_eq] at hcore
  obtain ⟨⟨⟨⟨⟨⟨⟨⟨_, hg⟩, hmeth⟩, _⟩, _⟩, _⟩, _⟩, _⟩, _⟩ := hcore
  have hwm := hmeth m hm
  simp only [IState.wfMeth, Bool.and_eq_true, List.all_eq_true, List.contains_eq_mem, decide_eq_true_eq] at hwm
  obtain ⟨⟨⟨⟨hh, _⟩, _⟩, _⟩, _⟩ := hwm
  have hfg := (hh f (List.mem_append_right _ hf)).1
  have hlt := hg f hfg
  rw [h4] at hlt
  rw [h1]
  exact h5 f hlt (List.mem_flatMap.mpr ⟨m, hm', hf⟩)

end SpyneModel.Wsdl
