/-
  C03 helper lemmas, part 9: the response for a single primitive return value.
-/
import Proofs.FlatDoc
import Proofs.FlatQsP
namespace SpyneModel.Flat
open SpyneModel

/-- every member of the header class is a single primitive -/
def PrimHeader : List Fld → Prop
  | [] => True
  | (_, occ, t) :: r => occ.many = false ∧ (∃ p, t = .prim p) ∧ PrimHeader r

theorem encFields_prim_mem (delim : Text) (attrs : Attrs) (fields : List Fld) (hp : PrimHeader fields)
    (n : Text) (occ : Occ) (t : Ty) (hf : (n, occ, t) ∈ fields) (v : Leaf) (hv : getAttr attrs n = .leaf v) :
    (n, EncVal.one v) ∈ encFields delim [] attrs fields := by
  induction fields with
  | nil => simp at hf
  | cons f r ih =>
    obtain ⟨fn, focc, ft⟩ := f
    simp only [PrimHeader] at hp
    obtain ⟨hm, ⟨p, rfl⟩, hr⟩ := hp
    simp only [encFields, List.mem_append]
    rcases List.mem_cons.mp hf with h | h
    · simp only [Prod.mk.injEq] at h
      obtain ⟨rfl, rfl, rfl⟩ := h
      left
      simp only [hm, hv, List.nil_append, encTy, joinKey, List.mem_singleton]
    · exact Or.inr (ih hr h)

/-- a declared header member that is set is sent under its name with its exact text -/
theorem response_header (mime : Text) (hdrFields : List Fld) (hp : PrimHeader hdrFields) (attrs : Attrs)
    (ret : RetVal) (n : Text) (occ : Occ) (t : Ty) (hf : (n, occ, t) ∈ hdrFields) (v : Leaf) (text : Text)
    (hv : getAttr attrs n = .leaf v) (ht : hdrText v = some text) :
    (n, text) ∈ (response mime hdrFields (.obj attrs) ret).1 := by
  simp only [response, hdrPairs, encode, List.mem_cons, List.mem_append, List.mem_flatMap]
  right; left
  exact ⟨(n, .one v), encFields_prim_mem ['.'] attrs hdrFields hp n occ t hf v hv, by simp [ht]⟩

/-- the body is the UTF-8 of the value's text, and reads back as that text -/
theorem response_body (mime : Text) (hdrFields : List Fld) (hdr : Node) (v : Leaf) (text : Text)
    (ht : leafText v = some text) :
    (response mime hdrFields hdr (.leaf v)).2 = utf8Enc text ∧
    utf8Dec (response mime hdrFields hdr (.leaf v)).2 = text := by
  simp [response, retBody, ht, utf8Dec_utf8Enc]

/-- Content-Type first, Content-Length (decimal byte count of the body) last -/
theorem response_frame (mime : Text) (hdrFields : List Fld) (hdr : Node) (ret : RetVal) :
    (response mime hdrFields hdr ret).1.head? = some ("Content-Type".toList, mime) ∧
    (response mime hdrFields hdr ret).1.getLast? =
      some ("Content-Length".toList, natText (response mime hdrFields hdr ret).2.length) := by
  refine ⟨rfl, ?_⟩
  simp only [response]
  rw [← List.cons_append, List.getLast?_append]
  rfl

end SpyneModel.Flat
