/-
  C03 helper lemmas, part 9: the response for a single primitive return value.
-/
import Proofs.FlatDoc
import Proofs.FlatQsP
namespace SpyneModel.Flat
open SpyneModel

/-- every member of the header class is a single primitive -/
def PrimHeader : List Fld → Prop
  | [] => True
  | (_, occ, t) :: r => occ.many = false ∧ (∃ p, t = .prim p) ∧ PrimHeader r

theorem encFields_prim_mem (delim : Text) (attrs : Attrs) (fields : List Fld) (hp : PrimHeader fields)
    (n : Text) (occ : Occ) (p : PK) (hf : (n, occ, .prim p) ∈ fields) (v : Leaf) (hv : getAttr attrs n = .leaf v) :
    (n, EncVal.one p v) ∈ encFields delim [] attrs fields := by
  induction fields with
  | nil => simp at hf
  | cons f r ih =>
    obtain ⟨fn, focc, ft⟩ := f
    simp only [PrimHeader] at hp
    obtain ⟨hm, ⟨p', rfl⟩, hr⟩ := hp
    simp only [encFields, List.mem_append]
    rcases List.mem_cons.mp hf with h | h
    · simp only [Prod.mk.injEq, Ty.prim.injEq] at h
      obtain ⟨rfl, rfl, rfl⟩ := h
      left
      simp only [hm, hv, List.nil_append, encTy, joinKey, List.mem_singleton]
    · exact Or.inr (ih hr h)

/-- a declared header member that is set is sent under its name with its exact text -/
theorem response_header (F : Facts03) (mime : Text) (hdrFields : List Fld) (hp : PrimHeader hdrFields) (attrs : Attrs)
    (ret : RetVal) (n : Text) (occ : Occ) (p : PK) (hf : (n, occ, .prim p) ∈ hdrFields) (v : Leaf) (text : Text)
    (hv : getAttr attrs n = .leaf v) (ht : hdrText F p v = some text) :
    (n, text) ∈ (response F mime hdrFields (.obj attrs) ret).1 := by
  simp only [response, hdrPairs, encode, List.mem_cons, List.mem_append, List.mem_flatMap]
  right; left
  exact ⟨(n, .one p v), encFields_prim_mem ['.'] attrs hdrFields hp n occ p hf v hv, by simp [ht]⟩

/-- the body is the UTF-8 of the value's text, and reads back as that text -/
theorem response_body (F : Facts03) (mime : Text) (hdrFields : List Fld) (hdr : Node) (p : PK) (v : Leaf) (text : Text)
    (ht : leafText F p v = some text) :
    (response F mime hdrFields hdr (.leaf p v)).2 = utf8Enc text ∧
    utf8Dec (response F mime hdrFields hdr (.leaf p v)).2 = text := by
  simp [response, retBody, ht, utf8Dec_utf8Enc]

/-- Content-Type first, Content-Length (decimal byte count of the body) last -/
theorem response_frame (F : Facts03) (mime : Text) (hdrFields : List Fld) (hdr : Node) (ret : RetVal) :
    (response F mime hdrFields hdr ret).1.head? = some ("Content-Type".toList, mime) ∧
    (response F mime hdrFields hdr ret).1.getLast? =
      some ("Content-Length".toList, natText (response F mime hdrFields hdr ret).2.length) := by
  refine ⟨rfl, ?_⟩
  simp only [response]
  rw [← List.cons_append, List.getLast?_append]
  rfl

end SpyneModel.Flat
