/-
  C11 — a request runs exactly the method it names.
  Property theorems only; every theorem is about the model instantiated with the facts regenerated
  from /repo (`Generated.facts11`), side conditions discharged by `decide`.

  Vocabulary (SpyneModel/Dispatch.lean): `ms` is the list of method descriptors of the listed services in
  listing order; `build` is `Application.__init__` as far as routing goes; `rget r k` is
  `service_method_map.get(k, [])`; `requestKey` is the key a request is looked up under
  (`get_call_handles` applied to the protocol's `method_request_string`); `serve` is what runs.
-/
import Proofs.Dispatch
import Proofs.DispatchHttp
import Proofs.DispatchBytes
import Proofs.DispatchSoap
import SpyneModel.Generated.Facts11
namespace SpyneModel.Props.C11
open SpyneModel SpyneModel.Dispatch SpyneModel.Dispatch.Sample SpyneModel.Generated

/-! ### which applications are accepted, and what their routing table is -/

/-- an application is accepted iff internal keys, message class names and interface keys are unique
    and no two primary methods answer to one public name — a condition that does not mention the order -/
theorem accepted_iff_valid (tns : Text) (ms : List Method) :
    (∃ r, build facts11 tns ms = .ok r) ↔ Valid tns ms :=
  build_ok_iff facts11 (by decide) (by decide) tns ms

/-- under every key: the one primary method with that name (if any), then its auxiliary methods -/
theorem routing_table (tns : Text) (ms : List Method) (r : Routes) (h : build facts11 tns ms = .ok r)
    (k : Text) :
    rget r k = prims tns ms k ++ auxs tns ms k ∧ (prims tns ms k).length ≤ 1 :=
  ⟨build_routes facts11 (by decide) (by decide) tns ms r h k,
   prims_le_one ((build_ok_iff facts11 (by decide) (by decide) tns ms).mp ⟨r, h⟩).noClash k⟩

/-- construction never ends in anything but the two documented rejections -/
theorem rejection_classes (tns : Text) (ms : List Method) (e : BuildErr)
    (h : build facts11 tns ms = .error e) : e = .methodAlreadyExists ∨ e = .valueError :=
  build_err facts11 (by decide) (by decide) tns ms e h

/-! ### a registered name runs its function (and its auxiliaries), once -/

/-- a request whose key is that of a registered primary method runs exactly that function, then the
    auxiliary functions registered under the same name -/
theorem registered_runs (tns : Text) (ms : List Method) (r : Routes) (hb : build facts11 tns ms = .ok r)
    (m : Method) (hm : m ∈ ms) (ha : m.aux = false) (q : Request)
    (hq : requestKey facts11 tns q = routeKey tns m) :
    serve facts11 r tns q = .ran (m.fid :: (auxs tns ms (routeKey tns m)).map (·.fid)) :=
  serve_registered facts11 (by decide) (by decide) (by decide) tns ms r hb m hm ha q hq

/-- whatever runs is registered under exactly the requested key; only the first may be a primary
    method; nothing runs twice -/
theorem nothing_else_runs (tns : Text) (ms : List Method) (r : Routes) (hb : build facts11 tns ms = .ok r)
    (hf : (ms.map (·.fid)).Nodup) (q : Request) (calls : List Nat)
    (hs : serve facts11 r tns q = .ran calls) :
    ∃ hs : List Method, calls = hs.map (·.fid) ∧ hs ≠ [] ∧ calls.Nodup ∧
      (∀ m ∈ hs, m ∈ ms ∧ routeKey tns m = requestKey facts11 tns q) ∧
      (∀ m ∈ hs.tail, m.aux = true) := by
  have ⟨h1, h2, h3⟩ := serve_sound facts11 (by decide) (by decide) (by decide) tns ms r hb q calls hs
  refine ⟨prims tns ms (requestKey facts11 tns q) ++ auxs tns ms (requestKey facts11 tns q), h1, ?_, ?_, ?_, ?_⟩
  · intro h; rw [h] at h1; exact h2 (by simpa using h1)
  · rw [h1]; exact route_fids_nodup hf _
  · intro m hm
    rcases List.mem_append.mp hm with h | h
    · have := mem_prims.mp h; exact ⟨this.1, this.2.2⟩
    · have := mem_auxs.mp h; exact ⟨this.1, this.2.2⟩
  · intro m hm
    match hp : prims tns ms (requestKey facts11 tns q) with
    | [] => rw [hp] at hm; exact (mem_auxs.mp (List.mem_of_mem_tail hm)).2.1
    | [x] => rw [hp] at hm; exact (mem_auxs.mp (by simpa using hm)).2.1
    | _ :: _ :: _ => rw [hp] at h3; simp at h3

/-! ### how each protocol's way of naming the method becomes the routing key -/

/-- the single key of a JSON/YAML/MessagePack document, the msgpack-rpc name field, the last segment
    of an HttpRpc path and a root tag in the target namespace all mean '{tns}name'; a qualified tag
    means itself -/
theorem naming (tns n : Text) :
    requestKey facts11 tns (.key n) = qname tns n ∧
    requestKey facts11 tns (.rpcName n) = qname tns n ∧
    (∀ ns, requestKey facts11 tns (.tag (some ns) n) = qname ns n) ∧
    (n.head? ≠ some '{' → requestKey facts11 tns (.tag none n) = qname tns n ∧
                           requestKey facts11 tns (.null n) = qname tns n ∧
                           requestKey facts11 tns (.endpoint n) = qname tns n) ∧
    (∀ p, '/' ∉ n → requestKey facts11 tns (.path (p ++ '/' :: n)) = qname tns n) := by
  refine ⟨rfl, rfl, fun _ => rfl, ?_, ?_⟩
  · intro h
    simp [requestKey, requestString, qualify_good facts11 (by decide), h]
  · intro p hn
    simp only [requestKey, requestString, qualify_good facts11 (by decide), lastSegment_append p n hn]
    rfl

/-! ### an unregistered name reaches nothing -/

/-- a name is reached iff it is *equal* to a registered public name: every near miss — other case,
    one character more or less, a prefix, a suffix — is a different string and ends in the
    not-found client fault without any user code running -/
theorem reached_iff_registered (tns : Text) (ms : List Method) (r : Routes)
    (hb : build facts11 tns ms = .ok r) (q : Request) (n : Text)
    (hq : requestKey facts11 tns q = qname tns n) :
    serve facts11 r tns q = .notFound ↔ ∀ m ∈ ms, m.name ≠ n := by
  constructor
  · intro hs m hm hn
    have hk : routeKey tns m = requestKey facts11 tns q := by rw [hq, ← hn]; rfl
    rw [serve_eq facts11 (by decide), build_routes facts11 (by decide) (by decide) tns ms r hb] at hs
    by_cases ha : m.aux = true
    · have : m ∈ auxs tns ms (requestKey facts11 tns q) := mem_auxs.mpr ⟨hm, ha, hk⟩
      split at hs
      · rename_i h0; rw [List.append_eq_nil_iff] at h0; rw [h0.2] at this; simp at this
      · cases hs
    · have : m ∈ prims tns ms (requestKey facts11 tns q) := mem_prims.mpr ⟨hm, by simpa using ha, hk⟩
      split at hs
      · rename_i h0; rw [List.append_eq_nil_iff] at h0; rw [h0.1] at this; simp at this
      · cases hs
  · intro h
    apply serve_unknown facts11 (by decide) (by decide) (by decide) tns ms r hb q
    intro m hm hk
    rw [hq] at hk
    exact h m hm (qname_inj_right tns _ _ hk)

/-- a root tag qualified with another namespace reaches nothing, whatever its local name -/
theorem other_namespace_not_found (tns ns l : Text) (ms : List Method) (r : Routes)
    (hb : build facts11 tns ms = .ok r) (hne : ns ≠ tns) (h1 : '}' ∉ ns) (h2 : '}' ∉ tns) :
    serve facts11 r tns (.tag (some ns) l) = .notFound ∧
    serve facts11 r tns (.null (qname ns l)) = .notFound := by
  constructor <;>
  · apply serve_unknown facts11 (by decide) (by decide) (by decide) tns ms r hb
    intro m _ hk
    have : requestKey facts11 tns (.tag (some ns) l) = qname ns l := rfl
    have e : routeKey tns m = qname ns l := by first | exact hk.trans this | exact hk
    exact hne (qname_inj tns ns _ _ h2 h1 e).1.symm

/-- a dict-document key that carries a namespace of its own is not looked up in that namespace:
    it can only reach a method whose public name is literally that whole string -/
theorem qualified_key_not_found (tns ns l : Text) (ms : List Method) (r : Routes)
    (hb : build facts11 tns ms = .ok r) (hm : ∀ m ∈ ms, m.name.head? ≠ some '{') :
    serve facts11 r tns (.key (qname ns l)) = .notFound :=
  (reached_iff_registered tns ms r hb _ (qname ns l) rfl).mpr
    (fun m hmem he => hm m hmem (by rw [he]; rfl))

/-! ### names that arrive as bytes (msgpack `bin` name field / key) -/

/-- the byte-level naming function is strict UTF-8: it inverts `str.encode`, and whatever it accepts is
    *the* canonical encoding of the text it yields — so it is injective on what it accepts (no overlong
    form, surrogate, stray or truncated sequence is mapped to a "closest" name) -/
theorem bin_naming_canonical (bs : List Nat) (s : Text) :
    decodeName (encodeName s) = some s ∧ (decodeName bs = some s → bs = encodeName s) :=
  ⟨decodeName_encodeName s, decodeName_canonical bs s⟩

/-- a byte string that is not exactly the UTF-8 encoding of a registered public name runs nothing:
    it ends in the not-found fault or (undecodable) in another client fault. `mk` is `.rpcName` or `.key`. -/
theorem bin_name_unregistered (tns : Text) (ms : List Method) (r : Routes) (hb : build facts11 tns ms = .ok r)
    (mk : Text → Request) (hmk : ∀ n, requestKey facts11 tns (mk n) = qname tns n)
    (bs : List Nat) (hne : ∀ m ∈ ms, bs ≠ encodeName m.name) :
    serveWire facts11 r tns mk (.bin bs) = .notFound ∨ serveWire facts11 r tns mk (.bin bs) = .clientFault := by
  cases hs : serveWire facts11 r tns mk (.bin bs) with
  | ran calls =>
    exfalso
    obtain ⟨m, hm, e⟩ := serveWire_ran_exact facts11 (by decide) (by decide) (by decide) (by decide)
      tns ms r hb mk hmk bs calls hs
    exact hne m hm e
  | notFound => exact .inl rfl
  | clientFault => exact .inr rfl
  | stuck =>
    exfalso
    rw [serveWire_bin facts11 (by decide)] at hs
    cases hd : decodeName bs with
    | none => simp [hd] at hs
    | some n => simp only [hd] at hs; rw [serve_eq facts11 (by decide)] at hs; split at hs <;> cases hs
  | wsdl =>
    exfalso
    rw [serveWire_bin facts11 (by decide)] at hs
    cases hd : decodeName bs with
    | none => simp [hd] at hs
    | some n => simp only [hd] at hs; rw [serve_eq facts11 (by decide)] at hs; split at hs <;> cases hs

/-- the UTF-8 encoding of a registered name, sent as `bin`, runs exactly what the text form runs -/
theorem bin_name_registered (tns : Text) (ms : List Method) (r : Routes) (hb : build facts11 tns ms = .ok r)
    (mk : Text → Request) (hmk : ∀ n, requestKey facts11 tns (mk n) = qname tns n)
    (m : Method) (hm : m ∈ ms) (ha : m.aux = false) :
    serveWire facts11 r tns mk (.bin (encodeName m.name)) =
      .ran (m.fid :: (auxs tns ms (routeKey tns m)).map (·.fid)) :=
  serveWire_registered facts11 (by decide) (by decide) (by decide) (by decide) tns ms r hb mk hmk m hm ha

/-! ### the listing order does not matter -/

/-- any reordering of the descriptors (in particular any permutation of the service list) is accepted
    as well and routes every key to the same primary method and the same auxiliaries -/
theorem order_irrelevant (tns : Text) (ms ms' : List Method) (hp : ms.Perm ms') (r : Routes)
    (h : build facts11 tns ms = .ok r) :
    ∃ r', build facts11 tns ms' = .ok r' ∧
      ∀ k, ∃ A', rget r' k = prims tns ms k ++ A' ∧ A'.Perm (auxs tns ms k) ∧
             rget r k = prims tns ms k ++ auxs tns ms k :=
  build_perm facts11 (by decide) (by decide) tns ms ms' hp r h

/-- … as seen by a client: the same function answers, followed by the same auxiliaries -/
theorem order_irrelevant_run (tns : Text) (ms ms' : List Method) (hp : ms.Perm ms') (r r' : Routes)
    (h : build facts11 tns ms = .ok r) (h' : build facts11 tns ms' = .ok r')
    (m : Method) (hm : m ∈ ms) (ha : m.aux = false) (q : Request)
    (hq : requestKey facts11 tns q = routeKey tns m) :
    ∃ as as', serve facts11 r tns q = .ran (m.fid :: as) ∧ serve facts11 r' tns q = .ran (m.fid :: as') ∧
      as.Perm as' :=
  ⟨_, _, registered_runs tns ms r h m hm ha q hq,
   registered_runs tns ms' r' h' m (hp.mem_iff.mp hm) ha q hq,
   (hp.filter _).map _⟩

/-- permuting the service list permutes the descriptors (so the two theorems above apply) -/
theorem services_perm (ss ss' : List ServiceDecl) (hp : ss.Perm ss') (ms : List Method)
    (h : resolveAll facts11 ss = .ok ms) : ∃ ms', resolveAll facts11 ss' = .ok ms' ∧ ms.Perm ms' :=
  resolveAll_perm facts11 ss ss' hp ms h

/-- a rejected application is rejected in every order -/
theorem rejection_order_irrelevant (tns : Text) (ms ms' : List Method) (hp : ms.Perm ms') (e : BuildErr)
    (h : build facts11 tns ms = .error e) : ∃ e', build facts11 tns ms' = .error e' :=
  build_fails_perm facts11 (by decide) (by decide) tns ms ms' hp e h

/-! ### two methods that would answer to the same name are rejected -/

theorem duplicate_rejected (tns : Text) (a b : Method) (l1 l2 l3 ms' : List Method)
    (ha : a.aux = false) (hb : b.aux = false) (hn : a.name = b.name)
    (hp : ms'.Perm (l1 ++ a :: l2 ++ b :: l3)) :
    ∃ e, build facts11 tns ms' = .error e ∧ (e = .methodAlreadyExists ∨ e = .valueError) := by
  have ⟨e, he⟩ := clash_rejected facts11 (by decide) (by decide) tns a b l1 l2 l3 ms' ⟨ha, hb, hn⟩ hp
  exact ⟨e, he, rejection_classes tns ms' e he⟩

/-- … and so are two service methods that want the same interface key ('module.Service.name') -/
theorem interface_key_collision_rejected (tns : Text) (a b : Method) (l1 l2 l3 : List Method)
    (hk : ifaceKey a = ifaceKey b) : ∃ e, build facts11 tns (l1 ++ a :: l2 ++ b :: l3) = .error e := by
  cases h : build facts11 tns (l1 ++ a :: l2 ++ b :: l3) with
  | error e => exact ⟨e, rfl⟩
  | ok r =>
    exact absurd hk (nodup_map_ne ifaceKey a b l1 l2 l3 ((accepted_iff_valid tns _).mp ⟨r, h⟩).ifaces)

/-! ### the public name of a method (decorator) -/

theorem public_name_default (d : MethodDecl) (h1 : d.opName = none) (h2 : d.inMsg = none)
    (h3 : d.func.head? ≠ some '{') : resolveIn facts11 d = .ok (none, d.func) := by
  simp [resolveIn, h1, h2, facts11, splitBrace_plain d.func h3]

theorem public_name_operation (d : MethodDecl) (o : Text) (h1 : d.opName = some o) (h2 : d.inMsg = none)
    (h3 : o.head? ≠ some '{') : resolveIn facts11 d = .ok (none, o) := by
  simp [resolveIn, h1, h2, facts11, splitBrace_plain o h3]

/-- `_in_message_name='{ns}local'`: the method answers to `local` (in the application's namespace) -/
theorem public_name_in_message (d : MethodDecl) (ns l : Text) (h1 : d.opName = none)
    (h2 : d.inMsg = some (qname ns l)) (h3 : '}' ∉ ns) (h4 : qname ns l ≠ d.func) :
    resolveIn facts11 d = .ok (some ns, l) := by
  simp [resolveIn, h1, h2, h4, splitBrace_qname ns l h3]

/-! ### `@mrpc` member methods, mixed service definitions, documents naming several methods -/

/-- a member method `f` of class `T` answers to 'T.f' — or, with `_in_message_name='n'`, to 'T.n' — and is an
    ordinary primary descriptor, so every theorem above applies to it -/
theorem member_name (tns : Text) (c : ClassDecl) (d : MethodDecl) (h1 : d.opName = none)
    (hd : '.' ∉ c.typeName) (hb : c.typeName.head? ≠ some '{') :
    (d.inMsg = none → ∃ m, resolveMember facts11 tns c d = .ok m ∧ m.name = c.typeName ++ '.' :: d.func ∧
        m.member = true ∧ m.aux = false) ∧
    (∀ n, d.inMsg = some n → n.head? ≠ some '{' → firstSeg n ≠ c.typeName →
        ∃ m, resolveMember facts11 tns c d = .ok m ∧ m.name = c.typeName ++ '.' :: n ∧ m.msgName = n) := by
  have hfs : firstSeg (c.typeName ++ '.' :: d.func) = c.typeName := by
    unfold firstSeg
    exact (takeWhile_ne_append '.' c.typeName d.func hd).1
  have hsp : splitBrace (c.typeName ++ '.' :: d.func) = (none, c.typeName ++ '.' :: d.func) :=
    splitBrace_plain _ (by cases hc : c.typeName with
      | nil => simp
      | cons x xs => rw [hc] at hb; simpa using hb)
  constructor
  · intro h2
    simp [resolveMember, h1, h2, hsp, hfs]
  · intro n h2 hn hf
    have hf11 : facts11.memberKeyPrefixed = true := by decide
    simp [resolveMember, h1, h2, splitBrace_plain n hn, hf, hf11]

/-- member methods are routed after the service methods; permuting the service list permutes the descriptors -/
theorem app_perm (tns : Text) (ss ss' : List ServiceDecl) (cs : List ClassDecl) (hp : ss.Perm ss') (ms : List Method)
    (h : resolveApp facts11 tns ss cs = .ok ms) : ∃ ms', resolveApp facts11 tns ss' cs = .ok ms' ∧ ms.Perm ms' := by
  unfold resolveApp at h ⊢
  cases h1 : resolveAll facts11 ss with
  | error e => simp [h1] at h
  | ok a =>
    cases h2 : resolveClasses facts11 tns cs with
    | error e => simp [h1, h2] at h
    | ok mem =>
      simp [h1, h2] at h
      obtain ⟨a', ha', hpa⟩ := resolveAll_perm facts11 ss ss' hp a h1
      exact ⟨a' ++ mem, by simp [ha'], by rw [← h]; exact List.Perm.append_right _ hpa⟩

/-- a service definition that mixes primary and auxiliary methods is refused when the class is created -/
theorem mixed_aux_rejected (s : ServiceDecl) (ms : List Method) (h : resolveMethodsGo facts11 s s.methods = .ok ms)
    (a b : Method) (ha : a ∈ ms) (hb : b ∈ ms) (h1 : a.aux = true) (h2 : b.aux = false) :
    resolveMethods facts11 s s.methods = .error .mixedAux := by
  have e1 : ms.any (·.aux) = true := List.any_eq_true.mpr ⟨a, ha, h1⟩
  have e2 : ms.any (fun m => !m.aux) = true := List.any_eq_true.mpr ⟨b, hb, by simp [h2]⟩
  have hf11 : facts11.mixedAuxRefused = true := by decide
  simp [resolveMethods, h, e1, e2, hf11]

/-- a dict document that names no method or several runs nothing -/
theorem doc_needs_one_name (r : Routes) (tns : Text) (keys : List WireName) (h : keys.length ≠ 1) :
    serveDoc facts11 r tns keys = .clientFault := by
  have hf11 : facts11.docSingleKey = true := by decide
  match keys, h with
  | [], _ => rfl
  | [_], h => simp at h
  | _ :: _ :: _, _ => simp [serveDoc, hf11]

/-! ### HTTP: URL paths and HttpPatterns -/

/-- the pattern that wins matches verb and address completely and has the greatest address among
    those that do -/
theorem pattern_choice_sound (ps : List Pat) (verb path : Text) (p : Pat)
    (h : choosePattern ps verb path = some p) :
    p ∈ ps ∧ p.matches verb path = true ∧ ∀ q ∈ ps, q.matches verb path = true → q.addr ≤ p.addr :=
  choose_some h

/-- no pattern matches: the method is named by the last path segment; otherwise by the endpoint of a
    pattern of a registered primary method -/
theorem pattern_or_path (r : Routes) (verb path : Text) :
    ((∀ p ∈ httpPatterns r, p.matches verb path = false) ∧ httpRequest r verb path = .path path) ∨
    (∃ p ∈ httpPatterns r, p.matches verb path = true ∧ httpRequest r verb path = .endpoint p.endpoint) := by
  unfold httpRequest
  cases h : choosePattern (httpPatterns r) verb path with
  | none => exact .inl ⟨choose_none_iff.mp h, rfl⟩
  | some p => exact .inr ⟨p, (choose_some h).1, (choose_some h).2.1, rfl⟩

/-- a request line answered by an HttpPattern runs the function the pattern was attached to (first),
    then whatever else is registered under that function's public name -/
theorem pattern_runs (tns : Text) (ms : List Method) (r : Routes) (hb : build facts11 tns ms = .ok r)
    (hn : ∀ m ∈ ms, m.name.head? ≠ some '{') (hmsg : ∀ m ∈ ms, m.msgName = m.name) (verb path : Text) (p : Pat)
    (hc : choosePattern (httpPatterns r) verb path = some p) :
    httpRequest r verb path = .endpoint p.endpoint ∧
    ∃ hd tl, hd ∈ ms ∧ hd.fid = p.efid ∧ hd.name = p.endpoint ∧
      rget r (qname tns p.endpoint) = hd :: tl ∧
      serve facts11 r tns (httpRequest r verb path) = .ran (p.efid :: tl.map (·.fid)) :=
  Dispatch.pattern_runs facts11 (by decide) (by decide) (by decide) (by decide) tns ms r hb hn hmsg verb path p hc

/-! ### the transport's decision before dispatch: WSDL request or RPC -/

/-- a request is taken for a request for the interface document exactly when its verb upper-cases to GET and
    either the first name of the query string is (case-insensitively) `wsdl` or the path ends with `.wsdl` —
    a method whose name merely ends in the letters `wsdl` is not shadowed -/
theorem wsdl_request_iff (verb path query : Text) :
    isWsdlRequest facts11 verb path query = true ↔
      verb.map asciiUpper = "GET".toList ∧
      ((qsFirstName query).map asciiLower = "wsdl".toList ∨ ∃ p, path = p ++ ".wsdl".toList) :=
  isWsdlRequest_good facts11 (by decide) (by decide) (by decide) verb path query

/-- a WSDL request runs no user function -/
theorem wsdl_request_runs_nothing (r : Routes) (tns verb path query : Text)
    (h : isWsdlRequest facts11 verb path query = true) : serveHttp facts11 r tns verb path query = .wsdl := by
  simp [serveHttp, h]

/-- URL-path naming, complete: a request line that is not a genuine WSDL request and is answered by no
    HttpPattern, whose last path segment is a registered primary method, runs that method and its
    auxiliaries — whatever the method is called (`wsdl`, `refresh_wsdl`, …) -/
theorem url_path_registered_runs (tns : Text) (ms : List Method) (r : Routes) (hb : build facts11 tns ms = .ok r)
    (m : Method) (hm : m ∈ ms) (ha : m.aux = false) (hn : '/' ∉ m.name) (verb pre query : Text)
    (hw : isWsdlRequest facts11 verb (pre ++ '/' :: m.name) query = false)
    (hp : ∀ p ∈ httpPatterns r, p.matches verb (pre ++ '/' :: m.name) = false) :
    serveHttp facts11 r tns verb (pre ++ '/' :: m.name) query =
      .ran (m.fid :: (auxs tns ms (routeKey tns m)).map (·.fid)) := by
  rw [serveHttp_rpc facts11 r tns verb _ query hw]
  have : httpRequest r verb (pre ++ '/' :: m.name) = .path (pre ++ '/' :: m.name) := by
    simp [httpRequest, choose_none_iff.mpr hp]
  rw [this]
  exact registered_runs tns ms r hb m hm ha _ ((naming tns m.name).2.2.2.2 pre hn)

/-- … and an unregistered last segment gets the not-found fault (404), never the interface document -/
theorem url_path_unregistered_not_found (tns : Text) (ms : List Method) (r : Routes)
    (hb : build facts11 tns ms = .ok r) (n verb pre query : Text) (hn : '/' ∉ n)
    (hu : ∀ m ∈ ms, m.name ≠ n)
    (hw : isWsdlRequest facts11 verb (pre ++ '/' :: n) query = false)
    (hp : ∀ p ∈ httpPatterns r, p.matches verb (pre ++ '/' :: n) = false) :
    serveHttp facts11 r tns verb (pre ++ '/' :: n) query = .notFound := by
  rw [serveHttp_rpc facts11 r tns verb _ query hw]
  have : httpRequest r verb (pre ++ '/' :: n) = .path (pre ++ '/' :: n) := by
    simp [httpRequest, choose_none_iff.mpr hp]
  rw [this]
  exact (reached_iff_registered tns ms r hb _ n ((naming tns n).2.2.2.2 pre hn)).mpr hu

/-! ### address-less HttpPatterns -/

/-- an HttpPattern declared without an address answers to the method's PUBLIC name (the in-message name),
    never to the python function or operation name -/
theorem pattern_default_is_public_name (s : ServiceDecl) (d : MethodDecl) (m : Method)
    (h : resolveMethod facts11 s d = .ok m) :
    m.patterns = d.patterns.map (fun va => (va.1, va.2.getD m.name)) := by
  unfold resolveMethod at h
  cases hr : resolveIn facts11 d with
  | error e => simp [hr] at h
  | ok p =>
    obtain ⟨inNs, name⟩ := p
    simp only [hr] at h
    cases h
    exact fillPatterns_default facts11 (by decide) d name d.patterns

/-- `url_path_unregistered_not_found` over pattern defaults: when every collected pattern carries a plain
    address equal to '/' + a registered public name (which is what address-less patterns get), a GET for
    '/n' with `n` unregistered - e.g. the python function name of a renamed method - reaches nothing -/
theorem default_patterns_unregistered_not_found (tns : Text) (ms : List Method) (r : Routes)
    (hb : build facts11 tns ms = .ok r) (n verb query : Text) (hn : '/' ∉ n)
    (hu : ∀ m ∈ ms, m.name ≠ n)
    (hd : ∀ p ∈ httpPatterns r, ∃ m ∈ ms, p.addr = '/' :: m.name ∧ ∀ c ∈ p.addr, isOpener c = false)
    (hw : isWsdlRequest facts11 verb ('/' :: n) query = false) :
    serveHttp facts11 r tns verb ('/' :: n) query = .notFound := by
  apply url_path_unregistered_not_found tns ms r hb n verb [] query hn hu hw
  intro p hp
  obtain ⟨m, hm, ha, hc⟩ := hd p hp
  cases hmt : p.matches verb ([] ++ '/' :: n) with
  | false => rfl
  | true =>
    exfalso
    have := matches_plain hc hmt
    simp only [List.nil_append, withSlash] at this
    rw [ha] at this
    exact hu m hm (List.cons.inj this).2.symm

/-! ### a protocol instance serves the application it was given to first, and no other -/

/-- whatever sequence of applications a protocol instance is handed to (as in- or out-protocol of an
    `Application`, by `set_out_protocol`): if no call was refused, all of them were the SAME application
    object - so `get_call_handles`, which looks the name up in the bound application's interface, can never
    run a method registered only in another application (equal tns and name do not make two applications one) -/
theorem protocol_serves_one_application (a : Nat) (as : List Nat) (st : Option Nat)
    (h : setApps facts11 none (a :: as) = some st) : st = some a ∧ ∀ x ∈ as, x = a := by
  simp only [setApps, setApp] at h
  exact setApps_bound facts11 (by decide) a as st h

/-! ### SOAP: what the header contains never selects the method -/

/-- Soap11 and Soap12: the request is named by the first child of the Envelope's own Body child; the blocks
    before it (a Header quoting or relaying whole messages with Body / Header / Envelope elements of their
    own, any depth) and after it play no role -/
theorem soap_header_never_selects (soapNs : Text) (pre post rest : List Xml) (m : Xml)
    (hpre : ∀ x ∈ pre, x.isTag soapNs "Body".toList = false) (r : Routes) (tns : Text) :
    soapMethod facts11 soapNs (.node (some soapNs) "Envelope".toList
        (pre ++ .node (some soapNs) "Body".toList (m :: rest) :: post)) = some (m.ns, m.loc) ∧
    serveSoap facts11 r tns soapNs (.node (some soapNs) "Envelope".toList
        (pre ++ .node (some soapNs) "Body".toList (m :: rest) :: post)) = serve facts11 r tns (.tag m.ns m.loc) := by
  have h := soapMethod_direct facts11 (by decide) soapNs pre post rest m (some soapNs) rfl hpre
  exact ⟨h, serveSoap_of_method facts11 r tns soapNs _ _ _ h⟩

/-- an envelope without a Body child of its own (or with an empty one) runs nothing, even if a Body sits
    somewhere inside the Header -/
theorem soap_no_direct_body (soapNs : Text) (cs : List Xml) (r : Routes) (tns : Text)
    (h : ∀ x ∈ cs, x.isTag soapNs "Body".toList = false) :
    serveSoap facts11 r tns soapNs (.node (some soapNs) "Envelope".toList cs) = .clientFault := by
  exact serveSoap_no_body facts11 (by decide) soapNs cs r tns h

/-- FULL statement (needs `facts11.patternDup = .reject`, which the current tree does not have):
    the chosen pattern never depends on the order in which patterns were collected.
    Proved part: it does not whenever no two patterns that match the request share an address
    (the implementation keeps patterns in a `set` and sorts by address only, so ties are resolved by
    set iteration order). -/
theorem pattern_choice_order_free_partial (ps ps' : List Pat) (hp : ps.Perm ps') (verb path : Text)
    (hu : ∀ p ∈ ps, ∀ q ∈ ps, p.matches verb path = true → q.matches verb path = true →
      p.addr = q.addr → p = q) :
    choosePattern ps verb path = choosePattern ps' verb path :=
  choose_perm hp verb path hu

/-- an address without placeholders matches exactly itself (no prefix, suffix or case variant) -/
theorem literal_address_exact (s path : Text) : addrMatches (lits s) path = true ↔ path = s :=
  addrMatches_lits s path

/-! ### witnesses of the behaviour switches: what goes wrong when a switch measures its bad value -/

/-- D32 (`val.insert(method, 0)`): an auxiliary service listed before the primary one makes the
    construction fail with TypeError, the other order is accepted -/
theorem aux_first_witness (h : facts11.auxFirst = .typeError) (a x : Method)
    (ha : a.aux = false) (hx : x.aux = true) (hn : x.name = a.name) (hk : ifaceKey a ≠ ifaceKey x)
    (ham : a.member = false) (hxm : x.member = false)
    (hi : internalKey a ≠ internalKey x) (hc : (classKeys [] a).Nodup) :
    build facts11 [] [x, a] = .error .typeError ∧ ∃ r, build facts11 [] [a, x] = .ok r :=
  aux_first_witness_gen facts11 h a x ha hx hn hk ham hxm hi hc

/-- with the silent skip, of two methods with one interface key the first listed wins -/
theorem iface_skip_witness (h : facts11.ifaceDup = .silentSkip) (a b : Method)
    (hk : ifaceKey a = ifaceKey b) (st : St) (hst : processMethod facts11 [] ⟨[], []⟩ a = .ok st) :
    processMethod facts11 [] st b = .ok st :=
  iface_skip_witness_gen facts11 h a b hk st hst

/-! ### non-vacuity -/


/-- an accepted application with a primary, a case variant and an auxiliary; the auxiliary is listed first -/
example : (match build facts11 "tns".toList [mX, mA, mB] with
    | .ok r => (rget r "{tns}foo".toList).map (·.fid) | .error _ => []) = [1, 3] := by decide
example : (match build facts11 "tns".toList [mX, mA, mB] with
    | .ok r => serve facts11 r "tns".toList (.key "foo".toList) | .error _ => .stuck) = .ran [1, 3] := by decide
example : (match build facts11 "tns".toList [mX, mA, mB] with
    | .ok r => serve facts11 r "tns".toList (.key "fOo".toList) | .error _ => .stuck) = .notFound := by decide
example : (match build facts11 "tns".toList [mX, mA, mB] with
    | .ok r => serve facts11 r "tns".toList (.tag (some "other".toList) "foo".toList) | .error _ => .stuck) = .notFound := by decide
/-- two primaries for one name (the in-messages live in different namespaces, so only `process_method` sees it) -/
example : (match build facts11 "tns".toList [mA, mC] with | .ok _ => none | .error e => some e) = some .valueError := by decide
example : (match build facts11 "tns".toList [mC, mX, mA] with | .ok _ => none | .error e => some e) = some .valueError := by decide
example : Clash mA mC := by decide
example : requestKey facts11 "tns".toList (.path "/x/y/foo".toList) = "{tns}foo".toList := by decide
example : choosePattern [⟨none, "/a/<x>".toList, "p".toList, 1⟩, ⟨none, "/a/b".toList, "q".toList, 2⟩]
    "GET".toList "/a/b".toList = some ⟨none, "/a/b".toList, "q".toList, 2⟩ := by decide
example : addrMatches (compileAddr "/a/<x>/c".toList) "/a/zz/c".toList = true ∧
          addrMatches (compileAddr "/a/<x>/c".toList) "/a/z/z/c".toList = false := by decide

/-- undecodable / non-canonical byte names: invalid byte, stray continuation, overlong 2- and 3-byte forms,
    CESU surrogate, above U+10FFFF, truncated sequence -/
example : decodeName [0x65, 0x63, 0x68, 0x6F, 0xFF] = none ∧ decodeName [0x80, 0x65] = none ∧
    decodeName [0xC1, 0xA5, 0x63] = none ∧ decodeName [0xE0, 0x81, 0xA5] = none ∧
    decodeName [0xED, 0xA0, 0x80] = none ∧ decodeName [0xF4, 0x90, 0x80, 0x80] = none ∧
    decodeName [0x65, 0xC3] = none := by decide
example : decodeName [0x65, 0xC3, 0xA9, 0xE2, 0x82, 0xAC, 0xF0, 0x9F, 0x98, 0x80] = some "eé€😀".toList := by decide
example : encodeName "eé€😀".toList = [0x65, 0xC3, 0xA9, 0xE2, 0x82, 0xAC, 0xF0, 0x9F, 0x98, 0x80] := by decide
example : (match build facts11 "tns".toList [mX, mA, mB] with
    | .ok r => (serveWire facts11 r "tns".toList .rpcName (.bin [0x66, 0x6F, 0x6F]),
                serveWire facts11 r "tns".toList .rpcName (.bin [0x66, 0x6F, 0x6F, 0xFF]),
                serveWire facts11 r "tns".toList .key (.bin [0x66, 0x6F, 0x6F, 0x00]))
    | .error _ => (.stuck, .stuck, .stuck)) = (.ran [1, 3], .clientFault, .notFound) := by decide

example : isWsdlRequest facts11 "GET".toList "/svc/refresh_wsdl".toList [] = false ∧
          isWsdlRequest facts11 "GET".toList "/svc/wsdl".toList [] = false ∧
          isWsdlRequest facts11 "GET".toList "/svc/xwsdl".toList "a=1&wsdl".toList = false ∧
          isWsdlRequest facts11 "get".toList "/svc.wsdl".toList [] = true ∧
          isWsdlRequest facts11 "GET".toList "/svc/".toList "WSDL=1&x=2".toList = true ∧
          isWsdlRequest facts11 "HEAD".toList "/svc.wsdl".toList "wsdl".toList = false := by decide

/-- member methods: `Doc.rename` by default, `Doc.doit` for `_in_message_name='doit'` (message name `doit`) -/
example : (match resolveClasses facts11 "tns".toList [docDecl] with
    | .ok ms => ms.map (fun m => (m.name, m.msgName, ifaceKey m)) | .error _ => []) =
    [("Doc.rename".toList, "Doc.rename".toList, "tns.Doc.rename".toList),
     ("Doc.doit".toList, "doit".toList, "tns.Doc.doit".toList)] := by decide
example : (match resolveClasses facts11 "tns".toList [docDecl] with
    | .ok mem => (match build facts11 "tns".toList ([mX, mA] ++ mem) with
        | .ok r => serve facts11 r "tns".toList (.key "Doc.rename".toList) | .error _ => .stuck)
    | .error _ => .stuck) = .ran [5] := by decide

/-- a relayed message inside the Header naming `wipe`; the Body names `echo` -/
example : soapMethod facts11 "E".toList (.node (some "E".toList) "Envelope".toList
    [.node (some "E".toList) "Header".toList [.node (some "t".toList) "relay".toList
        [.node (some "E".toList) "Body".toList [.node (some "t".toList) "wipe".toList []]]],
     .node (some "E".toList) "Body".toList [.node (some "t".toList) "echo".toList []]]) =
    some (some "t".toList, "echo".toList) := by decide
example : fillPatterns facts11 { fid := 1, func := "get_thing".toList, inMsg := some "fetch".toList } "fetch".toList
    [(some ["GET".toList], none)] = [(some ["GET".toList], "fetch".toList)] := by decide

example : setApps facts11 none [7, 7, 7] = some (some 7) ∧ setApps facts11 none [7, 8] = none := by decide

end SpyneModel.Props.C11
