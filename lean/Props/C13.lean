/-
  C13 — WSGI response protocol and request-size limit.
  Property theorems only. Every theorem is about the model `Wsgi.handle` instantiated with the facts
  regenerated from /repo (`Generated.facts13`); the side conditions on the facts are discharged by
  `decide`, so a theorem stops compiling when the code stops having the behaviour it needs.

  `handle facts13 cfg req stream abort : List Ev` is the trace of one request:
    cfg    — chunked / max_content_length / block_length, any values
    req    — ?wsdl or an rpc request: protocol family, CONTENT_LENGTH text (absent, empty, any text),
             length of the request document, what the complete document leads to (malformed, unknown
             method, validation error, each fault class raised by user code, success with a plain /
             generator / user-supplied lazy or sized out_string, serialisation failure), and transport-level
             listeners that replace the outgoing stream: `wsgi_return` (any new chunking, sized or lazy)
             and `wsgi_exception` (any new chunk list); a synchronous auxiliary method bound to the
             called one (ok / Fault / non-Fault in its user code / unserialisable response, with or
             without `process_exceptions`); response headers the user function sets (str / list / tuple)
    stream — an adversarial `wsgi.input`: the i-th read(n) returns min n aᵢ bytes, then EOF
    abort  — `none`: the server takes the whole body; `some k`: it stops after k chunks; either way it
             then calls close() on the iterable
  All of these are universally quantified, without bounds, in every theorem below.
-/
import Proofs.Wsgi
import SpyneModel.Generated.Facts13
namespace SpyneModel.Props.C13
open SpyneModel SpyneModel.Wsgi SpyneModel.Generated

/-! ### the facts of /repo (T1) -/

/-- the ten behaviour switches measured on /repo have their good values (the last two: the auxiliary
    run after `start_response` is guarded against every exception, in `handle_rpc` and `handle_error`): the context is finalised by
    the response iterable (rpc and ?wsdl), chunks are joined as bytes, a non-numeric CONTENT_LENGTH
    and an empty Soap11 body are faults, `next(g)` on a generator result is guarded, and the
    `wsgi_return` / `wsgi_exception` events fire before the transport measures the outgoing stream -/
theorem facts_good : facts13.Good := by decide

/-- every status the transport can pick by itself is a three-digit HTTP status -/
theorem builtin_statuses_are_three_digit (fc : FaultClass) :
    (100 ≤ facts13.statusPlain fc ∧ facts13.statusPlain fc ≤ 599) ∧
    (100 ≤ facts13.statusSoap fc ∧ facts13.statusSoap fc ≤ 599) ∧
    (100 ≤ facts13.preRejectStatus ∧ facts13.preRejectStatus ≤ 599) ∧
    (100 ≤ facts13.okStatus ∧ facts13.okStatus ≤ 599) ∧
    (100 ≤ facts13.wsdlOkStatus ∧ facts13.wsdlOkStatus ≤ 599) ∧
    (100 ≤ facts13.wsdlUnavailableStatus ∧ facts13.wsdlUnavailableStatus ≤ 599) ∧
    (100 ≤ facts13.wsdlErrorStatus ∧ facts13.wsdlErrorStatus ≤ 599) := by
  cases fc <;> decide

/-- the request-too-long fault has a status of its own outside Soap11 (413) -/
theorem too_long_status : facts13.statusPlain .tooLong = 413 := by decide

/-! ### PEP 3333: start_response, body chunks, Content-Length -/

/-- no exception escapes the callable, whatever the request, configuration, stream and abort point -/
theorem never_crashes (cfg : Cfg) (req : Req) (stream : List Nat) (abort : Option Nat) :
    ∀ e ∈ handle facts13 cfg req stream abort, isCrash e = false := by
  obtain ⟨pre, o, h, _, _, _⟩ := handle_answered facts13 cfg req stream abort facts_good
  exact h.no_crash

/-- `start_response` is called exactly once -/
theorem start_response_exactly_once (cfg : Cfg) (req : Req) (stream : List Nat) (abort : Option Nat) :
    List.countP isStart (handle facts13 cfg req stream abort) = 1 := by
  obtain ⟨pre, o, h, _, _, _⟩ := handle_answered facts13 cfg req stream abort facts_good
  exact h.start_once

/-- ... and before any body chunk -/
theorem start_response_before_body (cfg : Cfg) (req : Req) (stream : List Nat) (abort : Option Nat) :
    noneBefore isChunk isStart (handle facts13 cfg req stream abort) = true := by
  obtain ⟨pre, o, h, _, _, _⟩ := handle_answered facts13 cfg req stream abort facts_good
  exact h.start_before_chunks

/-- the status is a three-digit code: it is one of the built-in ones (previous section) or one the
    user function set itself -/
theorem status_line (cfg : Cfg) (req : Req) (stream : List Nat) (abort : Option Nat)
    (hp : ∀ p ∈ req.presets, 100 ≤ p ∧ p ≤ 599)
    (s : Nat) (f : Option FaultClass) (c : Option Nat)
    (hm : Ev.startResponse s f c ∈ handle facts13 cfg req stream abort) : 100 ≤ s ∧ s ≤ 599 := by
  obtain ⟨pre, o, h, hl, hr, hw⟩ := handle_answered facts13 cfg req stream abort facts_good
  have hs : s = o.status := h.start_of s f c hm
  subst hs
  cases hwk : req.wsdl with
  | some k =>
    obtain ⟨_, rfl⟩ := hw k hwk
    have := builtin_statuses_are_three_digit .client
    cases k <;> simp only [wsdlOut, atServer] <;> omega
  | none =>
    obtain ⟨_, ⟨o', ho, rfl⟩, _, _⟩ := hr hwk
    show 100 ≤ o'.status ∧ o'.status ≤ 599
    rcases process_status facts13 cfg req stream o' ho with ⟨fc, h1⟩ | ⟨fc, h1⟩ | h1 | h1 | h1
    · rw [h1]; exact (builtin_statuses_are_three_digit fc).1
    · rw [h1]; exact (builtin_statuses_are_three_digit fc).2.1
    · rw [h1]; exact (builtin_statuses_are_three_digit .client).2.2.1
    · rw [h1]; exact (builtin_statuses_are_three_digit .client).2.2.2.1
    · exact hp _ h1

/-- all body chunks are bytes (the ?wsdl error answers included) -/
theorem body_chunks_are_bytes (cfg : Cfg) (req : Req) (stream : List Nat) (abort : Option Nat)
    (n : Nat) (b : Bool) (hm : Ev.chunk n b ∈ handle facts13 cfg req stream abort) : b = true := by
  obtain ⟨pre, o, h, hl, hr, hw⟩ := handle_answered facts13 cfg req stream abort facts_good
  have hc := h.chunks_of n b hm
  cases hwk : req.wsdl with
  | some k =>
    obtain ⟨_, rfl⟩ := hw k hwk
    have hb : facts13.wsdlErrBytes = true := by decide
    cases k <;> simp [wsdlOut, atServer, hb] at hc <;> exact hc.2
  | none => exact (hr hwk).2.2.2 _ hc

/-- a Content-Length header, when sent, equals the number of body bytes: the delivered bytes never
    exceed it, and reach it exactly when the server takes the whole body — for every request, including
    those whose `wsgi_return` / `wsgi_exception` listener replaced the outgoing stream -/
theorem content_length_exact (cfg : Cfg) (req : Req) (stream : List Nat) (abort : Option Nat)
    (s : Nat) (f : Option FaultClass) (n : Nat)
    (hm : Ev.startResponse s f (some n) ∈ handle facts13 cfg req stream abort) :
    bodyBytes (handle facts13 cfg req stream abort) ≤ n ∧
    (abort = none → bodyBytes (handle facts13 cfg req stream abort) = n) := by
  obtain ⟨pre, o, h, _, _, _⟩ := handle_answered facts13 cfg req stream abort facts_good
  exact h.content_length s f n hm

/-- what a `wsgi_return` listener put in place of the outgoing stream is what the transport joins,
    measures and sends -/
theorem rewritten_response_is_measured (cfg : Cfg) (req : Req) (r : Resp) (w : Rewrite)
    (h : req.onReturn = some w) :
    withReturnListener facts13 cfg req r = successOut facts13 cfg { r with chunks := w.chunks, sized := w.sized } := by
  have hb : facts13.returnEventBeforeLength = true := by decide
  simp [withReturnListener, h, hb]

/-- what a `wsgi_exception` listener put in place of the fault document is what is measured and sent -/
theorem rewritten_fault_is_measured (req : Req) (preset : Option Nat) (fc : FaultClass) (w : List Nat)
    (h : req.onException = some w) :
    ∃ o, errorOut facts13 req preset fc = .out o ∧ o.cl = some (sum w) ∧ o.chunks = w.map (fun n => (n, true)) := by
  have hb : facts13.errorEventBeforeLength = true := by decide
  exact ⟨_, rfl, by simp [errLen, errMeasured, h, hb], by simp [errBody, h]⟩

/-- why the two event facts matter (any `F`): with `wsgi_return` fired after the length computation a
    listener that changes the size of the stream makes the announced length wrong -/
theorem return_event_after_length_breaks_content_length (F : Facts13)
    (hb : F.returnEventBeforeLength = false) (ht : F.closeTiming = .afterBody) (hj : F.joinKind = .bytes) :
    ∃ (cfg : Cfg) (req : Req) (n : Nat), Ev.startResponse F.okStatus none (some n) ∈ handle F cfg req [] none ∧
      bodyBytes (handle F cfg req [] none) ≠ n :=
  ⟨⟨false, 100, 7⟩,
   { wsdl := none, soapOut := false, soapIn := false, preReject := false, readsBody := false,
     contentLength := none, docLen := 0, faultLen := 9,
     intended := .success ⟨none, .notGen, false, .server, false, [5], true⟩, onReturn := some ⟨[2], true⟩, onException := none,
     aux := .none, auxOnErrors := false, userHeaders := [],
     closeListener := .none, serverSkipsClose := false, faultBody := none, faultIter := .list },
   5, by simp [handle, process, intendedResult, afterUser, respond, withAux, withReturnListener, successOut, hb, ht, hj, finish,
     deliver, auxEvs, hdrEvs, hdrEvsFrom, sum, chunkEvs, taken, finalEvs, finalOnce, finalRaises, rpcFinal,
     Result.atServer, atServer, bodyBytes]⟩

/-- with `chunked=False` every rpc answer carries a Content-Length -/
theorem unchunked_sends_content_length (cfg : Cfg) (req : Req) (stream : List Nat) (abort : Option Nat)
    (hc : cfg.chunked = false) (hw : req.wsdl = none) :
    ∃ s f n, Ev.startResponse s f (some n) ∈ handle facts13 cfg req stream abort := by
  obtain ⟨pre, o, h, hl, hr, _⟩ := handle_answered facts13 cfg req stream abort facts_good
  obtain ⟨_, ⟨o', ho, rfl⟩, _, _⟩ := hr hw
  obtain ⟨n, hn⟩ := process_unchunked_cl facts13 cfg req stream o' facts_good hc ho
  refine ⟨o'.status, o'.fault, n, ?_⟩
  rw [h.eq, deliver_after _ _ h.timing h.noEscape h.once]
  simp [atServer, hn]

/-- a server that stops after `k` chunks is handed at most `k` chunks -/
theorem abort_respected (cfg : Cfg) (req : Req) (stream : List Nat) (k : Nat) :
    List.countP isChunk (handle facts13 cfg req stream (some k)) ≤ k := by
  obtain ⟨pre, o, h, _, _, _⟩ := handle_answered facts13 cfg req stream (some k) facts_good
  exact h.abort_respected k

/-- "string headers": every `(name, value)` pair given to `start_response` that stems from a header the
    user function stored — as a string, a list or a tuple of strings — carries a native string
    (`_gen_http_headers` expands lists and tuples alike; Content-Type / Content-Length are strings by
    construction) -/
theorem headers_are_strings (cfg : Cfg) (req : Req) (stream : List Nat) (abort : Option Nat)
    (k : Nat) (b : Bool) (h : Ev.hdr k b ∈ handle facts13 cfg req stream abort) : b = true :=
  hdr_str facts13 (by decide) cfg req stream abort k b h

/-- a header with a tuple (or list) of n values reaches `start_response` as n string pairs -/
theorem multi_valued_headers_expand (k n : Nat) :
    hdrPairs facts13 k (.tuple n) = List.replicate n (.hdr k true) ∧
    hdrPairs facts13 k (.list n) = List.replicate n (.hdr k true) := by
  have hb : facts13.headerTuplesExpanded = true := by decide
  simp [hdrPairs, hb]

/-! ### auxiliary methods -/

/-- a synchronous auxiliary method runs at most once, after `start_response` and before the callable
    hands its iterable over; whatever it does — Fault, any other exception in its user code, a response
    that cannot be serialised — the theorems of this file hold unchanged (they quantify over `req.aux`):
    in particular `never_crashes`, `start_response_exactly_once`, `context_closed_once_after_body` -/
theorem aux_runs_between_start_response_and_handover (cfg : Cfg) (req : Req) (stream : List Nat)
    (abort : Option Nat) :
    List.countP isAux (handle facts13 cfg req stream abort) ≤ 1 ∧
    noneBefore isAux isStart (handle facts13 cfg req stream abort) = true ∧
    noneAfter isAux isReturned (handle facts13 cfg req stream abort) = true := by
  obtain ⟨pre, o, h, _, _, _⟩ := handle_answered facts13 cfg req stream abort facts_good
  exact h.aux_between

/-- why the guard facts matter (any `F`): with a guard that lets a non-Fault exception through, an
    auxiliary method whose response cannot be serialised makes the callable raise after
    `start_response`: nothing is handed over and the request context is never closed -/
theorem aux_guard_that_is_not_catch_all_breaks_the_response (F : Facts13) (hg : F.auxGuardOk = false)
    (hj : F.joinKind = .bytes) :
    ∃ (cfg : Cfg) (req : Req),
      handle F cfg req [] none = [.user, .startResponse F.okStatus none (some 5), .aux, .crash "TypeError"] :=
  ⟨⟨false, 100, 7⟩,
   { wsdl := none, soapOut := false, soapIn := false, preReject := false, readsBody := false,
     contentLength := none, docLen := 0, faultLen := 9,
     intended := .success ⟨none, .notGen, false, .server, false, [5], true⟩, onReturn := none, onException := none,
     aux := .serFail, auxOnErrors := false, userHeaders := [],
     closeListener := .none, serverSkipsClose := false, faultBody := none, faultIter := .list },
   by simp [handle, process, intendedResult, afterUser, respond, withAux, withReturnListener, successOut, hg, hj, finish,
     deliver, auxEvs, hdrEvs, hdrEvsFrom, sum, Result.atServer, atServer]⟩

/-- a failure while the response is being built (a generator body failing after its first yield, an
    unserialisable value, a failing MTOM packaging) is answered through `handle_error` with the class of
    what was raised (a Fault keeps its class, anything else is a Server fault); the status chosen so far
    is dropped, the fault decides -/
theorem late_failure_is_a_fault_of_its_class (cfg : Cfg) (req : Req) (r : Resp)
    (hs : r.serializeFails = true) (hg : r.gen = .notGen ∨ r.gen = .yields) :
    afterUser facts13 cfg req r =
      withAux req req.auxOnErrors true (errorOut facts13 req none r.serFailClass) := by
  have h1 : facts13.lateErrorKeepsOkStatus = false := by decide
  have h2 : facts13.auxGuardError = true := by decide
  rcases hg with hg | hg <;> simp [afterUser, respond, lateError, hs, hg, h1, h2]

/-- a value the *lazy* out protocol cannot write (JsonDocument & co. dump when their out_string is read):
    with `chunked=False` the stream is read — joined — where the failure can still be answered, for
    generator and ordinary methods alike: a Server fault through `handle_error`, never an exception out
    of the callable -/
theorem dump_failure_when_unchunked_is_a_fault (cfg : Cfg) (req : Req) (r : Resp)
    (hs : r.serializeFails = false) (hd : r.dumpFails = true) (hc : cfg.chunked = false) :
    respond facts13 cfg req r = withAux req req.auxOnErrors true (errorOut facts13 req none .server) := by
  have h1 : facts13.lateErrorKeepsOkStatus = false := by decide
  have h2 : facts13.auxGuardError = true := by decide
  have h3 : facts13.lateJoinGuard = .all := by decide
  simp [respond, lateError, joinGuarded, hs, hd, hc, h1, h2, h3]

/-- why `lateJoinGuard` matters (any `F`): if only generator methods are joined in the guarded region, an
    ordinary method with such a value makes the callable raise before `start_response` -/
theorem unguarded_join_escapes (F : Facts13) (hg : F.lateJoinGuard = .generatorOnly) (cfg : Cfg) (req : Req) (r : Resp)
    (hs : r.serializeFails = false) (hd : r.dumpFails = true) (hc : cfg.chunked = false) (hn : r.gen = .notGen) :
    afterUser F cfg req r = .crash "TypeError" := by
  simp [afterUser, respond, joinGuarded, hs, hd, hc, hn, hg]

/-! ### the request-size limit -/

/-- at most `max_content_length` bytes are ever read from the input stream — for every
    CONTENT_LENGTH text, every block length and every behaviour of the stream -/
theorem bounded_read (cfg : Cfg) (req : Req) (stream : List Nat) (abort : Option Nat) :
    bytesGot (handle facts13 cfg req stream abort) ≤ cfg.maxLen := by
  have := readBody_bounded cfg req.contentLength stream
  rcases bytesGot_handle facts13 cfg req stream abort with h | h <;> omega

/-- ... and never more than the declared length -/
theorem read_within_declared (cfg : Cfg) (req : Req) (stream : List Nat) (abort : Option Nat) (d : Int)
    (hd : declaredLength cfg req.contentLength = some d) :
    bytesGot (handle facts13 cfg req stream abort) ≤ d.toNat := by
  have := readBody_within_declared cfg req.contentLength stream d hd
  rcases bytesGot_handle facts13 cfg req stream abort with h | h <;> omega

/-- every `read` asks for at most `block_length` bytes (and the stream cannot return more) -/
theorem reads_are_blockwise (cfg : Cfg) (req : Req) (stream : List Nat) (abort : Option Nat) (a g : Nat)
    (h : Ev.read a g ∈ handle facts13 cfg req stream abort) : a ≤ cfg.blockLen ∧ g ≤ a :=
  reads_ok facts13 cfg req stream abort a g h

/-- the reader stops with the stream (no busy loop, even with `block_length = 0`) -/
theorem reader_terminates (cfg : Cfg) (req : Req) (stream : List Nat) (abort : Option Nat) :
    List.countP isRead (handle facts13 cfg req stream abort) ≤ stream.length + 1 :=
  reads_le_stream facts13 cfg req stream abort

/-- the input is read before the user function runs and before `start_response` -/
theorem reads_precede_user_code_and_response (cfg : Cfg) (req : Req) (stream : List Nat) (abort : Option Nat) :
    noneAfter isRead (fun e => isUser e || isStart e) (handle facts13 cfg req stream abort) = true :=
  reads_first facts13 cfg req stream abort

/-- the request-too-long decision is taken on the declared length alone: the check inside the read
    loop (`bytes_to_read + bytes_read > max_content_length`) can never fire -/
theorem too_long_iff_declared_over_limit (cfg : Cfg) (cl : Option Text) (stream : List Nat) :
    (readBody cfg cl stream).2 = .tooLong ↔ ∃ d, declaredLength cfg cl = some d ∧ d > (cfg.maxLen : Int) :=
  readBody_tooLong_iff cfg cl stream

/-
  FULL STATEMENT of the refusal clause (not provable, see the witness below):
    for a request whose protocol reads the body,
      (declared length > max_content_length  ∨  bytes the stream holds > max_content_length)
      → the answer is the request-too-long fault ∧ no user code runs.
  Proved (`_partial`): the first disjunct — a declared length over the limit. Missing: a body that is
  longer than the limit while CONTENT_LENGTH is absent. The reader then takes the first
  max_content_length bytes and processes them as if they were the request
  (`undeclared_overlong_body_is_truncated`); reported as known finding
  `toolong-not-refused:undeclared`.
-/
/-- a body declared longer than `max_content_length` is refused with the request-too-long fault:
    nothing is read, the user function is not entered, and the trace is exactly the fault answer -/
theorem too_long_refused_partial (cfg : Cfg) (req : Req) (stream : List Nat) (abort : Option Nat) (d : Int)
    (hw : req.wsdl = none) (hp : req.preReject = false) (hb : req.readsBody = true)
    (hd : declaredLength cfg req.contentLength = some d) (h : d > (cfg.maxLen : Int)) :
    handle facts13 cfg req stream abort =
      .startResponse (faultStatus facts13 req .tooLong) (some .tooLong) (some (sum (errMeasured req))) :: .returned ::
        (chunkEvs (taken abort ((errMeasured req).map (fun n => (n, true)))) ++ rpcFinal req.closeListener) := by
  have ht : facts13.closeTiming = .afterBody := by decide
  have he : facts13.errorEventBeforeLength = true := by decide
  have hf : facts13.finalizeClearedFirst = true := by decide
  have hm := errBody_eq_measured facts13 req (Good.errMat facts_good)
  simp [handle, hw, process_declared_over facts13 cfg req stream d hp hb hd h, finish, errorOut, deliver, ht,
    finalEvs, finalOnce, errLen, he, hf, hm, hdrEvs, auxEvs, Result.atServer, atServer]

/-- consequence: no read, no user code -/
theorem too_long_reads_nothing_runs_nothing (cfg : Cfg) (req : Req) (stream : List Nat) (abort : Option Nat) (d : Int)
    (hw : req.wsdl = none) (hp : req.preReject = false) (hb : req.readsBody = true)
    (hd : declaredLength cfg req.contentLength = some d) (h : d > (cfg.maxLen : Int)) :
    ∀ e ∈ handle facts13 cfg req stream abort, isRead e = false ∧ isUser e = false := by
  rw [too_long_refused_partial cfg req stream abort d hw hp hb hd h]
  intro e he
  simp only [List.mem_cons, List.mem_append] at he
  rcases he with rfl | rfl | he | he
  · exact ⟨rfl, rfl⟩
  · exact ⟨rfl, rfl⟩
  · obtain ⟨n, b, rfl, _⟩ := mem_chunkEvs he; exact ⟨rfl, rfl⟩
  · cases hl : req.closeListener <;> simp [hl, rpcFinal] at he <;>
      first
        | (rcases he with rfl | rfl | rfl <;> exact ⟨rfl, rfl⟩)
        | (rcases he with rfl | rfl <;> exact ⟨rfl, rfl⟩)

/-- witness that the full refusal clause fails: no CONTENT_LENGTH, 15 bytes on the stream, a limit of
    10 bytes, a 10-byte document — the first 10 bytes are read and the user function runs -/
theorem undeclared_overlong_body_is_truncated :
    ∃ (cfg : Cfg) (req : Req) (stream : List Nat),
      req.contentLength = none ∧ req.readsBody = true ∧ sum stream > cfg.maxLen ∧
      Ev.user ∈ handle facts13 cfg req stream none ∧ bytesGot (handle facts13 cfg req stream none) = cfg.maxLen :=
  ⟨⟨true, 10, 8192⟩,
   { wsdl := none, soapOut := false, soapIn := false, preReject := false, readsBody := true,
     contentLength := none, docLen := 10, faultLen := 50,
     intended := .success ⟨none, .notGen, false, .server, false, [4], true⟩, onReturn := none, onException := none,
     aux := .none, auxOnErrors := false, userHeaders := [],
     closeListener := .none, serverSkipsClose := false, faultBody := none, faultIter := .list },
   [15], by decide⟩

/-- the user function is entered only for a document that calls it, at most once, and — when the
    protocol reads a body — only after the complete document has arrived within the limit -/
theorem user_code_needs_complete_document (cfg : Cfg) (req : Req) (stream : List Nat) (abort : Option Nat)
    (hw : req.wsdl = none) (hu : Ev.user ∈ handle facts13 cfg req stream abort) :
    ((∃ fc p, req.intended = .userFault fc p) ∨ (∃ r, req.intended = .success r)) ∧
    req.preReject = false ∧
    (req.readsBody = true →
      req.docLen ≤ bytesGot (handle facts13 cfg req stream abort) ∧
      ∀ d, declaredLength cfg req.contentLength = some d → d ≤ (cfg.maxLen : Int)) := by
  have hu' : Ev.user ∈ (process facts13 cfg req stream).1 := by
    rw [handle_rpc_eq _ _ _ _ _ hw] at hu
    rcases List.mem_append.1 hu with hu | hu
    · exact hu
    · exact absurd (tail_noread _ _ _ _ _ hu).2 (by simp [isUser])
  obtain ⟨h1, h2, h3⟩ := process_user facts13 cfg req stream hu'
  refine ⟨h1, h2, fun hb => ?_⟩
  obtain ⟨hpos, hdoc, hdecl⟩ := h3 hb
  refine ⟨?_, hdecl⟩
  rw [bytesGot_handle_reads facts13 cfg req stream abort hw h2 hb]
  exact hdoc

theorem user_code_at_most_once (cfg : Cfg) (req : Req) (stream : List Nat) (abort : Option Nat) :
    List.countP isUser (handle facts13 cfg req stream abort) ≤ 1 := by
  have hz : ∀ l : List Ev, (∀ e ∈ l, isUser e = false) → List.countP isUser l = 0 := by
    intro l hl; rw [List.countP_eq_zero]; intro e he; simp [hl e he]
  cases hw : req.wsdl with
  | some k =>
    simp only [handle, hw]
    rw [hz _ (fun e he => (isRead_deliver _ _ e he).2.1)]; omega
  | none =>
    rw [handle_rpc_eq _ _ _ _ _ hw, List.countP_append, hz _ (fun e he => (tail_noread _ _ _ _ e he).2)]
    exact countP_user_process facts13 cfg req stream

/-! ### the request context -/

/-- the request context is closed exactly once, not before the callable has returned its iterable
    and not before the last chunk the server takes — for every request (rpc answers, fault answers,
    ?wsdl in its three outcomes) and every abort point -/
theorem context_closed_once_after_body (cfg : Cfg) (req : Req) (stream : List Nat) (abort : Option Nat) :
    List.countP isClosed (handle facts13 cfg req stream abort) = 1 ∧
    noneAfter isChunk isClosed (handle facts13 cfg req stream abort) = true ∧
    noneBefore isClosed isReturned (handle facts13 cfg req stream abort) = true := by
  obtain ⟨pre, o, h, hl, hr, hw⟩ := handle_answered facts13 cfg req stream abort facts_good
  apply h.closed_once
  cases hwk : req.wsdl with
  | some k =>
    obtain ⟨_, rfl⟩ := hw k hwk
    have hb : facts13.wsdlErrClosed = true := by decide
    cases k <;> simp [wsdlOut, atServer, hb]
  | none => rw [(hr hwk).2.2.1]; simp

/-- the `wsgi_close` event of an rpc request fires exactly once, after the body, whatever the listeners
    on it do and however the server consumes the body; it is skipped only when a
    `method_context_closed` listener raised, which ends the finalizer before it gets there -/
theorem wsgi_close_once_after_body (cfg : Cfg) (req : Req) (stream : List Nat) (abort : Option Nat)
    (hw : req.wsdl = none) :
    List.countP isWsgiClose (handle facts13 cfg req stream abort) =
      (if req.closeListener = .ctxClosedRaises then 0 else 1) ∧
    noneAfter isChunk isWsgiClose (handle facts13 cfg req stream abort) = true := by
  obtain ⟨pre, o, h, hl, hr, _⟩ := handle_answered facts13 cfg req stream abort facts_good
  rw [← hl]
  exact h.wsgi_close_once (hr hw).2.2.1

/-- the exception of a raising `method_context_closed` / `wsgi_close` listener reaches the server at
    most once (out of `next()` at the end of the body or out of `close()`), and only after the context
    was closed: the finalizer is never run a second time -/
theorem listener_exception_surfaces_once (cfg : Cfg) (req : Req) (stream : List Nat) (abort : Option Nat) :
    List.countP isLraise (handle facts13 cfg req stream abort) ≤ 1 ∧
    noneBefore isLraise isClosed (handle facts13 cfg req stream abort) = true := by
  obtain ⟨pre, o, h, _, _, _⟩ := handle_answered facts13 cfg req stream abort facts_good
  exact h.lraise_once

/-- why `finalizeClearedFirst` matters (any `F`): if `_ResponseBody.close` clears the finalizer only after
    it returned, a raising listener makes the server's `close()` close the context a second time -/
theorem finalizer_not_cleared_first_closes_twice (F : Facts13) (hf : F.finalizeClearedFirst = false)
    (ht : F.closeTiming = .afterBody) (hj : F.joinKind = .bytes) (hr : F.returnEventBeforeLength = true) :
    ∃ (cfg : Cfg) (req : Req), List.countP isClosed (handle F cfg req [] none) = 2 :=
  ⟨⟨false, 100, 7⟩,
   { wsdl := none, soapOut := false, soapIn := false, preReject := false, readsBody := false,
     contentLength := none, docLen := 0, faultLen := 9,
     intended := .success ⟨none, .notGen, false, .server, false, [5], true⟩, onReturn := none, onException := none,
     aux := .none, auxOnErrors := false, userHeaders := [],
     closeListener := .ctxClosedRaises, serverSkipsClose := false, faultBody := none, faultIter := .list },
   by simp [handle, process, intendedResult, afterUser, respond, withAux, withReturnListener, successOut, hf, ht, hj, hr, finish,
     deliver, auxEvs, hdrEvs, hdrEvsFrom, sum, Result.atServer, atServer, finalEvs, finalOnce, finalAgain, finalRaises,
     exhausted, rpcFinal, chunkEvs, taken, isClosed, List.countP_cons]⟩

/-- the fault body is turned into a list before it is measured: what `handle_error` measures is what it
    sends, for a list, a generator (JsonDocument) and any other one-shot iterator (JsonP's
    `itertools.chain`, a user-supplied `iter(...)` / `map`) -/
theorem fault_body_is_materialised (req : Req) : errBody facts13 req = errMeasured req :=
  errBody_eq_measured facts13 req (Good.errMat facts_good)

/-- why the materialisation facts matter (any `F`): summing the lengths of a one-shot iterator uses it
    up — the announced length is that of the fault document, the body is empty -/
theorem unmaterialised_fault_body_is_lost (F : Facts13) (hi : F.errMaterialisesIterator = false)
    (req : Req) (h1 : req.onException = none) (h2 : req.faultIter = .iterator) :
    errBody F req = [] ∧ errMeasured req = errBody0 req := by
  simp [errBody, errMeasured, errMaterialised, h1, h2, hi]

/-- `?wsdl`: the exact trace of the three outcomes, fully consumed -/
theorem wsdl_conformance (cfg : Cfg) (req : Req) (stream : List Nat) (len : Nat) :
    (req.wsdl = some (.ok len) → handle facts13 cfg req stream none =
      [.startResponse 200 none (some len), .returned, .chunk len true] ++ wsdlFinal req.closeListener) ∧
    (req.wsdl = some .unavailable → handle facts13 cfg req stream none =
      [.startResponse 404 none none, .returned, .chunk 13 true] ++ wsdlFinal req.closeListener) ∧
    (req.wsdl = some .buildError → handle facts13 cfg req stream none =
      [.startResponse 500 none none, .returned, .chunk 25 true] ++ wsdlFinal req.closeListener) := by
  refine ⟨?_, ?_, ?_⟩ <;> intro h <;>
    simp [handle, h, deliver, wsdlOut, atServer, facts13, chunkEvs, taken, finalEvs, finalOnce, auxEvs]

/-! ### non-vacuity: the hypotheses above are satisfiable and the model is not trivial -/

def exCfg : Cfg := ⟨true, 100, 7⟩
def exReq : Req :=
  { wsdl := none, soapOut := false, soapIn := false, preReject := false, readsBody := true,
    contentLength := some "20".toList, docLen := 20, faultLen := 30,
    intended := .success ⟨none, .yields, false, .server, false, [1, 2, 3], true⟩, onReturn := none, onException := none,
     aux := .none, auxOnErrors := false, userHeaders := [],
     closeListener := .none, serverSkipsClose := false, faultBody := none, faultIter := .list }

example : handle facts13 exCfg exReq [5, 100, 100, 100] (some 2) =
    [.read 7 5, .read 7 7, .read 7 7, .read 1 1, .user, .startResponse 200 none (some 6), .returned,
     .chunk 1 true, .chunk 2 true, .ctxClosed, .wsgiClose] := by decide +kernel

-- a declared length over the limit (hypotheses of `too_long_refused_partial`)
example : declaredLength exCfg (some "101".toList) = some 101 ∧ (101 : Int) > (exCfg.maxLen : Int) := by
  decide +kernel
example : handle facts13 exCfg { exReq with contentLength := some "101".toList } [200] none =
    [.startResponse 413 (some .tooLong) (some 30), .returned, .chunk 30 true, .ctxClosed, .wsgiClose] := by
  decide +kernel
-- a `wsgi_exception` listener that replaces the fault document by two chunks
example : handle facts13 exCfg { exReq with contentLength := some "101".toList, onException := some [4, 3] } [200] none =
    [.startResponse 413 (some .tooLong) (some 7), .returned, .chunk 4 true, .chunk 3 true, .ctxClosed, .wsgiClose] := by
  decide +kernel
-- a `wsgi_return` listener that replaces a 6-byte, 3-chunk stream by one of 2 bytes (hypothesis of
-- `rewritten_response_is_measured`), chunked and not
example : handle facts13 exCfg { exReq with onReturn := some ⟨[2], true⟩ } [100, 100, 100] none =
    [.read 7 7, .read 7 7, .read 6 6, .user, .startResponse 200 none (some 2), .returned, .chunk 2 true,
     .ctxClosed, .wsgiClose] := by decide +kernel
example : handle facts13 ⟨false, 100, 7⟩ { exReq with onReturn := some ⟨[1, 1], false⟩ } [100, 100, 100] none =
    [.read 7 7, .read 7 7, .read 6 6, .user, .startResponse 200 none (some 2), .returned, .chunk 2 true,
     .ctxClosed, .wsgiClose] := by decide +kernel
-- an auxiliary method whose response cannot be serialised, and user-set headers (str, tuple of 2, empty list)
example : handle facts13 exCfg { exReq with aux := .serFail, userHeaders := [.str, .tuple 2, .list 0] } [100, 100, 100] (some 1) =
    [.read 7 7, .read 7 7, .read 6 6, .user, .hdr 0 true, .hdr 1 true, .hdr 1 true,
     .startResponse 200 none (some 6), .aux, .returned, .chunk 1 true, .ctxClosed, .wsgiClose] := by decide +kernel
-- on the error path the auxiliary method runs only with process_exceptions
example : handle facts13 exCfg { exReq with intended := .userFault .client none, aux := .serFail, auxOnErrors := true } [100, 100, 100] none =
    [.read 7 7, .read 7 7, .read 6 6, .user, .startResponse 400 (some .client) (some 30), .aux, .returned, .chunk 30 true,
     .ctxClosed, .wsgiClose] := by decide +kernel
example : Ev.aux ∉ handle facts13 exCfg { exReq with intended := .userFault .client none, aux := .ok } [100, 100, 100] none := by
  decide +kernel
-- a `wsgi_close` listener that raises: the server sees it once, the context is closed once
example : handle facts13 exCfg { exReq with closeListener := .wsgiCloseRaises } [100, 100, 100] none =
    [.read 7 7, .read 7 7, .read 6 6, .user, .startResponse 200 none (some 6), .returned, .chunk 1 true, .chunk 2 true,
     .chunk 3 true, .ctxClosed, .wsgiClose, .lraise] := by decide +kernel
-- a JsonP-like fault document (4 chunks in a one-shot iterator) is sent whole
example : handle facts13 exCfg { exReq with intended := .validationError, faultBody := some [2, 1, 60, 2], faultIter := .iterator }
      [100, 100, 100] none =
    [.read 7 7, .read 7 7, .read 6 6, .startResponse 400 (some .client) (some 65), .returned, .chunk 2 true, .chunk 1 true,
     .chunk 60 true, .chunk 2 true, .ctxClosed, .wsgiClose] := by decide +kernel
-- a `before_deserialize` handler that raises something that is not a Fault: a Server fault, no user code
example : handle facts13 exCfg { exReq with intended := .inputHandlerFails } [100, 100, 100] none =
    [.read 7 7, .read 7 7, .read 6 6, .startResponse 500 (some .server) (some 30), .returned, .chunk 30 true,
     .ctxClosed, .wsgiClose] := by decide +kernel
-- a Fault raised by a generator body after its first yield keeps its class (hypotheses of
-- `late_failure_is_a_fault_of_its_class`)
example : handle facts13 exCfg { exReq with intended := .success ⟨none, .yields, true, .notFound, false, [1], false⟩ } [100, 100, 100] none =
    [.read 7 7, .read 7 7, .read 6 6, .user, .startResponse 404 (some .notFound) (some 30), .returned, .chunk 30 true,
     .ctxClosed, .wsgiClose] := by decide +kernel
-- a value the lazy out protocol cannot write, ordinary method, unchunked: a Server fault (the 201 the user chose is dropped)
example : handle facts13 ⟨false, 100, 7⟩ { exReq with intended := .success ⟨some 201, .notGen, false, .server, true, [], false⟩ }
      [100, 100, 100] none =
    [.read 7 7, .read 7 7, .read 6 6, .user, .startResponse 500 (some .server) (some 30), .returned, .chunk 30 true,
     .ctxClosed, .wsgiClose] := by decide +kernel
-- ... chunked: the failure surfaces in the server's hands, after start_response; the context is still closed once
example : handle facts13 exCfg { exReq with intended := .success ⟨some 201, .notGen, false, .server, true, [], false⟩ }
      [100, 100, 100] none =
    [.read 7 7, .read 7 7, .read 6 6, .user, .startResponse 201 none none, .returned, .ctxClosed, .wsgiClose] := by
  decide +kernel
-- a non-numeric CONTENT_LENGTH is a Client fault
example : handle facts13 exCfg { exReq with contentLength := some "abc".toList } [200] none =
    [.startResponse 400 (some .client) (some 30), .returned, .chunk 30 true, .ctxClosed, .wsgiClose] := by
  decide +kernel
-- the user function runs (hypothesis of `user_code_needs_complete_document`)
example : Ev.user ∈ handle facts13 exCfg exReq [7, 7, 6] none := by decide +kernel
-- user-chosen statuses in range (hypothesis of `status_line`)
example : ∀ p ∈ ({ exReq with intended := .userFault .client (some 418) } : Req).presets, 100 ≤ p ∧ p ≤ 599 := by
  decide
-- unchunked, rpc (hypotheses of `unchunked_sends_content_length`)
example : handle facts13 ⟨false, 100, 7⟩ exReq [100, 100, 100] none =
    [.read 7 7, .read 7 7, .read 6 6, .user, .startResponse 200 none (some 6), .returned, .chunk 6 true,
     .ctxClosed, .wsgiClose] := by decide +kernel
-- an aborted generator body
example : handle facts13 exCfg { exReq with intended := .success ⟨some 201, .notGen, false, .server, false, [1, 2, 3], false⟩ } [9, 9, 9] (some 0) =
    [.read 7 7, .read 7 7, .read 6 6, .user, .startResponse 201 none none, .returned, .ctxClosed, .wsgiClose] := by
  decide +kernel

end SpyneModel.Props.C13
