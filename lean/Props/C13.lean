import SpyneModel.Wsgi
import SpyneModel.Generated.Facts13
namespace SpyneModel.Props.C13
open SpyneModel SpyneModel.Wsgi SpyneModel.Generated

theorem stub : facts13.okStatus = 200 := by decide

end SpyneModel.Props.C13
