/-
  C05 (XML part), continued — the enumeration facet (`values`) and falsy values. `SimpleModel.validate_native`
  lets None pass the `values` check of a nillable type; measured (`falsyValuesChecked`, T1 witness:
  Unicode(values=['a','bb']) with '' and Integer(values=[1,2,3]) with 0 under soft validation): ONLY None — the
  falsy non-null values 0, 0.0, '', false are checked against the set. The shared `validateNative` has no None case at
  all (a `Val.str` is a value), so the leaf verdict below is the declared one for the empty string too.
-/
import Proofs.XmlSoft
import Props.Facts08Good
import SpyneModel.XmlHistory
import SpyneModel.Generated.Facts01
namespace SpyneModel.Props.C05xmlvalues
open SpyneModel SpyneModel.Xml SpyneModel.Generated

/-- the empty string is refused by a `values` facet that does not list it, like any other string -/
theorem empty_string_not_in_values_is_refused (mn : Nat) (mx : Option Nat) (pat : Option Pattern) (vals : List Text)
    (hne : vals ≠ []) (hnot : vals.contains [] = false) :
    leafSpec facts08 (.unicode mn mx pat vals) [] = .fault := by
  have hF : factsHist.falsyValuesChecked = true := by decide
  have hempty : vals.isEmpty = false := by cases vals <;> simp_all
  have hmem : ¬ ([] : Text) ∈ vals := by simpa using hnot
  simp [leafSpec, leafFromText, PrimTy.valueOk, hempty]
  intro _ _ _
  exact hmem

/-- a listed string passes the facet -/
theorem listed_value_passes (vals : List Text) (s : Text) (h : vals.contains s = true) :
    leafSpec facts08 (.unicode 0 none none vals) s = .ok (.str s) := by
  have hmem : s ∈ vals := by simpa using h
  simp [leafSpec, leafFromText, PrimTy.valueOk]
  intro _
  exact hmem

example : leafSpec facts08 (.unicode 0 none none ["a".toList, "bb".toList]) [] = .fault := by rfl
example : leafSpec facts08 (.unicode 0 none none ["a".toList, "bb".toList]) "bb".toList = .ok (.str "bb".toList) := by rfl

end SpyneModel.Props.C05xmlvalues
