/-
  The regenerated C08 facts have their good values (kernel-checked by `decide` on every run), hence
  the leaf laws hold for the current /repo. Imported by the codec property files.
-/
import Proofs.LeafGood
import SpyneModel.Generated.Facts08
namespace SpyneModel.Props
open SpyneModel SpyneModel.Generated

theorem facts08_good : facts08.Good where
  offset := by decide
  frac := by decide
  dur := by decide
  bool := by decide
  anchored := by decide
  range := by decide
  msl := fun k => by cases k <;> decide

theorem leafLaws08 : LeafLaws facts08 := leafLaws_good facts08 facts08_good

end SpyneModel.Props
