/-
  C10 (XML part), continued — classes with XmlAttribute / XmlData members: no document makes `from_element`
  let an exception escape. Needs a child element that is named like an attribute / data member to be skipped
  (switch `modifierChildSkipped`: before the fix such a child was fed to the leaf handlers of the modifier
  class; for XmlData that raised — an internal error on hostile input).
-/
import Proofs.XmlAttrNoCrash
import Props.Facts08Good
import SpyneModel.Generated.Facts01
namespace SpyneModel.Props.C10xmlattrs
open SpyneModel SpyneModel.Xml SpyneModel.Generated

/-- deserialisation of any element at any declared type with member kinds: a value or a Client fault -/
theorem xml_decode_no_crash_attrs (cfg : Cfg) (I : IfaceA) (t : TyA) (x : Node) (e : String) :
    decodeA facts08 factsXml factsAttr cfg I t x ≠ .crash e :=
  decodeA_nocrash leafLaws08 factsXml (by decide) cfg I t x e

/-- attribute values and the element text: a value or a Client fault -/
theorem modifier_value_no_crash (cfg : Cfg) (p : PrimTy) (s : Text) (e : String) :
    modifierValue facts08 factsAttr cfg p s ≠ .crash e :=
  modifierValue_nocrash leafLaws08 factsAttr cfg p s e

/-! ### non-vacuity: a child element named like the XmlData member / an attribute member is ignored -/
def exS : TyA := .obj "S".toList "urn:x".toList none
  [("unit".toList, .attribute, .prim (.unicode 0 none none []) {}),
   ("value".toList, .data, .prim (.unicode 0 none none []) {})] {}
example : decodeA facts08 factsXml factsAttr {} ⟨[], [], []⟩ exS
    (.elem [] "s".toList [] none [.elem [] "value".toList [] (some "x".toList) [], .elem [] "unit".toList [] none []]) =
    .ok (.obj "S".toList [("unit".toList, .none), ("value".toList, .none)]) := by rfl

end SpyneModel.Props.C10xmlattrs
