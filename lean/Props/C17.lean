import SpyneModel.XmlParserCfg
import SpyneModel.Generated.Facts17
namespace SpyneModel.Props.C17
open SpyneModel SpyneModel.XmlCfg SpyneModel.Generated

theorem defaults_safe (p : Proto) : Safe (facts17.liveDefaults p) := by cases p <;> decide

end SpyneModel.Props.C17
