/-
  C17 — XML input is parsed with safe defaults (PARTIAL, see below).

  Property theorems only.  Every theorem is about the model instantiated with the facts
  regenerated from /repo on every run (`Generated.facts17`): default keyword tables read from the
  live classes, the constructor plumbing measured by toggling every argument, the parse call sites
  extracted from the current source, libxml2's limits measured through the real protocol object.
  Side conditions on the facts are discharged by `decide`, so a changed default, a re-wired
  keyword, a parse call that is not given `XMLParser(**self.parser_kwargs)` or an uncaught
  XMLSyntaxError stops this file from compiling.

  What is NOT proved (the claim is explicitly partial): that libxml2/lxml behave as the clauses of
  the abstract front end `parse` say (entity references stay unexpanded nodes under
  `resolve_entities=False`, nothing external is opened without `load_dtd`/`resolve_entities`,
  `no_network` blocks network schemes, depth / entity-nesting / amplification limits without
  `huge_tree`), and anything about wall-clock time and real memory.  Those clauses are assumptions,
  compared with the real parser on every run (T2) and observed on the real stack (T3).
-/
import Proofs.XmlParserCfg
import SpyneModel.Generated.Facts17
namespace SpyneModel.Props.C17
open SpyneModel SpyneModel.XmlCfg SpyneModel.Generated

/-! ### configuration: defaults and constructor plumbing (xml.py:286-369) -/

/-- the keyword table of a default-constructed XmlDocument / Soap11 / Soap12 is safe and tidy -/
theorem defaults_safe (p : Proto) : Safe (facts17.liveDefaults p) ∧ Tidy (facts17.liveDefaults p) := by
  cases p <;> decide

/-- the model of the constructor, fed with the defaults of the signature, yields exactly the
    keyword table found on the live default instance -/
theorem ctor_defaults_reach_parser (p : Proto) :
    parserKwargs (facts17.plumb p) (facts17.ctorDefaults p) = facts17.liveDefaults p := by
  cases p <;> decide

/-- for ALL constructor arguments: every parser keyword is the constructor argument of the same
    name and nothing else, `remove_comments` is hard-wired to True -/
theorem plumbing_direct (p : Proto) (a : CtorArgs) : parserKwargs (facts17.plumb p) a = directKw a := by
  cases p <;> exact parserKwargs_direct _ (by decide) a

/-- so a protocol instance is safe exactly when it was constructed with the six safe arguments -/
theorem safe_iff_arguments (p : Proto) (a : CtorArgs) :
    Safe (parserKwargs (facts17.plumb p) a) ↔
      (a.resolveEntities = .off ∧ a.loadDtd = false ∧ a.dtdValidation = false ∧
       a.attributeDefaults = false ∧ a.noNetwork = true ∧ a.hugeTree = false) := by
  rw [plumbing_direct]; exact safe_directKw_iff a

/-- the keyword table is private to the instance, handed to a fresh parser for every request,
    and has no keys beyond the modelled ones (no `schema`, `target`, ...) -/
theorem configuration_private :
    facts17.kwIsolated = true ∧ facts17.parserPerRequest = true ∧ facts17.extraKwKeys = 0 := by decide

/-! ### the configuration path after construction: validator choice, `set_validator`, `set_app`,
    server construction — the keyword table AT REQUEST TIME -/

/-- nothing in spyne/ writes to a `parser_kwargs` outside an `__init__` -/
theorem no_writes_after_init : facts17.kwWritesOutsideInit = 0 := by decide

/-- for ALL constructor arguments, every protocol and every validator setting (None, 'soft',
    'lxml'): the table the parser is built from when a request arrives is the constructor's -/
theorem request_time_is_constructor (p : Proto) (v : Validator) (a : CtorArgs) :
    parserKwargsAtRequest facts17 p v a = directKw a := by
  have h : facts17.post p v = PostInit.keepAll := by cases p <;> cases v <;> decide
  unfold parserKwargsAtRequest
  rw [h, plumbing_direct]
  rfl

/-- Safe is an invariant of every configuration path: constructor arguments × validator × set_app -/
theorem safe_invariant (p : Proto) (v : Validator) (a : CtorArgs)
    (h : a.resolveEntities = .off ∧ a.loadDtd = false ∧ a.dtdValidation = false ∧
         a.attributeDefaults = false ∧ a.noNetwork = true ∧ a.hugeTree = false) :
    Safe (parserKwargsAtRequest facts17 p v a) := by
  rw [request_time_is_constructor]; exact (safe_directKw_iff a).mpr h

/-- in particular the default-constructed protocols, read back from live objects at request time -/
theorem defaults_safe_at_request (p : Proto) (v : Validator) :
    Safe (facts17.liveAtRequest p v) ∧ Tidy (facts17.liveAtRequest p v) ∧
    facts17.liveAtRequest p v = parserKwargsAtRequest facts17 p v (facts17.ctorDefaults p) := by
  cases p <;> cases v <;> decide

example : Safe (parserKwargs (facts17.plumb .soap11) (facts17.ctorDefaults .soap11)) := by decide
example : Safe (parserKwargsAtRequest facts17 .xml .lxml (facts17.ctorDefaults .xml)) := by decide
-- what the facts guard against: a path that switches attribute_defaults on makes the table unsafe
example : ¬ Safe (({ PostInit.keepAll with attributeDefaults := .set true } : PostInit).apply (facts17.liveDefaults .xml)) := by
  decide
example : ¬ Safe (parserKwargs (facts17.plumb .xml) { facts17.ctorDefaults .xml with resolveEntities := .all }) := by decide
example : ¬ Safe (parserKwargs (facts17.plumb .xml) { facts17.ctorDefaults .xml with hugeTree := true }) := by decide

/-! ### call-site discipline (xml.py:425-443, soap11.py:98-117,188-205, soap/mime.py:60-101) -/

/-- every parse call reachable from `create_in_document` of the three protocols is given
    `XMLParser(**self.parser_kwargs)` (or cannot parse at all: an attribute that does not exist) -/
theorem all_request_sites_use_kwargs :
    ∀ s ∈ facts17.sites, s.role.onRequestPath = true → s.parser = .fromKwargs ∨ s.parser = .missingAttr := by
  decide

/-- ... and an XMLSyntaxError raised there becomes `Fault('Client.XMLSyntaxError')` -/
theorem all_request_sites_catch :
    ∀ s ∈ facts17.sites, s.role.onRequestPath = true → s.catchesSyntaxError = true := by decide

/-- the four roles the request path actually goes through are all present and good -/
theorem request_roles_good : SitesUseKwargs facts17 = true ∧ SitesCatch facts17 = true := by decide

/-- no XInclude pass is ever run on a request (XInclude elements are ordinary elements) -/
theorem no_xinclude_pass : facts17.xincludeCalls = 0 := by decide

/-! ### the abstract front end under a safe configuration (for all documents, all worlds) -/

/-- no local file is read, no network resource contacted, no DTD piece loaded -/
theorem no_fetch (kw : ParserKw) (h : Safe kw) (env : Env) (doc : Doc) :
    (parse facts17.lib kw env doc).fetches = [] :=
  parse_quiet_no_fetch _ kw env h.quiet doc

/-- non-interference: what the parser delivers does not depend on anything outside the document
    — the replacement text of external general and parameter entities can reach neither user
    code nor the response, whatever they compute from the parsed document -/
theorem noninterference (kw : ParserKw) (h : Safe kw) (e1 e2 : Env) (doc : Doc) :
    parse facts17.lib kw e1 doc = parse facts17.lib kw e2 doc :=
  parse_quiet_env _ kw e1 e2 h.quiet doc

/-- the DOCTYPE loads nothing: the only declarations in force are those written in the
    document's own internal subset -/
theorem dtd_never_loaded (kw : ParserKw) (h : Safe kw) (env : Env) (d : Dtd) :
    dtdPhase facts17.lib kw env d = ⟨.ok d.ents, []⟩ :=
  dtdPhase_quiet _ kw env h.quiet d

/-- entities are not expanded into element text: the text nodes delivered are exactly the text
    nodes written in the document, in order -/
theorem text_never_substituted (kw : ParserKw) (h : Safe kw) (env : Env) (doc : Doc) (o : List OTok)
    (hok : (parse facts17.lib kw env doc).out = .ok o) : outTexts o = srcTexts doc.body :=
  parse_texts _ kw env h.1 doc o hok

/-- defence in depth: with `no_network` alone — whatever else is switched on — nothing the
    parser opens is a network resource -/
theorem no_network_ever (kw : ParserKw) (h : kw.noNetwork = true) (env : Env) (doc : Doc) :
    ∀ u ∈ (parse facts17.lib kw env doc).fetches, facts17.lib.isNet u.scheme = false :=
  parse_nonnet _ kw env h doc

/-- the same for ANY configuration that neither substitutes external entities nor loads DTDs
    (`resolve_entities` False or 'internal'): nothing is opened -/
theorem no_fetch_without_substitution (kw : ParserKw) (h1 : kw.resolveEntities ≠ .all) (h2 : kw.dtdLoads = false)
    (env : Env) (doc : Doc) : (parse facts17.lib kw env doc).fetches = [] :=
  parse_no_fetch' _ kw env h1 h2 doc

/-- the schema tools (`parse_schema_string`, `parse_schema_file`, xsd includes; not on the request path) parse
    with a module-level parser of their own; as measured it opens nothing on behalf of a document either -/
theorem schema_tool_opens_nothing (env : Env) (doc : Doc) :
    (parse facts17.lib facts17.schemaToolKw env doc).fetches = [] :=
  parse_no_fetch' _ _ env (by decide) (by decide) doc

/-- ... and neither does lxml's default parser, which the remaining off-path sites use -/
theorem lxml_default_opens_nothing (env : Env) (doc : Doc) :
    (parse facts17.lib facts17.lxmlDefault env doc).fetches = [] :=
  parse_no_fetch' _ _ env (by decide) (by decide) doc

/-! ### what the deserialiser takes out of the tree, per kind of value -/

/-- every kind of value (primitive parameters, array items, members of nested classes, XmlData,
    AnyDict leaves) is built from text nodes only; AnyXml / AnyHtml hand the element on as parsed;
    an XmlData value that contains an entity node is refused (the method is not called).
    None reads libxml2's string value, which would materialise entity replacement text. -/
theorem values_read_text_nodes_only (k : Kind) :
    facts17.deliver k = .textNodesOnly ∨ facts17.deliver k = .element ∨ facts17.deliver k = .refused := by
  cases k <;> decide

/-- so, for every kind: what a leaf value is built from does not depend on ANY entity
    declaration (nor on anything else in the parser's state) — no replacement text of an entity,
    internal or external, is materialised by spyne in a value handed to user code -/
theorem no_entity_text_delivered (k : Kind) (c c' : Cfg) (content : List OTok) :
    deliverLeaf (facts17.deliver k) c content = deliverLeaf (facts17.deliver k) c' content := by
  rcases values_read_text_nodes_only k with h | h | h <;> rw [h] <;> rfl

/-- ... and it is the leading text node, which (text_never_substituted) is the document's own text -/
theorem delivered_is_leading_text (k : Kind) (c : Cfg) (content : List OTok)
    (h : facts17.deliver k = .textNodesOnly) : deliverLeaf (facts17.deliver k) c content = leadText content := by
  rw [h]; rfl

-- what the fact guards against: reading the string value substitutes the replacement text
example : deliverLeaf .stringValue ⟨facts17.lib, facts17.liveDefaults .xml, ⟨fun _ => false, fun _ => [], fun _ => []⟩,
      [(1, .internal [.lit "IENT".toList])], false, 50⟩ [.text "pre-".toList, .ent 1] = "pre-IENT".toList := by
  decide +kernel
example : deliverLeaf .textNodesOnly ⟨facts17.lib, facts17.liveDefaults .xml, ⟨fun _ => false, fun _ => [], fun _ => []⟩,
      [(1, .internal [.lit "IENT".toList])], false, 50⟩ [.text "pre-".toList, .ent 1] = "pre-".toList := by
  decide +kernel

/-! ### bombs -/

/-- nesting bomb: a document nested deeper than the limit is rejected -/
theorem nesting_bomb_rejected (kw : ParserKw) (h : Safe kw) (env : Env) (doc : Doc)
    (hd : facts17.lib.maxDepth < maxDepthFrom 0 doc.body) :
    ∃ e, (parse facts17.lib kw env doc).out = .err e :=
  parse_depth _ kw env h.2.2.2.2.2 doc hd

/- FULL STATEMENT (not provable here, kept visible): "entity-expansion or nesting bombs are rejected
   as client syntax faults in bounded TIME and MEMORY", i.e. for every request the wall-clock time and
   the peak memory of the parsing process are O(size of the request).  Time and the allocator of
   libxml2 are outside any executable model; they are measured per request by T3 (wall time and
   peak-RSS growth of the worker subprocess, limits 2 s / 96 MB, observed maxima in the evidence).
   PROVED PART (`_partial`): rejection (nesting_bomb_rejected, entity_loop_rejected,
   rejected_is_client_fault) and the size of everything the parser hands on: -/
/-- expansion bomb, memory: whatever is accepted delivers at most the document's own characters
    plus an expansion that stayed within libxml2's budget — linear in the size of the request -/
theorem bomb_memory_bounded_partial (kw : ParserKw) (h : Safe kw) (env : Env) (doc : Doc) (o : List OTok)
    (hok : (parse facts17.lib kw env doc).out = .ok o) :
    outSize o ≤ litSize doc.body +
      max facts17.lib.allowedExpansion (facts17.lib.maxAmpl * (doc.size + 1)) :=
  parse_bound _ kw env h.2.2.2.2.2 (by decide) doc o hok

/-- entity loop: a document that refers, in element content or in an attribute value, to an
    entity whose replacement text refers to itself is rejected -/
theorem entity_loop_rejected (kw : ParserKw) (h : Safe kw) (env : Env) (doc : Doc) (d : Dtd)
    (n : Nat) (body : List Piece) (hdtd : doc.dtd = some d)
    (hdecl : lookup d.ents n = some (.internal body)) (hself : Piece.ref n ∈ body)
    (huse : Tok.ref n ∈ doc.body ∨
            ∃ tag as nm ps, Tok.open tag as ∈ doc.body ∧ (nm, ps) ∈ as ∧ Piece.ref n ∈ ps) :
    ∃ e, (parse facts17.lib kw env doc).out = .err e := by
  unfold parse
  rw [hdtd]
  simp only [dtdPhase_quiet _ kw env h.quiet d]
  let c : Cfg := ⟨facts17.lib, kw, env, d.ents, d.lenient, doc.size⟩
  have hbad : ∀ ctx, ∃ e, costAt c ctx c.fuel n = .err e :=
    fun ctx => self_loop_rejected c ctx n body hdecl hself c.fuel
  have hw : ∃ e, (walk c c.acct 0 0 doc.body).out = .err e := by
    apply walk_err_of_bad_ref c c.acct n doc.body 0 0
    rw [acct_eq]
    rcases huse with hu | hu
    · exact Or.inl ⟨hbad .text, hu⟩
    · exact Or.inr ⟨hbad .attr, hu⟩
  obtain ⟨e, he⟩ := hw
  exact ⟨e, prepend_out_err _ _ _ e he⟩

/-! ### the request path: `create_in_document` of XmlDocument / Soap11 / Soap12, through
    ServerBase or WSGI, plain or multipart; the rest of the request (deserialisation, the user's
    method, serialisation of the response) is an ARBITRARY function `rest` of the parsed document -/

/-- nothing outside the request can influence what user code receives or what is sent back -/
theorem request_noninterference {α : Type} (p : Proto) (tr : Transport) (kw : ParserKw) (h : Safe kw)
    (e1 e2 : Env) (req : Req) (rest : List OTok → α) :
    handle facts17 p tr kw e1 req rest = handle facts17 p tr kw e2 req rest := by
  unfold handle
  rw [createInDocument_good facts17 (by decide) (by decide), createInDocument_good facts17 (by decide) (by decide),
    pipeline_env _ p tr kw e1 e2 h.quiet req]

/-- serving a request opens no file and no connection on behalf of the document -/
theorem request_touches_nothing {α : Type} (p : Proto) (tr : Transport) (kw : ParserKw) (h : Safe kw)
    (env : Env) (req : Req) (rest : List OTok → α) :
    (handle facts17 p tr kw env req rest).2 = [] := by
  have := pipeline_no_fetch facts17.lib p tr kw env h.quiet req
  unfold handle
  rw [createInDocument_good facts17 (by decide) (by decide)]
  revert this
  cases pipeline facts17.lib p tr kw env req with
  | mk o f => cases o <;> simp

/-- the parser stage never crashes the server: it either hands on a document or answers
    `Client.XMLSyntaxError` (any configuration, any request) -/
theorem parser_stage_never_crashes (p : Proto) (tr : Transport) (kw : ParserKw) (env : Env) (req : Req) :
    (∃ t, (createInDocument facts17 p tr kw env req).1 = .ok t) ∨
    (createInDocument facts17 p tr kw env req).1 = .fault "Client.XMLSyntaxError" := by
  rw [createInDocument_good facts17 (by decide) (by decide)]
  exact pipeline_never_crashes _ p tr kw env req

/-- whatever the front end rejects is answered with the client fault -/
theorem rejected_is_client_fault (p : Proto) (tr : Transport) (kw : ParserKw) (env : Env) (req : Req)
    (e : Err) (hrej : (parse facts17.lib kw env req.doc).out = .err e) :
    (createInDocument facts17 p tr kw env req).1 = .fault "Client.XMLSyntaxError" := by
  rw [createInDocument_good facts17 (by decide) (by decide)]
  exact pipeline_rejects _ p tr kw env req e hrej

/-- in particular a nesting bomb, over any protocol and transport -/
theorem nesting_bomb_is_client_fault (p : Proto) (tr : Transport) (kw : ParserKw) (h : Safe kw) (env : Env)
    (req : Req) (hd : facts17.lib.maxDepth < maxDepthFrom 0 req.doc.body) :
    (createInDocument facts17 p tr kw env req).1 = .fault "Client.XMLSyntaxError" := by
  obtain ⟨e, he⟩ := nesting_bomb_rejected kw h env req.doc hd
  exact rejected_is_client_fault p tr kw env req e he

/-! ### non-vacuity and tightness: concrete documents -/

section examples

def kwDefault : ParserKw := facts17.liveDefaults .xml

/-- a world in which every external identifier resolves to a secret -/
def world (secret : String) : Env :=
  { present := fun _ => true, text := fun _ => secret.toList,
    decls := fun _ => [(900, .internal [.lit secret.toList])] }

/-- `<!DOCTYPE x [<!ENTITY e1 "IENT"><!ENTITY e2 SYSTEM "file:r1">]><r k="a&e1;">x&e1;y&e2;</r>` -/
def docEnt : Doc :=
  { dtd := some ⟨none, [(1, .internal [.lit "IENT".toList]), (2, .external ⟨.file, 1⟩)], []⟩
    body := [.open "r".toList [("k".toList, [.lit "a".toList, .ref 1])], .text "x".toList, .ref 1,
             .text "y".toList, .ref 2, .close]
    size := 100 }

example : Safe kwDefault := by decide

-- with the defaults: references stay references in element text, the attribute gets the internal
-- replacement text, nothing is opened
example : parse facts17.lib kwDefault (world "S1") docEnt =
    ⟨.ok [.open "r".toList [("k".toList, "aIENT".toList, [.lit "a".toList, .ref 1])], .text "x".toList, .ent 1,
          .text "y".toList, .ent 2, .close], []⟩ := by decide +kernel

-- the hypothesis `Safe` matters: with resolve_entities=True the same document reads the file and
-- delivers its content, and the result depends on the world
example : parse facts17.lib { kwDefault with resolveEntities := .all } (world "S1") docEnt =
    ⟨.ok [.open "r".toList [("k".toList, "aIENT".toList, [.lit "aIENT".toList])], .text "x".toList,
          .text "IENT".toList, .text "y".toList, .text "S1".toList, .close], [⟨.file, 1⟩]⟩ := by decide +kernel
example : parse facts17.lib { kwDefault with resolveEntities := .all } (world "S1") docEnt ≠
          parse facts17.lib { kwDefault with resolveEntities := .all } (world "S2") docEnt := by decide +kernel

/-- `<!DOCTYPE x SYSTEM "file:r50" [<!ENTITY % p SYSTEM "http:r51"> %p;]><r>&e900;</r>` -/
def docDtd : Doc :=
  { dtd := some ⟨some ⟨.file, 50⟩, [], [⟨.http, 51⟩]⟩, body := [.open "r".toList [], .ref 900, .close], size := 100 }

example : parse facts17.lib kwDefault (world "S1") docDtd = ⟨.ok [.open "r".toList [], .ent 900, .close], []⟩ := by
  decide +kernel
-- load_dtd alone makes the parser open the external subset (and refuse the network one)
example : (parse facts17.lib { kwDefault with loadDtd := true } (world "S1") docDtd).out = .err .netBlocked := by
  decide +kernel
example : (parse facts17.lib { kwDefault with loadDtd := true } (world "S1") { docDtd with dtd := some ⟨some ⟨.file, 50⟩, [], []⟩ }).fetches
    = [⟨.file, 50⟩] := by decide +kernel

/-- billion laughs: e0 = 10 characters, e(i+1) = ten references to e(i), nine levels -/
def laughs : Decls :=
  (0, .internal [.lit "aaaaaaaaaa".toList]) ::
    (List.range 9).map fun i => (i + 1, EntDef.internal (List.replicate 10 (.ref i)))

def docBombAttr : Doc :=
  { dtd := some ⟨none, laughs, []⟩, body := [.open "r".toList [("k".toList, [.ref 9])], .close], size := 700 }
def docBombText : Doc :=
  { dtd := some ⟨none, laughs, []⟩, body := [.open "r".toList [], .ref 9, .close], size := 700 }

example : (parse facts17.lib kwDefault (world "S") docBombAttr).out = .err .amplification := by decide +kernel
example : (parse facts17.lib kwDefault (world "S") docBombText).out = .err .amplification := by decide +kernel
-- a small chain is inert: accepted, expanded only inside the attribute value
example : (parse facts17.lib kwDefault (world "S")
    { docBombAttr with body := [.open "r".toList [("k".toList, [.ref 1])], .close] }).out =
    .ok [.open "r".toList [("k".toList, (List.replicate 100 'a'), [.ref 1])], .close] := by decide +kernel

/-- mutual loop e1 -> e2 -> e1 -/
example : (parse facts17.lib kwDefault (world "S")
    { dtd := some ⟨none, [(1, .internal [.ref 2]), (2, .internal [.lit "b".toList, .ref 1])], []⟩,
      body := [.open "r".toList [], .ref 1, .close], size := 90 }).out = .err .entDepth := by decide +kernel

/-- nesting: `maxDepth` levels are accepted, one more is rejected; `huge_tree` lifts the limit -/
def nested (n : Nat) : Doc := ⟨none, List.replicate n (.open "a".toList []) ++ List.replicate n .close, 7 * n⟩

example : facts17.lib.maxDepth < maxDepthFrom 0 (nested (facts17.lib.maxDepth + 1)).body := by decide +kernel
example : (parse facts17.lib kwDefault (world "S") (nested facts17.lib.maxDepth)).out =
    .ok (List.replicate facts17.lib.maxDepth (.open "a".toList []) ++ List.replicate facts17.lib.maxDepth .close) := by
  decide +kernel
example : (parse facts17.lib kwDefault (world "S") (nested (facts17.lib.maxDepth + 1))).out = .err .depth := by
  decide +kernel
example : (parse facts17.lib { kwDefault with hugeTree := true } (world "S") (nested (facts17.lib.maxDepth + 1))).out =
    .ok (List.replicate (facts17.lib.maxDepth + 1) (.open "a".toList []) ++ List.replicate (facts17.lib.maxDepth + 1) .close) := by
  decide +kernel

/-- the request path: a multipart SOAP request carrying an internal entity in element text is
    parsed twice with the protocol's keywords; the reference is never substituted (the second
    parse sees an undeclared reference and answers the client fault) -/
example : (createInDocument facts17 .soap11 .wsgi kwDefault (world "S") ⟨docEnt, true, false⟩).1 =
    .fault "Client.XMLSyntaxError" := by decide +kernel
example : (createInDocument facts17 .soap11 .wsgi kwDefault (world "S") ⟨docEnt, false, false⟩).1 =
    .ok [.open "r".toList [("k".toList, "aIENT".toList, [.lit "a".toList, .ref 1])], .text "x".toList, .ent 1,
         .text "y".toList, .ent 2, .close] := by decide +kernel

/-- what the call-site facts guard against: the same facts with `_join_attachment` given lxml's
    default parser (as on the tree before the repair) substitute the entity into element text -/
def factsMimeDefault : Facts17 :=
  { facts17 with sites := facts17.sites.map fun s =>
      if s.role == .mimeJoin then { s with parser := .lxmlDefault, catchesSyntaxError := false } else s }

example : (createInDocument factsMimeDefault .soap11 .wsgi kwDefault (world "S")
    ⟨{ docEnt with body := [.open "r".toList [], .text "x".toList, .ref 1, .close] }, true, false⟩).1 =
    .ok [.open "r".toList [], .text "x".toList, .text "IENT".toList, .close] := by decide +kernel
example : (createInDocument factsMimeDefault .soap11 .wsgi kwDefault (world "S") ⟨docBombText, true, false⟩).1 =
    .crash "XMLSyntaxError" := by decide +kernel

end examples

end SpyneModel.Props.C17
